(* C09 - scan stability under a delete (iwkv_del, iwkv_cursor_del) on the node model with cursor copies.
   A successful delete either removes one record of a node that keeps other records, or unlinks a node that held
   only that record.  After the cursor fix-up of the model, a cursor that stood on another record still stands on
   it; a cursor that stood on the deleted record stands on a neighbour with the pending-step marker set so that
   the forward scan continues exactly where it would have continued.  In every case the remaining forward scan
   is the old remaining scan minus the deleted key.  All chains, cursors and keys - no bound. *)
Require Import List ZArith Bool Lia Sorted. Import ListNotations.
Require Import IW.KV.Node IW.KV.Spec IW.KV.Node_proofs IW.KV.Cursor IW.KV.Cursor_proofs IW.KV.Stable_proofs
               IW.KV.ScanStable_proofs IW.KV.StablePrev_proofs.

Section StableDel.
Variables K V : Type.
Variable cmp : K -> K -> comparison.
Variable IDXNUM PIVOT : nat.
Hypothesis cmp_lt_eq : forall a b c, cmp a b = Lt -> cmp b c = Eq -> cmp a c = Lt.
Hypothesis cmp_antisym : forall a b, cmp a b = CompOpp (cmp b a).
Hypothesis cmp_trans : forall a b c, cmp a b = Lt -> cmp b c = Lt -> cmp a c = Lt.
Hypothesis pivot_ok : 1 <= PIVOT /\ PIVOT < IDXNUM.

Notation chain := (chain K V).
Notation recs := (recs K V).
Notation node := (node K V).
Notation flat := (flat K V).
Notation ids := (map (@fst nat recs)).
Notation NodeInv := (NodeInv K V cmp IDXNUM).
Notation after := (after K V cmp).
Notation before := (before K V cmp).
Notation before_at := (before_at K V cmp cmp_antisym).
Notation node_cursor := (node_cursor K V).

(* ---- what a successful delete does to the chain ---- *)
Inductive del_effect (k : K) (c : chain) : chain -> change -> Prop :=
| DfRemove A nid r B idx : c = A ++ (nid, r) :: B -> idx < length r -> length r <> 1 ->
    found_at K V cmp r k idx = true ->
    del_effect k c (A ++ (nid, remove_at K V r idx) :: B) (ChRemove nid idx)
| DfRemoveNode A nid e B : c = A ++ (nid, [e]) :: B -> cmp (fst e) k = Eq ->
    del_effect k c (A ++ B) (ChRemoveNode nid (last_id_or K V None A) (nid_of K V B)).

Lemma del_nodes_locates : forall rest prev lower k c' ch,
  del_nodes K V cmp prev lower rest k = Some (c', ch) ->
  exists pre lid lrecs rest2 c2,
    lower :: rest = pre ++ (lid, lrecs) :: rest2 /\
    found_at K V cmp lrecs k (pos K V cmp lrecs k) = true /\
    del_at K V (last_id_or K V prev pre) (lid, lrecs) rest2 (pos K V cmp lrecs k) = (c2, ch) /\
    c' = pre ++ c2.
Proof.
  induction rest as [|nx rest' IH]; intros prev [lid lrecs] k c' ch H; cbn [del_nodes snd fst] in H.
  - destruct (found_at K V cmp lrecs k (pos K V cmp lrecs k)) eqn:Ef; [|discriminate].
    exists [], lid, lrecs, [], c'. split; [reflexivity|]. split; [exact Ef|]. split; [|reflexivity].
    unfold last_id_or. cbn [rev]. injection H as H1. exact H1.
  - destruct (first_le K V cmp (snd nx) k).
    + destruct (del_nodes K V cmp (Some lid) nx rest' k) as [[c0 ch0]|] eqn:E; [|discriminate].
      inversion H; subst. destruct (IH _ _ _ _ _ E) as [pre [l2 [r2 [rest2 [c2 [H1 [H2 [H3 H4]]]]]]]].
      exists ((lid, lrecs) :: pre), l2, r2, rest2, c2. split; [rewrite H1; reflexivity|]. split; [exact H2|].
      split; [rewrite last_id_or_cons; exact H3|rewrite H4; reflexivity].
    + destruct (found_at K V cmp lrecs k (pos K V cmp lrecs k)) eqn:Ef; [|discriminate].
      exists [], lid, lrecs, (nx :: rest'), c'. split; [reflexivity|]. split; [exact Ef|]. split; [|reflexivity].
      unfold last_id_or. cbn [rev]. injection H as H1. exact H1.
Qed.

Theorem del_chain_effect (c : chain) k c' ch :
  del_chain K V cmp c k = Some (c', ch) -> del_effect k c c' ch.
Proof.
  intros H. destruct c as [|n0 rest]; cbn [del_chain] in H; [discriminate|].
  destruct (first_le K V cmp (snd n0) k); [|discriminate].
  destruct (del_nodes_locates _ _ _ _ _ _ H) as [pre [lid [lrecs [rest2 [c2 [H1 [H2 [H3 H4]]]]]]]].
  rewrite H1, H4. unfold del_at in H3. destruct (Nat.eqb (length lrecs) 1) eqn:El.
  - apply Nat.eqb_eq in El. inversion H3; subst c2 ch.
    destruct lrecs as [|e [|e2 l2]]; cbn [length] in El; try lia.
    apply (DfRemoveNode k _ pre lid e rest2); [reflexivity|]. unfold found_at in H2.
    destruct (nth_error [e] (pos K V cmp [e] k)) as [[k1 v1]|] eqn:En; [|discriminate].
    destruct (pos K V cmp [e] k) as [|[|n]]; cbn [nth_error] in En; try discriminate.
    inversion En; subst e. cbn [fst]. destruct (cmp k1 k); try discriminate. reflexivity.
  - apply Nat.eqb_neq in El. inversion H3; subst c2 ch.
    apply (DfRemove k _ pre lid lrecs rest2); [reflexivity| |exact El|exact H2].
    unfold found_at in H2. destruct (nth_error lrecs (pos K V cmp lrecs k)) eqn:En; [|discriminate].
    apply nth_error_Some. congruence.
Qed.

(* ---- entries of the chain after a node was unlinked ---- *)
Lemma removal_entries : forall (A : chain) nid rn (B : chain) j pv0 pv r nx, j <> nid ->
  find_node K V pv0 (A ++ (nid, rn) :: B) j = Some (pv, r, nx) ->
  exists pv' nx', find_node K V pv0 (A ++ B) j = Some (pv', r, nx') /\
    (pv <> Some nid -> pv' = pv) /\ (nx <> Some nid -> nx' = nx).
Proof.
  induction A as [|[a ra] A IH]; intros nid rn B j pv0 pv r nx Hne H.
  - cbn [app find_node] in H. assert (E : Nat.eqb nid j = false) by (apply Nat.eqb_neq; congruence). rewrite E in H.
    destruct B as [|[b0 rb] B']; [discriminate|]. cbn [app]. cbn [find_node] in *.
    destruct (Nat.eqb b0 j) eqn:Eb.
    + injection H as E1 E2 E3. exists pv0, (nid_of K V B'). rewrite E2. split; [reflexivity|].
      split; [intros Hc; congruence|intros _; exact E3].
    + exists pv, nx. split; [exact H|]. split; reflexivity.
  - cbn [app find_node] in *. destruct (Nat.eqb a j) eqn:Ea.
    + injection H as E1 E2 E3. exists pv0, (nid_of K V (A ++ B)). rewrite E2. split; [reflexivity|].
      split; [intros _; exact E1|].
      intros Hnx. destruct A as [|[a2 r2] A']; cbn [app nid_of] in *; [congruence|exact E3].
    + apply (IH nid rn B j (Some a) pv r nx Hne H).
Qed.

Lemma read_entry (c : chain) cur id p pv r nx e0 :
  node_cursor c cur id p -> find_node K V None c id = Some (pv, r, nx) -> cursor_read K V c cur = Some e0 ->
  nth_error r p = Some e0 /\ p < length r /\
  c_cn cur = Some {| cc_node := CnNode id; cc_pnum := length r; cc_p0 := pv; cc_n0 := nx |}.
Proof.
  intros [cc [H1 [H2 H3]]] Hf Hr. unfold load_node in H2. rewrite Hf in H2. inversion H2; subst cc.
  unfold cursor_read, cursor_at in Hr. rewrite H1 in Hr. cbn [cc_node cc_pnum] in Hr. rewrite H3 in Hr.
  destruct (Nat.ltb p (length r)) eqn:El; [|discriminate]. rewrite Hf in Hr.
  split; [exact Hr|]. split; [apply Nat.ltb_lt; exact El|exact H1].
Qed.

Lemma node_cursor_entry (c : chain) cur id p :
  node_cursor c cur id p -> exists pv r nx, find_node K V None c id = Some (pv, r, nx).
Proof.
  intros [cc [_ [H2 _]]]. unfold load_node in H2.
  destruct (find_node K V None c id) as [[[pv r] nx]|]; [eauto|discriminate].
Qed.

Definition opt_is (o : option nat) (id : nat) : bool := match o with Some j => Nat.eqb j id | None => false end.
Lemma opt_is_false o id : opt_is o id = false -> o <> Some id.
Proof. destruct o as [j|]; cbn [opt_is]; [|discriminate]. intros H E. inversion E; subst. rewrite Nat.eqb_refl in H. discriminate. Qed.

(* a cursor on another node when node nid is unlinked: its copy is refreshed when it names nid as a neighbour *)
Lemma removal_other (A B : chain) nid rn cur id p e0 :
  let c := A ++ (nid, rn) :: B in let c' := A ++ B in
  node_cursor c cur id p -> id <> nid -> cursor_read K V c cur = Some e0 ->
  let cur' := match c_cn cur with
              | Some cc => if opt_is (cc_n0 cc) nid || opt_is (cc_p0 cc) nid
                           then set_cn cur (refresh K V IDXNUM c' cc) else cur
              | None => cur end in
  node_cursor c' cur' id p /\ c_skip cur' = c_skip cur /\ cursor_read K V c' cur' = Some e0.
Proof.
  intros c c' Hnc Hne Hr. cbv zeta.
  destruct (node_cursor_entry c cur id p Hnc) as [pv [r [nx Hf]]].
  destruct (read_entry c cur id p pv r nx e0 Hnc Hf Hr) as [Hnth [Hp Hcn]].
  destruct (removal_entries A nid rn B id None pv r nx Hne Hf) as [pv' [nx' [Hf' [Hpv Hnx]]]].
  assert (Hpos : c_pos cur = p) by (destruct Hnc as [cc [_ [_ H3]]]; exact H3).
  assert (Hl' : load_node K V c' id = Some {| cc_node := CnNode id; cc_pnum := length r; cc_p0 := pv'; cc_n0 := nx' |})
    by (unfold load_node, c'; rewrite Hf'; reflexivity).
  rewrite Hcn. cbn [cc_n0 cc_p0].
  destruct (opt_is nx nid || opt_is pv nid) eqn:Eb.
  - unfold refresh. cbn [cc_node]. rewrite Hl'. unfold set_cn. cbn [c_skip].
    split; [eexists; split; [reflexivity|split; [exact Hl'|exact Hpos]]|]. split; [reflexivity|].
    rewrite <- Hnth. eapply read_positioned; [reflexivity|exact Hpos|exact Hp|exact Hf'].
  - apply orb_false_iff in Eb. destruct Eb as [E1 E2].
    rewrite (Hpv (opt_is_false _ _ E2)), (Hnx (opt_is_false _ _ E1)) in *.
    split; [eexists; split; [exact Hcn|split; [exact Hl'|exact Hpos]]|]. split; [reflexivity|].
    rewrite <- Hnth. eapply read_positioned; [exact Hcn|exact Hpos|exact Hp|exact Hf'].
Qed.

(* ---- list facts ---- *)
Lemma remove_at_split (r : recs) idx : idx < length r -> remove_at K V r idx = firstn idx r ++ skipn (S idx) r.
Proof.
  revert idx; induction r as [|x r IH]; intros [|idx] H; cbn [length] in H; try lia; cbn [remove_at firstn skipn app].
  - reflexivity.
  - f_equal. apply IH. lia.
Qed.
Lemma remove_at_len (r : recs) idx : idx < length r -> length (remove_at K V r idx) = length r - 1.
Proof.
  revert idx; induction r as [|x r IH]; intros [|idx] H; cbn [length] in H; try lia; cbn [remove_at length]; [lia|].
  rewrite IH by lia. lia.
Qed.
Lemma skipn_remove_at (r : recs) idx : skipn (S idx) (remove_at K V r idx) = skipn (S (S idx)) r.
Proof.
  revert idx; induction r as [|x r IH]; intros idx.
  - destruct idx; reflexivity.
  - destruct idx as [|idx]; cbn [remove_at]; [reflexivity|]. change (skipn (S (S idx)) (x :: remove_at K V r idx)) with (skipn (S idx) (remove_at K V r idx)).
    change (skipn (S (S (S idx))) (x :: r)) with (skipn (S (S idx)) r). apply IH.
Qed.
Lemma firstn_remove_at (r : recs) idx p : p <= idx -> firstn p (remove_at K V r idx) = firstn p r.
Proof.
  revert idx p; induction r as [|x r IH]; intros idx p H; [destruct idx, p; reflexivity|].
  destruct idx as [|idx]; [assert (p = 0) by lia; subst p; reflexivity|].
  destruct p as [|p]; [reflexivity|]. cbn [remove_at firstn]. f_equal. apply IH. lia.
Qed.
Lemma last_split (ra : recs) e : nth_error ra (length ra - 1) = Some e -> ra = firstn (length ra - 1) ra ++ [e].
Proof.
  intros H. assert (Hl : length ra - 1 < length ra) by (apply nth_error_Some; congruence).
  rewrite <- (firstn_S_nth _ ra (length ra - 1) e H). replace (S (length ra - 1)) with (length ra) by lia.
  symmetry. apply firstn_all.
Qed.
Lemma nth_remove_before (r : recs) idx p : p < idx -> nth_error (remove_at K V r idx) p = nth_error r p.
Proof.
  intros H. pose proof (remove_keeps_record K V 1 (le_n 1) r idx p ltac:(lia)) as E.
  assert (El : Nat.ltb idx p = false) by (apply Nat.ltb_ge; lia). rewrite El in E. exact E.
Qed.

Lemma flat_mid (A B : chain) nid (r : recs) : flat (A ++ (nid, r) :: B) = flat A ++ r ++ flat B.
Proof. rewrite flat_app'. reflexivity. Qed.

Lemma cmp_refl' a : cmp a a = Eq.
Proof. pose proof (cmp_antisym a a) as H. destruct (cmp a a); simpl in H; congruence. Qed.

(* the remaining scan behind slot p of node nid, structurally *)
Lemma after_at (A B : chain) nid (r : recs) p k0 v0 :
  sorted K V cmp (flat (A ++ (nid, r) :: B)) -> nth_error r p = Some (k0, v0) ->
  after (flat (A ++ (nid, r) :: B)) k0 = skipn (S p) r ++ flat B.
Proof.
  intros Hs Hnth. rewrite flat_mid in *. pose proof (split_at_nth K V r p (k0, v0) Hnth) as Er.
  assert (Hfc : flat A ++ r ++ flat B = (flat A ++ firstn p r) ++ (k0, v0) :: (skipn (S p) r ++ flat B)).
  { rewrite <- !app_assoc. f_equal.
    replace (firstn p r ++ (k0, v0) :: skipn (S p) r ++ flat B)
      with ((firstn p r ++ (k0, v0) :: skipn (S p) r) ++ flat B) by (rewrite <- app_assoc; reflexivity).
    rewrite <- Er. reflexivity. }
  rewrite Hfc in *.
  rewrite (after_app_lt K V cmp).
  - cbn [ScanStable_proofs.after]. rewrite cmp_refl'. reflexivity.
  - apply (sorted_app_inv K V cmp) in Hs. destruct Hs as [_ [_ H]].
    apply Forall_forall. intros x Hx. apply (H x (k0, v0) Hx). left. reflexivity.
Qed.

(* removing the element whose key equals k from a sorted list is s_del *)
Lemma s_del_mid (L R : recs) x k : sorted K V cmp (L ++ x :: R) -> cmp (fst x) k = Eq ->
  s_del K V cmp (L ++ x :: R) k = L ++ R.
Proof.
  intros Hs He. rewrite (s_del_app_lt K V cmp).
  - destruct x as [k1 v1]. cbn [Spec.s_del fst] in *. rewrite He. reflexivity.
  - apply (sorted_app_inv K V cmp) in Hs. destruct Hs as [_ [_ H]].
    apply Forall_forall. intros y Hy. apply cmp_lt_eq with (fst x); [|exact He]. apply (H y x Hy). left. reflexivity.
Qed.

Lemma found_at_nth (r : recs) k idx : found_at K V cmp r k idx = true ->
  exists k1 v1, nth_error r idx = Some (k1, v1) /\ cmp k1 k = Eq.
Proof.
  unfold found_at. destruct (nth_error r idx) as [[k1 v1]|]; [|discriminate]. intros H.
  exists k1, v1. split; [reflexivity|]. destruct (cmp k1 k); try discriminate. reflexivity.
Qed.

Theorem del_effect_flat k (c c' : chain) ch :
  del_effect k c c' ch -> sorted K V cmp (flat c) -> flat c' = s_del K V cmp (flat c) k.
Proof.
  intros He Hs. destruct He as [A nid r B idx Hc Hi Hl Hfo|A nid e B Hc He].
  - subst c. destruct (found_at_nth r k idx Hfo) as [k1 [v1 [Hnth Hk]]].
    rewrite !flat_mid in *. rewrite (remove_at_split r idx Hi).
    pose proof (split_at_nth K V r idx (k1, v1) Hnth) as Er.
    assert (Hfc : flat A ++ r ++ flat B = (flat A ++ firstn idx r) ++ (k1, v1) :: (skipn (S idx) r ++ flat B)).
    { rewrite <- !app_assoc. f_equal.
      replace (firstn idx r ++ (k1, v1) :: skipn (S idx) r ++ flat B)
        with ((firstn idx r ++ (k1, v1) :: skipn (S idx) r) ++ flat B) by (rewrite <- app_assoc; reflexivity).
      rewrite <- Er. reflexivity. }
    rewrite Hfc in *. rewrite (s_del_mid _ _ (k1, v1) k Hs Hk). rewrite <- !app_assoc. reflexivity.
  - subst c. rewrite flat_mid in *. cbn [app] in *. rewrite (s_del_mid _ _ e k Hs He). apply flat_app'.
Qed.

Theorem del_effect_inv k (c c' : chain) ch :
  del_effect k c c' ch -> NodeInv c -> ids_unique K V c -> NodeInv c' /\ ids_unique K V c'.
Proof.
  intros He [Hok Hs] Hu. pose proof (del_effect_flat k c c' ch He Hs) as Hflat.
  split; [split|].
  - destruct He as [A nid r B idx Hc Hi Hl Hfo|A nid e B Hc He]; subst c.
    + apply Forall_app in Hok. destruct Hok as [HA HB]. inversion HB as [|? ? Hn HB']; subst.
      apply Forall_app. split; [exact HA|]. constructor; [|exact HB'].
      destruct Hn as [Hn1 Hn2]. cbn [snd] in *. split.
      * intros E. pose proof (remove_at_len r idx Hi) as Hlen. cbn [snd] in E. rewrite E in Hlen. cbn [length] in Hlen. lia.
      * cbn [snd]. rewrite remove_at_len by exact Hi. lia.
    + apply Forall_app in Hok. destruct Hok as [HA HB]. inversion HB; subst. apply Forall_app. split; assumption.
  - rewrite Hflat. apply s_del_sorted; assumption.
  - unfold ids_unique in *. destruct He as [A nid r B idx Hc Hi Hl Hfo|A nid e B Hc He]; subst c.
    + rewrite map_app in *. exact Hu.
    + rewrite map_app in *. cbn [map fst] in Hu. eapply NoDup_remove_1. exact Hu.
Qed.

(* ---- what the fix-up leaves behind ---- *)
Inductive del_outcome (k : K) (c c' : chain) (cur cur' : cursor) (k0 : K) (v0 : V) : Prop :=
| OutSame id' p' : node_cursor c' cur' id' p' -> c_skip cur' = c_skip cur ->
    cursor_read K V c' cur' = Some (k0, v0) -> del_outcome k c c' cur cur' k0 v0
| OutSucc id' p' k1 v1 : cmp k0 k = Eq -> node_cursor c' cur' id' p' -> c_skip cur' = 1%Z ->
    cursor_read K V c' cur' = Some (k1, v1) ->
    after (flat c) k0 = (k1, v1) :: after (flat c') k1 -> before (flat c) k0 = before (flat c') k1 ->
    del_outcome k c c' cur cur' k0 v0
| OutPred id' p' k1 v1 : cmp k0 k = Eq -> node_cursor c' cur' id' p' -> c_skip cur' = (-1)%Z ->
    cursor_read K V c' cur' = Some (k1, v1) ->
    after (flat c) k0 = after (flat c') k1 -> before (flat c) k0 = before (flat c') k1 ++ [(k1, v1)] ->
    del_outcome k c c' cur cur' k0 v0
| OutEmpty : cmp k0 k = Eq -> cur' = {| c_cn := None; c_pos := 0; c_skip := 0%Z; c_pend := c_pend cur |} -> c' = [] ->
    after (flat c) k0 = [] -> before (flat c) k0 = [] -> del_outcome k c c' cur cur' k0 v0.

Definition mk (cc : ccopy) (p : nat) (sk : Z) (pe : pending) : cursor :=
  {| c_cn := Some cc; c_pos := p; c_skip := sk; c_pend := pe |}.
Definition copy_of (id : nat) (pv : option nat) (r : recs) (nx : option nat) : ccopy :=
  {| cc_node := CnNode id; cc_pnum := length r; cc_p0 := pv; cc_n0 := nx |}.

Lemma fix_remove_compute (c' : chain) cur nid p idx pv r' nx :
  positioned cur nid p -> find_node K V None c' nid = Some (pv, r', nx) ->
  fix_remove K V IDXNUM c' nid idx cur =
  let cc' := copy_of nid pv r' nx in
  if Nat.eqb p idx then
    (if negb (Nat.eqb idx 0) && Nat.eqb idx (length r') then mk cc' (p - 1) (-1) (c_pend cur) else mk cc' p 1 (c_pend cur))
  else if Nat.ltb idx p then mk cc' (p - 1) (c_skip cur) (c_pend cur) else mk cc' p (c_skip cur) (c_pend cur).
Proof.
  intros Hpos Hf. pose proof (on_node_positioned _ _ _ Hpos) as Hon. destruct Hpos as [cc [H1 [H2 H3]]].
  unfold fix_remove, fix_remove_in. rewrite Hf, Hon. unfold with_cn. rewrite H1. unfold set_cn.
  cbn [c_pos c_cn c_skip c_pend]. unfold refresh. rewrite H2. unfold load_node. rewrite Hf. rewrite H3.
  cbv zeta. unfold mk, copy_of. destruct (Nat.eqb p idx); [destruct (negb (Nat.eqb idx 0) && Nat.eqb idx (length r')); reflexivity|].
  destruct (Nat.ltb idx p); [reflexivity|]. rewrite <- H3. reflexivity.
Qed.

Lemma mk_node_cursor (c : chain) id pv r nx p sk pe :
  find_node K V None c id = Some (pv, r, nx) -> node_cursor c (mk (copy_of id pv r nx) p sk pe) id p.
Proof. intros Hf. eexists. split; [reflexivity|]. split; [|reflexivity]. unfold load_node. rewrite Hf. reflexivity. Qed.
Lemma mk_read (c : chain) id pv r nx p sk pe :
  find_node K V None c id = Some (pv, r, nx) -> p < length r ->
  cursor_read K V c (mk (copy_of id pv r nx) p sk pe) = nth_error r p.
Proof. intros Hf Hp. eapply read_positioned; [reflexivity|reflexivity|exact Hp|exact Hf]. Qed.

(* a record removed from a node that keeps other records *)
Theorem remove_in_node k (A B : chain) nid r idx cur id p k0 v0 :
  let c := A ++ (nid, r) :: B in let c' := A ++ (nid, remove_at K V r idx) :: B in
  idx < length r -> length r <> 1 -> found_at K V cmp r k idx = true -> ids_unique K V c -> sorted K V cmp (flat c) -> sorted K V cmp (flat c') ->
  node_cursor c cur id p -> cursor_read K V c cur = Some (k0, v0) ->
  del_outcome k c c' cur (fix_cursor K V IDXNUM PIVOT c' (ChRemove nid idx) cur) k0 v0.
Proof.
  intros c c' Hi Hl Hfo Hu Hs Hs' Hnc Hr. cbn [fix_cursor].
  destruct (Nat.eq_dec id nid) as [->|Hne].
  - pose proof (unique_not_in_pre K V A B nid r Hu) as Hnin.
    destruct (read_some_pos K V c cur nid p (k0, v0) A r B Hnc eq_refl Hu Hr) as [Hnth Hp].
    assert (Hf' : find_node K V None c' nid = Some (last_id_or K V None A, remove_at K V r idx, nid_of K V B))
      by (unfold c'; apply single_change_self; exact Hnin).
    rewrite (fix_remove_compute c' cur nid p idx _ _ _ (nc_positioned K V c cur nid p Hnc) Hf'). cbv zeta.
    pose proof (remove_at_len r idx Hi) as Hlen.
    destruct (Nat.eqb p idx) eqn:Epi.
    + apply Nat.eqb_eq in Epi. subst p.
      assert (Hk0 : cmp k0 k = Eq).
      { destruct (found_at_nth r k idx Hfo) as [k1' [v1' [Hn' Hk']]]. rewrite Hnth in Hn'. inversion Hn'; subst. exact Hk'. }
      destruct (negb (Nat.eqb idx 0) && Nat.eqb idx (length (remove_at K V r idx))) eqn:Eb.
      * (* the last slot of the node: step back, marker -1 *)
        apply andb_true_iff in Eb. destruct Eb as [E0 E1]. apply negb_true_iff in E0. apply Nat.eqb_neq in E0.
        apply Nat.eqb_eq in E1. rewrite Hlen in E1.
        destruct (nth_error r (idx - 1)) as [[k1 v1]|] eqn:En; [|apply nth_error_None in En; lia].
        assert (Hrd : nth_error (remove_at K V r idx) (idx - 1) = Some (k1, v1)) by (rewrite nth_remove_before by lia; exact En).
        apply (OutPred k c c' cur _ k0 v0 nid (idx - 1) k1 v1).
        -- exact Hk0.
        -- apply mk_node_cursor. exact Hf'.
        -- reflexivity.
        -- rewrite (mk_read c' nid _ _ _ _ _ _ Hf') by lia. exact Hrd.
        -- unfold c, c'. rewrite (after_at A B nid r idx k0 v0 Hs Hnth).
           rewrite (after_at A B nid (remove_at K V r idx) (idx - 1) k1 v1 Hs' Hrd).
           rewrite !skipn_all2 by lia. reflexivity.
        -- unfold c, c'. rewrite (before_at A B nid r idx k0 v0 Hs Hnth).
           rewrite (before_at A B nid (remove_at K V r idx) (idx - 1) k1 v1 Hs' Hrd).
           rewrite (firstn_remove_at r idx (idx - 1)) by lia. rewrite <- app_assoc. f_equal.
           replace idx with (S (idx - 1)) at 1 by lia. apply firstn_S_nth. exact En.
      * (* the slot now holds the successor: marker +1 *)
        assert (Hsi : S idx < length r).
        { apply andb_false_iff in Eb. destruct Eb as [E0|E1].
          - apply negb_false_iff in E0. apply Nat.eqb_eq in E0. subst idx. lia.
          - apply Nat.eqb_neq in E1. lia. }
        destruct (nth_error r (S idx)) as [[k1 v1]|] eqn:En; [|apply nth_error_None in En; lia].
        assert (Hrd : nth_error (remove_at K V r idx) idx = Some (k1, v1)) by (rewrite remove_current_successor; exact En).
        apply (OutSucc k c c' cur _ k0 v0 nid idx k1 v1).
        -- exact Hk0.
        -- apply mk_node_cursor. exact Hf'.
        -- reflexivity.
        -- rewrite (mk_read c' nid _ _ _ _ _ _ Hf') by lia. exact Hrd.
        -- unfold c, c'. rewrite (after_at A B nid r idx k0 v0 Hs Hnth).
           rewrite (after_at A B nid (remove_at K V r idx) idx k1 v1 Hs' Hrd).
           rewrite skipn_remove_at. rewrite (skipn_nth_cons _ r (S idx) (k1, v1) En). reflexivity.
        -- unfold c, c'. rewrite (before_at A B nid r idx k0 v0 Hs Hnth).
           rewrite (before_at A B nid (remove_at K V r idx) idx k1 v1 Hs' Hrd).
           rewrite (firstn_remove_at r idx idx) by lia. reflexivity.
    + apply Nat.eqb_neq in Epi.
      pose proof (remove_keeps_record K V 1 (le_n 1) r idx p Epi) as Hk.
      destruct (Nat.ltb idx p) eqn:El.
      * apply Nat.ltb_lt in El. apply (OutSame k c c' cur _ k0 v0 nid (p - 1)).
        -- apply mk_node_cursor. exact Hf'.
        -- reflexivity.
        -- rewrite (mk_read c' nid _ _ _ _ _ _ Hf') by lia. rewrite Hk. exact Hnth.
      * apply Nat.ltb_ge in El. apply (OutSame k c c' cur _ k0 v0 nid p).
        -- apply mk_node_cursor. exact Hf'.
        -- reflexivity.
        -- rewrite (mk_read c' nid _ _ _ _ _ _ Hf') by lia. rewrite Hk. exact Hnth.
  - unfold fix_remove, fix_remove_in. rewrite (node_cursor_not_on K V c cur id p nid Hnc) by congruence.
    destruct (untouched K V c c' cur id p (k0, v0) Hnc (single_change_other K V A B nid r _ id Hne) Hr) as [H1 H2].
    apply (OutSame k c c' cur cur k0 v0 id p); [exact H1|reflexivity|exact H2].
Qed.

Lemma remove_node_on (c' : chain) cur nid prev next :
  positioned cur nid 0 ->
  fix_remove_node K V IDXNUM c' nid prev next cur =
  match next with
  | None => match prev with
            | Some a => match load_node K V c' a with
                        | Some cc => {| c_cn := Some cc; c_pos := cc_pnum cc - 1; c_skip := (-1)%Z; c_pend := c_pend cur |}
                        | None => {| c_cn := option_map (fun cc => {| cc_node := cc_node cc; cc_pnum := 0; cc_p0 := cc_p0 cc; cc_n0 := cc_n0 cc |}) (c_cn cur);
                                     c_pos := 0; c_skip := 1%Z; c_pend := c_pend cur |} end
            | None => {| c_cn := None; c_pos := 0; c_skip := 0%Z; c_pend := c_pend cur |} end
  | Some n => match load_node K V c' n with
              | Some cc => {| c_cn := Some cc; c_pos := 0; c_skip := 1%Z; c_pend := c_pend cur |}
              | None => {| c_cn := option_map (fun cc => {| cc_node := cc_node cc; cc_pnum := 0; cc_p0 := cc_p0 cc; cc_n0 := cc_n0 cc |}) (c_cn cur);
                           c_pos := 0; c_skip := 1%Z; c_pend := c_pend cur |} end
  end.
Proof.
  intros Hpos. pose proof (on_node_positioned _ _ _ Hpos) as Hon. destruct Hpos as [cc [H1 [H2 H3]]].
  unfold fix_remove_node, fix_remove_in. rewrite Hon. unfold with_cn. rewrite H1. unfold set_cn.
  cbn [c_pos c_cn c_skip c_pend]. rewrite H3. cbn [Nat.eqb negb andb].
  unfold on_node. cbn [c_cn cc_node c_pend option_map]. rewrite H2, Nat.eqb_refl. reflexivity.
Qed.

Lemma remove_node_off (c' : chain) cur nid prev next :
  on_node cur nid = false ->
  fix_remove_node K V IDXNUM c' nid prev next cur =
  match c_cn cur with
  | Some cc => if opt_is (cc_n0 cc) nid || opt_is (cc_p0 cc) nid then set_cn cur (refresh K V IDXNUM c' cc) else cur
  | None => cur end.
Proof. intros Hoff. unfold fix_remove_node, fix_remove_in. rewrite Hoff. cbv zeta. rewrite Hoff. reflexivity. Qed.

Lemma last_nth (ra : recs) : ra <> [] -> exists e, nth_error ra (length ra - 1) = Some e.
Proof.
  intros Hne. destruct (nth_error ra (length ra - 1)) eqn:E; [eauto|]. apply nth_error_None in E.
  destruct ra; [congruence|]. cbn [length] in E. lia.
Qed.

Lemma nil_or_last (A : chain) : A = [] \/ exists A1 a ra, A = A1 ++ [(a, ra)].
Proof. induction A as [|[a ra] A1 _] using rev_ind; [left; reflexivity|right; exists A1, a, ra; reflexivity]. Qed.

(* the node that held only the deleted record is unlinked *)
Theorem remove_node k (A B : chain) nid e cur id p k0 v0 :
  let c := A ++ (nid, [e]) :: B in let c' := A ++ B in
  cmp (fst e) k = Eq -> Forall (node_ok K V IDXNUM) c -> ids_unique K V c -> sorted K V cmp (flat c) -> sorted K V cmp (flat c') ->
  node_cursor c cur id p -> cursor_read K V c cur = Some (k0, v0) ->
  del_outcome k c c' cur
    (fix_cursor K V IDXNUM PIVOT c' (ChRemoveNode nid (last_id_or K V None A) (nid_of K V B)) cur) k0 v0.
Proof.
  intros c c'. assert (Ec : c = A ++ (nid, [e]) :: B) by reflexivity. assert (Ec' : c' = A ++ B) by reflexivity.
  clearbody c c'. intros Hke Hok Hu Hs Hs' Hnc Hr. cbn [fix_cursor].
  destruct (Nat.eq_dec id nid) as [->|Hne].
  - destruct (read_some_pos K V c cur nid p (k0, v0) A [e] B Hnc Ec Hu Hr) as [Hnth Hp].
    cbn [length] in Hp. assert (p = 0) by lia. subst p. cbn [nth_error] in Hnth. inversion Hnth; subst e.
    rewrite (remove_node_on c' cur nid _ _ (nc_positioned K V c cur nid 0 Hnc)).
    assert (Hok2 := Hok). rewrite Ec in Hok2. apply Forall_app in Hok2. destruct Hok2 as [HokA HokB].
    pose proof (Forall_inv_tail HokB) as HokB'.
    rewrite Ec in Hu, Hs. rewrite Ec' in Hs'.
    destruct B as [|[b0 rb] B'].
    + (* no successor *)
      cbn [nid_of]. destruct (nil_or_last A) as [EA|[A1 [a [ra EA]]]].
      * subst A. unfold last_id_or. cbn [rev]. cbn [fst] in Hke.
        apply OutEmpty; [exact Hke|reflexivity|exact Ec'| |].
        -- rewrite Ec. exact (after_at [] [] nid [(k0, v0)] 0 k0 v0 Hs eq_refl).
        -- rewrite Ec. exact (before_at [] [] nid [(k0, v0)] 0 k0 v0 Hs eq_refl).
      * (* falls back to the last record of the predecessor, marker -1 *)
        subst A. rewrite last_id_or_snoc.
        assert (Ha : ~ In a (ids A1)).
        { assert (Hu2 := Hu). rewrite <- app_assoc in Hu2. exact (unique_not_in_pre K V A1 _ a ra Hu2). }
        assert (Hf' : find_node K V None c' a = Some (last_id_or K V None A1, ra, None)).
        { rewrite Ec', app_nil_r. exact (find_node_app K V A1 None a ra [] Ha). }
        unfold load_node. rewrite Hf'.
        apply Forall_app in HokA. destruct HokA as [_ HokA]. pose proof (Forall_inv HokA) as [Hra _]. cbn [snd] in Hra.
        destruct (last_nth ra Hra) as [[k1 v1] Hl1].
        assert (Hlen : length ra - 1 < length ra) by (destruct ra; [congruence|cbn [length]; lia]).
        rewrite app_nil_r in Hs'.
        apply (OutPred k c c' cur _ k0 v0 a (length ra - 1) k1 v1).
        -- exact Hke.
        -- exact (mk_node_cursor c' a _ ra None (length ra - 1) (-1) (c_pend cur) Hf').
        -- reflexivity.
        -- rewrite <- Hl1. exact (mk_read c' a _ ra None (length ra - 1) (-1) (c_pend cur) Hf' Hlen).
        -- rewrite Ec, Ec', app_nil_r.
           refine (eq_trans (after_at (A1 ++ [(a, ra)]) [] nid [(k0, v0)] 0 k0 v0 Hs eq_refl) _).
           refine (eq_sym (eq_trans (after_at A1 [] a ra (length ra - 1) k1 v1 Hs' Hl1) _)).
           rewrite skipn_all2 by lia. reflexivity.
        -- rewrite Ec, Ec', app_nil_r.
           refine (eq_trans (before_at (A1 ++ [(a, ra)]) [] nid [(k0, v0)] 0 k0 v0 Hs eq_refl) _).
           refine (eq_sym (eq_trans (f_equal (fun x => x ++ [(k1, v1)]) (before_at A1 [] a ra (length ra - 1) k1 v1 Hs' Hl1)) _)).
           cbn [firstn]. rewrite app_nil_r. rewrite (flat_app' K V). change (flat [(a, ra)]) with (ra ++ []). rewrite app_nil_r.
           rewrite <- app_assoc. f_equal. symmetry. apply last_split. exact Hl1.
    + (* the successor's first record, marker +1 *)
      cbn [nid_of].
      assert (Hb : ~ In b0 (ids A)).
      { assert (Hu2 : ids_unique K V ((A ++ [(nid, [(k0, v0)])]) ++ (b0, rb) :: B')) by (rewrite <- app_assoc; exact Hu).
        pose proof (unique_not_in_pre K V _ _ b0 rb Hu2) as H. intros Hin. apply H. rewrite map_app. apply in_or_app. left. exact Hin. }
      assert (Hf' : find_node K V None c' b0 = Some (last_id_or K V None A, rb, nid_of K V B')).
      { rewrite Ec'. exact (find_node_app K V A None b0 rb B' Hb). }
      unfold load_node. rewrite Hf'.
      pose proof (Forall_inv HokB') as [Hrb _]. cbn [snd] in Hrb. destruct rb as [|[k1 v1] rb']; [congruence|].
      apply (OutSucc k c c' cur _ k0 v0 b0 0 k1 v1).
      * exact Hke.
      * exact (mk_node_cursor c' b0 _ ((k1, v1) :: rb') _ 0 1 (c_pend cur) Hf').
      * reflexivity.
      * exact (mk_read c' b0 _ ((k1, v1) :: rb') _ 0 1 (c_pend cur) Hf' ltac:(cbn [length]; lia)).
      * rewrite Ec, Ec'.
        refine (eq_trans (after_at A ((b0, (k1, v1) :: rb') :: B') nid [(k0, v0)] 0 k0 v0 Hs eq_refl) _).
        cbn [skipn app]. change (flat ((b0, (k1, v1) :: rb') :: B')) with ((k1, v1) :: rb' ++ flat B'). f_equal.
        exact (eq_sym (after_at A B' b0 ((k1, v1) :: rb') 0 k1 v1 Hs' eq_refl)).
      * rewrite Ec, Ec'.
        refine (eq_trans (before_at A ((b0, (k1, v1) :: rb') :: B') nid [(k0, v0)] 0 k0 v0 Hs eq_refl) _).
        exact (eq_sym (before_at A B' b0 ((k1, v1) :: rb') 0 k1 v1 Hs' eq_refl)).
  - rewrite (remove_node_off c' cur nid _ _ (node_cursor_not_on K V c cur id p nid Hnc ltac:(congruence))).
    subst c c'. destruct (removal_other A B nid [e] cur id p (k0, v0) Hnc Hne Hr) as [H1 [H2 H3]].
    apply (OutSame k _ _ cur _ k0 v0 id p); [exact H1|exact H2|exact H3].
Qed.

(* ---- every successful delete ---- *)
Theorem del_keeps_cursor k (c c' : chain) ch cur id p k0 v0 :
  del_effect k c c' ch -> NodeInv c -> ids_unique K V c ->
  node_cursor c cur id p -> cursor_read K V c cur = Some (k0, v0) ->
  del_outcome k c c' cur (fix_cursor K V IDXNUM PIVOT c' ch cur) k0 v0.
Proof.
  intros He Hinv Hu Hnc Hr. destruct (del_effect_inv k c c' ch He Hinv Hu) as [[_ Hs'] _]. destruct Hinv as [Hok Hs].
  destruct He as [A nid r B idx Hc Hi Hl Hfo|A nid e B Hc He]; subst c.
  - eapply remove_in_node; eassumption.
  - eapply remove_node; eassumption.
Qed.

(* ---- scans of cursors that carry a pending-step marker ---- *)
Definition zero_skip (cur : cursor) : cursor :=
  {| c_cn := c_cn cur; c_pos := c_pos cur; c_skip := 0%Z; c_pend := c_pend cur |}.

Lemma zero_skip_node_cursor (c : chain) cur id p : node_cursor c cur id p -> node_cursor c (zero_skip cur) id p.
Proof. intros [cc [H1 [H2 H3]]]. exists cc. split; [exact H1|]. split; [exact H2|exact H3]. Qed.
Lemma zero_skip_read (c : chain) cur : cursor_read K V c (zero_skip cur) = cursor_read K V c cur.
Proof. reflexivity. Qed.

Lemma cursor_to_zero_skip_next (c : chain) cur : (c_skip cur <= 0)%Z ->
  fst (cursor_to K V IDXNUM c cur CNext) = fst (cursor_to K V IDXNUM c (zero_skip cur) CNext) /\
  (fst (cursor_to K V IDXNUM c cur CNext) = CROk ->
   snd (cursor_to K V IDXNUM c cur CNext) = snd (cursor_to K V IDXNUM c (zero_skip cur) CNext)).
Proof.
  intros Hle. unfold cursor_to, zero_skip. cbn [c_cn c_pos c_skip c_pend].
  assert (E1 : (0 <? c_skip cur)%Z = false) by (apply Z.ltb_ge; exact Hle). rewrite E1.
  change (0 <? 0)%Z with false.
  repeat match goal with
         | |- context [match ?x with _ => _ end] => destruct x
         end; cbn [fst snd]; split; try reflexivity; intros H; try discriminate H; reflexivity.
Qed.

Lemma scan_marker_back (c : chain) cur fuel : (c_skip cur <= 0)%Z ->
  scan_next K V IDXNUM fuel c cur = scan_next K V IDXNUM fuel c (zero_skip cur).
Proof.
  intros Hle. destruct fuel as [|f]; [reflexivity|]. cbn [scan_next].
  destruct (cursor_to_zero_skip_next c cur Hle) as [Hr Hc].
  destruct (cursor_to K V IDXNUM c cur CNext) as [r1 c1]. destruct (cursor_to K V IDXNUM c (zero_skip cur) CNext) as [r2 c2].
  cbn [fst snd] in Hr, Hc. subst r2. destruct r1; try reflexivity. rewrite (Hc eq_refl). reflexivity.
Qed.

Lemma scan_marker_fwd (c : chain) cur id p e fuel : (0 < c_skip cur)%Z ->
  node_cursor c cur id p -> cursor_read K V c cur = Some e ->
  scan_next K V IDXNUM (S fuel) c cur = e :: scan_next K V IDXNUM fuel c (zero_skip cur).
Proof.
  intros Hlt [cc [H1 [H2 H3]]] Hr. cbn [scan_next]. unfold cursor_to. rewrite H1.
  assert (E1 : (0 <? c_skip cur)%Z = true) by (apply Z.ltb_lt; exact Hlt). rewrite E1.
  change {| c_cn := Some cc; c_pos := c_pos cur; c_skip := 0; c_pend := c_pend cur |} with
    {| c_cn := Some cc; c_pos := c_pos cur; c_skip := 0%Z; c_pend := c_pend cur |}.
  assert (Ez : {| c_cn := Some cc; c_pos := c_pos cur; c_skip := 0%Z; c_pend := c_pend cur |} = zero_skip cur)
    by (unfold zero_skip; rewrite H1; reflexivity).
  rewrite Ez. rewrite zero_skip_read, Hr. reflexivity.
Qed.

(* ---- the specification side ---- *)
Notation s_del := (s_del K V cmp).
Notation sorted := (sorted K V cmp).

Lemma cmp_eq_sym' a b : cmp a b = Eq -> cmp b a = Eq.
Proof. intros H. rewrite cmp_antisym, H. reflexivity. Qed.
Lemma cmp_gt_lt' a b : cmp a b = Gt -> cmp b a = Lt.
Proof. intros H. rewrite cmp_antisym, H. reflexivity. Qed.
Lemma cmp_lt_gt' a b : cmp a b = Lt -> cmp b a = Gt.
Proof. intros H. rewrite cmp_antisym, H. reflexivity. Qed.

Lemma cmp_eq_lt' a b c : cmp a b = Eq -> cmp b c = Lt -> cmp a c = Lt.
Proof.
  intros H1 H2. destruct (cmp a c) eqn:E; [| reflexivity |].
  - apply cmp_eq_sym' in E. pose proof (cmp_lt_eq _ _ _ H2 E) as H. apply cmp_eq_sym' in H1. congruence.
  - apply cmp_gt_lt' in E. pose proof (cmp_lt_eq _ _ _ E H1) as H. apply cmp_lt_gt' in H2. congruence.
Qed.
Lemma cmp_eq_trans' a b c : cmp a b = Eq -> cmp b c = Eq -> cmp a c = Eq.
Proof.
  intros H1 H2. destruct (cmp a c) eqn:E; [reflexivity| |].
  - apply cmp_eq_sym' in H2. pose proof (cmp_lt_eq _ _ _ E H2). congruence.
  - apply cmp_gt_lt' in E. pose proof (cmp_lt_eq _ _ _ E H1). apply cmp_eq_sym' in H2. congruence.
Qed.

(* a record that is still there after s_del did not carry the deleted key *)
Lemma in_s_del_neq (l : recs) k k0 v0 : sorted l -> In (k0, v0) (s_del l k) -> cmp k0 k <> Eq.
Proof.
  induction l as [|[k1 v1] l IH]; intros Hs Hin; [destruct Hin|].
  inversion Hs as [|? ? Hs' Hf]; subst. rewrite Forall_forall in Hf.
  cbn [Spec.s_del] in Hin. destruct (cmp k1 k) eqn:E1.
  - specialize (Hf _ Hin). unfold klt in Hf. cbn [fst] in Hf.
    assert (H : cmp k k0 = Lt) by (apply cmp_eq_lt' with k1; [apply cmp_eq_sym'; exact E1|exact Hf]).
    apply cmp_lt_gt' in H. congruence.
  - destruct Hin as [Hin|Hin]; [inversion Hin; subst; congruence|]. apply IH; assumption.
  - destruct Hin as [Hin|Hin]; [inversion Hin; subst; congruence|].
    specialize (Hf _ Hin). unfold klt in Hf. cbn [fst] in Hf.
    assert (H : cmp k k0 = Lt) by (apply cmp_trans with k1; [apply cmp_gt_lt'; exact E1|exact Hf]).
    apply cmp_lt_gt' in H. congruence.
Qed.

Lemma after_all_gt (l : recs) k0 v0 : sorted l -> In (k0, v0) l -> Forall (fun e => cmp k0 (fst e) = Lt) (after l k0).
Proof.
  induction l as [|[k1 v1] l IH]; intros Hs Hin; [destruct Hin|].
  inversion Hs as [|? ? Hs' Hf]; subst. cbn [ScanStable_proofs.after]. destruct (cmp k1 k0) eqn:E.
  - apply Forall_forall. intros x Hx. rewrite Forall_forall in Hf. specialize (Hf _ Hx). unfold klt in Hf. cbn [fst] in Hf.
    apply cmp_eq_lt' with k1; [apply cmp_eq_sym'; exact E|exact Hf].
  - destruct Hin as [Hin|Hin]; [inversion Hin; subst; rewrite cmp_refl' in E; discriminate|]. apply IH; assumption.
  - destruct Hin as [Hin|Hin]; [inversion Hin; subst; rewrite cmp_refl' in E; discriminate|]. apply IH; assumption.
Qed.

(* deleting a key that is not ahead leaves the remaining scan alone *)
Lemma s_del_after_not_ahead (l : recs) k k0 v0 : sorted l -> In (k0, v0) l -> cmp k0 k <> Lt ->
  s_del (after l k0) k = after l k0.
Proof.
  intros Hs Hin Hnl. pose proof (after_all_gt l k0 v0 Hs Hin) as Hall.
  destruct (after l k0) as [|[k1 v1] t]; [reflexivity|].
  inversion Hall as [|? ? H1 _]; subst. cbn [fst] in H1. cbn [Spec.s_del].
  assert (E : cmp k1 k = Gt).
  { destruct (cmp k0 k) eqn:E0; [| congruence |].
    - apply cmp_lt_gt'. apply cmp_eq_lt' with k0; [apply cmp_eq_sym'; exact E0|exact H1].
    - apply cmp_lt_gt'. apply cmp_trans with k0; [apply cmp_gt_lt'; exact E0|exact H1]. }
  rewrite E. reflexivity.
Qed.

Lemma after_s_del (l : recs) k k0 v0 : sorted l -> In (k0, v0) l -> cmp k0 k <> Eq ->
  after (s_del l k) k0 = s_del (after l k0) k.
Proof.
  induction l as [|[k1 v1] l IH]; intros Hs Hin Hne; [destruct Hin|].
  inversion Hs as [|? ? Hs' Hf]; subst.
  cbn [Spec.s_del]. destruct (cmp k1 k) eqn:E1.
  - (* k1 is removed: the cursor's record is behind it *)
    cbn [ScanStable_proofs.after]. destruct (cmp k1 k0) eqn:E10.
    + exfalso. apply Hne. apply cmp_eq_trans' with k1; [apply cmp_eq_sym'; exact E10|exact E1].
    + destruct Hin as [Hin|Hin]; [inversion Hin; subst; rewrite cmp_refl' in E10; discriminate|].
      symmetry. apply (s_del_after_not_ahead l k k0 v0 Hs' Hin).
      intros Hlt. pose proof (cmp_trans _ _ _ E10 Hlt) as H. congruence.
    + exfalso. destruct Hin as [Hin|Hin]; [inversion Hin; subst; rewrite cmp_refl' in E10; discriminate|].
      rewrite Forall_forall in Hf. specialize (Hf _ Hin). unfold klt in Hf. cbn [fst] in Hf. congruence.
  - cbn [ScanStable_proofs.after]. destruct (cmp k1 k0) eqn:E10.
    + reflexivity.
    + destruct Hin as [Hin|Hin]; [inversion Hin; subst; rewrite cmp_refl' in E10; discriminate|]. apply IH; assumption.
    + exfalso. destruct Hin as [Hin|Hin]; [inversion Hin; subst; rewrite cmp_refl' in E10; discriminate|].
      rewrite Forall_forall in Hf. specialize (Hf _ Hin). unfold klt in Hf. cbn [fst] in Hf. congruence.
  - (* k is not stored (everything from k1 on is behind k): nothing changes *)
    symmetry. apply (s_del_after_not_ahead ((k1, v1) :: l) k k0 v0 Hs Hin).
    intros Hlt. destruct Hin as [Hin|Hin].
    + inversion Hin; subst. congruence.
    + rewrite Forall_forall in Hf. specialize (Hf _ Hin). unfold klt in Hf. cbn [fst] in Hf.
      pose proof (cmp_trans _ _ _ Hf Hlt) as H. congruence.
Qed.

Lemma s_del_length (l : recs) k : length (s_del l k) <= length l.
Proof. induction l as [|[k1 v1] l IH]; cbn [Spec.s_del length]; [lia|]. destruct (cmp k1 k); cbn [length]; lia. Qed.

Lemma scan_empty (cur : cursor) fuel pe :
  scan_next K V IDXNUM fuel [] {| c_cn := None; c_pos := 0; c_skip := 0%Z; c_pend := pe |} = [].
Proof.
  destruct fuel as [|f]; [reflexivity|]. cbn [scan_next]. unfold cursor_to. cbn [c_cn c_pend c_skip c_pos].
  assert (E : Nat.leb IDXNUM (0 + 1) = false) by (apply Nat.leb_gt; lia).
  destruct pe; cbn [load_head load_tail cc_pnum cc_n0 nid_of is_db cc_node]; change (0 <? 0)%Z with false; cbv iota;
    try rewrite E; reflexivity.
Qed.

(* ---- SCAN STABILITY UNDER DELETE ---- *)
Theorem scan_stable_del k (c c' : chain) ch cur id p k0 v0 fuel :
  del_effect k c c' ch -> NodeInv c -> ids_unique K V c ->
  node_cursor c cur id p -> c_skip cur = 0%Z -> cursor_read K V c cur = Some (k0, v0) ->
  S (length (flat c)) < fuel ->
  scan_next K V IDXNUM fuel c' (fix_cursor K V IDXNUM PIVOT c' ch cur) = s_del (scan_next K V IDXNUM fuel c cur) k.
Proof.
  intros He Hinv Hu Hnc Hsk Hr Hfuel.
  destruct (del_effect_inv k c c' ch He Hinv Hu) as [Hinv' Hu'].
  assert (Hs : sorted (flat c)) by (destruct Hinv; assumption).
  pose proof (del_effect_flat k c c' ch He Hs) as Hflat.
  pose proof (s_del_length (flat c) k) as Hlen. rewrite <- Hflat in Hlen.
  pose proof (read_in_flat K V c cur id p (k0, v0) Hu Hnc Hr) as Hin.
  rewrite (scan_is_after K V cmp IDXNUM PIVOT cmp_antisym pivot_ok c cur id p k0 v0 fuel Hinv Hu Hnc Hsk Hr) by lia.
  destruct (del_keeps_cursor k c c' ch cur id p k0 v0 He Hinv Hu Hnc Hr)
    as [id' p' H1 H2 H3|id' p' k1 v1 Hk H1 H2 H3 H4 H5|id' p' k1 v1 Hk H1 H2 H3 H4 H5|Hk H1 H2 H3 H5].
  - (* the cursor's record survives *)
    rewrite (scan_is_after K V cmp IDXNUM PIVOT cmp_antisym pivot_ok c' _ id' p' k0 v0 fuel Hinv' Hu' H1) by (try lia; congruence).
    rewrite Hflat. apply (after_s_del (flat c) k k0 v0 Hs Hin).
    pose proof (read_in_flat K V c' _ id' p' (k0, v0) Hu' H1 H3) as Hin'. rewrite Hflat in Hin'.
    exact (in_s_del_neq (flat c) k k0 v0 Hs Hin').
  - (* on the successor, marker +1 *)
    destruct fuel as [|f]; [lia|].
    rewrite (scan_marker_fwd c' _ id' p' (k1, v1) f ltac:(rewrite H2; lia) H1 H3).
    rewrite (scan_is_after K V cmp IDXNUM PIVOT cmp_antisym pivot_ok c' _ id' p' k1 v1 f Hinv' Hu'
               (zero_skip_node_cursor c' _ id' p' H1) eq_refl H3) by lia.
    rewrite <- H4. symmetry. apply (s_del_after_not_ahead (flat c) k k0 v0 Hs Hin). congruence.
  - (* on the predecessor, marker -1 *)
    rewrite (scan_marker_back c' _ fuel ltac:(rewrite H2; lia)).
    rewrite (scan_is_after K V cmp IDXNUM PIVOT cmp_antisym pivot_ok c' _ id' p' k1 v1 fuel Hinv' Hu'
               (zero_skip_node_cursor c' _ id' p' H1) eq_refl H3) by lia.
    rewrite <- H4. symmetry. apply (s_del_after_not_ahead (flat c) k k0 v0 Hs Hin). congruence.
  - (* the database became empty *)
    rewrite H1, H2, H3. rewrite (scan_empty cur). reflexivity.
Qed.

(* ---- backward scans of cursors that carry a pending-step marker ---- *)
Lemma cursor_to_zero_skip_prev (c : chain) cur : (0 <= c_skip cur)%Z ->
  fst (cursor_to K V IDXNUM c cur CPrev) = fst (cursor_to K V IDXNUM c (zero_skip cur) CPrev) /\
  (fst (cursor_to K V IDXNUM c cur CPrev) = CROk ->
   snd (cursor_to K V IDXNUM c cur CPrev) = snd (cursor_to K V IDXNUM c (zero_skip cur) CPrev)).
Proof.
  intros Hle. unfold cursor_to, zero_skip. cbn [c_cn c_pos c_skip c_pend].
  assert (E1 : (c_skip cur <? 0)%Z = false) by (apply Z.ltb_ge; exact Hle). rewrite E1.
  change (0 <? 0)%Z with false.
  repeat match goal with
         | |- context [match ?x with _ => _ end] => destruct x
         end; cbn [fst snd]; split; try reflexivity; intros H; try discriminate H; reflexivity.
Qed.

Lemma scan_prev_marker_fwd (c : chain) cur fuel : (0 <= c_skip cur)%Z ->
  scan_prev K V IDXNUM fuel c cur = scan_prev K V IDXNUM fuel c (zero_skip cur).
Proof.
  intros Hle. destruct fuel as [|f]; [reflexivity|]. cbn [scan_prev].
  destruct (cursor_to_zero_skip_prev c cur Hle) as [Hr Hc].
  destruct (cursor_to K V IDXNUM c cur CPrev) as [r1 c1]. destruct (cursor_to K V IDXNUM c (zero_skip cur) CPrev) as [r2 c2].
  cbn [fst snd] in Hr, Hc. subst r2. destruct r1; try reflexivity. rewrite (Hc eq_refl). reflexivity.
Qed.

Lemma scan_prev_marker_back (c : chain) cur id p e fuel : (c_skip cur < 0)%Z ->
  node_cursor c cur id p -> cursor_read K V c cur = Some e ->
  scan_prev K V IDXNUM (S fuel) c cur = e :: scan_prev K V IDXNUM fuel c (zero_skip cur).
Proof.
  intros Hlt [cc [H1 [H2 H3]]] Hr. cbn [scan_prev]. unfold cursor_to. rewrite H1.
  assert (E1 : (c_skip cur <? 0)%Z = true) by (apply Z.ltb_lt; exact Hlt). rewrite E1.
  assert (Ez : {| c_cn := Some cc; c_pos := c_pos cur; c_skip := 0%Z; c_pend := c_pend cur |} = zero_skip cur)
    by (unfold zero_skip; rewrite H1; reflexivity).
  change {| c_cn := Some cc; c_pos := c_pos cur; c_skip := 0; c_pend := c_pend cur |} with
    {| c_cn := Some cc; c_pos := c_pos cur; c_skip := 0%Z; c_pend := c_pend cur |}.
  rewrite Ez. rewrite zero_skip_read, Hr. reflexivity.
Qed.

Lemma scan_prev_empty (cur : cursor) fuel pe :
  scan_prev K V IDXNUM fuel [] {| c_cn := None; c_pos := 0; c_skip := 0%Z; c_pend := pe |} = [].
Proof.
  destruct fuel as [|f]; [reflexivity|]. cbn [scan_prev]. unfold cursor_to. cbn [c_cn c_pend c_skip c_pos].
  destruct pe; cbn [load_head load_tail cc_pnum cc_p0 last_id rev is_db cc_node]; change (0 <? 0)%Z with false; cbv iota;
    cbn [Nat.eqb]; reflexivity.
Qed.

(* ---- the specification side, backward ---- *)
Lemma before_all_lt (l : recs) k0 : sorted l -> (exists v0, In (k0, v0) l) -> all_lt K V cmp (before l k0) k0.
Proof.
  induction l as [|[k1 v1] l IH]; intros Hs [v0 Hin]; [destruct Hin|].
  inversion Hs as [|? ? Hs' Hf]; subst. rewrite Forall_forall in Hf. cbn [ScanStable_proofs.before].
  destruct (cmp k1 k0) eqn:E; [constructor| |].
  - constructor; [exact E|]. destruct Hin as [Hin|Hin]; [inversion Hin; subst; rewrite cmp_refl' in E; discriminate|].
    apply IH; [exact Hs'|eauto].
  - exfalso. destruct Hin as [Hin|Hin]; [inversion Hin; subst; rewrite cmp_refl' in E; discriminate|].
    specialize (Hf _ Hin). unfold klt in Hf. cbn [fst] in Hf. congruence.
Qed.

Lemma s_del_all_lt (a : recs) k : all_lt K V cmp a k -> s_del a k = a.
Proof.
  intros H. rewrite <- (app_nil_r a) at 1. rewrite (s_del_app_lt K V cmp) by exact H. cbn [Spec.s_del]. apply app_nil_r.
Qed.

Lemma s_del_before_not_behind (l : recs) k k0 v0 : sorted l -> In (k0, v0) l -> cmp k k0 <> Lt ->
  s_del (before l k0) k = before l k0.
Proof.
  intros Hs Hin Hnl. apply s_del_all_lt. pose proof (before_all_lt l k0 Hs (ex_intro _ v0 Hin)) as H.
  apply Forall_forall. intros x Hx. unfold Node_proofs.all_lt in H. rewrite Forall_forall in H. specialize (H x Hx).
  destruct (cmp k k0) eqn:E; [| congruence |].
  - apply cmp_lt_eq with k0; [exact H|apply cmp_eq_sym'; exact E].
  - apply cmp_trans with k0; [exact H|apply cmp_gt_lt'; exact E].
Qed.

Lemma before_s_del (l : recs) k k0 v0 : sorted l -> In (k0, v0) l -> cmp k0 k <> Eq ->
  before (s_del l k) k0 = s_del (before l k0) k.
Proof.
  induction l as [|[k1 v1] l IH]; intros Hs Hin Hne; [destruct Hin|].
  inversion Hs as [|? ? Hs' Hf]; subst. rewrite Forall_forall in Hf.
  cbn [Spec.s_del]. destruct (cmp k1 k) eqn:E1.
  - (* k1 is removed *)
    cbn [ScanStable_proofs.before]. destruct (cmp k1 k0) eqn:E10.
    + exfalso. apply Hne. apply cmp_eq_trans' with k1; [apply cmp_eq_sym'; exact E10|exact E1].
    + cbn [Spec.s_del]. rewrite E1. reflexivity.
    + exfalso. destruct Hin as [Hin|Hin]; [inversion Hin; subst; rewrite cmp_refl' in E10; discriminate|].
      specialize (Hf _ Hin). unfold klt in Hf. cbn [fst] in Hf. congruence.
  - cbn [ScanStable_proofs.before]. destruct (cmp k1 k0) eqn:E10.
    + reflexivity.
    + cbn [Spec.s_del]. rewrite E1. f_equal.
      destruct Hin as [Hin|Hin]; [inversion Hin; subst; rewrite cmp_refl' in E10; discriminate|]. apply IH; assumption.
    + exfalso. destruct Hin as [Hin|Hin]; [inversion Hin; subst; rewrite cmp_refl' in E10; discriminate|].
      specialize (Hf _ Hin). unfold klt in Hf. cbn [fst] in Hf. congruence.
  - (* k is not stored: nothing changes *)
    cbn [ScanStable_proofs.before]. destruct (cmp k1 k0) eqn:E10.
    + reflexivity.
    + cbn [Spec.s_del]. rewrite E1. reflexivity.
    + cbn [Spec.s_del]. rewrite E1. reflexivity.
Qed.

(* ---- BACKWARD SCAN STABILITY UNDER DELETE ---- *)
Theorem scan_prev_stable_del k (c c' : chain) ch cur id p k0 v0 fuel :
  del_effect k c c' ch -> NodeInv c -> ids_unique K V c ->
  node_cursor c cur id p -> c_skip cur = 0%Z -> cursor_read K V c cur = Some (k0, v0) ->
  S (length (flat c)) < fuel ->
  rev (scan_prev K V IDXNUM fuel c' (fix_cursor K V IDXNUM PIVOT c' ch cur)) = s_del (rev (scan_prev K V IDXNUM fuel c cur)) k.
Proof.
  intros He Hinv Hu Hnc Hsk Hr Hfuel.
  destruct (del_effect_inv k c c' ch He Hinv Hu) as [Hinv' Hu'].
  assert (Hs : sorted (flat c)) by (destruct Hinv; assumption).
  pose proof (del_effect_flat k c c' ch He Hs) as Hflat.
  pose proof (s_del_length (flat c) k) as Hlen. rewrite <- Hflat in Hlen.
  pose proof (read_in_flat K V c cur id p (k0, v0) Hu Hnc Hr) as Hin.
  pose proof (scan_prev_is_before K V cmp IDXNUM PIVOT (fun _ v => Some v) cmp_antisym pivot_ok) as SP.
  rewrite (SP c cur id p k0 v0 fuel Hinv Hu Hnc Hsk Hr) by lia. rewrite rev_involutive.
  destruct (del_keeps_cursor k c c' ch cur id p k0 v0 He Hinv Hu Hnc Hr)
    as [id' p' H1 H2 H3|id' p' k1 v1 Hk H1 H2 H3 H4 H5|id' p' k1 v1 Hk H1 H2 H3 H4 H5|Hk H1 H2 H3 H5].
  - rewrite (SP c' _ id' p' k0 v0 fuel Hinv' Hu' H1) by (try lia; congruence). rewrite rev_involutive.
    rewrite Hflat. apply (before_s_del (flat c) k k0 v0 Hs Hin).
    pose proof (read_in_flat K V c' _ id' p' (k0, v0) Hu' H1 H3) as Hin'. rewrite Hflat in Hin'.
    exact (in_s_del_neq (flat c) k k0 v0 Hs Hin').
  - (* on the successor, marker +1: a PREV moves as usual *)
    rewrite (scan_prev_marker_fwd c' _ fuel ltac:(rewrite H2; lia)).
    rewrite (SP c' _ id' p' k1 v1 fuel Hinv' Hu' (zero_skip_node_cursor c' _ id' p' H1) eq_refl H3) by lia.
    rewrite rev_involutive. rewrite <- H5. symmetry. apply (s_del_before_not_behind (flat c) k k0 v0 Hs Hin).
    apply cmp_eq_sym' in Hk. congruence.
  - (* on the predecessor, marker -1: the first PREV delivers it without moving *)
    destruct fuel as [|f]; [lia|].
    rewrite (scan_prev_marker_back c' _ id' p' (k1, v1) f ltac:(rewrite H2; lia) H1 H3).
    rewrite (SP c' _ id' p' k1 v1 f Hinv' Hu' (zero_skip_node_cursor c' _ id' p' H1) eq_refl H3) by lia.
    cbn [rev]. rewrite rev_involutive. rewrite <- H5. symmetry. apply (s_del_before_not_behind (flat c) k k0 v0 Hs Hin).
    apply cmp_eq_sym' in Hk. congruence.
  - rewrite H1, H2, H5. rewrite (scan_prev_empty cur). reflexivity.
Qed.

(* ---- removal through a cursor (iwkv_cursor_del): the record at slot i of node id ---- *)
Lemma del_by_id_locates : forall (c : chain) prev id i c' ch,
  del_by_id K V prev c id i = Some (c', ch) ->
  exists A r B c2, c = A ++ (id, r) :: B /\ i < length r /\
    del_at K V (last_id_or K V prev A) (id, r) B i = (c2, ch) /\ c' = A ++ c2.
Proof.
  induction c as [|[j rj] c IH]; intros prev id i c' ch H; cbn [del_by_id] in H; [discriminate|].
  destruct (Nat.eqb j id) eqn:E.
  - apply Nat.eqb_eq in E. subst j. destruct (Nat.ltb i (length rj)) eqn:El; [|discriminate].
    exists [], rj, c, c'. split; [reflexivity|]. split; [apply Nat.ltb_lt; exact El|]. split; [|reflexivity].
    unfold last_id_or. cbn [rev]. injection H as H1. exact H1.
  - destruct (del_by_id K V (Some j) c id i) as [[c0 ch0]|] eqn:E2; [|discriminate]. inversion H; subst.
    destruct (IH _ _ _ _ _ E2) as [A [r [B [c2 [H1 [H2 [H3 H4]]]]]]].
    exists ((j, rj) :: A), r, B, c2. split; [rewrite H1; reflexivity|]. split; [exact H2|].
    split; [rewrite last_id_or_cons; exact H3|rewrite H4; reflexivity].
Qed.

Theorem del_by_id_effect (c : chain) id i c' ch :
  del_by_id K V None c id i = Some (c', ch) ->
  exists r k v, In (id, r) c /\ nth_error r i = Some (k, v) /\ del_effect k c c' ch.
Proof.
  intros H. destruct (del_by_id_locates c None id i c' ch H) as [A [r [B [c2 [H1 [H2 [H3 H4]]]]]]].
  destruct (nth_error r i) as [[k v]|] eqn:En; [|apply nth_error_None in En; lia].
  exists r, k, v. split; [rewrite H1; apply in_or_app; right; left; reflexivity|]. split; [exact En|].
  rewrite H1, H4. unfold del_at in H3. destruct (Nat.eqb (length r) 1) eqn:El.
  - apply Nat.eqb_eq in El. inversion H3; subst c2 ch.
    destruct r as [|e [|e2 l2]]; cbn [length] in El; try lia.
    destruct i as [|i]; [|cbn [length] in H2; lia]. cbn [nth_error] in En. inversion En; subst e.
    apply (DfRemoveNode k _ A id (k, v) B); [reflexivity|]. apply cmp_refl'.
  - apply Nat.eqb_neq in El. inversion H3; subst c2 ch.
    apply (DfRemove k _ A id r B); [reflexivity|exact H2|exact El|].
    unfold found_at. rewrite En. rewrite cmp_refl'. reflexivity.
Qed.

End StableDel.
