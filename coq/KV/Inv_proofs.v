(* The invariant that ties C01/C02/C09 together for EVERY reachable state of one database with any number of open
   cursors: the chain invariant (nodes non-empty, bounded, globally sorted), node identities unique and below the
   identity counter, and every cursor's private node copy FRESH (equal to what the chain holds now) with its slot in
   range.  Each mutation (put with every effect, delete by key, overwrite and delete through a cursor) followed by
   the fix-up of all cursors, and each cursor movement, preserves it. *)
Require Import List ZArith Bool Lia Sorted. Import ListNotations.
Require Import IW.KV.Node IW.KV.Spec IW.KV.Node_proofs IW.KV.Cursor IW.KV.Cursor_proofs IW.KV.Stable_proofs
               IW.KV.ScanStable_proofs IW.KV.StableDel_proofs.

Section Inv.
Variables K V : Type.
Variable cmp : K -> K -> comparison.
Variable IDXNUM PIVOT : nat.
Variable upd : V -> V -> option V.
Hypothesis cmp_lt_eq : forall a b c, cmp a b = Lt -> cmp b c = Eq -> cmp a c = Lt.
Hypothesis cmp_antisym : forall a b, cmp a b = CompOpp (cmp b a).
Hypothesis cmp_trans : forall a b c, cmp a b = Lt -> cmp b c = Lt -> cmp a c = Lt.
Hypothesis pivot_ok : 1 <= PIVOT /\ PIVOT < IDXNUM.

Notation chain := (chain K V).
Notation recs := (recs K V).
Notation node := (node K V).
Notation flat := (flat K V).
Notation ids := (map (@fst nat recs)).
Notation NodeInv := (NodeInv K V cmp IDXNUM).
Notation node_cursor := (node_cursor K V).
Notation load_node := (load_node K V).
Notation load_head := (load_head K V IDXNUM).
Notation load_tail := (load_tail K V IDXNUM).
Notation fix_cursor := (fix_cursor K V IDXNUM PIVOT).

(* a cursor is in order: no copy, or a fresh copy of a node with the slot inside it, or a fresh copy of the
   database head / tail block *)
Definition cur_ok (c : chain) (cur : cursor) : Prop :=
  match c_cn cur with
  | None => True
  | Some cc => match cc_node cc with
               | CnNode id => load_node c id = Some cc /\ c_pos cur < cc_pnum cc
               | CnHead => cc = load_head c
               | CnTail => cc = load_tail c
               end
  end.

Lemma cur_ok_node (c : chain) cur cc id : c_cn cur = Some cc -> cc_node cc = CnNode id ->
  (cur_ok c cur <-> node_cursor c cur id (c_pos cur) /\ exists e, cursor_read K V c cur = Some e).
Proof.
  intros H1 H2. unfold cur_ok. rewrite H1, H2. split.
  - intros [Hl Hp]. split; [exists cc; split; [exact H1|split; [exact Hl|reflexivity]]|].
    unfold cursor_read, cursor_at. rewrite H1, H2. assert (E : Nat.ltb (c_pos cur) (cc_pnum cc) = true) by (apply Nat.ltb_lt; exact Hp).
    rewrite E. unfold Cursor.load_node in Hl. destruct (find_node K V None c id) as [[[pv r] nx]|]; [|discriminate].
    inversion Hl; subst cc. cbn [cc_pnum] in Hp. destruct (nth_error r (c_pos cur)) eqn:En; [eauto|].
    apply nth_error_None in En. lia.
  - intros [[cc' [H1' [Hl _]]] [e He]]. rewrite H1 in H1'. inversion H1'; subst cc'. split; [exact Hl|].
    unfold cursor_read, cursor_at in He. rewrite H1, H2 in He.
    destruct (Nat.ltb (c_pos cur) (cc_pnum cc)) eqn:E; [apply Nat.ltb_lt; exact E|discriminate].
Qed.

(* ---- head and tail copies under a put ---- *)
Definition head_cur (c : chain) p sk pe : cursor := {| c_cn := Some (load_head c); c_pos := p; c_skip := sk; c_pend := pe |}.
Definition tail_cur (c : chain) p sk pe : cursor := {| c_cn := Some (load_tail c); c_pos := p; c_skip := sk; c_pend := pe |}.

Lemma nid_of_app (A : chain) x (B : chain) y : nid_of K V (A ++ x :: B) = nid_of K V (A ++ y :: B) \/ A = [].
Proof. destruct A as [|[a ra] A]; [right; reflexivity|left; reflexivity]. Qed.

Lemma last_id_app (A B : chain) (x : node) : last_id K V (A ++ B ++ [x]) = Some (fst x).
Proof. unfold last_id. rewrite app_assoc, rev_app_distr. destruct x; reflexivity. Qed.

(* ---- how the fix-ups treat a cursor parked on the head or the tail block ---- *)
Lemma on_node_head cur cc id : c_cn cur = Some cc -> cc_node cc = CnHead -> on_node cur id = false.
Proof. intros H1 H2. unfold on_node. rewrite H1, H2. reflexivity. Qed.
Lemma on_node_tail cur cc id : c_cn cur = Some cc -> cc_node cc = CnTail -> on_node cur id = false.
Proof. intros H1 H2. unfold on_node. rewrite H1, H2. reflexivity. Qed.

Definition refreshes_head (ch : change) (cc : ccopy) : bool :=
  match ch with
  | ChSplit None _ _ _ _ _ => true
  | ChRemoveNode id _ _ => opt_is (cc_n0 cc) id || opt_is (cc_p0 cc) id
  | _ => false
  end.
Definition refreshes_tail (ch : change) (cc : ccopy) : bool :=
  match ch with
  | ChSplit _ _ _ None _ _ => true
  | ChRemoveNode id _ _ => opt_is (cc_n0 cc) id || opt_is (cc_p0 cc) id
  | _ => false
  end.

Definition put_change (ch : change) : Prop :=
  match ch with ChSplit None _ uside _ _ _ => uside = true | _ => True end.

Lemma fix_head (c' : chain) ch cur cc : c_cn cur = Some cc -> cc_node cc = CnHead -> put_change ch ->
  fix_cursor c' ch cur = if refreshes_head ch cc then set_cn cur (load_head c') else cur.
Proof.
  intros H1 H2 Hp. pose proof (fun id => on_node_head cur cc id H1 H2) as Hon.
  destruct ch as [|id|id idx|sid nid uside upper tgt idx|id idx|id prev next]; cbn [fix_cursor refreshes_head].
  - reflexivity.
  - unfold fix_update. rewrite Hon. reflexivity.
  - unfold fix_insert. rewrite Hon. reflexivity.
  - unfold fix_split. destruct sid as [sid|].
    + assert (E1 : on_ref cur (Some sid) CnHead = false) by (unfold on_ref; rewrite H1, H2; reflexivity).
      assert (E2 : on_ref cur upper CnTail = false) by (unfold on_ref; rewrite H1, H2; destruct upper; reflexivity).
      rewrite E1, E2. destruct uside; [reflexivity|]. unfold fix_insert. rewrite Hon. reflexivity.
    + cbn [put_change] in Hp. subst uside. cbn [negb andb].
      assert (E1 : on_ref cur None CnHead = true) by (unfold on_ref; rewrite H1, H2; reflexivity). rewrite E1.
      unfold with_cn. rewrite H1. unfold refresh. rewrite H2. reflexivity.
  - unfold fix_remove, fix_remove_in. rewrite Hon. reflexivity.
  - rewrite (remove_node_off K V IDXNUM c' cur id prev next (Hon id)). rewrite H1. unfold refresh. rewrite H2. reflexivity.
Qed.

Lemma fix_tail (c' : chain) ch cur cc : c_cn cur = Some cc -> cc_node cc = CnTail ->
  fix_cursor c' ch cur = if refreshes_tail ch cc then set_cn cur (load_tail c') else cur.
Proof.
  intros H1 H2. pose proof (fun id => on_node_tail cur cc id H1 H2) as Hon.
  destruct ch as [|id|id idx|sid nid uside upper tgt idx|id idx|id prev next]; cbn [fix_cursor refreshes_tail].
  - reflexivity.
  - unfold fix_update. rewrite Hon. reflexivity.
  - unfold fix_insert. rewrite Hon. reflexivity.
  - unfold fix_split.
    assert (E1 : on_ref cur sid CnHead = false) by (unfold on_ref; rewrite H1, H2; destruct sid; reflexivity). rewrite E1.
    destruct upper as [u|].
    + assert (E2 : on_ref cur (Some u) CnTail = false) by (unfold on_ref; rewrite H1, H2; reflexivity). rewrite E2.
      destruct uside; [reflexivity|]. unfold fix_insert. rewrite Hon. reflexivity.
    + assert (E2 : on_ref cur None CnTail = true) by (unfold on_ref; rewrite H1, H2; reflexivity). rewrite E2.
      unfold with_cn. rewrite H1. unfold refresh. rewrite H2.
      destruct uside; [reflexivity|]. unfold fix_insert.
      assert (E3 : on_node (set_cn cur (load_tail c')) tgt = false) by reflexivity. rewrite E3. reflexivity.
  - unfold fix_remove, fix_remove_in. rewrite Hon. reflexivity.
  - rewrite (remove_node_off K V IDXNUM c' cur id prev next (Hon id)). rewrite H1. unfold refresh. rewrite H2. reflexivity.
Qed.

(* ---- first and last node identity across the effects ---- *)
Lemma nid_of_mid (A X X' : chain) i (r r' : recs) : nid_of K V (A ++ (i, r) :: X) = nid_of K V (A ++ (i, r') :: X').
Proof. destruct A as [|[a ra] A]; reflexivity. Qed.

Lemma last_id_eq (l : chain) : last_id K V l = match rev (ids l) with i :: _ => Some i | [] => None end.
Proof.
  unfold last_id. induction l as [|[i r] l _] using rev_ind; [reflexivity|].
  rewrite rev_app_distr, map_app, rev_app_distr. reflexivity.
Qed.
Lemma last_id_ids (c c' : chain) : ids c = ids c' -> last_id K V c = last_id K V c'.
Proof. intros H. rewrite !last_id_eq, H. reflexivity. Qed.

Lemma last_id_app_ne (X B : chain) : B <> [] -> last_id K V (X ++ B) = last_id K V B.
Proof.
  intros Hne. unfold last_id. rewrite rev_app_distr. destruct (rev B) as [|[i r] t] eqn:E; [|reflexivity].
  exfalso. apply Hne. apply (f_equal (@rev _)) in E. rewrite rev_involutive in E. exact E.
Qed.

Lemma ids_mid (A B : chain) i (r r' : recs) : ids (A ++ (i, r) :: B) = ids (A ++ (i, r') :: B).
Proof. rewrite !map_app. reflexivity. Qed.

Lemma put_effect_ends fresh e (c c' : chain) ch cc :
  put_effect K V cmp PIVOT fresh e c c' ch ->
  put_change ch /\
  (refreshes_head ch cc = false -> nid_of K V c' = nid_of K V c) /\
  (refreshes_tail ch cc = false -> last_id K V c' = last_id K V c).
Proof.
  intros He.
  destruct He as [A nid r B idx nv Hc Hi Hfo|A nid r B idx Hc Hi|A lid r B Hc| |A lid r B idx Hc Hp Hi|A lid r B idx Hc Hp Hi];
    try subst c; cbn [put_change refreshes_head refreshes_tail].
  - split; [exact I|]. split; intros _; [apply nid_of_mid|apply last_id_ids, ids_mid].
  - split; [exact I|]. split; intros _; [apply nid_of_mid|apply last_id_ids, ids_mid].
  - split; [exact I|]. split; [intros _; apply nid_of_mid|].
    destruct B as [|b B']; cbn [nid_of]; [discriminate|]. destruct b as [b0 rb]. intros _.
    replace (A ++ (lid, r) :: (fresh, [e]) :: (b0, rb) :: B') with ((A ++ [(lid, r); (fresh, [e])]) ++ (b0, rb) :: B')
      by (rewrite <- app_assoc; reflexivity).
    replace (A ++ (lid, r) :: (b0, rb) :: B') with ((A ++ [(lid, r)]) ++ (b0, rb) :: B') by (rewrite <- app_assoc; reflexivity).
    rewrite !last_id_app_ne by discriminate. reflexivity.
  - split; [reflexivity|]. split; [discriminate|].
    destruct c as [|[b0 rb] B']; cbn [nid_of]; [discriminate|]. intros _.
    change ((fresh, [e]) :: (b0, rb) :: B') with ([(fresh, [e])] ++ (b0, rb) :: B').
    rewrite last_id_app_ne by discriminate. reflexivity.
  - split; [exact I|]. split; [intros _; apply nid_of_mid|].
    destruct B as [|b B']; cbn [nid_of]; [discriminate|]. destruct b as [b0 rb]. intros _.
    replace (A ++ (lid, firstn PIVOT r) :: (fresh, insert_at K V (skipn PIVOT r) idx e) :: (b0, rb) :: B')
      with ((A ++ [(lid, firstn PIVOT r); (fresh, insert_at K V (skipn PIVOT r) idx e)]) ++ (b0, rb) :: B')
      by (rewrite <- app_assoc; reflexivity).
    replace (A ++ (lid, r) :: (b0, rb) :: B') with ((A ++ [(lid, r)]) ++ (b0, rb) :: B') by (rewrite <- app_assoc; reflexivity).
    rewrite !last_id_app_ne by discriminate. reflexivity.
  - split; [exact I|]. split; [intros _; apply nid_of_mid|].
    destruct B as [|b B']; cbn [nid_of]; [discriminate|]. destruct b as [b0 rb]. intros _.
    replace (A ++ (lid, insert_at K V (firstn PIVOT r) idx e) :: (fresh, skipn PIVOT r) :: (b0, rb) :: B')
      with ((A ++ [(lid, insert_at K V (firstn PIVOT r) idx e); (fresh, skipn PIVOT r)]) ++ (b0, rb) :: B')
      by (rewrite <- app_assoc; reflexivity).
    replace (A ++ (lid, r) :: (b0, rb) :: B') with ((A ++ [(lid, r)]) ++ (b0, rb) :: B') by (rewrite <- app_assoc; reflexivity).
    rewrite !last_id_app_ne by discriminate. reflexivity.
Qed.

Lemma fix_none (c' : chain) ch cur : c_cn cur = None -> fix_cursor c' ch cur = cur.
Proof.
  intros H. assert (Hon : forall id, on_node cur id = false) by (intros id; unfold on_node; rewrite H; reflexivity).
  assert (Hor : forall r d, on_ref cur r d = false) by (intros r d; unfold on_ref; rewrite H; reflexivity).
  destruct ch as [|id|id idx|sid nid uside upper tgt idx|id idx|id prev next]; cbn [Cursor.fix_cursor].
  - reflexivity.
  - unfold fix_update. rewrite Hon. reflexivity.
  - unfold fix_insert. rewrite Hon. reflexivity.
  - unfold fix_split. rewrite !Hor. destruct uside; [reflexivity|]. unfold fix_insert. rewrite Hon. reflexivity.
  - unfold fix_remove, fix_remove_in. rewrite Hon. reflexivity.
  - rewrite (remove_node_off K V IDXNUM c' cur id prev next (Hon id)). rewrite H. reflexivity.
Qed.

Lemma node_cursor_ok (c : chain) cur id p e : node_cursor c cur id p -> cursor_read K V c cur = Some e -> cur_ok c cur.
Proof.
  intros Hnc Hr. destruct Hnc as [cc [H1 [H2 H3]]].
  apply (cur_ok_node c cur cc id H1 (load_node_node K V c id cc H2)). split; [|eauto].
  exists cc. split; [exact H1|]. split; [exact H2|reflexivity].
Qed.

Lemma head_ok (c c' : chain) cur cc (b : bool) : c_cn cur = Some cc -> cc_node cc = CnHead -> cur_ok c cur ->
  (b = false -> nid_of K V c' = nid_of K V c) ->
  cur_ok c' (if b then set_cn cur (load_head c') else cur).
Proof.
  intros H1 H2 Hok Hn. unfold cur_ok in Hok. rewrite H1, H2 in Hok. destruct b.
  - unfold cur_ok, set_cn. cbn [c_cn Cursor.load_head cc_node]. reflexivity.
  - unfold cur_ok. rewrite H1, H2. rewrite Hok. unfold Cursor.load_head. rewrite (Hn eq_refl). reflexivity.
Qed.
Lemma tail_ok (c c' : chain) cur cc (b : bool) : c_cn cur = Some cc -> cc_node cc = CnTail -> cur_ok c cur ->
  (b = false -> last_id K V c' = last_id K V c) ->
  cur_ok c' (if b then set_cn cur (load_tail c') else cur).
Proof.
  intros H1 H2 Hok Hn. unfold cur_ok in Hok. rewrite H1, H2 in Hok. destruct b.
  - unfold cur_ok, set_cn. cbn [c_cn Cursor.load_tail cc_node]. reflexivity.
  - unfold cur_ok. rewrite H1, H2. rewrite Hok. unfold Cursor.load_tail. rewrite (Hn eq_refl). reflexivity.
Qed.

(* ---- every cursor stays in order across a put ---- *)
Theorem put_keeps_cur_ok fresh (c : chain) k v noover newok c' ch cur :
  ids_unique K V c -> ~ In fresh (ids c) ->
  put_chain K V cmp IDXNUM PIVOT upd fresh c k v noover newok = (POk, c', ch) ->
  cur_ok c cur -> cur_ok c' (fix_cursor c' ch cur).
Proof.
  intros Hu Hfr Hput Hok.
  assert (Hpiv : PIVOT <= IDXNUM) by lia. assert (Hidx : 1 <= IDXNUM) by lia.
  pose proof (put_chain_effect K V cmp IDXNUM PIVOT upd Hidx fresh c k v noover newok c' ch Hpiv Hput) as He.
  destruct (c_cn cur) as [cc|] eqn:Hcn.
  - destruct (cc_node cc) as [| |id] eqn:Hnode.
    + destruct (put_effect_ends fresh (k, v) c c' ch cc He) as [Hpc [Hh _]].
      rewrite (fix_head c' ch cur cc Hcn Hnode Hpc). apply (head_ok c c' cur cc _ Hcn Hnode Hok Hh).
    + destruct (put_effect_ends fresh (k, v) c c' ch cc He) as [_ [_ Ht]].
      rewrite (fix_tail c' ch cur cc Hcn Hnode). apply (tail_ok c c' cur cc _ Hcn Hnode Hok Ht).
    + destruct (proj1 (cur_ok_node c cur cc id Hcn Hnode) Hok) as [Hnc [[k0 v0] Hr]].
      destruct (put_keeps_cursor K V cmp IDXNUM PIVOT upd Hidx fresh c k v noover newok c' ch cur id (c_pos cur) k0 v0
                  Hpiv Hu Hfr Hput Hnc Hr) as [[id' [p' Hnc']] [_ [v' [Hr' _]]]].
      exact (node_cursor_ok c' _ id' p' (k0, v') Hnc' Hr').
  - rewrite (fix_none c' ch cur Hcn). unfold cur_ok. rewrite Hcn. exact I.
Qed.

(* ---- and across a delete ---- *)
Lemma del_effect_ends k (c c' : chain) ch cc :
  del_effect K V cmp k c c' ch ->
  put_change ch /\
  (cc_n0 cc = nid_of K V c -> cc_p0 cc = None -> refreshes_head ch cc = false -> nid_of K V c' = nid_of K V c) /\
  (cc_p0 cc = last_id K V c -> cc_n0 cc = None -> refreshes_tail ch cc = false -> last_id K V c' = last_id K V c).
Proof.
  intros He. destruct He as [A nid r B idx Hc Hi Hl Hfo|A nid e B Hc He]; subst c; cbn [put_change refreshes_head refreshes_tail].
  - split; [exact I|]. split; intros _ _ _; [apply nid_of_mid|apply last_id_ids, ids_mid].
  - split; [exact I|]. split.
    + intros Hn Hp Hb. rewrite Hn, Hp in Hb. cbn [opt_is] in Hb. rewrite orb_false_r in Hb.
      destruct A as [|[a ra] A']; [|reflexivity]. cbn [app nid_of opt_is] in Hb. rewrite Nat.eqb_refl in Hb. discriminate.
    + intros Hp Hn Hb. rewrite Hn, Hp in Hb. cbn [opt_is] in Hb.
      destruct B as [|b B'].
      * exfalso. change (A ++ [(nid, [e])]) with (A ++ [] ++ [(nid, [e])]) in Hb. rewrite last_id_app in Hb.
        cbn [fst opt_is] in Hb. rewrite Nat.eqb_refl in Hb. discriminate.
      * replace (A ++ (nid, [e]) :: b :: B') with ((A ++ [(nid, [e])]) ++ b :: B') by (rewrite <- app_assoc; reflexivity).
        rewrite !last_id_app_ne by discriminate. reflexivity.
Qed.

Theorem del_keeps_cur_ok k (c c' : chain) ch cur :
  del_effect K V cmp k c c' ch -> NodeInv c -> ids_unique K V c ->
  cur_ok c cur -> cur_ok c' (fix_cursor c' ch cur).
Proof.
  intros He Hinv Hu Hok.
  destruct (c_cn cur) as [cc|] eqn:Hcn.
  - destruct (cc_node cc) as [| |id] eqn:Hnode.
    + destruct (del_effect_ends k c c' ch cc He) as [Hpc [Hh _]].
      rewrite (fix_head c' ch cur cc Hcn Hnode Hpc). apply (head_ok c c' cur cc _ Hcn Hnode Hok).
      assert (E : cc = load_head c) by (unfold cur_ok in Hok; rewrite Hcn, Hnode in Hok; exact Hok).
      apply Hh; rewrite E; reflexivity.
    + destruct (del_effect_ends k c c' ch cc He) as [_ [_ Ht]].
      rewrite (fix_tail c' ch cur cc Hcn Hnode). apply (tail_ok c c' cur cc _ Hcn Hnode Hok).
      assert (E : cc = load_tail c) by (unfold cur_ok in Hok; rewrite Hcn, Hnode in Hok; exact Hok).
      apply Ht; rewrite E; reflexivity.
    + destruct (proj1 (cur_ok_node c cur cc id Hcn Hnode) Hok) as [Hnc [[k0 v0] Hr]].
      destruct (del_keeps_cursor K V cmp IDXNUM PIVOT cmp_lt_eq cmp_antisym pivot_ok k c c' ch cur id (c_pos cur) k0 v0 He Hinv Hu Hnc Hr)
        as [id' p' H1 H2 H3|id' p' k1 v1 Hk H1 H2 H3 H4 H5|id' p' k1 v1 Hk H1 H2 H3 H4 H5|Hk H1 H2 H3 H5].
      * exact (node_cursor_ok c' _ id' p' _ H1 H3).
      * exact (node_cursor_ok c' _ id' p' _ H1 H3).
      * exact (node_cursor_ok c' _ id' p' _ H1 H3).
      * rewrite H1. exact I.
  - rewrite (fix_none c' ch cur Hcn). unfold cur_ok. rewrite Hcn. exact I.
Qed.

(* ---- cursor movements ---- *)
Definition copy_ok (c : chain) (cc : ccopy) (p : nat) : Prop :=
  match cc_node cc with
  | CnNode id => load_node c id = Some cc /\ p < cc_pnum cc
  | CnHead => cc = load_head c
  | CnTail => cc = load_tail c
  end.

Lemma cur_ok_copy (c : chain) cc p sk pe : copy_ok c cc p -> cur_ok c {| c_cn := Some cc; c_pos := p; c_skip := sk; c_pend := pe |}.
Proof. intros H. exact H. Qed.

Lemma find_node_in (c : chain) id : forall pv pv' r nx, find_node K V pv c id = Some (pv', r, nx) -> In (id, r) c.
Proof.
  induction c as [|[j rj] c IH]; intros pv pv' r nx H; [discriminate|]. cbn [find_node] in H.
  destruct (Nat.eqb j id) eqn:E; [apply Nat.eqb_eq in E; inversion H; subst; left; reflexivity|right; eapply IH; exact H].
Qed.

Lemma load_node_pnum (c : chain) id cc : Forall (node_ok K V IDXNUM) c -> load_node c id = Some cc ->
  0 < cc_pnum cc /\ copy_ok c cc 0 /\ copy_ok c cc (cc_pnum cc - 1).
Proof.
  intros Hok Hl. pose proof (load_node_node K V c id cc Hl) as Hn.
  assert (Hpos : 0 < cc_pnum cc).
  { unfold Cursor.load_node in Hl. destruct (find_node K V None c id) as [[[pv r] nx]|] eqn:E; [|discriminate].
    inversion Hl; subst cc. cbn [cc_pnum]. apply find_node_in in E. rewrite Forall_forall in Hok. destruct (Hok _ E) as [Hne _].
    cbn [snd] in Hne. destruct r; [congruence|cbn [length]; lia]. }
  split; [exact Hpos|]. unfold copy_ok. rewrite Hn. split; (split; [exact Hl|lia]).
Qed.

Theorem cursor_to_ok (c : chain) cur op : Forall (node_ok K V IDXNUM) c -> cur_ok c cur ->
  cur_ok c (snd (cursor_to K V IDXNUM c cur op)).
Proof.
  intros Hok Hc. destruct op; cbn [cursor_to snd]; try exact I.
  - (* NEXT *)
    assert (Hst : match (match c_cn cur with
                         | Some cc => Some (cc, c_pend cur)
                         | None => match c_pend cur with PHead => Some (load_head c, PNone) | PTail => Some (load_tail c, PNone) | PNone => None end
                         end) with
                  | Some (cc, _) => copy_ok c cc (c_pos cur) | None => True end).
    { destruct (c_cn cur) as [cc|] eqn:E; [unfold cur_ok in Hc; rewrite E in Hc; exact Hc|]. destruct (c_pend cur); try exact I; reflexivity. }
    destruct (match c_cn cur with Some cc => Some (cc, c_pend cur) | None => _ end) as [[cc pend]|]; [|exact I].
    destruct (0 <? c_skip cur)%Z; [exact Hst|].
    destruct (Nat.leb (cc_pnum cc) (c_pos cur + 1)) eqn:El.
    + destruct (cc_n0 cc) as [n|]; [|exact Hst].
      destruct (Cursor.load_node K V c n) as [cc'|] eqn:Eld; [|exact Hst].
      apply cur_ok_copy. exact (proj1 (proj2 (load_node_pnum c n cc' Hok Eld))).
    + destruct (is_db cc) eqn:Edb; [exact Hst|]. apply cur_ok_copy. apply Nat.leb_gt in El.
      unfold copy_ok in *. unfold is_db in Edb. destruct (cc_node cc); try discriminate. destruct Hst as [H1 _]. split; [exact H1|lia].
  - (* PREV *)
    assert (Hst : match (match c_cn cur with
                         | Some cc => Some (cc, c_pend cur)
                         | None => match c_pend cur with PHead => Some (load_head c, PNone) | PTail => Some (load_tail c, PNone) | PNone => None end
                         end) with
                  | Some (cc, _) => copy_ok c cc (c_pos cur) | None => True end).
    { destruct (c_cn cur) as [cc|] eqn:E; [unfold cur_ok in Hc; rewrite E in Hc; exact Hc|]. destruct (c_pend cur); try exact I; reflexivity. }
    destruct (match c_cn cur with Some cc => Some (cc, c_pend cur) | None => _ end) as [[cc pend]|]; [|exact I].
    destruct (c_skip cur <? 0)%Z; [exact Hst|].
    destruct (Nat.eqb (c_pos cur) 0) eqn:El.
    + destruct (cc_p0 cc) as [n|]; [|exact Hst].
      destruct (Cursor.load_node K V c n) as [cc'|] eqn:Eld; [|exact Hst].
      apply cur_ok_copy. exact (proj2 (proj2 (load_node_pnum c n cc' Hok Eld))).
    + destruct (is_db cc) eqn:Edb; [exact Hst|]. apply cur_ok_copy. apply Nat.eqb_neq in El.
      unfold copy_ok in *. unfold is_db in Edb. destruct (cc_node cc); try discriminate. destruct Hst as [H1 H2]. split; [exact H1|lia].
Qed.

Theorem cursor_to_key_ok (c : chain) cur ge k : Forall (node_ok K V IDXNUM) c -> ids_unique K V c -> cur_ok c cur ->
  cur_ok c (snd (cursor_to_key K V cmp c cur ge k)).
Proof.
  intros Hok Hu Hc. unfold cursor_to_key.
  assert (Hfail : cur_ok c {| c_cn := c_cn cur; c_pos := c_pos cur; c_skip := c_skip cur; c_pend := c_pend cur |}) by exact Hc.
  destruct (lower_of K V cmp c k) as [[lid lrecs]|] eqn:El; [|exact Hfail].
  pose proof (lower_of_in K V cmp c k (lid, lrecs) El) as Hin.
  destruct (in_split_unique K V c lid lrecs Hin) as [pre [rest Hsp]].
  pose proof (load_at K V c pre lid lrecs rest Hsp Hu) as Hl.
  assert (Hne : lrecs <> []) by (rewrite Forall_forall in Hok; destruct (Hok _ Hin) as [H _]; exact H).
  assert (Hlen : 0 < length lrecs) by (destruct lrecs; [congruence|cbn [length]; lia]).
  assert (Hp : forall p, p < length lrecs ->
             cur_ok c (snd (match Cursor.load_node K V c lid with
                            | Some cc => (CROk, {| c_cn := Some cc; c_pos := p; c_skip := 0; c_pend := c_pend cur |})
                            | None => (CRNotFound, {| c_cn := c_cn cur; c_pos := c_pos cur; c_skip := c_skip cur; c_pend := c_pend cur |}) end))).
  { intros p Hlt. rewrite Hl. cbn [snd]. apply cur_ok_copy. unfold copy_ok. cbn [cc_node cc_pnum]. split; [exact Hl|exact Hlt]. }
  destruct (found_at K V cmp lrecs k (pos K V cmp lrecs k)) eqn:Ef.
  - apply Hp. eapply found_lt. exact Ef.
  - destruct ge; [|exact Hfail]. apply Hp.
    pose proof (pos_le K V cmp IDXNUM ltac:(lia) lrecs k). destruct (Nat.eqb (pos K V cmp lrecs k) 0) eqn:E0; [exact Hlen|]. apply Nat.eqb_neq in E0. lia.
Qed.

(* ---- overwrite through a cursor (iwkv_cursor_set) ---- *)
Lemma upd_by_id_effect : forall (c : chain) id i v c', upd_by_id K V c id i v = Some c' ->
  exists A r B, c = A ++ (id, r) :: B /\ i < length r /\ c' = A ++ (id, update_at K V r i v) :: B.
Proof.
  induction c as [|[j rj] c IH]; intros id i v c' H; cbn [upd_by_id] in H; [discriminate|].
  destruct (Nat.eqb j id) eqn:E.
  - apply Nat.eqb_eq in E. subst j. destruct (Nat.ltb i (length rj)) eqn:El; [|discriminate]. inversion H; subst.
    exists [], rj, c. split; [reflexivity|]. split; [apply Nat.ltb_lt; exact El|reflexivity].
  - destruct (upd_by_id K V c id i v) as [c0|] eqn:E2; [|discriminate]. cbn [option_map] in H. inversion H; subst.
    destruct (IH _ _ _ _ E2) as [A [r [B [H1 [H2 H3]]]]]. exists ((j, rj) :: A), r, B.
    split; [rewrite H1; reflexivity|]. split; [exact H2|rewrite H3; reflexivity].
Qed.

Lemma update_at_keys (r : recs) i v : map fst (update_at K V r i v) = map fst r.
Proof. revert i; induction r as [|[k0 v0] r IH]; intros [|i]; cbn [update_at map fst]; try reflexivity. rewrite IH. reflexivity. Qed.
Lemma update_at_len (r : recs) i v : length (update_at K V r i v) = length r.
Proof. revert i; induction r as [|[k0 v0] r IH]; intros [|i]; cbn [update_at length]; try reflexivity. rewrite IH. reflexivity. Qed.

Lemma sorted_keys : forall (l l' : recs), map fst l = map fst l' -> sorted K V cmp l -> sorted K V cmp l'.
Proof.
  induction l as [|x l IH]; intros [|x' l'] H Hs; try discriminate; [constructor|].
  cbn [map] in H. inversion H as [[H1 H2]]. inversion Hs as [|? ? Hs' Hf]; subst.
  constructor; [apply (IH l' H2 Hs')|].
  clear - H1 H2 Hf. revert l' H2. induction l as [|y l IHl]; intros [|y' l'] H2; try discriminate; [constructor|].
  cbn [map] in H2. inversion H2 as [[E1 E2]]. inversion Hf as [|? ? Hy Hf']; subst.
  constructor; [unfold klt in *; rewrite <- H1, <- E1; exact Hy|apply IHl; assumption].
Qed.

Lemma flat_keys_mid (A B : chain) i (r r' : recs) : map fst r = map fst r' ->
  map fst (flat (A ++ (i, r) :: B)) = map fst (flat (A ++ (i, r') :: B)).
Proof. intros H. rewrite !flat_mid, !map_app, H. reflexivity. Qed.

Theorem update_keeps_cur_ok (A B : chain) nid r idx nv cur :
  let c := A ++ (nid, r) :: B in let c' := A ++ (nid, update_at K V r idx nv) :: B in
  ids_unique K V c -> cur_ok c cur -> cur_ok c' (fix_cursor c' (ChUpdate nid) cur).
Proof.
  intros c c' Hu Hok.
  destruct (c_cn cur) as [cc|] eqn:Hcn.
  - destruct (cc_node cc) as [| |id] eqn:Hnode.
    + rewrite (fix_head c' (ChUpdate nid) cur cc Hcn Hnode I). cbn [refreshes_head].
      apply (head_ok c c' cur cc false Hcn Hnode Hok). intros _. apply nid_of_mid.
    + rewrite (fix_tail c' (ChUpdate nid) cur cc Hcn Hnode). cbn [refreshes_tail].
      apply (tail_ok c c' cur cc false Hcn Hnode Hok). intros _. apply last_id_ids, ids_mid.
    + destruct (proj1 (cur_ok_node c cur cc id Hcn Hnode) Hok) as [Hnc [[k0 v0] Hr]].
      destruct (update_keeps_cursor K V IDXNUM PIVOT A B nid r idx nv cur id (c_pos cur) k0 v0 Hu Hnc Hr) as [H1 [_ [v' [H3 _]]]].
      exact (node_cursor_ok c' _ id (c_pos cur) (k0, v') H1 H3).
  - rewrite (fix_none c' (ChUpdate nid) cur Hcn). unfold cur_ok. rewrite Hcn. exact I.
Qed.

(* ---- THE INVARIANT ---- *)
Definition GInv (fresh : nat) (c : chain) (curs : list cursor) : Prop :=
  NodeInv c /\ ids_unique K V c /\ (forall id, In id (ids c) -> id < fresh) /\ Forall (cur_ok c) curs.

Definition next_fresh (fresh : nat) (ch : change) : nat :=
  match ch with ChSplit _ _ _ _ _ _ => S fresh | _ => fresh end.

Lemma put_effect_ids fresh e (c c' : chain) ch j :
  put_effect K V cmp PIVOT fresh e c c' ch -> In j (ids c') -> In j (ids c) \/ (j = fresh /\ next_fresh fresh ch = S fresh).
Proof.
  intros He Hin.
  destruct He as [A nid r B idx nv Hc Hi Hfo|A nid r B idx Hc Hi|A lid r B Hc| |A lid r B idx Hc Hp Hi|A lid r B idx Hc Hp Hi];
    try subst c; rewrite ?map_app in *; cbn [map fst next_fresh] in *.
  - left. exact Hin.
  - left. exact Hin.
  - apply in_app_or in Hin. destruct Hin as [H|[H|[H|H]]]; [left; apply in_or_app; left; exact H|left; apply in_or_app; right; left; exact H
      |right; split; [symmetry; exact H|reflexivity]|left; apply in_or_app; right; right; exact H].
  - destruct Hin as [H|H]; [right; split; [symmetry; exact H|reflexivity]|left; exact H].
  - apply in_app_or in Hin. destruct Hin as [H|[H|[H|H]]]; [left; apply in_or_app; left; exact H|left; apply in_or_app; right; left; exact H
      |right; split; [symmetry; exact H|reflexivity]|left; apply in_or_app; right; right; exact H].
  - apply in_app_or in Hin. destruct Hin as [H|[H|[H|H]]]; [left; apply in_or_app; left; exact H|left; apply in_or_app; right; left; exact H
      |right; split; [symmetry; exact H|reflexivity]|left; apply in_or_app; right; right; exact H].
Qed.

Theorem ginv_put fresh (c : chain) curs k v noover newok c' ch :
  GInv fresh c curs ->
  put_chain K V cmp IDXNUM PIVOT upd fresh c k v noover newok = (POk, c', ch) ->
  GInv (next_fresh fresh ch) c' (map (fix_cursor c' ch) curs).
Proof.
  intros [Hinv [Hu [Hb Hc]]] Hput.
  assert (Hpiv : PIVOT <= IDXNUM) by lia. assert (Hidx : 1 <= IDXNUM) by lia.
  assert (Hfr : ~ In fresh (ids c)) by (intros H; specialize (Hb _ H); lia).
  pose proof (put_chain_effect K V cmp IDXNUM PIVOT upd Hidx fresh c k v noover newok c' ch Hpiv Hput) as He.
  split; [eapply put_chain_inv; eauto|]. split; [eapply put_effect_unique; eauto|]. split.
  - intros j Hj. destruct (put_effect_ids fresh (k, v) c c' ch j He Hj) as [H|[H1 H2]].
    + specialize (Hb _ H). destruct ch; cbn [next_fresh]; lia.
    + rewrite H2. lia.
  - apply Forall_map. eapply Forall_impl; [|exact Hc]. intros cur Hok. eapply put_keeps_cur_ok; eauto.
Qed.

Theorem ginv_del fresh (c c' : chain) curs k ch :
  GInv fresh c curs -> del_effect K V cmp k c c' ch -> GInv fresh c' (map (fix_cursor c' ch) curs).
Proof.
  intros [Hinv [Hu [Hb Hc]]] He.
  destruct (del_effect_inv K V cmp IDXNUM PIVOT cmp_lt_eq pivot_ok k c c' ch He Hinv Hu) as [Hinv' Hu'].
  split; [exact Hinv'|]. split; [exact Hu'|]. split.
  - intros j Hj. apply Hb.
    destruct He as [A nid r B idx Hc0 Hi Hl Hfo|A nid e B Hc0 He]; subst c; rewrite ?map_app in *; cbn [map fst] in *; [exact Hj|].
    apply in_app_or in Hj. apply in_or_app. destruct Hj as [H|H]; [left; exact H|right; right; exact H].
  - apply Forall_map. eapply Forall_impl; [|exact Hc]. intros cur Hok. eapply del_keeps_cur_ok; eauto.
Qed.

Theorem ginv_upd fresh (c : chain) curs id i v c' :
  GInv fresh c curs -> upd_by_id K V c id i v = Some c' -> GInv fresh c' (map (fix_cursor c' (ChUpdate id)) curs).
Proof.
  intros [[Hok Hs] [Hu [Hb Hc]]] H.
  destruct (upd_by_id_effect c id i v c' H) as [A [r [B [H1 [H2 H3]]]]]. subst c c'.
  split; [split|].
  - apply Forall_app in Hok. destruct Hok as [HA HB]. inversion HB as [|? ? [Hn1 Hn2] HB']; subst. cbn [snd] in *.
    apply Forall_app. split; [exact HA|]. constructor; [|exact HB']. split; cbn [snd].
    + intros E. apply (f_equal (@length _)) in E. rewrite update_at_len in E. destruct r; [congruence|discriminate].
    + rewrite update_at_len. exact Hn2.
  - eapply sorted_keys; [|exact Hs]. apply flat_keys_mid. symmetry. apply update_at_keys.
  - pose proof (ids_mid A B id (update_at K V r i v) r) as Eids.
    split; [unfold ids_unique in *; rewrite !map_app in *; exact Hu|]. split.
    + intros j Hj. apply Hb. rewrite !map_app in *. exact Hj.
    + apply Forall_map. eapply Forall_impl; [|exact Hc]. intros cur Hok'. apply update_keeps_cur_ok; assumption.
Qed.

Theorem ginv_move fresh (c : chain) curs cur op :
  GInv fresh c curs -> cur_ok c cur -> cur_ok c (snd (cursor_to K V IDXNUM c cur op)).
Proof. intros [[Hok _] _] Hc. apply cursor_to_ok; assumption. Qed.

Theorem ginv_move_key fresh (c : chain) curs cur ge k :
  GInv fresh c curs -> cur_ok c cur -> cur_ok c (snd (cursor_to_key K V cmp c cur ge k)).
Proof. intros [[Hok _] [Hu _]] Hc. apply cursor_to_key_ok; assumption. Qed.

Lemma cur_ok_init (c : chain) : cur_ok c cursor_init.
Proof. exact I. Qed.

End Inv.
