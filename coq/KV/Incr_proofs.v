(* C01: IWKV_VAL_INCREMENT.  The stored value is a 4- or 8-byte little-endian counter, the operand a 4- or 8-byte
   little-endian SIGNED number (a 4-byte operand is sign-extended); the result keeps the width of the stored value and is the
   sum modulo 2^width.  Any other width on either side: IWKV_ERROR_VALUE_CANNOT_BE_INCREMENTED, nothing changes. *)
Require Import List ZArith Bool Lia. Import ListNotations.
Require Import IW.Lib.CInt IW.KV.Inst IW.KV.Match_proofs.
Local Open Scope Z_scope.

Definition width_ok (l : list Z) : bool := Nat.eqb (length l) 4 || Nat.eqb (length l) 8.
Definition bits (l : list Z) : Z := 8 * Z.of_nat (length l).

Lemma le_encode_length : forall n v, length (le_encode n v) = n.
Proof. induction n as [|n IH]; intros v; [reflexivity|]. cbn [le_encode length]. rewrite IH. reflexivity. Qed.

Lemma uw_range b x : 0 < b -> 0 <= uw b x < 2 ^ b.
Proof. intros Hb. unfold uw. apply Z.mod_pos_bound. apply Z.pow_pos_nonneg; lia. Qed.

Theorem incr_is_modular_add (old v : list Z) :
  width_ok old = true -> width_ok v = true ->
  exists r, incr old v = Some r /\ length r = length old /\
            le_decode r = (le_decode old + sw (bits v) (le_decode v)) mod 2 ^ bits old.
Proof.
  unfold width_ok, bits, incr. intros Ho Hv.
  apply orb_true_iff in Ho. apply orb_true_iff in Hv.
  assert (P4 : 256 ^ Z.of_nat 4 = 2 ^ 32) by reflexivity. assert (P8 : 256 ^ Z.of_nat 8 = 2 ^ 64) by reflexivity.
  destruct Hv as [Hv|Hv]; destruct Ho as [Ho|Ho]; pose proof Hv as Hv'; pose proof Ho as Ho';
    apply Nat.eqb_eq in Hv'; apply Nat.eqb_eq in Ho'.
  - rewrite Hv, Ho. eexists. split; [reflexivity|]. rewrite le_encode_length, Hv', Ho'. split; [reflexivity|].
    rewrite le_decode_encode; [reflexivity|]. rewrite P4. apply uw_range. lia.
  - rewrite Hv. assert (E : Nat.eqb (length old) 4 = false) by (rewrite Ho'; reflexivity). rewrite E, Ho.
    eexists. split; [reflexivity|]. rewrite le_encode_length, Hv', Ho'. split; [reflexivity|].
    rewrite le_decode_encode; [reflexivity|]. rewrite P8. apply uw_range. lia.
  - assert (E : Nat.eqb (length v) 4 = false) by (rewrite Hv'; reflexivity). rewrite E, Hv, Ho.
    eexists. split; [reflexivity|]. rewrite le_encode_length, Hv', Ho'. split; [reflexivity|].
    rewrite le_decode_encode; [reflexivity|]. rewrite P4. apply uw_range. lia.
  - assert (E : Nat.eqb (length v) 4 = false) by (rewrite Hv'; reflexivity). rewrite E, Hv.
    assert (E2 : Nat.eqb (length old) 4 = false) by (rewrite Ho'; reflexivity). rewrite E2, Ho.
    eexists. split; [reflexivity|]. rewrite le_encode_length, Hv', Ho'. split; [reflexivity|].
    rewrite le_decode_encode; [reflexivity|]. rewrite P8. apply uw_range. lia.
Qed.

Theorem incr_refused_iff (old v : list Z) : incr old v = None <-> width_ok old && width_ok v = false.
Proof.
  unfold width_ok, incr. destruct (Nat.eqb (length v) 4); destruct (Nat.eqb (length v) 8);
    destruct (Nat.eqb (length old) 4); destruct (Nat.eqb (length old) 8); cbn [orb andb]; split; intros H;
    try reflexivity; try discriminate.
Qed.

(* the operand is signed: adding the 4-byte operand ff ff ff ff to the 8-byte counter 5 gives 4, not 5 + 2^32 - 1 *)
Example incr_negative_delta : incr [5; 0; 0; 0; 0; 0; 0; 0] [255; 255; 255; 255] = Some [4; 0; 0; 0; 0; 0; 0; 0].
Proof. vm_compute. reflexivity. Qed.
(* and the sum wraps at the width of the stored value *)
Example incr_wraps : incr [255; 255; 255; 255] [2; 0; 0; 0; 0; 0; 0; 0] = Some [1; 0; 0; 0].
Proof. vm_compute. reflexivity. Qed.
