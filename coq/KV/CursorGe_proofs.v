(* C02: GE positioning.  iwkv_cursor_to_key(IWKV_CURSOR_GE, k) on the node model positions on exactly the record the
   ordered specification designates: the record with key k when stored, otherwise the last record before k in scan
   order (scan order is descending key order: the smallest key greater than k), and reports not-found exactly when
   there is none - for every chain satisfying the invariant and every key. *)
Require Import List ZArith Bool Lia Sorted. Import ListNotations.
Require Import IW.KV.Node IW.KV.Spec IW.KV.Node_proofs IW.KV.Cursor IW.KV.Cursor_proofs.

Section CursorGe.
Variables K V : Type.
Variable cmp : K -> K -> comparison.
Variable IDXNUM PIVOT : nat.
Hypothesis pivot_ok : 1 <= PIVOT < IDXNUM.
Hypothesis cmp_lt_eq : forall a b c, cmp a b = Lt -> cmp b c = Eq -> cmp a c = Lt.
Hypothesis cmp_antisym : forall a b, cmp a b = CompOpp (cmp b a).
Hypothesis cmp_trans : forall a b c, cmp a b = Lt -> cmp b c = Lt -> cmp a c = Lt.

Notation recs := (recs K V).
Notation chain := (chain K V).
Notation flat := (flat K V).
Notation s_ge := (s_ge K V cmp).
Notation pos := (pos K V cmp).
Notation found_at := (found_at K V cmp).
Notation first_le := (first_le K V cmp).
Notation all_lt := (all_lt K V cmp).
Notation head_gt := (head_gt K V cmp).
Notation sorted := (sorted K V cmp).
Notation node_ok := (node_ok K V IDXNUM).

Definition last_or (a : recs) (best : option (K * V)) : option (K * V) :=
  match rev a with e :: _ => Some e | [] => best end.

Lemma last_or_cons e (a : recs) best : last_or (e :: a) best = last_or a (Some e).
Proof. unfold last_or. cbn [rev]. destruct (rev a) as [|x l]; reflexivity. Qed.

Lemma s_ge_app_lt (a b : recs) k best : all_lt a k -> s_ge (a ++ b) k best = s_ge b k (last_or a best).
Proof.
  revert best; induction a as [|[k0 v0] a IH]; intros best H; [reflexivity|].
  inversion H as [|? ? H1 H2]; subst. cbn [fst] in H1. cbn [app Spec.s_ge]. rewrite H1.
  rewrite IH by exact H2. rewrite last_or_cons. reflexivity.
Qed.

Lemma s_ge_head_gt (l : recs) k best : head_gt l k -> s_ge l k best = best.
Proof. destruct l as [|[k0 v0] l]; [reflexivity|]. cbn [Node_proofs.head_gt fst Spec.s_ge]. intros H. rewrite H. reflexivity. Qed.

Lemma s_ge_app_in (a b : recs) k best : head_gt b k -> s_ge (a ++ b) k best = s_ge a k best.
Proof.
  intros Hb. revert best; induction a as [|[k0 v0] a IH]; intros best; cbn [app Spec.s_ge]; [apply s_ge_head_gt; exact Hb|].
  destruct (cmp k0 k); [reflexivity|apply IH|reflexivity].
Qed.

(* inside one node: the slot the model computes *)
Lemma s_ge_in_node (r : recs) k best :
  s_ge r k best =
  if found_at r k (pos r k) then nth_error r (pos r k)
  else if Nat.eqb (pos r k) 0 then best else nth_error r (pos r k - 1).
Proof.
  revert best; induction r as [|[k0 v0] r IH]; intros best; [reflexivity|].
  cbn [Spec.s_ge Node.pos]. destruct (cmp k0 k) eqn:E.
  - unfold Node.found_at. cbn [nth_error]. rewrite E. reflexivity.
  - rewrite IH. unfold Node.found_at. cbn [nth_error].
    destruct (nth_error r (pos r k)) as [[k1 v1]|] eqn:En.
    + destruct (cmp k1 k); try reflexivity;
        (destruct (pos r k) as [|p] eqn:Ep; cbn [Nat.eqb Nat.sub nth_error]; [reflexivity|rewrite Nat.sub_0_r; reflexivity]).
    + destruct (pos r k) as [|p] eqn:Ep; cbn [Nat.eqb Nat.sub nth_error]; [reflexivity|rewrite Nat.sub_0_r; reflexivity].
  - unfold Node.found_at. cbn [nth_error]. rewrite E. reflexivity.
Qed.

Lemma first_le_pos (r : recs) k : first_le r k = true -> found_at r k (pos r k) = true \/ 1 <= pos r k.
Proof.
  destruct r as [|[k0 v0] r]; cbn [Node.first_le]; [discriminate|]. cbn [Node.pos]. destruct (cmp k0 k) eqn:E; intros H.
  - left. unfold Node.found_at. cbn [nth_error]. rewrite E. reflexivity.
  - right. lia.
  - discriminate.
Qed.

Lemma s_ge_first_le (r : recs) k b1 b2 : first_le r k = true -> s_ge r k b1 = s_ge r k b2.
Proof.
  intros H. rewrite !s_ge_in_node. destruct (first_le_pos r k H) as [Hf|Hp]; [rewrite Hf; reflexivity|].
  destruct (found_at r k (pos r k)); [reflexivity|].
  assert (E : Nat.eqb (pos r k) 0 = false) by (apply Nat.eqb_neq; lia). rewrite E. reflexivity.
Qed.

Lemma lower_nodes_first_le : forall rest (n0 : node K V) k, first_le (snd n0) k = true ->
  first_le (snd (lower_nodes K V cmp n0 rest k)) k = true.
Proof.
  induction rest as [|nx rest IH]; intros n0 k H; cbn [lower_nodes]; [exact H|].
  destruct (first_le (snd nx) k) eqn:E; [apply IH; exact E|exact H].
Qed.

Lemma lower_nodes_ge : forall rest lid lrecs k best,
  Forall node_ok ((lid, lrecs) :: rest) -> sorted (flat ((lid, lrecs) :: rest)) -> first_le lrecs k = true ->
  s_ge (flat ((lid, lrecs) :: rest)) k best = s_ge (snd (lower_nodes K V cmp (lid, lrecs) rest k)) k None.
Proof.
  induction rest as [|[nid nrecs] rest' IH]; intros lid lrecs k best Hok Hs Hfl; cbn [lower_nodes snd].
  - rewrite (flat_cons K V). cbn [snd]. change (flat []) with (@nil (K * V)). rewrite app_nil_r. apply s_ge_first_le. exact Hfl.
  - inversion Hok as [|? ? Hl Hrest]; subst.
    destruct (first_le nrecs k) eqn:Ef.
    + rewrite (flat_cons K V) in *. cbn [snd] in *.
      assert (Hlt : all_lt lrecs k).
      { rewrite (flat_cons K V) in Hs. cbn [snd] in Hs. rewrite app_assoc in Hs.
        apply (sorted_app_inv K V cmp) in Hs. destruct Hs as [Hs _].
        eapply (prefix_all_lt K V cmp cmp_lt_eq cmp_trans); eauto. }
      rewrite s_ge_app_lt by exact Hlt. apply IH; [exact Hrest| |exact Ef].
      apply (sorted_app_inv K V cmp) in Hs. tauto.
    + rewrite (flat_cons K V). cbn [snd]. rewrite s_ge_app_in.
      * apply s_ge_first_le. exact Hfl.
      * inversion Hrest; subst. apply (head_gt_flat K V cmp IDXNUM); assumption.
Qed.

Theorem cursor_ge_spec (c : chain) (cur : cursor) (k : K) :
  NodeInv K V cmp IDXNUM c -> ids_unique K V c ->
  match cursor_to_key K V cmp c cur true k with
  | (CROk, cur') => exists e, cursor_read K V c cur' = Some e /\ s_ge (flat c) k None = Some e
  | (_, _) => s_ge (flat c) k None = None
  end.
Proof.
  intros [Hok Hs] Hu. unfold cursor_to_key, lower_of.
  destruct c as [|[i0 r0] rest]; [reflexivity|]. cbn [snd].
  destruct (first_le r0 k) eqn:Ef.
  - pose proof (lower_nodes_ge rest i0 r0 k None Hok Hs Ef) as L.
    pose proof (lower_nodes_first_le rest (i0, r0) k Ef) as Hfl.
    pose proof (lower_nodes_in K V cmp rest (i0, r0) k) as Hin.
    destruct (lower_nodes K V cmp (i0, r0) rest k) as [lid lrecs]. cbn [snd] in *.
    destruct (in_split_unique K V _ lid lrecs Hin) as [pre [rest2 Hc]].
    rewrite (load_at K V _ pre lid lrecs rest2 Hc Hu).
    pose proof (s_ge_in_node lrecs k None) as Hn.
    assert (Hrd : forall p e, nth_error lrecs p = Some e ->
              cursor_read K V ((i0, r0) :: rest)
                {| c_cn := Some {| cc_node := CnNode lid; cc_pnum := length lrecs; cc_p0 := last_id_or K V None pre; cc_n0 := nid_of K V rest2 |};
                   c_pos := p; c_skip := 0%Z; c_pend := c_pend cur |} = Some e).
    { intros p e He. exact (read_at K V _ pre lid lrecs rest2 p (c_pend cur) e Hc Hu He). }
    destruct (found_at lrecs k (pos lrecs k)) eqn:Efo.
    + unfold Node.found_at in Efo. destruct (nth_error lrecs (pos lrecs k)) as [e|] eqn:En; [|discriminate].
      exists e. split; [apply Hrd; exact En|]. exact (eq_trans L Hn).
    + destruct (first_le_pos lrecs k Hfl) as [Hf|Hp]; [congruence|].
      assert (E : Nat.eqb (pos lrecs k) 0 = false) by (apply Nat.eqb_neq; lia). rewrite E in *.
      pose proof (pos_le_length K V cmp IDXNUM PIVOT pivot_ok lrecs k) as Hle.
      destruct (nth_error lrecs (pos lrecs k - 1)) as [e|] eqn:En; [|apply nth_error_None in En; lia].
      exists e. split; [apply Hrd; exact En|]. exact (eq_trans L Hn).
  - (* every record lies behind k: nothing is greater or equal *)
    inversion Hok as [|? ? Hn Hrest]; subst.
    apply s_ge_head_gt. apply (head_gt_flat K V cmp IDXNUM); assumption.
Qed.
End CursorGe.

(* ---- writes through a positioned cursor act on exactly the record the cursor reads ---- *)
Require Import IW.KV.Stable_proofs IW.KV.ScanStable_proofs IW.KV.StableDel_proofs IW.KV.Inv_proofs.
Section CursorOps.
Variables K V : Type.
Variable cmp : K -> K -> comparison.
Variable IDXNUM PIVOT : nat.
Hypothesis pivot_ok : 1 <= PIVOT < IDXNUM.
Hypothesis cmp_lt_eq : forall a b c, cmp a b = Lt -> cmp b c = Eq -> cmp a c = Lt.
Hypothesis cmp_antisym : forall a b, cmp a b = CompOpp (cmp b a).
Hypothesis cmp_trans : forall a b c, cmp a b = Lt -> cmp b c = Lt -> cmp a c = Lt.

Notation chain := (chain K V).
Notation recs := (recs K V).
Notation flat := (flat K V).

Lemma cursor_read_locates (c : chain) cur id i k0 v0 :
  cursor_at cur = Some (id, i) -> cursor_read K V c cur = Some (k0, v0) ->
  exists pv r nx, find_node K V None c id = Some (pv, r, nx) /\ nth_error r i = Some (k0, v0).
Proof.
  intros Hat Hr. unfold Cursor.cursor_read in Hr. rewrite Hat in Hr.
  destruct (find_node K V None c id) as [[[pv r] nx]|]; [|discriminate]. exists pv, r, nx. split; [reflexivity|exact Hr].
Qed.

Lemma find_node_split : forall (c : chain) pv id pv' r nx, find_node K V pv c id = Some (pv', r, nx) ->
  exists A B, c = A ++ (id, r) :: B /\ ~ In id (map fst A).
Proof.
  induction c as [|[j rj] c IH]; intros pv id pv' r nx H; [discriminate|]. cbn [find_node] in H.
  destruct (Nat.eqb j id) eqn:E.
  - apply Nat.eqb_eq in E. subst j. inversion H; subst. exists [], c. split; [reflexivity|intros []].
  - destruct (IH _ _ _ _ _ H) as [A [B [H1 H2]]]. exists ((j, rj) :: A), B. split; [rewrite H1; reflexivity|].
    intros [Hj|Hin]; [cbn [fst] in Hj; apply Nat.eqb_neq in E; congruence|exact (H2 Hin)].
Qed.

Lemma del_by_id_at : forall (A : chain) pv id r (B : chain) i, ~ In id (map fst A) -> i < length r ->
  del_by_id K V pv (A ++ (id, r) :: B) id i =
  Some (A ++ fst (del_at K V (last_id_or K V pv A) (id, r) B i), snd (del_at K V (last_id_or K V pv A) (id, r) B i)).
Proof.
  induction A as [|[j rj] A IH]; intros pv id r B i Hn Hi; cbn [app del_by_id].
  - rewrite Nat.eqb_refl. assert (E : Nat.ltb i (length r) = true) by (apply Nat.ltb_lt; exact Hi). rewrite E.
    unfold last_id_or. cbn [rev app]. f_equal. apply surjective_pairing.
  - assert (E : Nat.eqb j id = false) by (apply Nat.eqb_neq; intros ->; apply Hn; left; reflexivity). rewrite E.
    rewrite IH; [|intros H; apply Hn; right; exact H|exact Hi]. rewrite last_id_or_cons. reflexivity.
Qed.

Lemma upd_by_id_at : forall (A : chain) id r (B : chain) i v, ~ In id (map fst A) -> i < length r ->
  upd_by_id K V (A ++ (id, r) :: B) id i v = Some (A ++ (id, update_at K V r i v) :: B).
Proof.
  induction A as [|[j rj] A IH]; intros id r B i v Hn Hi; cbn [app upd_by_id].
  - rewrite Nat.eqb_refl. assert (E : Nat.ltb i (length r) = true) by (apply Nat.ltb_lt; exact Hi). rewrite E. reflexivity.
  - assert (E : Nat.eqb j id = false) by (apply Nat.eqb_neq; intros ->; apply Hn; left; reflexivity). rewrite E.
    rewrite IH; [reflexivity|intros H; apply Hn; right; exact H|exact Hi].
Qed.

(* iwkv_cursor_del: removes exactly the record the cursor reads *)
Theorem cursor_del_spec (c : chain) cur id i k0 v0 :
  NodeInv K V cmp IDXNUM c ->
  cursor_at cur = Some (id, i) -> cursor_read K V c cur = Some (k0, v0) ->
  exists c' ch, del_by_id K V None c id i = Some (c', ch) /\
                flat c' = s_del K V cmp (flat c) k0 /\ NodeInv K V cmp IDXNUM c'.
Proof.
  intros Hinv Hat Hr.
  destruct (cursor_read_locates c cur id i k0 v0 Hat Hr) as [pv [r [nx [Hf Hn]]]].
  destruct (find_node_split c None id pv r nx Hf) as [A [B [Hc HnA]]].
  assert (Hi : i < length r) by (apply nth_error_Some; congruence).
  subst c. exists (A ++ fst (del_at K V (last_id_or K V None A) (id, r) B i)), (snd (del_at K V (last_id_or K V None A) (id, r) B i)).
  split; [exact (del_by_id_at A None id r B i HnA Hi)|].
  assert (He : del_effect K V cmp k0 (A ++ (id, r) :: B)
                 (A ++ fst (del_at K V (last_id_or K V None A) (id, r) B i)) (snd (del_at K V (last_id_or K V None A) (id, r) B i))).
  { unfold del_at. destruct (Nat.eqb (length r) 1) eqn:El; cbn [fst snd].
    - apply Nat.eqb_eq in El. destruct r as [|e [|e2 r2]]; cbn [length] in El; try lia.
      destruct i as [|i]; [|cbn [length] in Hi; lia]. cbn [nth_error] in Hn. inversion Hn; subst e.
      apply (DfRemoveNode K V cmp k0 _ A id (k0, v0) B); [reflexivity|]. cbn [fst].
      pose proof (cmp_antisym k0 k0) as H. destruct (cmp k0 k0); simpl in H; congruence.
    - apply Nat.eqb_neq in El. apply (DfRemove K V cmp k0 _ A id r B i); [reflexivity|exact Hi|exact El|].
      unfold Node.found_at. rewrite Hn. pose proof (cmp_antisym k0 k0) as H. destruct (cmp k0 k0); simpl in H; congruence. }
  destruct Hinv as [Hok Hs].
  split; [exact (del_effect_flat K V cmp IDXNUM PIVOT cmp_lt_eq pivot_ok k0 _ _ _ He Hs)|].
  (* the invariant: through the sortedness of s_del and the node bounds *)
  pose proof (del_effect_flat K V cmp IDXNUM PIVOT cmp_lt_eq pivot_ok k0 _ _ _ He Hs) as Hflat.
  split.
  - unfold del_at in *. destruct (Nat.eqb (length r) 1) eqn:El; cbn [fst snd] in *.
    + apply Forall_app in Hok. destruct Hok as [HA HB]. apply Forall_app. split; [exact HA|exact (Forall_inv_tail HB)].
    + apply Forall_app in Hok. destruct Hok as [HA HB]. apply Forall_app. split; [exact HA|].
      constructor; [|exact (Forall_inv_tail HB)]. destruct (Forall_inv HB) as [Hn1 Hn2]. cbn [snd] in *.
      apply Nat.eqb_neq in El. pose proof (remove_at_len K V IDXNUM PIVOT pivot_ok r i Hi) as Hlen. split; cbn [snd].
      * intros E. rewrite E in Hlen. cbn [length] in Hlen. lia.
      * rewrite Hlen. lia.
  - rewrite Hflat. apply (s_del_sorted K V cmp); assumption.
Qed.

(* iwkv_cursor_set: replaces the value of exactly the record the cursor reads, nothing else changes *)
Theorem cursor_set_spec (c : chain) cur id i k0 v0 v :
  NodeInv K V cmp IDXNUM c ->
  cursor_at cur = Some (id, i) -> cursor_read K V c cur = Some (k0, v0) ->
  exists c' A r B, upd_by_id K V c id i v = Some c' /\ c = A ++ (id, r) :: B /\
    c' = A ++ (id, update_at K V r i v) :: B /\ nth_error (update_at K V r i v) i = Some (k0, v) /\
    map fst (flat c') = map fst (flat c) /\ NodeInv K V cmp IDXNUM c'.
Proof.
  intros [Hok Hs] Hat Hr.
  destruct (cursor_read_locates c cur id i k0 v0 Hat Hr) as [pv [r [nx [Hf Hn]]]].
  destruct (find_node_split c None id pv r nx Hf) as [A [B [Hc HnA]]].
  assert (Hi : i < length r) by (apply nth_error_Some; congruence).
  subst c. exists (A ++ (id, update_at K V r i v) :: B), A, r, B.
  split; [apply upd_by_id_at; assumption|]. split; [reflexivity|]. split; [reflexivity|].
  split; [rewrite (update_at_nth K V r i v i), Nat.eqb_refl, Hn; reflexivity|].
  assert (Hk : map fst (flat (A ++ (id, update_at K V r i v) :: B)) = map fst (flat (A ++ (id, r) :: B)))
    by (apply (flat_keys_mid K V); apply (update_at_keys K V)).
  split; [exact Hk|]. split.
  - apply Forall_app in Hok. destruct Hok as [HA HB]. apply Forall_app. split; [exact HA|].
    constructor; [|exact (Forall_inv_tail HB)]. destruct (Forall_inv HB) as [Hn1 Hn2]. cbn [snd] in *. split; cbn [snd].
    + intros E. apply (f_equal (@length _)) in E. rewrite (update_at_len K V) in E. destruct r; [congruence|discriminate].
    + rewrite (update_at_len K V). exact Hn2.
  - eapply (sorted_keys K V cmp); [symmetry; exact Hk|exact Hs].
Qed.
End CursorOps.
