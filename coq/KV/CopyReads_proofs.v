Require Import List ZArith Bool Lia. Import ListNotations.
Require Import IW.KV.Keys IW.KV.Node IW.KV.Cursor IW.KV.Inst IW.KV.CopyReads.
Local Open Scope Z_scope.

(* the copy acts on exactly the record a read through the cursor returns; never more than n bytes; a buffer that is large
   enough receives the whole value; the reported size does not depend on the buffer *)
Theorem ccopyval_spec (d : db) (slot n : nat) (k : key) (v : value) :
  db_cread d slot = Some (k, v) ->
  exists out, db_ccopyval d slot n = Some (length v, out) /\ out = firstn n v /\ (length out <= n)%nat /\
              (length v <= n -> out = v)%nat.
Proof.
  intros H. unfold db_ccopyval. rewrite H. exists (firstn n v). split; [reflexivity|]. split; [reflexivity|].
  split; [apply firstn_le_length|]. intros Hn. apply firstn_all2. exact Hn.
Qed.

Theorem ccopykey_spec (d : db) (slot n : nat) (k : key) (v : value) :
  db_cread d slot = Some (k, v) ->
  exists out, db_ccopykey d slot n = Some (length (fst (api_key (d_mode d) k)), snd (api_key (d_mode d) k), out) /\
              out = firstn n (fst (api_key (d_mode d) k)) /\ (length out <= n)%nat /\
              (length (fst (api_key (d_mode d) k)) <= n -> out = fst (api_key (d_mode d) k))%nat.
Proof.
  intros H. unfold db_ccopykey. rewrite H. destruct (api_key (d_mode d) k) as [b comp]. cbn [fst snd].
  exists (firstn n b). split; [reflexivity|]. split; [reflexivity|]. split; [apply firstn_le_length|].
  intros Hn. apply firstn_all2. exact Hn.
Qed.

Theorem ccopy_no_record (d : db) (slot n : nat) :
  db_cread d slot = None -> db_ccopyval d slot n = None /\ db_ccopykey d slot n = None.
Proof. intros H. unfold db_ccopyval, db_ccopykey. rewrite H. split; reflexivity. Qed.
