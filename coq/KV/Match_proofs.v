(* C02: iwkv_cursor_is_matched_key answers "yes" exactly when the caller's key names the record under the cursor.
   For byte keys that is equality with the stored key bytes; for number keys the caller's 4- or 8-byte little-endian number
   goes through the same entry point as put/get (eff_key), and the answer is "the stored key is the entry-point key".
   (Before the repair 5300b87 every 4-byte key was answered "no": db_cmatch_old below.) *)
Require Import List ZArith Bool Lia. Import ListNotations.
Require Import IW.Lib.CInt IW.Lib.Vnum IW.Lib.Vnum_proofs IW.KV.Keys IW.KV.Node IW.KV.Cursor IW.KV.Inst IW.KV.Records_proofs IW.Gen.Facts.
Local Open Scope Z_scope.

Lemma bytes_eqb_eq : forall a b, bytes_eqb a b = true <-> a = b.
Proof.
  induction a as [|x a IH]; intros [|y b]; cbn [bytes_eqb]; split; intros H; try reflexivity; try discriminate.
  - apply andb_true_iff in H. destruct H as [H1 H2]. apply Z.eqb_eq in H1. apply IH in H2. subst. reflexivity.
  - inversion H; subst. rewrite Z.eqb_refl. cbn [andb]. apply IH. reflexivity.
Qed.

Definition bytes (l : list Z) : Prop := Forall (fun b => 0 <= b < 256) l.

Lemma le_decode_bound : forall l, bytes l -> 0 <= le_decode l < 256 ^ Z.of_nat (length l).
Proof.
  induction l as [|x l IH]; intros H.
  - cbn. lia.
  - inversion H as [|? ? Hx Hl]; subst. specialize (IH Hl). cbn [le_decode length].
    rewrite Nat2Z.inj_succ, Z.pow_succ_r by lia. lia.
Qed.

Lemma le_decode_encode : forall n v, 0 <= v < 256 ^ Z.of_nat n -> le_decode (le_encode n v) = v.
Proof.
  induction n as [|n IH]; intros v Hv.
  - cbn in Hv. cbn. lia.
  - rewrite Nat2Z.inj_succ, Z.pow_succ_r in Hv by lia. cbn [le_encode le_decode].
    rewrite IH.
    + pose proof (Z.div_mod v 256 ltac:(lia)). lia.
    + split; [apply Z.div_pos; lia|apply Z.div_lt_upper_bound; lia].
Qed.

Lemma le_encode_inj n a b : 0 <= a < 256 ^ Z.of_nat n -> 0 <= b < 256 ^ Z.of_nat n -> le_encode n a = le_encode n b -> a = b.
Proof. intros Ha Hb H. rewrite <- (le_decode_encode n a Ha), <- (le_decode_encode n b Hb), H. reflexivity. Qed.

Lemma vnum32_rejects n : 2 ^ 31 <= n < 2 ^ 32 -> set_vnum32 n = [].
Proof.
  intros H. unfold set_vnum32, sw. change (2 ^ (32 - 1)) with (2 ^ 31).
  replace ((n + 2 ^ 31) mod 2 ^ 32) with (n - 2 ^ 31).
  2:{ apply Z.mod_unique with (q := 1); lia. }
  destruct (n - 2 ^ 31 - 2 ^ 31 =? 0) eqn:E; [lia|].
  change (set_vnum_loop 5) with (set_vnum_loop (S 4)). rewrite set_loop_step.
  destruct (n - 2 ^ 31 - 2 ^ 31 <=? 0) eqn:E2; [reflexivity|lia].
Qed.

(* the entry point on a number key: 4 or 8 bytes, the number below 2^63 (2^31 for 4 bytes), the key its varint *)
Lemma eff_key_number m k comp ek :
  km_vnum m = true -> bytes k -> eff_key m k comp = (ROk, ek) ->
  (length k = 4 \/ length k = 8)%nat /\ 0 <= le_decode k < 2 ^ 63 /\ fst ek = set_vnum64 (le_decode k).
Proof.
  intros Hm Hb H. unfold eff_key in H. rewrite Hm in H.
  destruct (km_compound m && (comp <? 0)); [discriminate|].
  pose proof (le_decode_bound k Hb) as Hd.
  destruct (Nat.eqb (length k) 8) eqn:E8.
  - apply Nat.eqb_eq in E8. rewrite E8 in Hd. change (256 ^ Z.of_nat 8) with (2 ^ 64) in Hd.
    destruct (Nat.eqb (length (set_vnum64 (le_decode k))) 0) eqn:EL; [discriminate|].
    inversion H; subst ek; cbn [fst]. split; [right; exact E8|]. split; [|reflexivity].
    destruct (Z_lt_dec (le_decode k) (2 ^ 63)) as [Hlt|Hge]; [lia|].
    rewrite vnum64_rejects in EL by lia. discriminate.
  - destruct (Nat.eqb (length k) 4) eqn:E4; [|discriminate].
    apply Nat.eqb_eq in E4. rewrite E4 in Hd. change (256 ^ Z.of_nat 4) with (2 ^ 32) in Hd.
    destruct (Nat.eqb (length (set_vnum32 (le_decode k))) 0) eqn:EL; [discriminate|].
    inversion H; subst ek; cbn [fst]. split; [left; exact E4|].
    assert (Hlt : le_decode k < 2 ^ 31).
    { destruct (Z_lt_dec (le_decode k) (2 ^ 31)) as [Hlt|Hge]; [exact Hlt|]. rewrite vnum32_rejects in EL by lia. discriminate. }
    split; [change (2 ^ 31) with 2147483648 in Hlt; change (2 ^ 63) with 9223372036854775808; lia|].
    apply set_vnum32_is_64. lia.
Qed.

Lemma read_set64 n : 0 <= n < 2 ^ 63 -> read_vnum2 (set_vnum64 n) = n.
Proof. intros Hn. unfold read_vnum2. destruct (vnum64_roundtrip n [] Hn) as [H _]. rewrite app_nil_r in H. rewrite H. reflexivity. Qed.

Lemma set_vnum64_inj a b : 0 <= a < 2 ^ 63 -> 0 <= b < 2 ^ 63 -> set_vnum64 a = set_vnum64 b -> a = b.
Proof. intros Ha Hb H. rewrite <- (read_set64 a Ha), <- (read_set64 b Hb), H. reflexivity. Qed.

(* number keys: the record under the cursor was stored through the entry point (k0), the caller's key k passes it too;
   the answer is whether both name the same stored key *)
Theorem cmatch_number_keys (d : db) (slot : nat) (k0 k : list Z) (c0 comp : Z) (ek0 ek : key) (v : value) :
  km_vnum (d_mode d) = true -> bytes k0 -> bytes k ->
  eff_key (d_mode d) k0 c0 = (ROk, ek0) -> eff_key (d_mode d) k comp = (ROk, ek) ->
  db_cread d slot = Some (ek0, v) ->
  db_cmatch d slot k = Some (bytes_eqb (fst ek0) (fst ek)).
Proof.
  intros Hm Hb0 Hb E0 E Hr.
  destruct (eff_key_number _ _ _ _ Hm Hb0 E0) as [_ [Hn0 Hf0]].
  destruct (eff_key_number _ _ _ _ Hm Hb E) as [Hlen [Hn Hf]].
  unfold db_cmatch. rewrite Hr, Hm. unfold api_key. rewrite Hm. cbn [fst].
  assert (HL : (Nat.eqb (length k) 4 || Nat.eqb (length k) 8) = true).
  { destruct Hlen as [-> | ->]; reflexivity. }
  rewrite HL. cbn [andb]. f_equal. rewrite Hf0, Hf, (read_set64 _ Hn0).
  assert (H64a : 0 <= le_decode k0 < 256 ^ Z.of_nat 8) by (change (256 ^ Z.of_nat 8) with (2 ^ 64); change (2 ^ 63) with 9223372036854775808 in Hn0; change (2 ^ 64) with 18446744073709551616; lia).
  assert (H64b : 0 <= le_decode k < 256 ^ Z.of_nat 8) by (change (256 ^ Z.of_nat 8) with (2 ^ 64); change (2 ^ 63) with 9223372036854775808 in Hn; change (2 ^ 64) with 18446744073709551616; lia).
  destruct (bytes_eqb (le_encode 8 (le_decode k0)) (le_encode 8 (le_decode k))) eqn:E1;
    destruct (bytes_eqb (set_vnum64 (le_decode k0)) (set_vnum64 (le_decode k))) eqn:E2; try reflexivity.
  - apply bytes_eqb_eq in E1. apply (le_encode_inj 8 _ _ H64a H64b) in E1. rewrite E1 in E2.
    assert (bytes_eqb (set_vnum64 (le_decode k)) (set_vnum64 (le_decode k)) = true) by (apply bytes_eqb_eq; reflexivity). congruence.
  - apply bytes_eqb_eq in E2. apply (set_vnum64_inj _ _ Hn0 Hn) in E2. rewrite E2 in E1.
    assert (bytes_eqb (le_encode 8 (le_decode k)) (le_encode 8 (le_decode k)) = true) by (apply bytes_eqb_eq; reflexivity). congruence.
Qed.

(* byte keys (plain, real-number text, compound): equality with the stored key bytes *)
Theorem cmatch_byte_keys (d : db) (slot : nat) (k : list Z) (ek0 : key) (v : value) :
  km_vnum (d_mode d) = false -> db_cread d slot = Some (ek0, v) ->
  db_cmatch d slot k = Some (bytes_eqb (fst ek0) k).
Proof. intros Hm Hr. unfold db_cmatch. rewrite Hr, Hm. unfold api_key. rewrite Hm. reflexivity. Qed.

(* no record under the cursor: no answer (IWKV_ERROR_NOTFOUND) *)
Theorem cmatch_no_record (d : db) (slot : nat) (k : list Z) : db_cread d slot = None -> db_cmatch d slot k = None.
Proof. intros Hr. unfold db_cmatch. rewrite Hr. reflexivity. Qed.

(* the answer before the repair: sizes compared first, so a 4-byte number key never matched *)
Definition db_cmatch_old (d : db) (slot : nat) (k : list Z) : option bool :=
  match db_cread d slot with
  | None => None
  | Some (k0, _) => Some (bytes_eqb (fst (api_key (d_mode d) k0)) k)
  end.
Definition vmode : kmode := {| km_vnum := true; km_real := false; km_compound := false |}.
Theorem cmatch_old_refuted :
  exists (d : db) (k : list Z) ek v, eff_key (d_mode d) k 0 = (ROk, ek) /\ db_cread d 0%nat = Some (ek, v) /\
    db_cmatch_old d 0%nat k = Some false /\ db_cmatch d 0%nat k = Some true.
Proof.
  pose (d0 := db_empty vmode).
  pose (d1 := snd (db_put d0 [7; 0; 0; 0] 0 [1] 0 0)).
  pose (d2 := snd (db_copen d1 0%nat 5 (Some ([7; 0; 0; 0], 0)))).
  exists d2, [7; 0; 0; 0], ([7], 0), [1]. vm_compute. repeat split; reflexivity.
Qed.
