(* C06: the level links of the database head as a cursor or search context reads them (_sblk_at2, head branch) and writes them
   back (_sblk_sync_mm writes all SLEVELS entries).  The reader copies entries up to and including the first zero; what the
   rest of the in-memory node holds afterwards depends on the code: zeroes (KV_HEAD_READ_ZEROES_REST, a fact measured on the
   current tree by tools/probes/probe_kvhead.c) or whatever the recycled slot held before. *)
Require Import List ZArith Bool. Import ListNotations.
Require Import IW.Gen.Facts.
Local Open Scope Z_scope.

(* disk: the SLEVELS links stored in the head; slot: what the node slot held before the read *)
Fixpoint read_levels (zeroes_rest : bool) (disk slot : list Z) : list Z :=
  match disk, slot with
  | d :: ds, s :: ss =>
    if d =? 0 then 0 :: (if zeroes_rest then map (fun _ => 0) ss else ss)
    else d :: read_levels zeroes_rest ds ss
  | _, _ => []
  end.

(* the head as the library leaves it on disk: no link behind the first zero *)
Fixpoint clean (l : list Z) : bool :=
  match l with
  | [] => true
  | x :: r => if x =? 0 then forallb (Z.eqb 0) r else clean r
  end.

(* the reader of the current tree *)
Definition read_head (disk slot : list Z) : list Z := read_levels KV_HEAD_READ_ZEROES_REST disk slot.
