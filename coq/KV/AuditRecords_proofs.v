(* C06 / C03: the two model readers agree.  What the auditor (KV/Audit.v: audit_node) accepts without a complaint is a node
   the record reader of the read-back theorems (KV/Records.v: node_recs) can read completely, and the stored keys the
   auditor judged (order inside the node, global order, prefix) are exactly the keys of the records that reader returns.
   So "the auditor accepts the image" implies "every record of every accepted node is readable, with the keys that were
   audited" - the contents a reopened store serves are the contents whose order and layout were checked. *)
Require Import List ZArith Bool Lia. Import ListNotations.
Require Import IW.Lib.CInt IW.Lib.Vnum IW.KV.Keys IW.KV.Audit IW.KV.Inst IW.KV.Codec IW.KV.Records IW.Gen.Facts.
Local Open Scope Z_scope.

Section AR.
Variable rd : Z -> Z.

(* one slot: the key reader and the record reader succeed together and return the same key *)
Lemma slot_key_rec blk szpow off len :
  match slot_key rd blk szpow off len, slot_rec rd blk szpow off len with
  | Some (k, _), Some (k', _) => k = k'
  | None, None => True
  | _, _ => False
  end.
Proof.
  unfold slot_key, slot_rec. destruct (rdv rd (addr_of blk + 2 ^ szpow - off)) as [[klen st]|]; [|exact I].
  destruct ((klen <? 1) || (klen + st >? len) || (klen >? 70000)); [exact I|reflexivity].
Qed.

Lemma app_eq_nil_l {A} (a b : list A) : a ++ b = [] -> a = [].
Proof. destruct a; [reflexivity|discriminate]. Qed.
Lemma app_eq_nil_r {A} (a b : list A) : a ++ b = [] -> b = [].
Proof. destruct a; [intros H; exact H|discriminate]. Qed.

(* keys of a slot list as the auditor computes them / records as the reader computes them *)
Definition akeys (blk szpow : Z) (slots : list (Z * Z)) : list (list Z) :=
  map (fun ol => match slot_key rd blk szpow (fst ol) (snd ol) with Some (k, _) => k | None => [] end) slots.

Lemma keys_nonempty_readable blk szpow : forall slots,
  forallb (fun k => negb (Nat.eqb (length k) 0)) (akeys blk szpow slots) = true ->
  exists recs, all_some (map (fun ol => slot_rec rd blk szpow (fst ol) (snd ol)) slots) = Some recs /\
               map fst recs = akeys blk szpow slots.
Proof.
  induction slots as [|ol slots IH]; intros H; [exists []; split; reflexivity|].
  cbn [akeys map forallb] in H. apply andb_true_iff in H. destruct H as [H1 H2].
  destruct (IH H2) as [recs [R1 R2]].
  pose proof (slot_key_rec blk szpow (fst ol) (snd ol)) as S.
  destruct (slot_key rd blk szpow (fst ol) (snd ol)) as [[k tot]|] eqn:EK.
  - destruct (slot_rec rd blk szpow (fst ol) (snd ol)) as [[k' v]|] eqn:ER; [|contradiction]. subst k'.
    exists ((k, v) :: recs). cbn [map all_some akeys]. rewrite ER, R1, EK. split; [reflexivity|]. cbn [map fst]. f_equal. exact R2.
  - cbn [length Nat.eqb negb] in H1. discriminate.
Qed.

Lemma bytes_at_length : forall n o, length (bytes_at rd n o) = n.
Proof. induction n as [|n IH]; intros o; [reflexivity|]. cbn [bytes_at length]. rewrite IH. reflexivity. Qed.

(* a node the auditor has no complaint about: as many records as the node announces (1..32), all readable, with the audited keys *)
Theorem audited_node_is_readable (m : kmode) (blk : Z) :
  let s := read_sblk rd blk in
  fst (fst (audit_node rd m s)) = [] ->
  exists recs, node_recs rd s = Some recs /\ map fst recs = snd (fst (audit_node rd m s)) /\
               length recs = Z.to_nat (s_pnum s) /\ 1 <= s_pnum s <= KVBLK_IDXNUM.
Proof.
  intros s. assert (Hpi : length (s_pi s) = NIDXA) by (unfold s, read_sblk; cbn [s_pi]; apply bytes_at_length).
  clearbody s. unfold audit_node, node_recs.
  destruct (read_kvblk rd (s_kblk s)) as [kb|] eqn:EK.
  2:{ cbn [fst snd]. intros H. apply app_eq_nil_r in H. discriminate. }
  cbn [fst snd]. intros H.
  pose proof (app_eq_nil_l _ _ H) as Hhdr. pose proof (app_eq_nil_r _ _ H) as H1.
  pose proof (app_eq_nil_r _ _ H1) as H2. pose proof (app_eq_nil_r _ _ H2) as Hkeyc. clear H H1 H2.
  assert (Hp1 : (s_pnum s <? 1) = false).
  { destruct (s_pnum s <? 1) eqn:E; [|reflexivity]. apply app_eq_nil_l in Hhdr. discriminate. }
  assert (Hp2 : (s_pnum s >? KVBLK_IDXNUM) = false).
  { destruct (s_pnum s >? KVBLK_IDXNUM) eqn:E; [|reflexivity].
    apply app_eq_nil_r in Hhdr. apply app_eq_nil_l in Hhdr. discriminate. }
  assert (Hpn : Z.to_nat (Z.min (Z.max (s_pnum s) 0) KVBLK_IDXNUM) = Z.to_nat (s_pnum s)) by (f_equal; lia).
  rewrite Hpn in *.
  set (slots := map (fun i => nthp (k_pidx kb) (Z.to_nat i)) (firstn (Z.to_nat (s_pnum s)) (s_pi s))) in *.
  assert (Hne : forallb (fun k => negb (Nat.eqb (length k) 0)) (akeys (s_kblk s) (k_szpow kb) slots) = true).
  { apply app_eq_nil_l in Hkeyc. unfold akeys.
    destruct (forallb (fun k => negb (Nat.eqb (length k) 0))
                (map (fun ol => match slot_key rd (s_kblk s) (k_szpow kb) (fst ol) (snd ol) with Some (k, _) => k | None => [] end) slots)) eqn:E;
      [reflexivity|]. cbn [negb] in Hkeyc. discriminate. }
  destruct (keys_nonempty_readable (s_kblk s) (k_szpow kb) slots Hne) as [recs [R1 R2]].
  exists recs. unfold slots in R1. rewrite map_map in R1. split; [exact R1|]. split; [exact R2|]. split; [|lia].
  assert (HL : length recs = length slots) by (rewrite <- (map_length fst recs), R2; unfold akeys; apply map_length).
  rewrite HL. unfold slots. rewrite map_length, firstn_length, Hpi. apply Nat.min_l.
  unfold NIDXA. apply Z2Nat.inj_le; lia.
Qed.
End AR.
