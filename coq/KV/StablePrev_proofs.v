(* C09, backward direction: what a PREV scan still has to deliver from a cursor standing on a record is the reverse
   of everything BEFORE that record in scan order; a successful put changes it by exactly the new record when that
   lies before the cursor.  (The delete side is in StableDel_proofs.v: del_outcome carries the facts for both
   directions.) *)
Require Import List ZArith Bool Lia Sorted. Import ListNotations.
Require Import IW.KV.Node IW.KV.Spec IW.KV.Node_proofs IW.KV.Cursor IW.KV.Cursor_proofs IW.KV.Stable_proofs
               IW.KV.ScanStable_proofs.

Section StablePrev.
Variables K V : Type.
Variable cmp : K -> K -> comparison.
Variable IDXNUM PIVOT : nat.
Variable upd : V -> V -> option V.
Hypothesis cmp_lt_eq : forall a b c, cmp a b = Lt -> cmp b c = Eq -> cmp a c = Lt.
Hypothesis cmp_antisym : forall a b, cmp a b = CompOpp (cmp b a).
Hypothesis cmp_trans : forall a b c, cmp a b = Lt -> cmp b c = Lt -> cmp a c = Lt.
Hypothesis pivot_ok : 1 <= PIVOT /\ PIVOT < IDXNUM.

Notation chain := (chain K V).
Notation recs := (recs K V).
Notation flat := (flat K V).
Notation s_put := (s_put K V cmp).
Notation s_get := (s_get K V cmp).
Notation sorted := (sorted K V cmp).
Notation all_lt := (all_lt K V cmp).
Notation NodeInv := (NodeInv K V cmp IDXNUM).
Notation before := (before K V cmp).

Lemma cmp_refl'' a : cmp a a = Eq.
Proof. pose proof (cmp_antisym a a) as H. destruct (cmp a a); simpl in H; congruence. Qed.

Lemma ceq_sym a b : cmp a b = Eq -> cmp b a = Eq.
Proof. intros H. rewrite cmp_antisym, H. reflexivity. Qed.
Lemma cgt_lt a b : cmp a b = Gt -> cmp b a = Lt.
Proof. intros H. rewrite cmp_antisym, H. reflexivity. Qed.
Lemma clt_gt a b : cmp a b = Lt -> cmp b a = Gt.
Proof. intros H. rewrite cmp_antisym, H. reflexivity. Qed.
Lemma ceq_lt a b c : cmp a b = Eq -> cmp b c = Lt -> cmp a c = Lt.
Proof.
  intros H1 H2. destruct (cmp a c) eqn:E; [| reflexivity |].
  - apply ceq_sym in E. pose proof (cmp_lt_eq _ _ _ H2 E) as H. apply ceq_sym in H1. congruence.
  - apply cgt_lt in E. pose proof (cmp_lt_eq _ _ _ E H1) as H. apply clt_gt in H2. congruence.
Qed.
Lemma ceq_trans a b c : cmp a b = Eq -> cmp b c = Eq -> cmp a c = Eq.
Proof.
  intros H1 H2. destruct (cmp a c) eqn:E; [reflexivity| |].
  - apply ceq_sym in H2. pose proof (cmp_lt_eq _ _ _ E H2). congruence.
  - apply cgt_lt in E. pose proof (cmp_lt_eq _ _ _ E H1). apply ceq_sym in H2. congruence.
Qed.

Lemma before_app_lt (a b : recs) k0 : all_lt a k0 -> before (a ++ b) k0 = a ++ before b k0.
Proof.
  induction a as [|[k1 v1] a IH]; intros H; [reflexivity|]. inversion H as [|? ? H1 H2]; subst. cbn [fst] in H1.
  cbn [app ScanStable_proofs.before]. rewrite H1. rewrite IH by exact H2. reflexivity.
Qed.

(* the records in front of slot p of node nid, structurally *)
Lemma before_at (A B : chain) nid (r : recs) p k0 v0 :
  sorted (flat (A ++ (nid, r) :: B)) -> nth_error r p = Some (k0, v0) ->
  before (flat (A ++ (nid, r) :: B)) k0 = flat A ++ firstn p r.
Proof.
  intros Hs Hnth. rewrite (flat_app' K V) in *. change (flat ((nid, r) :: B)) with (r ++ flat B) in *.
  pose proof (split_at_nth K V r p (k0, v0) Hnth) as Er.
  assert (Hfc : flat A ++ r ++ flat B = (flat A ++ firstn p r) ++ (k0, v0) :: (skipn (S p) r ++ flat B)).
  { rewrite <- !app_assoc. f_equal.
    replace (firstn p r ++ (k0, v0) :: skipn (S p) r ++ flat B)
      with ((firstn p r ++ (k0, v0) :: skipn (S p) r) ++ flat B) by (rewrite <- app_assoc; reflexivity).
    rewrite <- Er. reflexivity. }
  rewrite Hfc in *. rewrite before_app_lt.
  - cbn [ScanStable_proofs.before]. rewrite cmp_refl''. rewrite app_nil_r. reflexivity.
  - apply (sorted_app_inv K V cmp) in Hs. destruct Hs as [_ [_ H]].
    apply Forall_forall. intros x Hx. apply (H x (k0, v0) Hx). left. reflexivity.
Qed.

Theorem scan_prev_is_before (c : chain) cur id p k0 v0 fuel :
  NodeInv c -> ids_unique K V c -> node_cursor K V c cur id p -> c_skip cur = 0%Z ->
  cursor_read K V c cur = Some (k0, v0) -> length (flat c) < fuel ->
  scan_prev K V IDXNUM fuel c cur = rev (before (flat c) k0).
Proof.
  intros [Hok Hs] Hu Hnc Hsk Hr Hf.
  assert (Hin : In id (map fst c)).
  { destruct Hnc as [cc [_ [H2 _]]]. unfold load_node in H2.
    destruct (find_node K V None c id) as [x|] eqn:E; [|discriminate]. eapply find_some_in. exact E. }
  destruct (in_ids_split K V c id Hin) as [pre [r [rest Hc]]].
  destruct (read_some_pos K V c cur id p (k0, v0) pre r rest Hnc Hc Hu Hr) as [Hnth Hp].
  rewrite (node_cursor_is_at_node K V c pre rest cur id r p Hnc Hsk Hc Hu).
  assert (Hne : nonempty_nodes K V pre).
  { apply (node_ok_nonempty_nodes K V IDXNUM). rewrite Hc in Hok. apply Forall_app in Hok. tauto. }
  assert (Hidx : 1 <= IDXNUM) by lia.
  subst c. pose proof (before_at pre rest id r p k0 v0 Hs Hnth) as Hb.
  refine (eq_trans (scan_prev_from_node K V IDXNUM Hidx fuel _ pre id r rest p (c_pend cur) eq_refl Hu Hne Hp _) _).
  - rewrite (flat_app' K V) in Hf. change (flat ((id, r) :: rest)) with (r ++ flat rest) in Hf.
    rewrite !app_length in *. rewrite firstn_length. lia.
  - f_equal. symmetry. exact Hb.
Qed.

(* ---- the specification side ---- *)
Lemma before_s_put (l : recs) k0 v0 k v : sorted l -> In (k0, v0) l ->
  before (s_put l k v) k0 = match cmp k k0 with Lt => s_put (before l k0) k v | _ => before l k0 end.
Proof.
  induction l as [|[k1 v1] l IH]; intros Hs Hin; [destruct Hin|].
  inversion Hs as [|? ? Hs' Hf]; subst. rewrite Forall_forall in Hf.
  cbn [Spec.s_put]. destruct (cmp k1 k) eqn:E1.
  - (* overwrite of k1 *)
    cbn [ScanStable_proofs.before]. destruct (cmp k1 k0) eqn:E10.
    + (* the cursor's own record is overwritten: k = k0 *)
      assert (E : cmp k k0 = Eq).
      { apply ceq_trans with k1; [apply ceq_sym; exact E1|exact E10]. }
      rewrite E. reflexivity.
    + (* k1 = k lies before k0 *)
      assert (E : cmp k k0 = Lt).
      { apply ceq_lt with k1; [apply ceq_sym; exact E1|exact E10]. }
      rewrite E. cbn [Spec.s_put]. rewrite E1. reflexivity.
    + exfalso. destruct Hin as [Hin|Hin]; [inversion Hin; subst; rewrite cmp_refl'' in E10; discriminate|].
      specialize (Hf _ Hin). unfold klt in Hf. cbn [fst] in Hf. congruence.
  - (* k lies behind k1 *)
    cbn [ScanStable_proofs.before]. destruct (cmp k1 k0) eqn:E10.
    + (* k1 = k0 is the cursor's record: k is behind it *)
      assert (E : cmp k k0 = Gt).
      { apply clt_gt. apply ceq_lt with k1;
          [apply ceq_sym; exact E10|exact E1]. }
      rewrite E. reflexivity.
    + destruct Hin as [Hin|Hin]; [inversion Hin; subst; rewrite cmp_refl'' in E10; discriminate|].
      rewrite (IH Hs' Hin). destruct (cmp k k0); try reflexivity. cbn [Spec.s_put]. rewrite E1. reflexivity.
    + exfalso. destruct Hin as [Hin|Hin]; [inversion Hin; subst; rewrite cmp_refl'' in E10; discriminate|].
      specialize (Hf _ Hin). unfold klt in Hf. cbn [fst] in Hf. congruence.
  - (* k goes in front of k1, hence in front of k0 *)
    assert (Hk : cmp k k1 = Lt) by (apply cgt_lt; exact E1).
    assert (Hk0 : cmp k k0 = Lt).
    { destruct Hin as [Hin|Hin]; [inversion Hin; subst; exact Hk|].
      specialize (Hf _ Hin). unfold klt in Hf. cbn [fst] in Hf. exact (cmp_trans _ _ _ Hk Hf). }
    rewrite Hk0. cbn [ScanStable_proofs.before]. rewrite Hk0.
    cbn [ScanStable_proofs.before]. destruct (cmp k1 k0) eqn:E10.
    + cbn [Spec.s_put]. reflexivity.
    + cbn [Spec.s_put]. rewrite E1. reflexivity.
    + exfalso. destruct Hin as [Hin|Hin]; [inversion Hin; subst; rewrite cmp_refl'' in E10; discriminate|].
      specialize (Hf _ Hin). unfold klt in Hf. cbn [fst] in Hf. congruence.
Qed.

(* ---- BACKWARD SCAN STABILITY UNDER PUT ---- *)
Theorem scan_prev_stable_put fresh (c : chain) k v noover newok c' ch cur id p k0 v0 fuel :
  NodeInv c -> ids_unique K V c -> ~ In fresh (map fst c) ->
  put_chain K V cmp IDXNUM PIVOT upd fresh c k v noover newok = (POk, c', ch) ->
  node_cursor K V c cur id p -> c_skip cur = 0%Z -> cursor_read K V c cur = Some (k0, v0) ->
  S (length (flat c)) < fuel ->
  let cur' := fix_cursor K V IDXNUM PIVOT c' ch cur in
  exists nv, (s_get (flat c) k = None -> nv = v) /\
    rev (scan_prev K V IDXNUM fuel c' cur') =
    match cmp k k0 with Lt => s_put (rev (scan_prev K V IDXNUM fuel c cur)) k nv | _ => rev (scan_prev K V IDXNUM fuel c cur) end.
Proof.
  intros Hinv Hu Hfr Hput Hnc Hsk Hr Hfuel. cbv zeta.
  assert (Hpiv : PIVOT <= IDXNUM) by lia. assert (Hidx : 1 <= IDXNUM) by lia.
  destruct (put_keeps_cursor K V cmp IDXNUM PIVOT upd Hidx fresh c k v noover newok c' ch cur id p k0 v0 Hpiv Hu Hfr Hput Hnc Hr)
    as [[id' [p' Hnc']] [Hsk' [v' [Hr' _]]]].
  assert (Hinv' : NodeInv c') by (eapply put_chain_inv; eauto).
  assert (Hu' : ids_unique K V c').
  { exact (put_effect_unique K V cmp PIVOT fresh (k, v) c c' ch
             (put_chain_effect K V cmp IDXNUM PIVOT upd Hidx fresh c k v noover newok c' ch Hpiv Hput) Hu Hfr). }
  destruct (put_chain_refines K V cmp IDXNUM PIVOT upd cmp_lt_eq cmp_trans pivot_ok fresh c k v noover newok POk c' ch Hinv Hput) as [Hspec _].
  assert (Hnv : exists nv, flat c' = s_put (flat c) k nv /\ (s_get (flat c) k = None -> nv = v)).
  { unfold spec_put in Hspec. destruct (s_get (flat c) k) as [old|].
    - destruct noover; [discriminate|]. destruct (upd old v) as [nv|]; [|discriminate].
      inversion Hspec as [Hfl]. exists nv. split; [exact Hfl|discriminate].
    - destruct newok; [|discriminate]. inversion Hspec as [Hfl]. exists v. split; [exact Hfl|reflexivity]. }
  destruct Hnv as [nv [Hflat Hnew]]. exists nv. split; [exact Hnew|].
  rewrite (scan_prev_is_before c' (fix_cursor K V IDXNUM PIVOT c' ch cur) id' p' k0 v' fuel Hinv' Hu' Hnc'); try assumption.
  - rewrite (scan_prev_is_before c cur id p k0 v0 fuel Hinv Hu Hnc Hsk Hr) by lia.
    rewrite !rev_involutive. rewrite Hflat. destruct Hinv as [_ Hs].
    apply (before_s_put (flat c) k0 v0 k nv Hs). eapply read_in_flat; eauto.
  - rewrite Hsk'. exact Hsk.
  - rewrite Hflat. pose proof (s_put_length K V cmp IDXNUM PIVOT pivot_ok (flat c) k nv). lia.
Qed.
End StablePrev.
