(* Abstract specification of one database: an association list kept in the store's scan order
   (cmp a b = Lt  <->  a is returned before b by a forward scan). *)
Require Import List. Import ListNotations.

Section Spec.
Variables K V : Type.
Variable cmp : K -> K -> comparison.

Fixpoint s_get (l : list (K * V)) (k : K) : option V :=
  match l with
  | [] => None
  | (k', v') :: r => match cmp k' k with Eq => Some v' | Lt => s_get r k | Gt => None end
  end.

Fixpoint s_put (l : list (K * V)) (k : K) (v : V) : list (K * V) :=
  match l with
  | [] => [(k, v)]
  | (k', v') :: r => match cmp k' k with
                     | Eq => (k', v) :: r          (* the stored key is kept, the value replaced *)
                     | Lt => (k', v') :: s_put r k v
                     | Gt => (k, v) :: l
                     end
  end.

Fixpoint s_del (l : list (K * V)) (k : K) : list (K * V) :=
  match l with
  | [] => []
  | (k', v') :: r => match cmp k' k with
                     | Eq => r
                     | Lt => (k', v') :: s_del r k
                     | Gt => l
                     end
  end.

(* smallest-position record at or after k in scan order that is "greater or equal" k in key order:
   GE positions on the LAST record that is before-or-equal k in scan order (scan order is descending key order) *)
Fixpoint s_ge (l : list (K * V)) (k : K) (best : option (K * V)) : option (K * V) :=
  match l with
  | [] => best
  | (k', v') :: r => match cmp k' k with
                     | Eq => Some (k', v')
                     | Lt => s_ge r k (Some (k', v'))
                     | Gt => best
                     end
  end.
End Spec.
