(* The multi-level search finds the node the level-0 walk finds - for EVERY assignment of levels to nodes, every
   starting level, every chain satisfying the invariant and every key. *)
Require Import List Arith Bool Lia Sorted. Import ListNotations.
Require Import IW.KV.Node IW.KV.Spec IW.KV.Node_proofs IW.KV.Skip.

Section SkipProofs.
Variables K V : Type.
Variable cmp : K -> K -> comparison.
Variable IDXNUM : nat.
Hypothesis cmp_lt_eq : forall a b c, cmp a b = Lt -> cmp b c = Eq -> cmp a c = Lt.
Hypothesis cmp_trans : forall a b c, cmp a b = Lt -> cmp b c = Lt -> cmp a c = Lt.

Notation lnode := (lnode K V).
Notation P := (fun (k : K) (n : lnode) => first_le K V cmp (snd n) k).

Definition last_opt (dflt : option lnode) (l : list lnode) : option lnode :=
  match rev l with x :: _ => Some x | [] => dflt end.

Lemma last_opt_cons d x (l : list lnode) : last_opt d (x :: l) = last_opt (Some x) l.
Proof. unfold last_opt. cbn [rev]. destruct (rev l); reflexivity. Qed.
Lemma last_opt_app d (a b : list lnode) : last_opt d (a ++ b) = last_opt (last_opt d a) b.
Proof.
  revert d; induction a as [|x a IH]; intros d; [reflexivity|]. cbn [app]. rewrite !last_opt_cons. apply IH.
Qed.

(* next_at splits the list: skipped nodes (all of lower level), the node found, the rest *)
Lemma next_at_split L : forall (s : list lnode) n r, next_at K V L s = Some (n, r) ->
  exists skipped, s = skipped ++ n :: r /\ Forall (fun x => ln_lvl K V x < L) skipped /\ L <= ln_lvl K V n.
Proof.
  induction s as [|x s IH]; intros n r H; [discriminate|]. cbn [next_at] in H.
  destruct (Nat.leb L (ln_lvl K V x)) eqn:E.
  - inversion H; subst. exists []. split; [reflexivity|]. split; [constructor|apply Nat.leb_le; exact E].
  - destruct (IH _ _ H) as [sk [H1 [H2 H3]]]. exists (x :: sk). split; [rewrite H1; reflexivity|].
    split; [constructor; [apply Nat.leb_gt; exact E|exact H2]|exact H3].
Qed.
Lemma next_at_none L : forall (s : list lnode), next_at K V L s = None -> Forall (fun x => ln_lvl K V x < L) s.
Proof.
  induction s as [|x s IH]; intros H; [constructor|]. cbn [next_at] in H.
  destruct (Nat.leb L (ln_lvl K V x)) eqn:E; [discriminate|]. constructor; [apply Nat.leb_gt; exact E|apply IH; exact H].
Qed.

(* the state of the search: the chain behind `lower` is A ++ B where every node of A starts at or before the key and no
   node of B does; roll consumes a prefix of A *)
Lemma roll_spec k : forall fuel L lower (A B : list lnode),
  Forall (fun n => P k n = true) A -> Forall (fun n => P k n = false) B -> length (A ++ B) <= fuel ->
  exists A1 A2, A = A1 ++ A2 /\ roll K V cmp fuel L lower (A ++ B) k = (last_opt lower A1, A2 ++ B) /\
                Forall (fun x => ln_lvl K V x < L) A2.
Proof.
  induction fuel as [|fuel IH]; intros L lower A B HA HB Hlen.
  - destruct A; [|cbn [app length] in Hlen; lia]. destruct B; [|cbn [app length] in Hlen; lia].
    exists [], []. split; [reflexivity|]. split; [reflexivity|constructor].
  - cbn [roll]. destruct (next_at K V L (A ++ B)) as [[n r]|] eqn:En.
    + destruct (next_at_split L _ _ _ En) as [sk [Hs [Hsk Hn]]].
      destruct (first_le K V cmp (snd n) k) eqn:Ef.
      * (* n belongs to A: everything skipped does too *)
        assert (Hin : exists A', A = sk ++ n :: A' /\ r = A' ++ B).
        { clear - Hs HA HB Ef. revert sk Hs; induction A as [|a A IHA]; intros sk Hs.
          - simpl in Hs. exfalso. assert (H : In n B) by (rewrite Hs; apply in_or_app; right; left; reflexivity).
            rewrite Forall_forall in HB. rewrite (HB _ H) in Ef. discriminate.
          - destruct sk as [|x sk'].
            + cbn [app] in Hs. inversion Hs; subst. exists A. split; reflexivity.
            + cbn [app] in Hs. inversion Hs as [[Hx Hs']]. subst x. inversion HA; subst.
              destruct (IHA H2 sk' Hs') as [A' [H3 H4]]. exists A'. split; [rewrite H3; reflexivity|exact H4]. }
        destruct Hin as [A' [HA' Hr]]. subst A r.
        assert (HA2 : Forall (fun n0 => P k n0 = true) A').
        { apply Forall_app in HA. destruct HA as [_ HA]. inversion HA; assumption. }
        destruct (IH L (Some n) A' B HA2 HB) as [A1 [A2 [H1 [H2 H3]]]].
        { rewrite ?app_length in *. cbn [length] in *. rewrite ?app_length in *. cbn [length] in *. lia. }
        exists (sk ++ n :: A1), A2. split; [rewrite H1, <- app_assoc; reflexivity|]. split; [|exact H3].
        rewrite H2. rewrite last_opt_app. cbn [app]. rewrite last_opt_cons. reflexivity.
      * (* n does not start at or before the key: stop; the skipped ones are of lower level, and so is all of A *)
        assert (Hin : exists B', sk = A ++ B').
        { clear - Hs HA HB Ef. revert sk Hs; induction A as [|a A IHA]; intros sk Hs; [exists sk; reflexivity|].
          destruct sk as [|x sk'].
          - cbn [app] in Hs. inversion Hs; subst. inversion HA; subst. congruence.
          - cbn [app] in Hs. inversion Hs as [[Hx Hs']]. subst x. inversion HA; subst.
            destruct (IHA H2 sk' Hs') as [B' HB']. exists B'. rewrite HB'. reflexivity. }
        destruct Hin as [B' HB']. exists [], A. split; [reflexivity|]. split; [reflexivity|].
        rewrite HB' in Hsk. apply Forall_app in Hsk. tauto.
    + exists [], A. split; [reflexivity|]. split; [reflexivity|].
      apply next_at_none in En. apply Forall_app in En. tauto.
Qed.

Lemma descend_spec k : forall L lower (A B : list lnode),
  Forall (fun n => P k n = true) A -> Forall (fun n => P k n = false) B ->
  descend K V cmp L lower (A ++ B) k = last_opt lower A.
Proof.
  induction L as [|L IH]; intros lower A B HA HB; cbn [descend].
  - destruct (roll_spec k (length (A ++ B)) 0 lower A B HA HB (le_n _)) as [A1 [A2 [H1 [H2 H3]]]].
    rewrite H2. assert (A2 = []) by (destruct A2 as [|x A2]; [reflexivity|inversion H3; lia]). subst A2.
    rewrite app_nil_r in H1. subst A1. reflexivity.
  - destruct (roll_spec k (length (A ++ B)) (S L) lower A B HA HB (le_n _)) as [A1 [A2 [H1 [H2 H3]]]].
    rewrite H2. subst A. apply Forall_app in HA. destruct HA as [HA1 HA2].
    rewrite (IH (last_opt lower A1) A2 B HA2 HB). rewrite last_opt_app. reflexivity.
Qed.

(* in a chain that satisfies the invariant, "starts at or before the key" holds on a prefix of the nodes *)
Notation sorted := (sorted K V cmp).
Lemma first_le_prefix (c : list lnode) k :
  Forall (fun n : lnode => snd n <> []) c -> sorted (flat K V (strip K V c)) ->
  exists A B, c = A ++ B /\ Forall (fun n => P k n = true) A /\ Forall (fun n => P k n = false) B.
Proof.
  induction c as [|n c IH]; intros Hne Hs; [exists [], []; repeat split; constructor|].
  inversion Hne as [|? ? Hn Hne']; subst.
  assert (Hs' : sorted (flat K V (strip K V c))).
  { cbn [strip map] in Hs. rewrite (flat_cons K V) in Hs. apply (sorted_app_inv K V cmp) in Hs. tauto. }
  destruct (IH Hne' Hs') as [A [B [Hc [HA HB]]]].
  destruct (first_le K V cmp (snd n) k) eqn:Ef.
  - exists (n :: A), B. split; [rewrite Hc; reflexivity|]. split; [constructor; assumption|exact HB].
  - (* n does not: then no later node does *)
    exists [], (n :: c). split; [reflexivity|]. split; [constructor|]. constructor; [exact Ef|].
    apply Forall_forall. intros m Hm. destruct (first_le K V cmp (snd m) k) eqn:Em; [exfalso|reflexivity].
    destruct (snd n) as [|[kn vn] rn] eqn:En; [congruence|].
    destruct (first_le_spec K V cmp _ _ Em) as [[km vm] [rm [Hm1 Hm2]]]. cbn [fst] in Hm2.
    (* first key of n is before first key of m *)
    assert (Hlt : cmp kn km = Lt).
    { cbn [strip map] in Hs. rewrite (flat_cons K V) in Hs. unfold ln_node in Hs. cbn [snd] in Hs. rewrite En in Hs.
      apply (sorted_app_inv K V cmp) in Hs. destruct Hs as [_ [_ H]].
      assert (Hin : In (km, vm) (flat K V (strip K V c))).
      { apply in_split in Hm. destruct Hm as [c1 [c2 Hc12]]. rewrite Hc12. unfold strip. rewrite map_app. cbn [map].
        unfold Node.flat. rewrite map_app, concat_app. apply in_or_app. right. cbn [map concat]. unfold ln_node. cbn [snd].
        rewrite Hm1. left. reflexivity. }
      exact (H (kn, vn) (km, vm) (or_introl eq_refl) Hin). }
    cbn [Node.first_le] in Ef. destruct (cmp kn k) eqn:Ec; try discriminate.
    (* cmp kn k = Gt, cmp kn km = Lt, cmp km k <> Gt *)
    destruct (cmp km k) eqn:Emk; [| |congruence].
    + pose proof (cmp_lt_eq _ _ _ Hlt Emk). congruence.
    + pose proof (cmp_trans _ _ _ Hlt Emk). congruence.
Qed.

Lemma last_cons (a d : lnode) (A : list lnode) : last (a :: A) d = last A a.
Proof.
  destruct A as [|b A]; [reflexivity|]. change (last (a :: b :: A) d) with (last (b :: A) d).
  revert b; induction A as [|c A IH]; intros b; [reflexivity|]. change (last (b :: c :: A) d) with (last (c :: A) d).
  change (last (b :: c :: A) a) with (last (c :: A) a). apply IH.
Qed.
Lemma last_opt_some (d : lnode) (A : list lnode) : last_opt (Some d) A = Some (last A d).
Proof. revert d; induction A as [|a A IH]; intros d; [reflexivity|]. rewrite last_opt_cons, last_cons. apply IH. Qed.

Lemma lower_nodes_last (k : K) : forall (A B : list lnode) (n0 : lnode),
  Forall (fun n => P k n = true) A -> Forall (fun n => P k n = false) B ->
  lower_nodes K V cmp (ln_node K V n0) (strip K V (A ++ B)) k = ln_node K V (last A n0).
Proof.
  induction A as [|a A IH]; intros B n0 HA HB.
  - cbn [app last]. destruct B as [|b B]; cbn [strip map lower_nodes]; [reflexivity|].
    inversion HB as [|? ? Hb _]; subst. unfold ln_node at 1. cbn [snd]. rewrite Hb. reflexivity.
  - inversion HA as [|? ? Ha HA']; subst. cbn [app strip map lower_nodes]. unfold ln_node at 1. cbn [snd]. rewrite Ha.
    rewrite last_cons. apply (IH B a HA' HB).
Qed.

(* THE THEOREM: whatever levels the nodes were given and from whatever level the search starts, the node it ends on is
   the node the plain walk of the level-0 chain ends on (Node.lower_of - the node C01's refinement theorem uses) *)
Theorem skip_search_is_linear (top : nat) (c : list lnode) (k : K) :
  Forall (fun n : lnode => snd n <> []) c -> sorted (flat K V (strip K V c)) ->
  option_map (ln_node K V) (skip_lower K V cmp top c k) = lower_of K V cmp (strip K V c) k.
Proof.
  intros Hne Hs. destruct (first_le_prefix c k Hne Hs) as [A [B [Hc [HA HB]]]]. subst c.
  unfold skip_lower. rewrite (descend_spec k top None A B HA HB).
  unfold lower_of. destruct A as [|a A].
  - cbn [app]. unfold last_opt. cbn [rev option_map]. destruct B as [|b B]; [reflexivity|]. cbn [strip map].
    inversion HB as [|? ? Hb _]; subst. unfold ln_node at 1. cbn [snd]. rewrite Hb. reflexivity.
  - inversion HA as [|? ? Ha HA']; subst. cbn [app strip map]. unfold ln_node at 2. cbn [snd]. rewrite Ha.
    rewrite last_opt_cons, last_opt_some. cbn [option_map]. f_equal. symmetry. exact (lower_nodes_last k A B a HA' HB).
Qed.
End SkipProofs.
