(* Real-number key databases (IWDB_REALNUM_KEYS on plain keys): keys are decimal texts compared by iwafcmp - signed integer
   part (64-bit accumulator), then the fraction, then the bytes themselves as a tie-break.  In the model (KV/Keys.v) the
   fraction is an exact rational (numerator, number of digits); the C code sums long doubles, which is also a function of
   the key alone - the order laws below need nothing else.  Result: iwafcmp is a total preorder whose equivalence is
   identity of the byte strings, i.e. the three laws of the node model hold and the refinement theorem applies to these
   databases without a hypothesis on the comparator. *)
Require Import ZArith List Bool Lia. Import ListNotations.
Require Import IW.Lib.CInt IW.Lib.Vnum IW.KV.Keys IW.KV.Inst IW.KV.Keys_proofs IW.KV.KeysCompound_proofs IW.Gen.Facts.
Local Open Scope Z_scope.

Definition realmode : kmode := {| km_vnum := false; km_real := true; km_compound := false |}.

(* what iwafcmp extracts from one text: integer part, fraction numerator (signed), fraction digits *)
Definition af_num (s : list Z) : Z := let '(_, n, _) := af_part s in n.
Definition af_fr (s : list Z) : Z * Z := let '(sg, _, rest) := af_part s in af_fracval sg rest.
Definition af_hf (s : list Z) : bool := let '(_, _, rest) := af_part s in af_hasfrac rest.

Lemma af_frac_k : forall s lim num k, 0 <= k -> 0 <= snd (af_frac s lim num k).
Proof.
  induction s as [|c r IH]; intros lim num k Hk; destruct lim as [|l]; cbn [af_frac snd]; try exact Hk.
  destruct ((c <? 48) || (c >? 57)); [exact Hk|]. apply IH. lia.
Qed.
Lemma af_fr_k s : 0 <= snd (af_fr s).
Proof.
  unfold af_fr. destruct (af_part s) as [[sg n] rest]. unfold af_fracval.
  destruct (af_hasfrac rest); [|cbn; lia].
  pose proof (af_frac_k (tl rest) (Z.to_nat IWNUMBUF_SIZE) 0 0 ltac:(lia)) as H.
  destruct (af_frac (tl rest) (Z.to_nat IWNUMBUF_SIZE) 0 0) as [n0 k0]. exact H.
Qed.
Lemma af_fr_nofrac s : af_hf s = false -> af_fr s = (0, 0).
Proof. unfold af_hf, af_fr. destruct (af_part s) as [[sg n] rest]. unfold af_fracval. intros ->. reflexivity. Qed.

(* the tie-break: memcmp over the shorter length, then the length difference = the byte-string comparison of plain keys *)
Lemma cmp2_firstn_min : forall a b : list Z, cmp2 (firstn (Nat.min (length a) (length b)) a) (firstn (Nat.min (length a) (length b)) b) = cmp2 a b.
Proof.
  induction a as [|x a IH]; intros [|y b]; try reflexivity.
  cbn [length Nat.min firstn cmp2]. destruct (x =? y); [apply IH|reflexivity].
Qed.
Lemma tie_is_craw (a b : list Z) :
  (let rv := memcmp (Nat.min (length a) (length b)) a b in if rv =? 0 then Z.of_nat (length a) - Z.of_nat (length b) else rv) = craw a b.
Proof. unfold memcmp, craw. rewrite cmp2_firstn_min. reflexivity. Qed.

(* iwafcmp in closed form *)
Lemma afcmp_form (a b : list Z) :
  afcmp memcmp a b =
  (if af_num a <? af_num b then -1 else if af_num a >? af_num b then 1 else
   let l := fst (af_fr a) * 10 ^ snd (af_fr b) in let r := fst (af_fr b) * 10 ^ snd (af_fr a) in
   if l <? r then -1 else if l >? r then 1 else craw a b).
Proof.
  unfold afcmp, af_num, af_fr.
  pose proof (af_fr_nofrac a) as Ha. pose proof (af_fr_nofrac b) as Hb. unfold af_hf, af_fr in Ha, Hb.
  destruct (af_part a) as [[asg an] ar]. destruct (af_part b) as [[bsg bn] br].
  destruct (an <? bn); [reflexivity|]. destruct (an >? bn); [reflexivity|].
  destruct (af_fracval asg ar) as [fa ka] eqn:Ea. destruct (af_fracval bsg br) as [fb kb] eqn:Eb. cbn [fst snd].
  rewrite tie_is_craw.
  destruct (af_hasfrac ar || af_hasfrac br) eqn:Eh; cbn [andb]; [reflexivity|].
  apply orb_false_iff in Eh. destruct Eh as [E1 E2]. specialize (Ha E1). specialize (Hb E2).
  inversion Ha; inversion Hb; subst. cbn. reflexivity.
Qed.

(* reference order on texts: Lt = a before b in iwafcmp's sense *)
Definition rcmp (a b : list Z) : comparison :=
  match af_num a ?= af_num b with
  | Lt => Lt | Gt => Gt
  | Eq => match fst (af_fr a) * 10 ^ snd (af_fr b) ?= fst (af_fr b) * 10 ^ snd (af_fr a) with
          | Lt => Lt | Gt => Gt
          | Eq => bcmp a b
          end
  end.

Lemma sgnc_afcmp (a b : list Z) : sgnc (afcmp memcmp a b) = rcmp a b.
Proof.
  rewrite afcmp_form. unfold rcmp.
  destruct (Z.compare_spec (af_num a) (af_num b)) as [E|E|E].
  - assert (H1 : (af_num a <? af_num b) = false) by lia. assert (H2 : (af_num a >? af_num b) = false) by lia. rewrite H1, H2.
    cbv zeta. set (l := fst (af_fr a) * 10 ^ snd (af_fr b)). set (r := fst (af_fr b) * 10 ^ snd (af_fr a)).
    destruct (Z.compare_spec l r) as [F|F|F].
    + assert (G1 : (l <? r) = false) by lia. assert (G2 : (l >? r) = false) by lia. rewrite G1, G2. apply sgnc_craw.
    + assert (G1 : (l <? r) = true) by lia. rewrite G1. reflexivity.
    + assert (G1 : (l <? r) = false) by lia. assert (G2 : (l >? r) = true) by lia. rewrite G1, G2. reflexivity.
  - assert (H1 : (af_num a <? af_num b) = true) by lia. rewrite H1. reflexivity.
  - assert (H1 : (af_num a <? af_num b) = false) by lia. assert (H2 : (af_num a >? af_num b) = true) by lia. rewrite H1, H2. reflexivity.
Qed.

(* order laws of rcmp *)
Lemma rcmp_antisym a b : rcmp a b = CompOpp (rcmp b a).
Proof.
  unfold rcmp. rewrite (Z.compare_antisym (af_num a) (af_num b)).
  destruct (af_num a ?= af_num b); cbn [CompOpp]; try reflexivity.
  rewrite (Z.compare_antisym (fst (af_fr a) * 10 ^ snd (af_fr b)) (fst (af_fr b) * 10 ^ snd (af_fr a))).
  destruct (fst (af_fr a) * 10 ^ snd (af_fr b) ?= fst (af_fr b) * 10 ^ snd (af_fr a)); cbn [CompOpp]; try reflexivity.
  apply bcmp_antisym.
Qed.
Lemma rcmp_eq a b : rcmp a b = Eq <-> a = b.
Proof.
  split.
  - unfold rcmp. destruct (af_num a ?= af_num b); try discriminate.
    destruct (fst (af_fr a) * 10 ^ snd (af_fr b) ?= fst (af_fr b) * 10 ^ snd (af_fr a)); try discriminate. apply bcmp_eq.
  - intros ->. unfold rcmp. rewrite !Z.compare_refl. apply bcmp_refl.
Qed.

(* cross-multiplied fractions with positive denominators compare transitively *)
Lemma frac_lt_trans A B C pa pb pc : 0 < pa -> 0 < pb -> 0 < pc -> A * pb < B * pa -> B * pc <= C * pb -> A * pc < C * pa.
Proof.
  intros Ha Hb Hc H1 H2.
  assert (K1 : A * pb * pc < B * pa * pc) by (apply Z.mul_lt_mono_pos_r; assumption).
  assert (K2 : B * pc * pa <= C * pb * pa) by (apply Z.mul_le_mono_nonneg_r; lia).
  assert (K : (A * pc) * pb < (C * pa) * pb) by lia.
  apply (Z.mul_lt_mono_pos_r pb); assumption.
Qed.
Lemma frac_le_lt_trans A B C pa pb pc : 0 < pa -> 0 < pb -> 0 < pc -> A * pb <= B * pa -> B * pc < C * pb -> A * pc < C * pa.
Proof.
  intros Ha Hb Hc H1 H2.
  assert (K1 : A * pb * pc <= B * pa * pc) by (apply Z.mul_le_mono_nonneg_r; lia).
  assert (K2 : B * pc * pa < C * pb * pa) by (apply Z.mul_lt_mono_pos_r; assumption).
  assert (K : (A * pc) * pb < (C * pa) * pb) by lia.
  apply (Z.mul_lt_mono_pos_r pb); assumption.
Qed.
Lemma frac_eq_trans A B C pa pb pc : 0 < pa -> 0 < pb -> 0 < pc -> A * pb = B * pa -> B * pc = C * pb -> A * pc = C * pa.
Proof.
  intros Ha Hb Hc H1 H2.
  assert (K : (A * pc) * pb = (C * pa) * pb).
  { replace (A * pc * pb) with (A * pb * pc) by ring. rewrite H1. replace (B * pa * pc) with (B * pc * pa) by ring. rewrite H2. ring. }
  apply (Z.mul_reg_r _ _ pb); [lia|exact K].
Qed.

Lemma rcmp_lt a b : rcmp a b = Lt <->
  (af_num a < af_num b \/ (af_num a = af_num b /\
    (fst (af_fr a) * 10 ^ snd (af_fr b) < fst (af_fr b) * 10 ^ snd (af_fr a) \/
     (fst (af_fr a) * 10 ^ snd (af_fr b) = fst (af_fr b) * 10 ^ snd (af_fr a) /\ bcmp a b = Lt)))).
Proof.
  unfold rcmp. destruct (Z.compare_spec (af_num a) (af_num b)) as [E|E|E].
  - destruct (Z.compare_spec (fst (af_fr a) * 10 ^ snd (af_fr b)) (fst (af_fr b) * 10 ^ snd (af_fr a))) as [F|F|F].
    + split; [intros H; right; split; [exact E|right; split; [exact F|exact H]]|intros [H|[_ [H|[_ H]]]]; [lia|lia|exact H]].
    + split; [intros _; right; split; [exact E|left; exact F]|reflexivity].
    + split; [discriminate|intros [H|[_ [H|[H _]]]]; lia].
  - split; [intros _; left; exact E|reflexivity].
  - split; [discriminate|intros [H|[H _]]; lia].
Qed.

Lemma rcmp_trans a b c : rcmp a b = Lt -> rcmp b c = Lt -> rcmp a c = Lt.
Proof.
  rewrite !rcmp_lt.
  pose proof (af_fr_k a) as Ka. pose proof (af_fr_k b) as Kb. pose proof (af_fr_k c) as Kc.
  set (A := fst (af_fr a)). set (B := fst (af_fr b)). set (C := fst (af_fr c)).
  assert (Pa : 0 < 10 ^ snd (af_fr a)) by (apply Z.pow_pos_nonneg; lia).
  assert (Pb : 0 < 10 ^ snd (af_fr b)) by (apply Z.pow_pos_nonneg; lia).
  assert (Pc : 0 < 10 ^ snd (af_fr c)) by (apply Z.pow_pos_nonneg; lia).
  set (pa := 10 ^ snd (af_fr a)) in *. set (pb := 10 ^ snd (af_fr b)) in *. set (pc := 10 ^ snd (af_fr c)) in *.
  intros [H1|[E1 H1]] [H2|[E2 H2]]; try (left; lia).
  right. split; [lia|].
  destruct H1 as [H1|[F1 T1]]; destruct H2 as [H2|[F2 T2]].
  - left. apply (frac_lt_trans A B C pa pb pc); try assumption. lia.
  - left. apply (frac_lt_trans A B C pa pb pc); try assumption. lia.
  - left. apply (frac_le_lt_trans A B C pa pb pc); try assumption. lia.
  - right. split; [apply (frac_eq_trans A B C pa pb pc); assumption|]. eapply bcmp_trans; eassumption.
Qed.

(* cmp_of for real-number keys: iwafcmp of the look-up key against the stored key *)
Lemma cmp_of_real (a b : key) : cmp_of realmode a b = rcmp (fst b) (fst a).
Proof.
  unfold cmp_of, kcmp, cmp_keys, cmp_keys_prefix, stored, realmode. cbn [km_vnum km_real km_compound orb negb andb].
  rewrite Bool.andb_false_r. rewrite <- sgnc_afcmp. unfold sgnc. reflexivity.
Qed.

Theorem real_cmp_antisym : forall a b : key, cmp_of realmode a b = CompOpp (cmp_of realmode b a).
Proof. intros. rewrite !cmp_of_real. apply rcmp_antisym. Qed.
Theorem real_cmp_trans : forall a b c : key, cmp_of realmode a b = Lt -> cmp_of realmode b c = Lt -> cmp_of realmode a c = Lt.
Proof. intros a b c. rewrite !cmp_of_real. intros H1 H2. eapply rcmp_trans; eassumption. Qed.
Theorem real_cmp_lt_eq : forall a b c : key, cmp_of realmode a b = Lt -> cmp_of realmode b c = Eq -> cmp_of realmode a c = Lt.
Proof. intros a b c. rewrite !cmp_of_real. intros H1 H2. apply rcmp_eq in H2. rewrite H2. exact H1. Qed.
Theorem real_cmp_eq_iff : forall a b : key, cmp_of realmode a b = Eq <-> fst a = fst b.
Proof. intros. rewrite cmp_of_real, rcmp_eq. split; intros H; symmetry; exact H. Qed.

(* the cached prefix of a node's lowest key: for real-number keys the shortcut of _lx_sblk_cmp_key is used only when the
   whole key is cached; a truncated decimal text is never compared as a number - whatever the node-level comparison answers
   is the answer of the complete stored key, for keys of any length *)
Theorem prefix_shortcut_real : forall (skey kd : list Z) (kc : Z),
  sblk_cmp_key_full memcmp realmode skey kd kc = cmp_keys memcmp realmode skey kd kc.
Proof.
  intros skey kd kc. unfold sblk_cmp_key_full, sblk_cmp_key. cbn [km_vnum km_real km_compound realmode orb negb andb].
  destruct (Z.of_nat (length skey) <=? PREFIX_KEY_LEN_V2) eqn:Efull; cbn [orb].
  - apply Z.leb_le in Efull. unfold PREFIX_KEY_LEN_V2 in Efull. rewrite firstn_length_le by (unfold PREFIX_KEY_LEN_V2; lia). reflexivity.
  - reflexivity.
Qed.
(* ... and what goes wrong otherwise: the first 115 characters of a longer decimal text are another number *)
Example truncated_real_key_is_another_number :
  let k := repeat 48 113 ++ [56; 53; 55] in      (* 113 zeros, then 857: 116 characters *)
  sgnc (cmp_keys memcmp realmode (firstn 115 k) k 0) <> Eq /\ sgnc (cmp_keys memcmp realmode k k 0) = Eq.
Proof. vm_compute. split; [discriminate|reflexivity]. Qed.

(* the order is numeric where the texts are plain decimals: "7" < "12", "-3" < "2", "1.25" < "1.5", "1.5" = "1.50" only up
   to the tie-break (different texts are never equal) *)
Example real_cmp_examples :
  rcmp [55] [49; 50] = Lt /\ rcmp [45; 51] [50] = Lt /\ rcmp [49; 46; 50; 53] [49; 46; 53] = Lt /\
  rcmp [49; 46; 53] [49; 46; 53; 48] = Lt /\ cmp_of realmode ([49; 50], 0) ([55], 0) = Lt.
Proof. vm_compute. repeat split; reflexivity. Qed.
