(* C01: the key every entry point hands to the node layer (_to_effective_key).  The order theorems of the compound modes
   (KV/KeysCompound_proofs.v, KV/KeysCompound2_proofs.v) are stated over keys whose compound part is encodable,
   0 <= c < 2^63; here that hypothesis is discharged for every key that gets past the entry points: a negative compound
   part is refused by put/get/del/cursor positioning with INVALID_ARGS and nothing changes, so only encodable compound
   parts ever reach a node.  (Before the repair 8b6b5c3 the refusal did not exist: eff_key_old below is the old entry
   point, and it lets a key through for which the 10 bytes reserved by IW_VNUMSIZE are not the 0 bytes set_vnum64 writes.) *)
Require Import List ZArith Bool Lia. Import ListNotations.
Require Import IW.Lib.CInt IW.Lib.Vnum IW.KV.Keys IW.KV.Node IW.KV.Cursor IW.KV.Inst IW.KV.KeysCompound_proofs IW.Gen.Facts.
Local Open Scope Z_scope.

Lemma eff_key_negative_compound m k comp :
  km_compound m = true -> comp < 0 -> eff_key m k comp = (RInvalidArgs, ([], comp)).
Proof.
  intros Hm Hc. unfold eff_key. rewrite Hm. destruct (comp <? 0) eqn:E; [reflexivity|lia].
Qed.

(* whatever passes carries an encodable compound part (comp is the caller's int64_t) *)
Lemma eff_key_ok_compound m k comp ek :
  eff_key m k comp = (ROk, ek) -> comp < 2 ^ 63 -> ckey_ok ek.
Proof.
  unfold eff_key, ckey_ok. intros H Hc.
  destruct (km_compound m) eqn:Hm; cbn [andb] in H.
  - destruct (comp <? 0) eqn:E; [discriminate|].
    destruct (km_vnum m).
    + destruct (Nat.eqb (length k) 8).
      * destruct (Nat.eqb (length (set_vnum64 (le_decode k))) 0); inversion H; subst ek; cbn [snd]; lia.
      * destruct (Nat.eqb (length k) 4); [|discriminate].
        destruct (Nat.eqb (length (set_vnum32 (le_decode k))) 0); inversion H; subst ek; cbn [snd]; lia.
    + inversion H; subst ek; cbn [snd]; lia.
  - destruct (km_vnum m).
    + destruct (Nat.eqb (length k) 8).
      * destruct (Nat.eqb (length (set_vnum64 (le_decode k))) 0); inversion H; subst ek; cbn [snd]; lia.
      * destruct (Nat.eqb (length k) 4); [|discriminate].
        destruct (Nat.eqb (length (set_vnum32 (le_decode k))) 0); inversion H; subst ek; cbn [snd]; lia.
    + inversion H; subst ek; cbn [snd]; lia.
Qed.

(* the refusal changes nothing *)
Theorem negative_compound_refused (d : db) (k : list Z) (comp : Z) (v : value) (flags ph : Z) :
  km_compound (d_mode d) = true -> comp < 0 ->
  fst (db_put d k comp v flags ph) = RInvalidArgs /\ snd (db_put d k comp v flags ph) = d /\
  db_get d k comp = (RInvalidArgs, []) /\ db_del d k comp = (RInvalidArgs, d).
Proof.
  intros Hm Hc. unfold db_put, db_get, db_del. rewrite (eff_key_negative_compound _ k comp Hm Hc).
  destruct (Nat.eqb (length k) 0); repeat split; reflexivity.
Qed.

(* the entry point before the repair, kept to show what the refusal is for *)
Definition eff_key_old (m : kmode) (k : list Z) (comp : Z) : rcode * key :=
  if km_vnum m then
    if Nat.eqb (length k) 8 then
      let e := set_vnum64 (le_decode k) in if Nat.eqb (length e) 0 then (ROverflow, ([], comp)) else (ROk, (e, if km_compound m then comp else 0))
    else if Nat.eqb (length k) 4 then
      let e := set_vnum32 (le_decode k) in if Nat.eqb (length e) 0 then (ROverflow, ([], comp)) else (ROk, (e, if km_compound m then comp else 0))
    else (RKeyNumValueSize, ([], comp))
  else (ROk, (k, if km_compound m then comp else 0)).

(* with it a key got through whose stored size (what _kvblk_addkv reserves) is not the size of what gets written *)
Theorem old_entry_point_refuted :
  exists m k comp ek, eff_key_old m k comp = (ROk, ek) /\
    stored_size m ek <> Z.of_nat (length (fst ek)) + Z.of_nat (length (set_vnum64 (snd ek))).
Proof.
  exists cmode, [97; 98; 99], (-1), ([97; 98; 99], -1). split; [reflexivity|]. vm_compute. discriminate.
Qed.

(* and after it the two always agree *)
Theorem stored_size_is_written_size m k comp ek :
  eff_key m k comp = (ROk, ek) -> comp < 2 ^ 63 -> km_compound m = true ->
  stored_size m ek = Z.of_nat (length (fst ek)) + Z.of_nat (length (set_vnum64 (snd ek))).
Proof.
  intros H Hc Hm. pose proof (eff_key_ok_compound m k comp ek H Hc) as Hok. unfold ckey_ok in Hok.
  unfold stored_size. rewrite Hm. f_equal. symmetry. apply IW.Lib.Vnum_proofs.vnum64_size. exact Hok.
Qed.
