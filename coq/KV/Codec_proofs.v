(* C03: what the writers put into the file is what the readers get out of it (the readers are the ones of KV/Audit.v,
   which agree with the implementation's own reader on every real image - see the correspondence check). *)
Require Import List ZArith Bool Lia. Import ListNotations.
Require Import IW.Lib.CInt IW.Lib.Vnum IW.Lib.Vnum_proofs IW.KV.Audit IW.KV.Inst IW.KV.Image_proofs IW.KV.Codec IW.Gen.Facts.
Local Open Scope Z_scope.

Lemma holds_app rd o a b : holds rd o (a ++ b) -> holds rd o a /\ holds rd (o + Z.of_nat (length a)) b.
Proof.
  intros H. split.
  - intros i Hi. rewrite (H i ltac:(rewrite app_length; lia)). rewrite app_nth1 by exact Hi. reflexivity.
  - intros i Hi. specialize (H (length a + i)%nat ltac:(rewrite app_length; lia)).
    rewrite app_nth2 in H by lia. replace (length a + i - length a)%nat with i in H by lia.
    rewrite Nat2Z.inj_add in H. replace (o + Z.of_nat (length a) + Z.of_nat i) with (o + (Z.of_nat (length a) + Z.of_nat i)) by lia. exact H.
Qed.

Lemma bytes_at_holds rd : forall l o, holds rd o l -> bytes_at rd (length l) o = l.
Proof.
  induction l as [|b l IH]; intros o H; [reflexivity|]. apply holds_cons in H. destruct H as [Hb Hl].
  cbn [length bytes_at]. rewrite Hb, (IH _ Hl). reflexivity.
Qed.

Lemma le_encode_length : forall n v, length (le_encode n v) = n.
Proof. induction n as [|n IH]; intros v; [reflexivity|]. cbn [le_encode length]. rewrite IH. reflexivity. Qed.

Lemma u32s_holds rd : forall l o, Forall (fun x => 0 <= x < 2 ^ 32) l ->
  holds rd o (concat (map (le_encode 4) l)) -> u32s rd (length l) o = l.
Proof.
  induction l as [|x l IH]; intros o Hf H; [reflexivity|]. inversion Hf as [|? ? Hx Hf']; subst.
  cbn [map concat] in H. apply holds_app in H. destruct H as [H1 H2]. rewrite le_encode_length in H2.
  cbn [length u32s]. rewrite (u32_reads_le rd o x Hx H1). change (Z.of_nat 4) with 4 in H2. rewrite (IH _ Hf' H2). reflexivity.
Qed.

Lemma u8_holds rd o b l : holds rd o (b :: l) -> u8 rd o = b.
Proof. intros H. apply holds_cons in H. exact (proj1 H). Qed.

Theorem sblk_roundtrip rd (s : sblk) :
  sblk_wf s -> holds rd (addr_of (s_blk s)) (write_sblk s) -> read_sblk rd (s_blk s) = s.
Proof.
  intros [Hfl [Hlv [Hlk [Hpn [Hbp [Hp0 [Hkb [Hpil [Hpib [Hnl [Hnr [Hlkl [Hlkn Hlkb]]]]]]]]]]]]] H.
  destruct s as [blk fl lv lkl pn p0 kb pi n bp lk]. cbn [s_blk s_flags s_lvl s_lkl s_pnum s_p0 s_kblk s_pi s_n s_bpos s_lk] in *.
  unfold write_sblk in H. cbn [s_flags s_lvl s_lkl s_pnum s_p0 s_kblk s_pi s_n s_bpos s_lk] in H.
  set (a := addr_of blk) in *.
  apply holds_app in H. destruct H as [Hhead H]. cbn [length] in H. change (Z.of_nat 4) with 4 in H.
  apply holds_app in H. destruct H as [H1 H]. rewrite le_encode_length in H. change (Z.of_nat 4) with 4 in H.
  apply holds_app in H. destruct H as [H2 H]. rewrite le_encode_length in H. change (Z.of_nat 4) with 4 in H.
  apply holds_app in H. destruct H as [H3 H]. rewrite Hpil in H.
  apply holds_app in H. destruct H as [H4 H].
  assert (Hcl : length (concat (map (le_encode 4) n)) = (4 * NSLEV)%nat).
  { rewrite <- Hnl. clear. induction n as [|x n IH]; [reflexivity|]. cbn [map concat length]. rewrite app_length, le_encode_length, IH. lia. }
  rewrite Hcl in H.
  apply holds_app in H. destruct H as [H5 H6]. cbn [length] in H6.
  unfold read_sblk. fold a.
  assert (E0 : u8 rd (a + SOFF_FLAGS_U1) = fl).
  { unfold SOFF_FLAGS_U1. rewrite Z.add_0_r. exact (u8_holds rd a fl _ Hhead). }
  assert (E1 : u8 rd (a + SOFF_LVL_U1) = lv).
  { apply holds_cons in Hhead. destruct Hhead as [_ Hh]. exact (u8_holds rd _ lv _ Hh). }
  assert (E2 : u8 rd (a + SOFF_LKL_U1) = lkl).
  { apply holds_cons in Hhead. destruct Hhead as [_ Hh]. apply holds_cons in Hh. destruct Hh as [_ Hh].
    replace (a + SOFF_LKL_U1) with (a + 1 + 1) by (unfold SOFF_LKL_U1; lia). exact (u8_holds rd _ lkl _ Hh). }
  assert (E3 : u8 rd (a + SOFF_PNUM_U1) = pn).
  { apply holds_cons in Hhead. destruct Hhead as [_ Hh]. apply holds_cons in Hh. destruct Hh as [_ Hh].
    apply holds_cons in Hh. destruct Hh as [_ Hh].
    replace (a + SOFF_PNUM_U1) with (a + 1 + 1 + 1) by (unfold SOFF_PNUM_U1; lia). exact (u8_holds rd _ pn _ Hh). }
  assert (E4 : u32 rd (a + SOFF_P0_U4) = p0) by (apply (u32_reads_le rd _ p0 Hp0); exact H1).
  assert (E5 : u32 rd (a + SOFF_KBLK_U4) = kb).
  { apply (u32_reads_le rd _ kb Hkb). replace (a + SOFF_KBLK_U4) with (a + 4 + 4) by (unfold SOFF_KBLK_U4; lia). exact H2. }
  assert (E6 : bytes_at rd NIDXA (a + SOFF_PI0_U1) = pi).
  { rewrite <- Hpil. apply bytes_at_holds. replace (a + SOFF_PI0_U1) with (a + 4 + 4 + 4) by (unfold SOFF_PI0_U1; lia). exact H3. }
  assert (E7 : u32s rd NSLEV (a + SOFF_N0_U4) = n).
  { rewrite <- Hnl. apply (u32s_holds rd n _ Hnr).
    replace (a + SOFF_N0_U4) with (a + 4 + 4 + 4 + Z.of_nat NIDXA) by (unfold SOFF_N0_U4, NIDXA, KVBLK_IDXNUM; simpl; lia). exact H4. }
  assert (E8 : u8 rd (a + SOFF_BPOS_U1_V2) = bp).
  { replace (a + SOFF_BPOS_U1_V2) with (a + 4 + 4 + 4 + Z.of_nat NIDXA + Z.of_nat (4 * NSLEV))
      by (unfold SOFF_BPOS_U1_V2, NIDXA, NSLEV, KVBLK_IDXNUM, SLEVELS; simpl; lia).
    exact (u8_holds rd _ bp _ H5). }
  rewrite E0, E1, E2, E3, E4, E5, E6, E7, E8.
  assert (E9 : bytes_at rd (Z.to_nat (Z.min lkl SBLK_LKLEN)) (a + SOFF_LK_V2) = lk).
  { rewrite Z.min_l by exact Hlkl. rewrite <- Hlkn. apply bytes_at_holds. apply holds_cons in H5. destruct H5 as [_ H5].
    replace (a + SOFF_LK_V2) with (a + 4 + 4 + 4 + Z.of_nat NIDXA + Z.of_nat (4 * NSLEV) + 1)
      by (unfold SOFF_LK_V2, NIDXA, NSLEV, KVBLK_IDXNUM, SLEVELS; simpl; lia).
    exact H6. }
  rewrite E9. reflexivity.
Qed.

(* ---- data-block index ---- *)
Definition pair_wf (p : Z * Z) : Prop := 0 <= fst p < 2 ^ 63 /\ 0 <= snd p < 2 ^ 63.

Lemma read_pidx_holds rd : forall p o acc, Forall pair_wf p -> holds rd o (write_pidx p) ->
  read_pidx rd (length p) o acc = Some (rev acc ++ p, o + Z.of_nat (length (write_pidx p))).
Proof.
  induction p as [|[off len] p IH]; intros o acc Hf H.
  - cbn [length read_pidx write_pidx]. rewrite app_nil_r, Z.add_0_r. reflexivity.
  - inversion Hf as [|? ? [Ho Hl] Hf']; subst. cbn [fst snd] in *.
    cbn [write_pidx] in H. apply holds_app in H. destruct H as [H1 H]. apply holds_app in H. destruct H as [H2 H3].
    cbn [length read_pidx]. rewrite (rdv_reads_set_vnum64 rd o off Ho H1). rewrite (rdv_reads_set_vnum64 rd _ len Hl H2).
    rewrite (IH _ ((off, len) :: acc) Hf' H3). cbn [rev]. rewrite <- app_assoc. cbn [app]. f_equal. f_equal.
    cbn [write_pidx]. rewrite !app_length. lia.
Qed.

Theorem kvblk_head_roundtrip rd blk szpow (p : list (Z * Z)) :
  byte szpow -> length p = NIDXA -> Forall pair_wf p -> Z.of_nat (length (write_pidx p)) < 2 ^ 16 ->
  holds rd (addr_of blk) (write_kvblk_head szpow p) ->
  read_kvblk rd blk = Some {| k_szpow := szpow; k_idxsz := Z.of_nat (length (write_pidx p)); k_pidx := p;
                              k_idxend := KVBLK_HDRSZ + Z.of_nat (length (write_pidx p)) |}.
Proof.
  intros Hsz Hlen Hf Hidx H. unfold write_kvblk_head in H.
  apply holds_app in H. destruct H as [H0 H]. cbn [length] in H. change (Z.of_nat 1) with 1 in H.
  apply holds_app in H. destruct H as [H1 H2]. rewrite le_encode_length in H2. change (Z.of_nat 2) with 2 in H2.
  unfold read_kvblk. rewrite <- Hlen.
  replace (addr_of blk + KVBLK_HDRSZ) with (addr_of blk + 1 + 2) by (unfold KVBLK_HDRSZ; lia).
  rewrite (read_pidx_holds rd p _ [] Hf H2). cbn [rev app].
  assert (E0 : u8 rd (addr_of blk) = szpow) by exact (u8_holds rd _ szpow _ H0).
  assert (E1 : u16 rd (addr_of blk + 1) = Z.of_nat (length (write_pidx p))).
  { unfold u16. set (v := Z.of_nat (length (write_pidx p))) in *.
    pose proof (H1 0%nat ltac:(simpl; lia)) as A0. pose proof (H1 1%nat ltac:(simpl; lia)) as A1.
    change (Z.of_nat 0) with 0 in A0. change (Z.of_nat 1) with 1 in A1. rewrite Z.add_0_r in A0. rewrite A0, A1.
    cbn [le_encode nth]. pose proof (Z.div_mod v 256 ltac:(lia)). pose proof (Z.mod_pos_bound v 256 ltac:(lia)).
    assert (0 <= v) by (unfold v; lia). assert (v / 256 < 256) by (apply Z.div_lt_upper_bound; lia).
    assert (0 <= v / 256) by (apply Z.div_pos; lia). rewrite (Z.mod_small (v / 256) 256) by lia. lia. }
  rewrite E0, E1. f_equal. f_equal. unfold KVBLK_HDRSZ. lia.
Qed.
