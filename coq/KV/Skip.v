(* The skip list above the level-0 chain: _lx_find_bounds / _lx_roll_forward of src/kv/iwkv.c.
   Every node carries a level (chosen at random when the node is created); the link of node n at level L leads to the
   next node of the chain whose level is at least L (the independent reader of the file format, KV/Audit.v, checks on
   every real image that the stored links are exactly these).  The search starts at the database head on the highest
   level in use, rolls forward on a level while the next node there starts at or before the key, then descends. *)
Require Import List Arith Bool. Import ListNotations.
Require Import IW.KV.Node.

Section Skip.
Variables K V : Type.
Variable cmp : K -> K -> comparison.

Definition lnode : Type := (nat * nat * recs K V)%type.      (* identity, level, records *)
Definition ln_node (n : lnode) : node K V := (fst (fst n), snd n).
Definition ln_lvl (n : lnode) : nat := snd (fst n).
Definition strip (c : list lnode) : chain K V := map ln_node c.

(* the link at level L out of the position in front of `s`: the first node of `s` with level >= L, and what follows it *)
Fixpoint next_at (L : nat) (s : list lnode) : option (lnode * list lnode) :=
  match s with
  | [] => None
  | n :: r => if Nat.leb L (ln_lvl n) then Some (n, r) else next_at L r
  end.

(* _lx_roll_forward on level L: `lower` = the node the search stands on (None = database head), `s` = the chain behind it *)
Fixpoint roll (fuel : nat) (L : nat) (lower : option lnode) (s : list lnode) (k : K) : option lnode * list lnode :=
  match fuel with
  | O => (lower, s)
  | S f =>
    match next_at L s with
    | Some (n, r) => if first_le K V cmp (snd n) k then roll f L (Some n) r k else (lower, s)
    | None => (lower, s)
    end
  end.

(* _lx_find_bounds: from level L down to level 0 *)
Fixpoint descend (L : nat) (lower : option lnode) (s : list lnode) (k : K) : option lnode :=
  let '(lower', s') := roll (length s) L lower s k in
  match L with
  | O => lower'
  | S L' => descend L' lower' s' k
  end.

Definition skip_lower (top : nat) (c : list lnode) (k : K) : option lnode := descend top None c k.
End Skip.
