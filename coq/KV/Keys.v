(* Key comparators of src/kv/iwkv.c (_cmp_keys_prefix, _cmp_keys, _lx_sblk_cmp_key's prefix shortcut)
   and iwafcmp of src/utils/iwconv.c.  Keys are lists of bytes (Z in 0..255). *)
Require Import ZArith List Bool. Require Import IW.Lib.CInt IW.Lib.Vnum IW.Gen.Facts. Import ListNotations.
Local Open Scope Z_scope. Local Open Scope bool_scope.

Record kmode := { km_vnum : bool; km_real : bool; km_compound : bool }.

(* IW_CMP2: first non-zero byte difference within the common length, else 0 *)
Fixpoint cmp2 (a b : list Z) : Z :=
  match a, b with
  | x :: a', y :: b' => if x =? y then cmp2 a' b' else x - y
  | _, _ => 0
  end.

Definition sgn3 (n1 n2 : Z) : Z := if n1 >? n2 then -1 else if n1 <? n2 then 1 else 0.

(* IW_READVNUMBUF64_2 after memcpy into vbuf; a malformed stored number (no terminating byte) reads
   stale stack bytes in C - modelled as value 0 and excluded by the theorems' hypotheses *)
Definition read_vnum2 (b : list Z) : Z := match read_vnum b with Some (n, _) => n | None => 0 end.

(* strncmp(a, b, n) as the sign of the first difference; stops at NUL (unsigned char comparison) *)
Fixpoint strncmp (n : nat) (a b : list Z) : Z :=
  match n with
  | O => 0
  | S k =>
    let x := hd 0 a in let y := hd 0 b in
    if x =? y then (if x =? 0 then 0 else strncmp k (tl a) (tl b)) else x - y
  end.
(* memcmp over the common length *)
Definition memcmp (n : nat) (a b : list Z) : Z := cmp2 (firstn n a) (firstn n b).

(* --- iwafcmp --- *)
Fixpoint af_skip (s : list Z) : list Z :=
  match s with c :: r => if (c <=? 32) || (c =? 127) then af_skip r else s | [] => [] end.
Fixpoint af_int (s : list Z) (acc : Z) : Z * list Z :=
  match s with
  | c :: r => if (c <? 48) || (c >? 57) then (acc, s) else af_int r (sw 64 (acc * 10 + c - 48))
  | [] => (acc, []) end.
(* fraction digits: (numerator, number of digits) - exact-rational idealisation of the long double sum *)
Fixpoint af_frac (s : list Z) (lim : nat) (num : Z) (k : Z) : Z * Z :=
  match lim, s with
  | S l, c :: r => if (c <? 48) || (c >? 57) then (num, k) else af_frac r l (num * 10 + (c - 48)) (k + 1)
  | _, _ => (num, k) end.
Definition af_part (s : list Z) : Z * Z * list Z :=      (* (sign, signed int part, rest) *)
  let s := af_skip s in
  let '(sign, s) := match s with 45 :: r => (-1, r) | _ => (1, s) end in
  let '(n, rest) := af_int s 0 in (sign, sw 64 (n * sign), rest).
Definition af_hasfrac (rest : list Z) : bool :=
  match rest with 46 :: _ :: _ => true | _ => false end.
Definition af_fracval (sign : Z) (rest : list Z) : Z * Z :=
  if af_hasfrac rest then
    let '(n, k) := af_frac (tl rest) (Z.to_nat IWNUMBUF_SIZE) 0 0 in (n * sign, k)
  else (0, 0).
Definition afcmp (tie : nat -> list Z -> list Z -> Z) (a b : list Z) : Z :=
  let '(asign, anum, arest) := af_part a in
  let '(bsign, bnum, brest) := af_part b in
  if anum <? bnum then -1 else if anum >? bnum then 1 else
  let '(an, ak) := af_fracval asign arest in
  let '(bn, bk) := af_fracval bsign brest in
  let l := an * 10 ^ bk in let r := bn * 10 ^ ak in
  if (af_hasfrac arest || af_hasfrac brest) && (l <? r) then -1
  else if (af_hasfrac arest || af_hasfrac brest) && (l >? r) then 1
  else
    let rv := tie (Nat.min (length a) (length b)) a b in
    if rv =? 0 then Z.of_nat (length a) - Z.of_nat (length b) else rv.

(* --- _cmp_keys_prefix(dbflg, v1, v1len, key) : v1 = stored bytes, key = (data, compound) --- *)
Definition vnum_cmp (v1 v2 : list Z) : Z :=
  let l1 := Z.of_nat (length v1) in let l2 := Z.of_nat (length v2) in
  if negb (l2 =? l1) || (l2 >? IW_VNUMBUFSZ) || (l1 >? IW_VNUMBUFSZ) then l2 - l1
  else sgn3 (read_vnum2 v1) (read_vnum2 v2).

Section Cmp.
Variable tie : nat -> list Z -> list Z -> Z.

Definition cmp_keys_prefix (m : kmode) (v1 : list Z) (kdata : list Z) (kcomp : Z) : Z :=
  if km_compound m then
    match read_vnum v1 with
    | None => 0  (* malformed stored key: excluded *)
    | Some (c1, step) =>
      let u1 := skipn step v1 in
      let v1len := Z.of_nat (length v1) - Z.of_nat step in
      let v2len := Z.of_nat (length kdata) in
      if v1len <? 1 then v2len - v1len
      else if km_vnum m then
        let r := vnum_cmp u1 kdata in
        if negb (v2len =? v1len) || (v2len >? IW_VNUMBUFSZ) || (v1len >? IW_VNUMBUFSZ) then r
        else if r =? 0 then sgn3 c1 kcomp else r
      else if km_real m then
        let r := afcmp tie kdata u1 in if r =? 0 then sgn3 c1 kcomp else r
      else cmp2 kdata u1
    end
  else if km_vnum m then vnum_cmp v1 kdata
  else if km_real m then afcmp tie kdata v1
  else cmp2 kdata v1.

Definition cmp_keys (m : kmode) (v1 : list Z) (kdata : list Z) (kcomp : Z) : Z :=
  let rv := cmp_keys_prefix m v1 kdata kcomp in
  if (rv =? 0) && negb (km_vnum m || km_real m) then
    if km_compound m then
      match read_vnum v1 with
      | None => 0
      | Some (c1, step) =>
        let v1len := Z.of_nat (length v1) - Z.of_nat step in
        if Z.of_nat (length kdata) =? v1len then sgn3 c1 kcomp
        else Z.of_nat (length kdata) - v1len
      end
    else Z.of_nat (length kdata) - Z.of_nat (length v1)
  else rv.

(* stored form of a logical key (what _kvblk_addkv writes): compound prefix + data *)
Definition stored (m : kmode) (kdata : list Z) (kcomp : Z) : list Z :=
  if km_compound m then set_vnum64 kcomp ++ kdata else kdata.

(* comparison of two logical keys: stored a  against lookup b *)
Definition kcmp (m : kmode) (a b : list Z * Z) : Z :=
  cmp_keys m (stored m (fst a) (snd a)) (fst b) (snd b).

(* _lx_sblk_cmp_key: the node caches the first `lkl` (<= 115) bytes of its lowest stored key; `full` =
   SBLK_FULL_LKEY. Returns the comparison result; `None` = prefix inconclusive, full key has to be loaded *)
Definition sblk_cmp_key (m : kmode) (lk : list Z) (full : bool) (kdata : list Z) (kcomp : Z) : option Z :=
  let ksize := Z.of_nat (length kdata) + (if km_compound m then IW_VNUMSIZE kcomp else 0) in
  if full || (negb (km_compound m || km_real m) && (ksize <? Z.of_nat (length lk))) || km_vnum m
  then Some (cmp_keys m lk kdata kcomp)
  else if km_real m then None    (* a truncated decimal text decides nothing about the number: always the complete key *)
  else let r := cmp_keys_prefix m lk kdata kcomp in
       if r =? 0 then None else Some r.
(* what the code does in the inconclusive case: compare with the full stored key *)
Definition sblk_cmp_key_full (m : kmode) (skey : list Z) (kdata : list Z) (kcomp : Z) : Z :=
  let lk := firstn (Z.to_nat PREFIX_KEY_LEN_V2) skey in
  let full := Z.of_nat (length skey) <=? PREFIX_KEY_LEN_V2 in
  match sblk_cmp_key m lk full kdata kcomp with
  | Some r => r
  | None => cmp_keys m skey kdata kcomp
  end.
End Cmp.
