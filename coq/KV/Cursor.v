(* Cursors of a database (src/kv/iwkv.c: _cursor_to_lr, the positioned operations, and every loop that
   fixes up open cursors after a mutation: _sblk_addkv/_sblk_addkv2, _sblk_updatekv, _sblk_rmkv,
   _lx_split_addkv, _lx_del_sblk_lw).  A cursor holds a private COPY of its node; the model keeps the
   fields of that copy that cursor moves use (record count, back link, forward link) separately from the
   live chain, and refreshes them exactly where the code does, so that a stale copy is representable. *)
Require Import List ZArith Bool. Import ListNotations.
Require Import IW.KV.Node.

Section Cursor.
Variables K V : Type.
Variable cmp : K -> K -> comparison.
Variable IDXNUM : nat.
Variable PIVOT : nat.

Notation chain := (chain K V).
Notation recs := (recs K V).

(* which block the copy is a copy of *)
Inductive cnode := CnHead | CnTail | CnNode (id : nat).

Record ccopy := { cc_node : cnode; cc_pnum : nat; cc_p0 : option nat; cc_n0 : option nat }.
  (* p0 = None: the head (or nothing) ; n0 = None: no next node *)

Inductive pending := PNone | PHead | PTail.     (* cur->dbaddr: 0 / db->addr / -1 *)

Record cursor := { c_cn : option ccopy; c_pos : nat; c_skip : Z; c_pend : pending }.

(* _sblk_at for the three kinds of block *)
Definition load_head (c : chain) : ccopy :=
  {| cc_node := CnHead; cc_pnum := IDXNUM; cc_p0 := None; cc_n0 := nid_of K V c |}.
Definition load_tail (c : chain) : ccopy :=
  {| cc_node := CnTail; cc_pnum := IDXNUM; cc_p0 := last_id K V c; cc_n0 := None |}.
Definition load_node (c : chain) (id : nat) : option ccopy :=
  match find_node K V None c id with
  | Some (p, r, n) => Some {| cc_node := CnNode id; cc_pnum := length r; cc_p0 := p; cc_n0 := n |}
  | None => None
  end.
Definition is_db (cc : ccopy) : bool := match cc_node cc with CnNode _ => false | _ => true end.

Inductive cres := CROk | CRNotFound | CRBroken.   (* CRBroken: the copy names a block that no longer exists *)

Inductive cop := CBeforeFirst | CAfterLast | CNext | CPrev.

Definition cursor_init : cursor := {| c_cn := None; c_pos := 0; c_skip := 0; c_pend := PNone |}.

Definition cursor_to (c : chain) (cur : cursor) (op : cop) : cres * cursor :=
  match op with
  | CBeforeFirst => (CROk, {| c_cn := None; c_pos := IDXNUM - 1; c_skip := 0; c_pend := PHead |})
  | CAfterLast => (CROk, {| c_cn := None; c_pos := 0; c_skip := 0; c_pend := PTail |})
  | CNext | CPrev =>
    (* obtain cn *)
    let st :=
      match c_cn cur with
      | Some cc => Some (cc, c_pend cur)
      | None => match c_pend cur with
                | PHead => Some (load_head c, PNone)
                | PTail => Some (load_tail c, PNone)
                | PNone => None
                end
      end in
    match st with
    | None => (CRNotFound, {| c_cn := None; c_pos := c_pos cur; c_skip := c_skip cur; c_pend := PNone |})
    | Some (cc, pend) =>
      (* `finish:` - a move that found nothing (IWKV_ERROR_NOTFOUND) keeps the step still owed to a record deleted under the
         cursor; every other outcome clears it *)
      let fin r cc' p := (r, {| c_cn := Some cc'; c_pos := p;
                                c_skip := (match r with CRNotFound => c_skip cur | _ => 0%Z end); c_pend := pend |}) in
      match op with
      | CNext =>
        if (0 <? c_skip cur)%Z then fin CROk cc (c_pos cur)
        else if Nat.leb (cc_pnum cc) (c_pos cur + 1) then
          match cc_n0 cc with
          | None => fin CRNotFound cc (c_pos cur)
          | Some n => match load_node c n with
                      | Some cc' => fin CROk cc' 0
                      | None => fin CRBroken cc (c_pos cur)
                      end
          end
        else if is_db cc then fin CRNotFound cc (c_pos cur)
        else fin CROk cc (c_pos cur + 1)
      | _ =>
        if (c_skip cur <? 0)%Z then fin CROk cc (c_pos cur)
        else if Nat.eqb (c_pos cur) 0 then
          match cc_p0 cc with
          | None => fin CRNotFound cc (c_pos cur)
          | Some n => match load_node c n with
                      | Some cc' => fin CROk cc' (cc_pnum cc' - 1)
                      | None => fin CRBroken cc (c_pos cur)
                      end
          end
        else if is_db cc then fin CRNotFound cc (c_pos cur)
        else fin CROk cc (c_pos cur - 1)
      end
    end
  end.

(* EQ / GE : _cursor_get_ge_idx *)
Definition cursor_to_key (c : chain) (cur : cursor) (ge : bool) (k : K) : cres * cursor :=
  let fail := (CRNotFound, {| c_cn := c_cn cur; c_pos := c_pos cur; c_skip := c_skip cur; c_pend := c_pend cur |}) in
  match lower_of K V cmp c k with
  | None => fail
  | Some (lid, lrecs) =>
    let idx := pos K V cmp lrecs k in
    let ok p := match load_node c lid with
                | Some cc => (CROk, {| c_cn := Some cc; c_pos := p; c_skip := 0; c_pend := c_pend cur |})
                | None => fail end in
    if found_at K V cmp lrecs k idx then ok idx
    else if ge then ok (if Nat.eqb idx 0 then 0 else idx - 1)
    else fail
  end.
(* NOTE: on success the failing branch above cannot restore c_pos: the C code writes cur->cnpos only on success
   for `found`, and also only on success otherwise - mirrored: `fail` keeps the old position. *)

(* the record a positioned operation acts on: (node id, slot) *)
Definition cursor_at (cur : cursor) : option (nat * nat) :=
  match c_cn cur with
  | Some cc => match cc_node cc with
               | CnNode id => if Nat.ltb (c_pos cur) (cc_pnum cc) then Some (id, c_pos cur) else None
               | _ => None end
  | None => None
  end.
Definition cursor_read (c : chain) (cur : cursor) : option (K * V) :=
  match cursor_at cur with
  | Some (id, i) => match find_node K V None c id with Some (_, r, _) => nth_error r i | None => None end
  | None => None
  end.

(* ---- fix-ups of the open cursors after a mutation (`c` is the chain AFTER the mutation) ---- *)
Definition refresh (c : chain) (cc : ccopy) : ccopy :=
  match cc_node cc with
  | CnNode id => match load_node c id with Some cc' => cc' | None => cc end
  | CnHead => load_head c
  | CnTail => load_tail c
  end.
Definition on_node (cur : cursor) (id : nat) : bool :=
  match c_cn cur with Some cc => match cc_node cc with CnNode j => Nat.eqb j id | _ => false end | None => false end.
Definition on_ref (cur : cursor) (r : option nat) (dflt : cnode) : bool :=   (* r = None denotes head/tail `dflt` *)
  match c_cn cur, r with
  | Some cc, Some id => match cc_node cc with CnNode j => Nat.eqb j id | _ => false end
  | Some cc, None => match cc_node cc, dflt with CnHead, CnHead => true | CnTail, CnTail => true | _, _ => false end
  | None, _ => false
  end.
Definition set_cn (cur : cursor) (cc : ccopy) : cursor :=
  {| c_cn := Some cc; c_pos := c_pos cur; c_skip := c_skip cur; c_pend := c_pend cur |}.
Definition with_cn (cur : cursor) (f : ccopy -> ccopy) : cursor :=
  match c_cn cur with Some cc => set_cn cur (f cc) | None => cur end.

Definition fix_insert (c : chain) (id idx : nat) (cur : cursor) : cursor :=
  if on_node cur id then
    let cur' := with_cn cur (refresh c) in
    if Nat.leb idx (c_pos cur') then
      {| c_cn := c_cn cur'; c_pos := c_pos cur' + 1; c_skip := c_skip cur'; c_pend := c_pend cur' |}
    else cur'
  else cur.

Definition fix_update (c : chain) (id : nat) (cur : cursor) : cursor :=
  if on_node cur id then with_cn cur (refresh c) else cur.

(* _sblk_rmkv: `pnum` is the record count AFTER the removal *)
Definition fix_remove_in (pnum : nat) (refreshed : ccopy -> ccopy) (id idx : nat) (cur : cursor) : cursor :=
  if on_node cur id then
    let cur' := with_cn cur refreshed in
    if Nat.eqb (c_pos cur') idx then
      if negb (Nat.eqb idx 0) && Nat.eqb idx pnum then
        {| c_cn := c_cn cur'; c_pos := c_pos cur' - 1; c_skip := (-1)%Z; c_pend := c_pend cur' |}
      else {| c_cn := c_cn cur'; c_pos := c_pos cur'; c_skip := 1%Z; c_pend := c_pend cur' |}
    else if Nat.ltb idx (c_pos cur') then
      {| c_cn := c_cn cur'; c_pos := c_pos cur' - 1; c_skip := c_skip cur'; c_pend := c_pend cur' |}
    else cur'
  else cur.
Definition fix_remove (c : chain) (id idx : nat) (cur : cursor) : cursor :=
  let pnum := match find_node K V None c id with Some (_, r, _) => length r | None => 0 end in
  fix_remove_in pnum (refresh c) id idx cur.

(* _lx_split_addkv (after the fix: every cursor on the split node or on its successor is refreshed;
   cursors at or behind the pivot migrate only when records moved) followed by the insertion fix-up *)
Definition fix_split (c : chain) (sid : option nat) (nid : nat) (uside : bool) (upper : option nat)
           (tgt idx : nat) (cur : cursor) : cursor :=
  let cur1 :=
    if on_ref cur sid CnHead then
      if negb uside && Nat.leb PIVOT (c_pos cur) then
        match load_node c nid with
        | Some cc => {| c_cn := Some cc; c_pos := c_pos cur - PIVOT; c_skip := c_skip cur; c_pend := c_pend cur |}
        | None => cur end
      else with_cn cur (refresh c)
    else if on_ref cur upper CnTail then with_cn cur (refresh c)
    else cur in
  (* the key is then added to `tgt` by _sblk_addkv; for the appended single-record node that happened
     before any cursor could be on it *)
  if uside then cur1 else fix_insert c tgt idx cur1.

(* _lx_del_sblk_lw: first _sblk_rmkv on the node (its last record), then the node is unlinked *)
Definition fix_remove_node (c : chain) (id : nat) (prev next : option nat) (cur : cursor) : cursor :=
  let cur0 := fix_remove_in 0 (fun cc => {| cc_node := cc_node cc; cc_pnum := 0; cc_p0 := cc_p0 cc; cc_n0 := cc_n0 cc |}) id 0 cur in
  if on_node cur0 id then
    match next with
    | None =>                                   (* the following block is the database tail *)
      match prev with
      | Some p => match load_node c p with
                  | Some cc => {| c_cn := Some cc; c_pos := cc_pnum cc - 1; c_skip := (-1)%Z; c_pend := c_pend cur0 |}
                  | None => cur0 end
      | None => {| c_cn := None; c_pos := 0; c_skip := 0%Z; c_pend := c_pend cur0 |}
      end
    | Some n => match load_node c n with
                | Some cc => {| c_cn := Some cc; c_pos := 0; c_skip := 1%Z; c_pend := c_pend cur0 |}
                | None => cur0 end
    end
  else
    match c_cn cur0 with
    | Some cc =>
      if (match cc_n0 cc with Some j => Nat.eqb j id | None => false end)
         || (match cc_p0 cc with Some j => Nat.eqb j id | None => false end)
      then set_cn cur0 (refresh c cc)
      else cur0
    | None => cur0
    end.

Definition fix_cursor (c : chain) (ch : change) (cur : cursor) : cursor :=
  match ch with
  | ChNone => cur
  | ChUpdate id => fix_update c id cur
  | ChInsert id idx => fix_insert c id idx cur
  | ChSplit sid nid uside upper tgt idx => fix_split c sid nid uside upper tgt idx cur
  | ChRemove id idx => fix_remove c id idx cur
  | ChRemoveNode id prev next => fix_remove_node c id prev next cur
  end.
End Cursor.
