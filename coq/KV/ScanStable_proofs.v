(* C09 - scan stability under a put, end to end on the node model with cursor copies:
   the forward scan that remains for a cursor standing on a record is "everything after that record in scan order";
   a successful put (whatever it does to the nodes: overwrite, insertion, new node, split) followed by the cursor
   fix-up of the model leaves the cursor on its record, and the remaining scan is the old remaining scan with the
   new record inserted if (and only if) it lies ahead of the cursor.  For every chain satisfying the invariant,
   every cursor, every key and value - no bound on sizes. *)
Require Import List ZArith Bool Lia Sorted. Import ListNotations.
Require Import IW.KV.Node IW.KV.Spec IW.KV.Node_proofs IW.KV.Cursor IW.KV.Cursor_proofs IW.KV.Stable_proofs.

Section ScanStable.
Variables K V : Type.
Variable cmp : K -> K -> comparison.
Variable IDXNUM PIVOT : nat.
Variable upd : V -> V -> option V.
Hypothesis cmp_lt_eq : forall a b c, cmp a b = Lt -> cmp b c = Eq -> cmp a c = Lt.
Hypothesis cmp_antisym : forall a b, cmp a b = CompOpp (cmp b a).
Hypothesis cmp_trans : forall a b c, cmp a b = Lt -> cmp b c = Lt -> cmp a c = Lt.
Hypothesis pivot_ok : 1 <= PIVOT /\ PIVOT < IDXNUM.

Notation chain := (chain K V).
Notation recs := (recs K V).
Notation node := (node K V).
Notation flat := (flat K V).
Notation s_put := (s_put K V cmp).
Notation s_get := (s_get K V cmp).
Notation ids := (map (@fst nat recs)).
Notation sorted := (sorted K V cmp).
Notation all_lt := (all_lt K V cmp).
Notation NodeInv := (NodeInv K V cmp IDXNUM).

(* what a forward scan still has to deliver once it stands on the record with key k0 *)
Fixpoint after (l : recs) (k0 : K) : recs :=
  match l with
  | [] => []
  | (k', _) :: r => match cmp k' k0 with Eq => r | _ => after r k0 end
  end.

(* ... and what a backward scan still has to deliver: everything in front of that record (in scan order) *)
Fixpoint before (l : recs) (k0 : K) : recs :=
  match l with
  | [] => []
  | (k', v') :: r => match cmp k' k0 with Eq => [] | _ => (k', v') :: before r k0 end
  end.

Lemma cmp_refl a : cmp a a = Eq.
Proof. pose proof (cmp_antisym a a) as H. destruct (cmp a a); simpl in H; congruence. Qed.
Lemma cmp_eq_sym a b : cmp a b = Eq -> cmp b a = Eq.
Proof. intros H. rewrite cmp_antisym, H. reflexivity. Qed.
Lemma cmp_gt_lt a b : cmp a b = Gt -> cmp b a = Lt.
Proof. intros H. rewrite cmp_antisym, H. reflexivity. Qed.
Lemma cmp_lt_gt a b : cmp a b = Lt -> cmp b a = Gt.
Proof. intros H. rewrite cmp_antisym, H. reflexivity. Qed.
Lemma cmp_eq_lt a b c : cmp a b = Eq -> cmp b c = Lt -> cmp a c = Lt.
Proof.
  intros H1 H2. destruct (cmp a c) eqn:E; [| reflexivity |].
  - apply cmp_eq_sym in E. pose proof (cmp_lt_eq _ _ _ H2 E) as H. apply cmp_eq_sym in H1. congruence.
  - apply cmp_gt_lt in E. pose proof (cmp_lt_eq _ _ _ E H1) as H. apply cmp_lt_gt in H2. congruence.
Qed.
Lemma cmp_eq_trans a b c : cmp a b = Eq -> cmp b c = Eq -> cmp a c = Eq.
Proof.
  intros H1 H2. destruct (cmp a c) eqn:E; [reflexivity| |].
  - apply cmp_eq_sym in H2. pose proof (cmp_lt_eq _ _ _ E H2). congruence.
  - apply cmp_gt_lt in E. pose proof (cmp_lt_eq _ _ _ E H1). apply cmp_eq_sym in H2. congruence.
Qed.

Lemma after_app_lt (a b : recs) k0 : all_lt a k0 -> after (a ++ b) k0 = after b k0.
Proof.
  induction a as [|[k1 v1] a IH]; intros H; [reflexivity|]. inversion H as [|? ? H1 H2]; subst. cbn [fst] in H1.
  cbn [app after]. rewrite H1. apply IH. exact H2.
Qed.
Lemma after_here (b : recs) k0 v0 : after ((k0, v0) :: b) k0 = b.
Proof. cbn [after]. rewrite cmp_refl. reflexivity. Qed.

(* ---- the remaining scan of a cursor on a record is `after` ---- *)
Lemma node_cursor_is_at_node (c pre rest : chain) cur id r p :
  node_cursor K V c cur id p -> c_skip cur = 0%Z -> c = pre ++ (id, r) :: rest -> ids_unique K V c ->
  cur = at_node K V pre id r rest p (c_pend cur).
Proof.
  intros [cc [H1 [H2 H3]]] Hs Hc Hu. rewrite (load_at K V c pre id r rest Hc Hu) in H2. inversion H2; subst cc.
  destruct cur as [cn ps sk pe]. cbn [c_cn c_pos c_skip c_pend] in *. subst. reflexivity.
Qed.

Lemma node_ok_nonempty_nodes (c : chain) : Forall (node_ok K V IDXNUM) c -> nonempty_nodes K V c.
Proof. unfold nonempty_nodes. apply Forall_impl. intros n [H _]. exact H. Qed.

Lemma flat_app' (a b : chain) : flat (a ++ b) = flat a ++ flat b.
Proof. unfold Node.flat. rewrite map_app, concat_app. reflexivity. Qed.

Lemma split_at_nth (r : recs) p e : nth_error r p = Some e -> r = firstn p r ++ e :: skipn (S p) r.
Proof.
  revert p; induction r as [|x r IH]; intros [|p] H; simpl in *; try discriminate.
  - inversion H; reflexivity.
  - f_equal. apply IH. exact H.
Qed.

Lemma in_ids_split (c : chain) id : In id (ids c) -> exists pre r rest, c = pre ++ (id, r) :: rest.
Proof.
  intros H. apply in_map_iff in H. destruct H as [[j r] [Hj Hin]]. cbn [fst] in Hj. subst j.
  apply in_split in Hin. destruct Hin as [pre [rest ->]]. exists pre, r, rest. reflexivity.
Qed.

Theorem scan_is_after (c : chain) cur id p k0 v0 fuel :
  NodeInv c -> ids_unique K V c -> node_cursor K V c cur id p -> c_skip cur = 0%Z ->
  cursor_read K V c cur = Some (k0, v0) -> length (flat c) < fuel ->
  scan_next K V IDXNUM fuel c cur = after (flat c) k0.
Proof.
  intros [Hok Hs] Hu Hnc Hsk Hr Hf.
  assert (Hin : In id (ids c)).
  { destruct Hnc as [cc [_ [H2 _]]]. unfold load_node in H2.
    destruct (find_node K V None c id) as [x|] eqn:E; [|discriminate]. eapply find_some_in. exact E. }
  destruct (in_ids_split c id Hin) as [pre [r [rest Hc]]].
  destruct (read_some_pos K V c cur id p (k0, v0) pre r rest Hnc Hc Hu Hr) as [Hnth Hp].
  rewrite (node_cursor_is_at_node c pre rest cur id r p Hnc Hsk Hc Hu).
  assert (Hflat : flat c = (flat pre ++ firstn p r) ++ (k0, v0) :: skipn (S p) r ++ flat rest).
  { rewrite Hc, flat_app'. rewrite <- app_assoc. f_equal. change (flat ((id, r) :: rest)) with (r ++ flat rest).
    rewrite (split_at_nth r p (k0, v0) Hnth) at 1. rewrite <- app_assoc. reflexivity. }
  assert (Hne : nonempty_nodes K V rest).
  { apply node_ok_nonempty_nodes. rewrite Hc in Hok. apply Forall_app in Hok. destruct Hok as [_ Hok].
    inversion Hok; assumption. }
  assert (Hidx : 1 <= IDXNUM) by lia.
  rewrite (scan_from_node K V IDXNUM Hidx fuel c pre id r rest p (c_pend cur) Hc Hu Hne Hp).
  - rewrite Hflat. rewrite after_app_lt; [rewrite after_here; reflexivity|].
    rewrite Hflat in Hs. apply (sorted_app_inv K V cmp) in Hs. destruct Hs as [_ [_ H]].
    apply Forall_forall. intros x Hx. apply (H x (k0, v0) Hx). left. reflexivity.
  - rewrite Hflat in Hf. rewrite !app_length in Hf. cbn [length] in Hf. rewrite app_length in *. lia.
Qed.

(* ---- the specification side: what a put does to the part of the list after k0 ---- *)
Lemma after_s_put (l : recs) k0 v0 k v : sorted l -> In (k0, v0) l ->
  after (s_put l k v) k0 = match cmp k0 k with Lt => s_put (after l k0) k v | _ => after l k0 end.
Proof.
  induction l as [|[k1 v1] l IH]; intros Hs Hin; [destruct Hin|].
  inversion Hs as [|? ? Hs' Hf]; subst.
  cbn [Spec.s_put]. destruct (cmp k1 k) eqn:E1.
  - (* overwrite of k1 *)
    cbn [after]. destruct (cmp k1 k0) eqn:E10.
    + (* cursor on the overwritten record *)
      assert (E : cmp k0 k = Eq) by (eapply cmp_eq_trans; [apply cmp_eq_sym; exact E10|exact E1]). rewrite E. reflexivity.
    + assert (E : cmp k0 k = Gt).
      { apply cmp_lt_gt. apply cmp_eq_lt with k1; [apply cmp_eq_sym; exact E1|exact E10]. }
      rewrite E. reflexivity.
    + (* k0 before k1 in a sorted list that contains k0 behind k1: impossible *)
      exfalso. destruct Hin as [Hin|Hin]; [inversion Hin; subst; rewrite cmp_refl in E10; discriminate|].
      rewrite Forall_forall in Hf. specialize (Hf _ Hin). unfold klt in Hf. cbn [fst] in Hf. congruence.
  - (* k lies behind k1 *)
    cbn [after]. destruct (cmp k1 k0) eqn:E10.
    + assert (E : cmp k0 k = Lt) by (eapply cmp_eq_lt; [apply cmp_eq_sym; exact E10|exact E1]). rewrite E. reflexivity.
    + destruct Hin as [Hin|Hin]; [inversion Hin; subst; rewrite cmp_refl in E10; discriminate|].
      apply IH; assumption.
    + exfalso. destruct Hin as [Hin|Hin]; [inversion Hin; subst; rewrite cmp_refl in E10; discriminate|].
      rewrite Forall_forall in Hf. specialize (Hf _ Hin). unfold klt in Hf. cbn [fst] in Hf. congruence.
  - (* k goes in front of k1: everything from k1 on is unchanged and k0 is not before k *)
    cbn [after].
    assert (Hk0 : cmp k0 k = Gt).
    { destruct Hin as [Hin|Hin]; [inversion Hin; subst; exact E1|].
      rewrite Forall_forall in Hf. specialize (Hf _ Hin). unfold klt in Hf. cbn [fst] in Hf.
      apply cmp_lt_gt. apply cmp_trans with k1; [apply cmp_gt_lt; exact E1|exact Hf]. }
    rewrite Hk0. assert (E : cmp k k0 = Lt) by (apply cmp_gt_lt; exact Hk0). rewrite E. reflexivity.
Qed.

Lemma NoDup_app_insert (A B : list nat) lid fresh :
  NoDup (A ++ lid :: B) -> ~ In fresh (A ++ lid :: B) -> NoDup (A ++ lid :: fresh :: B).
Proof.
  intros Hu Hfr.
  replace (A ++ lid :: fresh :: B) with ((A ++ [lid]) ++ fresh :: B) by (rewrite <- app_assoc; reflexivity).
  apply (NoDup_Add (Add_app fresh (A ++ [lid]) B)). rewrite <- app_assoc. split; assumption.
Qed.

(* uniqueness of node ids survives a put that takes a fresh id *)
Lemma put_effect_unique fresh e (c c' : chain) ch :
  put_effect K V cmp PIVOT fresh e c c' ch -> ids_unique K V c -> ~ In fresh (ids c) -> ids_unique K V c'.
Proof.
  unfold ids_unique. intros He Hu Hfr.
  destruct He as [A nid r B idx nv Hc Hi Hfo|A nid r B idx Hc Hi|A lid r B Hc| |A lid r B idx Hc Hp Hi|A lid r B idx Hc Hp Hi];
    try subst c; rewrite ?map_app in *; cbn [map fst] in *; try exact Hu.
  - apply NoDup_app_insert; assumption.
  - constructor; assumption.
  - apply NoDup_app_insert; assumption.
  - apply NoDup_app_insert; assumption.
Qed.

Lemma s_put_length (l : recs) k v : length (s_put l k v) <= S (length l).
Proof. induction l as [|[k1 v1] l IH]; cbn [Spec.s_put length]; [lia|]. destruct (cmp k1 k); cbn [length]; lia. Qed.

Lemma read_in_flat (c : chain) cur id p e : ids_unique K V c ->
  node_cursor K V c cur id p -> cursor_read K V c cur = Some e -> In e (flat c).
Proof.
  intros Hu Hnc Hr.
  assert (Hin : In id (ids c)).
  { destruct Hnc as [cc [_ [H2 _]]]. unfold load_node in H2.
    destruct (find_node K V None c id) as [x|] eqn:E; [|discriminate]. eapply find_some_in. exact E. }
  destruct (in_ids_split c id Hin) as [pre [r [rest Hc]]].
  destruct (read_some_pos K V c cur id p e pre r rest Hnc Hc Hu Hr) as [Hnth _].
  rewrite Hc, flat_app'. apply in_or_app. right. change (flat ((id, r) :: rest)) with (r ++ flat rest).
  apply in_or_app. left. eapply nth_error_In. exact Hnth.
Qed.

(* ---- SCAN STABILITY UNDER PUT ---- *)
Theorem scan_stable_put fresh (c : chain) k v noover newok c' ch cur id p k0 v0 fuel :
  NodeInv c -> ids_unique K V c -> ~ In fresh (ids c) ->
  put_chain K V cmp IDXNUM PIVOT upd fresh c k v noover newok = (POk, c', ch) ->
  node_cursor K V c cur id p -> c_skip cur = 0%Z -> cursor_read K V c cur = Some (k0, v0) ->
  S (length (flat c)) < fuel ->
  let cur' := fix_cursor K V IDXNUM PIVOT c' ch cur in
  exists nv, (s_get (flat c) k = None -> nv = v) /\
    scan_next K V IDXNUM fuel c' cur' =
    match cmp k0 k with Lt => s_put (scan_next K V IDXNUM fuel c cur) k nv | _ => scan_next K V IDXNUM fuel c cur end.
Proof.
  intros Hinv Hu Hfr Hput Hnc Hsk Hr Hfuel. cbv zeta.
  assert (Hpiv : PIVOT <= IDXNUM) by lia.
  assert (Hidx : 1 <= IDXNUM) by lia.
  destruct (put_keeps_cursor K V cmp IDXNUM PIVOT upd Hidx fresh c k v noover newok c' ch cur id p k0 v0 Hpiv Hu Hfr Hput Hnc Hr)
    as [[id' [p' Hnc']] [Hsk' [v' [Hr' _]]]].
  assert (Hinv' : NodeInv c') by (eapply put_chain_inv; eauto).
  assert (Hu' : ids_unique K V c').
  { eapply put_effect_unique; [eapply put_chain_effect; eauto|exact Hu|exact Hfr]. }
  destruct (put_chain_refines K V cmp IDXNUM PIVOT upd cmp_lt_eq cmp_trans pivot_ok fresh c k v noover newok POk c' ch Hinv Hput) as [Hspec _].
  assert (Hnv : exists nv, flat c' = s_put (flat c) k nv /\ (s_get (flat c) k = None -> nv = v)).
  { unfold spec_put in Hspec. destruct (s_get (flat c) k) as [old|].
    - destruct noover; [discriminate|]. destruct (upd old v) as [nv|]; [|discriminate].
      inversion Hspec as [Hfl]. exists nv. split; [exact Hfl|discriminate].
    - destruct newok; [|discriminate]. inversion Hspec as [Hfl]. exists v. split; [exact Hfl|reflexivity]. }
  destruct Hnv as [nv [Hflat Hnew]]. exists nv. split; [exact Hnew|].
  rewrite (scan_is_after c' (fix_cursor K V IDXNUM PIVOT c' ch cur) id' p' k0 v' fuel Hinv' Hu' Hnc'); try assumption.
  - rewrite (scan_is_after c cur id p k0 v0 fuel Hinv Hu Hnc Hsk Hr) by lia.
    rewrite Hflat. destruct Hinv as [_ Hs].
    apply (after_s_put (flat c) k0 v0 k nv Hs). eapply read_in_flat; eauto.
  - rewrite Hsk'. exact Hsk.
  - rewrite Hflat. pose proof (s_put_length (flat c) k nv). lia.
Qed.

End ScanStable.
