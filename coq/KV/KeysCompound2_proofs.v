(* Compound keys on top of the two typed key modes (IWDB_COMPOUND_KEYS with IWDB_REALNUM_KEYS or IWDB_VNUM64_KEYS): the
   stored key is the varint of the compound part followed by the typed key; _cmp_keys_prefix compares the typed parts and,
   when they are equal, the compound parts (greater first).  Keys as the API can produce them - non-empty key bytes (a key of
   size 0 is refused), encodable compound part, and for integer keys 1..10 bytes - form a total preorder under it, equal
   only on identical (typed part, compound part): the three laws of the node model. *)
Require Import ZArith List Bool Lia. Import ListNotations.
Require Import IW.Lib.CInt IW.Lib.Vnum IW.Lib.Vnum_proofs IW.KV.Keys IW.KV.Inst IW.KV.Keys_proofs IW.KV.KeysCompound_proofs
               IW.KV.KeysReal_proofs IW.Gen.Facts.
Local Open Scope Z_scope.

(* ---- lexicographic product of a total order on a canonical key with the compound part (descending) ---- *)
Section Lex.
Variable T : Type.
Variable pc : T -> T -> comparison.
Hypothesis pc_antisym : forall x y, pc x y = CompOpp (pc y x).
Hypothesis pc_trans : forall x y z, pc x y = Lt -> pc y z = Lt -> pc x z = Lt.
Hypothesis pc_eq : forall x y, pc x y = Eq <-> x = y.

Definition lexc (a b : T * Z) : comparison :=
  match pc (fst a) (fst b) with
  | Eq => if snd a >? snd b then Lt else if snd a <? snd b then Gt else Eq
  | r => r
  end.

Lemma lexc_antisym a b : lexc a b = CompOpp (lexc b a).
Proof.
  unfold lexc. rewrite (pc_antisym (fst a) (fst b)). destruct (pc (fst b) (fst a)); cbn [CompOpp]; try reflexivity.
  destruct (snd a >? snd b) eqn:E1; destruct (snd b >? snd a) eqn:E2; destruct (snd a <? snd b) eqn:E3; destruct (snd b <? snd a) eqn:E4;
    try lia; reflexivity.
Qed.
Lemma lexc_eq a b : lexc a b = Eq <-> a = b.
Proof.
  unfold lexc. split.
  - destruct (pc (fst a) (fst b)) eqn:E; try discriminate. apply pc_eq in E.
    destruct (snd a >? snd b) eqn:E1; [discriminate|]. destruct (snd a <? snd b) eqn:E2; [discriminate|]. intros _.
    destruct a, b; cbn [fst snd] in *. f_equal; [exact E|lia].
  - intros ->. assert (E : pc (fst b) (fst b) = Eq) by (apply pc_eq; reflexivity). rewrite E.
    destruct (snd b >? snd b) eqn:E1; [lia|]. destruct (snd b <? snd b) eqn:E2; [lia|reflexivity].
Qed.
Lemma lexc_lt a b : lexc a b = Lt <-> (pc (fst a) (fst b) = Lt \/ (fst a = fst b /\ snd a > snd b)).
Proof.
  unfold lexc. destruct (pc (fst a) (fst b)) eqn:E.
  - apply pc_eq in E. destruct (snd a >? snd b) eqn:E1; [split; [intros _; right; split; [exact E|lia]|reflexivity]|].
    destruct (snd a <? snd b) eqn:E2; (split; [discriminate|intros [H|[_ H]]; [discriminate|lia]]).
  - split; [intros _; left; reflexivity|reflexivity].
  - split; [discriminate|intros [H|[H _]]; [discriminate|]]. apply pc_eq in H. rewrite H in E. discriminate.
Qed.
Lemma lexc_trans a b c : lexc a b = Lt -> lexc b c = Lt -> lexc a c = Lt.
Proof.
  rewrite !lexc_lt. intros [H1|[H1 G1]] [H2|[H2 G2]].
  - left. eapply pc_trans; eassumption.
  - left. rewrite <- H2. exact H1.
  - left. rewrite H1. exact H2.
  - right. split; [congruence|lia].
Qed.
Lemma lexc_lt_eq a b c : lexc a b = Lt -> lexc b c = Eq -> lexc a c = Lt.
Proof. intros H1 H2. apply lexc_eq in H2. rewrite <- H2. exact H1. Qed.
End Lex.

(* ---- real-number keys with a compound part ---- *)
Definition rcmode : kmode := {| km_vnum := false; km_real := true; km_compound := true |}.
Definition rckey_ok (k : key) : Prop := 0 <= snd k < 2 ^ 63 /\ fst k <> [].

Definition rflip (x y : list Z) : comparison := rcmp y x.
Lemma rflip_antisym x y : rflip x y = CompOpp (rflip y x).
Proof. unfold rflip. apply rcmp_antisym. Qed.
Lemma rflip_trans x y z : rflip x y = Lt -> rflip y z = Lt -> rflip x z = Lt.
Proof. unfold rflip. intros H1 H2. eapply rcmp_trans; eassumption. Qed.
Lemma rflip_eq x y : rflip x y = Eq <-> x = y.
Proof. unfold rflip. rewrite rcmp_eq. split; intros H; symmetry; exact H. Qed.

Lemma length_pos_nonempty {A} (l : list A) : l <> [] -> (Z.of_nat (length l) <? 1) = false.
Proof. destruct l; [congruence|]. intros _. cbn [length]. rewrite Nat2Z.inj_succ. apply Z.ltb_ge. lia. Qed.

Lemma cmp_of_rc (a b : key) : rckey_ok a -> cmp_of rcmode a b = lexc (list Z) rflip a b.
Proof.
  intros [Hc Hne]. unfold cmp_of, kcmp, stored, cmp_keys, rcmode. cbn [km_vnum km_real km_compound orb negb andb].
  rewrite Bool.andb_false_r.
  destruct (vnum64_roundtrip (snd a) (fst a) Hc) as [Hr _].
  unfold cmp_keys_prefix. cbn [km_vnum km_real km_compound]. rewrite Hr.
  rewrite skipn_app_len, app_length, Nat2Z.inj_add.
  replace (Z.of_nat (length (set_vnum64 (snd a))) + Z.of_nat (length (fst a)) - Z.of_nat (length (set_vnum64 (snd a))))
    with (Z.of_nat (length (fst a))) by lia.
  rewrite (length_pos_nonempty _ Hne).
  unfold lexc, rflip. rewrite <- sgnc_afcmp. unfold sgnc, sgn3.
  destruct (afcmp memcmp (fst b) (fst a) =? 0) eqn:E0.
  - assert (E1 : (afcmp memcmp (fst b) (fst a) <? 0) = false) by lia. rewrite E1.
    destruct (snd a >? snd b) eqn:G1; [reflexivity|]. destruct (snd a <? snd b) eqn:G2; reflexivity.
  - rewrite E0. destruct (afcmp memcmp (fst b) (fst a) <? 0); reflexivity.
Qed.

Definition rckey : Type := { k : key | rckey_ok k }.
Definition rckey_cmp (a b : rckey) : comparison := cmp_of rcmode (proj1_sig a) (proj1_sig b).
Theorem realcompound_cmp_antisym : forall a b : rckey, rckey_cmp a b = CompOpp (rckey_cmp b a).
Proof. intros [a Ha] [b Hb]. unfold rckey_cmp. cbn [proj1_sig]. rewrite !cmp_of_rc by assumption. apply lexc_antisym. exact rflip_antisym. Qed.
Theorem realcompound_cmp_trans : forall a b c : rckey, rckey_cmp a b = Lt -> rckey_cmp b c = Lt -> rckey_cmp a c = Lt.
Proof.
  intros [a Ha] [b Hb] [c Hc]. unfold rckey_cmp. cbn [proj1_sig]. rewrite !cmp_of_rc by assumption.
  apply lexc_trans; [exact rflip_trans|exact rflip_eq].
Qed.
Theorem realcompound_cmp_lt_eq : forall a b c : rckey, rckey_cmp a b = Lt -> rckey_cmp b c = Eq -> rckey_cmp a c = Lt.
Proof.
  intros [a Ha] [b Hb] [c Hc]. unfold rckey_cmp. cbn [proj1_sig]. rewrite !cmp_of_rc by assumption.
  apply lexc_lt_eq; [exact rflip_antisym|exact rflip_trans|exact rflip_eq].
Qed.
Theorem realcompound_cmp_eq_iff : forall a b : rckey, rckey_cmp a b = Eq <-> proj1_sig a = proj1_sig b.
Proof. intros [a Ha] [b Hb]. unfold rckey_cmp. cbn [proj1_sig]. rewrite cmp_of_rc by assumption. apply lexc_eq; [exact rflip_antisym|exact rflip_trans|exact rflip_eq]. Qed.

(* ---- integer keys with a compound part ---- *)
Definition vcmode : kmode := {| km_vnum := true; km_real := false; km_compound := true |}.
Definition vckey_ok (k : key) : Prop := 0 <= snd k < 2 ^ 63 /\ 1 <= Z.of_nat (length (fst k)) <= IW_VNUMBUFSZ.

(* canonical key of the typed part: (length, decoded value) as in Keys_proofs.vkey *)
Definition vk (d : list Z) : Z * Z := vkey (d, 0).

Lemma pcmp_trans x y z : pcmp x y = Lt -> pcmp y z = Lt -> pcmp x z = Lt.
Proof. rewrite !pcmp_lt. lia. Qed.

Lemma cmp_of_vc (a b : key) : vckey_ok a -> cmp_of vcmode a b = lexc (Z * Z) pcmp (vk (fst a), snd a) (vk (fst b), snd b).
Proof.
  intros [Hc [Hl1 Hl2]]. unfold cmp_of, kcmp, stored, cmp_keys, vcmode. cbn [km_vnum km_real km_compound orb negb andb].
  rewrite Bool.andb_false_r.
  destruct (vnum64_roundtrip (snd a) (fst a) Hc) as [Hr _].
  unfold cmp_keys_prefix. cbn [km_vnum km_real km_compound]. rewrite Hr.
  rewrite skipn_app_len, app_length, Nat2Z.inj_add.
  replace (Z.of_nat (length (set_vnum64 (snd a))) + Z.of_nat (length (fst a)) - Z.of_nat (length (set_vnum64 (snd a))))
    with (Z.of_nat (length (fst a))) by lia.
  assert (E1 : (Z.of_nat (length (fst a)) <? 1) = false) by lia. rewrite E1.
  (* the typed comparison is the one of plain integer keys *)
  pose proof (cmp_of_vnum (fst a, 0) (fst b, 0)) as Hv.
  unfold cmp_of, kcmp, stored, cmp_keys, cmp_keys_prefix, vnummode in Hv. cbn [km_vnum km_real km_compound orb negb andb fst snd] in Hv.
  rewrite Bool.andb_false_r in Hv.
  unfold lexc. cbn [fst snd]. unfold vk. rewrite <- Hv. clear Hv.
  set (r := vnum_cmp (fst a) (fst b)).
  set (la := Z.of_nat (length (fst a))) in *. set (lb := Z.of_nat (length (fst b))).
  assert (E2 : (la >? IW_VNUMBUFSZ) = false) by lia.
  destruct (lb =? la) eqn:El; cbn [negb orb].
  - assert (E3 : (lb >? IW_VNUMBUFSZ) = false) by lia. rewrite E3, E2. cbn [orb].
    unfold sgn3.
    destruct (r =? 0) eqn:E0.
    + assert (E4 : (r <? 0) = false) by lia. rewrite E4.
      destruct (snd a >? snd b) eqn:G1; [reflexivity|]. destruct (snd a <? snd b) eqn:G2; reflexivity.
    + rewrite E0. destruct (r <? 0); reflexivity.
  - (* different lengths: the typed result is the length difference, never 0 *)
    assert (Hr0 : r = lb - la).
    { unfold r, vnum_cmp. fold la lb. rewrite El. reflexivity. }
    assert (E0 : (r =? 0) = false) by lia. rewrite E0. destruct (r <? 0); reflexivity.
Qed.

Definition vckey : Type := { k : key | vckey_ok k }.
Definition vckey_cmp (a b : vckey) : comparison := cmp_of vcmode (proj1_sig a) (proj1_sig b).
Theorem intcompound_cmp_antisym : forall a b : vckey, vckey_cmp a b = CompOpp (vckey_cmp b a).
Proof. intros [a Ha] [b Hb]. unfold vckey_cmp. cbn [proj1_sig]. rewrite !cmp_of_vc by assumption. apply lexc_antisym. exact pcmp_antisym. Qed.
Theorem intcompound_cmp_trans : forall a b c : vckey, vckey_cmp a b = Lt -> vckey_cmp b c = Lt -> vckey_cmp a c = Lt.
Proof.
  intros [a Ha] [b Hb] [c Hc]. unfold vckey_cmp. cbn [proj1_sig]. rewrite !cmp_of_vc by assumption.
  apply lexc_trans; [exact pcmp_trans|exact pcmp_eq].
Qed.
Theorem intcompound_cmp_lt_eq : forall a b c : vckey, vckey_cmp a b = Lt -> vckey_cmp b c = Eq -> vckey_cmp a c = Lt.
Proof.
  intros [a Ha] [b Hb] [c Hc]. unfold vckey_cmp. cbn [proj1_sig]. rewrite !cmp_of_vc by assumption.
  apply lexc_lt_eq; [exact pcmp_antisym|exact pcmp_trans|exact pcmp_eq].
Qed.

Example compound2_examples :
  cmp_of rcmode ([49; 50], 5) ([55], 5) = Lt /\ cmp_of rcmode ([55], 9) ([55], 5) = Lt /\
  cmp_of vcmode (set_vnum64 300, 1) (set_vnum64 7, 1) = Lt /\ cmp_of vcmode (set_vnum64 7, 4) (set_vnum64 7, 1) = Lt.
Proof. vm_compute. repeat split; reflexivity. Qed.
