(* One database at the level of the public API: effective keys (_to_effective_key), flags of iwkv_puth,
   result codes, on top of the node model (KV/Node.v) instantiated with the comparators of KV/Keys.v. *)
Require Import List ZArith Bool. Import ListNotations.
Require Import IW.Lib.CInt IW.Lib.Vnum IW.KV.Keys IW.KV.Node IW.KV.Cursor IW.KV.Spec IW.Gen.Facts.
Local Open Scope Z_scope. Local Open Scope bool_scope.

Definition key := (list Z * Z)%type.      (* effective key bytes, compound part *)
Definition value := list Z.

Definition cmp_of (m : kmode) (a b : key) : comparison :=
  let r := kcmp memcmp m a b in if r <? 0 then Lt else if r =? 0 then Eq else Gt.

Inductive rcode := ROk | RNotFound | RKeyExists | RMaxKvSz | RKeyNumValueSize | ROverflow | RInvalidArgs
                 | RCannotIncrement | RHandlerError.

(* little endian *)
Fixpoint le_decode (b : list Z) : Z := match b with [] => 0 | x :: r => x + 256 * le_decode r end.
Fixpoint le_encode (n : nat) (v : Z) : list Z := match n with O => [] | S k => (v mod 256) :: le_encode k (v / 256) end.

(* _to_effective_key *)
Definition eff_key (m : kmode) (k : list Z) (comp : Z) : rcode * key :=
  if km_compound m && (comp <? 0) then (RInvalidArgs, ([], comp))   (* no encoded form for a negative compound part *)
  else if km_vnum m then
    if Nat.eqb (length k) 8 then
      let e := set_vnum64 (le_decode k) in if Nat.eqb (length e) 0 then (ROverflow, ([], comp)) else (ROk, (e, if km_compound m then comp else 0))
    else if Nat.eqb (length k) 4 then
      let e := set_vnum32 (le_decode k) in if Nat.eqb (length e) 0 then (ROverflow, ([], comp)) else (ROk, (e, if km_compound m then comp else 0))
    else (RKeyNumValueSize, ([], comp))
  else (ROk, (k, if km_compound m then comp else 0)).

(* key as returned by a cursor (_unpack_effective_key): integer keys come back as 8 bytes *)
Definition api_key (m : kmode) (k : key) : list Z * Z :=
  let comp := if km_compound m then snd k else 0 in
  if km_vnum m then (le_encode 8 (read_vnum2 (fst k)), comp) else (fst k, comp).

Definition FL_NO_OVERWRITE := IWKV_NO_OVERWRITE.
Definition FL_INCREMENT := IWKV_VAL_INCREMENT.
Definition has (flags bit : Z) : bool := negb (Z.land flags bit =? 0).

(* IWKV_VAL_INCREMENT on an existing value *)
Definition incr (old v : value) : option value :=
  let ival := if Nat.eqb (length v) 4 then Some (sw 32 (le_decode v))
              else if Nat.eqb (length v) 8 then Some (sw 64 (le_decode v)) else None in
  match ival with
  | None => None
  | Some iv =>
    if Nat.eqb (length old) 4 then Some (le_encode 4 (uw 32 (le_decode old + iv)))
    else if Nat.eqb (length old) 8 then Some (le_encode 8 (uw 64 (le_decode old + iv)))
    else None
  end.

Definition stored_size (m : kmode) (k : key) : Z :=
  Z.of_nat (length (fst k)) + (if km_compound m then IW_VNUMSIZE (snd k) else 0).

Definition dbchain := chain key value.
Notation cur := (cursor).

Definition NIDX : nat := Z.to_nat KVBLK_IDXNUM.
Definition NPIVOT : nat := Z.to_nat SPLIT_PIVOT.

(* one database: mode, node chain, next node identity, open cursors (slot -> cursor) *)
Record db := { d_mode : kmode; d_chain : dbchain; d_fresh : nat; d_curs : list (nat * cursor) }.

Definition db_empty (m : kmode) : db := {| d_mode := m; d_chain := []; d_fresh := 1; d_curs := [] |}.

Definition fix_all (c : dbchain) (ch : change) (cs : list (nat * cursor)) : list (nat * cursor) :=
  map (fun e => (fst e, fix_cursor key value NIDX NPIVOT c ch (snd e))) cs.

Definition mutated (d : db) (c : dbchain) (ch : change) : db :=
  {| d_mode := d_mode d; d_chain := c;
     d_fresh := match ch with ChSplit _ _ _ _ _ _ => S (d_fresh d) | _ => d_fresh d end;
     d_curs := fix_all c ch (d_curs d) |}.

Definition put_upd (inc : bool) (ph : Z) (old nv : value) : option value :=
  if inc then match incr old nv with
              | Some r => if ph =? 2 then None else Some r
              | None => None end
  else if ph =? 2 then None else Some nv.

(* iwkv_puth: ph = 0 none, 1 handler returning ok, 2 handler returning an error *)
Definition db_put (d : db) (k : list Z) (comp : Z) (v : value) (flags ph : Z) : rcode * db :=
  let m := d_mode d in
  if Nat.eqb (length k) 0 then (RInvalidArgs, d) else
  match eff_key m k comp with
  | (ROk, ek) =>
    let ks := stored_size m ek in
    if IW_VNUMSIZE ks + ks + Z.of_nat (length v) >? IWKV_MAX_KVSZ then (RMaxKvSz, d) else
    let inc := has flags FL_INCREMENT in
    let noover := has flags FL_NO_OVERWRITE && negb inc in
    let '(r, c', ch) := put_chain key value (cmp_of m) NIDX NPIVOT (put_upd inc ph) (d_fresh d) (d_chain d) ek v
                                   noover (negb (ph =? 2)) in
    match r with
    | POk => (ROk, mutated d c' ch)
    | PExists => (RKeyExists, d)
    | PErr =>
      match get_chain key value (cmp_of m) (d_chain d) ek with
      | Some old => if inc then (match incr old v with None => (RCannotIncrement, d) | Some _ => (RHandlerError, d) end)
                    else (RHandlerError, d)
      | None => (RHandlerError, d)
      end
    end
  | (e, _) => (e, d)
  end.

Definition db_get (d : db) (k : list Z) (comp : Z) : rcode * value :=
  match eff_key (d_mode d) k comp with
  | (ROk, ek) => match get_chain key value (cmp_of (d_mode d)) (d_chain d) ek with
                 | Some v => (ROk, v) | None => (RNotFound, []) end
  | (e, _) => (e, [])
  end.

Definition db_del (d : db) (k : list Z) (comp : Z) : rcode * db :=
  match eff_key (d_mode d) k comp with
  | (ROk, ek) => match del_chain key value (cmp_of (d_mode d)) (d_chain d) ek with
                 | Some (c', ch) => (ROk, mutated d c' ch) | None => (RNotFound, d) end
  | (e, _) => (e, d)
  end.

(* ---- cursors ---- *)
Fixpoint cur_get (cs : list (nat * cursor)) (slot : nat) : option cursor :=
  match cs with [] => None | (s, c) :: r => if Nat.eqb s slot then Some c else cur_get r slot end.
Fixpoint cur_set (cs : list (nat * cursor)) (slot : nat) (c : cursor) : list (nat * cursor) :=
  match cs with
  | [] => [(slot, c)]
  | (s, c0) :: r => if Nat.eqb s slot then (s, c) :: r else (s, c0) :: cur_set r slot c
  end.
Fixpoint cur_del (cs : list (nat * cursor)) (slot : nat) : list (nat * cursor) :=
  match cs with [] => [] | (s, c) :: r => if Nat.eqb s slot then r else (s, c) :: cur_del r slot end.

Definition with_curs (d : db) (cs : list (nat * cursor)) : db :=
  {| d_mode := d_mode d; d_chain := d_chain d; d_fresh := d_fresh d; d_curs := cs |}.

(* cursor ops: 1 BEFORE_FIRST 2 AFTER_LAST 3 NEXT 4 PREV 5 EQ 6 GE *)
Definition cres_rc (r : cres) : rcode := match r with CROk => ROk | _ => RNotFound end.

Definition db_cursor_move (d : db) (slot : nat) (c0 : cursor) (op : Z) (k : option (list Z * Z)) : rcode * cursor :=
  let ch := d_chain d in
  if op =? 1 then let '(r, c) := cursor_to key value NIDX ch c0 (CBeforeFirst) in (cres_rc r, c)
  else if op =? 2 then let '(r, c) := cursor_to key value NIDX ch c0 (CAfterLast) in (cres_rc r, c)
  else if op =? 3 then let '(r, c) := cursor_to key value NIDX ch c0 (CNext) in (cres_rc r, c)
  else if op =? 4 then let '(r, c) := cursor_to key value NIDX ch c0 (CPrev) in (cres_rc r, c)
  else match k with
       | None => (RInvalidArgs, c0)
       | Some (kb, comp) =>
         match eff_key (d_mode d) kb comp with
         | (ROk, ek) => let '(r, c) := cursor_to_key key value (cmp_of (d_mode d)) ch c0 (op =? 6) ek in (cres_rc r, c)
         | (e, _) => (e, c0)
         end
       end.

(* iwkv_cursor_open: a failing open leaves no cursor *)
Definition db_copen (d : db) (slot : nat) (op : Z) (k : option (list Z * Z)) : rcode * db :=
  let d0 := with_curs d (cur_del (d_curs d) slot) in
  if (op <? 1) || (op >? 6) then (RInvalidArgs, d0)
  else if (match k with Some _ => op <? 5 | None => false end) then (RInvalidArgs, d0)
  else
  let '(r, c) := db_cursor_move d0 slot cursor_init op k in
  match r with ROk => (ROk, with_curs d0 (cur_set (d_curs d0) slot c)) | _ => (r, d0) end.

Definition db_cto (d : db) (slot : nat) (op : Z) (k : option (list Z * Z)) : rcode * db :=
  match cur_get (d_curs d) slot with
  | None => (RInvalidArgs, d)
  | Some c0 => let '(r, c) := db_cursor_move d slot c0 op k in (r, with_curs d (cur_set (d_curs d) slot c))
  end.

Definition db_cread (d : db) (slot : nat) : option (key * value) :=
  match cur_get (d_curs d) slot with
  | None => None
  | Some c => cursor_read key value (d_chain d) c
  end.

(* iwkv_cursor_is_matched_key: the key under the cursor, unpacked as a cursor reports it, against the caller's key; a number
   key is given as 4 or 8 bytes (as for put/get) and compared as the 8-byte number.  The compound part is not compared
   (it is reported next to the answer). *)
Fixpoint bytes_eqb (a b : list Z) : bool :=
  match a, b with
  | [], [] => true
  | x :: a', y :: b' => (x =? y) && bytes_eqb a' b'
  | _, _ => false
  end.
Definition db_cmatch (d : db) (slot : nat) (k : list Z) : option bool :=
  match db_cread d slot with
  | None => None
  | Some (k0, _) =>
    let b := fst (api_key (d_mode d) k0) in
    Some (if km_vnum (d_mode d)
          then (Nat.eqb (length k) 4 || Nat.eqb (length k) 8) && bytes_eqb b (le_encode 8 (le_decode k))
          else bytes_eqb b k)
  end.

(* iwkv_cursor_set: the record under the cursor gets a new value *)
Definition db_cset (d : db) (slot : nat) (v : value) : rcode * db :=
  match cur_get (d_curs d) slot with
  | None => (RInvalidArgs, d)
  | Some c =>
    match cursor_at c, cursor_read key value (d_chain d) c with
    | Some (id, i), Some (k, _) =>
      let ks := stored_size (d_mode d) k in
      if IW_VNUMSIZE ks + ks + Z.of_nat (length v) >? IWKV_MAX_KVSZ then (RMaxKvSz, d) else
      match upd_by_id key value (d_chain d) id i v with
      | Some c' => (ROk, mutated d c' (ChUpdate id))
      | None => (RNotFound, d) end
    | _, _ => (RNotFound, d)
    end
  end.

Definition db_cdel (d : db) (slot : nat) : rcode * db :=
  match cur_get (d_curs d) slot with
  | None => (RInvalidArgs, d)
  | Some c =>
    match cursor_at c with
    | Some (id, i) =>
      match del_by_id key value None (d_chain d) id i with
      | Some (c', ch) => (ROk, mutated d c' ch)
      | None => (RNotFound, d) end
    | None => (RNotFound, d)
    end
  end.

(* what the node structure dump of the implementation shows: per node the stored keys *)
Definition node_keys (m : kmode) (n : node key value) : list (list Z) :=
  map (fun e => stored m (fst (fst e)) (snd (fst e))) (snd n).
