Require Import List ZArith Bool Lia. Import ListNotations.
Require Import IW.KV.Head IW.Gen.Facts.
Local Open Scope Z_scope.

Lemma forallb_zero_map {A} (l : list A) : forallb (Z.eqb 0) (map (fun _ => 0) l) = true.
Proof. induction l as [|x l IH]; [reflexivity|]. cbn [map forallb]. rewrite IH. reflexivity. Qed.

Lemma zeros_are_map : forall (l s : list Z), forallb (Z.eqb 0) l = true -> length s = length l -> map (fun _ => 0) s = l.
Proof.
  induction l as [|x l IH]; intros [|y s] H HL; try discriminate; [reflexivity|].
  cbn [forallb] in H. apply andb_true_iff in H. destruct H as [H1 H2]. apply Z.eqb_eq in H1. subst x.
  cbn [map]. f_equal. apply IH; [exact H2|]. cbn [length] in HL. lia.
Qed.

(* whatever the slot held, what a zeroing reader hands back has no link behind the first zero *)
Lemma read_levels_clean : forall disk slot, length slot = length disk -> clean (read_levels true disk slot) = true.
Proof.
  induction disk as [|d ds IH]; intros [|s ss] HL; try discriminate; [reflexivity|].
  cbn [read_levels]. destruct (d =? 0) eqn:E.
  - cbn [clean]. rewrite Z.eqb_refl. apply forallb_zero_map.
  - cbn [clean]. rewrite E. apply IH. cbn [length] in HL. lia.
Qed.

(* and on a head that is clean on disk it reads exactly what is stored: writing all levels back changes nothing *)
Lemma read_levels_identity : forall disk slot, clean disk = true -> length slot = length disk -> read_levels true disk slot = disk.
Proof.
  induction disk as [|d ds IH]; intros [|s ss] HC HL; try discriminate; [reflexivity|].
  cbn [read_levels]. cbn [clean] in HC. cbn [length] in HL. destruct (d =? 0) eqn:E.
  - apply Z.eqb_eq in E. subst d. f_equal. apply zeros_are_map; [exact HC|lia].
  - f_equal. apply IH; [exact HC|lia].
Qed.

Lemma read_levels_length : forall z disk slot, length slot = length disk -> length (read_levels z disk slot) = length disk.
Proof.
  induction disk as [|d ds IH]; intros [|s ss] HL; try discriminate; [reflexivity|].
  cbn [read_levels]. cbn [length] in HL. destruct (d =? 0).
  - cbn [length]. f_equal. destruct z; [rewrite map_length|]; lia.
  - cbn [length]. f_equal. apply IH. lia.
Qed.

(* the reader of the current tree *)
Theorem head_read_clean disk slot : length slot = length disk -> clean (read_head disk slot) = true.
Proof. unfold read_head. change KV_HEAD_READ_ZEROES_REST with true. apply read_levels_clean. Qed.

Theorem head_read_identity disk slot : clean disk = true -> length slot = length disk -> read_head disk slot = disk.
Proof. unfold read_head. change KV_HEAD_READ_ZEROES_REST with true. apply read_levels_identity. Qed.

(* the reader before the repair 7cc8b6d: a clean head comes back with the slot's old links behind the first zero *)
Theorem head_read_stale_refuted :
  exists disk slot, clean disk = true /\ length slot = length disk /\
    clean (read_levels false disk slot) = false /\ read_levels false disk slot <> disk.
Proof. exists [9; 0; 0; 0], [7; 7; 514; 504]. repeat split; try reflexivity. discriminate. Qed.
