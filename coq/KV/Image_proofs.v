(* Field codecs of the file image: what the store writes (little-endian integers, variable-length numbers of the
   data-block index) is what the reader (KV/Audit.v, and iwkv.c on open) reads back. *)
Require Import List ZArith Bool Lia. Import ListNotations.
Require Import IW.Lib.CInt IW.Lib.Vnum IW.Lib.Vnum_proofs IW.KV.Audit IW.KV.Inst.
Local Open Scope Z_scope.
Ltac Zify.zify_post_hook ::= Z.div_mod_to_equations.

(* a byte function that holds the list `bs` at offset o *)
Definition holds (rd : Z -> Z) (o : Z) (bs : list Z) : Prop :=
  forall i, (i < length bs)%nat -> rd (o + Z.of_nat i) = nth i bs 0.

Lemma holds_cons rd o b bs : holds rd o (b :: bs) -> rd o = b /\ holds rd (o + 1) bs.
Proof.
  intros H. split.
  - specialize (H O ltac:(simpl; lia)). simpl in H. rewrite Z.add_0_r in H. exact H.
  - intros i Hi. specialize (H (S i) ltac:(simpl; lia)). rewrite Nat2Z.inj_succ in H.
    replace (o + 1 + Z.of_nat i) with (o + Z.succ (Z.of_nat i)) by lia. exact H.
Qed.

(* little endian *)
Lemma le_roundtrip : forall n v, 0 <= v < 256 ^ Z.of_nat n -> le_decode (le_encode n v) = v.
Proof.
  induction n as [|n IH]; intros v Hv.
  - simpl in *. lia.
  - cbn [le_encode le_decode]. rewrite IH.
    + pose proof (Z.div_mod v 256). lia.
    + rewrite Nat2Z.inj_succ, Z.pow_succ_r in Hv by lia. split; [apply Z.div_pos; lia|apply Z.div_lt_upper_bound; lia].
Qed.

Lemma u32_reads_le rd o v : 0 <= v < 2 ^ 32 -> holds rd o (le_encode 4 v) -> u32 rd o = v.
Proof.
  intros Hv H. unfold u32.
  pose proof (H 0%nat ltac:(simpl; lia)) as H0. pose proof (H 1%nat ltac:(simpl; lia)) as H1.
  pose proof (H 2%nat ltac:(simpl; lia)) as H2. pose proof (H 3%nat ltac:(simpl; lia)) as H3.
  change (Z.of_nat 0) with 0 in H0. change (Z.of_nat 1) with 1 in H1. change (Z.of_nat 2) with 2 in H2. change (Z.of_nat 3) with 3 in H3.
  rewrite Z.add_0_r in H0. rewrite H0, H1, H2, H3.
  pose proof (le_roundtrip 4 v ltac:(change (256 ^ Z.of_nat 4) with (2 ^ 32); lia)) as R.
  cbn [le_encode le_decode nth] in *. lia.
Qed.

(* variable-length numbers: the image reader agrees with the list reader of Lib/Vnum.v *)
Lemma vnum_at_reads : forall fuel bs rd o base acc step i,
  holds rd o bs -> (length bs <= fuel)%nat ->
  forall r, read_vnum_loop bs base acc i = Some r ->
  vnum_at rd fuel o base acc step = Some (fst r, step + Z.of_nat (snd r) - Z.of_nat i).
Proof.
  induction fuel as [|fuel IH]; intros bs rd o base acc step i Hh Hl r Hr.
  - destruct bs; simpl in *; [discriminate|lia].
  - destruct bs as [|b bs]; [simpl in Hr; discriminate|].
    apply holds_cons in Hh. destruct Hh as [Hb Hh]. cbn [vnum_at read_vnum_loop] in *. rewrite Hb.
    destruct (b <? 128).
    + inversion Hr; subst. simpl. f_equal. f_equal. lia.
    + rewrite (IH bs rd (o + 1) (base * 128) (acc + base * (255 - b)) (step + 1) (S i) Hh ltac:(simpl in Hl; lia) r Hr).
      f_equal. f_equal. lia.
Qed.

(* what _kvblk_sync_mm writes for an index entry is what _kvblk_at_mm / the auditor reads *)
Theorem rdv_reads_set_vnum64 rd o v :
  0 <= v < 2 ^ 63 -> holds rd o (set_vnum64 v) -> rdv rd o = Some (v, Z.of_nat (length (set_vnum64 v))).
Proof.
  intros Hv Hh. unfold rdv.
  destruct (vnum64_roundtrip v [] Hv) as [Hr _]. rewrite app_nil_r in Hr. unfold read_vnum in Hr.
  assert (Hlen : (length (set_vnum64 v) <= 10)%nat).
  { apply Nat2Z.inj_le. rewrite vnum64_size by exact Hv. unfold IW.Gen.Facts.IW_VNUMSIZE.
    repeat match goal with |- context [if ?c then _ else _] => destruct c end; simpl; lia. }
  rewrite (vnum_at_reads 10 (set_vnum64 v) rd o 1 0 0 O Hh Hlen _ Hr). simpl. f_equal. f_equal. lia.
Qed.
