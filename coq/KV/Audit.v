(* An independent reader of the file format (src/kv/data-format.txt, iwkv_internal.h offsets via Gen/Facts.v):
   walks the database chain, every skip-list level, every node and data block of a file image and checks
   what C06 states; computes the set of blocks those structures occupy and compares it with the
   allocator's bitmap.  The image is a byte-access function `rd` (0 beyond the end) so that the extracted
   auditor runs on real files.  Result: the list of complaints (empty = well-formed). *)
Require Import List ZArith Bool. Import ListNotations.
Require Import IW.Lib.CInt IW.Lib.Vnum IW.KV.Keys IW.Gen.Facts.
Local Open Scope Z_scope. Local Open Scope bool_scope.

Section Audit.
Variable rd : Z -> Z.
Variable fsize : Z.

Definition u8 (o : Z) : Z := rd o.
Definition u16 (o : Z) : Z := rd o + 256 * rd (o + 1).
Definition u32 (o : Z) : Z := rd o + 256 * (rd (o + 1) + 256 * (rd (o + 2) + 256 * rd (o + 3))).
Definition u64 (o : Z) : Z := u32 o + 4294967296 * u32 (o + 4).
Fixpoint bytes_at (n : nat) (o : Z) : list Z := match n with O => [] | S k => rd o :: bytes_at k (o + 1) end.

Definition BS : Z := 2 ^ IWKV_FSM_BPOW.                     (* block size *)
Definition addr_of (blk : Z) : Z := blk * BS.

(* variable-length number at offset o: (value, step); None = no terminator within 10 bytes *)
Fixpoint vnum_at (fuel : nat) (o base acc step : Z) : option (Z * Z) :=
  match fuel with
  | O => None
  | S f => let b := rd o in
           if b <? 128 then Some (acc + base * b, step + 1)
           else vnum_at f (o + 1) (base * 128) (acc + base * (255 - b)) (step + 1)
  end.
Definition rdv (o : Z) : option (Z * Z) := vnum_at 10 o 1 0 0.

Fixpoint bytes_eq (a b : list Z) : bool :=
  match a, b with [], [] => true | x :: a', y :: b' => (x =? y) && bytes_eq a' b' | _, _ => false end.
Definition list_eqz := bytes_eq.

(* complaints *)
Inductive complaint :=
| CBadMagic (what : Z) | CBadDb (addr : Z) | CChainLoop (db : Z) (lvl : Z)
| CNodeHeader (blk : Z) (what : Z) | CNodeEmpty (blk : Z) | CNodeSlots (blk : Z) (what : Z)
| CNodeOrder (blk : Z) | CGlobalOrder (blk : Z) | CPrefix (blk : Z)
| CBackLink (blk : Z) | CLevelChain (db : Z) (lvl : Z) | CLevelCount (db : Z) (lvl : Z)
| CKvblk (blk : Z) (what : Z) | CSlotOverlap (blk : Z)
| CBlocksOverlap (blk : Z) | CLeak (blk : Z) | CUnallocated (blk : Z) | CBeyondFile (blk : Z).

Record sblk := { s_blk : Z; s_flags : Z; s_lvl : Z; s_lkl : Z; s_pnum : Z; s_p0 : Z; s_kblk : Z;
                 s_pi : list Z; s_n : list Z; s_bpos : Z; s_lk : list Z }.

Definition NSLEV : nat := Z.to_nat SLEVELS.
Definition NIDXA : nat := Z.to_nat KVBLK_IDXNUM.

Fixpoint u32s (n : nat) (o : Z) : list Z := match n with O => [] | S k => u32 o :: u32s k (o + 4) end.

Definition read_sblk (blk : Z) : sblk :=
  let a := addr_of blk in
  {| s_blk := blk; s_flags := u8 (a + SOFF_FLAGS_U1); s_lvl := u8 (a + SOFF_LVL_U1); s_lkl := u8 (a + SOFF_LKL_U1);
     s_pnum := u8 (a + SOFF_PNUM_U1); s_p0 := u32 (a + SOFF_P0_U4); s_kblk := u32 (a + SOFF_KBLK_U4);
     s_pi := bytes_at NIDXA (a + SOFF_PI0_U1); s_n := u32s NSLEV (a + SOFF_N0_U4);
     s_bpos := u8 (a + SOFF_BPOS_U1_V2); s_lk := bytes_at (Z.to_nat (Z.min (u8 (a + SOFF_LKL_U1)) SBLK_LKLEN)) (a + SOFF_LK_V2) |}.

(* data block: szpow, idxsz, 32 (off, len) pairs; None = malformed index *)
Fixpoint read_pidx (n : nat) (o : Z) (acc : list (Z * Z)) : option (list (Z * Z) * Z) :=
  match n with
  | O => Some (rev acc, o)
  | S k => match rdv o with
           | None => None
           | Some (off, st1) => match rdv (o + st1) with
                                | None => None
                                | Some (len, st2) => read_pidx k (o + st1 + st2) ((off, len) :: acc)
                                end
           end
  end.
Record kvb := { k_szpow : Z; k_idxsz : Z; k_pidx : list (Z * Z); k_idxend : Z }.
Definition read_kvblk (blk : Z) : option kvb :=
  let a := addr_of blk in
  match read_pidx NIDXA (a + KVBLK_HDRSZ) [] with
  | None => None
  | Some (p, e) => Some {| k_szpow := u8 a; k_idxsz := u16 (a + 1); k_pidx := p; k_idxend := e - a |}
  end.

(* stored key of slot (off, len) of a data block at block number blk with size 2^szpow *)
Definition slot_key (blk szpow off len : Z) : option (list Z * Z) :=   (* key bytes, total header+key length *)
  let p := addr_of blk + 2 ^ szpow - off in
  match rdv p with
  | None => None
  | Some (klen, st) => if (klen <? 1) || (klen + st >? len) || (klen >? 70000) then None
                       else Some (bytes_at (Z.to_nat klen) (p + st), klen + st)
  end.

(* comparison of two STORED keys in scan order: Lt = a before b *)
Definition unstore (m : kmode) (s : list Z) : list Z * Z :=
  if km_compound m then
    match read_vnum s with Some (c, st) => (skipn st s, c) | None => (s, 0) end
  else (s, 0).
Definition stored_before (m : kmode) (a b : list Z) : bool :=
  let '(bd, bc) := unstore m b in cmp_keys memcmp m a bd bc <? 0.

Definition mode_of (dbflg : Z) : kmode :=
  {| km_vnum := negb (Z.land dbflg IWDB_VNUM64_KEYS =? 0); km_real := negb (Z.land dbflg IWDB_REALNUM_KEYS =? 0);
     km_compound := negb (Z.land dbflg IWDB_COMPOUND_KEYS =? 0) |}.

Fixpoint nthz (l : list Z) (i : nat) : Z := match l, i with x :: _, O => x | _ :: r, S k => nthz r k | [], _ => 0 end.
Fixpoint nthp (l : list (Z * Z)) (i : nat) : Z * Z := match l, i with x :: _, O => x | _ :: r, S k => nthp r k | [], _ => (0, 0) end.

(* strictly increasing by the given order *)
Fixpoint chain_ok (lt : list Z -> list Z -> bool) (l : list (list Z)) : bool :=
  match l with a :: ((b :: _) as r) => lt a b && chain_ok lt r | _ => true end.

Fixpoint distinct (l : list Z) : bool := match l with [] => true | x :: r => negb (existsb (Z.eqb x) r) && distinct r end.

(* insertion sort of ranges by start *)
Fixpoint ins_range (x : Z * Z) (l : list (Z * Z)) : list (Z * Z) :=
  match l with [] => [x] | y :: r => if fst x <=? fst y then x :: l else y :: ins_range x r end.
Definition sort_ranges (l : list (Z * Z)) : list (Z * Z) := fold_right ins_range [] l.
(* sorted ranges (start, len) are pairwise disjoint *)
Fixpoint ranges_disjoint (l : list (Z * Z)) : bool :=
  match l with
  | (s1, n1) :: (((s2, _) :: _) as r) => (s1 + n1 <=? s2) && ranges_disjoint r
  | _ => true
  end.
Fixpoint first_overlap (l : list (Z * Z)) : option Z :=
  match l with
  | (s1, n1) :: (((s2, _) :: _) as r) => if s1 + n1 <=? s2 then first_overlap r else Some s2
  | _ => None
  end.

(* one node: header sanity, slots, order inside, prefix; returns (complaints, stored keys in slot order, occupied ranges) *)
Definition audit_node (m : kmode) (s : sblk) : list complaint * list (list Z) * list (Z * Z) :=
  let b := s_blk s in
  let hdr :=
    (if (s_pnum s <? 1) then [CNodeEmpty b] else [])
    ++ (if (s_pnum s >? KVBLK_IDXNUM) then [CNodeHeader b 1] else [])
    ++ (if (s_lvl s >=? SLEVELS) then [CNodeHeader b 2] else [])
    ++ (if (s_bpos s <? 1) || (s_bpos s >? SBLK_PAGE_SBLK_NUM_V2) then [CNodeHeader b 3] else [])
    ++ (if negb (Z.land (s_flags s) (Z.lnot SBLK_FULL_LKEY) =? 0) then [CNodeHeader b 4] else [])
    ++ (if s_kblk s =? 0 then [CNodeHeader b 5] else []) in
  let pn := Z.to_nat (Z.min (Z.max (s_pnum s) 0) KVBLK_IDXNUM) in
  let pis := firstn pn (s_pi s) in
  match read_kvblk (s_kblk s) with
  | None => (hdr ++ [CKvblk (s_kblk s) 1], [], [])
  | Some kb =>
    let size := 2 ^ k_szpow kb in
    let kvc :=
      (if (k_szpow kb <? KVBLK_INISZPOW) || (k_szpow kb >? 40) then [CKvblk (s_kblk s) 2] else [])
      ++ (if negb (k_idxsz kb =? k_idxend kb - KVBLK_HDRSZ) then [CKvblk (s_kblk s) 3] else []) in
    let slots := map (fun i => nthp (k_pidx kb) (Z.to_nat i)) pis in
    let slotc :=
      (if negb (forallb (fun i => i <? KVBLK_IDXNUM) pis && distinct pis) then [CNodeSlots b 1] else [])
      ++ (if negb (forallb (fun ol => (0 <? snd ol) && (snd ol <=? fst ol) && (fst ol <=? size - KVBLK_HDRSZ - k_idxsz kb)) slots)
          then [CNodeSlots b 2] else [])
      (* slots used by the node = slots with a non-zero length in the block *)
      ++ (if negb (Z.of_nat (length (filter (fun ol => negb (snd ol =? 0)) (k_pidx kb))) =? Z.of_nat pn) then [CNodeSlots b 3] else [])
      ++ (if negb (ranges_disjoint (sort_ranges (map (fun ol => (fst ol - snd ol, snd ol)) slots))) then [CSlotOverlap (s_kblk s)] else []) in
    let keys := map (fun ol => match slot_key (s_kblk s) (k_szpow kb) (fst ol) (snd ol) with Some (k, _) => k | None => [] end) slots in
    let keyc :=
      (if negb (forallb (fun k => negb (Nat.eqb (length k) 0)) keys) then [CNodeSlots b 4] else [])
      ++ (if negb (chain_ok (stored_before m) keys) then [CNodeOrder b] else [])
      ++ (match keys with
          | k0 :: _ =>
            let want := firstn (Z.to_nat PREFIX_KEY_LEN_V2) k0 in
            let full := Z.of_nat (length k0) <=? PREFIX_KEY_LEN_V2 in
            if negb (bytes_eq (s_lk s) want && (s_lkl s =? Z.of_nat (length want))
                     && Bool.eqb (negb (Z.land (s_flags s) SBLK_FULL_LKEY =? 0)) full)
            then [CPrefix b] else []
          | [] => [] end) in
    (hdr ++ kvc ++ slotc ++ keyc, keys, [(s_kblk s, size / BS)])
  end.

(* walk a level chain starting at block `start`: list of block numbers, None on overflow of fuel (loop) *)
Fixpoint walk (fuel : nat) (lvl : nat) (blk : Z) (acc : list Z) : option (list Z) :=
  match fuel with
  | O => None
  | S f => if blk =? 0 then Some (rev acc)
           else walk f lvl (nthz (s_n (read_sblk blk)) lvl) (blk :: acc)
  end.

Definition page_of (s : sblk) : Z * Z :=      (* the node page the node lives in: (first block, blocks) *)
  (s_blk s - (s_bpos s - 1) * (SBLK_SZ / BS), SBLK_PAGE_SZ_V2 / BS).

Fixpoint dedup (l : list (Z * Z)) : list (Z * Z) :=
  match l with [] => [] | x :: r => if existsb (fun y => fst y =? fst x) r then dedup r else x :: dedup r end.

Fixpoint seqz (n : nat) (from : Z) : list Z := match n with O => [] | S k => from :: seqz k (from + 1) end.

(* one database at block dblk *)
Definition audit_db (fuel : nat) (dblk : Z) : list complaint * list (Z * Z) * Z :=
  let a := addr_of dblk in
  if negb (u32 (a + DOFF_MAGIC_U4) =? IWDB_MAGIC) then ([CBadDb dblk], [], 0) else
  let m := mode_of (u8 (a + DOFF_DBFLG_U1)) in
  let next := u32 (a + DOFF_NEXTDB_U4) in
  let dn := u32s NSLEV (a + DOFF_N0_U4) in
  let dc := u32s NSLEV (a + DOFF_C0_U4) in
  let metab := u32 (a + DOFF_METABLK_U4) in
  let metan := u32 (a + DOFF_METABLKN_U4) in
  match walk fuel 0 (nthz dn 0) [] with
  | None => ([CChainLoop dblk 0], [], next)
  | Some l0 =>
    let nodes := map read_sblk l0 in
    let per := map (audit_node m) nodes in
    let comps := concat (map (fun x => fst (fst x)) per) in
    let keyss := map (fun x => snd (fst x)) per in
    let kvranges := concat (map snd per) in
    (* global order: last key of a node before the first key of the next *)
    let bounds := concat (map (fun ks => match ks with [] => [] | k0 :: _ => [k0; last ks k0] end) keyss) in
    let glob := if chain_ok (fun x y => stored_before m x y || bytes_eq x y) bounds && chain_ok (stored_before m) (concat keyss)
                then [] else [CGlobalOrder dblk] in
    (* back links *)
    let prevs := dblk :: l0 in
    let back := concat (map (fun ps => if s_p0 (snd ps) =? fst ps then [] else [CBackLink (s_blk (snd ps))])
                            (combine prevs nodes)) in
    (* the tail link names the last node; with no node it is 0 or the head block itself (_sblk_at2 reads 0 as the head) *)
    let tailp := u32 (a + DOFF_P0_U4) in
    let tailc := match l0 with
                 | [] => if (tailp =? 0) || (tailp =? dblk) then [] else [CBackLink dblk]
                 | _ => if tailp =? last l0 0 then [] else [CBackLink dblk]
                 end in
    (* level chains = sublists of the level-0 chain with lvl >= i; counters = nodes with lvl = i *)
    let lvls := seq 0 NSLEV in
    let lvlc := concat (map (fun i =>
                  let want := map s_blk (filter (fun s => Z.of_nat i <=? s_lvl s) nodes) in
                  let got := walk fuel i (nthz dn i) [] in
                  (match got with
                   | None => [CChainLoop dblk (Z.of_nat i)]
                   | Some g => if list_eqz g want then [] else [CLevelChain dblk (Z.of_nat i)] end)
                  ++ (if nthz dc i =? Z.of_nat (length (filter (fun s => s_lvl s =? Z.of_nat i) nodes)) then []
                      else [CLevelCount dblk (Z.of_nat i)])) lvls) in
    let pages := dedup (map page_of nodes) in
    let occ := (dblk, DB_SZ / BS) :: (if metan =? 0 then [] else [(metab, metan)]) ++ pages ++ kvranges in
    (comps ++ glob ++ back ++ tailc ++ lvlc, occ, next)
  end.

Fixpoint audit_dbs (n : nat) (fuel : nat) (dblk : Z) : list complaint * list (Z * Z) :=
  match n with
  | O => ([CChainLoop 0 0], [])
  | S k => if dblk =? 0 then ([], [])
           else let '(c, occ, next) := audit_db fuel dblk in
                let '(c2, occ2) := audit_dbs k fuel next in (c ++ c2, occ ++ occ2)
  end.

(* bitmap bit of block i *)
Definition bm_bit (bmoff : Z) (i : Z) : bool := Z.testbit (rd (bmoff + i / 8)) (i mod 8).

(* walk the blocks [from, upto) against sorted disjoint occupied ranges *)
Fixpoint check_free (n : nat) (bmoff from : Z) : list complaint :=     (* n blocks from `from` must be free *)
  match n with O => [] | S k => (if bm_bit bmoff from then [CLeak from] else []) ++ check_free k bmoff (from + 1) end.
Fixpoint check_used (n : nat) (bmoff from : Z) : list complaint :=
  match n with O => [] | S k => (if bm_bit bmoff from then [] else [CUnallocated from]) ++ check_used k bmoff (from + 1) end.
Fixpoint check_map (bmoff : Z) (cur total : Z) (occ : list (Z * Z)) : list complaint :=
  match occ with
  | [] => check_free (Z.to_nat (total - cur)) bmoff cur
  | (s, n) :: r => check_free (Z.to_nat (s - cur)) bmoff cur ++ check_used (Z.to_nat n) bmoff s ++ check_map bmoff (s + n) total r
  end.

Definition HDRLEN : Z := IWFSM_CUSTOM_HDR_DATA_OFFSET + KVHDRSZ.

Definition audit : list complaint :=
  if negb (u32 0 =? IWFSM_MAGICK) then [CBadMagic 1] else
  if negb (u32 IWFSM_CUSTOM_HDR_DATA_OFFSET =? IWKV_MAGIC) then [CBadMagic 2] else
  if negb (u8 4 =? IWKV_FSM_BPOW) then [CBadMagic 3] else
  let bmoff := u64 5 in
  let bmlen := u64 13 in
  let first := u64 (IWFSM_CUSTOM_HDR_DATA_OFFSET + 4) / BS in
  let fuel := Z.to_nat (fsize / SBLK_SZ + 2) in
  let '(comps, occ) := audit_dbs 4096 fuel first in
  let hdrblocks := (HDRLEN + BS - 1) / BS in
  let all := sort_ranges ((0, hdrblocks) :: (bmoff / BS, bmlen / BS) :: occ) in
  let total := Z.min (bmlen * 8) (fsize / BS) in
  comps
  ++ (match first_overlap all with Some b => [CBlocksOverlap b] | None => [] end)
  ++ (if forallb (fun r => (fst r + snd r) * BS <=? fsize) all then [] else [CBeyondFile 0])
  ++ (if ranges_disjoint all then firstn 8 (check_map bmoff 0 total all) else []).
End Audit.
