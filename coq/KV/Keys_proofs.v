(* The byte-key comparator of plain databases (no VNUM/REALNUM/COMPOUND flag) is a strict total order
   with Eq only on identical keys: _cmp_keys = lexicographic comparison of byte strings. *)
Require Import ZArith List Bool Lia. Import ListNotations.
Require Import IW.Lib.CInt IW.Lib.Vnum IW.Lib.Vnum_proofs IW.KV.Keys IW.KV.Inst IW.Gen.Facts.
Local Open Scope Z_scope.

Definition plain : kmode := {| km_vnum := false; km_real := false; km_compound := false |}.

(* reference: lexicographic order, a proper prefix is smaller *)
Fixpoint bcmp (x y : list Z) : comparison :=
  match x, y with
  | [], [] => Eq
  | [], _ :: _ => Lt
  | _ :: _, [] => Gt
  | a :: x', b :: y' => if a =? b then bcmp x' y' else if a <? b then Lt else Gt
  end.

Lemma cmp2_zero_or_diff : forall a b, cmp2 a b = 0 \/ cmp2 a b <> 0.
Proof. intros. lia. Qed.

(* the C result: cmp2 over the common length, then the length difference *)
Definition craw (kd v1 : list Z) : Z :=
  let rv := cmp2 kd v1 in if rv =? 0 then Z.of_nat (length kd) - Z.of_nat (length v1) else rv.

Lemma craw_cons a kd b v1 : craw (a :: kd) (b :: v1) = if a =? b then craw kd v1 else a - b.
Proof.
  unfold craw. cbn [cmp2 length]. destruct (a =? b) eqn:E.
  - rewrite !Nat2Z.inj_succ. replace (Z.succ (Z.of_nat (length kd)) - Z.succ (Z.of_nat (length v1)))
      with (Z.of_nat (length kd) - Z.of_nat (length v1)) by lia. reflexivity.
  - destruct (a - b =? 0) eqn:E1; [lia|reflexivity].
Qed.
Lemma craw_nil_l v1 : craw [] v1 = - Z.of_nat (length v1).
Proof. unfold craw. destruct v1; cbn [cmp2]; rewrite Z.eqb_refl; cbn [length]; lia. Qed.
Lemma craw_nil_r kd : craw kd [] = Z.of_nat (length kd).
Proof. unfold craw. destruct kd; cbn [cmp2]; rewrite Z.eqb_refl; cbn [length]; lia. Qed.

Lemma craw_bcmp : forall kd v1,
  (craw kd v1 <? 0) = (match bcmp kd v1 with Lt => true | _ => false end) /\
  (craw kd v1 =? 0) = (match bcmp kd v1 with Eq => true | _ => false end).
Proof.
  induction kd as [|a kd IH]; intros [|b v1].
  - split; reflexivity.
  - rewrite craw_nil_l. cbn [bcmp length]. rewrite Nat2Z.inj_succ. split; [apply Z.ltb_lt; lia | apply Z.eqb_neq; lia].
  - rewrite craw_nil_r. cbn [bcmp length]. rewrite Nat2Z.inj_succ. split; [apply Z.ltb_ge; lia | apply Z.eqb_neq; lia].
  - rewrite craw_cons. cbn [bcmp]. destruct (a =? b) eqn:E; [apply IH|].
    destruct (a <? b) eqn:E2; split; try (apply Z.ltb_lt; lia); try (apply Z.ltb_ge; lia); apply Z.eqb_neq; lia.
Qed.

(* cmp_of for plain keys is bcmp on the data (stored key first, i.e. the order of a forward scan) *)
Lemma cmp_of_plain (a b : key) : cmp_of plain a b = bcmp (fst b) (fst a).
Proof.
  unfold cmp_of, kcmp, cmp_keys, cmp_keys_prefix, stored, plain. simpl.
  pose proof (craw_bcmp (fst b) (fst a)) as [H1 H2]. unfold craw in *.
  destruct (cmp2 (fst b) (fst a) =? 0) eqn:E0; simpl.
  - rewrite H1, H2. destruct (bcmp (fst b) (fst a)); reflexivity.
  - rewrite H1, H2. destruct (bcmp (fst b) (fst a)); reflexivity.
Qed.

Lemma bcmp_antisym : forall x y, bcmp x y = CompOpp (bcmp y x).
Proof.
  induction x as [|a x IH]; intros [|b y]; simpl; try reflexivity.
  destruct (a =? b) eqn:E.
  - assert (b =? a = true) by lia. rewrite H. apply IH.
  - assert (b =? a = false) by lia. rewrite H.
    destruct (a <? b) eqn:E1; destruct (b <? a) eqn:E2; try reflexivity; lia.
Qed.

Lemma bcmp_eq : forall x y, bcmp x y = Eq -> x = y.
Proof.
  induction x as [|a x IH]; intros [|b y]; simpl; try congruence.
  destruct (a =? b) eqn:E.
  - intros H. f_equal; [lia|apply IH; exact H].
  - destruct (a <? b); discriminate.
Qed.
Lemma bcmp_refl : forall x, bcmp x x = Eq.
Proof. induction x as [|a x IH]; simpl; [reflexivity|]. rewrite Z.eqb_refl. exact IH. Qed.

Lemma bcmp_trans : forall x y z, bcmp x y = Lt -> bcmp y z = Lt -> bcmp x z = Lt.
Proof.
  induction x as [|a x IH]; intros [|b y] [|c z]; simpl; try congruence.
  destruct (a =? b) eqn:E1; destruct (b =? c) eqn:E2.
  - assert (a =? c = true) by lia. rewrite H. apply IH.
  - assert (a =? c = false) by lia. rewrite H. assert (a = b) by lia. subst.
    intros _. destruct (b <? c); [reflexivity|discriminate].
  - assert (a =? c = false) by lia. rewrite H. assert (b = c) by lia. subst.
    destruct (a <? c); [reflexivity|discriminate].
  - destruct (a <? b) eqn:E3; [|discriminate]. destruct (b <? c) eqn:E4; [|discriminate].
    intros _ _. assert (a =? c = false) by lia. rewrite H. assert (a <? c = true) by lia. rewrite H0. reflexivity.
Qed.

(* the three laws the node model needs, for the comparator the store really uses on plain keys *)
Theorem plain_cmp_antisym : forall a b : key, cmp_of plain a b = CompOpp (cmp_of plain b a).
Proof. intros. rewrite !cmp_of_plain. apply bcmp_antisym. Qed.
Theorem plain_cmp_trans : forall a b c : key, cmp_of plain a b = Lt -> cmp_of plain b c = Lt -> cmp_of plain a c = Lt.
Proof.
  intros a b c. rewrite !cmp_of_plain. intros H1 H2.
  (* bcmp (fst b) (fst a) = Lt and bcmp (fst c) (fst b) = Lt *)
  eapply bcmp_trans; eauto.
Qed.
Theorem plain_cmp_lt_eq : forall a b c : key, cmp_of plain a b = Lt -> cmp_of plain b c = Eq -> cmp_of plain a c = Lt.
Proof.
  intros a b c. rewrite !cmp_of_plain. intros H1 H2. apply bcmp_eq in H2. rewrite H2. exact H1.
Qed.
Theorem plain_cmp_eq_iff : forall a b : key, cmp_of plain a b = Eq <-> fst a = fst b.
Proof.
  intros. rewrite cmp_of_plain. split; [intros H; symmetry; apply bcmp_eq; exact H|intros ->; apply bcmp_refl].
Qed.

(* ---- integer-key databases (IWDB_VNUM64_KEYS): the comparator orders stored keys by (encoded length, decoded value);
        that is a total preorder on arbitrary byte strings, and numeric order on valid encodings ---- *)
Definition vnummode : kmode := {| km_vnum := true; km_real := false; km_compound := false |}.

Definition vkey (k : key) : Z * Z :=
  let l := Z.of_nat (length (fst k)) in (l, if l >? IW_VNUMBUFSZ then 0 else read_vnum2 (fst k)).

(* scan order is DESCENDING: a comes before b iff a's (length, value) is greater *)
Definition pcmp (x y : Z * Z) : comparison :=
  if fst x >? fst y then Lt else if fst x <? fst y then Gt
  else if snd x >? snd y then Lt else if snd x <? snd y then Gt else Eq.

Lemma cmp_of_vnum (a b : key) : cmp_of vnummode a b = pcmp (vkey a) (vkey b).
Proof.
  unfold cmp_of, kcmp, cmp_keys, cmp_keys_prefix, stored, vnummode, vnum_cmp, vkey, pcmp, sgn3. cbn [km_vnum km_real km_compound fst snd andb negb orb].
  set (la := Z.of_nat (length (fst a))). set (lb := Z.of_nat (length (fst b))).
  rewrite Bool.andb_false_r. cbn [negb].
  destruct (lb =? la) eqn:E; cbn [negb orb].
  - assert (lb = la) by lia. 
    destruct (lb >? IW_VNUMBUFSZ) eqn:E1; cbn [orb].
    + assert (E2 : (la >? IW_VNUMBUFSZ) = true) by lia. rewrite E2.
      replace (lb - la) with 0 by lia. cbn.
      destruct (la >? lb) eqn:G1; [lia|]. destruct (la <? lb) eqn:G2; [lia|]. reflexivity.
    + destruct (la >? IW_VNUMBUFSZ) eqn:E2; [lia|]. cbn [orb].
      destruct (la >? lb) eqn:G1; [lia|]. destruct (la <? lb) eqn:G2; [lia|].
      destruct (read_vnum2 (fst a) >? read_vnum2 (fst b)) eqn:V1; [reflexivity|].
      destruct (read_vnum2 (fst a) <? read_vnum2 (fst b)) eqn:V2; reflexivity.
  - assert (lb <> la) by lia.
    destruct (la >? lb) eqn:G1.
    + assert (Hn : (lb - la <? 0) = true) by lia. rewrite Hn. reflexivity.
    + destruct (la <? lb) eqn:G2; [|lia].
      assert (Hn : (lb - la <? 0) = false) by lia. rewrite Hn.
      assert (Hz : (lb - la =? 0) = false) by lia. rewrite Hz. reflexivity.
Qed.

Lemma pcmp_antisym x y : pcmp x y = CompOpp (pcmp y x).
Proof.
  unfold pcmp. destruct x as [a b], y as [c d]; cbn [fst snd].
  destruct (a >? c) eqn:E1; destruct (c >? a) eqn:E2; destruct (a <? c) eqn:E3; destruct (c <? a) eqn:E4; try lia; try reflexivity.
  destruct (b >? d) eqn:F1; destruct (d >? b) eqn:F2; destruct (b <? d) eqn:F3; destruct (d <? b) eqn:F4; try lia; reflexivity.
Qed.
Lemma pcmp_lt x y : pcmp x y = Lt <-> (fst x > fst y \/ (fst x = fst y /\ snd x > snd y)).
Proof.
  unfold pcmp. destruct x as [a b], y as [c d]; cbn [fst snd].
  destruct (a >? c) eqn:E1; [split; [intros; lia|reflexivity]|].
  destruct (a <? c) eqn:E3; [split; [discriminate|intros; lia]|].
  destruct (b >? d) eqn:F1; [split; [intros; lia|reflexivity]|].
  destruct (b <? d) eqn:F3; split; try discriminate; intros; lia.
Qed.
Lemma pcmp_eq x y : pcmp x y = Eq <-> x = y.
Proof.
  unfold pcmp. destruct x as [a b], y as [c d]; cbn [fst snd].
  destruct (a >? c) eqn:E1; [split; [discriminate|intros H; inversion H; lia]|].
  destruct (a <? c) eqn:E3; [split; [discriminate|intros H; inversion H; lia]|].
  destruct (b >? d) eqn:F1; [split; [discriminate|intros H; inversion H; lia]|].
  destruct (b <? d) eqn:F3; [split; [discriminate|intros H; inversion H; lia]|].
  split; [intros _; f_equal; lia|reflexivity].
Qed.

Theorem vnum_cmp_antisym : forall a b : key, cmp_of vnummode a b = CompOpp (cmp_of vnummode b a).
Proof. intros. rewrite !cmp_of_vnum. apply pcmp_antisym. Qed.
Theorem vnum_cmp_trans : forall a b c : key, cmp_of vnummode a b = Lt -> cmp_of vnummode b c = Lt -> cmp_of vnummode a c = Lt.
Proof. intros a b c. rewrite !cmp_of_vnum, !pcmp_lt. lia. Qed.
Theorem vnum_cmp_lt_eq : forall a b c : key, cmp_of vnummode a b = Lt -> cmp_of vnummode b c = Eq -> cmp_of vnummode a c = Lt.
Proof. intros a b c. rewrite !cmp_of_vnum. intros H1 H2. apply pcmp_eq in H2. rewrite <- H2. exact H1. Qed.

(* on valid encodings the order is numeric order (descending scan = greater number first) *)
Theorem vnum_cmp_numeric : forall x y : Z, 0 <= x < 2 ^ 63 -> 0 <= y < 2 ^ 63 ->
  (cmp_of vnummode (set_vnum64 x, 0) (set_vnum64 y, 0) = Lt <-> x > y).
Proof.
  intros x y Hx Hy. rewrite cmp_of_vnum, pcmp_lt. unfold vkey. cbn [fst snd].
  assert (Hr : forall n, 0 <= n < 2 ^ 63 -> read_vnum2 (set_vnum64 n) = n).
  { intros n Hn. unfold read_vnum2. destruct (vnum64_roundtrip n [] Hn) as [H _]. rewrite app_nil_r in H. rewrite H. reflexivity. }
  assert (Hl : forall n, 0 <= n < 2 ^ 63 -> (Z.of_nat (length (set_vnum64 n)) >? IW_VNUMBUFSZ) = false).
  { intros n Hn. rewrite vnum64_size by exact Hn. unfold IW_VNUMSIZE, IW_VNUMBUFSZ.
    repeat match goal with |- context [if ?c then _ else _] => destruct c end; reflexivity. }
  rewrite (Hl x Hx), (Hl y Hy), (Hr x Hx), (Hr y Hy).
  destruct (Z_le_gt_dec x y) as [Hle|Hgt].
  - pose proof (vnum64_len_monotone x y ltac:(lia) ltac:(lia)) as Hm. split; [intros; lia|lia].
  - pose proof (vnum64_len_monotone y x ltac:(lia) ltac:(lia)) as Hm. split; [intros _; lia|intros _].
    destruct (Z.eq_dec (Z.of_nat (length (set_vnum64 x))) (Z.of_nat (length (set_vnum64 y)))); [right; lia|left; lia].
Qed.
