(* L1 model of a database: the level-0 chain of skip-list nodes, each a list of at most KVBLK_IDXNUM
   records in slot order, each node tagged with an identity (its block).  Mirrors _lx_find_bounds
   (which node), _sblk_find_pi_mm (where in the node), _lx_addkv (overwrite / add / add-to-upper /
   split at the pivot) and _lx_del_lw (remove record / remove node) of src/kv/iwkv.c.  Skip-list levels
   do not influence which node a record lands in, so they are not part of this layer.  Every mutation
   also reports a `change`, from which the cursor fix-up loops (KV/Cursor.v) are driven. *)
Require Import List ZArith Bool. Import ListNotations.

Section Node.
Variables K V : Type.
Variable cmp : K -> K -> comparison.
Variable IDXNUM : nat.   (* KVBLK_IDXNUM *)
Variable PIVOT : nat.    (* (KVBLK_IDXNUM / 2) + 1 *)

Definition recs := list (K * V).
Definition node := (nat * recs)%type.        (* identity, records *)
Definition chain := list node.

(* _sblk_find_pi_mm: number of records strictly before k, and whether the record at that slot is k *)
Fixpoint pos (n : recs) (k : K) : nat :=
  match n with
  | [] => O
  | (k', _) :: r => match cmp k' k with Lt => S (pos r k) | _ => O end
  end.
Definition found_at (n : recs) (k : K) (i : nat) : bool :=
  match nth_error n i with Some (k', _) => match cmp k' k with Eq => true | _ => false end | None => false end.

Fixpoint insert_at (n : recs) (i : nat) (e : K * V) : recs :=
  match i, n with
  | O, _ => e :: n
  | S j, x :: r => x :: insert_at r j e
  | S _, [] => [e]
  end.
Fixpoint update_at (n : recs) (i : nat) (v : V) : recs :=
  match i, n with
  | O, (k, _) :: r => (k, v) :: r
  | S j, x :: r => x :: update_at r j v
  | _, [] => []
  end.
Fixpoint remove_at (n : recs) (i : nat) : recs :=
  match i, n with
  | O, _ :: r => r
  | S j, x :: r => x :: remove_at r j
  | _, [] => []
  end.

(* a node whose first key is before-or-equal k is a candidate for `lower` (_lx_roll_forward moves on) *)
Definition first_le (n : recs) (k : K) : bool :=
  match n with (k', _) :: _ => match cmp k' k with Gt => false | _ => true end | [] => false end.

Inductive pres := POk | PExists | PErr.    (* ok / IWKV_ERROR_KEY_EXISTS / value-level error *)

(* what happened, for the cursor fix-ups. Node references are identities; `None` = the database head *)
Inductive change :=
| ChNone
| ChUpdate (id : nat)                                     (* _sblk_updatekv on node id *)
| ChInsert (id : nat) (idx : nat)                         (* _sblk_addkv/_sblk_addkv2 on node id at slot idx *)
| ChSplit (sid : option nat) (nid : nat) (uside : bool) (upper : option nat) (tgt : nat) (idx : nat)
    (* _lx_split_addkv: split node sid (None = head), new node nid, following node `upper`;
       then the key was inserted into node tgt at slot idx *)
| ChRemove (id : nat) (idx : nat)                         (* _sblk_rmkv *)
| ChRemoveNode (id : nat) (prev next : option nat).       (* _lx_del_sblk_lw: node id removed *)

(* what an overwrite does with the old value: Some new value, or None = error *)
Variable upd : V -> V -> option V.

Definition nid_of (rest : chain) : option nat := match rest with (i, _) :: _ => Some i | [] => None end.

(* _lx_addkv on `lower` (a real node) with `rest` the following nodes; `fresh` = identity for a new node *)
Definition put_in (fresh : nat) (lower : node) (rest : chain) (k : K) (v : V) (noover : bool) (newok : bool)
  : pres * chain * change :=
  let '(lid, lrecs) := lower in
  let idx := pos lrecs k in
  if found_at lrecs k idx then
    if noover then (PExists, lower :: rest, ChNone)
    else match nth_error lrecs idx with
         | Some (_, old) => match upd old v with
                            | Some nv => (POk, (lid, update_at lrecs idx nv) :: rest, ChUpdate lid)
                            | None => (PErr, lower :: rest, ChNone)
                            end
         | None => (PErr, lower :: rest, ChNone)
         end
  else if negb newok then (PErr, lower :: rest, ChNone)           (* failing put-handler on a new key *)
  else if Nat.ltb (length lrecs) IDXNUM then (POk, (lid, insert_at lrecs idx (k, v)) :: rest, ChInsert lid idx)
  else
    match rest with
    | (uid, urecs) :: rest' =>
      if Nat.eqb idx IDXNUM && Nat.ltb (length urecs) IDXNUM then
        (POk, lower :: (uid, insert_at urecs (pos urecs k) (k, v)) :: rest', ChInsert uid (pos urecs k))
      else if Nat.eqb idx (length lrecs) then
        (POk, lower :: (fresh, [(k, v)]) :: rest, ChSplit (Some lid) fresh true (Some uid) fresh 0)
      else
        let keep := firstn PIVOT lrecs in
        let moved := skipn PIVOT lrecs in
        if Nat.ltb PIVOT idx then
          (POk, (lid, keep) :: (fresh, insert_at moved (pos moved k) (k, v)) :: rest,
           ChSplit (Some lid) fresh false (Some uid) fresh (pos moved k))
        else (POk, (lid, insert_at keep (pos keep k) (k, v)) :: (fresh, moved) :: rest,
              ChSplit (Some lid) fresh false (Some uid) lid (pos keep k))
    | [] =>
      if Nat.eqb idx (length lrecs) then
        (POk, lower :: (fresh, [(k, v)]) :: rest, ChSplit (Some lid) fresh true None fresh 0)
      else
        let keep := firstn PIVOT lrecs in
        let moved := skipn PIVOT lrecs in
        if Nat.ltb PIVOT idx then
          (POk, (lid, keep) :: (fresh, insert_at moved (pos moved k) (k, v)) :: rest,
           ChSplit (Some lid) fresh false None fresh (pos moved k))
        else (POk, (lid, insert_at keep (pos keep k) (k, v)) :: (fresh, moved) :: rest,
              ChSplit (Some lid) fresh false None lid (pos keep k))
    end.

(* _lx_find_bounds at level 0, then put_in *)
Fixpoint put_nodes (fresh : nat) (lower : node) (rest : chain) (k : K) (v : V) (noover newok : bool)
  : pres * chain * change :=
  match rest with
  | nx :: rest' =>
    if first_le (snd nx) k then
      let '(r, c, ch) := put_nodes fresh nx rest' k v noover newok in (r, lower :: c, ch)
    else put_in fresh lower rest k v noover newok
  | [] => put_in fresh lower [] k v noover newok
  end.

(* the database head block behaves as a full node with no records: idx = IDXNUM, never found *)
Definition put_chain (fresh : nat) (c : chain) (k : K) (v : V) (noover newok : bool) : pres * chain * change :=
  match c with
  | [] => if newok then (POk, [(fresh, [(k, v)])], ChSplit None fresh true None fresh 0) else (PErr, [], ChNone)
  | (i0, r0) :: rest =>
    if first_le r0 k then put_nodes fresh (i0, r0) rest k v noover newok
    else if negb newok then (PErr, c, ChNone)
    else if Nat.ltb (length r0) IDXNUM then
      (POk, (i0, insert_at r0 (pos r0 k) (k, v)) :: rest, ChInsert i0 (pos r0 k))
    else (POk, (fresh, [(k, v)]) :: c, ChSplit None fresh true (Some i0) fresh 0)
  end.

(* look-up: the node that would hold k (`lower`), None = the head *)
Fixpoint lower_nodes (lower : node) (rest : chain) (k : K) : node :=
  match rest with
  | nx :: rest' => if first_le (snd nx) k then lower_nodes nx rest' k else lower
  | [] => lower
  end.
Definition lower_of (c : chain) (k : K) : option node :=
  match c with
  | [] => None
  | n0 :: rest => if first_le (snd n0) k then Some (lower_nodes n0 rest k) else None
  end.
Definition get_chain (c : chain) (k : K) : option V :=
  match lower_of c k with
  | Some (_, r) => let i := pos r k in if found_at r k i then option_map snd (nth_error r i) else None
  | None => None
  end.

(* removal of the record of node `lower` at slot i (used by iwkv_del and iwkv_cursor_del) *)
Definition del_at (prev : option nat) (lower : node) (rest : chain) (i : nat) : chain * change :=
  let '(lid, lrecs) := lower in
  if Nat.eqb (length lrecs) 1 then (rest, ChRemoveNode lid prev (nid_of rest))
  else ((lid, remove_at lrecs i) :: rest, ChRemove lid i).

Fixpoint del_nodes (prev : option nat) (lower : node) (rest : chain) (k : K) : option (chain * change) :=
  match rest with
  | nx :: rest' =>
    if first_le (snd nx) k then
      match del_nodes (Some (fst lower)) nx rest' k with
      | Some (c, ch) => Some (lower :: c, ch)
      | None => None end
    else let i := pos (snd lower) k in
         if found_at (snd lower) k i then Some (del_at prev lower rest i) else None
  | [] => let i := pos (snd lower) k in
          if found_at (snd lower) k i then Some (del_at prev lower [] i) else None
  end.
Definition del_chain (c : chain) (k : K) : option (chain * change) :=
  match c with
  | [] => None
  | n0 :: rest => if first_le (snd n0) k then del_nodes None n0 rest k else None
  end.

(* positional access used by cursors: node by identity with its neighbours *)
Fixpoint find_node (prev : option nat) (c : chain) (id : nat) : option (option nat * recs * option nat) :=
  match c with
  | [] => None
  | (i, r) :: rest => if Nat.eqb i id then Some (prev, r, nid_of rest) else find_node (Some i) rest id
  end.
Fixpoint del_by_id (prev : option nat) (c : chain) (id : nat) (i : nat) : option (chain * change) :=
  match c with
  | [] => None
  | (j, r) :: rest =>
    if Nat.eqb j id then (if Nat.ltb i (length r) then Some (del_at prev (j, r) rest i) else None)
    else match del_by_id (Some j) rest id i with
         | Some (c', ch) => Some ((j, r) :: c', ch)
         | None => None end
  end.
Fixpoint upd_by_id (c : chain) (id : nat) (i : nat) (v : V) : option chain :=
  match c with
  | [] => None
  | (j, r) :: rest =>
    if Nat.eqb j id then (if Nat.ltb i (length r) then Some ((j, update_at r i v) :: rest) else None)
    else option_map (cons (j, r)) (upd_by_id rest id i v)
  end.

Definition flat (c : chain) : list (K * V) := concat (map snd c).
Definition last_id (c : chain) : option nat := match rev c with (i, _) :: _ => Some i | [] => None end.
End Node.
