(* Proofs about the L1 node model: every put / get / del on a chain of nodes is the corresponding
   operation of the ordered association-list specification on the flattened chain, and the
   structural invariant (nodes non-empty, at most IDXNUM records, globally sorted) is preserved. *)
Require Import List ZArith Bool Lia Sorted. Import ListNotations.
Require Import IW.KV.Node IW.KV.Spec.

Section NodeProofs.
Variables K V : Type.
Variable cmp : K -> K -> comparison.
Variable IDXNUM PIVOT : nat.
Variable upd : V -> V -> option V.

(* the comparator is a total preorder whose Eq classes are respected by Lt (for the byte-key comparator of
   plain databases this is proved in KV/Keys_proofs.v, with Eq only on identical keys; here section hypotheses) *)
Hypothesis cmp_lt_eq : forall a b c, cmp a b = Lt -> cmp b c = Eq -> cmp a c = Lt.
Hypothesis cmp_antisym : forall a b, cmp a b = CompOpp (cmp b a).
Hypothesis cmp_trans : forall a b c, cmp a b = Lt -> cmp b c = Lt -> cmp a c = Lt.
Hypothesis pivot_ok : 1 <= PIVOT /\ PIVOT < IDXNUM.

Notation recs := (recs K V).
Notation node := (node K V).
Notation chain := (chain K V).
Notation pos := (pos K V cmp).
Notation found_at := (found_at K V cmp).
Notation insert_at := (insert_at K V).
Notation update_at := (update_at K V).
Notation remove_at := (remove_at K V).
Notation first_le := (first_le K V cmp).
Notation flat := (flat K V).
Notation s_put := (s_put K V cmp).
Notation s_get := (s_get K V cmp).
Notation s_del := (s_del K V cmp).

Definition klt (a b : K * V) : Prop := cmp (fst a) (fst b) = Lt.
Definition sorted (l : recs) : Prop := StronglySorted klt l.
Definition all_lt (l : recs) (k : K) : Prop := Forall (fun e => cmp (fst e) k = Lt) l.
Definition head_gt (l : recs) (k : K) : Prop := match l with [] => True | e :: _ => cmp (fst e) k = Gt end.

Lemma cmp_gt_lt a b : cmp a b = Gt -> cmp b a = Lt.
Proof. intros H. rewrite cmp_antisym, H. reflexivity. Qed.
Lemma cmp_lt_gt a b : cmp a b = Lt -> cmp b a = Gt.
Proof. intros H. rewrite cmp_antisym, H. reflexivity. Qed.
Lemma cmp_lt_le_trans a b c : cmp a b = Lt -> cmp b c <> Gt -> cmp a c = Lt.
Proof.
  intros H1 H2. destruct (cmp b c) eqn:E; try congruence.
  - eapply cmp_lt_eq; eauto.
  - eapply cmp_trans; eauto.
Qed.

(* ---- basic list facts ---- *)
Lemma insert_at_length (n : recs) i e : length (insert_at n i e) = S (length n).
Proof. revert i; induction n as [|x r IH]; intros [|j]; simpl; try reflexivity. now rewrite IH. Qed.

Lemma insert_at_end (n : recs) e : insert_at n (length n) e = n ++ [e].
Proof. induction n as [|x r IH]; simpl; [reflexivity|now rewrite IH]. Qed.

Lemma insert_at_app_r (a b : recs) i e : insert_at (a ++ b) (length a + i) e = a ++ insert_at b i e.
Proof. induction a as [|x r IH]; simpl; [reflexivity|now rewrite IH]. Qed.

Lemma insert_at_app_l (a b : recs) i e : i <= length a -> insert_at (a ++ b) i e = insert_at a i e ++ b.
Proof.
  revert i; induction a as [|x r IH]; intros i Hi; simpl in *.
  - assert (i = 0) by lia. subst. destruct b; reflexivity.
  - destruct i as [|j]; [reflexivity|]. simpl. rewrite IH by lia. reflexivity.
Qed.

Lemma update_at_app_l (a b : recs) i v : i < length a -> update_at (a ++ b) i v = update_at a i v ++ b.
Proof.
  revert i; induction a as [|x r IH]; intros i Hi; simpl in *; [lia|].
  destruct i as [|j]; destruct x as [k0 v0]; [reflexivity|]. simpl. rewrite IH by lia. reflexivity.
Qed.

Lemma update_at_length (n : recs) i v : length (update_at n i v) = length n.
Proof. revert i; induction n as [|[k0 v0] r IH]; intros [|j]; simpl; try reflexivity. now rewrite IH. Qed.

Lemma pos_le_length (n : recs) k : pos n k <= length n.
Proof. induction n as [|[k0 v0] r IH]; simpl; [lia|]. destruct (cmp k0 k); simpl; lia. Qed.

Lemma pos_all_lt (n : recs) k : all_lt (firstn (pos n k) n) k.
Proof.
  induction n as [|[k0 v0] r IH]; simpl; [constructor|].
  destruct (cmp k0 k) eqn:E; simpl; try constructor; auto.
Qed.

Lemma pos_full (n : recs) k : pos n k = length n -> all_lt n k.
Proof. intros H. pose proof (pos_all_lt n k) as P. rewrite H, firstn_all in P. exact P. Qed.

Lemma pos_of_all_lt (a b : recs) k : all_lt a k -> pos (a ++ b) k = length a + pos b k.
Proof.
  induction a as [|[k0 v0] r IH]; intros H; simpl; [reflexivity|].
  inversion H as [|x l Hx Hl]; subst. simpl in Hx. rewrite Hx. rewrite IH by exact Hl. reflexivity.
Qed.

Lemma pos_stop (n : recs) k : pos n k < length n ->
  exists e, nth_error n (pos n k) = Some e /\ cmp (fst e) k <> Lt.
Proof.
  induction n as [|[k0 v0] r IH]; simpl; intros H; [lia|].
  destruct (cmp k0 k) eqn:E; simpl.
  - exists (k0, v0). simpl. split; [reflexivity|congruence].
  - destruct IH as [e [He Hc]]; [lia|]. exists e. auto.
  - exists (k0, v0). simpl. split; [reflexivity|congruence].
Qed.

Lemma pos_skipn (n : recs) k j : j <= pos n k -> pos (skipn j n) k = pos n k - j.
Proof.
  revert j; induction n as [|[k0 v0] r IH]; intros j Hj; simpl in *.
  - destruct j; reflexivity.
  - destruct j as [|j]; [simpl; lia|].
    destruct (cmp k0 k) eqn:E; simpl in *; try lia.
    rewrite IH by lia. reflexivity.
Qed.

Lemma pos_firstn (n : recs) k j : pos n k <= j -> pos (firstn j n) k = pos n k.
Proof.
  revert j; induction n as [|[k0 v0] r IH]; intros j Hj; simpl in *.
  - destruct j; reflexivity.
  - destruct (cmp k0 k) eqn:E; simpl in *.
    + destruct j; simpl; [reflexivity|rewrite E; reflexivity].
    + destruct j as [|j]; [lia|]. simpl. rewrite E. rewrite IH by lia. reflexivity.
    + destruct j; simpl; [reflexivity|rewrite E; reflexivity].
Qed.

(* ---- the specification seen through pos / found_at ---- *)
Lemma s_put_pos (r : recs) k v :
  s_put r k v = if found_at r k (pos r k) then update_at r (pos r k) v else insert_at r (pos r k) (k, v).
Proof.
  induction r as [|[k0 v0] r IH]; simpl; [reflexivity|].
  destruct (cmp k0 k) eqn:E; simpl.
  - unfold found_at. simpl. rewrite E. reflexivity.
  - rewrite IH. unfold found_at. simpl. destruct (nth_error r (pos r k)) as [[k1 v1]|]; [|reflexivity].
    destruct (cmp k1 k); reflexivity.
  - unfold found_at. simpl. rewrite E. reflexivity.
Qed.

Lemma s_get_in_node (r : recs) k :
  s_get r k = if found_at r k (pos r k) then option_map snd (nth_error r (pos r k)) else None.
Proof.
  induction r as [|[k0 v0] r IH]; simpl; [reflexivity|].
  destruct (cmp k0 k) eqn:E; unfold found_at; simpl; rewrite ?E; try reflexivity.
  rewrite IH. unfold found_at. reflexivity.
Qed.

Lemma s_del_pos (r : recs) k :
  s_del r k = if found_at r k (pos r k) then remove_at r (pos r k) else r.
Proof.
  induction r as [|[k0 v0] r IH]; simpl; [reflexivity|].
  destruct (cmp k0 k) eqn:E; unfold found_at; simpl; rewrite ?E; try reflexivity.
  rewrite IH. unfold found_at. destruct (nth_error r (pos r k)) as [[k1 v1]|]; [|reflexivity].
  destruct (cmp k1 k); reflexivity.
Qed.

(* skipping a prefix of records that all come before k *)
Lemma s_put_app_lt (a b : recs) k v : all_lt a k -> s_put (a ++ b) k v = a ++ s_put b k v.
Proof.
  induction a as [|[k0 v0] r IH]; intros H; simpl; [reflexivity|].
  inversion H as [|x l Hx Hl]; subst. simpl in Hx. rewrite Hx, IH by exact Hl. reflexivity.
Qed.
Lemma s_get_app_lt (a b : recs) k : all_lt a k -> s_get (a ++ b) k = s_get b k.
Proof.
  induction a as [|[k0 v0] r IH]; intros H; simpl; [reflexivity|].
  inversion H as [|x l Hx Hl]; subst. simpl in Hx. rewrite Hx, IH by exact Hl. reflexivity.
Qed.
Lemma s_del_app_lt (a b : recs) k : all_lt a k -> s_del (a ++ b) k = a ++ s_del b k.
Proof.
  induction a as [|[k0 v0] r IH]; intros H; simpl; [reflexivity|].
  inversion H as [|x l Hx Hl]; subst. simpl in Hx. rewrite Hx, IH by exact Hl. reflexivity.
Qed.

(* the record falls into (or right behind) the first part when the rest starts after k *)
Lemma s_put_app_in (a b : recs) k v : head_gt b k -> s_put (a ++ b) k v = s_put a k v ++ b.
Proof.
  intros Hb. induction a as [|[k0 v0] r IH]; simpl.
  - destruct b as [|[k1 v1] b']; simpl; [reflexivity|]. simpl in Hb. rewrite Hb. reflexivity.
  - destruct (cmp k0 k); simpl; [reflexivity|rewrite IH; reflexivity|reflexivity].
Qed.
Lemma s_get_app_in (a b : recs) k : head_gt b k -> s_get (a ++ b) k = s_get a k.
Proof.
  intros Hb. induction a as [|[k0 v0] r IH]; simpl.
  - destruct b as [|[k1 v1] b']; simpl; [reflexivity|]. simpl in Hb. rewrite Hb. reflexivity.
  - destruct (cmp k0 k); simpl; [reflexivity|rewrite IH; reflexivity|reflexivity].
Qed.
Lemma s_del_app_in (a b : recs) k : head_gt b k -> s_del (a ++ b) k = s_del a k ++ b.
Proof.
  intros Hb. induction a as [|[k0 v0] r IH]; simpl.
  - destruct b as [|[k1 v1] b']; simpl; [reflexivity|]. simpl in Hb. rewrite Hb. reflexivity.
  - destruct (cmp k0 k); simpl; [reflexivity|rewrite IH; reflexivity|reflexivity].
Qed.

Lemma s_get_head_gt (l : recs) k : head_gt l k -> s_get l k = None.
Proof. destruct l as [|[k1 v1] l]; simpl; [reflexivity|]. intros H. rewrite H. reflexivity. Qed.
Lemma s_del_head_gt (l : recs) k : head_gt l k -> s_del l k = l.
Proof. destruct l as [|[k1 v1] l]; simpl; [reflexivity|]. intros H. rewrite H. reflexivity. Qed.

Lemma s_del_none (l : recs) k : s_get l k = None -> s_del l k = l.
Proof.
  induction l as [|[k0 v0] l IH]; simpl; [reflexivity|].
  destruct (cmp k0 k); [discriminate| |reflexivity]. intros H. rewrite IH by exact H. reflexivity.
Qed.

(* ---- sortedness ---- *)
Lemma sorted_app_inv (a b : recs) : sorted (a ++ b) ->
  sorted a /\ sorted b /\ forall x y, In x a -> In y b -> klt x y.
Proof.
  induction a as [|x a IH]; simpl; intros H.
  - repeat split; [constructor|exact H|intros ? ? []].
  - inversion H as [|? ? Hs Hf]; subst. destruct (IH Hs) as [Ha [Hb Hab]].
    rewrite Forall_app in Hf. destruct Hf as [Hfa Hfb].
    repeat split; [constructor; assumption|assumption|].
    intros x0 y [<-|Hin] Hy; [rewrite Forall_forall in Hfb; auto|auto].
Qed.

Lemma sorted_first_lt_all (a : recs) (e : K * V) k :
  sorted (a ++ [e]) -> cmp (fst e) k <> Gt -> all_lt a k.
Proof.
  intros Hs He. apply sorted_app_inv in Hs. destruct Hs as [_ [_ H]].
  apply Forall_forall. intros x Hx. eapply cmp_lt_le_trans; [apply (H x e Hx); left; reflexivity|exact He].
Qed.

Lemma first_le_spec (n : recs) k : first_le n k = true ->
  exists e r, n = e :: r /\ cmp (fst e) k <> Gt.
Proof.
  destruct n as [|[k0 v0] r]; simpl; [discriminate|]. intros H.
  exists (k0, v0), r. split; [reflexivity|]. simpl. destruct (cmp k0 k); congruence.
Qed.
Lemma first_le_false (n : recs) k : n <> [] -> first_le n k = false -> head_gt n k.
Proof.
  destruct n as [|[k0 v0] r]; simpl; [congruence|]. intros _ H. destruct (cmp k0 k); congruence.
Qed.

(* all records of a sorted prefix come before k when the next node starts at or before k *)
Lemma prefix_all_lt (a n : recs) k : sorted (a ++ n) -> first_le n k = true -> all_lt a k.
Proof.
  intros Hs Hf. destruct (first_le_spec _ _ Hf) as [e [r [-> He]]].
  apply sorted_app_inv in Hs. destruct Hs as [_ [_ H]].
  apply Forall_forall. intros x Hx. eapply cmp_lt_le_trans; [apply (H x e Hx); left; reflexivity|exact He].
Qed.

(* ---- structural part of the invariant ---- *)
Definition node_ok (n : node) : Prop := snd n <> [] /\ length (snd n) <= IDXNUM.
Definition NodeInv (c : chain) : Prop := Forall node_ok c /\ sorted (flat c).

Ltac okf := repeat first [assumption | apply Forall_nil | apply Forall_cons | solve [auto]].

Lemma flat_cons (n : node) (c : chain) : flat (n :: c) = snd n ++ flat c.
Proof. reflexivity. Qed.

(* specification of one put at the level of the flattened chain *)
Definition spec_put (l : recs) (k : K) (v : V) (noover newok : bool) : pres * recs :=
  match s_get l k with
  | Some old => if noover then (PExists, l)
                else match upd old v with Some nv => (POk, s_put l k nv) | None => (PErr, l) end
  | None => if newok then (POk, s_put l k v) else (PErr, l)
  end.

Lemma found_nth (r : recs) k : found_at r k (pos r k) = true ->
  exists k1 v0, nth_error r (pos r k) = Some (k1, v0) /\ s_get r k = Some v0.
Proof.
  intros H. rewrite s_get_in_node, H. unfold found_at in H.
  destruct (nth_error r (pos r k)) as [[k1 v1]|] eqn:E; [|discriminate].
  exists k1, v1. auto.
Qed.
Lemma notfound_get (r : recs) k : found_at r k (pos r k) = false -> s_get r k = None.
Proof. intros H. rewrite s_get_in_node, H. reflexivity. Qed.

(* put_in: the node `lower` is the right one (rest starts after k) *)
Lemma put_in_flat fresh lid lrecs rest k v noover newok r c' ch :
  head_gt (flat rest) k ->
  Forall node_ok ((lid, lrecs) :: rest) ->
  put_in K V cmp IDXNUM PIVOT upd fresh (lid, lrecs) rest k v noover newok = (r, c', ch) ->
  (r, flat c') = (fst (spec_put lrecs k v noover newok), snd (spec_put lrecs k v noover newok) ++ flat rest)
  /\ Forall node_ok c'.
Proof.
  intros Hg Hok. unfold put_in, spec_put.
  inversion Hok as [|? ? Hl Hrest]; subst. destruct Hl as [Hne Hlen]. simpl in Hne, Hlen.
  destruct (found_at lrecs k (pos lrecs k)) eqn:Ef.
  - destruct (found_nth _ _ Ef) as [k1 [v0 [Hn Hg0]]]. rewrite Hg0, Hn.
    destruct noover.
    + intros H; inversion H; subst. split; [reflexivity|assumption].
    + destruct (upd v0 v) as [nv|].
      * intros H; inversion H; subst. split.
        -- rewrite flat_cons. simpl. rewrite s_put_pos, Ef. reflexivity.
        -- constructor; [|assumption]. split; simpl.
           ++ intros E. apply (f_equal (@length _)) in E. rewrite update_at_length in E.
              destruct lrecs; [congruence|discriminate].
           ++ rewrite update_at_length. exact Hlen.
      * intros H; inversion H; subst. split; [reflexivity|assumption].
  - rewrite (notfound_get _ _ Ef).
    destruct newok; simpl.
    2:{ intros H; inversion H; subst. split; [reflexivity|assumption]. }
    assert (Hsp : s_put lrecs k v = insert_at lrecs (pos lrecs k) (k, v)) by (rewrite s_put_pos, Ef; reflexivity).
    destruct (Nat.ltb (length lrecs) IDXNUM) eqn:Elt.
    + apply Nat.ltb_lt in Elt. intros H; inversion H; subst. split.
      * rewrite flat_cons. simpl. rewrite Hsp. reflexivity.
      * constructor; [|assumption]. split; simpl.
        -- intros E. apply (f_equal (@length _)) in E. rewrite insert_at_length in E. discriminate.
        -- rewrite insert_at_length. lia.
    + apply Nat.ltb_ge in Elt. assert (Hfull : length lrecs = IDXNUM) by lia.
      pose proof (pos_le_length lrecs k) as Hpl.
      (* common facts for the split *)
      assert (Hk : firstn PIVOT lrecs ++ skipn PIVOT lrecs = lrecs) by apply firstn_skipn.
      assert (Hkl : length (firstn PIVOT lrecs) = PIVOT) by (rewrite firstn_length; lia).
      assert (Hml : length (skipn PIVOT lrecs) = IDXNUM - PIVOT) by (rewrite skipn_length; lia).
      assert (Hsplit_hi : PIVOT < pos lrecs k ->
                 firstn PIVOT lrecs ++ insert_at (skipn PIVOT lrecs) (pos (skipn PIVOT lrecs) k) (k, v)
                 = insert_at lrecs (pos lrecs k) (k, v)).
      { intros Hp. rewrite pos_skipn by lia. rewrite <- insert_at_app_r. rewrite Hk, Hkl. f_equal. lia. }
      assert (Hsplit_lo : pos lrecs k <= PIVOT ->
                 insert_at (firstn PIVOT lrecs) (pos (firstn PIVOT lrecs) k) (k, v) ++ skipn PIVOT lrecs
                 = insert_at lrecs (pos lrecs k) (k, v)).
      { intros Hp. rewrite pos_firstn by lia. rewrite <- insert_at_app_l by (rewrite Hkl; lia). rewrite Hk. reflexivity. }
      assert (Hok_keep : node_ok (lid, firstn PIVOT lrecs)).
      { split; simpl; [intros E; rewrite E in Hkl; simpl in Hkl; lia | lia]. }
      assert (Hok_moved : node_ok (fresh, skipn PIVOT lrecs)).
      { split; simpl; [intros E; rewrite E in Hml; simpl in Hml; lia | lia]. }
      assert (Hok_keep_i : forall i, node_ok (lid, insert_at (firstn PIVOT lrecs) i (k, v))).
      { intros i. split; simpl; [intros E; apply (f_equal (@length _)) in E; rewrite insert_at_length in E; discriminate|].
        rewrite insert_at_length. lia. }
      assert (Hok_moved_i : forall i, node_ok (fresh, insert_at (skipn PIVOT lrecs) i (k, v))).
      { intros i. split; simpl; [intros E; apply (f_equal (@length _)) in E; rewrite insert_at_length in E; discriminate|].
        rewrite insert_at_length. lia. }
      assert (Hok_single : node_ok (fresh, [(k, v)])).
      { split; simpl; [discriminate|lia]. }
      assert (Hok_l : node_ok (lid, lrecs)) by (split; assumption).
      destruct rest as [|[uid urecs] rest'].
      * (* no upper node *)
        destruct (Nat.eqb (pos lrecs k) (length lrecs)) eqn:Ee.
        -- apply Nat.eqb_eq in Ee. intros H; inversion H; subst. split.
           ++ rewrite !flat_cons. simpl. rewrite Hsp, Ee, insert_at_end. change (flat []) with (@nil (K * V)). rewrite ?app_nil_r. reflexivity.
           ++ okf.
        -- apply Nat.eqb_neq in Ee.
           destruct (Nat.ltb PIVOT (pos lrecs k)) eqn:Ep.
           ++ apply Nat.ltb_lt in Ep. intros H; inversion H; subst. split.
              ** rewrite !flat_cons. simpl. rewrite Hsp, <- Hsplit_hi by exact Ep. change (flat []) with (@nil (K * V)). rewrite ?app_nil_r. reflexivity.
              ** okf.
           ++ apply Nat.ltb_ge in Ep. intros H; inversion H; subst. split.
              ** rewrite !flat_cons. simpl. rewrite Hsp, <- Hsplit_lo by exact Ep. change (flat []) with (@nil (K * V)). rewrite ?app_nil_r. reflexivity.
              ** okf.
      * inversion Hrest as [|? ? Hu Hrest']; subst. destruct Hu as [Hune Hulen]. simpl in Hune, Hulen.
        destruct (Nat.eqb (pos lrecs k) IDXNUM && Nat.ltb (length urecs) IDXNUM) eqn:Eu.
        -- (* add to upper *)
           apply andb_true_iff in Eu. destruct Eu as [Eu1 Eu2].
           apply Nat.eqb_eq in Eu1. apply Nat.ltb_lt in Eu2.
           intros H; inversion H; subst. split.
           ++ rewrite !flat_cons. simpl. rewrite Hsp.
              replace (pos lrecs k) with (length lrecs) by lia. rewrite insert_at_end.
              rewrite <- app_assoc. simpl. f_equal. f_equal.
              (* the key goes to the front of upper: upper starts after k *)
              rewrite flat_cons in Hg. simpl in Hg.
              destruct urecs as [|[k1 v1] ur]; [congruence|]. simpl in Hg. simpl. rewrite Hg. reflexivity.
           ++ constructor; [split; simpl; assumption|]. constructor; [|assumption].
              split; simpl; [intros E; apply (f_equal (@length _)) in E; rewrite insert_at_length in E; discriminate|].
              rewrite insert_at_length. lia.
        -- destruct (Nat.eqb (pos lrecs k) (length lrecs)) eqn:Ee.
           ++ apply Nat.eqb_eq in Ee. intros H; inversion H; subst. split.
              ** rewrite !flat_cons. simpl. rewrite Hsp, Ee, insert_at_end. rewrite <- app_assoc. reflexivity.
              ** assert (node_ok (uid, urecs)) by (split; assumption). okf.
           ++ apply Nat.eqb_neq in Ee.
              destruct (Nat.ltb PIVOT (pos lrecs k)) eqn:Ep.
              ** apply Nat.ltb_lt in Ep. intros H; inversion H; subst. split.
                 --- rewrite !flat_cons. simpl. rewrite Hsp, <- Hsplit_hi by exact Ep. rewrite <- app_assoc. reflexivity.
                 --- assert (node_ok (uid, urecs)) by (split; assumption). okf.
              ** apply Nat.ltb_ge in Ep. intros H; inversion H; subst. split.
                 --- rewrite !flat_cons. simpl. rewrite Hsp, <- Hsplit_lo by exact Ep. rewrite <- app_assoc. reflexivity.
                 --- assert (node_ok (uid, urecs)) by (split; assumption). okf.
Qed.

(* spec_put through a prefix of smaller records *)
Lemma spec_put_app_lt (a b : recs) k v noover newok : all_lt a k ->
  spec_put (a ++ b) k v noover newok
  = (fst (spec_put b k v noover newok), a ++ snd (spec_put b k v noover newok)).
Proof.
  intros H. unfold spec_put. rewrite s_get_app_lt by exact H.
  destruct (s_get b k) as [old|].
  - destruct noover; [reflexivity|]. destruct (upd old v); [|reflexivity].
    simpl. rewrite s_put_app_lt by exact H. reflexivity.
  - destruct newok; [|reflexivity]. simpl. rewrite s_put_app_lt by exact H. reflexivity.
Qed.
Lemma spec_put_app_in (a b : recs) k v noover newok : head_gt b k ->
  spec_put (a ++ b) k v noover newok
  = (fst (spec_put a k v noover newok), snd (spec_put a k v noover newok) ++ b).
Proof.
  intros H. unfold spec_put. rewrite s_get_app_in by exact H.
  destruct (s_get a k) as [old|].
  - destruct noover; [reflexivity|]. destruct (upd old v); [|reflexivity].
    simpl. rewrite s_put_app_in by exact H. reflexivity.
  - destruct newok; [|reflexivity]. simpl. rewrite s_put_app_in by exact H. reflexivity.
Qed.

Lemma node_ok_nonempty (c : chain) : Forall node_ok c -> c <> [] -> flat c <> [].
Proof.
  intros H Hc. destruct c as [|[i r] c']; [congruence|]. inversion H as [|? ? [Hn _] _]; subst.
  rewrite flat_cons. simpl in *. destruct r; [congruence|discriminate].
Qed.

Lemma head_gt_flat (nx : node) (rest : chain) k :
  node_ok nx -> first_le (snd nx) k = false -> head_gt (flat (nx :: rest)) k.
Proof.
  intros [Hn _] Hf. rewrite flat_cons. pose proof (first_le_false _ _ Hn Hf) as Hg.
  destruct (snd nx); [congruence|]. exact Hg.
Qed.

Lemma put_nodes_flat : forall rest fresh lid lrecs k v noover newok r c' ch,
  Forall node_ok ((lid, lrecs) :: rest) ->
  sorted (flat ((lid, lrecs) :: rest)) ->
  put_nodes K V cmp IDXNUM PIVOT upd fresh (lid, lrecs) rest k v noover newok = (r, c', ch) ->
  (r, flat c') = spec_put (flat ((lid, lrecs) :: rest)) k v noover newok /\ Forall node_ok c'.
Proof.
  induction rest as [|[nid nrecs] rest' IH]; intros fresh lid lrecs k v noover newok r c' ch Hok Hs H.
  - cbn [put_nodes] in H. apply put_in_flat in H; [|exact I|exact Hok]. destruct H as [H1 H2]. split; [|exact H2].
    rewrite H1. rewrite flat_cons. simpl. change (flat []) with (@nil (K * V)). rewrite !app_nil_r.
    destruct (spec_put lrecs k v noover newok); reflexivity.
  - cbn [put_nodes snd] in H. inversion Hok as [|? ? Hl Hrest]; subst.
    destruct (first_le nrecs k) eqn:Ef.
    + destruct (put_nodes K V cmp IDXNUM PIVOT upd fresh (nid, nrecs) rest' k v noover newok) as [[r0 c0] ch0] eqn:E.
      cbv beta iota in H. inversion H; subst. clear H.
      rewrite flat_cons in Hs. simpl in Hs.
      destruct (IH _ _ _ _ _ _ _ _ _ _ Hrest (proj1 (proj2 (sorted_app_inv _ _ Hs))) E) as [IH1 IH2].
      split; [|constructor; assumption].
      rewrite !(flat_cons (lid, lrecs)). simpl.
      assert (Hlt : all_lt lrecs k).
      { rewrite flat_cons in Hs. simpl in Hs. rewrite app_assoc in Hs.
        apply sorted_app_inv in Hs. destruct Hs as [Hs _]. eapply prefix_all_lt; eauto. }
      rewrite spec_put_app_lt by exact Hlt. rewrite <- IH1. reflexivity.
    + apply put_in_flat in H; [| |exact Hok].
      2:{ inversion Hrest; subst. apply head_gt_flat; assumption. }
      destruct H as [H1 H2]. split; [|exact H2]. rewrite H1.
      rewrite (flat_cons (lid, lrecs)). simpl.
      rewrite spec_put_app_in; [reflexivity|]. inversion Hrest; subst. apply head_gt_flat; assumption.
Qed.

Theorem put_chain_refines fresh c k v noover newok r c' ch :
  NodeInv c ->
  put_chain K V cmp IDXNUM PIVOT upd fresh c k v noover newok = (r, c', ch) ->
  (r, flat c') = spec_put (flat c) k v noover newok /\ Forall node_ok c'.
Proof.
  intros [Hok Hs] H. destruct c as [|[i0 r0] rest]; cbn [put_chain] in H.
  - unfold spec_put. simpl. destruct newok; inversion H; subst; split; try reflexivity; try constructor.
    + split; simpl; [discriminate|lia].
    + constructor.
  - destruct (first_le r0 k) eqn:Ef.
    + eapply put_nodes_flat; eauto.
    + inversion Hok as [|? ? Hn Hrest]; subst.
      assert (Hg : head_gt (flat ((i0, r0) :: rest)) k) by (apply head_gt_flat; assumption).
      assert (Hp0 : pos r0 k = 0).
      { destruct Hn as [Hne _]. simpl in Hne. destruct r0 as [|[k1 v1] r0']; [congruence|].
        rewrite flat_cons in Hg. simpl in Hg. simpl. rewrite Hg. reflexivity. }
      assert (Hsp : forall nk nn, spec_put (flat ((i0, r0) :: rest)) k v nk nn
                    = if nn then (POk, (k, v) :: flat ((i0, r0) :: rest)) else (PErr, flat ((i0, r0) :: rest))).
      { intros nk nn. unfold spec_put. destruct (flat ((i0, r0) :: rest)) as [|[k1 v1] l]; [reflexivity|].
        simpl in *. rewrite Hg. reflexivity. }
      rewrite Hsp. clear Hsp.
      destruct newok; cbn [negb] in H.
      2:{ inversion H; subst. split; [reflexivity|assumption]. }
      destruct (Nat.ltb (length r0) IDXNUM) eqn:El; inversion H; subst.
      * split.
        -- rewrite !flat_cons. simpl. rewrite Hp0. destruct r0; reflexivity.
        -- constructor; [|assumption]. destruct Hn as [Hne Hl]. apply Nat.ltb_lt in El. split; simpl.
           ++ intros E. apply (f_equal (@length _)) in E. rewrite insert_at_length in E. discriminate.
           ++ rewrite insert_at_length. simpl in Hl. lia.
      * split; [reflexivity|]. constructor; [|assumption]. split; simpl; [discriminate|lia].
Qed.

(* sortedness is a property of the specification *)
Lemma all_lt_in (l : recs) k x : all_lt l k -> In x l -> cmp (fst x) k = Lt.
Proof. unfold all_lt. rewrite Forall_forall. auto. Qed.

Lemma s_put_sorted (l : recs) k v : sorted l -> sorted (s_put l k v).
Proof.
  induction l as [|[k0 v0] l IH]; intros Hs; simpl.
  - repeat constructor.
  - inversion Hs as [|? ? Hs' Hf]; subst.
    destruct (cmp k0 k) eqn:E.
    + constructor; [exact Hs'|]. exact Hf.
    + constructor; [apply IH; exact Hs'|].
      (* every element of s_put l k v is either k or an element of l *)
      assert (Hin : forall x, In x (s_put l k v) -> x = (k, v) \/ In x l \/ exists v1, In (fst x, v1) l).
      { clear. induction l as [|[k1 v1] l IH]; simpl; intros x Hx.
        - destruct Hx as [<-|[]]. left; reflexivity.
        - destruct (cmp k1 k); simpl in Hx.
          + destruct Hx as [<-|Hx]; [right; right; exists v1; left; reflexivity|right; left; right; exact Hx].
          + destruct Hx as [<-|Hx]; [right; left; left; reflexivity|].
            destruct (IH _ Hx) as [->|[H|[v2 H]]]; [left; reflexivity|right; left; right; exact H|right; right; exists v2; right; exact H].
          + destruct Hx as [<-|[<-|Hx]]; [left; reflexivity|right; left; left; reflexivity|right; left; right; exact Hx]. }
      apply Forall_forall. intros x Hx. rewrite Forall_forall in Hf.
      destruct (Hin x Hx) as [->|[H|[v2 H]]]; unfold klt; simpl.
      * exact E.
      * apply (Hf x H).
      * apply (Hf _ H).
    + constructor; [exact Hs|]. constructor.
      * unfold klt. simpl. apply cmp_gt_lt. exact E.
      * rewrite Forall_forall in *. intros x Hx. unfold klt in *. simpl in *.
        eapply cmp_trans; [apply cmp_gt_lt; exact E|apply Hf; exact Hx].
Qed.

Lemma spec_put_sorted (l : recs) k v noover newok : sorted l -> sorted (snd (spec_put l k v noover newok)).
Proof.
  intros Hs. unfold spec_put. destruct (s_get l k) as [old|].
  - destruct noover; [exact Hs|]. destruct (upd old v); [apply s_put_sorted; exact Hs|exact Hs].
  - destruct newok; [apply s_put_sorted; exact Hs|exact Hs].
Qed.

Theorem put_chain_inv fresh c k v noover newok r c' ch :
  NodeInv c -> put_chain K V cmp IDXNUM PIVOT upd fresh c k v noover newok = (r, c', ch) -> NodeInv c'.
Proof.
  intros Hi H. destruct (put_chain_refines _ _ _ _ _ _ _ _ _ Hi H) as [H1 H2]. split; [exact H2|].
  destruct Hi as [_ Hs]. pose proof (spec_put_sorted (flat c) k v noover newok Hs) as Hp.
  rewrite <- H1 in Hp. exact Hp.
Qed.

(* ---- look-up ---- *)
Lemma lower_nodes_get : forall rest lid lrecs k,
  Forall node_ok ((lid, lrecs) :: rest) -> sorted (flat ((lid, lrecs) :: rest)) ->
  s_get (flat ((lid, lrecs) :: rest)) k = s_get (snd (lower_nodes K V cmp (lid, lrecs) rest k)) k.
Proof.
  induction rest as [|[nid nrecs] rest' IH]; intros lid lrecs k Hok Hs; cbn [lower_nodes snd].
  - rewrite flat_cons. simpl. change (flat []) with (@nil (K * V)). rewrite app_nil_r. reflexivity.
  - inversion Hok as [|? ? Hl Hrest]; subst.
    destruct (first_le nrecs k) eqn:Ef.
    + rewrite flat_cons in *. simpl in *.
      assert (Hlt : all_lt lrecs k).
      { rewrite flat_cons in Hs. simpl in Hs. rewrite app_assoc in Hs.
        apply sorted_app_inv in Hs. destruct Hs as [Hs _]. eapply prefix_all_lt; eauto. }
      rewrite s_get_app_lt by exact Hlt. apply IH; [exact Hrest|].
      apply sorted_app_inv in Hs. tauto.
    + rewrite flat_cons. simpl. apply s_get_app_in. inversion Hrest; subst. apply head_gt_flat; assumption.
Qed.

Theorem get_chain_refines c k : NodeInv c -> get_chain K V cmp c k = s_get (flat c) k.
Proof.
  intros [Hok Hs]. unfold get_chain, lower_of. destruct c as [|[i0 r0] rest]; [reflexivity|].
  cbn [snd]. destruct (first_le r0 k) eqn:Ef.
  - pose proof (lower_nodes_get rest i0 r0 k Hok Hs) as L.
    destruct (lower_nodes K V cmp (i0, r0) rest k) as [lid lr]. cbn [snd] in *.
    rewrite <- s_get_in_node. symmetry. exact L.
  - inversion Hok as [|? ? Hn Hrest]; subst.
    pose proof (head_gt_flat (i0, r0) rest k Hn Ef) as Hg.
    symmetry. apply s_get_head_gt. exact Hg.
Qed.

(* ---- deletion ---- *)
Lemma remove_at_length (n : recs) i : i < length n -> length (remove_at n i) = length n - 1.
Proof.
  revert i; induction n as [|x r IH]; intros i Hi; simpl in *; [lia|].
  destruct i as [|j]; simpl; [lia|]. rewrite IH by lia. lia.
Qed.

Lemma found_lt_length (r : recs) k : found_at r k (pos r k) = true -> pos r k < length r.
Proof.
  unfold found_at. intros H. destruct (nth_error r (pos r k)) eqn:E; [|discriminate].
  apply nth_error_Some. congruence.
Qed.

Lemma s_del_notfound (r : recs) k : found_at r k (pos r k) = false -> s_del r k = r.
Proof. intros H. rewrite s_del_pos, H. reflexivity. Qed.

Lemma del_at_flat prev lid lrecs rest k c' ch :
  found_at lrecs k (pos lrecs k) = true ->
  Forall node_ok ((lid, lrecs) :: rest) ->
  del_at K V prev (lid, lrecs) rest (pos lrecs k) = (c', ch) ->
  flat c' = s_del lrecs k ++ flat rest /\ Forall node_ok c'.
Proof.
  intros Hf Hok. unfold del_at. inversion Hok as [|? ? [Hne Hlen] Hrest]; subst. simpl in Hne, Hlen.
  pose proof (found_lt_length _ _ Hf) as Hp.
  rewrite s_del_pos, Hf.
  destruct (Nat.eqb (length lrecs) 1) eqn:E1; intros H; inversion H; subst.
  - apply Nat.eqb_eq in E1. split; [|exact Hrest].
    assert (Hp0 : pos lrecs k = 0) by lia. rewrite Hp0.
    destruct lrecs as [|x [|y l]]; cbn [length] in E1; try lia. reflexivity.
  - apply Nat.eqb_neq in E1. split; [reflexivity|]. constructor; [|exact Hrest].
    split; simpl.
    + intros E. apply (f_equal (@length _)) in E. rewrite remove_at_length in E by exact Hp. simpl in E. lia.
    + rewrite remove_at_length by exact Hp. lia.
Qed.

Lemma del_nodes_flat : forall rest prev lid lrecs k,
  Forall node_ok ((lid, lrecs) :: rest) -> sorted (flat ((lid, lrecs) :: rest)) ->
  match del_nodes K V cmp prev (lid, lrecs) rest k with
  | Some (c', ch) => flat c' = s_del (flat ((lid, lrecs) :: rest)) k /\ Forall node_ok c'
                     /\ s_get (flat ((lid, lrecs) :: rest)) k <> None
  | None => s_get (flat ((lid, lrecs) :: rest)) k = None
  end.
Proof.
  induction rest as [|[nid nrecs] rest' IH]; intros prev lid lrecs k Hok Hs; cbn [del_nodes snd fst].
  - rewrite flat_cons. cbn [snd]. change (flat []) with (@nil (K * V)). rewrite app_nil_r.
    destruct (found_at lrecs k (pos lrecs k)) eqn:Ef.
    + destruct (del_at K V prev (lid, lrecs) [] (pos lrecs k)) as [c' ch] eqn:E.
      destruct (del_at_flat _ _ _ _ _ _ _ Ef Hok E) as [H1 H2].
      change (flat []) with (@nil (K * V)) in H1. rewrite app_nil_r in H1.
      repeat split; try assumption. destruct (found_nth _ _ Ef) as [k1 [v0 [_ Hg]]]. congruence.
    + apply notfound_get. exact Ef.
  - inversion Hok as [|? ? Hl Hrest]; subst.
    destruct (first_le nrecs k) eqn:Ef.
    + assert (Hlt : all_lt lrecs k).
      { rewrite !flat_cons in Hs. cbn [snd] in Hs. rewrite app_assoc in Hs.
        apply sorted_app_inv in Hs. destruct Hs as [Hs _]. eapply prefix_all_lt; eauto. }
      assert (Hs' : sorted (flat ((nid, nrecs) :: rest'))).
      { rewrite flat_cons in Hs. cbn [snd] in Hs. apply sorted_app_inv in Hs. tauto. }
      specialize (IH (Some lid) nid nrecs k Hrest Hs').
      rewrite (flat_cons (lid, lrecs)). cbn [snd].
      rewrite s_get_app_lt, s_del_app_lt by exact Hlt.
      destruct (del_nodes K V cmp (Some lid) (nid, nrecs) rest' k) as [[c0 ch0]|].
      * destruct IH as [H1 [H2 H3]]. rewrite flat_cons. cbn [snd]. rewrite H1.
        repeat split; [constructor; assumption|exact H3].
      * exact IH.
    + assert (Hg : head_gt (flat ((nid, nrecs) :: rest')) k) by (inversion Hrest; subst; apply head_gt_flat; assumption).
      rewrite (flat_cons (lid, lrecs)). cbn [snd].
      rewrite s_get_app_in, s_del_app_in by exact Hg.
      destruct (found_at lrecs k (pos lrecs k)) eqn:Ef2.
      * destruct (del_at K V prev (lid, lrecs) ((nid, nrecs) :: rest') (pos lrecs k)) as [c' ch] eqn:E.
        destruct (del_at_flat _ _ _ _ _ _ _ Ef2 Hok E) as [H1 H2].
        repeat split; try assumption. destruct (found_nth _ _ Ef2) as [k1 [v0 [_ Hg0]]]. congruence.
      * apply notfound_get. exact Ef2.
Qed.

Lemma s_del_sorted (l : recs) k : sorted l -> sorted (s_del l k).
Proof.
  induction l as [|[k0 v0] l IH]; intros Hs; simpl; [constructor|].
  inversion Hs as [|? ? Hs' Hf]; subst.
  destruct (cmp k0 k); [exact Hs'| |exact Hs].
  constructor; [apply IH; exact Hs'|].
  assert (Hin : forall x, In x (s_del l k) -> In x l).
  { clear. induction l as [|[k1 v1] l IH]; simpl; intros x Hx; [exact Hx|].
    destruct (cmp k1 k); simpl in *; [right; exact Hx| |exact Hx].
    destruct Hx as [<-|Hx]; [left; reflexivity|right; apply IH; exact Hx]. }
  rewrite Forall_forall in *. intros x Hx. apply Hf. apply Hin. exact Hx.
Qed.

Theorem del_chain_refines c k :
  NodeInv c ->
  match del_chain K V cmp c k with
  | Some (c', ch) => flat c' = s_del (flat c) k /\ NodeInv c' /\ s_get (flat c) k <> None
  | None => s_get (flat c) k = None
  end.
Proof.
  intros [Hok Hs]. unfold del_chain. destruct c as [|[i0 r0] rest]; [reflexivity|].
  cbn [snd]. destruct (first_le r0 k) eqn:Ef.
  - pose proof (del_nodes_flat rest None i0 r0 k Hok Hs) as H.
    destruct (del_nodes K V cmp None (i0, r0) rest k) as [[c' ch]|]; [|exact H].
    destruct H as [H1 [H2 H3]]. repeat split; try assumption. rewrite H1. apply s_del_sorted. exact Hs.
  - inversion Hok as [|? ? Hn Hrest]; subst.
    pose proof (head_gt_flat (i0, r0) rest k Hn Ef) as Hg.
    apply s_get_head_gt. exact Hg.
Qed.

(* ---- histories: the chain refines the ordered map for every operation sequence ---- *)
Inductive op := OpPut (k : K) (v : V) (noover newok : bool) | OpDel (k : K) | OpGet (k : K).
Inductive out := OutPut (r : pres) | OutDel (found : bool) | OutGet (v : option V).

Definition step (st : nat * chain) (o : op) : (nat * chain) * out :=
  let '(fresh, c) := st in
  match o with
  | OpPut k v noover newok =>
    let '(r, c', ch) := put_chain K V cmp IDXNUM PIVOT upd fresh c k v noover newok in
    ((S fresh, match r with POk => c' | _ => c end), OutPut r)
  | OpDel k => match del_chain K V cmp c k with
               | Some (c', _) => ((fresh, c'), OutDel true)
               | None => ((fresh, c), OutDel false) end
  | OpGet k => ((fresh, c), OutGet (get_chain K V cmp c k))
  end.
Definition spec_step (l : recs) (o : op) : recs * out :=
  match o with
  | OpPut k v noover newok => let '(r, l') := spec_put l k v noover newok in (l', OutPut r)
  | OpDel k => (s_del l k, OutDel (match s_get l k with Some _ => true | None => false end))
  | OpGet k => (l, OutGet (s_get l k))
  end.

Fixpoint run (st : nat * chain) (ops : list op) : (nat * chain) * list out :=
  match ops with
  | [] => (st, [])
  | o :: r => let '(st', x) := step st o in let '(st'', xs) := run st' r in (st'', x :: xs)
  end.
Fixpoint spec_run (l : recs) (ops : list op) : recs * list out :=
  match ops with
  | [] => (l, [])
  | o :: r => let '(l', x) := spec_step l o in let '(l'', xs) := spec_run l' r in (l'', x :: xs)
  end.

Lemma spec_put_err_same l k v noover newok : fst (spec_put l k v noover newok) <> POk ->
  snd (spec_put l k v noover newok) = l.
Proof.
  unfold spec_put. destruct (s_get l k) as [old|].
  - destruct noover; [reflexivity|]. destruct (upd old v); simpl; [congruence|reflexivity].
  - destruct newok; simpl; [congruence|reflexivity].
Qed.

Lemma step_refines st o : NodeInv (snd st) ->
  let '(st', x) := step st o in
  let '(l', y) := spec_step (flat (snd st)) o in
  flat (snd st') = l' /\ x = y /\ NodeInv (snd st').
Proof.
  destruct st as [fresh c]. cbn [snd]. intros Hi. destruct o as [k v noover newok|k|k]; cbn [step spec_step].
  - destruct (put_chain K V cmp IDXNUM PIVOT upd fresh c k v noover newok) as [[r c'] ch] eqn:E.
    destruct (put_chain_refines _ _ _ _ _ _ _ _ _ Hi E) as [H1 H2].
    pose proof (put_chain_inv _ _ _ _ _ _ _ _ _ Hi E) as H3.
    destruct (spec_put (flat c) k v noover newok) as [r' l'] eqn:Es. inversion H1; subst. cbn [snd].
    destruct r'.
    + split; [reflexivity|]. split; [reflexivity|exact H3].
    + pose proof (spec_put_err_same (flat c) k v noover newok) as Hsame. rewrite Es in Hsame. simpl in Hsame.
      rewrite Hsame by discriminate. split; [reflexivity|]. split; [reflexivity|exact Hi].
    + pose proof (spec_put_err_same (flat c) k v noover newok) as Hsame. rewrite Es in Hsame. simpl in Hsame.
      rewrite Hsame by discriminate. split; [reflexivity|]. split; [reflexivity|exact Hi].
  - pose proof (del_chain_refines c k Hi) as H.
    destruct (del_chain K V cmp c k) as [[c' ch]|]; cbn [snd].
    + destruct H as [H1 [H2 H3]]. split; [exact H1|]. split; [|exact H2].
      destruct (s_get (flat c) k); [reflexivity|congruence].
    + rewrite H. split; [|split; [reflexivity|exact Hi]].
      symmetry. apply s_del_none. exact H.
  - rewrite (get_chain_refines c k Hi). split; [reflexivity|]. split; [reflexivity|exact Hi].
Qed.

Theorem kv_refines_map : forall ops st, NodeInv (snd st) ->
  let '(st', outs) := run st ops in
  let '(l', souts) := spec_run (flat (snd st)) ops in
  flat (snd st') = l' /\ outs = souts /\ NodeInv (snd st').
Proof.
  induction ops as [|o ops IH]; intros st Hi; cbn [run spec_run].
  - split; [reflexivity|]. split; [reflexivity|exact Hi].
  - pose proof (step_refines st o Hi) as Hs.
    destruct (step st o) as [st1 x]. destruct (spec_step (flat (snd st)) o) as [l1 y].
    destruct Hs as [H1 [H2 H3]]. subst.
    specialize (IH st1 H3). destruct (run st1 ops) as [st2 xs]. destruct (spec_run (flat (snd st1)) ops) as [l2 ys].
    destruct IH as [I1 [I2 I3]]. subst. split; [reflexivity|]. split; [reflexivity|exact I3].
Qed.

(* a call that reports an error leaves the contents unchanged *)
Theorem error_leaves_state st k v noover newok :
  let '(st', x) := step st (OpPut k v noover newok) in
  x <> OutPut POk -> snd st' = snd st.
Proof.
  destruct st as [fresh c]. cbn [step].
  destruct (put_chain K V cmp IDXNUM PIVOT upd fresh c k v noover newok) as [[r c'] ch].
  cbn [snd]. destruct r; [congruence|reflexivity|reflexivity].
Qed.

End NodeProofs.
