Require Import List ZArith Bool Lia. Import ListNotations.
Require Import IW.KV.Node IW.KV.Spec.

Section NodeProofs.
Variables K V : Type.
Variable cmp : K -> K -> comparison.

Lemma insert_at_length (n : recs K V) i e : length (insert_at K V n i e) = S (length n).
Proof. revert i; induction n as [|x r IH]; intros [|j]; simpl; try reflexivity. now rewrite IH. Qed.
End NodeProofs.
