(* C03: the writers of the file format, as Gallina functions next to the readers of KV/Audit.v.
   write_sblk = _sblk_sync_mm (node block, 256 bytes: flags, level, prefix length, record count, back link, data block,
   slot permutation, links of every level, page slot, cached key prefix); write_pidx / write_kvblk_head = _kvblk_sync_mm
   (data-block header: size exponent, index size, 32 (offset, length) pairs as variable-length numbers).
   Field offsets are the SOFF_ / KVBLK_ macros of the current source (Gen/Facts.v, regenerated on every run). *)
Require Import List ZArith Bool. Import ListNotations.
Require Import IW.Lib.CInt IW.Lib.Vnum IW.KV.Keys IW.KV.Audit IW.KV.Inst IW.Gen.Facts.
Local Open Scope Z_scope.

Definition write_sblk (s : sblk) : list Z :=
  [s_flags s; s_lvl s; s_lkl s; s_pnum s] ++ le_encode 4 (s_p0 s) ++ le_encode 4 (s_kblk s) ++ s_pi s
  ++ concat (map (le_encode 4) (s_n s)) ++ [s_bpos s] ++ s_lk s.

Fixpoint write_pidx (p : list (Z * Z)) : list Z :=
  match p with
  | [] => []
  | (off, len) :: r => set_vnum64 off ++ set_vnum64 len ++ write_pidx r
  end.

Definition write_kvblk_head (szpow : Z) (p : list (Z * Z)) : list Z :=
  let idx := write_pidx p in
  [szpow] ++ le_encode 2 (Z.of_nat (length idx)) ++ idx.

(* a node record a writer can produce *)
Definition byte (x : Z) : Prop := 0 <= x < 256.
Definition sblk_wf (s : sblk) : Prop :=
  byte (s_flags s) /\ byte (s_lvl s) /\ byte (s_lkl s) /\ byte (s_pnum s) /\ byte (s_bpos s) /\
  0 <= s_p0 s < 2 ^ 32 /\ 0 <= s_kblk s < 2 ^ 32 /\
  length (s_pi s) = NIDXA /\ Forall byte (s_pi s) /\
  length (s_n s) = NSLEV /\ Forall (fun x => 0 <= x < 2 ^ 32) (s_n s) /\
  s_lkl s <= SBLK_LKLEN /\ length (s_lk s) = Z.to_nat (s_lkl s) /\ Forall byte (s_lk s).

(* canonical form on a real image: decoding an index and encoding it again gives the bytes that are there *)
Section Recode.
Variable rd : Z -> Z.
Definition recode_kvblk (blk : Z) : bool :=
  match read_kvblk rd blk with
  | None => false
  | Some k => let w := write_kvblk_head (k_szpow k) (k_pidx k) in
              bytes_eq (bytes_at rd (length w) (addr_of blk)) w && (Z.of_nat (length (write_pidx (k_pidx k))) =? k_idxsz k)
  end.
End Recode.

(* ---- what the independent reader sees of one database: per node (level, records, full-prefix flag, prefix length,
        size exponent of the data block, stored keys in slot order, cached prefix) - compared field by field with what the
        implementation's own reader reports for the same image ---- *)
Section Dump.
Variable rd : Z -> Z.
Variable fsize : Z.

Definition node_dump (s : sblk) : (Z * Z * Z * Z) * Z * list (list Z) * list Z :=
  let szpow := match read_kvblk rd (s_kblk s) with Some kb => k_szpow kb | None => -1 end in
  let keys := snd (fst (audit_node rd {| km_vnum := false; km_real := false; km_compound := false |} s)) in
  ((s_lvl s, s_pnum s, (if Z.land (s_flags s) SBLK_FULL_LKEY =? 0 then 0 else 1), s_lkl s), szpow, keys, s_lk s).

Fixpoint find_db (n : nat) (dblk dbid : Z) : option Z :=
  match n with
  | O => None
  | S k => if dblk =? 0 then None
           else let a := addr_of dblk in
                if u32 rd (a + DOFF_DBID_U4) =? dbid then Some dblk else find_db k (u32 rd (a + DOFF_NEXTDB_U4)) dbid
  end.

Definition first_db : Z := u64 rd (IWFSM_CUSTOM_HDR_DATA_OFFSET + 4) / BS.
Definition walk_fuel : nat := Z.to_nat (fsize / SBLK_SZ + 2).

Definition struct_db (dbid : Z) : option (Z * list ((Z * Z * Z * Z) * Z * list (list Z) * list Z)) :=
  match find_db 4096 first_db dbid with
  | None => None
  | Some dblk =>
    let a := addr_of dblk in
    let dn := u32s rd NSLEV (a + DOFF_N0_U4) in
    let top := Z.of_nat (length (filter (fun x => negb (x =? 0)) dn)) - 1 in
    match walk rd walk_fuel 0 (nthz dn 0) [] with
    | None => None
    | Some l0 => Some ((if top <? 0 then 0 else top), map (fun b => node_dump (read_sblk rd b)) l0)
    end
  end.

(* every data block of every node of every database is in canonical form *)
Fixpoint recode_dbs (n : nat) (dblk : Z) : list Z :=
  match n with
  | O => []
  | S k => if dblk =? 0 then []
           else let a := addr_of dblk in
                (match walk rd walk_fuel 0 (u32 rd (a + DOFF_N0_U4)) [] with
                 | None => []
                 | Some l0 => filter (fun b => negb (recode_kvblk rd b)) (map (fun b => s_kblk (read_sblk rd b)) l0)
                 end) ++ recode_dbs k (u32 rd (a + DOFF_NEXTDB_U4))
  end.
Definition recode_all : list Z := recode_dbs 4096 first_db.
End Dump.
