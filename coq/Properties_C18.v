(* C18 - containers behave as their plain reference models for every call sequence.  Statements only. *)
Require Import ZArith List Bool Permutation.
Require Import IW.Gen.Facts.
Require Import IW.UT.Hmap IW.UT.Hmap_inv_proofs IW.UT.Hmap_proofs.
Require Import IW.UT.Ulist IW.UT.Ulist_proofs IW.UT.Sarr IW.UT.Sarr_proofs IW.UT.Rb IW.UT.Rb_proofs.
Require Import IW.UT.Xstr IW.UT.Xstr_proofs IW.UT.Avl IW.UT.Avl_proofs IW.UT.Pool IW.UT.Pool_proofs.
Require Import IW.UT.Plist IW.UT.Plist_proofs.
Require Import IW.UT.Pforest IW.UT.Pforest_proofs.
Import ListNotations.

(* ================================================================ T1: the static hash functions at probe points *)
Example C18_hash_u32_samples : forallb (fun p => Z.eqb (hash_u32 (fst p)) (snd p)) CONT_hash_u32_samples = true.
Proof. vm_compute. reflexivity. Qed.
Example C18_hash_u64_samples : forallb (fun p => Z.eqb (hash_u64 (fst p)) (snd p)) CONT_hash_u64_samples = true.
Proof. vm_compute. reflexivity. Qed.
Example C18_hash_str_samples : forallb (fun p => Z.eqb (hash_str (fst p)) (snd p)) CONT_hash_str_samples = true.
Proof. vm_compute. reflexivity. Qed.

(* ================================================================ hash map (iwhmap.c) *)
(* For every key type with a decidable equality that cmp_fn implements, every hash function, every LRU bound (or none),
   both free-callback modes and EVERY sequence of put/get/remove/rename/clear/count/iterate/lru-walk calls, the model of
   the C code returns what the association list + recency list returns: same values, flags, counts, free-callback log
   (victims included, in order), iteration contents (as a multiset) and recency order. *)
Theorem C18_hmap_refines_map : forall (K : Type) (keq : K -> K -> bool) (hashf : K -> Z),
  (forall a b : K, keq a b = true <-> a = b) ->
  forall (max : option Z) (ikp : bool) (ops : list (hop K)),
  Forall2 (out_equiv K) (h_run K keq hashf (hnew K max ikp) ops) (Hmap.s_run K keq (s_new K max ikp) ops).
Proof. exact hmap_refines_map. Qed.
Print Assumptions C18_hmap_refines_map.

(* After every call sequence: first/last/prev/next of the LRU list describe one list L, the node heap holds exactly
   the nodes of L, the entries' node pointers are a permutation of L and every node carries its entry's key; no
   freed or unallocated node was ever dereferenced (h_fault), and the harness' forward walk returns the recency
   list of the specification with the consistency flag set. *)
Theorem C18_dll_wf : forall (K : Type) (keq : K -> K -> bool) (hashf : K -> Z),
  (forall a b : K, keq a b = true <-> a = b) ->
  forall (max : option Z) (ikp : bool) (ops : list (hop K)),
  let m := h_exec K keq hashf (hnew K max ikp) ops in
  exists L : list nat,
    dll K m L /\
    Permutation (lru_ids K (ents K (h_bkts K m))) L /\
    (forall (e : entry K) (n : nat),
       In e (ents K (h_bkts K m)) -> e_lru K e = Some n -> nkey K (h_heap K m) n = Some (e_key K e)) /\
    h_fault K m = false /\
    hlru K m = (if lru_on K m then s_rec K (s_exec K keq (s_new K max ikp) ops) else nil, true).
Proof. exact dll_wf. Qed.
Print Assumptions C18_dll_wf.

(* What a put evicts: exactly the n least recently used keys (oldest first, with the values they held), and eviction
   stops only when the bound holds or the recency list is exhausted. *)
Theorem C18_lru_victims_oldest : forall (K : Type) (keq : K -> K -> bool) (hashf : K -> Z),
  (forall a b : K, keq a b = true <-> a = b) ->
  forall (max : option Z) (ikp : bool) (ops : list (hop K)) (k : K) (v mx : Z),
  let m := clear_log K (h_exec K keq hashf (hnew K max ikp) ops) in
  let s := s_exec K keq (s_new K max ikp) ops in
  h_max K m = Some mx ->
  let m' := hput K keq hashf m k v in
  let r := rec_touch K keq s k in
  let al := (k, v) :: al_remove K keq k (s_al K s) in
  exists n : nat,
    (n <= length r)%nat /\
    tl (h_log K m') = map (fun x : K => (fkey K m x, al_val K keq x al)) (firstn n r) /\
    ((h_count K m' <= mx)%Z \/ n = length r).
Proof. exact lru_victims_oldest_run. Qed.
Print Assumptions C18_lru_victims_oldest.

(* The non-null values handed to put are, as a multiset, the values passed to the free callback plus the values still
   in the map: nothing is freed twice, nothing that left the map is forgotten. *)
Theorem C18_freed_exactly_once : forall (K : Type) (keq : K -> K -> bool) (hashf : K -> Z),
  (forall a b : K, keq a b = true <-> a = b) ->
  forall (max : option Z) (ikp : bool) (ops : list (hop K)),
  Permutation (nz (puts K ops))
    (nz (freed K (h_run K keq hashf (hnew K max ikp) ops) ++
         map snd (hiter K (h_exec K keq hashf (hnew K max ikp) ops)))).
Proof. exact freed_exactly_once. Qed.
Print Assumptions C18_freed_exactly_once.

Theorem C18_freed_at_most_once : forall (K : Type) (keq : K -> K -> bool) (hashf : K -> Z),
  (forall a b : K, keq a b = true <-> a = b) ->
  forall (max : option Z) (ikp : bool) (ops : list (hop K)),
  NoDup (nz (puts K ops)) -> NoDup (nz (freed K (h_run K keq hashf (hnew K max ikp) ops))).
Proof. exact freed_exactly_once_nodup. Qed.
Print Assumptions C18_freed_at_most_once.

(* the scenario of the iwhmap_clear defect (fixed by 1c2938e) on the model: bound 2, three puts, clear, three puts *)
Example C18_hmap_example :
  h_run Z Z.eqb hash_u32 (hnew Z (Some 2%Z) true)
    [HPut Z 1 101; HPut Z 2 102; HPut Z 3 103; HLru Z; HClear Z; HPut Z 4 104; HPut Z 5 105; HPut Z 6 106;
     HCount Z; HLru Z; HRename Z 6 5; HIter Z]%Z
  = [OPut Z 1 [(None, 0)]; OPut Z 2 [(None, 0)]; OPut Z 2 [(None, 0); (None, 101)]; OLru Z [2; 3] true;
     OClear Z 0 [(None, 103); (None, 102)]; OPut Z 1 [(None, 0)]; OPut Z 2 [(None, 0)];
     OPut Z 2 [(None, 0); (None, 104)]; OCount Z 2; OLru Z [5; 6] true; ORename Z 1 [(None, 0); (None, 105)];
     OIter Z [(5, 106)]]%Z.
Proof. vm_compute. reflexivity. Qed.
Example C18_hmap_keq_example : forall a b : Z, Z.eqb a b = true <-> a = b.
Proof. exact Z.eqb_eq. Qed.

(* ================================================================ unit list (iwulist, byte level) *)
Theorem C18_ulist_refines_list : forall (il us : nat) (ops : list uop),
  (0 < us)%nat -> Forall (uop_ok us) ops -> u_run (u_init il us) ops = l_run nil ops.
Proof. exact ulist_refines_list. Qed.
Print Assumptions C18_ulist_refines_list.

(* the scenario of the iwulist_clone defect (fixed by 8c4442d): clone of a list whose start is not 0, usize 4 *)
Example C18_ulist_example :
  u_run (u_init 0 4) [UPush [1;2;3;4]; UUnshift [5;6;7;8]; UClone; UInsert 1 [9;9;9;9]; UShift; UGet 0]%Z
  = [ORc U_OK; ORc U_OK; OList [[5; 6; 7; 8]; [1; 2; 3; 4]]; ORc U_OK; ORc U_OK; OUnit (Some [9; 9; 9; 9])]%Z.
Proof. vm_compute. reflexivity. Qed.

(* ================================================================ pointer list (iwlist, slot level) *)
Theorem C18_plist_refines_list : forall (an : nat) (ops : list plop), pl_run (pl_init an) ops = list_run nil ops.
Proof. exact plist_refines_list. Qed.
Print Assumptions C18_plist_refines_list.

Example C18_plist_example : pl_run (pl_init 0) [PLPush [97;97]; PLUnshift [98]; PLClone; PLShift]%Z
  = list_run nil [PLPush [97;97]; PLUnshift [98]; PLClone; PLShift]%Z.
Proof. vm_compute. reflexivity. Qed.

(* iwlist_shift across its compaction threshold, in every state an API user can reach (any initial allocation, any call
   sequence): the head element is handed out (it is read BEFORE the array is compacted), the remaining items are the
   tail, the allocation is unchanged, and the array is compacted (start = 0) exactly when the new start offset is a
   multiple of 256 and exceeds half the remaining count - otherwise the start offset advances by one. *)
Theorem C18_plist_shift_compaction : forall (an : nat) (ops : list plop) (x : list Z) (t : list (list Z)),
  list_exec nil ops = x :: t ->
  let l := pl_exec (pl_init an) ops in
  snd (pl_shift l) = (PL_OK, Some x) /\
  pl_items (fst (pl_shift l)) = t /\
  pl_anum (fst (pl_shift l)) = pl_anum l /\
  pl_start (fst (pl_shift l)) =
    (if Nat.eqb ((pl_start l + 1) mod 256) 0 && ((pl_num l - 1) / 2 <? pl_start l + 1) then 0 else pl_start l + 1).
Proof. exact shift_compaction_reachable. Qed.
Print Assumptions C18_plist_shift_compaction.

(* 512 pushes and 255 shifts: the next shift is the one that compacts, with 256 items left *)
Example C18_plist_shift_compaction_example :
  let ops := map (fun i => PLPush [Z.of_nat i]) (seq 0 512) ++ repeat PLShift 255 in
  let l := pl_exec (pl_init 0) ops in
  hd nil (list_exec nil ops) = [255%Z] /\ pl_start l = 255 /\ pl_num l = 257 /\
  pl_start (fst (pl_shift l)) = 0 /\ pl_num (fst (pl_shift l)) = 256 /\ snd (pl_shift l) = (PL_OK, Some [255%Z]).
Proof. vm_compute. repeat split; reflexivity. Qed.

(* The order "read the element, then compact" is essential.  [pl_shift_late] is the variant that reads array[index] after
   the compaction (NOT the code; the change seeded in round 2): it answers like the code in every reachable state
   outside the window "the shift compacts while more than `start` items remain" ... *)
Theorem C18_plist_shift_late_window : forall (an : nat) (ops : list plop),
  let l := pl_exec (pl_init an) ops in
  (Nat.eqb ((pl_start l + 1) mod 256) 0 && ((pl_num l - 1) / 2 <? pl_start l + 1) = false \/ pl_num l - 1 <= pl_start l) ->
  pl_shift_late l = pl_shift l.
Proof. exact shift_late_window_reachable. Qed.
Print Assumptions C18_plist_shift_late_window.

(* the window is not hit by 512 pushes and 254 shifts (no compaction yet) *)
Example C18_plist_shift_late_window_example :
  let l := pl_exec (pl_init 0) (map (fun i => PLPush [Z.of_nat i]) (seq 0 512) ++ repeat PLShift 254) in
  Nat.eqb ((pl_start l + 1) mod 256) 0 && ((pl_num l - 1) / 2 <? pl_start l + 1) = false /\ pl_shift_late l = pl_shift l.
Proof. vm_compute. split; reflexivity. Qed.

(* ... and inside the window it hands out the element `start` positions further down (refutation of the variant by a
   reachable state: 512 pushes, 255 shifts, then the 256th shift; replayed on the real code by
   corpus/C18/iwlist-shift-compact-512.txt) *)
Theorem C18_plist_shift_late_refuted :
  pl_wf late_witness /\ pl_compacts late_witness = true /\ pl_start late_witness = 255 /\ pl_num late_witness = 257 /\
  snd (pl_shift late_witness) = (PL_OK, Some [255%Z]) /\
  snd (pl_shift_late late_witness) = (PL_OK, Some [511%Z]).
Proof. exact shift_late_refuted. Qed.
Print Assumptions C18_plist_shift_late_refuted.

(* ================================================================ sorted-array helpers (binary search) *)
Theorem C18_sorted_find2_correct : forall (A : Type) (cmp : A -> A -> Z) (dflt : A) (key : A -> Z),
  (forall a b : A, (cmp a b =? 0)%Z = (key a =? key b)%Z /\ (cmp a b <? 0)%Z = (key a <? key b)%Z) ->
  forall (els : list A) (e : A) (i : Z) (f : bool),
  Sarr_proofs.sorted A dflt key els ->
  sorted_find2 A cmp dflt els e = (i, f) ->
  (0 <= i <= Z.of_nat (length els))%Z /\
  (f = true -> (i < Z.of_nat (length els))%Z /\ key (el A dflt els i) = key e) /\
  (f = false ->
     (forall j : Z, (0 <= j < i)%Z -> (key (el A dflt els j) < key e)%Z) /\
     (forall j : Z, (i <= j < Z.of_nat (length els))%Z -> (key e < key (el A dflt els j))%Z)).
Proof. exact sorted_find2_correct. Qed.
Print Assumptions C18_sorted_find2_correct.

Theorem C18_sorted_find_correct : forall (A : Type) (cmp : A -> A -> Z) (dflt : A) (key : A -> Z),
  (forall a b : A, (cmp a b =? 0)%Z = (key a =? key b)%Z /\ (cmp a b <? 0)%Z = (key a <? key b)%Z) ->
  forall (els : list A) (e : A),
  Sarr_proofs.sorted A dflt key els ->
  let i := sorted_find A cmp dflt els e in
  i = (-1)%Z /\ (forall a : A, In a els -> key a <> key e) \/
  (0 <= i < Z.of_nat (length els))%Z /\ key (el A dflt els i) = key e.
Proof. exact sorted_find_correct. Qed.
Print Assumptions C18_sorted_find_correct.

Theorem C18_sorted_insert_correct : forall (A : Type) (cmp : A -> A -> Z) (dflt : A) (key : A -> Z),
  (forall a b : A, (cmp a b =? 0)%Z = (key a =? key b)%Z /\ (cmp a b <? 0)%Z = (key a <? key b)%Z) ->
  forall (els : list A) (e : A) (skipeq : bool) (els' : list A) (i : Z),
  Sarr_proofs.sorted A dflt key els ->
  sorted_insert A cmp dflt els e skipeq = (els', i) ->
  i = (-1)%Z /\ els' = els /\ skipeq = true /\ (exists a : A, In a els /\ key a = key e) \/
  (0 <= i)%Z /\ Sarr_proofs.sorted A dflt key els' /\ Permutation els' (e :: els) /\
  nth_error els' (Z.to_nat i) = Some e /\ (skipeq = true -> forall a : A, In a els -> key a <> key e).
Proof. exact sorted_insert_correct. Qed.
Print Assumptions C18_sorted_insert_correct.

Theorem C18_sorted_remove_correct : forall (A : Type) (cmp : A -> A -> Z) (dflt : A) (key : A -> Z),
  (forall a b : A, (cmp a b =? 0)%Z = (key a =? key b)%Z /\ (cmp a b <? 0)%Z = (key a <? key b)%Z) ->
  forall (els : list A) (e : A) (els' : list A) (i : Z),
  Sarr_proofs.sorted A dflt key els ->
  sorted_remove A cmp dflt els e = (els', i) ->
  i = (-1)%Z /\ els' = els /\ (forall a : A, In a els -> key a <> key e) \/
  (0 <= i < Z.of_nat (length els))%Z /\ key (el A dflt els i) = key e /\ els' = del_at A els i /\
  Sarr_proofs.sorted A dflt key els' /\ Permutation els (el A dflt els i :: els').
Proof. exact sorted_remove_correct. Qed.
Print Assumptions C18_sorted_remove_correct.

Example C18_sorted_example :
  sorted_insert (Z * Z) (fun a b => fst a - fst b)%Z (0, 0)%Z [(1, 1); (3, 2); (5, 3)]%Z (3, 9)%Z false
  = ([(1, 1); (3, 9); (3, 2); (5, 3)]%Z, 1%Z).
Proof. vm_compute. reflexivity. Qed.

(* ================================================================ ring buffer (iwrb.c) *)
(* put / clear anywhere, back while the ring has not wrapped: count, newest unit and the iteration are those of the
   bounded newest-first list *)
Theorem C18_rb_refines_deque : forall (U : Type) (dflt : U) (len : Z) (ops : list (rop U)),
  (0 < len)%Z -> back_safe U len 0 false ops ->
  rb_run U dflt (rb_create U dflt len) ops = d_run U len nil ops.
Proof. exact rb_refines_deque. Qed.
Print Assumptions C18_rb_refines_deque.

(* back on a wrapped ring (incl. position 1, the defect fixed by fe01ba6): the newest unit afterwards is the
   second newest before.  _partial: the cached count keeps saying len and the dropped unit reappears as the oldest one
   of the iteration - the ring has no count field, so the full deque statement is false of the code. *)
Theorem C18_rb_back_wrapped_partial : forall (U : Type) (dflt : U) (len : Z),
  (0 < len)%Z ->
  forall (r : rb U) (d : list U),
  rb_rel U dflt len r d -> (0 < r_pos U r)%Z -> (2 <= length d)%nat ->
  rb_peek U dflt (rb_back U r) = nth_error d 1.
Proof. exact rb_back_wrapped_peek. Qed.
Print Assumptions C18_rb_back_wrapped_partial.

Example C18_rb_example :
  rb_run Z 0%Z (rb_create Z 0%Z 3) [RPut Z 1; RPut Z 2; RBack Z; RPut Z 3; RPut Z 4; RPut Z 5]%Z
  = [(1, Some 1, [1]); (2, Some 2, [2; 1]); (1, Some 1, [1]); (2, Some 3, [3; 1]); (3, Some 4, [4; 3; 1]);
     (3, Some 5, [5; 4; 3])]%Z.
Proof. vm_compute. reflexivity. Qed.

(* ================================================================ growable string (iwxstr.c, byte level) *)
(* size, data and the terminator byte after every call (cat, unshift, shift, pop, insert, clear, clone) *)
Theorem C18_xstr_refines_bytes : forall (siz : nat) (ops : list xop), x_run (x_create siz) ops = Xstr.s_run nil ops.
Proof. exact xstr_refines_bytes. Qed.
Print Assumptions C18_xstr_refines_bytes.

Example C18_xstr_example :
  x_run (x_create 2) [XCat [97;98;99]; XUnshift [90]; XInsert 2 [120;120]; XShift 1; XClone]%Z
  = [(X_OK, 3%nat, [97; 98; 99], 0); (X_OK, 4%nat, [90; 97; 98; 99], 0); (X_OK, 6%nat, [90; 97; 120; 120; 98; 99], 0);
     (X_OK, 5%nat, [97; 120; 120; 98; 99], 0); (X_OK, 5%nat, [97; 120; 120; 98; 99], 0)]%Z.
Proof. vm_compute. reflexivity. Qed.

(* ================================================================ AVL tree (iwavl.c) *)
Theorem C18_avl_insert_ok : forall (t : tree) (k : Z), bst t -> balanced t ->
  let '(t', ex) := av_insert t k in
  bst t' /\ balanced t' /\ (ex = true <-> In k (av_inorder t)) /\
  (forall x : Z, In x (av_inorder t') <-> x = k \/ In x (av_inorder t)) /\ (ex = true -> t' = t).
Proof. exact avl_insert_ok. Qed.
Print Assumptions C18_avl_insert_ok.

Theorem C18_avl_remove_ok : forall (t : tree) (k : Z), bst t -> balanced t ->
  let '(t', was) := av_remove t k in
  bst t' /\ balanced t' /\ (was = true <-> In k (av_inorder t)) /\
  (forall x : Z, In x (av_inorder t') <-> x <> k /\ In x (av_inorder t)).
Proof. exact avl_remove_ok. Qed.
Print Assumptions C18_avl_remove_ok.

Theorem C18_avl_lookup_ok : forall (t : tree) (k : Z), bst t -> av_lookup t k = true <-> In k (av_inorder t).
Proof. exact avl_lookup_ok. Qed.
Print Assumptions C18_avl_lookup_ok.

Theorem C18_avl_bounds_ok : forall (t : tree) (k : Z) (lb ub : option Z), bst t -> av_bounds t k = (lb, ub) ->
  is_lb (av_inorder t) k lb /\ is_ub (av_inorder t) k ub.
Proof. exact avl_bounds_ok. Qed.
Print Assumptions C18_avl_bounds_ok.

Theorem C18_avl_refines_set : forall ops : list aop, av_run Leaf ops = set_run nil ops.
Proof. exact avl_refines_set. Qed.
Print Assumptions C18_avl_refines_set.

Example C18_avl_example :
  av_run Leaf [AIns 5; AIns 3; AIns 8; AIns 1; AIns 2; ARm 5; AFind 4]%Z
  = [OMod false [5]; OMod false [3; 5]; OMod false [3; 5; 8]; OMod false [1; 3; 5; 8]; OMod false [1; 2; 3; 5; 8];
     OMod true [1; 2; 3; 8]; OFind false (Some 3) (Some 8)]%Z.
Proof. vm_compute. reflexivity. Qed.

(* ================================================================ memory pool (iwpool.c, allocation arithmetic) *)
Theorem C18_pool_alloc_ok : forall (p : pool) (n : nat), p_wf p ->
  let '(p', (u, off)) := p_alloc p n in
  p_wf p' /\ u = (length (p_units p') - 1)%nat /\ (off mod 8 = 0)%nat /\
  (off + roundup8 n <= unit_size p' u)%nat /\ is_suffix (p_units p) (p_units p').
Proof. exact pool_alloc_ok. Qed.
Print Assumptions C18_pool_alloc_ok.

(* all regions handed out by any sequence of alloc / strndup / copy_cstring_array calls are 8-aligned, inside their
   unit and pairwise disjoint *)
Theorem C18_pool_regions_disjoint : forall ops : list pop,
  (forall siz : nat, regions_ok (fst (p_run (p_create siz) ops)) (snd (p_run (p_create siz) ops))) /\
  regions_ok (fst (p_run p_create_empty ops)) (snd (p_run p_create_empty ops)).
Proof. exact pool_regions_disjoint. Qed.
Print Assumptions C18_pool_regions_disjoint.

Example C18_pool_example : p_wf (p_create 64) /\ p_wf p_create_empty.
Proof. split; [apply p_create_wf | apply p_create_empty_wf]. Qed.

(* ================================================================ memory pool: hierarchy x reference counting (iwpool_create_attach,
   iwpool_ref, iwpool_destroy, user data; model UT/Pforest.v, pointer level: a load or store through a pointer to a released
   pool sets f_fault).  f_run executes any list of calls, dropping the calls that pass a pool already released (the caller's
   side of the contract). *)

(* freed memory is never touched: no call sequence makes the code follow a pointer to a released pool, release a pool twice,
   or run out of the recursion bound of the model *)
Theorem C18_pforest_no_use_after_free : forall ops : list fop, f_fault (f_run f_empty ops) = false.
Proof. exact run_no_fault. Qed.
Print Assumptions C18_pforest_no_use_after_free.

(* no pool keeps a parent link to a released pool (the invariant the round-5 seeded change breaks): in every reachable state a
   live pool has a count >= 1, and its parent pointer, when set, names an OLDER LIVE pool whose child chain consists of live
   pools, contains it, and contains exactly the pools whose parent pointer names that parent *)
Theorem C18_pforest_links : forall (ops : list fop) (i : nat) (c : cell),
  let F := f_run f_empty ops in get F i = Some c ->
  (1 <= c_refs c)%Z /\
  forall q, c_parent c = Some q ->
    (q < i)%nat /\ exists qc L, get F q = Some qc /\ chain F (length (f_slots F)) (c_children qc) L /\ In i L /\
                                forall x, In x L <-> haspar F x q.
Proof. exact run_links. Qed.
Print Assumptions C18_pforest_links.

(* WHEN a pool is released.  iwpool_destroy(p) on a live pool of a reachable state: with a count other than 1 only the count
   changes.  With count 1: p is released; another pool x is released in the same call iff its parent is released in this call
   and x's count is 1; a pool whose parent is released and whose count is larger survives with count - 1 and a cleared parent
   pointer; every other pool keeps count, parent, units and user data; nothing released earlier comes back; and the releases
   logged by the call are, for every pool released in it, exactly its block (units, user data destructor when one is set,
   struct) and nothing for any other pool. *)
Theorem C18_pforest_release_rule : forall (ops : list fop) (p : nat) (c : cell),
  let f := f_run f_empty ops in get f p = Some c ->
  let f' := fst (f_destroy f p) in
  inv f' /\ snd (f_destroy f p) = (c_refs c =? 1)%Z /\
  (c_refs c <> 1%Z -> f' = set f p (with_refs c (c_refs c - 1))) /\
  (c_refs c = 1%Z ->
     get f' p = None /\
     (forall x cx, get f x = Some cx -> x <> p ->
        (get f' x = None <-> exists y, c_parent cx = Some y /\ get f' y = None /\ c_refs cx = 1%Z) /\
        (forall y, c_parent cx = Some y -> get f' y = None -> c_refs cx <> 1%Z ->
           exists cx', get f' x = Some cx' /\ c_refs cx' = (c_refs cx - 1)%Z /\ c_parent cx' = None /\ same_data cx cx') /\
        ((forall y, c_parent cx = Some y -> get f' y <> None) ->
           exists cx', get f' x = Some cx' /\ c_refs cx' = c_refs cx /\ c_parent cx' = c_parent cx /\ same_data cx cx')) /\
     (forall i, get f i = None -> get f' i = None) /\
     length (f_slots f') = length (f_slots f) /\
     exists evs, f_log f' = f_log f ++ evs /\
       forall i, (forall ci, get f i = Some ci -> get f' i = None -> evs_of i evs = block i ci) /\
                 (get f i = None \/ get f' i <> None -> evs_of i evs = [])).
Proof. intros ops p c f Hg. exact (destroy_spec f p c (inv_run ops) Hg). Qed.
Print Assumptions C18_pforest_release_rule.

(* released exactly once: in the log of any run the events of pool i are: nothing if i was never created; only destructor
   calls for replaced user data while i is alive; and for a released pool those followed by exactly ONE block
   (units, destructor if set, struct) with nothing after it *)
Theorem C18_pforest_released_once : forall (ops : list fop) (i : nat),
  let F := f_run f_empty ops in
  (length (f_slots F) <= i -> evs_of i (f_log F) = [])%nat /\
  (forall c, get F i = Some c -> Forall is_ud (evs_of i (f_log F))) /\
  ((i < length (f_slots F))%nat -> get F i = None ->
     exists pre c, Forall is_ud pre /\ evs_of i (f_log F) = pre ++ block i c).
Proof. intros ops i. exact (logok_run ops i). Qed.
Print Assumptions C18_pforest_released_once.

(* no leak: when every reference is dropped (pools in the order of creation, each pool without parent destroyed numrefs times -
   `pf drain` of the harness) no pool is left, and still nothing released is touched *)
Theorem C18_pforest_no_leak : forall ops : list fop,
  let F := f_drain (f_run f_empty ops) in f_fault F = false /\ forall j, get F j = None.
Proof. exact run_drain. Qed.
Print Assumptions C18_pforest_no_leak.

(* iwpool_alloc on a member of the forest changes the unit record of that pool only (C18_pool_alloc_ok /
   C18_pool_regions_disjoint speak about that record) *)
Theorem C18_pforest_alloc_local : forall (f : forest) (p n : nat) (c : cell), get f p = Some c ->
  let f' := fst (f_alloc f p n) in
  get f' p = Some (with_pool c (fst (p_alloc (c_pool c) n))) /\ (forall i, i <> p -> get f' i = get f i) /\
  f_log f' = f_log f /\ f_fault f' = f_fault f.
Proof. exact run_alloc. Qed.
Print Assumptions C18_pforest_alloc_local.

(* the code without `c->parent = 0;` in the child loop of iwpool_destroy (round-5 seeded change) is refuted: create, attach,
   ref(child), destroy(parent), alloc(child), destroy(child) reads the released parent *)
Theorem C18_pforest_keep_parent_refuted :
  exists ops, f_fault (f_run_v false f_empty ops) = true /\ f_fault (f_run f_empty ops) = false.
Proof. exact seed5_refuted. Qed.
Print Assumptions C18_pforest_keep_parent_refuted.

(* hypotheses satisfiable / non-trivial: a parent with two children, the older one retained by a second owner; the parent's
   death releases the parent and the younger child and leaves the older one alive, detached, with one reference *)
Example C18_pforest_example :
  let ops := [FCreate 64; FAttach (Some 0) 8; FAttach (Some 0) 0; FRef 1; FUdSet 1 (Some 7) true; FAlloc 1 100] in
  let f := f_run f_empty ops in
  let f' := fst (f_destroy f 0) in
  (map (fun i => match get f i with Some c => Some (c_refs c, c_parent c, c_children c, c_next c) | None => None end) [0; 1; 2]
   = [Some (1%Z, None, Some 2, None); Some (2%Z, Some 0, None, None); Some (1%Z, Some 0, None, Some 1)]) /\
  (map (fun i => match get f' i with Some c => Some (c_refs c, c_parent c) | None => None end) [0; 1; 2]
   = [None; Some (1%Z, None); None]) /\
  f_log f' = [EUnits 2 1; EFree 2; EUnits 0 1; EFree 0] /\
  f_log (f_drain f') = [EUnits 2 1; EFree 2; EUnits 0 1; EFree 0; EUnits 1 2; EUd 1 (Some 7); EFree 1].
Proof. vm_compute. repeat split; reflexivity. Qed.
