(* C18 - containers behave as their plain reference models for every call sequence.  Statements only. *)
Require Import ZArith List Bool Permutation.
Require Import IW.Gen.Facts.
Require Import IW.UT.Hmap IW.UT.Hmap_inv_proofs IW.UT.Hmap_proofs.
Require Import IW.UT.Ulist IW.UT.Ulist_proofs IW.UT.Sarr IW.UT.Sarr_proofs IW.UT.Rb IW.UT.Rb_proofs.
Require Import IW.UT.Xstr IW.UT.Xstr_proofs IW.UT.Avl IW.UT.Avl_proofs IW.UT.Pool IW.UT.Pool_proofs.
Require Import IW.UT.Plist IW.UT.Plist_proofs.
Require Import IW.UT.Pforest IW.UT.Pforest_proofs.
Require Import IW.UT.Hmap_own_proofs IW.UT.Hmap_iter_proofs.
Require Import IW.UT.Hmap_af IW.UT.Hmap_af_proofs IW.UT.Hmap_afsim_proofs.
Require Import IW.UT.Rb_ring_proofs.
Require Import IW.UT.AvlWalk IW.UT.AvlWalk_proofs.
Require Import IW.UT.ListSort_proofs IW.UT.Plist_own_proofs IW.UT.Sarr_run_proofs.
Require Import IW.UT.PoolStr IW.UT.PoolStr_proofs.
Require Import IW.UT.PoolBig IW.UT.PoolBig_proofs.
Import ListNotations.

(* ================================================================ T1: the static hash functions at probe points *)
Example C18_hash_u32_samples : forallb (fun p => Z.eqb (hash_u32 (fst p)) (snd p)) CONT_hash_u32_samples = true.
Proof. vm_compute. reflexivity. Qed.
Example C18_hash_u64_samples : forallb (fun p => Z.eqb (hash_u64 (fst p)) (snd p)) CONT_hash_u64_samples = true.
Proof. vm_compute. reflexivity. Qed.
Example C18_hash_str_samples : forallb (fun p => Z.eqb (hash_str (fst p)) (snd p)) CONT_hash_str_samples = true.
Proof. vm_compute. reflexivity. Qed.

(* iwchars_is_space on all 256 byte values (the trimming of iwpool_split_string) and the pointer size of the pointer arrays *)
Example C18_is_space_table :
  forallb (fun i => Bool.eqb (is_space (Z.of_nat i)) (Z.eqb (nth i CONT_is_space_table 0%Z) 1%Z)) (seq 0 256) = true /\
  length CONT_is_space_table = 256%nat /\ P_PTR_SIZE = 8%nat.
Proof. vm_compute. repeat split; reflexivity. Qed.

(* ================================================================ hash map (iwhmap.c) *)
(* For every key type with a decidable equality that cmp_fn implements, every hash function, every LRU bound (or none),
   both free-callback modes and EVERY sequence of put/get/remove/rename/clear/count/iterate/lru-walk calls, the model of
   the C code returns what the association list + recency list returns: same values, flags, counts, free-callback log
   (victims included, in order), iteration contents (as a multiset) and recency order. *)
Theorem C18_hmap_refines_map : forall (K : Type) (keq : K -> K -> bool) (hashf : K -> Z),
  (forall a b : K, keq a b = true <-> a = b) ->
  forall (max : option Z) (ikp : bool) (ops : list (hop K)),
  Forall2 (out_equiv K) (h_run K keq hashf (hnew K max ikp) ops) (Hmap.s_run K keq (s_new K max ikp) ops).
Proof. exact hmap_refines_map. Qed.
Print Assumptions C18_hmap_refines_map.

(* After every call sequence: first/last/prev/next of the LRU list describe one list L, the node heap holds exactly
   the nodes of L, the entries' node pointers are a permutation of L and every node carries its entry's key; no
   freed or unallocated node was ever dereferenced (h_fault), and the harness' forward walk returns the recency
   list of the specification with the consistency flag set. *)
Theorem C18_dll_wf : forall (K : Type) (keq : K -> K -> bool) (hashf : K -> Z),
  (forall a b : K, keq a b = true <-> a = b) ->
  forall (max : option Z) (ikp : bool) (ops : list (hop K)),
  let m := h_exec K keq hashf (hnew K max ikp) ops in
  exists L : list nat,
    dll K m L /\
    Permutation (lru_ids K (ents K (h_bkts K m))) L /\
    (forall (e : entry K) (n : nat),
       In e (ents K (h_bkts K m)) -> e_lru K e = Some n -> nkey K (h_heap K m) n = Some (e_key K e)) /\
    h_fault K m = false /\
    hlru K m = (if lru_on K m then s_rec K (s_exec K keq (s_new K max ikp) ops) else nil, true).
Proof. exact dll_wf. Qed.
Print Assumptions C18_dll_wf.

(* What a put evicts: exactly the n least recently used keys (oldest first, with the values they held), and eviction
   stops only when the bound holds or the recency list is exhausted. *)
Theorem C18_lru_victims_oldest : forall (K : Type) (keq : K -> K -> bool) (hashf : K -> Z),
  (forall a b : K, keq a b = true <-> a = b) ->
  forall (max : option Z) (ikp : bool) (ops : list (hop K)) (k : K) (v mx : Z),
  let m := clear_log K (h_exec K keq hashf (hnew K max ikp) ops) in
  let s := s_exec K keq (s_new K max ikp) ops in
  h_max K m = Some mx ->
  let m' := hput K keq hashf m k v in
  let r := rec_touch K keq s k in
  let al := (k, v) :: al_remove K keq k (s_al K s) in
  exists n : nat,
    (n <= length r)%nat /\
    tl (h_log K m') = map (fun x : K => (fkey K m x, al_val K keq x al)) (firstn n r) /\
    ((h_count K m' <= mx)%Z \/ n = length r).
Proof. exact lru_victims_oldest_run. Qed.
Print Assumptions C18_lru_victims_oldest.

(* The non-null values handed to put are, as a multiset, the values passed to the free callback plus the values still
   in the map: nothing is freed twice, nothing that left the map is forgotten. *)
Theorem C18_freed_exactly_once : forall (K : Type) (keq : K -> K -> bool) (hashf : K -> Z),
  (forall a b : K, keq a b = true <-> a = b) ->
  forall (max : option Z) (ikp : bool) (ops : list (hop K)),
  Permutation (nz (puts K ops))
    (nz (freed K (h_run K keq hashf (hnew K max ikp) ops) ++
         map snd (hiter K (h_exec K keq hashf (hnew K max ikp) ops)))).
Proof. exact freed_exactly_once. Qed.
Print Assumptions C18_freed_exactly_once.

Theorem C18_freed_at_most_once : forall (K : Type) (keq : K -> K -> bool) (hashf : K -> Z),
  (forall a b : K, keq a b = true <-> a = b) ->
  forall (max : option Z) (ikp : bool) (ops : list (hop K)),
  NoDup (nz (puts K ops)) -> NoDup (nz (freed K (h_run K keq hashf (hnew K max ikp) ops))).
Proof. exact freed_exactly_once_nodup. Qed.
Print Assumptions C18_freed_at_most_once.

(* the scenario of the iwhmap_clear defect (fixed by 1c2938e) on the model: bound 2, three puts, clear, three puts *)
Example C18_hmap_example :
  h_run Z Z.eqb hash_u32 (hnew Z (Some 2%Z) true)
    [HPut Z 1 101; HPut Z 2 102; HPut Z 3 103; HLru Z; HClear Z; HPut Z 4 104; HPut Z 5 105; HPut Z 6 106;
     HCount Z; HLru Z; HRename Z 6 5; HIter Z]%Z
  = [OPut Z 1 [(None, 0)]; OPut Z 2 [(None, 0)]; OPut Z 2 [(None, 0); (None, 101)]; OLru Z [2; 3] true;
     OClear Z 0 [(None, 103); (None, 102)]; OPut Z 1 [(None, 0)]; OPut Z 2 [(None, 0)];
     OPut Z 2 [(None, 0); (None, 104)]; OCount Z 2; OLru Z [5; 6] true; ORename Z 1 [(None, 0); (None, 105)];
     OIter Z [(5, 106)]]%Z.
Proof. vm_compute. reflexivity. Qed.
Example C18_hmap_keq_example : forall a b : Z, Z.eqb a b = true <-> a = b.
Proof. exact Z.eqb_eq. Qed.

(* ---------------------------------------------------------------- hash map: ownership over the whole life of a map *)
(* iwhmap_destroy after ANY call sequence (iwhmap_lru_init at any time included): kv_free_fn is called for exactly the
   entries still held, in iteration order; every LRU node is released (the node heap is empty); no released node is
   touched; and together with the callbacks of the run every non-null value ever put was reported exactly once. *)
Theorem C18_hmap_destroy_frees_rest : forall (K : Type) (keq : K -> K -> bool) (hashf : K -> Z),
  (forall a b : K, keq a b = true <-> a = b) ->
  forall (max : option Z) (ikp : bool) (ops : list (hop K)),
  let m := clear_log K (h_exec K keq hashf (hnew K max ikp) ops) in
  let d := hdestroy K m in
  h_log K d = map (fun p : K * Z => (fkey K m (fst p), snd p)) (hiter K m) /\
  (forall n : nat, hget K (h_heap K d) n = None) /\
  h_fault K d = false /\
  Permutation (nz (puts K ops)) (nz (freed K (h_run K keq hashf (hnew K max ikp) ops) ++ lvals K (h_log K d))).
Proof. exact destroy_frees_rest. Qed.
Print Assumptions C18_hmap_destroy_frees_rest.

(* KEYS of maps that own them (int_key_as_pointer_value = false): iwhmap_put hands `key` over, iwhmap_rename hands
   key_new over only when key_old is present (`handed`); over every call sequence these instances are, as a
   multiset, the keys shown to kv_free_fn plus the keys still held ... *)
Theorem C18_hmap_keys_conserved : forall (K : Type) (keq : K -> K -> bool) (hashf : K -> Z),
  (forall a b : K, keq a b = true <-> a = b) ->
  forall (max : option Z) (ops : list (hop K)),
  Permutation (handed K keq (s_new K max false) ops)
    (freed_keys K (h_run K keq hashf (hnew K max false) ops) ++
     map fst (hiter K (h_exec K keq hashf (hnew K max false) ops))).
Proof. exact keys_conserved. Qed.
Print Assumptions C18_hmap_keys_conserved.

(* ... and after iwhmap_destroy every key instance handed over was shown to kv_free_fn exactly once. *)
Theorem C18_hmap_keys_freed_by_destroy : forall (K : Type) (keq : K -> K -> bool) (hashf : K -> Z),
  (forall a b : K, keq a b = true <-> a = b) ->
  forall (max : option Z) (ops : list (hop K)),
  let d := hdestroy K (clear_log K (h_exec K keq hashf (hnew K max false) ops)) in
  Permutation (handed K keq (s_new K max false) ops)
    (freed_keys K (h_run K keq hashf (hnew K max false) ops) ++ okeys K (h_log K d)).
Proof. exact keys_freed_by_destroy. Qed.
Print Assumptions C18_hmap_keys_freed_by_destroy.

(* u32 / u64 maps (int_key_as_pointer_value): the callback never sees a key, not in a run and not in destroy. *)
Theorem C18_hmap_ikp_no_keys : forall (K : Type) (keq : K -> K -> bool) (hashf : K -> Z),
  (forall a b : K, keq a b = true <-> a = b) ->
  forall (max : option Z) (ops : list (hop K)),
  freed_keys K (h_run K keq hashf (hnew K max true) ops) = nil /\
  okeys K (h_log K (hdestroy K (clear_log K (h_exec K keq hashf (hnew K max true) ops)))) = nil.
Proof. exact ikp_no_keys. Qed.
Print Assumptions C18_hmap_ikp_no_keys.

(* Nothing is reported to kv_free_fn while still reachable and nothing twice: when the non-null values put are pairwise
   distinct, a value a call reports is not among the values of the iteration after that call and was not reported
   by any earlier call. *)
Theorem C18_hmap_freed_not_held : forall (K : Type) (keq : K -> K -> bool) (hashf : K -> Z),
  (forall a b : K, keq a b = true <-> a = b) ->
  forall (max : option Z) (ikp : bool) (ops : list (hop K)) (op : hop K),
  NoDup (nz (puts K (ops ++ op :: nil))) ->
  let m := h_exec K keq hashf (hnew K max ikp) ops in
  let m' := fst (h_step K keq hashf m op) in
  let o := snd (h_step K keq hashf m op) in
  forall v : Z, v <> 0%Z -> In v (lvals K (out_log K o)) ->
    ~ In v (map snd (hiter K m')) /\ ~ In v (freed K (h_run K keq hashf (hnew K max ikp) ops)).
Proof. exact freed_not_held. Qed.
Print Assumptions C18_hmap_freed_not_held.

(* the hypotheses are satisfiable: a map that owns its keys; rename of an absent key hands nothing over *)
Example C18_hmap_own_example :
  let ops := [HPut Z 1 101; HPut Z 2 102; HPut Z 1 103; HRename Z 9 4; HRename Z 2 1; HPut Z 3 0; HRemove Z 3]%Z in
  NoDup (nz (puts Z ops)) /\
  handed Z Z.eqb (s_new Z (Some 5%Z) false) ops = [1; 2; 1; 1; 3]%Z /\
  freed_keys Z (h_run Z Z.eqb hash_ptr (hnew Z (Some 5%Z) false) ops) = [1; 2; 1; 3]%Z /\
  hiter Z (h_exec Z Z.eqb hash_ptr (hnew Z (Some 5%Z) false) ops) = [(1, 102)]%Z /\
  h_log Z (hdestroy Z (clear_log Z (h_exec Z Z.eqb hash_ptr (hnew Z (Some 5%Z) false) ops))) = [(Some 1, 102)]%Z.
Proof.
  vm_compute. split; [|repeat split; reflexivity].
  repeat constructor; simpl; intuition discriminate.
Qed.

(* ---------------------------------------------------------------- hash map: the iterator, step by step *)
(* After ANY call sequence the loop `iwhmap_iter_init; while (iwhmap_iter_next)` - modelled step by step (entry = -1,
   ++entry, scan to the next bucket in use, false at the end) - delivers exactly `hiter` (every entry once, bucket
   order) in h_count successful calls and touches nothing outside the bucket array.  It ends with iter->bucket =
   n_buckets; one MORE call in that state returns false and changes nothing in the guarded variant (so do all later
   calls; guard = true is the code since fix e161ae8), while the code BEFORE e161ae8 (guard = false) read buckets[n_buckets].used, one
   element past the array (it_fault). *)
Theorem C18_hmap_iter_steps : forall (K : Type) (keq : K -> K -> bool) (hashf : K -> Z),
  (forall a b : K, keq a b = true <-> a = b) ->
  forall (max : option Z) (ikp : bool) (ops : list (hop K)),
  let m := h_exec K keq hashf (hnew K max ikp) ops in
  exists itf : iter K,
    hiter_steps K m = (hiter K m, itf, Z.to_nat (h_count K m)) /\
    it_fault K itf = false /\ it_bucket K itf = Z.to_nat (h_mask K m + 1) /\
    iter_next K true m itf = (itf, false) /\
    it_fault K (fst (iter_next K false m itf)) = true.
Proof. exact iter_steps_ok. Qed.
Print Assumptions C18_hmap_iter_steps.

(* "a further iwhmap_iter_next stays false" was FALSE of the code before fix e161ae8 (variant guard = false): witness one put, replayed on the
   library by `hm iterx` (ASan: heap-buffer-overflow READ in iwhmap_iter_next; fixes/hmap-iter-next-past-end.diff) *)
Theorem C18_hmap_iter_next_after_end_refuted :
  exists ops : list (hop Z),
    let m := h_exec Z Z.eqb hash_u32 (hnew Z None true) ops in
    let itf := snd (fst (hiter_steps Z m)) in
    it_fault Z itf = false /\ it_fault Z (fst (iter_next Z false m itf)) = true.
Proof. exists [HPut Z 1 5]%Z. vm_compute. split; reflexivity. Qed.
Print Assumptions C18_hmap_iter_next_after_end_refuted.

(* iter->hm == 0: false, nothing changes (both variants) *)
Theorem C18_hmap_iter_nohm : forall (K : Type) (g : bool) (m : hmap K),
  iter_next K g m (iter_init K false) = (iter_init K false, false).
Proof. exact iter_next_nohm. Qed.
Print Assumptions C18_hmap_iter_nohm.

(* iwhmap_lru_eviction_max_count at the boundary: count == max -> false, count == max + 1 -> true *)
Theorem C18_hmap_evmax_boundary : forall (K : Type) (m : hmap K) (mx : Z),
  (h_count K m = mx -> hevmax K m mx = false) /\ (h_count K m = mx + 1 -> hevmax K m mx = true)%Z.
Proof. exact hevmax_boundary. Qed.
Print Assumptions C18_hmap_evmax_boundary.

(* ---------------------------------------------------------------- hash map: iwhmap_lru_init at any time *)
(* C18_hmap_refines_map quantifies over op lists that contain HLruInit anywhere.  Scenario: three entries exist, then
   lru_init 1: nothing is evicted by the init; the next put (count 4 > 1) finds only ITS OWN key in the recency list,
   evicts it and stops with count 3 > 1; a get gives key 2 a node; put 5 evicts 2 and 5; lru_init 10 lifts the bound. *)
Example C18_hmap_lruinit_example :
  h_run Z Z.eqb hash_u32 (hnew Z None true)
    [HPut Z 1 101; HPut Z 2 102; HPut Z 3 103; HLruInit Z 1; HLru Z; HPut Z 4 104; HCount Z; HLru Z;
     HGet Z 2; HLru Z; HPut Z 5 105; HLru Z; HLruInit Z 10; HPut Z 6 106; HPut Z 1 111; HLru Z; HCount Z]%Z
  = [OPut Z 1 [(None, 0)]; OPut Z 2 [(None, 0)]; OPut Z 3 [(None, 0)]; OLruInit Z; OLru Z [] true;
     OPut Z 3 [(None, 0); (None, 104)]; OCount Z 3; OLru Z [] true;
     OGet Z 102 3 []; OLru Z [2] true; OPut Z 2 [(None, 0); (None, 102); (None, 105)]; OLru Z [] true; OLruInit Z;
     OPut Z 3 [(None, 0)]; OPut Z 3 [(None, 101)]; OLru Z [6; 1] true; OCount Z 3]%Z.
Proof. vm_compute. reflexivity. Qed.

(* The invariant "LRU on -> every entry has a node" generalised: after every call sequence the keys whose entry owns an
   LRU node are exactly the keys of the specification's recency list (which has no duplicates); a map whose LRU is off
   has no node. *)
Theorem C18_hmap_nodes_are_recency : forall (K : Type) (keq : K -> K -> bool) (hashf : K -> Z),
  (forall a b : K, keq a b = true <-> a = b) ->
  forall (max : option Z) (ikp : bool) (ops : list (hop K)),
  let m := h_exec K keq hashf (hnew K max ikp) ops in
  let s := s_exec K keq (s_new K max ikp) ops in
  NoDup (s_rec K s) /\
  (forall k : K, In k (s_rec K s) <->
     exists e : entry K, In e (ents K (h_bkts K m)) /\ e_key K e = k /\ e_lru K e <> None) /\
  (h_max K m = None -> forall e : entry K, In e (ents K (h_bkts K m)) -> e_lru K e = None).
Proof. exact nodes_are_recency. Qed.
Print Assumptions C18_hmap_nodes_are_recency.

(* a non-trivial reachable state meeting the invariant of C18_dll_wf: keys 5, 102, 199, 296 share one bucket (the
   harness' pointer hash x mod 97), LRU bound 3, key 5 was evicted, 102 was renamed to 296, 199 was touched *)
Example C18_hmap_dll_example :
  let m := h_exec Z Z.eqb hash_ptr (hnew Z (Some 3%Z) false)
             [HPut Z 5 1; HPut Z 102 2; HPut Z 199 3; HPut Z 7 4; HRename Z 102 296; HGet Z 199]%Z in
  (hshape Z m, hlru Z m, hiter Z m, h_fault Z m) =
    ((63, [(5%nat, 2, 4); (7%nat, 1, 4)]), ([7; 296; 199], true), [(199, 3); (296, 2); (7, 4)], false)%Z /\
  (h_first Z m, h_last Z m, map fst (h_heap Z m), lru_ids Z (ents Z (h_bkts Z m))) =
    (Some 3%nat, Some 2%nat, [2; 3; 4]%nat, [2; 4; 3]%nat).
Proof. vm_compute. split; reflexivity. Qed.

(* ---------------------------------------------------------------- hash map: allocation failure as an oracle parameter *)
(* Hmap_af.v threads an allocation oracle (a function of the history of allocation sites) through every allocation site
   of iwhmap.c.  With the oracle that never fails the map under the oracle IS the map of Hmap.v - same answers, rc = 0
   everywhere, same state, for every call sequence and both variants of the failure paths: every theorem above is a
   theorem about the oracle model with `nofail`. *)
Theorem C18_hmap_af_nofail : forall (K : Type) (keq : K -> K -> bool) (hashf : K -> Z) (code : bool)
  (ops : list (hop K)) (a : amap K), a_dang K a = nil ->
  map fst (a_run K keq hashf nofail code a ops) = h_run K keq hashf (a_m K a) ops /\
  Forall (fun o => snd o = true) (a_run K keq hashf nofail code a ops) /\
  a_m K (a_exec K keq hashf nofail code a ops) = h_exec K keq hashf (a_m K a) ops.
Proof. exact af_nofail. Qed.
Print Assumptions C18_hmap_af_nofail.

(* The `fail:` path of _rehash as it is since fix a8b271d (flag code = false; fixes/cont-hmap-rehash-fail.diff): for EVERY oracle the call either rehashes
   exactly as Hmap.rehash or returns the map unchanged; no bucket dangles, no array leaks, no value is lost. *)
Theorem C18_hmap_rehash_f_repaired : forall (K : Type) (keq : K -> K -> bool) (orc : oracle) (a : amap K) (num : Z),
  let a' := rehash_f K keq orc false a num in
  (a_m K a' = a_m K a \/ a_m K a' = rehash K keq (a_m K a) num) /\
  a_dang K a' = a_dang K a /\ a_leak K a' = a_leak K a /\ a_lost K a' = a_lost K a.
Proof. exact rehash_f_repaired. Qed.
Print Assumptions C18_hmap_rehash_f_repaired.

(* THE CODE BEFORE FIX a8b271d (flag code = true; finding cont-hmap-rehash-fail): u32 map, put 1..63, then put 64 (-> _rehash(128)) with the 20th realloc of
   the copy loop failing (`hm failat 20 readd`): every call answers rc = 0, 15 live buckets keep released entry arrays,
   19 arrays of the abandoned table leak, the lookup of key 37 reads released memory, destroy releases the arrays again.
   The repaired code on the same calls and the same oracle: nothing dangles or leaks, get 37 = 137, still 64 buckets. *)
Theorem C18_hmap_rehash_fail_refuted :
  let run (code : bool) := a_exec Z Z.eqb hash_u32 (fail_nth SReadd 20) code (a_init Z (hnew Z None true) nil) rf_ops in
  Forall (fun o => snd o = true) (a_run Z Z.eqb hash_u32 (fail_nth SReadd 20) true (a_init Z (hnew Z None true) nil) rf_ops) /\
  length (a_dang Z (run true)) = 15%nat /\ a_leak Z (run true) = 19%Z /\ h_fault Z (a_m Z (run true)) = false /\
  h_fault Z (a_m Z (fst (hget_f Z Z.eqb hash_u32 (fail_nth SReadd 20) (run true) 37%Z))) = true /\
  h_fault Z (a_m Z (hdestroy_f Z (run true))) = true /\
  a_dang Z (run false) = nil /\ a_leak Z (run false) = 0%Z /\
  h_fault Z (a_m Z (fst (hget_f Z Z.eqb hash_u32 (fail_nth SReadd 20) (run false) 37%Z))) = false /\
  snd (hget_f Z Z.eqb hash_u32 (fail_nth SReadd 20) (run false) 37%Z) = 137%Z /\
  h_fault Z (a_m Z (hdestroy_f Z (run false))) = false /\
  h_mask Z (a_m Z (run false)) = 63%Z /\ h_count Z (a_m Z (run false)) = 64%Z.
Proof. exact hmap_rehash_fail_refuted. Qed.
Print Assumptions C18_hmap_rehash_fail_refuted.

(* THE CODE BEFORE FIX a22623c (flag code = true; finding cont-hmap-rename-fail): iwhmap_rename whose _entry_add(key_new) fails after _entry_remove(key_old)
   drops the value - it is neither stored nor reported to kv_free_fn; the repaired code reports it. *)
Theorem C18_hmap_rename_fail_refuted :
  let ops := [HPut Z 1 11; HRename Z 1 2]%Z in
  let a0 := a_init Z (hnew Z None true) nil in
  map snd (a_run Z Z.eqb hash_u32 (fail_nth SAdd 2) true a0 ops) = [true; false] /\
  a_lost Z (a_exec Z Z.eqb hash_u32 (fail_nth SAdd 2) true a0 ops) = [11]%Z /\
  map fst (a_run Z Z.eqb hash_u32 (fail_nth SAdd 2) true a0 ops) = [OPut Z 1 [(None, 0)]; ORename Z 0 [(None, 0)]]%Z /\
  a_lost Z (a_exec Z Z.eqb hash_u32 (fail_nth SAdd 2) false a0 ops) = nil /\
  map fst (a_run Z Z.eqb hash_u32 (fail_nth SAdd 2) false a0 ops) = [OPut Z 1 [(None, 0)]; ORename Z 0 [(None, 0); (None, 11)]]%Z.
Proof. exact hmap_rename_fail_refuted. Qed.
Print Assumptions C18_hmap_rename_fail_refuted.

(* THE CODE (since a8b271d / a22623c: flag code = false) UNDER EVERY ALLOCATION ORACLE.  For every key type, hash function, oracle (any function of the
   history of allocation sites), LRU bound and call sequence there are failure flags - one pair per call: "the call's own
   _entry_add failed" and "the LRU node could not be allocated" - such that the map answers exactly like the association
   list + recency list specification with these flags: same values, counts, rc (a put / rename whose _entry_add failed
   answers rc != 0), same free-callback log (iteration and clear log as multisets).  In the specification a failed put
   changes nothing, a failed rename has removed key_old and reported the value to kv_free_fn(0, val), a failed node
   allocation leaves the key out of the recency list; failures of _rehash (calloc or any realloc of the copy loop), of the
   step realloc of _entry_remove and of the realloc of iwhmap_clear are invisible. *)
Theorem C18_hmap_af_refines : forall (K : Type) (keq : K -> K -> bool) (hashf : K -> Z),
  (forall a b : K, keq a b = true <-> a = b) ->
  forall (orc : oracle) (max : option Z) (ikp : bool) (hist : list site) (ops : list (hop K)),
  exists fls : list aflag, length fls = length ops /\
    Forall2 (aout_equiv K) (a_run K keq hashf orc false (a_init K (hnew K max ikp) hist) ops)
                           (s_run_a K keq fls (s_new K max ikp) ops).
Proof. exact af_refines_new. Qed.
Print Assumptions C18_hmap_af_refines.

(* ... and every state it reaches satisfies the invariant of C18_dll_wf: one list explains first/last/prev/next, the
   node heap is that list, entries' nodes = the list, node keys = entry keys, NO released memory was touched (h_fault),
   count = number of entries; no bucket dangles, no array leaked, no value was lost. *)
Theorem C18_hmap_af_invariant : forall (K : Type) (keq : K -> K -> bool) (hashf : K -> Z),
  (forall a b : K, keq a b = true <-> a = b) ->
  forall (orc : oracle) (max : option Z) (ikp : bool) (hist : list site) (ops : list (hop K)),
  let a := a_exec K keq hashf orc false (a_init K (hnew K max ikp) hist) ops in
  exists L : list nat,
    dll K (a_m K a) L /\ Permutation (lru_ids K (ents K (h_bkts K (a_m K a)))) L /\
    (forall (e : entry K) (n : nat), In e (ents K (h_bkts K (a_m K a))) -> e_lru K e = Some n ->
       nkey K (h_heap K (a_m K a)) n = Some (e_key K e)) /\
    h_fault K (a_m K a) = false /\ h_count K (a_m K a) = Z.of_nat (length (ents K (h_bkts K (a_m K a)))) /\
    a_dang K a = nil /\ a_leak K a = 0%Z /\ a_lost K a = nil.
Proof. exact af_invariant. Qed.
Print Assumptions C18_hmap_af_invariant.

(* A put that answers rc != 0 has left the map literally unchanged (key and value stay with the caller). *)
Theorem C18_hmap_af_put_fail_unchanged : forall (K : Type) (keq : K -> K -> bool) (hashf : K -> Z) (orc : oracle)
  (a : amap K) (k : K) (v : Z), a_dang K a = nil ->
  snd (hput_f K keq hashf orc false a k v) = false ->
  a_m K (fst (hput_f K keq hashf orc false a k v)) = a_m K a /\ quiet K a (fst (hput_f K keq hashf orc false a k v)).
Proof. exact put_fail_unchanged. Qed.
Print Assumptions C18_hmap_af_put_fail_unchanged.

(* Freed exactly once, failures included: the non-null values of the puts that answered rc = 0 are, as a multiset, the
   values reported to kv_free_fn plus the values still held. *)
Theorem C18_hmap_af_freed_exactly_once : forall (K : Type) (keq : K -> K -> bool) (hashf : K -> Z),
  (forall a b : K, keq a b = true <-> a = b) ->
  forall (orc : oracle) (max : option Z) (ikp : bool) (hist : list site) (ops : list (hop K)),
  let a0 := a_init K (hnew K max ikp) hist in
  let outs := a_run K keq hashf orc false a0 ops in
  Permutation (nz (puts_ok K ops outs))
    (nz (freed K (map fst outs) ++ map snd (hiter K (a_m K (a_exec K keq hashf orc false a0 ops))))).
Proof. exact af_freed_exactly_once. Qed.
Print Assumptions C18_hmap_af_freed_exactly_once.

(* a run of the repaired code with three failures: the 2nd _entry_add of a put (rc != 0, nothing changes), the first LRU
   node (key 1 never enters the recency list), and the _entry_add of a rename (entry gone, value 13 reported) *)
Example C18_hmap_af_example :
  let orc : oracle := fun h => match h with
                               | SAdd :: t => Nat.eqb (length (filter (is_site SAdd) h)) 2 || Nat.eqb (length (filter (is_site SAdd) h)) 5
                               | SNode :: t => Nat.eqb (length (filter (is_site SNode) h)) 1
                               | _ => false end in
  a_run Z Z.eqb hash_u32 orc false (a_init Z (hnew Z (Some 5%Z) true) nil)
    [HPut Z 1 11; HPut Z 2 12; HPut Z 2 12; HPut Z 3 13; HLru Z; HRename Z 3 4; HCount Z; HGet Z 1; HLru Z]%Z
  = [(OPut Z 1 [(None, 0)], true); (OPut Z 1 [], false); (OPut Z 2 [(None, 0)], true); (OPut Z 3 [(None, 0)], true);
     (OLru Z [2; 3] true, true); (ORename Z 2 [(None, 0); (None, 13)], false); (OCount Z 2, true);
     (OGet Z 11 2 [], true); (OLru Z [2; 1] true, true)]%Z.
Proof. vm_compute. reflexivity. Qed.

(* ================================================================ unit list (iwulist, byte level) *)
Theorem C18_ulist_refines_list : forall (il us : nat) (ops : list uop),
  (0 < us)%nat -> Forall (uop_ok us) ops -> u_run (u_init il us) ops = l_run nil ops.
Proof. exact ulist_refines_list. Qed.
Print Assumptions C18_ulist_refines_list.

(* the scenario of the iwulist_clone defect (fixed by 8c4442d): clone of a list whose start is not 0, usize 4 *)
Example C18_ulist_example :
  u_run (u_init 0 4) [UPush [1;2;3;4]; UUnshift [5;6;7;8]; UClone; UInsert 1 [9;9;9;9]; UShift; UGet 0]%Z
  = [ORc U_OK; ORc U_OK; OList [[5; 6; 7; 8]; [1; 2; 3; 4]]; ORc U_OK; ORc U_OK; OUnit (Some [9; 9; 9; 9])]%Z.
Proof. vm_compute. reflexivity. Qed.

(* ================================================================ pointer list (iwlist, slot level) *)
Theorem C18_plist_refines_list : forall (an : nat) (ops : list plop), pl_run (pl_init an) ops = list_run nil ops.
Proof. exact plist_refines_list. Qed.
Print Assumptions C18_plist_refines_list.

Example C18_plist_example : pl_run (pl_init 0) [PLPush [97;97]; PLUnshift [98]; PLClone; PLShift]%Z
  = list_run nil [PLPush [97;97]; PLUnshift [98]; PLClone; PLShift]%Z.
Proof. vm_compute. reflexivity. Qed.

(* iwlist_shift across its compaction threshold, in every state an API user can reach (any initial allocation, any call
   sequence): the head element is handed out (it is read BEFORE the array is compacted), the remaining items are the
   tail, the allocation is unchanged, and the array is compacted (start = 0) exactly when the new start offset is a
   multiple of 256 and exceeds half the remaining count - otherwise the start offset advances by one. *)
Theorem C18_plist_shift_compaction : forall (an : nat) (ops : list plop) (x : list Z) (t : list (list Z)),
  list_exec nil ops = x :: t ->
  let l := pl_exec (pl_init an) ops in
  snd (pl_shift l) = (PL_OK, Some x) /\
  pl_items (fst (pl_shift l)) = t /\
  pl_anum (fst (pl_shift l)) = pl_anum l /\
  pl_start (fst (pl_shift l)) =
    (if Nat.eqb ((pl_start l + 1) mod 256) 0 && ((pl_num l - 1) / 2 <? pl_start l + 1) then 0 else pl_start l + 1).
Proof. exact shift_compaction_reachable. Qed.
Print Assumptions C18_plist_shift_compaction.

(* 512 pushes and 255 shifts: the next shift is the one that compacts, with 256 items left *)
Example C18_plist_shift_compaction_example :
  let ops := map (fun i => PLPush [Z.of_nat i]) (seq 0 512) ++ repeat PLShift 255 in
  let l := pl_exec (pl_init 0) ops in
  hd nil (list_exec nil ops) = [255%Z] /\ pl_start l = 255 /\ pl_num l = 257 /\
  pl_start (fst (pl_shift l)) = 0 /\ pl_num (fst (pl_shift l)) = 256 /\ snd (pl_shift l) = (PL_OK, Some [255%Z]).
Proof. vm_compute. repeat split; reflexivity. Qed.

(* The order "read the element, then compact" is essential.  [pl_shift_late] is the variant that reads array[index] after
   the compaction (NOT the code; the change seeded in round 2): it answers like the code in every reachable state
   outside the window "the shift compacts while more than `start` items remain" ... *)
Theorem C18_plist_shift_late_window : forall (an : nat) (ops : list plop),
  let l := pl_exec (pl_init an) ops in
  (Nat.eqb ((pl_start l + 1) mod 256) 0 && ((pl_num l - 1) / 2 <? pl_start l + 1) = false \/ pl_num l - 1 <= pl_start l) ->
  pl_shift_late l = pl_shift l.
Proof. exact shift_late_window_reachable. Qed.
Print Assumptions C18_plist_shift_late_window.

(* the window is not hit by 512 pushes and 254 shifts (no compaction yet) *)
Example C18_plist_shift_late_window_example :
  let l := pl_exec (pl_init 0) (map (fun i => PLPush [Z.of_nat i]) (seq 0 512) ++ repeat PLShift 254) in
  Nat.eqb ((pl_start l + 1) mod 256) 0 && ((pl_num l - 1) / 2 <? pl_start l + 1) = false /\ pl_shift_late l = pl_shift l.
Proof. vm_compute. split; reflexivity. Qed.

(* ... and inside the window it hands out the element `start` positions further down (refutation of the variant by a
   reachable state: 512 pushes, 255 shifts, then the 256th shift; replayed on the real code by
   corpus/C18/iwlist-shift-compact-512.txt) *)
Theorem C18_plist_shift_late_refuted :
  pl_wf late_witness /\ pl_compacts late_witness = true /\ pl_start late_witness = 255 /\ pl_num late_witness = 257 /\
  snd (pl_shift late_witness) = (PL_OK, Some [255%Z]) /\
  snd (pl_shift_late late_witness) = (PL_OK, Some [511%Z]).
Proof. exact shift_late_refuted. Qed.
Print Assumptions C18_plist_shift_late_refuted.

(* ================================================================ both lists: state invariant, sort, ownership *)
(* outputs AND state in one statement per list: after every call sequence the byte-level / slot-level structure is well formed
   and its live elements are exactly the reference list *)
Theorem C18_ulist_refines_list_inv : forall (il us : nat) (ops : list uop), (0 < us)%nat -> Forall (uop_ok us) ops ->
  let l := u_exec (u_init il us) ops in
  u_run (u_init il us) ops = l_run [] ops /\
  u_wf l /\ u_usize l = us /\ u_units l = ListSort_proofs.l_exec [] ops /\ u_num l = length (ListSort_proofs.l_exec [] ops).
Proof. exact ulist_refines_list_inv. Qed.
Print Assumptions C18_ulist_refines_list_inv.

Theorem C18_plist_refines_list_inv : forall (an : nat) (ops : list plop),
  let l := pl_exec (pl_init an) ops in
  pl_run (pl_init an) ops = list_run [] ops /\
  pl_wf l /\ pl_items l = list_exec [] ops /\ pl_num l = length (list_exec [] ops).
Proof. exact plist_refines_list_inv. Qed.
Print Assumptions C18_plist_refines_list_inv.

(* reachable states that went through a growth (33rd push: anum 32 -> 65), an unshift relocation (start 0 -> 32, then 31) and,
   two shifts later, the shrink (anum >= 2 * num: compaction to start 0 and anum 32) *)
Example C18_ulist_reachable_example :
  let ops := map (fun i => UPush [Z.of_nat i]) (seq 0 33) ++ [UUnshift [99%Z]] ++ repeat UShift 1 in
  let l := u_exec (u_init 0 1) ops in
  let l2 := u_exec (u_init 0 1) (ops ++ repeat UShift 2) in
  (u_anum l, u_start l, u_num l) = (65, 32, 33)%nat /\ hd_error (u_units l) = Some [0%Z] /\
  (u_anum l2, u_start l2, u_num l2) = (32, 1, 31)%nat /\ hd_error (u_units l2) = Some [2%Z].
Proof. vm_compute. repeat split; reflexivity. Qed.

(* SORT.  The library sorts with sort_r (quicksort), the models with an insertion sort.  For the comparators of the harness
   (bytes_leb = memcmp over the common prefix, then the shorter string first) the sorted result is unique, so the algorithm is
   irrelevant: after ANY call sequence iwulist_sort / iwlist_sort leave the list sorted, a permutation of what it held, and
   equal to every sorted permutation of it *)
Theorem C18_ulist_sort_correct : forall (il us : nat) (ops : list uop), (0 < us)%nat -> Forall (uop_ok us) ops ->
  let s := sort_units (ListSort_proofs.l_exec [] ops) in
  u_run (u_init il us) (ops ++ [USort; UClone]) = l_run [] ops ++ [ORc U_OK; OList s] /\
  Sorted.StronglySorted bytes_le s /\ Permutation s (ListSort_proofs.l_exec [] ops) /\
  (forall s', Sorted.StronglySorted bytes_le s' -> Permutation s' (ListSort_proofs.l_exec [] ops) -> s' = s).
Proof. exact ulist_sort_reachable. Qed.
Print Assumptions C18_ulist_sort_correct.

Theorem C18_plist_sort_correct : forall (an : nat) (ops : list plop),
  let s := pl_sort_items (list_exec [] ops) in
  pl_run (pl_init an) (ops ++ [PLSort; PLClone]) = list_run [] ops ++ [PLORc PL_OK; PLOList s] /\
  Sorted.StronglySorted bytes_le s /\ Permutation s (list_exec [] ops) /\
  (forall s', Sorted.StronglySorted bytes_le s' -> Permutation s' (list_exec [] ops) -> s' = s).
Proof. exact plist_sort_reachable. Qed.
Print Assumptions C18_plist_sort_correct.

(* the order of the model is memcmp's (unsigned bytes as Z in 0..255): decided by the first differing byte, else by the lengths *)
Theorem C18_sort_order_is_memcmp : forall a b : list Z,
  bytes_leb a b = match memcmp_lt a b with Some lt => lt | None => (length a <=? length b)%nat end.
Proof. exact bytes_leb_is_memcmp. Qed.
Print Assumptions C18_sort_order_is_memcmp.

Example C18_sort_example :
  sort_units [[3; 200]; [1; 5]; [3; 7]; [1; 5]]%Z = [[1; 5]; [1; 5]; [3; 7]; [3; 200]]%Z /\
  pl_sort_items [[98]; [97; 98]; []; [97]]%Z = [[]; [97]; [97; 98]; [98]]%Z.
Proof. vm_compute. split; reflexivity. Qed.

(* OWNERSHIP of iwlist (a malloc'ed copy per item).  iwlist_destroy after ANY call sequence frees exactly the live items of the
   reference list, in order - never one of the stale pointers that pop / shift / remove / the compaction leave in the array *)
Theorem C18_plist_destroy_frees_live : forall (an : nat) (ops : list plop),
  pl_destroy (pl_exec (pl_init an) ops) = map (@Some (list Z)) (list_exec [] ops).
Proof. exact plist_destroy_frees_live. Qed.
Print Assumptions C18_plist_destroy_frees_live.

(* ... and every byte string stored by a successful push / unshift / insert / set ends in exactly one place: handed to the caller
   by pop / shift / remove, overwritten in place by a later set, or freed by destroy *)
Theorem C18_plist_freed_exactly_once : forall (an : nat) (ops : list plop),
  Permutation (pl_stored_run [] ops)
    (pl_handed_run ops (pl_run (pl_init an) ops) ++ pl_overwritten_run [] ops ++
     map slot_bytes (pl_destroy (pl_exec (pl_init an) ops))).
Proof. exact plist_ownership. Qed.
Print Assumptions C18_plist_freed_exactly_once.

Theorem C18_plist_freed_at_most_once : forall (an : nat) (ops : list plop), NoDup (pl_stored_run [] ops) ->
  NoDup (pl_handed_run ops (pl_run (pl_init an) ops) ++ pl_overwritten_run [] ops ++
         map slot_bytes (pl_destroy (pl_exec (pl_init an) ops))).
Proof. exact plist_released_once. Qed.
Print Assumptions C18_plist_freed_at_most_once.

(* the hypothesis is satisfiable and the parts are non-trivial: unique items, one of each way out *)
Example C18_plist_ownership_example :
  let ops := [PLPush [1]; PLPush [2]; PLUnshift [3]; PLInsert 1 [4]; PLSet 0 [5]; PLShift; PLPop; PLRemove 5; PLInsert 9 [6]]%Z in
  NoDup (pl_stored_run [] ops) /\
  pl_stored_run [] ops = [[1]; [2]; [3]; [4]; [5]]%Z /\
  pl_handed_run ops (pl_run (pl_init 0) ops) = [[5]; [2]]%Z /\ pl_overwritten_run [] ops = [[3]]%Z /\
  pl_destroy (pl_exec (pl_init 0) ops) = [Some [4]; Some [1]]%Z.
Proof.
  cbv zeta. split; [| vm_compute; repeat split; reflexivity].
  vm_compute. repeat constructor; cbn; intuition discriminate.
Qed.

(* ================================================================ sorted-array helpers (binary search) *)
Theorem C18_sorted_find2_correct : forall (A : Type) (cmp : A -> A -> Z) (dflt : A) (key : A -> Z),
  (forall a b : A, (cmp a b =? 0)%Z = (key a =? key b)%Z /\ (cmp a b <? 0)%Z = (key a <? key b)%Z) ->
  forall (els : list A) (e : A) (i : Z) (f : bool),
  Sarr_proofs.sorted A dflt key els ->
  sorted_find2 A cmp dflt els e = (i, f) ->
  (0 <= i <= Z.of_nat (length els))%Z /\
  (f = true -> (i < Z.of_nat (length els))%Z /\ key (el A dflt els i) = key e) /\
  (f = false ->
     (forall j : Z, (0 <= j < i)%Z -> (key (el A dflt els j) < key e)%Z) /\
     (forall j : Z, (i <= j < Z.of_nat (length els))%Z -> (key e < key (el A dflt els j))%Z)).
Proof. exact sorted_find2_correct. Qed.
Print Assumptions C18_sorted_find2_correct.

Theorem C18_sorted_find_correct : forall (A : Type) (cmp : A -> A -> Z) (dflt : A) (key : A -> Z),
  (forall a b : A, (cmp a b =? 0)%Z = (key a =? key b)%Z /\ (cmp a b <? 0)%Z = (key a <? key b)%Z) ->
  forall (els : list A) (e : A),
  Sarr_proofs.sorted A dflt key els ->
  let i := sorted_find A cmp dflt els e in
  i = (-1)%Z /\ (forall a : A, In a els -> key a <> key e) \/
  (0 <= i < Z.of_nat (length els))%Z /\ key (el A dflt els i) = key e.
Proof. exact sorted_find_correct. Qed.
Print Assumptions C18_sorted_find_correct.

Theorem C18_sorted_insert_correct : forall (A : Type) (cmp : A -> A -> Z) (dflt : A) (key : A -> Z),
  (forall a b : A, (cmp a b =? 0)%Z = (key a =? key b)%Z /\ (cmp a b <? 0)%Z = (key a <? key b)%Z) ->
  forall (els : list A) (e : A) (skipeq : bool) (els' : list A) (i : Z),
  Sarr_proofs.sorted A dflt key els ->
  sorted_insert A cmp dflt els e skipeq = (els', i) ->
  i = (-1)%Z /\ els' = els /\ skipeq = true /\ (exists a : A, In a els /\ key a = key e) \/
  (0 <= i)%Z /\ Sarr_proofs.sorted A dflt key els' /\ Permutation els' (e :: els) /\
  nth_error els' (Z.to_nat i) = Some e /\ (skipeq = true -> forall a : A, In a els -> key a <> key e).
Proof. exact sorted_insert_correct. Qed.
Print Assumptions C18_sorted_insert_correct.

Theorem C18_sorted_remove_correct : forall (A : Type) (cmp : A -> A -> Z) (dflt : A) (key : A -> Z),
  (forall a b : A, (cmp a b =? 0)%Z = (key a =? key b)%Z /\ (cmp a b <? 0)%Z = (key a <? key b)%Z) ->
  forall (els : list A) (e : A) (els' : list A) (i : Z),
  Sarr_proofs.sorted A dflt key els ->
  sorted_remove A cmp dflt els e = (els', i) ->
  i = (-1)%Z /\ els' = els /\ (forall a : A, In a els -> key a <> key e) \/
  (0 <= i < Z.of_nat (length els))%Z /\ key (el A dflt els i) = key e /\ els' = del_at A els i /\
  Sarr_proofs.sorted A dflt key els' /\ Permutation els (el A dflt els i :: els').
Proof. exact sorted_remove_correct. Qed.
Print Assumptions C18_sorted_remove_correct.

Example C18_sorted_example :
  sorted_insert (Z * Z) (fun a b => fst a - fst b)%Z (0, 0)%Z [(1, 1); (3, 2); (5, 3)]%Z (3, 9)%Z false
  = ([(1, 1); (3, 9); (3, 2); (5, 3)]%Z, 1%Z).
Proof. vm_compute. reflexivity. Qed.

(* ONE statement over operation lists: starting from the empty array, after EVERY list of insert (skipeq yes / no) / remove /
   find / find2 calls the array is sorted, its key sequence is exactly the ascending reference list of keys with multiplicity
   (insert adds one key unless skipeq and the key is present; remove deletes one occurrence), and find answers membership
   with a correct index *)
Theorem C18_sorted_refines_keys : forall (A : Type) (cmp : A -> A -> Z) (dflt : A) (key : A -> Z),
  (forall a b : A, (cmp a b =? 0)%Z = (key a =? key b)%Z /\ (cmp a b <? 0)%Z = (key a <? key b)%Z) ->
  forall ops : list (sop A),
  let els := sa_exec A cmp dflt [] ops in
  Sarr_proofs.sorted A dflt key els /\ map key els = k_exec A key [] ops /\
  Sorted.StronglySorted zle (map key els) /\
  (forall e : A, let i := sorted_find A cmp dflt els e in
     (i = (-1)%Z /\ k_mem (key e) (k_exec A key [] ops) = false) \/
     ((0 <= i < Z.of_nat (length els))%Z /\ key (el A dflt els i) = key e /\ k_mem (key e) (k_exec A key [] ops) = true)).
Proof. exact sarr_refines_sorted_keys. Qed.
Print Assumptions C18_sorted_refines_keys.

(* with duplicates: keys 5 3 5 (kept) 3 (skipped: skipeq) 4, remove one 5, remove the absent 7 *)
Example C18_sorted_run_example :
  let cmp := (fun a b : Z * Z => fst a - fst b)%Z in
  let ops := [SIns _ (5, 1) false; SIns _ (3, 2) false; SIns _ (5, 3) false; SIns _ (3, 4) true; SIns _ (4, 5) true;
              SRm _ (5, 0); SRm _ (7, 0)]%Z in
  map fst (sa_exec (Z * Z) cmp (0, 0)%Z [] ops) = [3; 4; 5]%Z /\ k_exec (Z * Z) fst [] ops = [3; 4; 5]%Z /\
  sa_run (Z * Z) cmp (0, 0)%Z [] ops = [SOIdx 0; SOIdx 0; SOIdx 1; SOIdx (-1); SOIdx 1; SOIdx 2; SOIdx (-1)]%Z.
Proof. vm_compute. repeat split; reflexivity. Qed.

(* ================================================================ ring buffer (iwrb.c) *)
(* put / clear anywhere, back while the ring has not wrapped: count, newest unit and the iteration are those of the
   bounded newest-first list *)
Theorem C18_rb_refines_deque : forall (U : Type) (dflt : U) (len : Z) (ops : list (rop U)),
  (0 < len)%Z -> back_safe U len 0 false ops ->
  rb_run U dflt (rb_create U dflt len) ops = d_run U len nil ops.
Proof. exact rb_refines_deque. Qed.
Print Assumptions C18_rb_refines_deque.

(* THE RING AT FULL STRENGTH.  The ring has no count field: pos < 0 = -pos slots filled, pos > 0 = wrapped with the newest
   unit in slot pos - 1, and a wrapped ring always reports len units.  Exact reference g_step: state = (wrapped, newest-first
   list); put conses and cuts to len (setting the flag when the list was full); back drops the newest unit while the ring
   has not wrapped and ROTATES afterwards (the unit reappears as the oldest one); clear resets.  For every capacity and EVERY
   sequence of put / back / clear - no hypothesis on the order - count, peek and the complete iteration agree. *)
Theorem C18_rb_refines_ring : forall (U : Type) (dflt : U) (len : Z) (ops : list (rop U)), (0 < len)%Z ->
  rb_run U dflt (rb_create U dflt len) ops = g_run U len (false, []) ops.
Proof. exact rb_refines_ring. Qed.
Print Assumptions C18_rb_refines_ring.

(* every reachable ring: related to the reference state, wrapped exactly when the reference says so and then holding exactly
   len units; the position stays within -len .. len and the buffer keeps its len slots *)
Theorem C18_rb_reachable_inv : forall (U : Type) (dflt : U) (len : Z) (ops : list (rop U)), (0 < len)%Z ->
  let r := rb_exec U (rb_create U dflt len) ops in
  let s := g_exec U len (false, []) ops in
  rb_rel U dflt len r (snd s) /\ fst s = (0 <? r_pos U r)%Z /\
  (Z.of_nat (length (snd s)) <= len)%Z /\ (fst s = true -> Z.of_nat (length (snd s)) = len) /\
  (- len <= r_pos U r <= len)%Z /\ r_len U r = len /\ length (r_buf U r) = Z.to_nat len.
Proof. exact rb_reachable_inv. Qed.
Print Assumptions C18_rb_reachable_inv.

(* "the ring holds exactly the last cap items in order": after cap or more puts in a row - whatever happened before, backs on a
   wrapped ring included - the iteration is exactly the last len units put, newest first, the count is len, peek is the last one *)
Theorem C18_rb_put_heals : forall (U : Type) (dflt : U) (len : Z), (0 < len)%Z ->
  forall (ops : list (rop U)) (xs : list U), (Z.to_nat len <= length xs)%nat ->
  let r := rb_exec U (rb_create U dflt len) (ops ++ map (RPut U) xs) in
  rb_iter U dflt r = firstn (Z.to_nat len) (rev xs) /\ rb_num_cached U r = len /\ rb_peek U dflt r = hd_error (rev xs).
Proof. exact rb_put_heals. Qed.
Print Assumptions C18_rb_put_heals.

(* the iterator: once iwrb_iter_prev has returned NULL it keeps returning NULL; and the iteration of a reachable ring ends by
   that NULL after at most len units (a larger loop bound yields the same units) *)
Theorem C18_rb_iter_null_stays : forall (U : Type) (dflt : U) (r : rb U) (st st' : Z * Z),
  it_prev U dflt r st = (None, st') -> it_prev U dflt r st' = (None, st').
Proof. exact it_prev_null_stays. Qed.
Print Assumptions C18_rb_iter_null_stays.

Theorem C18_rb_iter_ends_by_null : forall (U : Type) (dflt : U) (len : Z), (0 < len)%Z ->
  forall (r : rb U) (d : list U) (extra : nat), rb_rel U dflt len r d ->
  it_all U dflt (S (S (S (Z.to_nat (r_len U r)))) + extra) r (it_init U r) = d /\ (Z.of_nat (length d) <= len)%Z.
Proof. exact rb_iter_fuel_irrelevant. Qed.
Print Assumptions C18_rb_iter_ends_by_null.

(* back on a wrapped ring (incl. position 1, the defect fixed by fe01ba6): the newest unit afterwards is the second newest before *)
Theorem C18_rb_back_wrapped_peek : forall (U : Type) (dflt : U) (len : Z),
  (0 < len)%Z ->
  forall (r : rb U) (d : list U),
  rb_rel U dflt len r d -> (0 < r_pos U r)%Z -> (2 <= length d)%nat ->
  rb_peek U dflt (rb_back U r) = nth_error d 1.
Proof. exact rb_back_wrapped_peek. Qed.
Print Assumptions C18_rb_back_wrapped_peek.

(* the bounded-deque statement without the hypothesis back_safe is FALSE of the code: capacity 3, put 1 2 3 4, back: the
   deque holds 3 2, the ring reports 3 units and iterates 3 2 4 (finding C18-rb-back-wrapped, notes/cont.md) *)
Theorem C18_rb_deque_refuted : exists ops : list (rop Z),
  rb_run Z 0%Z (rb_create Z 0%Z 3) ops <> d_run Z 3 [] ops /\
  rb_run Z 0%Z (rb_create Z 0%Z 3) ops = g_run Z 3 (false, []) ops /\
  last (rb_run Z 0%Z (rb_create Z 0%Z 3) ops) (0%Z, None, []) = (3%Z, Some 3%Z, [3; 2; 4]%Z) /\
  last (d_run Z 3 [] ops) (0%Z, None, []) = (2%Z, Some 3%Z, [3; 2]%Z).
Proof. exact rb_deque_refuted. Qed.
Print Assumptions C18_rb_deque_refuted.

(* a reachable wrapped ring after a back at position 1: capacity 3, seven puts, two backs (the second one from slot 1 to slot 3) *)
Example C18_rb_ring_example :
  let ops := [RPut Z 1; RPut Z 2; RPut Z 3; RPut Z 4; RPut Z 5; RBack Z; RBack Z; RPut Z 6]%Z in
  let r := rb_exec Z (rb_create Z 0%Z 3) ops in
  g_exec Z 3 (false, []) ops = (true, [6; 3; 5]%Z) /\ r_pos Z r = 1%Z /\ rb_iter Z 0%Z r = [6; 3; 5]%Z /\
  rb_rel Z 0%Z 3 r [6; 3; 5]%Z.
Proof.
  cbv zeta. split; [vm_compute; reflexivity |]. split; [vm_compute; reflexivity |]. split; [vm_compute; reflexivity |].
  exact (proj1 (rb_reachable_inv Z 0%Z 3 _ eq_refl)).
Qed.

Example C18_rb_example :
  rb_run Z 0%Z (rb_create Z 0%Z 3) [RPut Z 1; RPut Z 2; RBack Z; RPut Z 3; RPut Z 4; RPut Z 5]%Z
  = [(1, Some 1, [1]); (2, Some 2, [2; 1]); (1, Some 1, [1]); (2, Some 3, [3; 1]); (3, Some 4, [4; 3; 1]);
     (3, Some 5, [5; 4; 3])]%Z.
Proof. vm_compute. reflexivity. Qed.

(* ================================================================ growable string (iwxstr.c, byte level) *)
(* ONE statement over operation lists (cat, unshift, shift, pop, insert, clear, clone, set_size).  Reference state = the byte
   string and the byte t that sits where the terminator belongs: 0 after every call except iwxstr_set_size, which writes no
   terminator (after shrinking to n it is the old data byte n; insert moves it along; shift 0 / pop 0 / an empty or out-of-bounds
   insert leave it).  Every call answers as the reference does - return code, size, data and that byte - and the state keeps
   its invariant: buffer length = asize, size < asize, data = reference.  Hypothesis sz_ok: no set_size GROWS the string
   (growing exposes bytes nobody wrote; C18_xstr_set_size_grow says what holds then) *)
Theorem C18_xstr_refines_bytes : forall (siz : nat) (ops : list xop), sz_ok ([], 0%Z) ops ->
  x_run (x_create siz) ops = Xstr.s_run ([], 0%Z) ops /\
  let x := x_exec (x_create siz) ops in
  let st := xs_exec ([], 0%Z) ops in
  length (x_mem x) = x_asize x /\ (x_size x < x_asize x)%nat /\ x_data x = fst st /\ x_term x = snd st /\
  x_size x = length (fst st).
Proof. exact xstr_refines_bytes. Qed.
Print Assumptions C18_xstr_refines_bytes.

(* without set_size there is no hypothesis at all, and the string is terminated after every call sequence *)
Theorem C18_xstr_refines_bytes_terminated : forall (siz : nat) (ops : list xop), Forall no_set_size ops ->
  x_run (x_create siz) ops = Xstr.s_run ([], 0%Z) ops /\
  x_inv (x_exec (x_create siz) ops) /\ x_data (x_exec (x_create siz) ops) = fst (xs_exec ([], 0%Z) ops).
Proof. exact xstr_refines_bytes_terminated. Qed.
Print Assumptions C18_xstr_refines_bytes_terminated.

(* iwxstr_set_size beyond the size, from any state of the invariant: size = n, room for a terminator (n < asize), the old data
   and the byte after it are where they were, asize never shrinks *)
Theorem C18_xstr_set_size_grow : forall (x : xstr) (n : nat) (t : Z), x_invt x t -> (x_size x < n)%nat ->
  let x' := x_set_size x n in
  x_size x' = n /\ (n < x_asize x')%nat /\ length (x_mem x') = x_asize x' /\
  firstn (x_size x) (x_mem x') = x_data x /\ nth (x_size x) (x_mem x') (-1)%Z = t /\ (x_asize x <= x_asize x')%nat.
Proof. exact x_set_size_grow. Qed.
Print Assumptions C18_xstr_set_size_grow.

(* iwxstr_printf_alloc starts from `struct iwxstr xstr = {0}` (no buffer, asize 0): the result holds the text, terminated, in a
   block of exactly len + 1 bytes; iwxstr_new_printf = create_empty + printf *)
Theorem C18_xstr_printf_alloc : forall bs : list Z,
  (x_inv (x_printf_alloc bs) /\ x_data (x_printf_alloc bs) = bs /\ x_asize (x_printf_alloc bs) = (length bs + 1)%nat) /\
  (x_inv (x_new_printf bs) /\ x_data (x_new_printf bs) = bs).
Proof. intro bs. exact (conj (x_printf_alloc_spec bs) (x_new_printf_spec bs)). Qed.
Print Assumptions C18_xstr_printf_alloc.

(* iwxstr_wrap of a heap buffer of max(asize, 1) bytes holding size <= asize data bytes: terminated, same data, and a buffer with
   room for the terminator (reallocated to size + 1 when the caller's buffer is full) *)
Theorem C18_xstr_wrap : forall (buf : list Z) (size asize : nat), length buf = Nat.max asize 1 -> (size <= asize)%nat ->
  x_inv (x_wrap buf size asize) /\ x_data (x_wrap buf size asize) = firstn size buf /\
  x_asize (x_wrap buf size asize) = (if (asize <=? size)%nat then (size + 1)%nat else asize).
Proof. exact x_wrap_spec. Qed.
Print Assumptions C18_xstr_wrap.

(* OWNERSHIP of the user datum: over every sequence of iwxstr_user_data_set / get / detach calls ended by iwxstr_destroy or
   iwxstr_destroy_keep_ptr the destructor calls are xu_freed; every datum destroyed was installed with a destructor; with pairwise
   distinct data none is destroyed twice; without a detach every datum installed with a destructor is destroyed exactly once *)
Theorem C18_xstr_user_data_freed_once : forall ops : list xuop,
  xu_destroy (xu_exec xu_new ops) = xu_freed [] ops /\
  (forall d, In d (xu_freed [] ops) -> In d (xu_installed ops)) /\
  (NoDup (xu_installed ops) -> NoDup (xu_freed [] ops)) /\
  (Forall (fun op => op <> XUDetach) ops -> xu_freed [] ops = xu_installed ops).
Proof. exact xud_destroyed_once. Qed.
Print Assumptions C18_xstr_user_data_freed_once.

Example C18_xstr_example :
  x_run (x_create 2) [XCat [97;98;99]; XUnshift [90]; XInsert 2 [120;120]; XShift 1; XClone]%Z
  = [(X_OK, 3%nat, [97; 98; 99], 0); (X_OK, 4%nat, [90; 97; 98; 99], 0); (X_OK, 6%nat, [90; 97; 120; 120; 98; 99], 0);
     (X_OK, 5%nat, [97; 120; 120; 98; 99], 0); (X_OK, 5%nat, [97; 120; 120; 98; 99], 0)]%Z.
Proof. vm_compute. reflexivity. Qed.

(* a reachable state after a doubling (asize 2 -> 4), a jump (asize = exactly the need, 11), a shift and a shrinking set_size:
   the hypothesis sz_ok holds, the string is NOT terminated (byte 101 where the terminator belongs), insert carries that byte along *)
Example C18_xstr_reachable_example :
  let ops := [XCat [97]; XCat [98; 99]; XCat [100; 101; 102; 103; 104; 105; 106]; XShift 2; XSetSize 2; XInsert 1 [33]]%Z in
  sz_ok ([], 0%Z) ops /\
  let x := x_exec (x_create 2) ops in
  (x_size x, x_asize x, x_data x, x_term x) = (3%nat, 11%nat, [99; 33; 100]%Z, 101%Z) /\
  xs_exec ([], 0%Z) ops = ([99; 33; 100]%Z, 101%Z).
Proof. cbv zeta. split; [vm_compute; repeat split; repeat constructor |]. vm_compute. split; reflexivity. Qed.

Example C18_xstr_user_data_example :
  let ops := [XUSet (Some 1) true; XUSet (Some 2) true; XUDetach; XUSet (Some 3) false; XUSet (Some 4) true]%nat in
  xu_destroy (xu_exec xu_new ops) = [Some 1; Some 4]%nat /\ xu_installed ops = [Some 1; Some 2; Some 4]%nat.
Proof. vm_compute. split; reflexivity. Qed.

(* ================================================================ AVL tree (iwavl.c) *)
Theorem C18_avl_insert_ok : forall (t : tree) (k : Z), bst t -> balanced t ->
  let '(t', ex) := av_insert t k in
  bst t' /\ balanced t' /\ (ex = true <-> In k (av_inorder t)) /\
  (forall x : Z, In x (av_inorder t') <-> x = k \/ In x (av_inorder t)) /\ (ex = true -> t' = t).
Proof. exact avl_insert_ok. Qed.
Print Assumptions C18_avl_insert_ok.

Theorem C18_avl_remove_ok : forall (t : tree) (k : Z), bst t -> balanced t ->
  let '(t', was) := av_remove t k in
  bst t' /\ balanced t' /\ (was = true <-> In k (av_inorder t)) /\
  (forall x : Z, In x (av_inorder t') <-> x <> k /\ In x (av_inorder t)).
Proof. exact avl_remove_ok. Qed.
Print Assumptions C18_avl_remove_ok.

Theorem C18_avl_lookup_ok : forall (t : tree) (k : Z), bst t -> av_lookup t k = true <-> In k (av_inorder t).
Proof. exact avl_lookup_ok. Qed.
Print Assumptions C18_avl_lookup_ok.

Theorem C18_avl_bounds_ok : forall (t : tree) (k : Z) (lb ub : option Z), bst t -> av_bounds t k = (lb, ub) ->
  is_lb (av_inorder t) k lb /\ is_ub (av_inorder t) k ub.
Proof. exact avl_bounds_ok. Qed.
Print Assumptions C18_avl_bounds_ok.

Theorem C18_avl_refines_set : forall ops : list aop, av_run Leaf ops = set_run nil ops.
Proof. exact avl_refines_set. Qed.
Print Assumptions C18_avl_refines_set.

Example C18_avl_example :
  av_run Leaf [AIns 5; AIns 3; AIns 8; AIns 1; AIns 2; ARm 5; AFind 4]%Z
  = [OMod false [5]; OMod false [3; 5]; OMod false [3; 5; 8]; OMod false [1; 3; 5; 8]; OMod false [1; 2; 3; 5; 8];
     OMod true [1; 2; 3; 8]; OFind false (Some 3) (Some 8)]%Z.
Proof. vm_compute. reflexivity. Qed.

(* ONE statement over operation lists at full strength: after EVERY sequence of insert / remove / lookup+bounds calls the tree is
   a search tree, every stored balance factor equals height(right) - height(left) and lies in -1 .. 1, the in-order keys are the
   reference set, the outputs of all calls equal those of the sorted-set reference, the height is logarithmic in the number of
   keys, and the three parent-pointer traversals of iwavl.c (below) yield in-order, reverse in-order and postorder *)
Theorem C18_avl_refines_set_inv : forall ops : list aop,
  let t := av_exec Leaf ops in
  bst t /\ balanced t /\
  av_run Leaf ops = set_run [] ops /\
  av_inorder t = fold_left (fun s o => fst (set_step s o)) ops [] /\
  (2 ^ (height t / 2) <= Z.of_nat (av_size t) + 1)%Z /\
  av_walk_fwd t = av_inorder t /\ av_walk_bwd t = rev (av_inorder t) /\ av_walk_post t = av_postorder t.
Proof. exact avl_refines_set_inv. Qed.
Print Assumptions C18_avl_refines_set_inv.

(* a reachable state that went through a single rotation (1 2 3), a double rotation (insert 5 then 4) and a removal of a node with
   two children whose shrink rebalances (remove 2): the tree, its balance factors and the three traversals *)
Example C18_avl_reachable_example :
  let t := av_exec Leaf [AIns 1; AIns 2; AIns 3; AIns 5; AIns 4; AIns 7; AIns 6; ARm 2; ARm 1]%Z in
  t = Node (Node Leaf 3 0 Leaf) 4 1 (Node (Node Leaf 5 0 Leaf) 6 0 (Node Leaf 7 0 Leaf)) /\
  av_walk_fwd t = [3; 4; 5; 6; 7]%Z /\ av_walk_bwd t = [7; 6; 5; 4; 3]%Z /\ av_walk_post t = [3; 5; 7; 6; 4]%Z /\
  height t = 3%Z.
Proof. vm_compute. repeat split; reflexivity. Qed.

(* ---- the non-recursive traversals (iwavl_first/last/next/prev_in_order, iwavl_first/next_in_postorder; model UT/AvlWalk.v with
   the parent chain explicit).  For EVERY tree - no search-tree or balance hypothesis - and every loop bound that is at least the
   number of nodes: the forward walk visits exactly the in-order sequence and ends with NULL, the backward walk its reverse,
   the postorder walk the postorder sequence *)
Theorem C18_avl_walk_forward : forall (t : tree) (extra : nat),
  walk SR (av_size t + extra) (av_first t) = av_inorder t.
Proof. exact walk_fwd_inorder. Qed.
Print Assumptions C18_avl_walk_forward.

Theorem C18_avl_walk_backward : forall (t : tree) (extra : nat),
  walk SL (av_size t + extra) (av_last t) = rev (av_inorder t).
Proof. exact walk_bwd_reverse. Qed.
Print Assumptions C18_avl_walk_backward.

Theorem C18_avl_walk_postorder : forall (t : tree) (extra : nat),
  walk_post (av_size t + 1 + extra) (av_first_post t) = av_postorder t.
Proof. exact walk_post_all. Qed.
Print Assumptions C18_avl_walk_postorder.

(* every position a walk reaches is a node of the tree the walk started in (the parent chain always rebuilds that tree) *)
Theorem C18_avl_walk_stays_in_tree :
  (forall (d : side) (t : tree) (p : pos), descend d t [] = Some p -> fst p <> Leaf /\ zip_up (fst p) (snd p) = t) /\
  (forall (d : side) (p p' : pos), fst p <> Leaf -> step_in_order d p = Some p' ->
     fst p' <> Leaf /\ zip_up (fst p') (snd p') = zip_up (fst p) (snd p)).
Proof. split; [exact first_in_tree | exact step_stays_in_tree]. Qed.
Print Assumptions C18_avl_walk_stays_in_tree.

(* why iwavl_for_each_in_postorder may free the node it visits: in the postorder sequence every node comes after all nodes
   of both its subtrees, and the sequence holds every node exactly once *)
Theorem C18_avl_postorder_children_first : forall (t l : tree) (k bf : Z) (r : tree), subtree (Node l k bf r) t ->
  exists pre suf, av_postorder t = pre ++ (av_postorder l ++ av_postorder r ++ [k]) ++ suf.
Proof. exact postorder_children_first. Qed.
Print Assumptions C18_avl_postorder_children_first.

Theorem C18_avl_postorder_once : forall t : tree, Permutation (av_postorder t) (av_inorder t).
Proof. exact postorder_perm_inorder. Qed.
Print Assumptions C18_avl_postorder_once.

(* the height of every balanced tree is logarithmic: 2 ^ (height / 2) <= size + 1 *)
Theorem C18_avl_height_log : forall t : tree, balanced t -> (2 ^ (height t / 2) <= Z.of_nat (av_size t) + 1)%Z.
Proof. exact balanced_height_log. Qed.
Print Assumptions C18_avl_height_log.

(* ================================================================ memory pool (iwpool.c, allocation arithmetic) *)
Theorem C18_pool_alloc_ok : forall (p : pool) (n : nat), p_wf p ->
  let '(p', (u, off)) := p_alloc p n in
  p_wf p' /\ u = (length (p_units p') - 1)%nat /\ (off mod 8 = 0)%nat /\
  (off + roundup8 n <= unit_size p' u)%nat /\ is_suffix (p_units p) (p_units p').
Proof. exact pool_alloc_ok. Qed.
Print Assumptions C18_pool_alloc_ok.

(* all regions handed out by any sequence of alloc / strndup / copy_cstring_array calls are 8-aligned, inside their
   unit and pairwise disjoint *)
Theorem C18_pool_regions_disjoint : forall ops : list pop,
  (forall siz : nat, regions_ok (fst (p_run (p_create siz) ops)) (snd (p_run (p_create siz) ops))) /\
  regions_ok (fst (p_run p_create_empty ops)) (snd (p_run p_create_empty ops)).
Proof. exact pool_regions_disjoint. Qed.
Print Assumptions C18_pool_regions_disjoint.

(* the same for every well-formed start, with the invariant of the pool itself and the order of the regions inside a unit.  The
   operation type covers every allocating call: PAlloc = iwpool_alloc / iwpool_calloc, PStrdup = the strndup family and
   iwpool_printf / printf_va (one block of len + 1), PCstrarr = iwpool_copy_cstring_array, PAllocs = a call that makes several
   requests in a row - iwpool_split_string / iwpool_printf_split ask for the sizes [split_sizes] (next theorems) *)
Theorem C18_pool_run_inv : forall (p0 : pool) (ops : list pop), p_wf p0 ->
  p_wf (fst (p_run p0 ops)) /\ regions_ok (fst (p_run p0 ops)) (snd (p_run p0 ops)) /\
  (forall i j r1 r2, (i < j)%nat ->
     nth_error (snd (p_run p0 ops)) i = Some r1 -> nth_error (snd (p_run p0 ops)) j = Some r2 ->
     r_unit r1 = r_unit r2 -> (r_off r1 + r_size r1 <= r_off r2)%nat).
Proof. exact pool_run_inv. Qed.
Print Assumptions C18_pool_run_inv.

(* iwpool_split_string (model UT/PoolStr.v: the loop as written, byte level).  For EVERY haystack that is a C string (no zero byte
   inside), every separator set and both values of ignore_whitespace: the tokens are exactly the plain reference - split at every
   separator byte, a final EMPTY piece dropped, every piece trimmed of blanks (32, 9..13) when asked - and no read of the haystack
   goes beyond its terminator (fault flag false; defect bf5efac read haystack[-1]) *)
Theorem C18_pool_split_correct : forall (h seps : list Z) (ws : bool), Forall (fun b => b <> 0%Z) h ->
  split_string h seps ws = (split_ref h seps ws, false).
Proof. exact split_string_correct. Qed.
Print Assumptions C18_pool_split_correct.

(* memory safety of the writes: at most strlen tokens, so ret[j++] = s and the final ret[j] = 0 stay inside the array of strlen + 1
   pointers requested first; every token block has room for its bytes and the terminator (len + 1) *)
Theorem C18_pool_split_bounds : forall (h seps : list Z) (ws : bool),
  let sizes := split_sizes h seps ws in
  Forall (fun b => b <> 0%Z) h ->
  hd 0%nat sizes = (P_PTR_SIZE * (length h + 1))%nat /\
  (P_PTR_SIZE * (length (fst (split_string h seps ws)) + 1) <= hd 0%nat sizes)%nat /\
  tl sizes = map (fun t => (length t + 1)%nat) (split_ref h seps ws).
Proof. exact split_allocs_ok. Qed.
Print Assumptions C18_pool_split_bounds.

(* ---- requests near SIZE_MAX (model UT/PoolBig.v: the request is a size_t value, IW_ROUNDUP computed modulo 2^64).  WITH the overflow
   guard (the code since fix 435f237, fixes/cont-pool-alloc-size-wrap.diff) every request 0 .. SIZE_MAX either fails and leaves the pool as it was (all requests
   above PTRDIFF_MAX), or is the allocation of UT/Pool.v (whose region holds every requested byte: C18_pool_alloc_ok); a pointer with
   no byte reserved is returned only for a request of 0 bytes; iwpool_calloc / iwpool_strndup never write past what was reserved *)
Theorem C18_pool_alloc_size_guarded : forall (p : pool) (siz : Z), (0 <= siz <= SIZE_MAX)%Z ->
  match snd (p_alloc_z true p siz) with
  | ZNull => fst (p_alloc_z true p siz) = p /\ (MALLOC_MAX < siz)%Z
  | ZZero u off => fst (p_alloc_z true p siz) = p /\ siz = 0%Z
  | ZOk w => (0 < siz <= MALLOC_MAX)%Z /\ (fst (p_alloc_z true p siz), w) = p_alloc p (Z.to_nat siz)
  end.
Proof. exact p_alloc_z_guarded. Qed.
Print Assumptions C18_pool_alloc_size_guarded.

Theorem C18_pool_calloc_strndup_size_guarded : forall (p : pool) (n : Z), (0 <= n <= SIZE_MAX)%Z ->
  snd (p_calloc_z true p n) = false /\ snd (p_strndup_z true p n) = false.
Proof. exact p_calloc_strndup_z_guarded. Qed.
Print Assumptions C18_pool_calloc_strndup_size_guarded.

(* WITHOUT the guard (flag false: the code before fix 435f237; finding cont-pool-alloc-size-wrap): every request in (SIZE_MAX - 7, SIZE_MAX]
   returns the current heap pointer with no byte reserved and leaves usiz alone, iwpool_calloc then clears siz bytes there *)
Theorem C18_pool_alloc_size_wrap : forall (p : pool) (siz : Z), (SIZE_MAX - 7 < siz <= SIZE_MAX)%Z ->
  p_alloc_z false p siz = (p, ZZero (length (p_units p) - 1) (p_usiz p)) /\ snd (p_calloc_z false p siz) = true.
Proof. exact p_alloc_z_unguarded_wraps. Qed.
Print Assumptions C18_pool_alloc_size_wrap.

(* the reported input: pool of 64 bytes, 8 allocated, iwpool_alloc(SIZE_MAX - 3) = unit 0 offset 8 with nothing reserved - the address
   the next iwpool_alloc(16) gets; with the guard: NULL; iwpool_strndup(.., SIZE_MAX) copies into a block of 0 bytes / fails *)
Theorem C18_pool_alloc_size_wrap_refuted :
  let p := fst (p_alloc (p_create 64) 8) in
  p_alloc_z false p (SIZE_MAX - 3) = (p, ZZero 0 8) /\
  snd (p_alloc p 16) = (0%nat, 8%nat) /\
  p_alloc_z true p (SIZE_MAX - 3) = (p, ZNull) /\
  snd (p_strndup_z false p SIZE_MAX) = true /\ p_strndup_z true p SIZE_MAX = (p, ZNull, false).
Proof. exact p_alloc_z_unguarded_refuted. Qed.
Print Assumptions C18_pool_alloc_size_wrap_refuted.

Example C18_pool_size_max : SIZE_MAX = 18446744073709551615%Z /\ MALLOC_MAX = 9223372036854775807%Z.
Proof. exact size_max_val. Qed.

(* a split whose token blocks cross the end of the unit: pool of 96 bytes, the pointer array takes 80, two tokens fit, the third
   one opens a new unit of 104 + 96 bytes *)
Example C18_pool_split_example :
  let h := [32; 97; 32; 44; 44; 98; 99; 59; 32]%Z in      (* " a ,,bc; " *)
  split_string h [44; 59]%Z true = ([[97]; []; [98; 99]; []]%Z, false) /\
  split_ref h [44; 59]%Z false = [[32; 97; 32]; []; [98; 99]; [32]]%Z /\
  (let '(p, rs) := p_split (p_create 96) h [44; 59]%Z true in
   (p_usiz p, p_asiz p, p_units p) = (16, 200, [200; 96])%nat /\ map r_unit rs = [0; 0; 0; 1; 1]%nat /\
   map r_off rs = [0; 80; 88; 0; 8]%nat).
Proof. vm_compute. repeat split; reflexivity. Qed.

Example C18_pool_example : p_wf (p_create 64) /\ p_wf p_create_empty.
Proof. split; [apply p_create_wf | apply p_create_empty_wf]. Qed.

(* ================================================================ memory pool: hierarchy x reference counting (iwpool_create_attach,
   iwpool_ref, iwpool_destroy, user data; model UT/Pforest.v, pointer level: a load or store through a pointer to a released
   pool sets f_fault).  f_run executes any list of calls, dropping the calls that pass a pool already released (the caller's
   side of the contract). *)

(* freed memory is never touched: no call sequence makes the code follow a pointer to a released pool, release a pool twice,
   or run out of the recursion bound of the model *)
Theorem C18_pforest_no_use_after_free : forall ops : list fop, f_fault (f_run f_empty ops) = false.
Proof. exact run_no_fault. Qed.
Print Assumptions C18_pforest_no_use_after_free.

(* no pool keeps a parent link to a released pool (the invariant the round-5 seeded change breaks): in every reachable state a
   live pool has a count >= 1, and its parent pointer, when set, names an OLDER LIVE pool whose child chain consists of live
   pools, contains it, and contains exactly the pools whose parent pointer names that parent *)
Theorem C18_pforest_links : forall (ops : list fop) (i : nat) (c : cell),
  let F := f_run f_empty ops in get F i = Some c ->
  (1 <= c_refs c)%Z /\
  forall q, c_parent c = Some q ->
    (q < i)%nat /\ exists qc L, get F q = Some qc /\ chain F (length (f_slots F)) (c_children qc) L /\ In i L /\
                                forall x, In x L <-> haspar F x q.
Proof. exact run_links. Qed.
Print Assumptions C18_pforest_links.

(* WHEN a pool is released.  iwpool_destroy(p) on a live pool of a reachable state: with a count other than 1 only the count
   changes.  With count 1: p is released; another pool x is released in the same call iff its parent is released in this call
   and x's count is 1; a pool whose parent is released and whose count is larger survives with count - 1 and a cleared parent
   pointer; every other pool keeps count, parent, units and user data; nothing released earlier comes back; and the releases
   logged by the call are, for every pool released in it, exactly its block (units, user data destructor when one is set,
   struct) and nothing for any other pool. *)
Theorem C18_pforest_release_rule : forall (ops : list fop) (p : nat) (c : cell),
  let f := f_run f_empty ops in get f p = Some c ->
  let f' := fst (f_destroy f p) in
  inv f' /\ snd (f_destroy f p) = (c_refs c =? 1)%Z /\
  (c_refs c <> 1%Z -> f' = set f p (with_refs c (c_refs c - 1))) /\
  (c_refs c = 1%Z ->
     get f' p = None /\
     (forall x cx, get f x = Some cx -> x <> p ->
        (get f' x = None <-> exists y, c_parent cx = Some y /\ get f' y = None /\ c_refs cx = 1%Z) /\
        (forall y, c_parent cx = Some y -> get f' y = None -> c_refs cx <> 1%Z ->
           exists cx', get f' x = Some cx' /\ c_refs cx' = (c_refs cx - 1)%Z /\ c_parent cx' = None /\ same_data cx cx') /\
        ((forall y, c_parent cx = Some y -> get f' y <> None) ->
           exists cx', get f' x = Some cx' /\ c_refs cx' = c_refs cx /\ c_parent cx' = c_parent cx /\ same_data cx cx')) /\
     (forall i, get f i = None -> get f' i = None) /\
     length (f_slots f') = length (f_slots f) /\
     exists evs, f_log f' = f_log f ++ evs /\
       forall i, (forall ci, get f i = Some ci -> get f' i = None -> evs_of i evs = block i ci) /\
                 (get f i = None \/ get f' i <> None -> evs_of i evs = [])).
Proof. intros ops p c f Hg. exact (destroy_spec f p c (inv_run ops) Hg). Qed.
Print Assumptions C18_pforest_release_rule.

(* released exactly once: in the log of any run the events of pool i are: nothing if i was never created; only destructor
   calls for replaced user data while i is alive; and for a released pool those followed by exactly ONE block
   (units, destructor if set, struct) with nothing after it *)
Theorem C18_pforest_released_once : forall (ops : list fop) (i : nat),
  let F := f_run f_empty ops in
  (length (f_slots F) <= i -> evs_of i (f_log F) = [])%nat /\
  (forall c, get F i = Some c -> Forall is_ud (evs_of i (f_log F))) /\
  ((i < length (f_slots F))%nat -> get F i = None ->
     exists pre c, Forall is_ud pre /\ evs_of i (f_log F) = pre ++ block i c).
Proof. intros ops i. exact (logok_run ops i). Qed.
Print Assumptions C18_pforest_released_once.

(* no leak: when every reference is dropped (pools in the order of creation, each pool without parent destroyed numrefs times -
   `pf drain` of the harness) no pool is left, and still nothing released is touched *)
Theorem C18_pforest_no_leak : forall ops : list fop,
  let F := f_drain (f_run f_empty ops) in f_fault F = false /\ forall j, get F j = None.
Proof. exact run_drain. Qed.
Print Assumptions C18_pforest_no_leak.

(* iwpool_alloc on a member of the forest changes the unit record of that pool only (C18_pool_alloc_ok /
   C18_pool_regions_disjoint speak about that record) *)
Theorem C18_pforest_alloc_local : forall (f : forest) (p n : nat) (c : cell), get f p = Some c ->
  let f' := fst (f_alloc f p n) in
  get f' p = Some (with_pool c (fst (p_alloc (c_pool c) n))) /\ (forall i, i <> p -> get f' i = get f i) /\
  f_log f' = f_log f /\ f_fault f' = f_fault f.
Proof. exact run_alloc. Qed.
Print Assumptions C18_pforest_alloc_local.

(* the code without `c->parent = 0;` in the child loop of iwpool_destroy (round-5 seeded change) is refuted: create, attach,
   ref(child), destroy(parent), alloc(child), destroy(child) reads the released parent *)
Theorem C18_pforest_keep_parent_refuted :
  exists ops, f_fault (f_run_v false f_empty ops) = true /\ f_fault (f_run f_empty ops) = false.
Proof. exact seed5_refuted. Qed.
Print Assumptions C18_pforest_keep_parent_refuted.

(* hypotheses satisfiable / non-trivial: a parent with two children, the older one retained by a second owner; the parent's
   death releases the parent and the younger child and leaves the older one alive, detached, with one reference *)
Example C18_pforest_example :
  let ops := [FCreate 64; FAttach (Some 0) 8; FAttach (Some 0) 0; FRef 1; FUdSet 1 (Some 7) true; FAlloc 1 100] in
  let f := f_run f_empty ops in
  let f' := fst (f_destroy f 0) in
  (map (fun i => match get f i with Some c => Some (c_refs c, c_parent c, c_children c, c_next c) | None => None end) [0; 1; 2]
   = [Some (1%Z, None, Some 2, None); Some (2%Z, Some 0, None, None); Some (1%Z, Some 0, None, Some 1)]) /\
  (map (fun i => match get f' i with Some c => Some (c_refs c, c_parent c) | None => None end) [0; 1; 2]
   = [None; Some (1%Z, None); None]) /\
  f_log f' = [EUnits 2 1; EFree 2; EUnits 0 1; EFree 0] /\
  f_log (f_drain f') = [EUnits 2 1; EFree 2; EUnits 0 1; EFree 0; EUnits 1 2; EUd 1 (Some 7); EFree 1].
Proof. vm_compute. repeat split; reflexivity. Qed.
