(* C15, deepening round: the patch decoder _jbl_create_patch (jbn_patch_auto, jbl_patch_from_json) as a grammar.
   Model: create_patch / decode_ops / decode_members of IW.JSON.Patch (prefix strncmp decoding, as in the C code);
   reference: decode_ops_exact (member names and operation names compared exactly = rfc6902). *)
Require Import ZArith List Bool Lia.
Require Import IW.Lib.CInt IW.UT.Conv IW.JSON.Val IW.JSON.Patch IW.JSON.PatchSpec IW.JSON.Patch_proofs IW.Gen.Facts.
Import ListNotations. Local Open Scope Z_scope. Local Open Scope bool_scope.

(* k is a prefix of lit (the empty name included) *)
Fixpoint is_pfx (k lit : list Z) : bool :=
  match k, lit with
  | [], _ => true
  | y :: k', x :: l' => (x =? y) && is_pfx k' l'
  | _ :: _, [] => false
  end.

Lemma strncmp_is_pfx : forall k lit, strncmp_eq lit k (length k) = is_pfx k lit.
Proof.
  induction k as [|y k IH]; intros lit; [destruct lit; reflexivity|].
  destruct lit as [|x l]; [reflexivity|]. cbn [length strncmp_eq is_pfx]. rewrite IH. reflexivity.
Qed.

Lemma lit_match_spec : forall lit m, key_ok m -> lit_match lit m = is_pfx (n_key m) lit.
Proof.
  intros lit m K. unfold lit_match. unfold key_ok in K. rewrite K, Nat2Z.id. apply strncmp_is_pfx.
Qed.

(* the role of a member of an operation object, as the decoder decides it: tested in the order "op", "value", "path", "from" *)
Inductive role := ROp | RValue | RPath | RFrom | ROther.
Definition role_of (k : list Z) : role :=
  if is_pfx k lit_op then ROp else if is_pfx k lit_value then RValue
  else if is_pfx k lit_path then RPath else if is_pfx k lit_from then RFrom else ROther.

Definition with_op (a : rawop) (o : opk) := {| r_op := o; r_path := r_path a; r_from := r_from a; r_val := r_val a |}.
Definition with_val (a : rawop) (m : node) := {| r_op := r_op a; r_path := r_path a; r_from := r_from a; r_val := Some m |}.
Definition with_path (a : rawop) (p : list Z) := {| r_op := r_op a; r_path := Some p; r_from := r_from a; r_val := r_val a |}.
Definition with_from (a : rawop) (p : list Z) := {| r_op := r_op a; r_path := r_path a; r_from := Some p; r_val := r_val a |}.

Definition dec_step (acc : rawop) (m : node) : rc + rawop :=
  match role_of (n_key m) with
  | ROp => match n_ty m with
           | TStr => match op_by_prefix op_names (n_vs m) with Some o => inr (with_op acc o) | None => inl RcBadOp end
           | _ => inl RcPatchInvalid
           end
  | RValue => inr (with_val acc m)
  | RPath => match n_ty m with TStr => inr (with_path acc (n_vs m)) | _ => inl RcPatchInvalid end
  | RFrom => match n_ty m with TStr => inr (with_from acc (n_vs m)) | _ => inl RcPatchInvalid end
  | ROther => inr acc
  end.

Lemma decode_members_step : forall m r acc, key_ok m ->
  decode_members (m :: r) acc = match dec_step acc m with inl e => inl e | inr a => decode_members r a end.
Proof.
  intros m r acc K. cbn [decode_members]. unfold dec_step, role_of.
  rewrite !(lit_match_spec _ m K).
  destruct (is_pfx (n_key m) lit_op).
  { destruct (n_ty m); try reflexivity. destruct (op_by_prefix op_names (n_vs m)); reflexivity. }
  destruct (is_pfx (n_key m) lit_value); [reflexivity|].
  destruct (is_pfx (n_key m) lit_path); [destruct (n_ty m); reflexivity|].
  destruct (is_pfx (n_key m) lit_from); [destruct (n_ty m); reflexivity|]. reflexivity.
Qed.

(* ---- the grammar: which members make an operation object acceptable *)
Definition member_ok (m : node) : Prop :=
  match role_of (n_key m) with
  | ROp => n_ty m = TStr /\ op_by_prefix op_names (n_vs m) <> None
  | RPath | RFrom => n_ty m = TStr
  | _ => True
  end.

(* the last member with a given role decides the field *)
Fixpoint last_role (ro : role -> bool) (ms : list node) (dflt : option node) : option node :=
  match ms with
  | [] => dflt
  | m :: r => last_role ro r (if ro (role_of (n_key m)) then Some m else dflt)
  end.
Definition is_rop (r : role) := match r with ROp => true | _ => false end.
Definition is_rval (r : role) := match r with RValue => true | _ => false end.
Definition is_rpath (r : role) := match r with RPath => true | _ => false end.
Definition is_rfrom (r : role) := match r with RFrom => true | _ => false end.

Definition acc_matches (acc : rawop) (mo mp mf mv : option node) : Prop :=
  r_op acc = match mo with Some m => match op_by_prefix op_names (n_vs m) with Some o => o | None => ONone end | None => ONone end /\
  r_path acc = option_map n_vs mp /\ r_from acc = option_map n_vs mf /\ r_val acc = mv.

Lemma decode_members_grammar : forall ms acc mo mp mf mv, Forall key_ok ms -> acc_matches acc mo mp mf mv ->
  match decode_members ms acc with
  | inr r => Forall member_ok ms /\
             acc_matches r (last_role is_rop ms mo) (last_role is_rpath ms mp) (last_role is_rfrom ms mf) (last_role is_rval ms mv)
  | inl e => ~ Forall member_ok ms /\ (e = RcPatchInvalid \/ e = RcBadOp)
  end.
Proof.
  induction ms as [|m r IH]; intros acc mo mp mf mv K A.
  - simpl. split; [constructor | exact A].
  - inversion K as [|? ? Km Kr]; subst. rewrite (decode_members_step m r acc Km).
    unfold dec_step. cbn [last_role]. destruct A as [A1 [A2 [A3 A4]]].
    destruct (role_of (n_key m)) eqn:RO; cbn [is_rop is_rpath is_rfrom is_rval].
    + (* op *)
      destruct (n_ty m) eqn:T;
        try (split; [intro F; inversion F as [|? ? Fm _]; subst; unfold member_ok in Fm; rewrite RO in Fm;
                     destruct Fm as [Fm _]; rewrite T in Fm; discriminate | left; reflexivity]).
      destruct (op_by_prefix op_names (n_vs m)) as [o|] eqn:OP.
      * assert (A' : acc_matches (with_op acc o) (Some m) mp mf mv).
        { unfold acc_matches. cbn [with_op r_op r_path r_from r_val]. rewrite OP. auto. }
        specialize (IH (with_op acc o) (Some m) mp mf mv Kr A').
        destruct (decode_members r (with_op acc o)) as [e|r0].
        -- destruct IH as [I1 I2]. split; [|exact I2]. intro F. inversion F; subst. contradiction.
        -- destruct IH as [I1 I2]. split; [|exact I2]. constructor; [|exact I1].
           unfold member_ok. rewrite RO. split; [exact T | rewrite OP; discriminate].
      * split; [|right; reflexivity]. intro F. inversion F as [|? ? Fm _]; subst.
        unfold member_ok in Fm. rewrite RO in Fm. destruct Fm as [_ Fm]. contradiction.
    + (* value *)
      assert (A' : acc_matches (with_val acc m) mo mp mf (Some m)).
      { unfold acc_matches. cbn [with_val r_op r_path r_from r_val]. auto. }
      specialize (IH (with_val acc m) mo mp mf (Some m) Kr A').
      destruct (decode_members r (with_val acc m)) as [e|r0].
      * destruct IH as [I1 I2]. split; [|exact I2]. intro F. inversion F; subst. contradiction.
      * destruct IH as [I1 I2]. split; [|exact I2]. constructor; [|exact I1]. unfold member_ok. rewrite RO. exact I.
    + (* path *)
      destruct (n_ty m) eqn:T;
        try (split; [intro F; inversion F as [|? ? Fm _]; subst; unfold member_ok in Fm; rewrite RO in Fm;
                     rewrite T in Fm; discriminate | left; reflexivity]).
      assert (A' : acc_matches (with_path acc (n_vs m)) mo (Some m) mf mv).
      { unfold acc_matches. cbn [with_path r_op r_path r_from r_val option_map]. auto. }
      specialize (IH (with_path acc (n_vs m)) mo (Some m) mf mv Kr A').
      destruct (decode_members r (with_path acc (n_vs m))) as [e|r0].
      * destruct IH as [I1 I2]. split; [|exact I2]. intro F. inversion F; subst. contradiction.
      * destruct IH as [I1 I2]. split; [|exact I2]. constructor; [|exact I1]. unfold member_ok. rewrite RO. exact T.
    + (* from *)
      destruct (n_ty m) eqn:T;
        try (split; [intro F; inversion F as [|? ? Fm _]; subst; unfold member_ok in Fm; rewrite RO in Fm;
                     rewrite T in Fm; discriminate | left; reflexivity]).
      assert (A' : acc_matches (with_from acc (n_vs m)) mo mp (Some m) mv).
      { unfold acc_matches. cbn [with_from r_op r_path r_from r_val option_map]. auto. }
      specialize (IH (with_from acc (n_vs m)) mo mp (Some m) mv Kr A').
      destruct (decode_members r (with_from acc (n_vs m))) as [e|r0].
      * destruct IH as [I1 I2]. split; [|exact I2]. intro F. inversion F; subst. contradiction.
      * destruct IH as [I1 I2]. split; [|exact I2]. constructor; [|exact I1]. unfold member_ok. rewrite RO. exact T.
    + (* another name: ignored *)
      specialize (IH acc mo mp mf mv Kr (conj A1 (conj A2 (conj A3 A4)))).
      destruct (decode_members r acc) as [e|r0].
      * destruct IH as [I1 I2]. split; [|exact I2]. intro F. inversion F; subst. contradiction.
      * destruct IH as [I1 I2]. split; [|exact I2]. constructor; [|exact I1]. unfold member_ok. rewrite RO. exact I.
Qed.

(* one operation object: accepted iff every member is acceptable; the decoded operation is a function of the members alone
   (every field absent from the object is 0 / NULL: nothing of an earlier call or of uninitialised memory shows) *)
Definition opobj_ok (n : node) : Prop := n_ty n = TObj /\ Forall member_ok (n_ch n).
Definition decoded (n : node) : rawop :=
  {| r_op := match last_role is_rop (n_ch n) None with
             | Some m => match op_by_prefix op_names (n_vs m) with Some o => o | None => ONone end
             | None => ONone end;
     r_path := option_map n_vs (last_role is_rpath (n_ch n) None);
     r_from := option_map n_vs (last_role is_rfrom (n_ch n) None);
     r_val := last_role is_rval (n_ch n) None |}.

Lemma rawop_eta : forall r a b c d, r_op r = a -> r_path r = b -> r_from r = c -> r_val r = d ->
  r = {| r_op := a; r_path := b; r_from := c; r_val := d |}.
Proof. intros [o p f v] a b c d; simpl; intros; subst; reflexivity. Qed.

Theorem create_patch_grammar : forall p, Forall (fun n => Forall key_ok (n_ch n)) (n_ch p) ->
  match create_patch_prefix p with
  | inr ops => Forall opobj_ok (n_ch p) /\ ops = map decoded (n_ch p)
  | inl e => ~ Forall opobj_ok (n_ch p) /\ (e = RcPatchInvalid \/ e = RcBadOp)
  end.
Proof.
  intros p K. unfold create_patch_prefix.
  destruct (forallb (fun n => ty_eqb (n_ty n) TObj) (n_ch p)) eqn:FB.
  - assert (TO : Forall (fun n => n_ty n = TObj) (n_ch p)).
    { apply Forall_forall. intros n I. rewrite forallb_forall in FB. apply ty_eqb_eq. apply FB. exact I. }
    clear FB. induction (n_ch p) as [|n r IH]; [simpl; split; [constructor | reflexivity]|].
    inversion K as [|? ? Kn Kr]; subst. inversion TO as [|? ? Tn Tr]; subst. cbn [decode_ops].
    pose proof (decode_members_grammar (n_ch n) empty_rawop None None None None Kn
                  (conj eq_refl (conj eq_refl (conj eq_refl eq_refl)))) as G.
    destruct (decode_members (n_ch n) empty_rawop) as [e|o].
    + destruct G as [G1 G2]. split; [|exact G2]. intro F. inversion F as [|? ? [_ Fn] _]; subst. contradiction.
    + destruct G as [G1 [G2 [G3 [G4 G5]]]]. specialize (IH Kr Tr).
      destruct (decode_ops r) as [e|os].
      * destruct IH as [I1 I2]. split; [|exact I2]. intro F. inversion F; subst. contradiction.
      * destruct IH as [I1 I2]. split; [constructor; [split; assumption | exact I1]|].
        cbn [map]. rewrite I2. f_equal. apply rawop_eta; assumption.
  - split; [|left; reflexivity]. intro F.
    assert (forallb (fun n => ty_eqb (n_ty n) TObj) (n_ch p) = true); [|congruence].
    apply forallb_forall. intros n I. rewrite Forall_forall in F. destruct (F n I) as [T _]. apply ty_eqb_eq. exact T.
Qed.

(* ---- agreement with exact (rfc6902) decoding on operation objects written canonically: every member name is one of
   "op" / "path" / "from" / "value" or is no prefix of any of them, every operation name is one of the nine or no prefix of any *)
Definition canon_key (k : list Z) : bool :=
  bytes_eqb k lit_op || bytes_eqb k lit_value || bytes_eqb k lit_path || bytes_eqb k lit_from ||
  match role_of k with ROther => true | _ => false end.
Definition canon_opname (v : list Z) : bool :=
  match op_exact op_names v with
  | Some _ => true
  | None => match op_by_prefix op_names v with None => true | Some _ => false end
  end.
Definition canon_member (m : node) : Prop :=
  key_ok m /\ canon_key (n_key m) = true /\ (n_ty m = TStr -> bytes_eqb lit_op (n_key m) = true -> canon_opname (n_vs m) = true).

Lemma is_pfx_refl : forall k, is_pfx k k = true.
Proof. induction k as [|x k IH]; [reflexivity|]. cbn [is_pfx]. rewrite Z.eqb_refl, IH. reflexivity. Qed.

Lemma canon_key_tests : forall k, canon_key k = true ->
  is_pfx k lit_op = bytes_eqb lit_op k /\ is_pfx k lit_value = bytes_eqb lit_value k /\
  is_pfx k lit_path = bytes_eqb lit_path k /\ is_pfx k lit_from = bytes_eqb lit_from k.
Proof.
  intros k C. unfold canon_key in C.
  destruct (bytes_eqb k lit_op) eqn:E1; [apply bytes_eqb_eq in E1; subst; repeat split; reflexivity|].
  destruct (bytes_eqb k lit_value) eqn:E2; [apply bytes_eqb_eq in E2; subst; repeat split; reflexivity|].
  destruct (bytes_eqb k lit_path) eqn:E3; [apply bytes_eqb_eq in E3; subst; repeat split; reflexivity|].
  destruct (bytes_eqb k lit_from) eqn:E4; [apply bytes_eqb_eq in E4; subst; repeat split; reflexivity|].
  cbn [orb] in C. unfold role_of in C.
  destruct (is_pfx k lit_op) eqn:P1; [discriminate|]. destruct (is_pfx k lit_value) eqn:P2; [discriminate|].
  destruct (is_pfx k lit_path) eqn:P3; [discriminate|]. destruct (is_pfx k lit_from) eqn:P4; [discriminate|].
  assert (N : forall L, is_pfx k L = false -> bytes_eqb L k = false).
  { intros L P. destruct (bytes_eqb L k) eqn:B; [|reflexivity]. apply bytes_eqb_eq in B. subst. rewrite is_pfx_refl in P. discriminate. }
  repeat split; symmetry; apply N; assumption.
Qed.

Lemma op_exact_in : forall names v o, op_exact names v = Some o -> In (v, o) names.
Proof.
  induction names as [|[nm o'] r IH]; intros v o H; [discriminate|].
  cbn [op_exact] in H. destruct (bytes_eqb nm v) eqn:B.
  - apply bytes_eqb_eq in B. inversion H; subst. left. reflexivity.
  - right. apply IH. exact H.
Qed.

Lemma canon_opname_agree : forall v, canon_opname v = true -> op_by_prefix op_names v = op_exact op_names v.
Proof.
  intros v C. unfold canon_opname in C. destruct (op_exact op_names v) as [o|] eqn:E.
  - apply op_exact_in in E. unfold op_names in E. cbn [In] in E.
    repeat (destruct E as [E|E]; [inversion E; subst; reflexivity|]). contradiction.
  - destruct (op_by_prefix op_names v); [discriminate | reflexivity].
Qed.

Lemma key_is_spec : forall lit m, key_ok m -> key_is lit m = bytes_eqb lit (n_key m).
Proof. intros lit m K. unfold key_is. unfold key_ok in K. rewrite K, Nat2Z.id, firstn_all. reflexivity. Qed.

Lemma decode_members_exact_agree : forall ms acc, Forall canon_member ms -> decode_members ms acc = decode_members_exact ms acc.
Proof.
  induction ms as [|m r IH]; intros acc C; [reflexivity|].
  inversion C as [|? ? [K [CK CO]] Cr]; subst.
  cbn [decode_members decode_members_exact]. rewrite !(lit_match_spec _ m K), !(key_is_spec _ m K).
  destruct (canon_key_tests (n_key m) CK) as [T1 [T2 [T3 T4]]]. rewrite T1, T2, T3, T4.
  destruct (bytes_eqb lit_op (n_key m)) eqn:B1.
  { destruct (n_ty m) eqn:T; try reflexivity. rewrite (canon_opname_agree (n_vs m) (CO eq_refl eq_refl)).
    destruct (op_exact op_names (n_vs m)); [apply IH; exact Cr | reflexivity]. }
  destruct (bytes_eqb lit_value (n_key m)); [apply IH; exact Cr|].
  destruct (bytes_eqb lit_path (n_key m)); [destruct (n_ty m); try reflexivity; apply IH; exact Cr|].
  destruct (bytes_eqb lit_from (n_key m)); [destruct (n_ty m); try reflexivity; apply IH; exact Cr|].
  apply IH; exact Cr.
Qed.

Theorem create_patch_exact_on_canonical : forall p,
  Forall (fun n => n_ty n = TObj /\ Forall canon_member (n_ch n)) (n_ch p) -> create_patch_prefix p = decode_ops_exact (n_ch p).
Proof.
  intros p C. unfold create_patch_prefix.
  assert (FB : forallb (fun n => ty_eqb (n_ty n) TObj) (n_ch p) = true).
  { apply forallb_forall. intros n I. rewrite Forall_forall in C. destruct (C n I) as [T _]. apply ty_eqb_eq. exact T. }
  rewrite FB. clear FB. induction (n_ch p) as [|n r IH]; [reflexivity|].
  inversion C as [|? ? [T Cn] Cr]; subst. cbn [decode_ops decode_ops_exact]. rewrite T.
  rewrite (decode_members_exact_agree (n_ch n) empty_rawop Cn).
  destruct (decode_members_exact (n_ch n) empty_rawop); [reflexivity|]. rewrite (IH Cr). reflexivity.
Qed.

(* for patch documents as the parsers build them (klidx_inv) *)
Theorem create_patch_grammar_inv : forall p, inv p ->
  match create_patch_prefix p with
  | inr ops => Forall opobj_ok (n_ch p) /\ ops = map decoded (n_ch p)
  | inl e => ~ Forall opobj_ok (n_ch p) /\ (e = RcPatchInvalid \/ e = RcBadOp)
  end.
Proof.
  intros p H. destruct (forallb (fun n => ty_eqb (n_ty n) TObj) (n_ch p)) eqn:FB.
  - apply create_patch_grammar. apply inv_unfold in H. destruct H as [Hg _].
    apply Forall_forall. intros n I. rewrite forallb_forall in FB. specialize (FB n I). apply ty_eqb_eq in FB.
    rewrite Forall_forall in Hg. destruct (Hg n I) as [In _]. apply inv_unfold in In. destruct In as [_ It]. rewrite FB in It. exact It.
  - unfold create_patch_prefix. rewrite FB. split; [|left; reflexivity]. intro F.
    assert (forallb (fun n => ty_eqb (n_ty n) TObj) (n_ch p) = true); [|congruence].
    apply forallb_forall. intros n I. rewrite Forall_forall in F. destruct (F n I) as [T _]. apply ty_eqb_eq. exact T.
Qed.

(* ------------------------------------------------------------------ the decoder since 63ac2d6: exact names *)
Lemma decode_ops_x_exact : forall l, Forall (fun n => n_ty n = TObj) l -> decode_ops_x l = decode_ops_exact l.
Proof.
  induction l as [|n r IH]; intro F; [reflexivity|]. inversion F as [|? ? T Fr]; subst.
  cbn [decode_ops_x decode_ops_exact]. rewrite T. destruct (decode_members_exact (n_ch n) empty_rawop); [reflexivity|].
  rewrite (IH Fr). reflexivity.
Qed.

(* for EVERY patch document: an element that is no object makes the whole document JBL_ERROR_PATCH_INVALID (checked before anything
   is decoded); otherwise the decoder is the exact rfc6902 reading - "op", "path", "from", "value" by their full names, every other
   member ignored, operation names exact *)
Theorem create_patch_exact : forall p,
  create_patch p = if forallb (fun n => ty_eqb (n_ty n) TObj) (n_ch p) then decode_ops_exact (n_ch p) else inl RcPatchInvalid.
Proof.
  intro p. unfold create_patch, create_patch_v. destruct (forallb (fun n => ty_eqb (n_ty n) TObj) (n_ch p)) eqn:FB; [|reflexivity].
  apply decode_ops_x_exact. apply Forall_forall. intros n I. rewrite forallb_forall in FB. apply ty_eqb_eq. apply FB. exact I.
Qed.
