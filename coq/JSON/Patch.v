(* src/json/iwjson.c: JSON Patch (rfc6902 + increment/add_create/swap) on `struct jbl_node` trees.
   The model follows /repo HEAD (all fixes/jpatch-*.diff are committed, the last ones 9a2bde2 ... eca2cba); earlier it was the code WITH
   fixes/jpatch-{klidx,remove-missing,copy-clone,array-index,empty-path}.diff and
   fixes/safety-patch-nofrom.diff (C17 family: move/copy/swap without `from` is JBL_ERROR_PATCH_INVALID) applied
   (see notes/jpatch.md for what the unfixed code does on the same inputs).

   A node is the C struct: cached `klidx`, key, and the data part (type, scalar value, children) that
   `_jbl_copy_node_data` copies as one block.  The sibling list `child/next/prev` is a Coq list.  Pointers into the
   tree are replaced by re-resolution along the same segments; every place where the C code keeps a pointer across a
   mutation is commented.  No proofs here. *)
Require Import ZArith List Bool. Require Import IW.Lib.CInt IW.Gen.Facts IW.UT.Conv IW.JSON.Val. Import ListNotations.
Local Open Scope Z_scope. Local Open Scope bool_scope.

Inductive jty := TNone | TNull | TBool | TI64 | TF64 | TStr | TObj | TArr.
Definition ty_code (t : jty) : Z :=
  match t with TNone => JP_JBV_NONE | TNull => JP_JBV_NULL | TBool => JP_JBV_BOOL | TI64 => JP_JBV_I64
             | TF64 => JP_JBV_F64 | TStr => JP_JBV_STR | TObj => JP_JBV_OBJECT | TArr => JP_JBV_ARRAY end.
Definition ty_eqb (a b : jty) : bool := ty_code a =? ty_code b.
Definition is_container (t : jty) : bool := JP_JBV_OBJECT <=? ty_code t.      (* type >= JBV_OBJECT *)

Inductive node : Type := Node (kl : Z) (key : list Z) (ty : jty) (vi : Z) (vs : list Z) (ch : list node).
Definition n_kl (n : node) := match n with Node kl _ _ _ _ _ => kl end.
Definition n_key (n : node) := match n with Node _ k _ _ _ _ => k end.
Definition n_ty (n : node) := match n with Node _ _ t _ _ _ => t end.
Definition n_vi (n : node) := match n with Node _ _ _ v _ _ => v end.
Definition n_vs (n : node) := match n with Node _ _ _ _ s _ => s end.
Definition n_ch (n : node) := match n with Node _ _ _ _ _ c => c end.
Definition set_kl (n : node) (kl : Z) := match n with Node _ k t v s c => Node kl k t v s c end.
Definition set_key (n : node) (k : list Z) := match n with Node kl _ t v s c => Node kl k t v s c end.
Definition set_ch (n : node) (c : list node) := match n with Node kl k t v s _ => Node kl k t v s c end.
(* _jbl_copy_node_data(target, value): child, vsize, type, value union *)
Definition copy_data (target value : node) : node :=
  match target with Node kl k _ _ _ _ => Node kl k (n_ty value) (n_vi value) (n_vs value) (n_ch value) end.
Definition zero_node : node := Node 0 [] TNone 0 [] [].

Definition seg := list Z.
Definition is_dash (s : seg) : bool := match s with [45] => true | _ => false end.

(* strncmp(a, b, n) == 0 on NUL-free strings *)
Fixpoint strncmp_eq (a b : list Z) (n : nat) : bool :=
  match n with
  | O => true
  | S n' => match a, b with
            | [], [] => true
            | x :: a', y :: b' => (x =? y) && strncmp_eq a' b' n'
            | _, _ => false
            end
  end.

(* object member test of _jbl_node_find: !strncmp(n->key, seg, n->klidx) && strlen(seg) == n->klidx *)
Definition key_match (seg : seg) (c : node) : bool :=
  strncmp_eq (n_key c) seg (Z.to_nat (n_kl c)) && (Z.of_nat (length seg) =? n_kl c).

Fixpoint find_pos (f : node -> bool) (l : list node) : option nat :=
  match l with
  | [] => None
  | x :: r => if f x then Some O else match find_pos f r with Some i => Some (S i) | None => None end
  end.

(* _jbl_array_index (eca2cba): an rfc6901 array index - "0", or digits without a leading zero, at most nine (the value fits an int).
   `lenient_idx = true` is the reading before that repair (iwatoi on any text, cast to int where an `int` was used): kept for the
   theorems that state what was wrong (Properties_C15: C15_array_index_leniency_refuted). *)
Definition is_digit_c (c : Z) : bool := (48 <=? c) && (c <=? 57).
Definition dec_val_c (s : list Z) : Z := fold_left (fun a c => a * 10 + (c - 48)) s 0.
Definition arr_index_v (lenient_idx : bool) (s : seg) : option Z :=
  if lenient_idx then Some (sw 32 (atoi s))
  else match s with
       | [] => None
       | c :: r =>
         if c =? 48 then match r with [] => Some 0 | _ => None end
         else if forallb is_digit_c s && (length s <=? 9)%nat then Some (dec_val_c s) else None
       end.
Definition arr_index (s : seg) : option Z := arr_index_v false s.

(* one step of _jbl_node_find: position of the child addressed by a segment; "-" is the (nonexistent) element after the last *)
Definition child_pos (n : node) (s : seg) : option nat :=
  match n_ty n with
  | TObj => find_pos (key_match s) (n_ch n)
  | TArr => match arr_index s with
            | Some i => find_pos (fun c => i =? n_kl c) (n_ch n)      (* searched BY CACHED klidx *)
            | None => None
            end
  | _ => None
  end.

Definition set_child (n : node) (i : nat) (c : node) : node :=
  set_ch n (firstn i (n_ch n) ++ c :: skipn (S i) (n_ch n)).

(* _jbn_add_item *)
Definition add_item (p c : node) : node :=
  let c' := match n_ty p with
            | TArr => set_key (set_kl c (match rev (n_ch p) with l :: _ => n_kl l + 1 | [] => 0 end)) []
            | _ => c end in
  set_ch p (n_ch p ++ [c']).

(* _jbn_remove_item (fixed: following siblings of an array are renumbered) *)
Definition dec_kl (n : node) := set_kl n (n_kl n - 1).
Definition inc_kl (n : node) := set_kl n (n_kl n + 1).
Definition remove_item (p : node) (i : nat) : node :=
  set_ch p (firstn i (n_ch p) ++ match n_ty p with TArr => map dec_kl (skipn (S i) (n_ch p)) | _ => skipn (S i) (n_ch p) end).

(* _jbl_node_find over all segments *)
Fixpoint m_find (n : node) (segs : list seg) : option node :=
  match segs with
  | [] => Some n
  | s :: r => match child_pos n s with
              | None => None
              | Some i => match nth_error (n_ch n) i with None => None | Some c => m_find c r end
              end
  end.

(* _jbl_node_detach: (tree after removal, detached node); empty path = nothing (fixed) *)
Fixpoint m_detach (n : node) (segs : list seg) : option (node * node) :=
  match segs with
  | [] => None
  | s :: r =>
    match child_pos n s with
    | None => None
    | Some i =>
      match nth_error (n_ch n) i with
      | None => None
      | Some c =>
        match r with
        | [] => Some (remove_item n i, c)
        | _ => match m_detach c r with None => None | Some (c', d) => Some (set_child n i c', d) end
        end
      end
    end
  end.

Inductive rc := RcOk | RcNotFound | RcNoValue | RcTargetInvalid | RcBadIdx | RcTestFailed | RcInvalidValue
              | RcPtr | RcPatchInvalid | RcBadOp | RcInvArgs | RcNotImpl | RcCreation | RcUnmodelled.
Definition rc_code (r : rc) : Z :=
  match r with
  | RcOk => 0 | RcNotFound => JP_ERR_PATH_NOTFOUND | RcNoValue => JP_ERR_PATCH_NOVALUE
  | RcTargetInvalid => JP_ERR_PATCH_TARGET_INVALID | RcBadIdx => JP_ERR_PATCH_INVALID_ARRAY_INDEX
  | RcTestFailed => JP_ERR_PATCH_TEST_FAILED | RcInvalidValue => JP_ERR_PATCH_INVALID_VALUE | RcPtr => JP_ERR_JSON_POINTER
  | RcPatchInvalid => JP_ERR_PATCH_INVALID | RcBadOp => JP_ERR_PATCH_INVALID_OP | RcInvArgs => JP_ERR_INVALID_ARGS
  | RcNotImpl => JP_ERR_NOT_IMPLEMENTED | RcCreation => JP_ERR_CREATION | RcUnmodelled => -1
  end.
Definition rc_ok (r : rc) : bool := match r with RcOk => true | _ => false end.

Inductive opk := ONone | OAdd | ORemove | OReplace | OCopy | OMove | OTest | OIncrement | OAddCreate | OSwap.
Definition op_code (o : opk) : Z :=
  match o with ONone => 0 | OAdd => JP_JBP_ADD | ORemove => JP_JBP_REMOVE | OReplace => JP_JBP_REPLACE | OCopy => JP_JBP_COPY
             | OMove => JP_JBP_MOVE | OTest => JP_JBP_TEST | OIncrement => JP_JBP_INCREMENT | OAddCreate => JP_JBP_ADD_CREATE
             | OSwap => JP_JBP_SWAP end.
Definition op_eqb (a b : opk) : bool := op_code a =? op_code b.

(* the double arithmetic used by `increment` and the double comparison of `test`; bits in, bits out.  The models
   never interpret a double themselves: the operations are arguments. *)
Record fops := { f_add : Z -> Z -> Z; f_of_i : Z -> Z; f_to_i : Z -> Z; f_eq : Z -> Z -> bool;
                 f_fits : Z -> bool       (* -2^63 <= d < 2^63, false for NaN: the double can be cast to int64 *) }.

Definition i64_ok (x : Z) : bool := (- 9223372036854775808 <=? x) && (x <=? 9223372036854775807).

(* _jbl_increment_node_data (9a2bde2): a sum that is no int64, or a double operand that cannot be cast, is
   JBL_ERROR_PATCH_INVALID_VALUE with the target unchanged.  `wrap = true` is the code before that repair (signed overflow; modelled
   as two's complement wrap-around): kept for C15_increment_wraps_refuted. *)
Definition increment_v (wrap : bool) (fo : fops) (target value : node) : rc * node :=
  match n_ty value with
  | TI64 | TF64 =>
    match target with
    | Node kl k TI64 vi s c =>
      if wrap then
        (RcOk, Node kl k TI64 (sw 64 (vi + match n_ty value with TI64 => n_vi value | _ => f_to_i fo (n_vi value) end)) s c)
      else
        match (match n_ty value with
               | TI64 => Some (n_vi value)
               | _ => if f_fits fo (n_vi value) then Some (f_to_i fo (n_vi value)) else None
               end) with
        | None => (RcInvalidValue, target)
        | Some add => if i64_ok (vi + add) then (RcOk, Node kl k TI64 (vi + add) s c) else (RcInvalidValue, target)
        end
    | Node kl k TF64 vi s c =>
      (RcOk, Node kl k TF64 (f_add fo vi (match n_ty value with TF64 => n_vi value | _ => f_of_i fo (n_vi value) end)) s c)
    | _ => (RcTargetInvalid, target)
    end
  | _ => (RcInvalidValue, target)
  end.
Definition increment (fo : fops) (target value : node) : rc * node := increment_v false fo target value.

(* _jbl_compare_nodes(a, b) == 0.  Objects: the code sorts both member arrays by (klidx, key) and compares
   pairwise; for member names without duplicates that is: same count and every member of a has an equal member
   of b (with duplicates qsort's order of equal keys is unspecified - not modelled, not generated). *)
Definition member_match (a : node) (c : node) : bool :=
  (n_kl a =? n_kl c) && strncmp_eq (n_key a) (n_key c) (Z.to_nat (n_kl a)).
Fixpoint nodes_eq (fo : fops) (a b : node) {struct a} : bool :=
  match a with
  | Node _ _ ty vi vs ch =>
    ty_eqb ty (n_ty b) &&
    match ty with
    | TNone | TNull => true
    | TBool => Bool.eqb (negb (vi =? 0)) (negb (n_vi b =? 0))
    | TI64 => vi =? n_vi b
    | TF64 => f_eq fo vi (n_vi b)
    | TStr => (Z.of_nat (length vs) =? Z.of_nat (length (n_vs b))) && strncmp_eq vs (n_vs b) (length vs)
    | TArr => (fix go (l m : list node) : bool :=
                 match l, m with
                 | [], [] => true
                 | x :: l', y :: m' => nodes_eq fo x y && go l' m'
                 | _, _ => false
                 end) ch (n_ch b)
    | TObj => (Z.of_nat (length ch) =? Z.of_nat (length (n_ch b))) &&
              (fix go (l : list node) : bool :=
                 match l with
                 | [] => true
                 | x :: l' => match find_pos (member_match x) (n_ch b) with
                              | Some i => match nth_error (n_ch b) i with Some y => nodes_eq fo x y | None => false end
                              | None => false
                              end && go l'
                 end) ch
    end
  end.

(* jbn_clone into the pool: every node is re-added with _jbn_add_item (array items renumbered from 0);
   key = strndup(key, klidx) *)
Fixpoint renumber (i : Z) (l : list node) : list node :=
  match l with [] => [] | x :: r => set_kl x i :: renumber (i + 1) r end.
Fixpoint clone (n : node) : node :=
  match n with
  | Node kl k ty vi vs ch =>
    let ch' := map clone ch in
    Node kl (firstn (Z.to_nat kl) k) ty vi vs
         (match ty with TArr => renumber 0 (map (fun c => set_key c []) ch') | TObj => ch' | _ => [] end)
  end.

(* the part of _jbl_target_apply_patch after `parent` is known: insert `v` below parent `p` under segment `s` *)
Definition put_here (fo : fops) (k : opk) (p : node) (s : seg) (v : node) : rc * node :=
  match n_ty p with
  | TArr =>
    if op_eqb k OIncrement then          (* 9cc9d5a: increment the addressed element (_jbl_node_find: "-" = last), never insert *)
      match child_pos p s with
      | Some i =>
        match nth_error (n_ch p) i with
        | None => (RcTargetInvalid, p)
        | Some c => let '(r, c') := increment fo c v in (r, set_child p i c')
        end
      | None => (RcTargetInvalid, p)
      end
    else if is_dash s then (RcOk, add_item p v)
    else
      match arr_index s with
      | None => (RcBadIdx, p)                              (* no rfc6901 index *)
      | Some idx =>
        let len := Z.of_nat (length (n_ch p)) in
        if (idx >? len) || (idx <? 0) then (RcBadIdx, p)
        else
          let v1 := set_kl v idx in
          if idx <? len then
            let i := Z.to_nat idx in
            (RcOk, set_ch p (firstn i (n_ch p) ++ v1 :: map inc_kl (skipn i (n_ch p))))
          else (RcOk, add_item p v1)
      end
  | TObj =>
    match child_pos p s with
    | Some i =>
      match nth_error (n_ch p) i with
      | None => (RcTargetInvalid, p)
      | Some c =>
        if op_eqb k OIncrement then let '(r, c') := increment fo c v in (r, set_child p i c')
        else (RcOk, set_child p i (copy_data c v))
      end
    | None =>
      if op_eqb k OIncrement then (RcTargetInvalid, p)
      else (RcOk, add_item p (set_kl (set_key v s) (Z.of_nat (length s))))
    end
  | _ => (RcTargetInvalid, p)
  end.

(* parent = _jbl_node_find(target, path, 0, lastidx), then put_here; None = parent not found *)
Fixpoint m_put (fo : fops) (k : opk) (n : node) (segs : list seg) (v : node) : option (rc * node) :=
  match segs with
  | [] => Some (RcTargetInvalid, n)
  | s :: r =>
    match r with
    | [] => Some (put_here fo k n s v)
    | _ => match child_pos n s with
           | None => None
           | Some i => match nth_error (n_ch n) i with
                       | None => None
                       | Some c => match m_put fo k c r v with
                                   | None => None
                                   | Some (rc0, c') => Some (rc0, set_child n i c')
                                   end
                       end
           end
    end
  end.

(* add_create with a missing parent: walk from the root, create object nodes for missing segments, then put_here.
   The C loop links every created node before descending; a later error leaves them in the tree - so does this. *)
Fixpoint m_create (fo : fops) (n : node) (segs : list seg) (v : node) : rc * node :=
  match segs with
  | [] => (RcTargetInvalid, n)
  | s :: r =>
    match r with
    | [] => put_here fo OAddCreate n s v
    | _ =>
      match child_pos n s with
      | Some i =>
        match nth_error (n_ch n) i with
        | None => (RcTargetInvalid, n)
        | Some c =>
          match n_ty c with
          | TObj => let '(rc0, c') := m_create fo c r v in (rc0, set_child n i c')
          | _ => (RcTargetInvalid, n)
          end
        end
      | None =>
        let pn := Node (Z.of_nat (length s)) s TObj 0 [] [] in
        let n1 := add_item n pn in                       (* pn->key = 0 and klidx renumbered when n is an array *)
        let i := length (n_ch n) in
        match nth_error (n_ch n1) i with
        | None => (RcTargetInvalid, n1)
        | Some pn1 => let '(rc0, c') := m_create fo pn1 r v in (rc0, set_child n1 i c')
        end
      end
    end
  end.

(* textual prefix of pointers; `seg_nested f p`: one pointer is a proper prefix of the other - a location and a part of itself *)
Fixpoint is_prefix (a b : list seg) : bool :=
  match a, b with
  | [], _ => true
  | x :: a', y :: b' => bytes_eqb x y && is_prefix a' b'
  | _, _ => false
  end.
Definition seg_nested (f p : list seg) : bool :=
  negb (Nat.eqb (length f) (length p)) && (is_prefix f p || is_prefix p f).

Record pop := { p_op : opk; p_path : list seg; p_from : option (list seg); p_val : option node }.

Definition is_root (p : list seg) : bool := match p with [] => true | [[]] => true | _ => false end.

Definition put_or_create (fo : fops) (k : opk) (t : node) (path : list seg) (v : node) : rc * node :=
  match m_put fo k t path v with
  | Some r => r
  | None => if op_eqb k OAddCreate then m_create fo t path v else (RcTargetInvalid, t)
  end.

(* Node identity for `swap`: the C code holds node POINTERS (value = the `from` node, child = the `path` node, parent);
   a pointer is the position of the node: the child indices on the way from the root. *)
Fixpoint m_locate (n : node) (segs : list seg) : option (list nat) :=
  match segs with
  | [] => Some []
  | s :: r => match child_pos n s with
              | None => None
              | Some i => match nth_error (n_ch n) i with
                          | None => None
                          | Some c => match m_locate c r with Some l => Some (i :: l) | None => None end
                          end
              end
  end.
Fixpoint pos_prefix (a b : list nat) : bool :=
  match a, b with
  | [], _ => true
  | x :: a', y :: b' => Nat.eqb x y && pos_prefix a' b'
  | _, _ => false
  end.
Definition pos_eqb (a b : list nat) : bool := pos_prefix a b && pos_prefix b a.
(* _jbl_copy_node_data(node at pos, d) *)
Fixpoint set_data_at (n : node) (pos : list nat) (d : node) : option node :=
  match pos with
  | [] => Some (copy_data n d)
  | i :: r => match nth_error (n_ch n) i with
              | None => None
              | Some c => match set_data_at c r d with None => None | Some c' => Some (set_child n i c') end
              end
  end.
(* _jbn_remove_item(parent of the node at pos, node at pos) *)
Fixpoint detach_at (n : node) (pos : list nat) : option node :=
  match pos with
  | [] => None
  | i :: r =>
    match nth_error (n_ch n) i with
    | None => None
    | Some c =>
      match r with
      | [] => Some (remove_item n i)
      | _ => match detach_at c r with None => None | Some c' => Some (set_child n i c') end
      end
    end
  end.

(* swap only: the parent of `path` (its position) and, when the last segment addresses an existing child of it, that child
   with its index.  Arrays: the C code walks `idx` steps from the first item (position, not cached klidx); "-" never
   addresses an existing item here.  None = no parent. *)
Definition swap_target (t : node) (path : list seg) : option (list nat * option (nat * node)) :=
  match m_locate t (removelast path), m_find t (removelast path) with
  | Some pp, Some p =>
    let s := last path [] in
    match n_ty p with
    | TArr => if is_dash s then Some (pp, None)
              else match arr_index s with
                   | None => Some (pp, None)
                   | Some idx =>
                     if (0 <=? idx) && (idx <? Z.of_nat (length (n_ch p))) then
                       match nth_error (n_ch p) (Z.to_nat idx) with
                       | Some c => Some (pp, Some (Z.to_nat idx, c))
                       | None => Some (pp, None)
                       end
                     else Some (pp, None)
                   end
    | TObj => match child_pos p s with
              | Some i => match nth_error (n_ch p) i with Some c => Some (pp, Some (i, c)) | None => Some (pp, None) end
              | None => Some (pp, None)
              end
    | _ => Some (pp, None)
    end
  | _, _ => None
  end.

(* _jbl_target_apply_patch.  `old = true` is the code before 22df63c / da6f72b (move and copy onto the root ignored with rc 0; swap
   of a location with a part of itself carried out, data lost) and before ca7f178 the root took over the whole struct of the value:
   kept for the theorems that state what was wrong (C15_root_move_copy_refuted, C15_swap_nested_refuted). *)
Definition apply_op_v (old : bool) (fo : fops) (t : node) (o : pop) : rc * node :=
  let k := p_op o in
  let path := p_path o in
  if op_eqb k OSwap && (match p_from o with Some [] => true | _ => false end) then (RcPatchInvalid, t)   (* fixed *)
  else if op_eqb k OTest then
    match p_val o with
    | None => (RcNoValue, t)
    | Some v =>
      match (if is_root path then Some t else m_find t path) with
      | Some x => if nodes_eq fo x v then (RcOk, t) else (RcTestFailed, t)
      | None => (RcTestFailed, t)
      end
    end
  else if is_root path then
    if op_eqb k ORemove then (RcOk, zero_node)
    else if op_eqb k OReplace || op_eqb k OAdd || op_eqb k OAddCreate then
      match p_val o with None => (RcNoValue, t) | Some v => (RcOk, copy_data t v) end      (* _jbl_copy_node_data(target, value) *)
    else if (op_eqb k OMove || op_eqb k OCopy) && negb old then
      (* rfc6902 4.4, 4.5 onto the whole document: the value at `from` becomes the document ("" = the document onto itself) *)
      match p_from o with
      | None => (RcPatchInvalid, t)
      | Some [] => (RcOk, t)
      | Some f => match m_find t f with None => (RcNotFound, t) | Some v => (RcOk, copy_data t v) end
      end
    else (RcOk, t)
  else
    match (if op_eqb k ORemove || op_eqb k OReplace then
             match m_detach t path with None => None | Some (t', _) => Some t' end
           else Some t) with
    | None => (RcNotFound, t)
    | Some t1 =>
      if op_eqb k ORemove then (RcOk, t1)
      else if (op_eqb k OMove || op_eqb k OCopy || op_eqb k OSwap) && (match p_from o with None => true | _ => false end)
      then (RcPatchInvalid, t1)           (* fixes/safety-patch-nofrom.diff: no `from` member *)
      else if op_eqb k OMove then
        match (match p_from o with None => None | Some f => m_detach t1 f end) with
        | None => (RcNotFound, t1)
        | Some (t2, v) => put_or_create fo k t2 path v
        end
      else if op_eqb k OCopy then
        match (match p_from o with None => None | Some f => m_find t1 f end) with
        | None => (RcNotFound, t1)
        | Some v => put_or_create fo k t1 path (clone v)
        end
      else if op_eqb k OSwap then
        match p_from o with
        | None => (RcNotFound, t1)
        | Some f =>
          if negb old && seg_nested f path then (RcPatchInvalid, t1)     (* a location cannot change places with a part of itself *)
          else
          match m_find t1 f, m_locate t1 f with
          | Some v, Some pf =>
            match swap_target t1 path with
            | None => (RcTargetInvalid, t1)
            | Some (pp, Some (i, c)) =>
              (* both exist: ntmp <- value; value <- child; child <- ntmp (data parts: child list, type, scalar) *)
              let pc := pp ++ [i] in
              if pos_eqb pf pc then (RcOk, t1)                  (* value == child *)
              else if pos_prefix pf pc then
                (* `from` contains `path`: from takes the data of its descendant; the descendant gets from's old child list
                   (of which it is a member itself) and is not reachable from the root any more *)
                match set_data_at t1 pf c with Some t2 => (RcOk, t2) | None => (RcUnmodelled, t1) end
              else if pos_prefix pc pf then
                (* `path` contains `from`: the same with the roles exchanged *)
                match set_data_at t1 pc v with Some t2 => (RcOk, t2) | None => (RcUnmodelled, t1) end
              else match set_data_at t1 pf c with
                   | None => (RcUnmodelled, t1)
                   | Some t2 => match set_data_at t2 pc v with None => (RcUnmodelled, t1) | Some t3 => (RcOk, t3) end
                   end
            | Some (pp, None) =>
              (* no such child: the C code keeps the `parent` pointer, detaches `from` and links it below parent (at the end).
                 Here: link first (at the end of parent: no position changes), then unlink the node at from's position.
                 When parent lies inside `from` (or is `from`) the detached subtree is linked below itself: it is gone. *)
              match put_or_create fo k t1 path v with
              | (RcOk, t2) =>
                match detach_at (if pos_prefix pf pp then t1 else t2) pf with
                | Some t3 => (RcOk, t3)
                | None => (RcUnmodelled, t1)
                end
              | r => r
              end
            end
          | _, _ => (RcNotFound, t1)
          end
        end
      else
        match p_val o with
        | None => (RcNoValue, t1)
        | Some v => put_or_create fo k t1 path v
        end
    end.

Definition apply_op (fo : fops) (t : node) (o : pop) : rc * node := apply_op_v false fo t o.

(* _jbl_ptr_pool: "" -> no segments; must start with '/'; a trailing '/' (len > 1) is rejected; ~0 ~1 unescaped.
   "~" followed by anything else is JBL_ERROR_JSON_POINTER (4d9b497; ptr_segs = None). *)
Fixpoint ptr_segs (s : list Z) (cur : list Z) : option (list seg) :=     (* cur reversed *)
  match s with
  | [] => Some [rev cur]
  | 47 :: r => match ptr_segs r [] with None => None | Some l => Some (rev cur :: l) end
  | 126 :: 48 :: r => ptr_segs r (126 :: cur)
  | 126 :: 49 :: r => ptr_segs r (47 :: cur)
  | 126 :: _ => None
  | c :: r => ptr_segs r (c :: cur)
  end.
Inductive ptr_res := PtrOk (l : list seg) | PtrErr | PtrUnmodelled.
Definition ptr_parse (s : list Z) : ptr_res :=
  match s with
  | [] => PtrOk []
  | 47 :: r =>
    if (1 <? Z.of_nat (length s)) && (match rev s with 47 :: _ => true | _ => false end) then PtrErr
    else match ptr_segs r [] with Some l => PtrOk l | None => PtrErr end
  | _ => PtrErr
  end.

(* struct jbl_patch as given by the caller: pointers still text *)
Record rawop := { r_op : opk; r_path : option (list Z); r_from : option (list Z); r_val : option node }.

Definition parse_op (r : rawop) : rc + pop :=
  match ptr_parse (match r_path r with Some p => p | None => [] end) with
  | PtrErr => inl RcPtr
  | PtrUnmodelled => inl RcUnmodelled
  | PtrOk path =>
    match r_from r with
    | None => inr {| p_op := r_op r; p_path := path; p_from := None; p_val := r_val r |}
    | Some f => match ptr_parse f with
                | PtrErr => inl RcPtr
                | PtrUnmodelled => inl RcUnmodelled
                | PtrOk fs => inr {| p_op := r_op r; p_path := path; p_from := Some fs; p_val := r_val r |}
                end
    end
  end.
Fixpoint parse_ops (l : list rawop) : rc + list pop :=
  match l with
  | [] => inr []
  | r :: l' => match parse_op r with
               | inl e => inl e
               | inr o => match parse_ops l' with inl e => inl e | inr os => inr (o :: os) end
               end
  end.

Fixpoint apply_ops (fo : fops) (t : node) (l : list pop) : rc * node :=
  match l with
  | [] => (RcOk, t)
  | o :: l' => match apply_op fo t o with
               | (RcOk, t') => apply_ops fo t' l'
               | r => r
               end
  end.

(* _jbl_patch_node / jbn_patch: all pointers are parsed before the first operation is applied *)
Definition patch_node (fo : fops) (t : node) (l : list rawop) : rc * node :=
  match l with
  | [] => (RcOk, t)
  | _ => match parse_ops l with inl e => (e, t) | inr os => apply_ops fo t os end
  end.

(* _jbl_create_patch: prefix-strncmp decoding of the members of every operation object *)
Definition lit_op := [111; 112].
Definition lit_value := [118; 97; 108; 117; 101].
Definition lit_path := [112; 97; 116; 104].
Definition lit_from := [102; 114; 111; 109].
Definition op_names : list (list Z * opk) :=
  [([97;100;100], OAdd); ([114;101;109;111;118;101], ORemove); ([114;101;112;108;97;99;101], OReplace);
   ([99;111;112;121], OCopy); ([109;111;118;101], OMove); ([116;101;115;116], OTest);
   ([105;110;99;114;101;109;101;110;116], OIncrement); ([97;100;100;95;99;114;101;97;116;101], OAddCreate);
   ([115;119;97;112], OSwap)].
Fixpoint op_by_prefix (names : list (list Z * opk)) (v : list Z) : option opk :=
  match names with
  | [] => None
  | (nm, o) :: r => if strncmp_eq nm v (length v) then Some o else op_by_prefix r v
  end.
Definition lit_match (lit : list Z) (m : node) : bool := strncmp_eq lit (n_key m) (Z.to_nat (n_kl m)).

Fixpoint decode_members (ms : list node) (acc : rawop) : rc + rawop :=
  match ms with
  | [] => inr acc
  | m :: r =>
    if lit_match lit_op m then
      match n_ty m with
      | TStr => match op_by_prefix op_names (n_vs m) with
                | Some o => decode_members r {| r_op := o; r_path := r_path acc; r_from := r_from acc; r_val := r_val acc |}
                | None => inl RcBadOp
                end
      | _ => inl RcPatchInvalid
      end
    else if lit_match lit_value m then
      decode_members r {| r_op := r_op acc; r_path := r_path acc; r_from := r_from acc; r_val := Some m |}
    else if lit_match lit_path m then
      match n_ty m with
      | TStr => decode_members r {| r_op := r_op acc; r_path := Some (n_vs m); r_from := r_from acc; r_val := r_val acc |}
      | _ => inl RcPatchInvalid
      end
    else if lit_match lit_from m then
      match n_ty m with
      | TStr => decode_members r {| r_op := r_op acc; r_path := r_path acc; r_from := Some (n_vs m); r_val := r_val acc |}
      | _ => inl RcPatchInvalid
      end
    else decode_members r acc
  end.
Definition empty_rawop := {| r_op := ONone; r_path := None; r_from := None; r_val := None |}.
Fixpoint decode_ops (l : list node) : rc + list rawop :=
  match l with
  | [] => inr []
  | n :: r => match decode_members (n_ch n) empty_rawop with
              | inl e => inl e
              | inr o => match decode_ops r with inl e => inl e | inr os => inr (o :: os) end
              end
  end.
(* `prefix = true`: the decoder before 63ac2d6 (strncmp over the member's / the value's length) *)
Definition create_patch_prefix (p : node) : rc + list rawop :=
  if forallb (fun n => ty_eqb (n_ty n) TObj) (n_ch p) then decode_ops (n_ch p) else inl RcPatchInvalid.

(* exact decoding (what rfc6902 means by the members "op", "path", "from", "value"); used by the struct entry points
   of the harness and as the reference for create_patch *)
Definition key_is (lit : list Z) (m : node) : bool := bytes_eqb lit (firstn (Z.to_nat (n_kl m)) (n_key m)).
Fixpoint op_exact (names : list (list Z * opk)) (v : list Z) : option opk :=
  match names with [] => None | (nm, o) :: r => if bytes_eqb nm v then Some o else op_exact r v end.
Fixpoint decode_members_exact (ms : list node) (acc : rawop) : rc + rawop :=
  match ms with
  | [] => inr acc
  | m :: r =>
    if key_is lit_op m then
      match n_ty m with
      | TStr => match op_exact op_names (n_vs m) with
                | Some o => decode_members_exact r {| r_op := o; r_path := r_path acc; r_from := r_from acc; r_val := r_val acc |}
                | None => inl RcBadOp
                end
      | _ => inl RcPatchInvalid
      end
    else if key_is lit_value m then
      decode_members_exact r {| r_op := r_op acc; r_path := r_path acc; r_from := r_from acc; r_val := Some m |}
    else if key_is lit_path m then
      match n_ty m with
      | TStr => decode_members_exact r {| r_op := r_op acc; r_path := Some (n_vs m); r_from := r_from acc; r_val := r_val acc |}
      | _ => inl RcPatchInvalid
      end
    else if key_is lit_from m then
      match n_ty m with
      | TStr => decode_members_exact r {| r_op := r_op acc; r_path := r_path acc; r_from := Some (n_vs m); r_val := r_val acc |}
      | _ => inl RcPatchInvalid
      end
    else decode_members_exact r acc
  end.
Fixpoint decode_ops_exact (l : list node) : rc + list rawop :=
  match l with
  | [] => inr []
  | n :: r => match (match n_ty n with TObj => decode_members_exact (n_ch n) empty_rawop | _ => inl RcPatchInvalid end) with
              | inl e => inl e
              | inr o => match decode_ops_exact r with inl e => inl e | inr os => inr (o :: os) end
              end
  end.

(* _jbl_create_patch (63ac2d6): every element must be an object (checked for all of them first); member and operation names are
   compared exactly, members that are no "op" / "path" / "from" / "value" are ignored *)
Fixpoint decode_ops_x (l : list node) : rc + list rawop :=
  match l with
  | [] => inr []
  | n :: r => match decode_members_exact (n_ch n) empty_rawop with
              | inl e => inl e
              | inr o => match decode_ops_x r with inl e => inl e | inr os => inr (o :: os) end
              end
  end.
Definition create_patch_v (prefix : bool) (p : node) : rc + list rawop :=
  if prefix then create_patch_prefix p
  else if forallb (fun n => ty_eqb (n_ty n) TObj) (n_ch p) then decode_ops_x (n_ch p) else inl RcPatchInvalid.
Definition create_patch (p : node) : rc + list rawop := create_patch_v false p.

(* _jbl_patch / jbl_patch: the binary document `b` is converted to a tree, the tree is patched, and only a fully
   successful result is converted back and swapped in.  `B` is the binary form; `dec`/`enc` are _jbl_node_from_binn
   and _jbl_from_node_impl (enc fails with JBL_ERROR_CREATION on a JBV_NONE node). *)
Section Binary.
  Variable B : Type.
  Variable dec : B -> node.
  Variable enc : node -> option B.
  Variable empty : B.
  Definition patch_binary (fo : fops) (b : B) (l : list rawop) : rc * B :=
    match l with
    | [] => (RcOk, b)
    | _ =>
      match patch_node fo (dec b) l with
      | (RcOk, t) =>
        match n_ty t with
        | TNone => (RcOk, empty)
        | _ => match enc t with Some b' => (RcOk, b') | None => (RcCreation, b) end
        end
      | (e, _) => (e, b)
      end
    end.
End Binary.

(* abstraction to the pure value *)
Fixpoint val (n : node) : jval :=
  match n with
  | Node _ _ ty vi vs ch =>
    match ty with
    | TNone | TNull => JNull
    | TBool => JBool (negb (vi =? 0))
    | TI64 => JI64 vi
    | TF64 => JF64 vi
    | TStr => JStr vs
    | TArr => JArr (map val ch)
    | TObj => JObj (map (fun c => (n_key c, val c)) ch)
    end
  end.
Definition doc_val (n : node) : option jval := match n_ty n with TNone => None | _ => Some (val n) end.

(* jbn_from_json / _jbl_node_from_binn produce trees of this shape: array items numbered by position, object members
   with klidx = key length; `of_val` is that construction *)
Fixpoint of_val (kl : Z) (key : list Z) (v : jval) : node :=
  match v with
  | JNull => Node kl key TNull 0 [] []
  | JBool b => Node kl key TBool (if b then 1 else 0) [] []
  | JI64 n => Node kl key TI64 n [] []
  | JF64 n => Node kl key TF64 n [] []
  | JStr s => Node kl key TStr 0 s []
  | JArr l => Node kl key TArr 0 []
                   ((fix go (i : Z) (l : list jval) : list node :=
                       match l with [] => [] | x :: r => of_val i [] x :: go (i + 1) r end) 0 l)
  | JObj ms => Node kl key TObj 0 []
                    ((fix go (ms : list (list Z * jval)) : list node :=
                        match ms with [] => [] | (k, x) :: r => of_val (Z.of_nat (length k)) k x :: go r end) ms)
  end.
