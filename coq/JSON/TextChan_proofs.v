(* Proofs about the print channels of TextChan.v: the calls a printer makes concatenate to the text of Text.v's printer,
   and the three exported callbacks receive exactly these bytes. *)
Require Import ZArith List Bool Lia.
Require Import IW.Lib.CInt IW.Gen.Facts IW.UT.Conv IW.JSON.Val IW.JSON.Utf8 IW.JSON.Text IW.JSON.TextSpec IW.JSON.Utf8_proofs
  IW.JSON.Text_proofs IW.JSON.TextChan.
Import ListNotations.
Local Open Scope Z_scope. Local Open Scope bool_scope.
Ltac Zify.zify_post_hook ::= Z.div_mod_to_equations.

(* ================================================================ single calls *)
Lemma cchar_byte : forall c, byte255 c -> byte_of_char (cchar c) = c.
Proof.
  intros c H. unfold byte255 in H. unfold byte_of_char, cchar, uw, sw.
  change (2 ^ 8) with 256. change (2 ^ (8 - 1)) with 128. destruct jtext_char_signed; lia.
Qed.

Lemma cb_app : forall a b, chunks_bytes (a ++ b) = chunks_bytes a ++ chunks_bytes b.
Proof. intros. unfold chunks_bytes. apply flat_map_app. Qed.

Lemma cb_cons : forall c l, chunks_bytes (c :: l) = chunk_bytes c ++ chunks_bytes l.
Proof. reflexivity. Qed.

Lemma cb_nil : chunks_bytes [] = [].
Proof. reflexivity. Qed.

Lemma chunk_bytes_C1 : forall c, byte255 c -> chunk_bytes (C1 c) = [c].
Proof. intros c H. unfold C1, chunk_bytes. rewrite cchar_byte by exact H. reflexivity. Qed.

Lemma chunk_bytes_CN : forall c n, byte255 c -> chunk_bytes (CN c n) = rep c n.
Proof. intros c n H. unfold CN, chunk_bytes, rep. rewrite cchar_byte by exact H. reflexivity. Qed.

Lemma chunk_bytes_CB : forall d, chunk_bytes (CB d) = d.
Proof.
  intro d. unfold CB, chunk_bytes.
  replace (Z.of_nat (length d) <? 0) with false by (symmetry; apply Z.ltb_ge; lia).
  rewrite Nat2Z.id, firstn_all. cbn. apply app_nil_r.
Qed.

Lemma chunk_bytes_lit : forall d n c, 0 < c -> n = Z.of_nat (length d) -> chunk_bytes (CBuf d n c) = concat (repeat d (Z.to_nat c)).
Proof.
  intros d n c Hc ->. unfold chunk_bytes.
  replace (Z.of_nat (length d) <? 0) with false by (symmetry; apply Z.ltb_ge; lia).
  rewrite Nat2Z.id, firstn_all. replace (c =? 0) with false by (symmetry; apply Z.eqb_neq; lia). reflexivity.
Qed.

Lemma chunk_bytes_str : forall d, chunk_bytes (CBuf d (-1) 0) = cstr0 d.
Proof.
  intro d. unfold chunk_bytes. change (-1 <? 0) with true. change (0 =? 0) with true. change (Z.to_nat 1) with 1%nat.
  cbn [repeat concat]. apply app_nil_r.
Qed.

Lemma cb_C1 : forall c l, byte255 c -> chunks_bytes (C1 c :: l) = c :: chunks_bytes l.
Proof. intros. rewrite cb_cons, chunk_bytes_C1 by assumption. reflexivity. Qed.

Lemma cb_CB : forall d l, chunks_bytes (CB d :: l) = d ++ chunks_bytes l.
Proof. intros. rewrite cb_cons, chunk_bytes_CB. reflexivity. Qed.

Ltac b255 := unfold byte255; lia.

(* ================================================================ strings *)
Definition mapr (r : res (list chunk)) : res (list Z) :=
  match r with Ok cs => Ok (chunks_bytes cs) | Err e => Err e end.

Lemma wstr_ch_S : forall f pf s, wstr_ch (S f) pf s =
  match s with
  | [] => Ok []
  | ch :: r =>
    let cont (pre : list chunk) (s' : list Z) :=
      match wstr_ch f pf s' with Ok t => Ok (pre ++ t) | Err e => Err e end in
    if (ch =? 34) || (ch =? 92) then cont [C1 92; C1 ch] r
    else if (8 <=? ch) && (ch <=? 13) && negb (ch =? 11) then cont [C1 92; C1 (nth (Z.to_nat (ch - 8)) specials 0)] r
    else if ch <? 32 then cont [CB (u_esc ch)] r
    else if isprint ch then cont [C1 ch] r
    else if has pf JBL_PRINT_CODEPOINTS then
      match iterate s with
      | None => Err E_UTF8
      | Some (cp, sz) =>
        if cp >=? 65536 then
          let c' := cp - 65536 in
          cont [CB (u_esc (Z.lor 55296 (Z.land (Z.shiftr c' 10) 1023))); CB (u_esc (Z.lor 56320 (Z.land c' 1023)))]
               (skipn (Z.to_nat sz) s)
        else cont [CB (u_esc cp)] (skipn (Z.to_nat sz) s)
      end
    else cont [C1 ch] r
  end.
Proof. reflexivity. Qed.

Lemma specials_byte : forall n, byte255 (nth n specials 0).
Proof. intro n. do 7 (destruct n as [|n]; [cbn; b255|]). cbn. b255. Qed.

Lemma wstr_ch_bytes : forall fuel pf s, Forall byte255 s -> mapr (wstr_ch fuel pf s) = wstr fuel pf s.
Proof.
  induction fuel as [|f IH]; intros pf s Hs; [reflexivity|].
  rewrite wstr_ch_S, wstr_S. destruct s as [|ch r]; [reflexivity|].
  inversion Hs as [|? ? Hch Hr]; subst. cbv zeta.
  assert (Hcont : forall pre pre' s', Forall byte255 s' -> chunks_bytes pre = pre' ->
    mapr (match wstr_ch f pf s' with Ok t => Ok (pre ++ t) | Err e => Err e end)
    = match wstr f pf s' with Ok t => Ok (pre' ++ t) | Err e => Err e end).
  { intros pre pre' s' Hs' Hp. rewrite <- (IH pf s' Hs'). destruct (wstr_ch f pf s'); cbn [mapr]; [rewrite cb_app, Hp|]; reflexivity. }
  destruct ((ch =? 34) || (ch =? 92)).
  { apply Hcont; [exact Hr|]. rewrite !cb_C1 by (assumption || b255). reflexivity. }
  destruct ((8 <=? ch) && (ch <=? 13) && negb (ch =? 11)).
  { apply Hcont; [exact Hr|]. rewrite !cb_C1 by (apply specials_byte || b255). reflexivity. }
  destruct (ch <? 32).
  { apply Hcont; [exact Hr|]. rewrite cb_CB, cb_nil, app_nil_r. reflexivity. }
  destruct (isprint ch).
  { apply Hcont; [exact Hr|]. rewrite cb_C1 by assumption. reflexivity. }
  destruct (has pf JBL_PRINT_CODEPOINTS).
  - destruct (iterate (ch :: r)) as [[cp sz]|]; [|reflexivity].
    destruct (cp >=? 65536); cbv zeta; (apply Hcont; [apply Forall_skipn; exact Hs|]).
    + rewrite !cb_CB, cb_nil, app_nil_r. reflexivity.
    + rewrite cb_CB, cb_nil, app_nil_r. reflexivity.
  - apply Hcont; [exact Hr|]. rewrite cb_C1 by assumption. reflexivity.
Qed.

Lemma wjs_ch_bytes : forall pf s, Forall byte255 s -> mapr (write_json_string_ch pf s) = write_json_string pf s.
Proof.
  intros pf s Hs. unfold write_json_string_ch, write_json_string. rewrite <- (wstr_ch_bytes (S (length s)) pf s Hs).
  destruct (wstr_ch (S (length s)) pf s); [|reflexivity]. cbn [mapr].
  rewrite !cb_app, !cb_C1, cb_nil by b255. reflexivity.
Qed.

Lemma wint_ch_bytes : forall n, mapr (write_int_ch n) = write_int n.
Proof.
  intro n. unfold write_int_ch. destruct (write_int n); [|reflexivity]. cbn [mapr]. rewrite cb_CB, cb_nil, app_nil_r. reflexivity.
Qed.

(* ================================================================ the calls of a printer concatenate to its text *)
Lemma cstr0_bytes : forall s, Forall byte255 s -> Forall byte255 (cstr0 s).
Proof.
  induction s as [|c s IH]; intro H; [constructor|]. inversion H; subst. cbn [cstr0].
  destruct (c =? 0); constructor; auto.
Qed.

Section EmitBytes.
  Variable fo : Z -> list Z.
  Variable pf : Z.
  Hypothesis fo_cstr : forall b, cstr0 (fo b) = fo b.     (* the text of a double is a C string *)

  Lemma chunk_bytes_dbl : forall b, chunks_bytes [CBuf (fo b) (-1) 0] = fo b.
  Proof. intro b. rewrite cb_cons, cb_nil, chunk_bytes_str, fo_cstr. apply app_nil_r. Qed.

  Ltac pieces := repeat first
    [ rewrite cb_app | rewrite cb_C1 by b255 | rewrite cb_nil | rewrite cb_cons
    | rewrite chunk_bytes_CN by b255 ].

  Theorem emit_node_bytes : forall v lvl, wfd v -> mapr (emit_node fo pf lvl v) = print_node fo pf lvl v.
  Proof.
    intro v. induction v as [|b|n|b|s|l IHl|l IHl] using jval_ind2; intros lvl Hwf.
    - reflexivity.
    - destruct b; reflexivity.
    - apply wint_ch_bytes.
    - cbn [emit_node print_node mapr]. rewrite chunk_bytes_dbl. reflexivity.
    - apply wjs_ch_bytes. exact Hwf.
    - cbn [emit_node print_node]. cbn [wfd] in Hwf.
      match goal with |- mapr (match ?g1 l with _ => _ end) = match ?g2 l with _ => _ end =>
        assert (Hg : mapr (g1 l) = g2 l) end.
      { clear - IHl Hwf. induction l as [|x r IHr]; [reflexivity|].
        inversion IHl as [|? ? Hx Hr]; subst. cbn [fold_right] in Hwf. destruct Hwf as [Hwx Hwr].
        cbn beta iota. rewrite <- (Hx (lvl + 1) Hwx), <- (IHr Hr Hwr).
        match goal with |- context [bindc _ ?g _] => destruct g as [bb|] end;
          (destruct (emit_node fo pf (lvl + 1) x) as [a|]; [|reflexivity]); cbn [mapr bindc bind2]; [|reflexivity]. f_equal.
        destruct (pretty pf), r; pieces; cbn [app]; rewrite ?app_nil_r; reflexivity. }
      rewrite <- Hg. match goal with |- mapr (match ?g with _ => _ end) = _ => destruct g as [body|] end; [|reflexivity].
      cbn [mapr]. f_equal. destruct l; destruct (pretty pf); pieces; cbn [app]; rewrite ?app_nil_r; reflexivity.
    - cbn [emit_node print_node]. cbn [wfd] in Hwf.
      match goal with |- mapr (match ?g1 l with _ => _ end) = match ?g2 l with _ => _ end =>
        assert (Hg : mapr (g1 l) = g2 l) end.
      { clear - IHl Hwf. induction l as [|[k x] r IHr]; [reflexivity|].
        inversion IHl as [|? ? Hx Hr]; subst. cbn [snd] in Hx. cbn [fold_right] in Hwf. destruct Hwf as [[Hwk Hwx] Hwr].
        cbn beta iota. rewrite <- (wjs_ch_bytes pf k Hwk), <- (Hx (lvl + 1) Hwx), <- (IHr Hr Hwr).
        destruct (write_json_string_ch pf k) as [kt|]; [|reflexivity]. cbn [mapr].
        match goal with |- context [bindc _ ?g _] => destruct g as [bb|] end;
          (destruct (emit_node fo pf (lvl + 1) x) as [a|]; [|reflexivity]); cbn [mapr bindc bind2]; [|reflexivity]. f_equal.
        destruct (pretty pf), r; pieces; cbn; rewrite ?app_nil_r; reflexivity. }
      rewrite <- Hg. match goal with |- mapr (match ?g with _ => _ end) = _ => destruct g as [body|] end; [|reflexivity].
      cbn [mapr]. f_equal. destruct l; destruct (pretty pf); pieces; cbn [app]; rewrite ?app_nil_r; reflexivity.
  Qed.

  Theorem emit_jbl_bytes : forall v lvl, wfd v -> mapr (emit_jbl fo pf lvl v) = print_jbl fo pf lvl v.
  Proof.
    intro v. induction v as [|b|n|b|s|l IHl|l IHl] using jval_ind2; intros lvl Hwf.
    - reflexivity.
    - destruct b; reflexivity.
    - apply wint_ch_bytes.
    - cbn [emit_jbl print_jbl mapr]. rewrite chunk_bytes_dbl. reflexivity.
    - apply wjs_ch_bytes. apply cstr0_bytes. exact Hwf.
    - cbn [emit_jbl print_jbl]. cbn [wfd] in Hwf.
      match goal with |- mapr (match ?g1 l with _ => _ end) = match ?g2 l with _ => _ end =>
        assert (Hg : mapr (g1 l) = g2 l) end.
      { clear - IHl Hwf. induction l as [|x r IHr]; [reflexivity|].
        inversion IHl as [|? ? Hx Hr]; subst. cbn [fold_right] in Hwf. destruct Hwf as [Hwx Hwr].
        cbn beta iota. rewrite <- (Hx (lvl + 1) Hwx), <- (IHr Hr Hwr).
        match goal with |- context [bindc _ ?g _] => destruct g as [bb|] end;
          (destruct (emit_jbl fo pf (lvl + 1) x) as [a|]; [|reflexivity]); cbn [mapr bindc bind2]; [|reflexivity]. f_equal.
        destruct (has pf JBL_PRINT_PRETTY), r; pieces; cbn [app]; rewrite ?app_nil_r; reflexivity. }
      rewrite <- Hg. match goal with |- mapr (match ?g with _ => _ end) = _ => destruct g as [body|] end; [|reflexivity].
      cbn [mapr]. f_equal. destruct l; destruct (has pf JBL_PRINT_PRETTY); pieces; cbn [app]; rewrite ?app_nil_r; reflexivity.
    - cbn [emit_jbl print_jbl]. cbn [wfd] in Hwf.
      match goal with |- mapr (match ?g1 l with _ => _ end) = match ?g2 l with _ => _ end =>
        assert (Hg : mapr (g1 l) = g2 l) end.
      { clear - IHl Hwf. induction l as [|[k x] r IHr]; [reflexivity|].
        inversion IHl as [|? ? Hx Hr]; subst. cbn [snd] in Hx. cbn [fold_right] in Hwf. destruct Hwf as [[Hwk Hwx] Hwr].
        cbn beta iota. rewrite <- (wjs_ch_bytes pf (cstr0 k) (cstr0_bytes k Hwk)), <- (Hx (lvl + 1) Hwx), <- (IHr Hr Hwr).
        destruct (write_json_string_ch pf (cstr0 k)) as [kt|]; [|reflexivity]. cbn [mapr].
        match goal with |- context [bindc _ ?g _] => destruct g as [bb|] end;
          (destruct (emit_jbl fo pf (lvl + 1) x) as [a|]; [|reflexivity]); cbn [mapr bindc bind2]; [|reflexivity]. f_equal.
        destruct (has pf JBL_PRINT_PRETTY), r; pieces; cbn; rewrite ?app_nil_r; reflexivity. }
      rewrite <- Hg. match goal with |- mapr (match ?g with _ => _ end) = _ => destruct g as [body|] end; [|reflexivity].
      cbn [mapr]. f_equal. destruct l; destruct (has pf JBL_PRINT_PRETTY); pieces; cbn [app]; rewrite ?app_nil_r; reflexivity.
  Qed.
End EmitBytes.

(* ================================================================ every call a printer makes is understood alike by all sinks *)
Lemma chunk_ok_C1 : forall c, chunk_ok (C1 c).
Proof. intro c. unfold C1, chunk_ok. lia. Qed.

Lemma chunk_ok_CN : forall c n, 0 <= n -> chunk_ok (CN c n).
Proof. intros c n H. exact H. Qed.

Lemma chunk_ok_CB : forall d, ~ In 0 d -> chunk_ok (CB d).
Proof.
  intros d H. unfold CB, chunk_ok. split; [lia|]. right. rewrite Nat2Z.id, firstn_all. split; [lia|exact H].
Qed.

Lemma hexU_nz : forall y, 0 <= y < 16 -> hexU y <> 0.
Proof. intros y H. unfold hexU. destruct (y <? 10); lia. Qed.

Lemma u_esc_nz : forall x, ~ In 0 (u_esc x).
Proof.
  intros x H. unfold u_esc in H. cbn [In] in H.
  pose proof (hexU_nz (x / 4096 mod 16) ltac:(lia)). pose proof (hexU_nz (x / 256 mod 16) ltac:(lia)).
  pose proof (hexU_nz (x / 16 mod 16) ltac:(lia)). pose proof (hexU_nz (x mod 16) ltac:(lia)).
  repeat (destruct H as [H|H]; [lia|]). exact H.
Qed.

Lemma dec_nz : forall n, - 2 ^ 63 <= n < 2 ^ 63 -> ~ In 0 (dec n).
Proof.
  intros n Hn Hin.
  assert (Hd : forall m, 0 <= m -> ~ In 0 (dec_pos 20 m [])).
  { intros m Hm Hi. pose proof (dec_pos_digits 20 m [] Hm ltac:(constructor)) as H.
    rewrite Forall_forall in H. apply H in Hi. unfold isdig in Hi. lia. }
  unfold dec in Hin. destruct (n =? 0); [cbn in Hin; lia|].
  destruct (n <? 0) eqn:E; [destruct Hin as [Hin|Hin]; [lia|]|]; apply Hd in Hin; auto; lia.
Qed.

Ltac oks := repeat first
  [ assumption | apply Forall_nil | apply Forall_app; split | apply Forall_cons
  | apply chunk_ok_C1 | apply chunk_ok_CB; apply u_esc_nz ].

Lemma wstr_ch_ok : forall fuel pf s cs, wstr_ch fuel pf s = Ok cs -> Forall chunk_ok cs.
Proof.
  induction fuel as [|f IH]; intros pf s cs H; [discriminate|].
  rewrite wstr_ch_S in H. destruct s as [|ch r]; [injection H as <-; constructor|]. cbv zeta in H.
  assert (Hcont : forall pre s', Forall chunk_ok pre ->
    match wstr_ch f pf s' with Ok t => Ok (pre ++ t) | Err e => Err e end = Ok cs -> Forall chunk_ok cs).
  { intros pre s' Hp Hc. destruct (wstr_ch f pf s') as [t|] eqn:E; [|discriminate]. injection Hc as <-.
    apply Forall_app. split; [exact Hp|]. eapply IH. exact E. }
  destruct ((ch =? 34) || (ch =? 92)); [eapply Hcont; [|exact H]; oks|].
  destruct ((8 <=? ch) && (ch <=? 13) && negb (ch =? 11)); [eapply Hcont; [|exact H]; oks|].
  destruct (ch <? 32); [eapply Hcont; [|exact H]; oks|].
  destruct (isprint ch); [eapply Hcont; [|exact H]; oks|].
  destruct (has pf JBL_PRINT_CODEPOINTS); [|eapply Hcont; [|exact H]; oks].
  destruct (iterate (ch :: r)) as [[cp sz]|]; [|discriminate].
  destruct (cp >=? 65536); cbv zeta in H; (eapply Hcont; [|exact H]); oks.
Qed.

Lemma wjs_ch_ok : forall pf s cs, write_json_string_ch pf s = Ok cs -> Forall chunk_ok cs.
Proof.
  intros pf s cs H. unfold write_json_string_ch in H. destruct (wstr_ch (S (length s)) pf s) as [t|] eqn:E; [|discriminate].
  injection H as <-. apply wstr_ch_ok in E. oks.
Qed.

Lemma wint_ch_ok : forall n cs, - 2 ^ 63 <= n < 2 ^ 63 -> write_int_ch n = Ok cs -> Forall chunk_ok cs.
Proof.
  intros n cs Hn H. unfold write_int_ch in H. rewrite write_int_dec in H by exact Hn. injection H as <-.
  constructor; [|constructor]. apply chunk_ok_CB. apply dec_nz. exact Hn.
Qed.

Lemma indent_pos : forall pf, 0 < indent pf.
Proof. intro pf. unfold indent. repeat match goal with |- context [if ?c then _ else _] => destruct c end; lia. Qed.

Lemma chunk_ok_lit : forall d n c, 0 <= c -> n < 0 \/ (n = Z.of_nat (length d) /\ ~ In 0 d) -> chunk_ok (CBuf d n c).
Proof.
  intros d n c Hc [Hn|[-> Hd]]; (split; [exact Hc|]); [left; exact Hn|].
  right. rewrite Nat2Z.id, firstn_all. split; [lia|exact Hd].
Qed.

Ltac lit := apply chunk_ok_lit; [lia | first [ left; lia | right; split; [reflexivity | cbn; intros Hf; repeat (destruct Hf as [Hf|Hf]; [lia|]); exact Hf ] ] ].

Section EmitOk.
  Variable fo : Z -> list Z.
  Variable pf : Z.

  Ltac oks2 := repeat first
    [ assumption | apply Forall_nil | apply Forall_app; split | apply Forall_cons
    | apply chunk_ok_C1 | apply chunk_ok_CN; pose proof (indent_pos pf); nia | lit ].

  Theorem emit_node_ok : forall v lvl cs, wfd v -> 0 <= lvl -> emit_node fo pf lvl v = Ok cs -> Forall chunk_ok cs.
  Proof.
    intro v. induction v as [|b|n|b|s|l IHl|l IHl] using jval_ind2; intros lvl cs Hwf Hl H.
    - injection H as <-. oks2.
    - destruct b; injection H as <-; oks2.
    - eapply wint_ch_ok; [exact Hwf|exact H].
    - injection H as <-. oks2.
    - eapply wjs_ch_ok. exact H.
    - cbn [emit_node] in H. cbn [wfd] in Hwf.
      match type of H with match ?g l with _ => _ end = _ =>
        assert (Hg : forall body, g l = Ok body -> Forall chunk_ok body) end.
      { clear - IHl Hwf Hl. induction l as [|x r IHr]; intros body Hb; [injection Hb as <-; constructor|].
        inversion IHl as [|? ? Hx Hr]; subst. cbn [fold_right] in Hwf. destruct Hwf as [Hwx Hwr].
        cbn beta iota in Hb.
        destruct (emit_node fo pf (lvl + 1) x) as [a|] eqn:Ea; [|discriminate].
        match type of Hb with bindc _ ?g _ = _ => destruct g as [bb|] eqn:Eb end; [|discriminate].
        cbn [bindc] in Hb. injection Hb as <-.
        pose proof (Hx (lvl + 1) a Hwx ltac:(lia) Ea). pose proof (IHr Hr Hwr bb eq_refl).
        destruct (pretty pf), r; oks2. }
      match type of H with match ?g with _ => _ end = _ => destruct g as [body|] eqn:Eb end; [|discriminate].
      injection H as <-. pose proof (Hg body eq_refl). destruct l; destruct (pretty pf); oks2.
    - cbn [emit_node] in H. cbn [wfd] in Hwf.
      match type of H with match ?g l with _ => _ end = _ =>
        assert (Hg : forall body, g l = Ok body -> Forall chunk_ok body) end.
      { clear - IHl Hwf Hl. induction l as [|[k x] r IHr]; intros body Hb; [injection Hb as <-; constructor|].
        inversion IHl as [|? ? Hx Hr]; subst. cbn [snd] in Hx. cbn [fold_right] in Hwf. destruct Hwf as [[Hwk Hwx] Hwr].
        cbn beta iota in Hb.
        destruct (write_json_string_ch pf k) as [kt|] eqn:Ek; [|discriminate]. apply wjs_ch_ok in Ek.
        destruct (emit_node fo pf (lvl + 1) x) as [a|] eqn:Ea; [|discriminate].
        match type of Hb with bindc _ ?g _ = _ => destruct g as [bb|] eqn:Eb end; [|discriminate].
        cbn [bindc] in Hb. injection Hb as <-.
        pose proof (Hx (lvl + 1) a Hwx ltac:(lia) Ea). pose proof (IHr Hr Hwr bb eq_refl).
        destruct (pretty pf), r; oks2. }
      match type of H with match ?g with _ => _ end = _ => destruct g as [body|] eqn:Eb end; [|discriminate].
      injection H as <-. pose proof (Hg body eq_refl). destruct l; destruct (pretty pf); oks2.
  Qed.

  Theorem emit_jbl_ok : forall v lvl cs, wfd v -> 0 <= lvl -> emit_jbl fo pf lvl v = Ok cs -> Forall chunk_ok cs.
  Proof.
    intro v. induction v as [|b|n|b|s|l IHl|l IHl] using jval_ind2; intros lvl cs Hwf Hl H.
    - injection H as <-. oks2.
    - destruct b; injection H as <-; oks2.
    - eapply wint_ch_ok; [exact Hwf|exact H].
    - injection H as <-. oks2.
    - eapply wjs_ch_ok. exact H.
    - cbn [emit_jbl] in H. cbn [wfd] in Hwf.
      match type of H with match ?g l with _ => _ end = _ =>
        assert (Hg : forall body, g l = Ok body -> Forall chunk_ok body) end.
      { clear - IHl Hwf Hl. induction l as [|x r IHr]; intros body Hb; [injection Hb as <-; constructor|].
        inversion IHl as [|? ? Hx Hr]; subst. cbn [fold_right] in Hwf. destruct Hwf as [Hwx Hwr].
        cbn beta iota in Hb.
        destruct (emit_jbl fo pf (lvl + 1) x) as [a|] eqn:Ea; [|discriminate].
        match type of Hb with bindc _ ?g _ = _ => destruct g as [bb|] eqn:Eb end; [|discriminate].
        cbn [bindc] in Hb. injection Hb as <-.
        pose proof (Hx (lvl + 1) a Hwx ltac:(lia) Ea). pose proof (IHr Hr Hwr bb eq_refl).
        destruct (has pf JBL_PRINT_PRETTY), r; oks2. }
      match type of H with match ?g with _ => _ end = _ => destruct g as [body|] eqn:Eb end; [|discriminate].
      injection H as <-. pose proof (Hg body eq_refl). destruct l; destruct (has pf JBL_PRINT_PRETTY); oks2.
    - cbn [emit_jbl] in H. cbn [wfd] in Hwf.
      match type of H with match ?g l with _ => _ end = _ =>
        assert (Hg : forall body, g l = Ok body -> Forall chunk_ok body) end.
      { clear - IHl Hwf Hl. induction l as [|[k x] r IHr]; intros body Hb; [injection Hb as <-; constructor|].
        inversion IHl as [|? ? Hx Hr]; subst. cbn [snd] in Hx. cbn [fold_right] in Hwf. destruct Hwf as [[Hwk Hwx] Hwr].
        cbn beta iota in Hb.
        destruct (write_json_string_ch pf (cstr0 k)) as [kt|] eqn:Ek; [|discriminate]. apply wjs_ch_ok in Ek.
        destruct (emit_jbl fo pf (lvl + 1) x) as [a|] eqn:Ea; [|discriminate].
        match type of Hb with bindc _ ?g _ = _ => destruct g as [bb|] eqn:Eb end; [|discriminate].
        cbn [bindc] in Hb. injection Hb as <-.
        pose proof (Hx (lvl + 1) a Hwx ltac:(lia) Ea). pose proof (IHr Hr Hwr bb eq_refl).
        destruct (has pf JBL_PRINT_PRETTY), r; oks2. }
      match type of H with match ?g with _ => _ end = _ => destruct g as [body|] eqn:Eb end; [|discriminate].
      injection H as <-. pose proof (Hg body eq_refl). destruct l; destruct (has pf JBL_PRINT_PRETTY); oks2.
  Qed.
End EmitOk.

(* ================================================================ the sinks: each exported callback receives the bytes of the call *)
Lemma sink_cat_text : forall rb p, sink_text (sink_cat rb p) = sink_text rb ++ p.
Proof. intros. unfold sink_text, sink_cat. rewrite <- !rev_alt. rewrite rev_append_rev, rev_app_distr, rev_involutive. reflexivity. Qed.

Lemma times_app : forall n (p rb : list Z), sink_text (times n (fun b => sink_cat b p) rb) = sink_text rb ++ concat (repeat p n).
Proof.
  induction n as [|n IH]; intros p rb; cbn [times repeat concat]; [symmetry; apply app_nil_r|].
  rewrite IH, sink_cat_text, <- app_assoc. reflexivity.
Qed.

Lemma concat_single : forall (x : Z) n, concat (repeat [x] n) = repeat x n.
Proof. induction n as [|n IH]; [reflexivity|]. cbn [repeat concat]. rewrite IH. reflexivity. Qed.

Lemma concat_repeat_len : forall (p : list Z) n, length (concat (repeat p n)) = (n * length p)%nat.
Proof. induction n as [|n IH]; [reflexivity|]. cbn [repeat concat]. rewrite app_length, IH. lia. Qed.

Lemma firstn_cstr0_len : forall d, firstn (length (cstr0 d)) d = cstr0 d.
Proof.
  induction d as [|c d IH]; [reflexivity|]. cbn [cstr0]. destruct (c =? 0); [reflexivity|].
  cbn [length firstn]. rewrite IH. reflexivity.
Qed.

Lemma firstn_cstr0_nz : forall n d, ~ In 0 (firstn n d) -> firstn n (cstr0 d) = firstn n d.
Proof.
  induction n as [|n IH]; intros d H; [reflexivity|]. destruct d as [|c d]; [reflexivity|].
  cbn [firstn] in H. cbn [cstr0]. destruct (c =? 0) eqn:E; [exfalso; apply H; left; lia|].
  cbn [firstn]. rewrite IH; [reflexivity|]. intro Hi. apply H. right. exact Hi.
Qed.

(* the piece of a buffer call, as each sink computes it *)
Lemma piece_xstr : forall d size, size < 0 \/ (0 <= size <= Z.of_nat (length d) /\ ~ In 0 (firstn (Z.to_nat size) d)) ->
  firstn (Z.to_nat (if size <? 0 then strlen d else size)) d = (if size <? 0 then cstr0 d else firstn (Z.to_nat size) d).
Proof.
  intros d size _. destruct (size <? 0); [|reflexivity]. unfold strlen. rewrite Nat2Z.id. apply firstn_cstr0_len.
Qed.

Lemma piece_fstream : forall d size, size < 0 \/ (0 <= size <= Z.of_nat (length d) /\ ~ In 0 (firstn (Z.to_nat size) d)) ->
  firstn (Z.to_nat (if size <? 0 then strlen d else size)) (cstr0 d) = (if size <? 0 then cstr0 d else firstn (Z.to_nat size) d).
Proof.
  intros d size H. destruct (size <? 0) eqn:E.
  - unfold strlen. rewrite Nat2Z.id. apply firstn_all.
  - destruct H as [H|[_ H]]; [apply Z.ltb_ge in E; lia|]. apply firstn_cstr0_nz. exact H.
Qed.

Lemma xstr_put_bytes : forall c rb, chunk_ok c -> sink_text (xstr_put rb c) = sink_text rb ++ chunk_bytes c.
Proof.
  intros [ch count|d size count] rb H; unfold xstr_put, chunk_bytes.
  - rewrite times_app, concat_single. reflexivity.
  - destruct H as [_ H]. rewrite times_app, piece_xstr by exact H. reflexivity.
Qed.

Lemma fstream_put_bytes : forall c rf, chunk_ok c -> sink_text (fstream_put rf c) = sink_text rf ++ chunk_bytes c.
Proof.
  intros [ch count|d size count] rf H; unfold fstream_put, chunk_bytes.
  - destruct (count =? 0) eqn:E; [|apply sink_cat_text]. apply Z.eqb_eq in E. subst. cbn. symmetry. apply app_nil_r.
  - destruct H as [_ H]. rewrite times_app, piece_fstream by exact H. reflexivity.
Qed.

Lemma count_put_len : forall c n, chunk_ok c -> count_put n c = n + Z.of_nat (length (chunk_bytes c)).
Proof.
  intros [ch count|d size count] n H; unfold count_put, chunk_bytes.
  - cbn in H. rewrite repeat_length. lia.
  - destruct H as [Hc H]. rewrite concat_repeat_len.
    assert (Hp : Z.of_nat (length (if size <? 0 then cstr0 d else firstn (Z.to_nat size) d)) = (if size <? 0 then strlen d else size)).
    { destruct (size <? 0) eqn:E; [reflexivity|]. destruct H as [H|[H _]]; [apply Z.ltb_ge in E; lia|].
      rewrite firstn_length. lia. }
    rewrite Nat2Z.inj_mul, Hp. destruct (count =? 0) eqn:E; lia.
Qed.

Lemma chan_fold_bytes : forall (put : list Z -> chunk -> list Z),
  (forall c b, chunk_ok c -> sink_text (put b c) = sink_text b ++ chunk_bytes c) ->
  forall cs b, Forall chunk_ok cs -> sink_text (fold_left put cs b) = sink_text b ++ chunks_bytes cs.
Proof.
  intros put Hput. induction cs as [|c cs IH]; intros b H; [symmetry; apply app_nil_r|].
  inversion H; subst. cbn [fold_left]. rewrite IH, Hput by assumption. rewrite cb_cons, app_assoc. reflexivity.
Qed.

Theorem chan_xstr_bytes : forall cs, Forall chunk_ok cs -> chan_xstr cs = chunks_bytes cs.
Proof. intros cs H. unfold chan_xstr. rewrite (chan_fold_bytes xstr_put xstr_put_bytes) by exact H. reflexivity. Qed.

Theorem chan_fstream_bytes : forall cs, Forall chunk_ok cs -> chan_fstream cs = chunks_bytes cs.
Proof. intros cs H. unfold chan_fstream. rewrite (chan_fold_bytes fstream_put fstream_put_bytes) by exact H. reflexivity. Qed.

Theorem chan_count_len : forall cs, Forall chunk_ok cs -> chan_count cs = Z.of_nat (length (chunks_bytes cs)).
Proof.
  intros cs H. unfold chan_count.
  assert (G : forall cs n, Forall chunk_ok cs -> fold_left count_put cs n = n + Z.of_nat (length (chunks_bytes cs))).
  { clear. induction cs as [|c cs IH]; intros n H; [cbn; lia|]. inversion H; subst. cbn [fold_left].
    rewrite IH, count_put_len by assumption. rewrite cb_cons, app_length. lia. }
  rewrite G by exact H. lia.
Qed.

(* ================================================================ channel independence *)
Section Channels.
  Variable fo : Z -> list Z.
  Variable pf : Z.
  Hypothesis fo_cstr : forall b, cstr0 (fo b) = fo b.

  Theorem node_channels : forall v t, wfd v -> as_json fo pf v = Ok t ->
    exists cs, as_json_chunks fo pf v = Ok cs /\ chunks_bytes cs = t /\
               chan_xstr cs = t /\ chan_fstream cs = t /\ chan_count cs = Z.of_nat (length t).
  Proof.
    intros v t Hwf Hp. unfold as_json in Hp. pose proof (emit_node_bytes fo pf fo_cstr v 0 Hwf) as Hb. rewrite Hp in Hb.
    unfold as_json_chunks. destruct (emit_node fo pf 0 v) as [cs|] eqn:E; [|discriminate]. cbn [mapr] in Hb. injection Hb as Hb.
    pose proof (emit_node_ok fo pf v 0 cs Hwf ltac:(lia) E) as Hok.
    exists cs. rewrite chan_xstr_bytes, chan_fstream_bytes, chan_count_len by exact Hok. rewrite Hb. auto.
  Qed.

  Theorem node_channels_err : forall v e, wfd v -> as_json fo pf v = Err e -> as_json_chunks fo pf v = Err e.
  Proof.
    intros v e Hwf Hp. unfold as_json in Hp. pose proof (emit_node_bytes fo pf fo_cstr v 0 Hwf) as Hb. rewrite Hp in Hb.
    unfold as_json_chunks. destruct (emit_node fo pf 0 v); [discriminate|]. cbn [mapr] in Hb. injection Hb as ->. reflexivity.
  Qed.

  Theorem jbl_channels : forall v t, wfd v -> jbl_as_json fo pf v = Ok t ->
    exists cs, jbl_as_json_chunks fo pf v = Ok cs /\ chunks_bytes cs = t /\
               chan_xstr cs = t /\ chan_fstream cs = t /\ chan_count cs = Z.of_nat (length t).
  Proof.
    intros v t Hwf Hp. unfold jbl_as_json in Hp. pose proof (emit_jbl_bytes fo pf fo_cstr v 0 Hwf) as Hb. rewrite Hp in Hb.
    unfold jbl_as_json_chunks. destruct (emit_jbl fo pf 0 v) as [cs|] eqn:E; [|discriminate]. cbn [mapr] in Hb. injection Hb as Hb.
    pose proof (emit_jbl_ok fo pf v 0 cs Hwf ltac:(lia) E) as Hok.
    exists cs. rewrite chan_xstr_bytes, chan_fstream_bytes, chan_count_len by exact Hok. rewrite Hb. auto.
  Qed.
End Channels.

Lemma wf_wfd : forall v, wf v -> wfd v.
Proof.
  intro v. induction v as [|b|n|b|s|l IHl|l IHl] using jval_ind2; intro H; cbn [wf wfd] in *; auto.
  - induction l as [|x r IHr]; [exact I|]. inversion IHl; subst. cbn [fold_right] in *. destruct H as [Hx Hr]. split; auto.
  - induction l as [|[k x] r IHr]; [exact I|]. inversion IHl as [|? ? Hx' Hr']; subst. cbn [snd] in Hx'. cbn [fold_right] in *.
    destruct H as [[Hk Hx] Hr]. repeat split; auto.
Qed.

(* ================================================================ T1: the callbacks of the current tree, one call for every byte *)
Theorem sink_tables : forall b, 0 <= b < 256 -> sink_tables_ok b = true.
Proof.
  intros b Hb.
  assert (H : forallb sink_tables_ok (map Z.of_nat (seq 0 256)) = true) by (vm_compute; reflexivity).
  rewrite forallb_forall in H. apply H. apply in_map_iff. exists (Z.to_nat b). split; [lia|]. apply in_seq. lia.
Qed.
