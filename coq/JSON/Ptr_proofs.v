(* proofs about JSON/Ptr.v (family jbinn, C14) *)
Require Import ZArith List Bool Lia. Import ListNotations.
Require Import IW.JSON.Val IW.JSON.Binn IW.JSON.Ptr IW.JSON.Binn_proofs IW.Gen.Facts.
Local Open Scope Z_scope.
Ltac Zify.zify_post_hook ::= Z.div_mod_to_equations.

(* ------------------------------------------------------------------ byte strings *)
Lemma bytes_eqb_refl a : Forall (fun c => True) a -> bytes_eqb a a = true.
Proof. intros _. induction a as [|x r IH]; [reflexivity|]. cbn [bytes_eqb]. rewrite Z.eqb_refl, IH. reflexivity. Qed.
Lemma bytes_eqb_eq a b : bytes_eqb a b = true <-> a = b.
Proof.
  split.
  - revert b. induction a as [|x r IH]; intros [|y s] H; try discriminate; [reflexivity|].
    cbn [bytes_eqb] in H. apply andb_prop in H as [H1 H2]. apply Z.eqb_eq in H1. subst. f_equal. apply IH. assumption.
  - intros <-. apply bytes_eqb_refl. apply Forall_forall. trivial.
Qed.

(* ------------------------------------------------------------------ one-step unfoldings of the walk *)
Section VisitFacts.
  Variable N : Type.
  Variable kids : N -> kres N.
  Variable upd : list (list Z) -> Z -> Z -> option (list Z) -> Z -> Z * bool.
  Variable eat : bool.
  Variable ptr : list (list Z).
  Notation visit' := (visit N kids upd eat ptr).

  Lemma visit_O lvl cs st : visit' O lvl cs st = VErr E_FUEL.
  Proof. reflexivity. Qed.
  Lemma visit_nil f lvl st : visit' (S f) lvl [] st = VOk st.
  Proof. reflexivity. Qed.
  Lemma visit_cons f lvl key idx n rest st :
    visit' (S f) lvl ((key, idx, n) :: rest) st =
      if v_term st then VOk st
      else
        let '(pos', matched) := upd ptr (v_pos st) lvl key idx in
        let st1 := if matched then VS pos' (Some n) true else VS pos' (v_res st) false in
        let skip := negb matched && (zlen ptr <? lvl + 1) in
        if matched && negb eat then VOk st1
        else if skip then visit' (S f) lvl rest st1
        else match kids n with
             | KNot => visit' (S f) lvl rest st1
             | KErr e => VErr e
             | KSome cs' =>
               if lvl + 1 >? jbinn_JBL_MAX_NESTING_LEVEL then VErr E_NESTING
               else match visit' f (lvl + 1) cs' st1 with
                    | VErr e => VErr e
                    | VOk st2 => visit' (S f) lvl rest st2
                    end
             end.
  Proof. reflexivity. Qed.

  Lemma visit_term f lvl cs st : v_term st = true -> visit' (S f) lvl cs st = VOk st.
  Proof. intros H. destruct cs as [|[[key idx] n] rest]; [reflexivity|]. rewrite visit_cons, H. reflexivity. Qed.
End VisitFacts.

(* ------------------------------------------------------------------ what both cursor updates compute on C strings *)
Definition keystr (key : option (list Z)) (idx : Z) : list Z := match key with Some k => k | None => itoa idx end.

Definition upd_spec (ptr : list (list Z)) (pos lvl : Z) (key : option (list Z)) (idx : Z) : Z * bool :=
  let cnt := zlen ptr in
  if lvl <? cnt then
    let pos1 := if pos >=? lvl then lvl - 1 else pos in
    if pos1 + 1 =? lvl then
      if bytes_eqb (keystr key idx) (seg_at ptr lvl) then (lvl, cnt =? lvl + 1) else (pos1, false)
    else (pos1, false)
  else (pos, false).

Lemma upd_spec_unmatched ptr pos lvl key idx : pos + 1 < lvl -> upd_spec ptr pos lvl key idx = (pos, false).
Proof.
  intros H. unfold upd_spec. cbv zeta. destruct (lvl <? zlen ptr); [|reflexivity].
  replace (pos >=? lvl) with false by lia. replace (pos + 1 =? lvl) with false by lia. reflexivity.
Qed.
Lemma upd_spec_at ptr pos lvl key idx : lvl < zlen ptr -> lvl - 1 <= pos ->
  upd_spec ptr pos lvl key idx =
    if bytes_eqb (keystr key idx) (seg_at ptr lvl) then (lvl, zlen ptr =? lvl + 1) else (lvl - 1, false).
Proof.
  intros H1 H2. unfold upd_spec. cbv zeta. replace (lvl <? zlen ptr) with true by lia.
  destruct (pos >=? lvl) eqn:E.
  - replace (lvl - 1 + 1 =? lvl) with true by lia. reflexivity.
  - replace (pos + 1 =? lvl) with true by lia. replace pos with (lvl - 1) by lia. reflexivity.
Qed.

(* side conditions on a child as the tree walk / the binary walk sees it *)
Definition kok_j (key : option (list Z)) (idx : Z) : Prop :=
  match key with Some k => forallb char_ok k = true /\ idx = zlen k | None => 0 <= idx < 100000000000 end.
Definition kok_b (key : option (list Z)) (idx : Z) : Prop :=
  match key with Some k => forallb char_ok k = true | None => 0 <= idx < 100000000000 end.

(* arrays short enough for their indices to be C ints *)
Fixpoint small (v : jval) : bool :=
  match v with
  | JArr l => (zlen l <? 2147483648) && forallb small l
  | JObj ms => forallb (fun m => small (snd m)) ms
  | _ => true
  end.
Definition wfx (v : jval) : Prop := wf v = true /\ small v = true.

(* the search both walks perform, without the cursor: first child whose name equals the segment and below which the
   rest of the pointer is found *)
Fixpoint dfs (segs : list (list Z)) (cs : list (option (list Z) * Z * jval)) : option jval :=
  match segs with
  | [] => None
  | s :: rest =>
    (fix scan (cs : list (option (list Z) * Z * jval)) : option jval :=
       match cs with
       | [] => None
       | (key, idx, n) :: tl =>
         if bytes_eqb (keystr key idx) s then
           match rest with
           | [] => Some n
           | _ :: _ => match (match kids_j n with KSome cs' => dfs rest cs' | _ => None end) with
                       | Some r => Some r
                       | None => scan tl
                       end
           end
         else scan tl
       end) cs
  end.

Lemma dfs_nil s rest : dfs (s :: rest) [] = None. Proof. reflexivity. Qed.
Lemma dfs_cons s rest key idx n tl :
  dfs (s :: rest) ((key, idx, n) :: tl) =
    if bytes_eqb (keystr key idx) s then
      match rest with
      | [] => Some n
      | _ :: _ => match (match kids_j n with KSome cs' => dfs rest cs' | _ => None end) with
                  | Some r => Some r
                  | None => dfs (s :: rest) tl
                  end
      end
    else dfs (s :: rest) tl.
Proof. reflexivity. Qed.

Definition cwf (a : option (list Z) * Z * jval) : Prop := wfx (snd a) /\ kok_j (fst (fst a)) (snd (fst a)).

Lemma number_cwf (l : list jval) : forall i, 0 <= i -> i + zlen l < 100000000000 -> Forall wfx l -> Forall cwf (number i l).
Proof.
  induction l as [|x r IH]; intros i Hi Hb Hw; cbn [number]; [constructor|]. inversion Hw; subst.
  rewrite zlen_cons in Hb. pose proof (zlen_nonneg r).
  constructor; [split; [assumption|cbn; lia]|]. apply IH; [lia|lia|assumption].
Qed.

Lemma wfx_arr l : wfx (JArr l) -> zlen l < 2147483648 /\ Forall wfx l.
Proof.
  intros [Hw Hs]. cbn [small] in Hs. apply andb_prop in Hs as [H1 H2]. split; [lia|].
  pose proof (wf_arr_inv _ Hw) as Hwl. rewrite forallb_forall in H2. rewrite Forall_forall in *.
  intros x Hx. split; [apply Hwl|apply H2]; assumption.
Qed.
Lemma wfx_obj ms : wfx (JObj ms) ->
  Forall (fun m => forallb char_ok (fst m) = true /\ zlen (fst m) <= 255 /\ wfx (snd m)) ms /\ keys_unique (map fst ms) = true.
Proof.
  intros [Hw Hs]. cbn [small] in Hs. destruct (wf_obj_inv _ Hw) as [Hm Hu]. split; [|assumption].
  rewrite forallb_forall in Hs. rewrite Forall_forall in *. intros m Hin. destruct (Hm m Hin) as (A & B & C).
  repeat split; try assumption. apply Hs. assumption.
Qed.

Lemma kids_j_cwf v : wfx v -> match kids_j v with KSome cs => Forall cwf cs | _ => True end.
Proof.
  intros Hw. destruct v; cbn [kids_j]; try exact I.
  - destruct (wfx_arr _ Hw) as [Hl Hf]. apply number_cwf; [lia|lia|assumption].
  - destruct (wfx_obj _ Hw) as [Hm _]. apply Forall_forall. intros c Hc. apply in_map_iff in Hc as (m & <- & Hin).
    rewrite Forall_forall in Hm. destruct (Hm m Hin) as (H1 & H2 & H3). split; [assumption|]. cbn. split; [assumption|reflexivity].
Qed.

Lemma skipn_seg (ptr : list (list Z)) lvl : 0 <= lvl < zlen ptr ->
  skipn (Z.to_nat lvl) ptr = seg_at ptr lvl :: skipn (Z.to_nat (lvl + 1)) ptr.
Proof.
  intros H. unfold seg_at. replace (Z.to_nat (lvl + 1)) with (S (Z.to_nat lvl)) by lia.
  assert (Hn : (Z.to_nat lvl < length ptr)%nat) by (unfold zlen in H; lia).
  revert Hn. generalize (Z.to_nat lvl). clear H. induction ptr as [|s r IH]; intros n Hn; [simpl in Hn; lia|].
  destruct n as [|n]; [reflexivity|]. cbn [skipn nth]. apply IH. simpl in Hn. lia.
Qed.

Section Walk.
  Variable N : Type.
  Variable kids : N -> kres N.
  Variable upd : list (list Z) -> Z -> Z -> option (list Z) -> Z -> Z * bool.
  Variable eat : bool.
  Variable ptr : list (list Z).
  Variable R : jval -> N -> Prop.
  Variable kokN : option (list Z) -> Z -> Prop.
  Notation visit' := (visit N kids upd eat ptr).
  Notation cnt := (zlen ptr).

  Definition crel (a : option (list Z) * Z * jval) (b : option (list Z) * Z * N) : Prop :=
    fst (fst a) = fst (fst b) /\ keystr (fst (fst a)) (snd (fst a)) = keystr (fst (fst b)) (snd (fst b)) /\
    kokN (fst (fst b)) (snd (fst b)) /\ R (snd a) (snd b).

  Definition kids_rel (kj : kres jval) (kn : kres N) : Prop :=
    match kj, kn with
    | KNot, KNot => True
    | KSome cj, KSome cn => Forall2 crel cj cn
    | _, _ => False
    end.

  Hypothesis Hupd : forall pos lvl key idx, kokN key idx -> upd ptr pos lvl key idx = upd_spec ptr pos lvl key idx.
  Hypothesis Hkids : forall v n, R v n -> wfx v -> kids_rel (kids_j v) (kids n).
  Hypothesis Hcnt : cnt <= jbinn_JBL_MAX_NESTING_LEVEL.

  (* below a node whose path did not match nothing happens *)
  Lemma walk_unmatched : forall f lvl cj cn st, Forall2 crel cj cn -> Forall cwf cj ->
    Z.of_nat f + lvl > cnt -> 0 <= lvl <= cnt -> v_term st = false -> v_pos st + 1 < lvl -> visit' f lvl cn st = VOk st.
  Proof.
    induction f as [|f IHf]; intros lvl cj cn st Hrel Hwf Hfuel Hl Ht Hp.
    - exfalso. lia.
    - revert st Ht Hp. induction Hrel as [|a b cj' cn' Hab Hrest IHl]; intros st Ht Hp; [apply visit_nil|].
      destruct b as [[key idx] n]. destruct a as [[keyj idxj] v]. destruct Hab as (Hk & Hks & Hok & HR). cbn [fst snd] in *.
      inversion Hwf as [|? ? [Hwv _] Hwf']; subst. cbn [snd] in Hwv.
      rewrite visit_cons, Ht. rewrite (Hupd _ _ _ _ Hok). rewrite upd_spec_unmatched by lia.
      cbn [andb negb].
      assert (Hst : VS (v_pos st) (v_res st) false = st) by (destruct st; cbn in *; subst; reflexivity).
      rewrite Hst.
      destruct (cnt <? lvl + 1) eqn:Esk; [apply IHl; assumption|].
      pose proof (Hkids v n HR Hwv) as Hkr. pose proof (kids_j_cwf v Hwv) as Hkw. unfold kids_rel in Hkr.
      destruct (kids_j v) as [| |cj2]; destruct (kids n) as [|e|cn2]; try contradiction.
      + apply IHl; assumption.
      + replace (lvl + 1 >? jbinn_JBL_MAX_NESTING_LEVEL) with false by lia.
        rewrite (IHf (lvl + 1) cj2 cn2 st Hkr Hkw); try lia; try assumption. apply IHl; assumption.
  Qed.

  Definition inv (lvl : Z) (st : vst N) : Prop := v_term st = false /\ v_res st = None /\ lvl - 1 <= v_pos st.

  Definition walk_post (lvl : Z) (o : option jval) (r : vr N) : Prop :=
    match o with
    | Some x => exists pos' rn, r = VOk (VS pos' (Some rn) true) /\ R x rn /\ wfx x
    | None => exists st', r = VOk st' /\ inv lvl st'
    end.

  Lemma skipn_last_level lvl : 0 <= lvl -> cnt = lvl + 1 -> skipn (Z.to_nat (lvl + 1)) ptr = [].
  Proof. intros H0 H. apply skipn_all2. unfold zlen in H. lia. Qed.

  (* below a node whose path matched so far: the walk finds what the cursor-free search finds *)
  Lemma walk_matched : forall f lvl cj cn st, Forall2 crel cj cn -> Forall cwf cj ->
    Z.of_nat f + lvl > cnt -> 0 <= lvl < cnt -> inv lvl st ->
    walk_post lvl (dfs (skipn (Z.to_nat lvl) ptr) cj) (visit' f lvl cn st).
  Proof.
    induction f as [|f IHf]; intros lvl cj cn st Hrel Hwf Hfuel Hl Hinv; [exfalso; lia|].
    rewrite skipn_seg by lia.
    remember (skipn (Z.to_nat (lvl + 1)) ptr) as rest eqn:Erest.
    revert st Hinv. induction Hrel as [|a b cj' cn' Hab Hrest IHl]; intros st (Ht & Hres & Hp).
    { rewrite dfs_nil, visit_nil. exists st. repeat split; assumption. }
    destruct b as [[key idx] n]. destruct a as [[keyj idxj] v]. destruct Hab as (Hk & Hks & Hok & HR). cbn [fst snd] in *.
    pose proof (Forall_inv Hwf) as [Hwv _]. pose proof (Forall_inv_tail Hwf) as Hwf'. cbn [snd] in Hwv. specialize (IHl Hwf').
    rewrite dfs_cons, visit_cons, Ht. rewrite (Hupd _ _ _ _ Hok). rewrite upd_spec_at by lia. rewrite Hks.
    pose proof (Hkids v n HR Hwv) as Hkr. pose proof (kids_j_cwf v Hwv) as Hkw. unfold kids_rel in Hkr.
    destruct (bytes_eqb (keystr key idx) (seg_at ptr lvl)) eqn:Em.
    - destruct (cnt =? lvl + 1) eqn:Ec.
      + (* complete match *)
        rewrite skipn_last_level in Erest by lia. subst rest. cbn [andb negb].
        destruct eat; cbn [negb andb].
        * destruct (kids_j v) as [| |cj2]; destruct (kids n) as [|e|cn2]; try contradiction.
          -- rewrite visit_term by reflexivity. exists lvl, n. split; [reflexivity|split; assumption].
          -- replace (lvl + 1 >? jbinn_JBL_MAX_NESTING_LEVEL) with false by lia.
             destruct f as [|f']; [exfalso; lia|]. rewrite visit_term by reflexivity. rewrite visit_term by reflexivity.
             exists lvl, n. split; [reflexivity|split; assumption].
        * exists lvl, n. split; [reflexivity|split; assumption].
      + (* partial match: go down *)
        assert (Hlt : lvl + 1 < cnt) by lia.
        destruct rest as [|s2 r2].
        { exfalso. apply (f_equal (@length _)) in Erest. rewrite skipn_length in Erest. cbn [length] in Erest. unfold zlen in Hlt. lia. }
        cbn [andb negb]. rewrite Hres.
        replace (cnt <? lvl + 1) with false by lia.
        set (st1 := VS lvl (@None N) false).
        assert (Hi1 : inv (lvl + 1) st1) by (repeat split; cbn; lia).
        destruct (kids_j v) as [| |cj2]; destruct (kids n) as [|e|cn2]; try contradiction.
        * apply IHl. destruct Hi1 as (A & B & C). repeat split; cbn in *; try assumption; lia.
        * replace (lvl + 1 >? jbinn_JBL_MAX_NESTING_LEVEL) with false by lia.
          pose proof (IHf (lvl + 1) cj2 cn2 st1 Hkr Hkw ltac:(lia) ltac:(lia) Hi1) as Hdown.
          rewrite <- Erest in Hdown.
          destruct (dfs (s2 :: r2) cj2) as [r|]; cbn [walk_post] in Hdown.
          -- destruct Hdown as (pos' & rn & -> & HRr & Hwr). rewrite visit_term by reflexivity. exists pos', rn. split; [reflexivity|split; assumption].
          -- destruct Hdown as (st' & -> & (A & B & C)). apply IHl. repeat split; try assumption; lia.
    - (* no match at this child *)
      cbn [andb negb]. rewrite Hres. replace (cnt <? lvl + 1) with false by lia.
      set (st1 := VS (lvl - 1) (@None N) false).
      assert (Hi1 : inv lvl st1) by (repeat split; cbn; lia).
      destruct (kids_j v) as [| |cj2]; destruct (kids n) as [|e|cn2]; try contradiction.
      + apply IHl. assumption.
      + replace (lvl + 1 >? jbinn_JBL_MAX_NESTING_LEVEL) with false by lia.
        rewrite (walk_unmatched f (lvl + 1) cj2 cn2 st1 Hkr Hkw) by (cbn; lia || reflexivity).
        apply IHl. assumption.
  Qed.
End Walk.

(* ------------------------------------------------------------------ decimal numbers: iwitoa against the RFC index syntax *)
Definition dval (s : list Z) : Z := fold_left (fun a d => a * 10 + (d - 48)) s 0.

Lemma dval_app s d : dval (s ++ [d]) = dval s * 10 + (d - 48).
Proof. unfold dval. rewrite fold_left_app. reflexivity. Qed.

Lemma digits_rev_spec : forall f n, 0 <= n < 10 ^ Z.of_nat f -> (0 < f)%nat ->
  dval (rev (digits_rev f n)) = n /\ forallb is_digit (digits_rev f n) = true /\
  (10 <= n -> exists d r, rev (digits_rev f n) = d :: r /\ 49 <= d <= 57) /\ (n < 10 -> digits_rev f n = [48 + n]).
Proof.
  induction f as [|f IH]; intros n Hn Hf; [lia|]. cbn [digits_rev].
  destruct (n <? 10) eqn:E.
  - cbn [rev app]. split; [unfold dval; cbn [fold_left]; lia|].
    split; [cbn [forallb]; unfold is_digit; replace (48 <=? 48 + n) with true by lia; replace (48 + n <=? 57) with true by lia; reflexivity|].
    split; [intros; lia|reflexivity].
  - assert (Hq : 0 <= n / 10 < 10 ^ Z.of_nat f).
    { replace (Z.of_nat (S f)) with (Z.of_nat f + 1) in Hn by lia. rewrite Z.pow_add_r in Hn by lia. change (10 ^ 1) with 10 in Hn. lia. }
    assert (Hf' : (0 < f)%nat).
    { destruct f; [|lia]. change (10 ^ Z.of_nat 0) with 1 in Hq. lia. }
    destruct (IH (n / 10) Hq Hf') as (H1 & H2 & H3 & H4).
    cbn [rev]. split; [rewrite dval_app, H1; lia|].
    split.
    { cbn [forallb]. rewrite H2. unfold is_digit.
      replace (48 <=? 48 + n mod 10) with true by lia. replace (48 + n mod 10 <=? 57) with true by lia. reflexivity. }
    split; [|intros; lia].
    intros _. destruct (Z_lt_le_dec (n / 10) 10) as [Hs|Hb].
    + rewrite (H4 Hs). cbn [rev app]. exists (48 + n / 10), [48 + n mod 10]. split; [reflexivity|lia].
    + destruct (H3 Hb) as (d & r & -> & Hd). exists d, (r ++ [48 + n mod 10]). split; [reflexivity|assumption].
Qed.

Lemma forallb_rev {A} (p : A -> bool) l : forallb p (rev l) = forallb p l.
Proof. induction l as [|x r IH]; [reflexivity|]. cbn [rev forallb]. rewrite forallb_app, IH. cbn [forallb]. rewrite andb_true_r. apply andb_comm. Qed.

Lemma rfc_index_itoa i : 0 <= i < 100000000000 -> rfc_index (itoa i) = Some i.
Proof.
  intros H. unfold itoa. destruct (digits_rev_spec 11 i ltac:(change (10 ^ Z.of_nat 11) with 100000000000; lia) ltac:(lia))
    as (H1 & H2 & H3 & H4).
  destruct (Z_lt_le_dec i 10) as [Hs|Hb].
  - rewrite (H4 Hs). cbn [rev app rfc_index]. unfold is_digit.
    replace (48 <=? 48 + i) with true by lia. replace (48 + i <=? 57) with true by lia. cbn [andb]. f_equal. lia.
  - destruct (H3 Hb) as (d & r & Hr & Hd). rewrite Hr in *.
    destruct r as [|d2 r'].
    + exfalso. unfold dval in H1. cbn [fold_left] in H1. lia.
    + cbn [rfc_index]. replace (49 <=? d) with true by lia. replace (d <=? 57) with true by lia. cbn [andb].
      assert (Hall : forallb is_digit (d :: d2 :: r') = true) by (rewrite <- Hr, forallb_rev; exact H2).
      cbn [forallb] in Hall. apply andb_prop in Hall as [_ Hall]. cbn [forallb]. rewrite Hall. f_equal. exact H1.
Qed.

(* a digit string without leading zero is what iwitoa prints for its value *)
Lemma dval_nonneg s : forallb is_digit s = true -> 0 <= dval s.
Proof.
  induction s as [|d r IH] using rev_ind; intros H; [unfold dval; cbn; lia|].
  rewrite forallb_app in H. apply andb_prop in H as [H1 H2]. cbn [forallb] in H2. unfold is_digit in H2.
  rewrite dval_app. specialize (IH H1). lia.
Qed.

Lemma dval_lead s d : 49 <= d <= 57 -> forallb is_digit s = true -> 1 <= dval (d :: s).
Proof.
  induction s as [|x r IH] using rev_ind; intros Hd H.
  - unfold dval. cbn [fold_left]. lia.
  - rewrite forallb_app in H. apply andb_prop in H as [H1 H2]. cbn [forallb] in H2. unfold is_digit in H2.
    rewrite app_comm_cons, dval_app. specialize (IH Hd H1). lia.
Qed.

Lemma digits_rev_of_string : forall s d, 49 <= d <= 57 -> forallb is_digit s = true ->
  forall f, dval (d :: s) < 10 ^ Z.of_nat f -> digits_rev f (dval (d :: s)) = rev (d :: s).
Proof.
  induction s as [|x r IH] using rev_ind; intros d Hd H f Hf.
  - unfold dval in *. cbn [fold_left] in *. destruct f as [|f]; [change (10 ^ Z.of_nat 0) with 1 in Hf; lia|].
    cbn [digits_rev rev app]. replace (0 * 10 + (d - 48) <? 10) with true by lia. f_equal. lia.
  - rewrite forallb_app in H. apply andb_prop in H as [H1 H2]. cbn [forallb] in H2. unfold is_digit in H2.
    rewrite app_comm_cons in *. rewrite dval_app in *. rewrite rev_app_distr. cbn [rev app].
    pose proof (dval_lead r d Hd H1) as Hl.
    destruct f as [|f]; [change (10 ^ Z.of_nat 0) with 1 in Hf; lia|].
    cbn [digits_rev]. replace (dval (d :: r) * 10 + (x - 48) <? 10) with false by lia.
    replace ((dval (d :: r) * 10 + (x - 48)) mod 10) with (x - 48) by lia.
    replace ((dval (d :: r) * 10 + (x - 48)) / 10) with (dval (d :: r)) by lia.
    replace (48 + (x - 48)) with x by lia. f_equal.
    apply IH; try assumption.
    replace (Z.of_nat (S f)) with (Z.of_nat f + 1) in Hf by lia. rewrite Z.pow_add_r in Hf by lia. change (10 ^ 1) with 10 in Hf. lia.
Qed.

Lemma itoa_of_index s i : rfc_index s = Some i -> i < 100000000000 -> itoa i = s.
Proof.
  intros H Hi. unfold rfc_index in H. destruct s as [|c r]; [discriminate|].
  destruct r as [|c2 r'].
  - destruct (is_digit c) eqn:E; [|discriminate]. injection H as <-. unfold is_digit in E.
    unfold itoa. cbn [digits_rev]. replace (c - 48 <? 10) with true by lia. cbn [rev app]. f_equal. lia.
  - destruct ((49 <=? c) && (c <=? 57) && forallb is_digit (c2 :: r')) eqn:E; [|discriminate].
    injection H as <-. apply andb_prop in E as [E1 E2]. apply andb_prop in E1 as [E0 E1].
    assert (Hi' : dval (c :: c2 :: r') < 10 ^ Z.of_nat 11) by (change (10 ^ Z.of_nat 11) with 100000000000; exact Hi).
    unfold itoa. match goal with |- rev (digits_rev 11 ?t) = _ => change t with (dval (c :: c2 :: r')) end.
    rewrite (digits_rev_of_string (c2 :: r') c ltac:(lia) E2 11 Hi').
    apply rev_involutive.
Qed.

Lemma itoa_match i s : 0 <= i < 100000000000 -> (bytes_eqb (itoa i) s = true <-> rfc_index s = Some i).
Proof.
  intros H. rewrite bytes_eqb_eq. split.
  - intros <-. apply rfc_index_itoa. assumption.
  - intros Hs. apply itoa_of_index; [assumption|lia].
Qed.

Lemma itoa_char_ok i : 0 <= i < 100000000000 -> forallb char_ok (itoa i) = true.
Proof.
  intros H. unfold itoa. rewrite forallb_rev.
  destruct (digits_rev_spec 11 i ltac:(change (10 ^ Z.of_nat 11) with 100000000000; lia) ltac:(lia)) as (_ & H2 & _).
  rewrite forallb_forall in *. intros c Hc. specialize (H2 c Hc). unfold is_digit in H2. unfold char_ok. lia.
Qed.

(* ------------------------------------------------------------------ the two cursor updates against upd_spec *)
Definition pok (ptr : list (list Z)) : Prop := Forall (fun s => forallb char_ok s = true /\ star s = false) ptr.

Lemma seg_ok ptr lvl : pok ptr -> forallb char_ok (seg_at ptr lvl) = true /\ star (seg_at ptr lvl) = false.
Proof.
  intros H. unfold seg_at. destruct (nth_in_or_default (Z.to_nat lvl) ptr []) as [Hin | ->].
  - unfold pok in H. rewrite Forall_forall in H. apply H. assumption.
  - split; reflexivity.
Qed.

Lemma bytes_eqb_len a b : bytes_eqb a b = true -> zlen a = zlen b.
Proof. intros H. apply bytes_eqb_eq in H. subst. reflexivity. Qed.

Lemma zfirst_all {A} (l : list A) : zfirst (zlen l) l = l.
Proof. unfold zfirst, zlen. rewrite Nat2Z.id. apply firstn_all. Qed.

Lemma strn_eq a seg : forallb char_ok a = true -> forallb char_ok seg = true ->
  ((zlen a =? zlen seg) && strncmp_eq a seg (zlen a)) = bytes_eqb a seg.
Proof.
  intros Ha Hs. unfold strncmp_eq. rewrite !cstr_id by assumption.
  destruct (zlen a =? zlen seg) eqn:E.
  - apply Z.eqb_eq in E. rewrite zfirst_all. rewrite E, zfirst_all. reflexivity.
  - cbn [andb]. destruct (bytes_eqb a seg) eqn:B; [|reflexivity]. apply bytes_eqb_len in B. lia.
Qed.

Lemma upd_jbl_spec ptr : pok ptr -> forall pos lvl key idx, kok_b key idx ->
  upd_jbl ptr pos lvl key idx = upd_spec ptr pos lvl key idx.
Proof.
  intros Hp pos lvl key idx Hk. unfold upd_jbl, upd_spec. cbv zeta.
  destruct (lvl <? zlen ptr); [|reflexivity].
  destruct ((if pos >=? lvl then lvl - 1 else pos) + 1 =? lvl); [|reflexivity].
  destruct (seg_ok ptr lvl Hp) as [_ Hst]. rewrite Hst, orb_false_r.
  destruct key as [k|]; cbn [keystr]; [|reflexivity]. cbn in Hk. rewrite cstr_id by assumption. reflexivity.
Qed.

Lemma upd_jbn_spec ptr : pok ptr -> forall pos lvl key idx, kok_j key idx ->
  upd_jbn ptr pos lvl key idx = upd_spec ptr pos lvl key idx.
Proof.
  intros Hp pos lvl key idx Hk. unfold upd_jbn, upd_spec. cbv zeta.
  destruct (lvl <? zlen ptr); [|reflexivity].
  destruct ((if pos >=? lvl then lvl - 1 else pos) + 1 =? lvl); [|reflexivity].
  destruct (seg_ok ptr lvl Hp) as [Hsc Hst]. rewrite Hst, orb_false_r.
  destruct key as [k|]; cbn [keystr].
  - destruct Hk as [Hk ->]. rewrite strn_eq by assumption. reflexivity.
  - cbn in Hk. rewrite strn_eq by (try assumption; apply itoa_char_ok; assumption). reflexivity.
Qed.

(* ------------------------------------------------------------------ the cursor-free search is the RFC 6901 evaluation *)
Lemma key_ieq_refl k : key_ieq k k = true.
Proof. induction k as [|c r IH]; [reflexivity|]. cbn [key_ieq]. rewrite Z.eqb_refl, IH. reflexivity. Qed.

Lemma unique_head_notin k ks : keys_unique (k :: ks) = true -> ~ In k ks.
Proof.
  cbn [keys_unique]. intros H Hin. apply andb_prop in H as [H _]. apply negb_true_iff in H.
  assert (existsb (key_ieq k) ks = true) by (apply existsb_exists; exists k; split; [assumption|apply key_ieq_refl]). congruence.
Qed.

Definition kids_list (v : jval) : list (option (list Z) * Z * jval) := match kids_j v with KSome cs => cs | _ => [] end.

Lemma dfs_kids_list segs v : (match kids_j v with KSome cs' => dfs segs cs' | _ => None end) = dfs segs (kids_list v).
Proof. unfold kids_list. destruct (kids_j v); try reflexivity; destruct segs; reflexivity. Qed.

Lemma dfs_obj_nomatch s rest ms : ~ In s (map fst ms) ->
  dfs (s :: rest) (map (fun m : list Z * jval => (Some (fst m), zlen (fst m), snd m)) ms) = None.
Proof.
  induction ms as [|[k x] tl IH]; intros Hn; [reflexivity|]. cbn [map fst snd]. rewrite dfs_cons. cbn [keystr].
  destruct (bytes_eqb k s) eqn:E.
  - exfalso. apply bytes_eqb_eq in E. subst. apply Hn. left. reflexivity.
  - apply IH. intros Hin. apply Hn. right. assumption.
Qed.

Lemma dfs_number_nomatch s rest : forall l i, 0 <= i -> i + zlen l < 100000000000 ->
  (forall j, rfc_index s = Some j -> j < i) -> dfs (s :: rest) (number i l) = None.
Proof.
  induction l as [|x r IH]; intros i Hi Hb Hn; [reflexivity|]. cbn [number]. rewrite dfs_cons. cbn [keystr].
  rewrite zlen_cons in Hb. pose proof (zlen_nonneg r).
  destruct (bytes_eqb (itoa i) s) eqn:E.
  - exfalso. apply itoa_match in E; [|lia]. specialize (Hn i E). lia.
  - apply IH; try lia; try (intros j Hj; specialize (Hn j Hj); lia).
Qed.

Lemma nth_error_number_shift {A} (l : list A) (x : A) j : 1 <= j -> nth_error (x :: l) (Z.to_nat j) = nth_error l (Z.to_nat (j - 1)).
Proof. intros H. replace (Z.to_nat j) with (S (Z.to_nat (j - 1))) by lia. reflexivity. Qed.

Lemma rfc_index_nonneg s j : rfc_index s = Some j -> 0 <= j.
Proof.
  unfold rfc_index. destruct s as [|c [|c2 r']]; try discriminate.
  - destruct (is_digit c) eqn:D; [|discriminate]. unfold is_digit in D. intros H. injection H as <-. lia.
  - destruct ((49 <=? c) && (c <=? 57) && forallb is_digit (c2 :: r')) eqn:D; [|discriminate].
    intros H. apply Some_inj in H. subst j. apply andb_prop in D as [D1 D2]. apply andb_prop in D1 as [D0 D1].
    pose proof (dval_lead (c2 :: r') c ltac:(lia) D2) as Hl. unfold dval in Hl. lia.
Qed.

Theorem dfs_rfc : forall segs v, wfx v -> segs <> [] -> dfs segs (kids_list v) = rfc6901_at segs v.
Proof.
  induction segs as [|s rest IH]; intros v Hw Hne; [congruence|]. clear Hne.
  assert (IH' : forall x, wfx x -> match rest with [] => Some x | _ :: _ => match dfs rest (kids_list x) with Some r => Some r | None => None end end
                             = rfc6901_at rest x).
  { intros x Hx. destruct rest as [|s2 r2]; [reflexivity|]. rewrite (IH x Hx) by discriminate. destruct (rfc6901_at (s2 :: r2) x); reflexivity. }
  destruct v; try reflexivity.
  - (* array *)
    destruct (wfx_arr _ Hw) as [Hlen Hall]. unfold kids_list. cbn [kids_j rfc6901_at].
    assert (G : forall l i, 0 <= i -> i + zlen l < 100000000000 -> Forall wfx l ->
                dfs (s :: rest) (number i l) =
                match rfc_index s with
                | Some j => if j <? i then None else match nth_error l (Z.to_nat (j - i)) with
                                                    | Some x => rfc6901_at rest x
                                                    | None => None
                                                    end
                | None => None
                end).
    { induction l as [|x r IHl]; intros i Hi Hb Hf.
      - cbn [number]. rewrite dfs_nil. destruct (rfc_index s) as [j|]; [|reflexivity].
        destruct (j <? i); [reflexivity|]. destruct (Z.to_nat (j - i)); reflexivity.
      - cbn [number]. rewrite dfs_cons. cbn [keystr]. rewrite zlen_cons in Hb. pose proof (zlen_nonneg r).
        pose proof (Forall_inv Hf) as Hx. pose proof (Forall_inv_tail Hf) as Hr.
        destruct (bytes_eqb (itoa i) s) eqn:E.
        + apply itoa_match in E; [|lia]. rewrite E. replace (i <? i) with false by lia. replace (i - i) with 0 by lia.
          cbn [Z.to_nat nth_error]. rewrite <- (IH' x Hx). rewrite dfs_kids_list.
          destruct rest as [|s2 r2]; [reflexivity|].
          destruct (dfs (s2 :: r2) (kids_list x)); [reflexivity|].
          apply dfs_number_nomatch; try lia. intros j Hj. rewrite E in Hj. injection Hj as <-. lia.
        + rewrite IHl by (try assumption; lia).
          destruct (rfc_index s) as [j|] eqn:Ej; [|reflexivity].
          assert (j <> i). { intros ->. apply (itoa_match i s) in Ej; [congruence|lia]. }
          destruct (j <? i) eqn:E1.
          * replace (j <? i + 1) with true by lia. reflexivity.
          * replace (j <? i + 1) with false by lia. rewrite (nth_error_number_shift r x (j - i)) by lia.
            replace (j - i - 1) with (j - (i + 1)) by lia. reflexivity. }
    rewrite (G items 0) by (try assumption; lia).
    destruct (rfc_index s) as [j|] eqn:Ej; [|reflexivity].
    destruct (j <? 0) eqn:E0.
    + exfalso. pose proof (rfc_index_nonneg _ _ Ej). lia.
    + replace (j - 0) with j by lia. reflexivity.
  - (* object *)
    destruct (wfx_obj _ Hw) as [Hm Hu]. unfold kids_list. cbn [kids_j rfc6901_at].
    induction members as [|[k x] tl IHm]; [reflexivity|].
    cbn [map fst snd find_key]. rewrite dfs_cons. cbn [keystr].
    pose proof (Forall_inv Hm) as (Hk1 & Hk2 & Hx). cbn [fst snd] in *.
    destruct (bytes_eqb k s) eqn:E.
    + apply bytes_eqb_eq in E. subst k. rewrite bytes_eqb_refl by (apply Forall_forall; trivial).
      rewrite <- (IH' x Hx). rewrite dfs_kids_list.
      destruct rest as [|s2 r2]; [reflexivity|].
      destruct (dfs (s2 :: r2) (kids_list x)); [reflexivity|].
      apply dfs_obj_nomatch. cbn [map fst] in Hu. apply unique_head_notin. assumption.
    + assert (E' : bytes_eqb s k = false).
      { destruct (bytes_eqb s k) eqn:B; [|reflexivity]. apply bytes_eqb_eq in B. subst. rewrite bytes_eqb_refl in E by (apply Forall_forall; trivial). discriminate. }
      rewrite E'. apply IHm.
      * split; [|]. 
        -- destruct Hw as [Hw1 Hw2]. cbn [wf] in *. apply andb_prop in Hw1 as [A B]. cbn [forallb map keys_unique] in *.
           apply andb_prop in A as [_ A]. apply andb_prop in B as [_ B]. rewrite A, B. reflexivity.
        -- destruct Hw as [_ Hw2]. cbn [small forallb] in *. apply andb_prop in Hw2 as [_ Hw2]. assumption.
      * apply (Forall_inv_tail Hm).
      * cbn [map keys_unique] in Hu. apply andb_prop in Hu as [_ Hu]. assumption.
Qed.

(* ------------------------------------------------------------------ jbn_at2 = RFC 6901 *)
Lemma kids_j_self v : wfx v -> kids_rel jval eq kok_j (kids_j v) (kids_j v).
Proof.
  intros Hw. pose proof (kids_j_cwf v Hw) as Hc. unfold kids_rel.
  destruct (kids_j v) as [|e|cs] eqn:E; [exact I|destruct v; discriminate|].
  clear E. induction Hc as [|a l [Ha1 Ha2] Hl IH]; [constructor|]. constructor; [|assumption].
  unfold crel. split; [reflexivity|]. split; [reflexivity|]. split; [assumption|reflexivity].
Qed.

Theorem at_tree2_rfc v ptr : wfx v -> pok ptr -> zlen ptr <= jbinn_JBL_MAX_NESTING_LEVEL ->
  at_tree2 v ptr = match rfc6901_at ptr v with Some r => AtFound r | None => AtNotFound end.
Proof.
  intros Hw Hp Hc. unfold at_tree2. destruct ptr as [|s rest]; [reflexivity|].
  pose proof (dfs_rfc (s :: rest) v Hw ltac:(discriminate)) as Hd. unfold kids_list in Hd.
  pose proof (kids_j_self v Hw) as Hself. pose proof (kids_j_cwf v Hw) as Hcw.
  destruct (kids_j v) as [|e|cs] eqn:Ek.
  - rewrite <- Hd. reflexivity.
  - destruct v; discriminate.
  - pose proof (walk_matched jval kids_j upd_jbn true (s :: rest) eq kok_j
                  (upd_jbn_spec (s :: rest) Hp) (fun v n (E : v = n) Hwv => eq_ind v (fun n => kids_rel jval eq kok_j (kids_j v) (kids_j n)) (kids_j_self v Hwv) n E) Hc
                  (at_fuel (s :: rest)) 0 cs cs (VS (-1) None false) Hself Hcw) as W.
    assert (H1 : Z.of_nat (at_fuel (s :: rest)) + 0 > zlen (s :: rest)) by (unfold at_fuel, zlen; lia).
    assert (H2 : 0 <= 0 < zlen (s :: rest)) by (rewrite zlen_cons; pose proof (zlen_nonneg rest); lia).
    assert (H3 : inv jval 0 (VS (-1) None false)) by (repeat split; cbn; lia).
    specialize (W H1 H2 H3). cbn [Z.to_nat skipn] in W. rewrite Hd in W.
    destruct (rfc6901_at (s :: rest) v) as [r|]; cbn [walk_post] in W.
    + destruct W as (pos' & rn & -> & <- & _). reflexivity.
    + destruct W as (st' & -> & (_ & -> & _)). reflexivity.
Qed.

(* ------------------------------------------------------------------ jbl_at2 = RFC 6901 *)
Lemma number_rel {N} (R : jval -> N -> Prop) : forall l bvs, Forall2 R l bvs -> forall i, 0 <= i -> i + zlen l < 100000000000 ->
  Forall2 (crel N R kok_b) (number i l) (number i bvs).
Proof.
  induction 1 as [|x b l bvs Hxb Hr IH]; intros i Hi Hb; cbn [number]; constructor.
  - unfold crel. cbn. rewrite zlen_cons in Hb. pose proof (zlen_nonneg l). repeat split; try assumption; lia.
  - apply IH; [lia|]. rewrite zlen_cons in Hb. lia.
Qed.

Lemma obj_kids_rel ms kbs : Forall2 (fun (m : list Z * jval) (kb : list Z * bval) => fst kb = fst m /\ repr (snd m) (snd kb)) ms kbs ->
  Forall (fun m : list Z * jval => forallb char_ok (fst m) = true) ms ->
  Forall2 (crel bval repr kok_b) (map (fun m : list Z * jval => (Some (fst m), zlen (fst m), snd m)) ms)
                                  (map (fun m : list Z * bval => (Some (fst m), -1, snd m)) kbs).
Proof.
  induction 1 as [|m kb ms' kbs' [Hk Hrb] Hrest IH]; intros Hm; cbn [map]; constructor.
  - pose proof (Forall_inv Hm) as Hc. unfold crel. cbn [fst snd keystr kok_b]. rewrite Hk. repeat split; assumption.
  - apply IH. apply (Forall_inv_tail Hm).
Qed.

Lemma kids_b_rel v b : repr v b -> wfx v -> kids_rel bval repr kok_b (kids_j v) (kids_b b).
Proof.
  intros Hr Hw.
  assert (Hscalar : (forall l, v <> JArr l) -> (forall ms, v <> JObj ms) -> kids_b b = KNot).
  { intros Ha Ho. pose proof (repr_scalar_dec v b Hr Ha Ho 1%nat ltac:(lia)) as Hd. cbn [dec_node] in Hd. unfold kids_b.
    destruct (bt b =? jbinn_BINN_OBJECT).
    { exfalso. destruct (iter_init (bptr b) jbinn_BINN_OBJECT); [|discriminate].
      match type of Hd with match ?g with _ => _ end = _ => destruct g; [|discriminate] end. injection Hd as <-. eapply Ho. reflexivity. }
    destruct (bt b =? jbinn_BINN_MAP); [discriminate|].
    destruct (bt b =? jbinn_BINN_LIST); [|reflexivity].
    exfalso. destruct (iter_init (bptr b) jbinn_BINN_LIST); [|discriminate].
    match type of Hd with match ?g with _ => _ end = _ => destruct g; [|discriminate] end. injection Hd as <-. eapply Ha. reflexivity. }
  destruct v; try (rewrite Hscalar by discriminate; exact I).
  - destruct (repr_container _ _ Hr ltac:(left; eauto)) as (ty & count & body & rest & Hbt & Hit & Hb & Hk).
    destruct Hk as [(-> & l' & bxs & E & Hx & -> & ->)|(_ & ms' & bxs & E & _)]; [|discriminate]. injection E as <-.
    destruct (wfx_arr _ Hw) as [Hlen Hall].
    unfold kids_b. rewrite Hbt. kc. kb. rewrite Hit. cbn [kids_j kids_rel]. unfold iter_fuel. cbn [it_cnt].
    apply number_rel; [|lia|lia].
    pose proof (list_items_repr items bxs Hx (wf_arr_inv _ (proj1 Hw)) Hb rest 0 (S (Z.to_nat (zlen items)))) as HI.
    change (0 + zlen items) with (zlen items) in HI. kc. apply HI. unfold zlen. rewrite Nat2Z.id. lia.
  - destruct (repr_container _ _ Hr ltac:(right; eauto)) as (ty & count & body & rest & Hbt & Hit & Hb & Hk).
    destruct Hk as [(_ & l' & bxs & E & _)|(-> & ms' & bxs & E & Hx & -> & ->)]; [discriminate|]. injection E as <-.
    destruct (wfx_obj _ Hw) as [Hm _].
    unfold kids_b. rewrite Hbt. kc. kb. rewrite Hit. cbn [kids_j kids_rel]. unfold iter_fuel. cbn [it_cnt].
    assert (Hwm' : Forall (fun m => wf (snd m) = true) members).
    { eapply Forall_impl; [|exact Hm]. intros m (_ & _ & [H _]). exact H. }
    pose proof (obj_items_repr members bxs Hx Hwm' Hb rest 0 (S (Z.to_nat (zlen members)))) as HI.
    change (0 + zlen members) with (zlen members) in HI. kc.
    specialize (HI ltac:(unfold zlen; rewrite Nat2Z.id; lia)).
    apply obj_kids_rel; [exact HI|]. eapply Forall_impl; [|exact Hm]. intros m (H & _). exact H.
Qed.

Theorem at_bval2_rfc v b ptr : repr v b -> wfx v -> pok ptr -> zlen ptr <= jbinn_JBL_MAX_NESTING_LEVEL ->
  (exists l, v = JArr l) \/ (exists ms, v = JObj ms) ->
  match rfc6901_at ptr v with
  | Some r => exists rn, at_bval2 b ptr = AtFound rn /\ repr r rn
  | None => at_bval2 b ptr = AtNotFound
  end.
Proof.
  intros Hr Hw Hp Hc Hcont. unfold at_bval2. destruct ptr as [|s rest]; [cbn [rfc6901_at]; eauto|].
  pose proof (dfs_rfc (s :: rest) v Hw ltac:(discriminate)) as Hd. unfold kids_list in Hd.
  pose proof (kids_b_rel v b Hr Hw) as Hrel. pose proof (kids_j_cwf v Hw) as Hcw. unfold kids_rel in Hrel.
  destruct (kids_j v) as [|e|cs] eqn:Ek.
  - exfalso. destruct Hcont as [[l ->]|[ms ->]]; discriminate.
  - destruct v; discriminate.
  - destruct (kids_b b) as [|e|cn] eqn:Ekb; try contradiction.
    pose proof (walk_matched bval kids_b upd_jbl false (s :: rest) repr kok_b
                  (upd_jbl_spec (s :: rest) Hp) kids_b_rel Hc
                  (at_fuel (s :: rest)) 0 cs cn (VS (-1) None false) Hrel Hcw) as W.
    assert (H1 : Z.of_nat (at_fuel (s :: rest)) + 0 > zlen (s :: rest)) by (unfold at_fuel, zlen; lia).
    assert (H2 : 0 <= 0 < zlen (s :: rest)) by (rewrite zlen_cons; pose proof (zlen_nonneg rest); lia).
    assert (H3 : inv bval 0 (VS (-1) None false)) by (repeat split; cbn; lia).
    specialize (W H1 H2 H3). cbn [Z.to_nat skipn] in W. rewrite Hd in W.
    destruct (rfc6901_at (s :: rest) v) as [r|]; cbn [walk_post] in W.
    + destruct W as (pos' & rn & -> & HR & _). exists rn. split; [reflexivity|assumption].
    + destruct W as (st' & -> & (_ & -> & _)). reflexivity.
Qed.

(* ------------------------------------------------------------------ the look-ups on a whole document *)
Lemma find_key_in s ms x : find_key s ms = Some x -> exists k, In (k, x) ms.
Proof.
  induction ms as [|[k y] tl IH]; [discriminate|]. cbn [find_key]. destruct (bytes_eqb s k).
  - intros H. injection H as <-. exists k. left. reflexivity.
  - intros H. destruct (IH H) as (k' & Hin). exists k'. right. assumption.
Qed.

Lemma rfc_depth : forall segs v r, rfc6901_at segs v = Some r -> (depth r <= depth v)%nat.
Proof.
  induction segs as [|s rest IH]; intros v r H; cbn [rfc6901_at] in H; [injection H as <-; lia|].
  destruct v; try discriminate.
  - destruct (rfc_index s) as [i|]; [|discriminate]. destruct (nth_error items (Z.to_nat i)) as [x|] eqn:E; [|discriminate].
    specialize (IH x r H). apply nth_error_In in E. pose proof (fold_max_ge depth items x E). cbn [depth]. lia.
  - destruct (find_key s members) as [x|] eqn:E; [|discriminate]. specialize (IH x r H).
    destruct (find_key_in _ _ _ E) as (k & Hin). pose proof (fold_max_ge (fun m => depth (snd m)) members (k, x) Hin) as Hge.
    cbn [depth snd] in *. lia.
Qed.

Theorem at_binn2_rfc v bs ptr : wfx v -> binn_encode v = Some bs -> pok ptr -> zlen ptr <= jbinn_JBL_MAX_NESTING_LEVEL ->
  at_binn2 bs ptr = match rfc6901_at ptr v with Some r => AtFound r | None => AtNotFound end.
Proof.
  intros Hw He Hp Hc. destruct (root_repr v bs (proj1 Hw) He) as (b & Hroot & R & He').
  assert (Hcont : (exists l, v = JArr l) \/ (exists ms, v = JObj ms)) by (destruct v; try discriminate; eauto).
  unfold at_binn2. rewrite Hroot.
  pose proof (at_bval2_rfc v b ptr R Hw Hp Hc Hcont) as H.
  destruct (rfc6901_at ptr v) as [r|] eqn:Er.
  - destruct H as (rn & -> & Hrn). rewrite (repr_dec r rn Hrn); [reflexivity|].
    pose proof (rfc_depth _ _ _ Er). pose proof (depth_le_len v bs He'). lia.
  - rewrite H. reflexivity.
Qed.

(* both engines, on the parsed pointer and on its text *)
Theorem at_agree2 v bs ptr : wf v = true -> small v = true -> binn_encode v = Some bs ->
  pok ptr -> zlen ptr <= jbinn_JBL_MAX_NESTING_LEVEL ->
  at_tree2 v ptr = at_binn2 bs ptr /\
  at_tree2 v ptr = match rfc6901_at ptr v with Some r => AtFound r | None => AtNotFound end.
Proof.
  intros Hw Hs He Hp Hc. rewrite (at_tree2_rfc v ptr (conj Hw Hs) Hp Hc), (at_binn2_rfc v bs ptr (conj Hw Hs) He Hp Hc).
  split; reflexivity.
Qed.

Theorem at_agree v bs path ptr : wf v = true -> small v = true -> binn_encode v = Some bs ->
  ptr_parse path = Some ptr -> pok ptr -> zlen ptr <= jbinn_JBL_MAX_NESTING_LEVEL ->
  at_tree v path = at_binn bs path /\
  at_tree v path = match rfc6901_at ptr v with Some r => AtFound r | None => AtNotFound end.
Proof.
  intros Hw Hs He Hpp Hp Hc. unfold ptr_parse in Hpp. unfold at_tree, at_binn.
  destruct (ptr_parse3 path) as [| |ss]; try discriminate. injection Hpp as ->.
  apply at_agree2; assumption.
Qed.

(* ------------------------------------------------------------------ _jbl_ptr_pool against RFC 6901 *)
Fixpoint tok_rest (q : list Z) : list Z * list Z :=
  match q with
  | [] => ([], [])
  | c :: r => if c =? 47 then ([], q) else let (t, rs) := tok_rest r in (c :: t, rs)
  end.

Lemma split_slash_tok q : forall cur,
  split_slash q cur = (rev cur ++ fst (tok_rest q)) :: match snd (tok_rest q) with [] => [] | _ :: r' => split_slash r' [] end.
Proof.
  induction q as [|c r IH]; intros cur; cbn [split_slash tok_rest].
  - cbn [fst snd]. rewrite app_nil_r. reflexivity.
  - destruct (c =? 47) eqn:E.
    + cbn [fst snd]. rewrite app_nil_r. reflexivity.
    + rewrite IH. destruct (tok_rest r) as [t rs]. cbn [fst snd rev]. rewrite <- app_assoc. reflexivity.
Qed.

Lemma tok_rest_snd q : snd (tok_rest q) = [] \/ exists r', snd (tok_rest q) = 47 :: r'.
Proof.
  induction q as [|c r IH]; cbn [tok_rest]; [left; reflexivity|]. destruct (c =? 47) eqn:E.
  - right. apply Z.eqb_eq in E. subst. exists r. reflexivity.
  - destruct (tok_rest r) as [t rs]. exact IH.
Qed.

Lemma tok_rest_count q : count_slash (snd (tok_rest q)) = count_slash q /\ (length (snd (tok_rest q)) <= length q)%nat.
Proof.
  induction q as [|c r IH]; cbn [tok_rest]; [split; reflexivity|]. destruct (c =? 47) eqn:E; [split; reflexivity|].
  destruct (tok_rest r) as [t rs]. cbn [snd] in *. unfold count_slash in *. cbn [filter]. rewrite E. cbn [length]. split; [tauto|lia].
Qed.

Lemma seg_scan_tok : forall n q, (length q <= n)%nat -> forall acc,
  seg_scan q acc = match rfc_unescape (fst (tok_rest q)) with
                   | Some u => Some (rev acc ++ u, snd (tok_rest q))
                   | None => None
                   end.
Proof.
  induction n as [|n IH]; intros q Hl acc.
  - destruct q; [|simpl in Hl; lia]. cbn. rewrite app_nil_r. reflexivity.
  - destruct q as [|c p1]; [cbn; rewrite app_nil_r; reflexivity|].
    cbn [seg_scan tok_rest]. destruct (c =? 47) eqn:E47.
    + cbn [fst snd rfc_unescape]. rewrite app_nil_r. reflexivity.
    + destruct (c =? 126) eqn:E126.
      * destruct p1 as [|d p2].
        -- cbn [tok_rest fst snd rfc_unescape]. rewrite E126. reflexivity.
        -- cbn [tok_rest]. destruct (d =? 47) eqn:D47.
           ++ cbn [fst snd rfc_unescape]. rewrite E126. replace (d =? 48) with false by lia. replace (d =? 49) with false by lia. reflexivity.
           ++ destruct (tok_rest p2) as [t rs] eqn:Et. cbn [fst snd rfc_unescape]. rewrite E126.
              pose proof (IH p2 ltac:(simpl in Hl; lia)) as IH2. rewrite Et in IH2. cbn [fst snd] in IH2.
              destruct (d =? 48) eqn:D48.
              { rewrite IH2. destruct (rfc_unescape t); cbn [option_map rev]; [|reflexivity]. rewrite <- app_assoc. reflexivity. }
              destruct (d =? 49) eqn:D49; [|reflexivity].
              rewrite IH2. destruct (rfc_unescape t); cbn [option_map rev]; [|reflexivity]. rewrite <- app_assoc. reflexivity.
      * destruct (tok_rest p1) as [t rs] eqn:Et. cbn [fst snd rfc_unescape]. rewrite E126.
        pose proof (IH p1 ltac:(simpl in Hl; lia) (c :: acc)) as IH1. rewrite Et in IH1. cbn [fst snd] in IH1. rewrite IH1.
        destruct (rfc_unescape t); cbn [option_map rev]; [|reflexivity]. rewrite <- app_assoc. reflexivity.
Qed.

Lemma segs_scan_nil k : segs_scan k [] = Some [].
Proof. destruct k; reflexivity. Qed.

Lemma segs_scan_rfc : forall n q, (length q <= n)%nat ->
  segs_scan (S (count_slash q)) (47 :: q) = all_some (map rfc_unescape (split_slash q [])).
Proof.
  induction n as [|n IH]; intros q Hl.
  - destruct q; [reflexivity|simpl in Hl; lia].
  - cbn [segs_scan]. change (47 =? 47) with true. cbv iota.
    rewrite (seg_scan_tok (length q) q (le_n _) []). rewrite split_slash_tok. cbn [rev app map all_some].
    destruct (rfc_unescape (fst (tok_rest q))) as [u|]; [|reflexivity].
    destruct (tok_rest_count q) as [Hc Hlen]. rewrite <- Hc.
    destruct (tok_rest_snd q) as [->|[r' Hr']].
    + rewrite segs_scan_nil. reflexivity.
    + rewrite Hr' in *. unfold count_slash at 1. cbn [filter]. change (47 =? 47) with true. cbn [length]. fold (count_slash r').
      rewrite (IH r') by (cbn [length] in Hlen; destruct q; [simpl in Hlen; lia|simpl in Hl; simpl in Hlen; lia]).
      destruct (all_some (map rfc_unescape (split_slash r' []))); reflexivity.
Qed.

Definition trailing_slash (p : list Z) : bool := (zlen p >? 1) && (last p 0 =? 47).

Theorem ptr_parse_rfc6901 : forall path, trailing_slash (cstr path) = false ->
  ptr_parse path = rfc_ptr_parse (cstr path).
Proof.
  intros path Ht. unfold ptr_parse, ptr_parse3, rfc_ptr_parse. unfold trailing_slash in Ht.
  destruct (cstr path) as [|c r] eqn:Ep; [reflexivity|].
  destruct (c =? 47) eqn:E; [|reflexivity]. cbn [negb]. rewrite Ht.
  apply Z.eqb_eq in E. subst c.
  assert (Hcs : count_slash (47 :: r) = S (count_slash r)) by (unfold count_slash; cbn [filter]; reflexivity).
  rewrite Hcs. rewrite (segs_scan_rfc (length r) r (le_n _)).
  destruct (all_some (map rfc_unescape (split_slash r []))); reflexivity.
Qed.

(* a pointer with more than one character that ends in '/' is refused although RFC 6901 gives it a last segment "" *)
Theorem ptr_parse_trailing_slash : forall path, trailing_slash (cstr path) = true -> ptr_parse3 path = PErr.
Proof.
  intros path Ht. unfold ptr_parse3. unfold trailing_slash in Ht. destruct (cstr path) as [|c r]; [discriminate|].
  destruct (c =? 47); [|reflexivity]. cbn [negb]. rewrite Ht. reflexivity.
Qed.

(* the segments of a parsed pointer are C strings *)
Lemma rfc_unescape_chars : forall n s u, (length s <= n)%nat -> rfc_unescape s = Some u -> forallb char_ok s = true -> forallb char_ok u = true.
Proof.
  induction n as [|n IH]; intros s u Hl H Hc.
  - destruct s; [|simpl in Hl; lia]. injection H as <-. reflexivity.
  - destruct s as [|c r]; [injection H as <-; reflexivity|]. cbn [rfc_unescape] in H. cbn [forallb] in Hc. apply andb_prop in Hc as [Hc1 Hc2].
    destruct (c =? 126).
    + destruct r as [|d r']; [discriminate|]. cbn [forallb] in Hc2. apply andb_prop in Hc2 as [_ Hc3].
      destruct (d =? 48).
      { destruct (rfc_unescape r') as [u'|] eqn:Eu; [|discriminate]. injection H as <-. cbn [forallb].
        rewrite (IH r' u' ltac:(simpl in Hl; lia) Eu Hc3). reflexivity. }
      destruct (d =? 49); [|discriminate].
      destruct (rfc_unescape r') as [u'|] eqn:Eu; [|discriminate]. injection H as <-. cbn [forallb].
      rewrite (IH r' u' ltac:(simpl in Hl; lia) Eu Hc3). reflexivity.
    + destruct (rfc_unescape r) as [u'|] eqn:Eu; [|discriminate]. injection H as <-. cbn [forallb].
      rewrite Hc1. rewrite (IH r u' ltac:(simpl in Hl; lia) Eu Hc2). reflexivity.
Qed.

Lemma split_slash_chars q : forall cur, forallb char_ok q = true -> forallb char_ok cur = true ->
  Forall (fun s => forallb char_ok s = true) (split_slash q cur).
Proof.
  induction q as [|c r IH]; intros cur Hq Hc; cbn [split_slash].
  - constructor; [rewrite forallb_rev; assumption|constructor].
  - cbn [forallb] in Hq. apply andb_prop in Hq as [H1 H2]. destruct (c =? 47).
    + constructor; [rewrite forallb_rev; assumption|]. apply IH; [assumption|reflexivity].
    + apply IH; [assumption|]. cbn [forallb]. rewrite H1, Hc. reflexivity.
Qed.

Lemma all_some_chars (l : list (list Z)) : forall ss, Forall (fun s => forallb char_ok s = true) l ->
  all_some (map rfc_unescape l) = Some ss -> Forall (fun s => forallb char_ok s = true) ss.
Proof.
  induction l as [|s r IH]; intros ss Hf H; cbn [map all_some] in H.
  - injection H as <-. constructor.
  - destruct (rfc_unescape s) as [u|] eqn:Eu; [|discriminate].
    destruct (all_some (map rfc_unescape r)) as [us|] eqn:Er; [|discriminate]. injection H as <-.
    constructor; [eapply rfc_unescape_chars; [apply le_n|exact Eu|apply (Forall_inv Hf)]|].
    apply IH; [apply (Forall_inv_tail Hf)|reflexivity].
Qed.

Lemma cstr_chars path : forallb byte_ok path = true -> forallb char_ok (cstr path) = true.
Proof.
  induction path as [|c r IH]; [reflexivity|]. cbn [forallb cstr]. intros H. apply andb_prop in H as [H1 H2].
  destruct (c =? 0) eqn:E; [reflexivity|]. cbn [forallb]. rewrite (IH H2). unfold byte_ok in H1. unfold char_ok.
  replace (1 <=? c) with true by lia. replace (c <=? 255) with true by lia. reflexivity.
Qed.

Theorem ptr_parse_chars path ptr : forallb byte_ok path = true -> ptr_parse path = Some ptr ->
  Forall (fun s => forallb char_ok s = true) ptr.
Proof.
  intros Hb H. pose proof (cstr_chars path Hb) as Hc.
  destruct (trailing_slash (cstr path)) eqn:Et.
  - unfold ptr_parse in H. rewrite (ptr_parse_trailing_slash path Et) in H. discriminate.
  - rewrite (ptr_parse_rfc6901 path Et) in H. unfold rfc_ptr_parse in H.
    destruct (cstr path) as [|c r]; [injection H as <-; constructor|].
    destruct (c =? 47); [|discriminate]. cbn [forallb] in Hc. apply andb_prop in Hc as [_ Hc].
    eapply all_some_chars; [|exact H]. apply split_slash_chars; [assumption|reflexivity].
Qed.

(* the statement of C14 on pointer texts *)
Theorem at_agree_text v bs path ptr : wf v = true -> small v = true -> binn_encode v = Some bs ->
  forallb byte_ok path = true -> ptr_parse path = Some ptr ->
  Forall (fun s => star s = false) ptr -> zlen ptr <= jbinn_JBL_MAX_NESTING_LEVEL ->
  at_tree v path = at_binn bs path /\
  at_tree v path = match rfc6901_at ptr v with Some r => AtFound r | None => AtNotFound end.
Proof.
  intros Hw Hs He Hb Hpp Hst Hc. apply (at_agree v bs path ptr); try assumption.
  pose proof (ptr_parse_chars path ptr Hb Hpp) as Hch. unfold pok. rewrite Forall_forall in *.
  intros s Hin. split; [apply Hch|apply Hst]; assumption.
Qed.

(* ------------------------------------------------------------------ jbn_clone returns an equal tree *)
Fixpoint arr_loop (lvl : Z) (l : list jval) (s : cst) : cst :=
  match l with
  | [] => s
  | x :: r => arr_loop lvl r (clone_walk (lvl + 1) x (clone_visit lvl None x s))
  end.
Fixpoint obj_loop (lvl : Z) (l : list (list Z * jval)) (s : cst) : cst :=
  match l with
  | [] => s
  | (k, x) :: r => obj_loop lvl r (clone_walk (lvl + 1) x (clone_visit lvl (Some k) x s))
  end.

Lemma clone_walk_arr lvl items s : clone_walk lvl (JArr items) s = arr_loop lvl items s.
Proof.
  cbn [clone_walk]. revert s. induction items as [|x r IH]; intros s; [reflexivity|]. cbn [arr_loop]. rewrite <- IH. reflexivity.
Qed.
Lemma clone_walk_obj lvl ms s : clone_walk lvl (JObj ms) s = obj_loop lvl ms s.
Proof.
  cbn [clone_walk]. revert s. induction ms as [|[k x] r IH]; intros s; [reflexivity|]. cbn [obj_loop]. rewrite <- IH. reflexivity.
Qed.

(* the open containers as seen from level lvl: what vctx->root and its ancestors will be when a node of that level
   is visited next *)
Definition view (lvl : Z) (s : cst) : option (list cframe) :=
  if lvl <=? c_pos s then Some (popn (Z.to_nat (c_pos s - lvl)) (c_stack (flush s)))
  else if lvl =? c_pos s + 1 then
         match c_pend s with Some (k, o) => Some (CF k o [] :: c_stack s) | None => None end
       else None.

Lemma flush_pos s : c_pos (flush s) = c_pos s.
Proof. unfold flush. destruct (c_pend s) as [[k o]|]; reflexivity. Qed.
Lemma flush_pend s : c_pend (flush s) = None.
Proof. unfold flush. destruct (c_pend s) as [[k o]|] eqn:E; [reflexivity|assumption]. Qed.

Definition is_cont (x : jval) : bool := match x with JObj _ | JArr _ => true | _ => false end.
Definition kind_of (x : jval) : bool := match x with JObj _ => true | _ => false end.

Lemma clone_visit_view lvl key x s st : view lvl s = Some st ->
  clone_visit lvl key x s =
    if is_cont x then CS st (Some (key, kind_of x)) lvl else CS (add_kid (key, x) st) None lvl.
Proof.
  unfold view, clone_visit. intros H.
  destruct (lvl <=? c_pos s) eqn:E1.
  - injection H as <-. destruct (lvl <? c_pos s) eqn:E2.
    + destruct x; reflexivity.
    + replace (lvl >? c_pos s) with false by lia. replace (c_pos s - lvl) with 0 by lia. cbn [Z.to_nat popn].
      assert (Hf : flush s = CS (c_stack (flush s)) None lvl).
      { pose proof (flush_pos s). pose proof (flush_pend s). destruct (flush s) as [a b c]. cbn in *. subst. f_equal. lia. }
      rewrite Hf. destruct x; reflexivity.
  - destruct (lvl =? c_pos s + 1) eqn:E3; [|discriminate].
    replace (lvl <? c_pos s) with false by lia. replace (lvl >? c_pos s) with true by lia.
    destruct (c_pend s) as [[k o]|]; [|discriminate]. injection H as <-. destruct x; reflexivity.
Qed.

Lemma popn_pop1 n st : popn n (pop1 st) = pop1 (popn n st).
Proof. revert st. induction n as [|n IH]; intros st; [reflexivity|]. cbn [popn]. rewrite IH. reflexivity. Qed.
Lemma popn_S n st : popn (S n) st = pop1 (popn n st).
Proof. cbn [popn]. apply popn_pop1. Qed.

(* from a deeper level back to the level above *)
Lemma view_up lvl s F below : lvl + 1 <= c_pos s -> view (lvl + 1) s = Some (F :: below) ->
  view lvl s = Some (add_kid (f_key F, frame_val F) below).
Proof.
  unfold view. intros Hp. replace (lvl + 1 <=? c_pos s) with true by lia. replace (lvl <=? c_pos s) with true by lia.
  intros H. injection H as H. f_equal.
  replace (Z.to_nat (c_pos s - lvl)) with (S (Z.to_nat (c_pos s - (lvl + 1)))) by lia. rewrite popn_S, H. reflexivity.
Qed.

Definition add_all (cs : list (option (list Z) * jval)) (st : list cframe) : list cframe :=
  fold_left (fun st c => add_kid c st) cs st.

Lemma add_all_frame cs : forall k o kids below,
  add_all cs (CF k o kids :: below) = CF k o (rev cs ++ kids) :: below.
Proof.
  induction cs as [|c r IH]; intros k o kids below; [reflexivity|]. unfold add_all in *. cbn [fold_left add_kid f_key f_obj f_kids].
  rewrite IH. cbn [rev]. rewrite <- app_assoc. reflexivity.
Qed.

Definition child_ok (x : jval) : Prop := forall lvl key s st, view lvl s = Some st ->
  let s2 := clone_walk (lvl + 1) x (clone_visit lvl key x s) in
  lvl <= c_pos s2 /\ view lvl s2 = Some (add_kid (key, x) st).

Lemma arr_loop_ok items : Forall child_ok items -> forall lvl s st, view lvl s = Some st ->
  view lvl (arr_loop lvl items s) = Some (add_all (map (fun x => (None, x)) items) st) /\
  (items <> [] -> lvl <= c_pos (arr_loop lvl items s)) /\ (items = [] -> arr_loop lvl items s = s).
Proof.
  induction 1 as [|x r Hx Hr IH]; intros lvl s st Hv.
  - cbn [arr_loop map]. split; [exact Hv|]. split; [congruence|reflexivity].
  - cbn [arr_loop map]. destruct (Hx lvl None s st Hv) as [Hp Hv2].
    destruct (IH lvl _ _ Hv2) as (A & B & C). split; [exact A|]. split; [|discriminate].
    intros _. destruct r as [|y r']; [rewrite (C eq_refl); exact Hp|apply B; discriminate].
Qed.

Lemma obj_loop_ok ms : Forall (fun m => child_ok (snd m)) ms -> forall lvl s st, view lvl s = Some st ->
  view lvl (obj_loop lvl ms s) = Some (add_all (map (fun m => (Some (fst m), snd m)) ms) st) /\
  (ms <> [] -> lvl <= c_pos (obj_loop lvl ms s)) /\ (ms = [] -> obj_loop lvl ms s = s).
Proof.
  induction 1 as [|[k x] r Hx Hr IH]; intros lvl s st Hv.
  - cbn [obj_loop map]. split; [exact Hv|]. split; [congruence|reflexivity].
  - cbn [obj_loop map fst snd]. cbn [snd] in Hx. destruct (Hx lvl (Some k) s st Hv) as [Hp Hv2].
    destruct (IH lvl _ _ Hv2) as (A & B & C). split; [exact A|]. split; [|discriminate].
    intros _. destruct r as [|y r']; [rewrite (C eq_refl); exact Hp|apply B; discriminate].
Qed.

Lemma view_pending lvl st key o : view (lvl + 1) (CS st (Some (key, o)) lvl) = Some (CF key o [] :: st).
Proof. unfold view. cbn [c_pos c_pend c_stack]. replace (lvl + 1 <=? lvl) with false by lia. rewrite Z.eqb_refl. reflexivity. Qed.
Lemma view_same lvl st : view lvl (CS st None lvl) = Some st.
Proof. unfold view. cbn [c_pos]. replace (lvl <=? lvl) with true by lia. replace (lvl - lvl) with 0 by lia. reflexivity. Qed.
Lemma view_pending_same lvl st key o : view lvl (CS st (Some (key, o)) lvl) = Some (add_kid (key, if o then JObj [] else JArr []) st).
Proof. unfold view. cbn [c_pos]. replace (lvl <=? lvl) with true by lia. replace (lvl - lvl) with 0 by lia. reflexivity. Qed.

Lemma map_obj_kids (ms : list (list Z * jval)) :
  map (fun c : option (list Z) * jval => (match fst c with Some k => k | None => [] end, snd c))
      (map (fun m : list Z * jval => (Some (fst m), snd m)) ms) = ms.
Proof. induction ms as [|[k x] r IH]; [reflexivity|]. cbn [map fst snd]. rewrite IH. reflexivity. Qed.
Lemma map_arr_kids (l : list jval) : map snd (map (fun x : jval => (@None (list Z), x)) l) = l.
Proof. induction l as [|x r IH]; [reflexivity|]. cbn [map snd]. rewrite IH. reflexivity. Qed.

Theorem child_ok_all : forall x, child_ok x.
Proof.
  induction x as [|bb|n|f|str|items IH|ms IH] using jval_ind'; intros lvl key s st Hv; cbv zeta;
    rewrite (clone_visit_view lvl key _ s st Hv); cbn [is_cont kind_of];
    try (cbn [clone_walk c_pos]; split; [lia|apply view_same]).
  - rewrite clone_walk_arr.
    destruct (arr_loop_ok items IH (lvl + 1) _ _ (view_pending lvl st key false)) as (A & B & C).
    destruct items as [|y r].
    + rewrite (C eq_refl). cbn [c_pos]. split; [lia|]. apply view_pending_same.
    + specialize (B ltac:(discriminate)). split; [lia|].
      rewrite add_all_frame in A. rewrite (view_up lvl _ _ _ B A). cbn [f_key frame_val f_obj f_kids].
      rewrite app_nil_r, rev_involutive, map_arr_kids. reflexivity.
  - rewrite clone_walk_obj.
    destruct (obj_loop_ok ms IH (lvl + 1) _ _ (view_pending lvl st key true)) as (A & B & C).
    destruct ms as [|y r].
    + rewrite (C eq_refl). cbn [c_pos]. split; [lia|]. apply view_pending_same.
    + specialize (B ltac:(discriminate)). split; [lia|].
      rewrite add_all_frame in A. rewrite (view_up lvl _ _ _ B A). cbn [f_key frame_val f_obj f_kids].
      rewrite app_nil_r, rev_involutive, map_obj_kids. reflexivity.
Qed.

Theorem jbn_clone_equal : forall v, jbn_clone v = v.
Proof.
  intros v. destruct v; try reflexivity.
  - unfold jbn_clone. rewrite clone_walk_arr.
    set (s0 := CS [CF None false []] None 0).
    assert (Hv0 : view 0 s0 = Some [CF None false []]) by reflexivity.
    assert (Hall : Forall child_ok items) by (apply Forall_forall; intros; apply child_ok_all).
    destruct (arr_loop_ok items Hall 0 s0 _ Hv0) as (A & B & C).
    assert (Hp : 0 <= c_pos (arr_loop 0 items s0)).
    { destruct items; [rewrite (C eq_refl); cbn; lia|apply B; discriminate]. }
    unfold view in A. replace (0 <=? c_pos (arr_loop 0 items s0)) with true in A by lia. injection A as A.
    rewrite flush_pos. replace (c_pos (arr_loop 0 items s0) - 0) with (c_pos (arr_loop 0 items s0)) in A by lia. rewrite A.
    rewrite add_all_frame. cbn [frame_val f_obj f_kids]. rewrite app_nil_r, rev_involutive, map_arr_kids. reflexivity.
  - unfold jbn_clone. rewrite clone_walk_obj.
    set (s0 := CS [CF None true []] None 0).
    assert (Hv0 : view 0 s0 = Some [CF None true []]) by reflexivity.
    assert (Hall : Forall (fun m => child_ok (snd m)) members) by (apply Forall_forall; intros; apply child_ok_all).
    destruct (obj_loop_ok members Hall 0 s0 _ Hv0) as (A & B & C).
    assert (Hp : 0 <= c_pos (obj_loop 0 members s0)).
    { destruct members; [rewrite (C eq_refl); cbn; lia|apply B; discriminate]. }
    unfold view in A. replace (0 <=? c_pos (obj_loop 0 members s0)) with true in A by lia. injection A as A.
    rewrite flush_pos. replace (c_pos (obj_loop 0 members s0) - 0) with (c_pos (obj_loop 0 members s0)) in A by lia. rewrite A.
    rewrite add_all_frame. cbn [frame_val f_obj f_kids]. rewrite app_nil_r, rev_involutive, map_obj_kids. reflexivity.
Qed.

(* ------------------------------------------------------------------ producers of the model
   Every tree / buffer the model can derive from one value: jbn_clone of a tree, decoding of a buffer (jbl_to_node; the
   model has one decoder for both clone_strings settings: a jval carries no storage), re-encoding of such a tree
   (jbl_from_node / jbl_fill_from_node), jbl_clone, jbl_clone_into_pool - in any order, any number of times. *)
Inductive tree_of (v : jval) (bs : list Z) : jval -> Prop :=
  | TP_self : tree_of v bs v
  | TP_clone : forall t, tree_of v bs t -> tree_of v bs (jbn_clone t)
  | TP_decode : forall b t, bin_of v bs b -> binn_decode b = Some t -> tree_of v bs t
with bin_of (v : jval) (bs : list Z) : list Z -> Prop :=
  | BP_self : bin_of v bs bs
  | BP_clone : forall b b', bin_of v bs b -> binn_clone b = Some b' -> bin_of v bs b'
  | BP_clonep : forall b b', bin_of v bs b -> binn_clone_into_pool b = Some b' -> bin_of v bs b'
  | BP_encode : forall t b, tree_of v bs t -> binn_encode t = Some b -> bin_of v bs b.

Scheme tree_of_mind := Minimality for tree_of Sort Prop
  with bin_of_mind := Minimality for bin_of Sort Prop.
Combined Scheme producers_mind from tree_of_mind, bin_of_mind.

Lemma producers_same : forall v bs, wf v = true -> binn_encode v = Some bs ->
  (forall t, tree_of v bs t -> t = v) /\ (forall b, bin_of v bs b -> b = bs).
Proof.
  intros v bs Hw He.
  destruct (binn_clone_same v bs He) as [Hc Hp].
  apply (producers_mind v bs (fun t => t = v) (fun b => b = bs)).
  - reflexivity.
  - intros t _ IH. subst t. apply jbn_clone_equal.
  - intros b t _ IH Hd. subst b. rewrite (binn_roundtrip v bs Hw He) in Hd. injection Hd as Hd. symmetry. exact Hd.
  - reflexivity.
  - intros b b' _ IH Hcl. subst b. rewrite Hc in Hcl. injection Hcl as Hcl. symmetry. exact Hcl.
  - intros b b' _ IH Hcl. subst b. rewrite Hp in Hcl. injection Hcl as Hcl. symmetry. exact Hcl.
  - intros t b _ IH Hen. subst t. rewrite He in Hen. injection Hen as Hen. symmetry. exact Hen.
Qed.

Theorem at_producer_independent : forall v bs t b path ptr, wf v = true -> binn_encode v = Some bs ->
  tree_of v bs t -> bin_of v bs b ->
  at_tree t path = at_tree v path /\ at_tree2 t ptr = at_tree2 v ptr /\
  at_binn b path = at_binn bs path /\ at_binn2 b ptr = at_binn2 bs ptr.
Proof.
  intros v bs t b path ptr Hw He Ht Hb.
  destruct (producers_same v bs Hw He) as [A B].
  rewrite (A t Ht), (B b Hb). repeat split; reflexivity.
Qed.

(* ------------------------------------------------------------------ jbl_ptr_serialize, jbl_ptr_cmp (deepening round) *)
(* a segment that needs no escaping *)
Definition plain_seg (s : list Z) : Prop := Forall (fun c => c <> 47 /\ c <> 126 /\ c <> 0) s.

Lemma split_plain s : plain_seg s -> forall rest cur, split_slash (s ++ rest) cur = split_slash rest (rev s ++ cur).
Proof.
  induction 1 as [|c r (H1 & H2 & H3) Hr IH]; intros rest cur; [reflexivity|].
  cbn [app split_slash]. replace (c =? 47) with false by lia. rewrite IH. cbn [rev]. rewrite <- app_assoc. reflexivity.
Qed.

Lemma split_serialize : forall r cur, Forall plain_seg r -> split_slash (ptr_serialize r) cur = rev cur :: r.
Proof.
  induction r as [|s r IH]; intros cur HF; [reflexivity|]. inversion HF as [|? ? Hs Hr]; subst.
  unfold ptr_serialize. cbn [flat_map]. fold (ptr_serialize r). cbn [app split_slash]. cbn [Z.eqb Pos.eqb].
  rewrite (split_plain s Hs). rewrite (IH _ Hr). rewrite app_nil_r, rev_involutive. reflexivity.
Qed.

Lemma rfc_unescape_plain s : plain_seg s -> rfc_unescape s = Some s.
Proof.
  induction 1 as [|c r (H1 & H2 & H3) Hr IH]; [reflexivity|]. cbn [rfc_unescape]. replace (c =? 126) with false by lia.
  rewrite IH. reflexivity.
Qed.

Lemma all_some_plain r : Forall plain_seg r -> all_some (map rfc_unescape r) = Some r.
Proof.
  induction 1 as [|s r Hs Hr IH]; [reflexivity|]. cbn [map all_some]. rewrite (rfc_unescape_plain s Hs), IH. reflexivity.
Qed.

Lemma cstr_nz s : Forall (fun c => c <> 0) s -> cstr s = s.
Proof. induction 1 as [|c r Hc Hr IH]; [reflexivity|]. cbn [cstr]. replace (c =? 0) with false by lia. rewrite IH. reflexivity. Qed.

Lemma cstr_serialize r : Forall plain_seg r -> cstr (ptr_serialize r) = ptr_serialize r.
Proof.
  intros HF. apply cstr_nz. apply Forall_forall. intros c Hc. unfold ptr_serialize in Hc. apply in_flat_map in Hc as (s & Hs & Hc).
  rewrite Forall_forall in HF. specialize (HF s Hs). unfold plain_seg in HF. rewrite Forall_forall in HF.
  destruct Hc as [<-|Hc]; [discriminate|]. destruct (HF c Hc) as (_ & _ & H0). exact H0.
Qed.

(* jbl_ptr_serialize inverts jbl_ptr_alloc on pointers whose segments need no escaping ... *)
Theorem ptr_serialize_parse : forall segs, Forall plain_seg segs -> trailing_slash (ptr_serialize segs) = false ->
  ptr_parse (ptr_serialize segs) = Some segs.
Proof.
  intros segs HF Ht. rewrite ptr_parse_rfc6901 by (rewrite cstr_serialize; assumption). rewrite (cstr_serialize segs HF).
  destruct segs as [|s r]; [reflexivity|]. inversion HF as [|? ? Hs Hr]; subst.
  unfold ptr_serialize. cbn [flat_map]. fold (ptr_serialize r). unfold rfc_ptr_parse. cbn [app]. cbn [Z.eqb Pos.eqb].
  rewrite (split_plain s Hs), (split_serialize r _ Hr). rewrite app_nil_r, rev_involutive.
  apply (all_some_plain (s :: r) HF).
Qed.

(* ... and NOT in general: a segment holding '/' or '~' is written back unescaped, so the text denotes another pointer *)
Theorem ptr_serialize_parse_refuted : exists path segs, ptr_parse path = Some segs /\ ptr_parse (ptr_serialize segs) <> Some segs.
Proof. exists [47; 97; 126; 49; 98], [[97; 47; 98]]. split; [vm_compute; reflexivity|vm_compute; discriminate]. Qed.

Lemma strcmp_sgn_refl a : strcmp_sgn a a = 0.
Proof. induction a as [|x a IH]; [reflexivity|]. cbn [strcmp_sgn]. rewrite Z.ltb_irrefl. exact IH. Qed.
Lemma strcmp_sgn_eq : forall a b, strcmp_sgn a b = 0 -> a = b.
Proof.
  induction a as [|x a IH]; intros [|y b] H; try discriminate; [reflexivity|]. cbn [strcmp_sgn] in H.
  destruct (x <? y) eqn:E1; [discriminate|]. destruct (y <? x) eqn:E2; [discriminate|].
  f_equal; [lia|apply IH; assumption].
Qed.
Lemma segs_cmp_refl s : segs_cmp s s = 0.
Proof. induction s as [|a r IH]; [reflexivity|]. cbn [segs_cmp]. rewrite strcmp_sgn_refl. exact IH. Qed.
Lemma segs_cmp_eq : forall s1 s2, length s1 = length s2 -> segs_cmp s1 s2 = 0 -> s1 = s2.
Proof.
  induction s1 as [|a r IH]; intros [|b r2] Hl H; try discriminate; [reflexivity|]. cbn [segs_cmp] in H.
  destruct (strcmp_sgn a b =? 0) eqn:E; [|lia]. apply Z.eqb_eq in E. apply strcmp_sgn_eq in E. subst b.
  f_equal. apply IH; [injection Hl; auto|assumption].
Qed.

(* jbl_ptr_cmp: a pointer equals itself, and only pointers with the same segments compare equal *)
Theorem ptr_cmp_refl : forall path segs, ptr_parse path = Some segs -> ptr_cmp path path = Some 0.
Proof.
  intros path segs H. unfold ptr_parse in H. unfold ptr_cmp. destruct (ptr_parse3 path) as [| |ss]; try discriminate.
  rewrite !Z.sub_diag. cbn [Z.mul Z.add Z.eqb negb]. rewrite Z.eqb_refl. cbn [negb]. rewrite segs_cmp_refl. reflexivity.
Qed.

Theorem ptr_cmp_zero : forall p1 p2, ptr_cmp p1 p2 = Some 0 ->
  exists segs, ptr_parse p1 = Some segs /\ ptr_parse p2 = Some segs.
Proof.
  intros p1 p2 H. unfold ptr_cmp in H. unfold ptr_parse.
  destruct (ptr_parse3 p1) as [| |s1]; try discriminate. destruct (ptr_parse3 p2) as [| |s2]; try discriminate.
  match type of H with context [negb (?d =? 0)] => destruct (d =? 0) eqn:Ed end; cbn [negb] in H.
  2:{ injection H as H. apply Z.eqb_neq in Ed. destruct (Z.sgn_spec (((zlen s1 - zlen s2) * jbinn_sizeof_ptr + (zlen (cstr p1) - zlen (cstr p2))))) as [[? ?]|[[? ?]|[? ?]]]; lia. }
  destruct (zlen s1 =? zlen s2) eqn:El; cbn [negb] in H.
  2:{ injection H as H. apply Z.eqb_neq in El. destruct (Z.sgn_spec (zlen s1 - zlen s2)) as [[? ?]|[[? ?]|[? ?]]]; lia. }
  injection H as H. apply Z.eqb_eq in El. exists s1. split; [reflexivity|]. f_equal. symmetry. apply segs_cmp_eq; [|assumption].
  unfold zlen in El. lia.
Qed.
