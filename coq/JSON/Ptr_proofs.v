(* proofs about JSON/Ptr.v (family jbinn, C14) *)
Require Import ZArith List Bool Lia. Import ListNotations.
Require Import IW.JSON.Val IW.JSON.Binn IW.JSON.Ptr IW.JSON.Binn_proofs IW.Gen.Facts.
Local Open Scope Z_scope.
Ltac Zify.zify_post_hook ::= Z.div_mod_to_equations.

(* ------------------------------------------------------------------ byte strings *)
Lemma bytes_eqb_refl a : Forall (fun c => True) a -> bytes_eqb a a = true.
Proof. intros _. induction a as [|x r IH]; [reflexivity|]. cbn [bytes_eqb]. rewrite Z.eqb_refl, IH. reflexivity. Qed.
Lemma bytes_eqb_eq a b : bytes_eqb a b = true <-> a = b.
Proof.
  split.
  - revert b. induction a as [|x r IH]; intros [|y s] H; try discriminate; [reflexivity|].
    cbn [bytes_eqb] in H. apply andb_prop in H as [H1 H2]. apply Z.eqb_eq in H1. subst. f_equal. apply IH. assumption.
  - intros <-. apply bytes_eqb_refl. apply Forall_forall. trivial.
Qed.

(* ------------------------------------------------------------------ one-step unfoldings of the walk *)
Section VisitFacts.
  Variable N : Type.
  Variable kids : N -> kres N.
  Variable upd : list (list Z) -> Z -> Z -> option (list Z) -> Z -> Z * bool.
  Variable eat : bool.
  Variable ptr : list (list Z).
  Notation visit' := (visit N kids upd eat ptr).

  Lemma visit_O lvl cs st : visit' O lvl cs st = VErr E_FUEL.
  Proof. reflexivity. Qed.
  Lemma visit_nil f lvl st : visit' (S f) lvl [] st = VOk st.
  Proof. reflexivity. Qed.
  Lemma visit_cons f lvl key idx n rest st :
    visit' (S f) lvl ((key, idx, n) :: rest) st =
      if v_term st then VOk st
      else
        let '(pos', matched) := upd ptr (v_pos st) lvl key idx in
        let st1 := if matched then VS pos' (Some n) true else VS pos' (v_res st) false in
        let skip := negb matched && (zlen ptr <? lvl + 1) in
        if matched && negb eat then VOk st1
        else if skip then visit' (S f) lvl rest st1
        else match kids n with
             | KNot => visit' (S f) lvl rest st1
             | KErr e => VErr e
             | KSome cs' =>
               if lvl + 1 >? jbinn_JBL_MAX_NESTING_LEVEL then VErr E_NESTING
               else match visit' f (lvl + 1) cs' st1 with
                    | VErr e => VErr e
                    | VOk st2 => visit' (S f) lvl rest st2
                    end
             end.
  Proof. reflexivity. Qed.

  Lemma visit_term f lvl cs st : v_term st = true -> visit' (S f) lvl cs st = VOk st.
  Proof. intros H. destruct cs as [|[[key idx] n] rest]; [reflexivity|]. rewrite visit_cons, H. reflexivity. Qed.
End VisitFacts.

(* ------------------------------------------------------------------ what both cursor updates compute on C strings *)
Definition keystr (key : option (list Z)) (idx : Z) : list Z := match key with Some k => k | None => itoa idx end.

Definition upd_spec (ptr : list (list Z)) (pos lvl : Z) (key : option (list Z)) (idx : Z) : Z * bool :=
  let cnt := zlen ptr in
  if lvl <? cnt then
    let pos1 := if pos >=? lvl then lvl - 1 else pos in
    if pos1 + 1 =? lvl then
      if bytes_eqb (keystr key idx) (seg_at ptr lvl) then (lvl, cnt =? lvl + 1) else (pos1, false)
    else (pos1, false)
  else (pos, false).

Lemma upd_spec_unmatched ptr pos lvl key idx : pos + 1 < lvl -> upd_spec ptr pos lvl key idx = (pos, false).
Proof.
  intros H. unfold upd_spec. cbv zeta. destruct (lvl <? zlen ptr); [|reflexivity].
  replace (pos >=? lvl) with false by lia. replace (pos + 1 =? lvl) with false by lia. reflexivity.
Qed.
Lemma upd_spec_at ptr pos lvl key idx : lvl < zlen ptr -> lvl - 1 <= pos ->
  upd_spec ptr pos lvl key idx =
    if bytes_eqb (keystr key idx) (seg_at ptr lvl) then (lvl, zlen ptr =? lvl + 1) else (lvl - 1, false).
Proof.
  intros H1 H2. unfold upd_spec. cbv zeta. replace (lvl <? zlen ptr) with true by lia.
  destruct (pos >=? lvl) eqn:E.
  - replace (lvl - 1 + 1 =? lvl) with true by lia. reflexivity.
  - replace (pos + 1 =? lvl) with true by lia. replace pos with (lvl - 1) by lia. reflexivity.
Qed.

Definition kok (key : option (list Z)) (idx : Z) : Prop :=
  match key with Some k => forallb char_ok k = true | None => 0 <= idx end.

(* the search both walks perform, without the cursor: first child whose name equals the segment and below which the
   rest of the pointer is found *)
Fixpoint dfs (segs : list (list Z)) (cs : list (option (list Z) * Z * jval)) : option jval :=
  match segs with
  | [] => None
  | s :: rest =>
    (fix scan (cs : list (option (list Z) * Z * jval)) : option jval :=
       match cs with
       | [] => None
       | (key, idx, n) :: tl =>
         if bytes_eqb (keystr key idx) s then
           match rest with
           | [] => Some n
           | _ :: _ => match (match kids_j n with KSome cs' => dfs rest cs' | _ => None end) with
                       | Some r => Some r
                       | None => scan tl
                       end
           end
         else scan tl
       end) cs
  end.

Lemma dfs_nil s rest : dfs (s :: rest) [] = None. Proof. reflexivity. Qed.
Lemma dfs_cons s rest key idx n tl :
  dfs (s :: rest) ((key, idx, n) :: tl) =
    if bytes_eqb (keystr key idx) s then
      match rest with
      | [] => Some n
      | _ :: _ => match (match kids_j n with KSome cs' => dfs rest cs' | _ => None end) with
                  | Some r => Some r
                  | None => dfs (s :: rest) tl
                  end
      end
    else dfs (s :: rest) tl.
Proof. reflexivity. Qed.

Definition cwf (a : option (list Z) * Z * jval) : Prop := wf (snd a) = true /\ kok (fst (fst a)) (snd (fst a)).

Lemma number_cwf (l : list jval) : forall i, 0 <= i -> Forall (fun v => wf v = true) l -> Forall cwf (number i l).
Proof.
  induction l as [|x r IH]; intros i Hi Hw; cbn [number]; [constructor|]. inversion Hw; subst.
  constructor; [split; [assumption|exact Hi]|]. apply IH; [lia|assumption].
Qed.

Lemma kids_j_cwf v : wf v = true -> match kids_j v with KSome cs => Forall cwf cs | _ => True end.
Proof.
  intros Hw. destruct v; cbn [kids_j]; try exact I.
  - apply number_cwf; [lia|apply wf_arr_inv; assumption].
  - destruct (wf_obj_inv _ Hw) as [Hm _]. apply Forall_forall. intros c Hc. apply in_map_iff in Hc as (m & <- & Hin).
    rewrite Forall_forall in Hm. destruct (Hm m Hin) as (H1 & H2 & H3). split; assumption.
Qed.

Lemma skipn_seg (ptr : list (list Z)) lvl : 0 <= lvl < zlen ptr ->
  skipn (Z.to_nat lvl) ptr = seg_at ptr lvl :: skipn (Z.to_nat (lvl + 1)) ptr.
Proof.
  intros H. unfold seg_at. replace (Z.to_nat (lvl + 1)) with (S (Z.to_nat lvl)) by lia.
  assert (Hn : (Z.to_nat lvl < length ptr)%nat) by (unfold zlen in H; lia).
  revert Hn. generalize (Z.to_nat lvl). clear H. induction ptr as [|s r IH]; intros n Hn; [simpl in Hn; lia|].
  destruct n as [|n]; [reflexivity|]. cbn [skipn nth]. apply IH. simpl in Hn. lia.
Qed.

Section Walk.
  Variable N : Type.
  Variable kids : N -> kres N.
  Variable upd : list (list Z) -> Z -> Z -> option (list Z) -> Z -> Z * bool.
  Variable eat : bool.
  Variable ptr : list (list Z).
  Variable R : jval -> N -> Prop.
  Notation visit' := (visit N kids upd eat ptr).
  Notation cnt := (zlen ptr).

  Definition crel (a : option (list Z) * Z * jval) (b : option (list Z) * Z * N) : Prop :=
    fst (fst a) = fst (fst b) /\ keystr (fst (fst a)) (snd (fst a)) = keystr (fst (fst b)) (snd (fst b)) /\
    kok (fst (fst b)) (snd (fst b)) /\ R (snd a) (snd b).

  Definition kids_rel (kj : kres jval) (kn : kres N) : Prop :=
    match kj, kn with
    | KNot, KNot => True
    | KSome cj, KSome cn => Forall2 crel cj cn
    | _, _ => False
    end.

  Hypothesis Hupd : forall pos lvl key idx, kok key idx -> upd ptr pos lvl key idx = upd_spec ptr pos lvl key idx.
  Hypothesis Hkids : forall v n, R v n -> wf v = true -> kids_rel (kids_j v) (kids n).
  Hypothesis Hcnt : cnt <= jbinn_JBL_MAX_NESTING_LEVEL.

  (* below a node whose path did not match nothing happens *)
  Lemma walk_unmatched : forall f lvl cj cn st, Forall2 crel cj cn -> Forall cwf cj ->
    Z.of_nat f + lvl > cnt -> 0 <= lvl <= cnt -> v_term st = false -> v_pos st + 1 < lvl -> visit' f lvl cn st = VOk st.
  Proof.
    induction f as [|f IHf]; intros lvl cj cn st Hrel Hwf Hfuel Hl Ht Hp.
    - exfalso. lia.
    - revert st Ht Hp. induction Hrel as [|a b cj' cn' Hab Hrest IHl]; intros st Ht Hp; [apply visit_nil|].
      destruct b as [[key idx] n]. destruct a as [[keyj idxj] v]. destruct Hab as (Hk & Hks & Hok & HR). cbn [fst snd] in *.
      inversion Hwf as [|? ? [Hwv _] Hwf']; subst. cbn [snd] in Hwv.
      rewrite visit_cons, Ht. rewrite (Hupd _ _ _ _ Hok). rewrite upd_spec_unmatched by lia.
      cbn [andb negb].
      assert (Hst : VS (v_pos st) (v_res st) false = st) by (destruct st; cbn in *; subst; reflexivity).
      rewrite Hst.
      destruct (cnt <? lvl + 1) eqn:Esk; [apply IHl; assumption|].
      pose proof (Hkids v n HR Hwv) as Hkr. pose proof (kids_j_cwf v Hwv) as Hkw. unfold kids_rel in Hkr.
      destruct (kids_j v) as [| |cj2]; destruct (kids n) as [|e|cn2]; try contradiction.
      + apply IHl; assumption.
      + replace (lvl + 1 >? jbinn_JBL_MAX_NESTING_LEVEL) with false by lia.
        rewrite (IHf (lvl + 1) cj2 cn2 st Hkr Hkw); try lia; try assumption. apply IHl; assumption.
  Qed.

  Definition inv (lvl : Z) (st : vst N) : Prop := v_term st = false /\ v_res st = None /\ lvl - 1 <= v_pos st.

  Definition walk_post (lvl : Z) (o : option jval) (r : vr N) : Prop :=
    match o with
    | Some x => exists pos' rn, r = VOk (VS pos' (Some rn) true) /\ R x rn /\ wf x = true
    | None => exists st', r = VOk st' /\ inv lvl st'
    end.

  Lemma skipn_last_level lvl : 0 <= lvl -> cnt = lvl + 1 -> skipn (Z.to_nat (lvl + 1)) ptr = [].
  Proof. intros H0 H. apply skipn_all2. unfold zlen in H. lia. Qed.

  (* below a node whose path matched so far: the walk finds what the cursor-free search finds *)
  Lemma walk_matched : forall f lvl cj cn st, Forall2 crel cj cn -> Forall cwf cj ->
    Z.of_nat f + lvl > cnt -> 0 <= lvl < cnt -> inv lvl st ->
    walk_post lvl (dfs (skipn (Z.to_nat lvl) ptr) cj) (visit' f lvl cn st).
  Proof.
    induction f as [|f IHf]; intros lvl cj cn st Hrel Hwf Hfuel Hl Hinv; [exfalso; lia|].
    rewrite skipn_seg by lia.
    remember (skipn (Z.to_nat (lvl + 1)) ptr) as rest eqn:Erest.
    revert st Hinv. induction Hrel as [|a b cj' cn' Hab Hrest IHl]; intros st (Ht & Hres & Hp).
    { rewrite dfs_nil, visit_nil. exists st. repeat split; assumption. }
    destruct b as [[key idx] n]. destruct a as [[keyj idxj] v]. destruct Hab as (Hk & Hks & Hok & HR). cbn [fst snd] in *.
    pose proof (Forall_inv Hwf) as [Hwv _]. pose proof (Forall_inv_tail Hwf) as Hwf'. cbn [snd] in Hwv. specialize (IHl Hwf').
    rewrite dfs_cons, visit_cons, Ht. rewrite (Hupd _ _ _ _ Hok). rewrite upd_spec_at by lia. rewrite Hks.
    pose proof (Hkids v n HR Hwv) as Hkr. pose proof (kids_j_cwf v Hwv) as Hkw. unfold kids_rel in Hkr.
    destruct (bytes_eqb (keystr key idx) (seg_at ptr lvl)) eqn:Em.
    - destruct (cnt =? lvl + 1) eqn:Ec.
      + (* complete match *)
        rewrite skipn_last_level in Erest by lia. subst rest. cbn [andb negb].
        destruct eat; cbn [negb andb].
        * destruct (kids_j v) as [| |cj2]; destruct (kids n) as [|e|cn2]; try contradiction.
          -- rewrite visit_term by reflexivity. exists lvl, n. repeat split; assumption.
          -- replace (lvl + 1 >? jbinn_JBL_MAX_NESTING_LEVEL) with false by lia.
             destruct f as [|f']; [exfalso; lia|]. rewrite visit_term by reflexivity. rewrite visit_term by reflexivity.
             exists lvl, n. repeat split; assumption.
        * exists lvl, n. repeat split; assumption.
      + (* partial match: go down *)
        assert (Hlt : lvl + 1 < cnt) by lia.
        destruct rest as [|s2 r2].
        { exfalso. apply (f_equal (@length _)) in Erest. rewrite skipn_length in Erest. cbn [length] in Erest. unfold zlen in Hlt. lia. }
        cbn [andb negb]. rewrite Hres.
        replace (cnt <? lvl + 1) with false by lia.
        set (st1 := VS lvl (@None N) false).
        assert (Hi1 : inv (lvl + 1) st1) by (repeat split; cbn; lia).
        destruct (kids_j v) as [| |cj2]; destruct (kids n) as [|e|cn2]; try contradiction.
        * apply IHl. destruct Hi1 as (A & B & C). repeat split; cbn in *; try assumption; lia.
        * replace (lvl + 1 >? jbinn_JBL_MAX_NESTING_LEVEL) with false by lia.
          pose proof (IHf (lvl + 1) cj2 cn2 st1 Hkr Hkw ltac:(lia) ltac:(lia) Hi1) as Hdown.
          rewrite <- Erest in Hdown.
          destruct (dfs (s2 :: r2) cj2) as [r|]; cbn [walk_post] in Hdown.
          -- destruct Hdown as (pos' & rn & -> & HRr & Hwr). rewrite visit_term by reflexivity. exists pos', rn. repeat split; assumption.
          -- destruct Hdown as (st' & -> & (A & B & C)). apply IHl. repeat split; try assumption; lia.
    - (* no match at this child *)
      cbn [andb negb]. rewrite Hres. replace (cnt <? lvl + 1) with false by lia.
      set (st1 := VS (lvl - 1) (@None N) false).
      assert (Hi1 : inv lvl st1) by (repeat split; cbn; lia).
      destruct (kids_j v) as [| |cj2]; destruct (kids n) as [|e|cn2]; try contradiction.
      + apply IHl. assumption.
      + replace (lvl + 1 >? jbinn_JBL_MAX_NESTING_LEVEL) with false by lia.
        rewrite (walk_unmatched f (lvl + 1) cj2 cn2 st1 Hkr Hkw) by (cbn; lia || reflexivity).
        apply IHl. assumption.
  Qed.
End Walk.

(* ------------------------------------------------------------------ decimal numbers: iwitoa against the RFC index syntax *)
Definition dval (s : list Z) : Z := fold_left (fun a d => a * 10 + (d - 48)) s 0.

Lemma dval_app s d : dval (s ++ [d]) = dval s * 10 + (d - 48).
Proof. unfold dval. rewrite fold_left_app. reflexivity. Qed.

Lemma digits_rev_spec : forall f n, 0 <= n < 10 ^ Z.of_nat f -> (0 < f)%nat ->
  dval (rev (digits_rev f n)) = n /\ forallb is_digit (digits_rev f n) = true /\
  (10 <= n -> exists d r, rev (digits_rev f n) = d :: r /\ 49 <= d <= 57) /\ (n < 10 -> digits_rev f n = [48 + n]).
Proof.
  induction f as [|f IH]; intros n Hn Hf; [lia|]. cbn [digits_rev].
  destruct (n <? 10) eqn:E.
  - cbn [rev app]. split; [unfold dval; cbn [fold_left]; lia|].
    split; [cbn [forallb]; unfold is_digit; replace (48 <=? 48 + n) with true by lia; replace (48 + n <=? 57) with true by lia; reflexivity|].
    split; [intros; lia|reflexivity].
  - assert (Hq : 0 <= n / 10 < 10 ^ Z.of_nat f).
    { replace (Z.of_nat (S f)) with (Z.of_nat f + 1) in Hn by lia. rewrite Z.pow_add_r in Hn by lia. change (10 ^ 1) with 10 in Hn. lia. }
    assert (Hf' : (0 < f)%nat).
    { destruct f; [|lia]. change (10 ^ Z.of_nat 0) with 1 in Hq. lia. }
    destruct (IH (n / 10) Hq Hf') as (H1 & H2 & H3 & H4).
    cbn [rev]. split; [rewrite dval_app, H1; lia|].
    split.
    { cbn [forallb]. rewrite H2. unfold is_digit.
      replace (48 <=? 48 + n mod 10) with true by lia. replace (48 + n mod 10 <=? 57) with true by lia. reflexivity. }
    split; [|intros; lia].
    intros _. destruct (Z_lt_le_dec (n / 10) 10) as [Hs|Hb].
    + rewrite (H4 Hs). cbn [rev app]. exists (48 + n / 10), [48 + n mod 10]. split; [reflexivity|lia].
    + destruct (H3 Hb) as (d & r & -> & Hd). exists d, (r ++ [48 + n mod 10]). split; [reflexivity|assumption].
Qed.

Lemma forallb_rev {A} (p : A -> bool) l : forallb p (rev l) = forallb p l.
Proof. induction l as [|x r IH]; [reflexivity|]. cbn [rev forallb]. rewrite forallb_app, IH. cbn [forallb]. rewrite andb_true_r. apply andb_comm. Qed.

Lemma rfc_index_itoa i : 0 <= i < 100000000000 -> rfc_index (itoa i) = Some i.
Proof.
  intros H. unfold itoa. destruct (digits_rev_spec 11 i ltac:(change (10 ^ Z.of_nat 11) with 100000000000; lia) ltac:(lia))
    as (H1 & H2 & H3 & H4).
  destruct (Z_lt_le_dec i 10) as [Hs|Hb].
  - rewrite (H4 Hs). cbn [rev app rfc_index]. unfold is_digit.
    replace (48 <=? 48 + i) with true by lia. replace (48 + i <=? 57) with true by lia. cbn [andb]. f_equal. lia.
  - destruct (H3 Hb) as (d & r & Hr & Hd). rewrite Hr in *.
    destruct r as [|d2 r'].
    + exfalso. unfold dval in H1. cbn [fold_left] in H1. lia.
    + cbn [rfc_index]. replace (49 <=? d) with true by lia. replace (d <=? 57) with true by lia. cbn [andb].
      assert (Hall : forallb is_digit (d :: d2 :: r') = true) by (rewrite <- Hr, forallb_rev; exact H2).
      cbn [forallb] in Hall. apply andb_prop in Hall as [_ Hall]. cbn [forallb]. rewrite Hall. f_equal. exact H1.
Qed.

(* a digit string without leading zero is what iwitoa prints for its value *)
Lemma dval_nonneg s : forallb is_digit s = true -> 0 <= dval s.
Proof.
  induction s as [|d r IH] using rev_ind; intros H; [unfold dval; cbn; lia|].
  rewrite forallb_app in H. apply andb_prop in H as [H1 H2]. cbn [forallb] in H2. unfold is_digit in H2.
  rewrite dval_app. specialize (IH H1). lia.
Qed.

Lemma dval_lead s d : 49 <= d <= 57 -> forallb is_digit s = true -> 1 <= dval (d :: s).
Proof.
  induction s as [|x r IH] using rev_ind; intros Hd H.
  - unfold dval. cbn [fold_left]. lia.
  - rewrite forallb_app in H. apply andb_prop in H as [H1 H2]. cbn [forallb] in H2. unfold is_digit in H2.
    rewrite app_comm_cons, dval_app. specialize (IH Hd H1). lia.
Qed.

Lemma digits_rev_of_string : forall s d, 49 <= d <= 57 -> forallb is_digit s = true ->
  forall f, dval (d :: s) < 10 ^ Z.of_nat f -> digits_rev f (dval (d :: s)) = rev (d :: s).
Proof.
  induction s as [|x r IH] using rev_ind; intros d Hd H f Hf.
  - unfold dval in *. cbn [fold_left] in *. destruct f as [|f]; [change (10 ^ Z.of_nat 0) with 1 in Hf; lia|].
    cbn [digits_rev rev app]. replace (0 * 10 + (d - 48) <? 10) with true by lia. f_equal. lia.
  - rewrite forallb_app in H. apply andb_prop in H as [H1 H2]. cbn [forallb] in H2. unfold is_digit in H2.
    rewrite app_comm_cons in *. rewrite dval_app in *. rewrite rev_app_distr. cbn [rev app].
    pose proof (dval_lead r d Hd H1) as Hl.
    destruct f as [|f]; [change (10 ^ Z.of_nat 0) with 1 in Hf; lia|].
    cbn [digits_rev]. replace (dval (d :: r) * 10 + (x - 48) <? 10) with false by lia.
    replace ((dval (d :: r) * 10 + (x - 48)) mod 10) with (x - 48) by lia.
    replace ((dval (d :: r) * 10 + (x - 48)) / 10) with (dval (d :: r)) by lia.
    replace (48 + (x - 48)) with x by lia. f_equal.
    apply IH; try assumption.
    replace (Z.of_nat (S f)) with (Z.of_nat f + 1) in Hf by lia. rewrite Z.pow_add_r in Hf by lia. change (10 ^ 1) with 10 in Hf. lia.
Qed.

Lemma itoa_of_index s i : rfc_index s = Some i -> i < 100000000000 -> itoa i = s.
Proof.
  intros H Hi. unfold rfc_index in H. destruct s as [|c r]; [discriminate|].
  destruct r as [|c2 r'].
  - destruct (is_digit c) eqn:E; [|discriminate]. injection H as <-. unfold is_digit in E.
    unfold itoa. cbn [digits_rev]. replace (c - 48 <? 10) with true by lia. cbn [rev app]. f_equal. lia.
  - destruct ((49 <=? c) && (c <=? 57) && forallb is_digit (c2 :: r')) eqn:E; [|discriminate].
    injection H as <-. apply andb_prop in E as [E1 E2]. apply andb_prop in E1 as [E0 E1].
    assert (Hi' : dval (c :: c2 :: r') < 10 ^ Z.of_nat 11) by (change (10 ^ Z.of_nat 11) with 100000000000; exact Hi).
    unfold itoa. change (fold_left (fun a d : Z => a * 10 + (d - 48)) (c :: c2 :: r') 0) with (dval (c :: c2 :: r')).
    rewrite (digits_rev_of_string (c2 :: r') c ltac:(lia) E2 11 Hi').
    apply rev_involutive.
Qed.

Lemma itoa_match i s : 0 <= i < 100000000000 -> (bytes_eqb (itoa i) s = true <-> rfc_index s = Some i).
Proof.
  intros H. rewrite bytes_eqb_eq. split.
  - intros <-. apply rfc_index_itoa. assumption.
  - intros Hs. apply itoa_of_index; [assumption|lia].
Qed.

Lemma itoa_char_ok i : 0 <= i < 100000000000 -> forallb char_ok (itoa i) = true.
Proof.
  intros H. unfold itoa. rewrite forallb_rev.
  destruct (digits_rev_spec 11 i ltac:(change (10 ^ Z.of_nat 11) with 100000000000; lia) ltac:(lia)) as (_ & H2 & _).
  rewrite forallb_forall in *. intros c Hc. specialize (H2 c Hc). unfold is_digit in H2. unfold char_ok. lia.
Qed.
