(* An explicit ownership heap for the heap-allocating (pool == 0) variant of JSON Merge Patch.
   Allocation ids are never reused; `h_free` of an id that is not live is the C double free / invalid free.
   No proofs here. *)
Require Import List Arith Bool. Import ListNotations.

Record heap := { h_next : nat; h_live : list nat }.
Definition h_empty : heap := {| h_next := O; h_live := [] |}.

Definition h_alloc (h : heap) : nat * heap :=
  (h_next h, {| h_next := S (h_next h); h_live := h_next h :: h_live h |}).

Fixpoint remove1 (x : nat) (l : list nat) : option (list nat) :=
  match l with
  | [] => None
  | y :: r => if Nat.eqb x y then Some r else match remove1 x r with Some r' => Some (y :: r') | None => None end
  end.

Inductive herr := DoubleFree | UseAfterFree.

Definition h_free (h : heap) (id : nat) : herr + heap :=
  match remove1 id (h_live h) with
  | Some l => inr {| h_next := h_next h; h_live := l |}
  | None => inl DoubleFree
  end.
(* free(ptr) with a possibly NULL pointer *)
Definition h_free_opt (h : heap) (id : option nat) : herr + heap :=
  match id with Some i => h_free h i | None => inr h end.

Definition h_is_live (h : heap) (id : nat) : bool := existsb (Nat.eqb id) (h_live h).
(* a read through a pointer *)
Definition h_use (h : heap) (id : option nat) : herr + unit :=
  match id with Some i => if h_is_live h i then inr tt else inl UseAfterFree | None => inr tt end.
