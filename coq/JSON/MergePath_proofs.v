(* C16, deepening round: the path form of JSON Merge Patch (jbn_merge_patch_create / jbn_merge_patch_path) and the registry
   entry points (iwjsreg_merge and its typed variants) inside the ownership model, for EVERY target, path and value. *)
Require Import ZArith List Bool Lia Permutation.
Require Import IW.Lib.CInt IW.UT.Conv IW.JSON.Val IW.JSON.Patch IW.JSON.PatchSpec IW.JSON.Patch_proofs IW.JSON.PatchExt_proofs
               IW.JSON.Mem IW.JSON.Merge IW.JSON.Merge_proofs IW.Gen.Facts.
Import ListNotations. Local Open Scope Z_scope. Local Open Scope bool_scope.

Lemma wrapper_good : forall segs v, opt_good v ->
  let p := Node 0 [] TObj 0 [] (match wrap_child segs v with Some c0 => [c0] | None => [] end) in
  good p /\ val p = JObj (wrap_val segs (option_map val v)) /\ n_ty p = TObj.
Proof.
  intros segs v Gv p. pose proof (wrap_child_spec segs v Gv) as W. unfold p. split; [|split; [|reflexivity]].
  - split; [|discriminate]. apply inv_unfold. cbn [n_ty n_ch].
    destruct (wrap_child segs v) as [c0|]; [|split; constructor]. destruct W as [W1 [W2 _]]. split; constructor; auto.
  - cbn [val]. f_equal. destruct (wrap_child segs v) as [c0|].
    + destruct W as [_ [_ W3]]. exact W3.
    + subst segs. reflexivity.
Qed.

(* jbn_merge_patch_create, every path text and value:
   "" and "/" hand the value itself on; an unacceptable pointer is JBL_ERROR_JSON_POINTER; otherwise the wrapper object
   {seg1:{seg2:...value}} (an empty object at the end when no value is given) *)
Lemma merge_patch_create_spec : forall path v, opt_good v ->
  match merge_patch_create path v with
  | inl e => e = RcPtr /\ lib_ptr path = None
  | inr None => v = None /\ (path = [] \/ path = [47])
  | inr (Some p) => good p /\
                    (((path = [] \/ path = [47]) /\ v = Some p) \/
                     (exists segs, lib_ptr path = Some segs /\ path <> [] /\ path <> [47] /\ n_ty p = TObj /\
                                   val p = JObj (wrap_val segs (option_map val v))))
  end.
Proof.
  intros path v Gv. unfold merge_patch_create.
  assert (GEN : path <> [] -> path <> [47] ->
          match (match ptr_parse path with
                 | PtrErr => inl RcPtr
                 | PtrUnmodelled => inl RcUnmodelled
                 | PtrOk segs => inr (Some (Node 0 [] TObj 0 [] (match wrap_child segs v with Some c => [c] | None => [] end)))
                 end) with
          | inl e => e = RcPtr /\ lib_ptr path = None
          | inr None => v = None /\ (path = [] \/ path = [47])
          | inr (Some p) => good p /\
                    (((path = [] \/ path = [47]) /\ v = Some p) \/
                     (exists segs, lib_ptr path = Some segs /\ path <> [] /\ path <> [47] /\ n_ty p = TObj /\
                                   val p = JObj (wrap_val segs (option_map val v))))
          end).
  { intros N1 N2. rewrite ptr_parse_spec. destruct (lib_ptr path) as [segs|]; [|split; reflexivity].
    destruct (wrapper_good segs v Gv) as [G1 [G2 G3]]. split; [exact G1|]. right. exists segs. repeat split; auto. }
  destruct path as [|c [|c2 r]].
  - destruct v as [v|]; [split; [exact Gv | left; split; [left|]; reflexivity] | split; [reflexivity | left; reflexivity]].
  - destruct (Z.eq_dec c 47) as [E|E].
    + subst c. destruct v as [v|]; [split; [exact Gv | left; split; [right|]; reflexivity] | split; [reflexivity | right; reflexivity]].
    + assert (N2 : [c] <> [47]) by (intro F; inversion F; contradiction).
      specialize (GEN ltac:(discriminate) N2).
      destruct c as [|q|q]; try exact GEN. do 6 (try destruct q as [q|q|]; try exact GEN). exfalso. apply E. reflexivity.
  - specialize (GEN ltac:(discriminate) ltac:(discriminate)).
    destruct c as [|q|q]; try exact GEN. do 6 (try destruct q as [q|q|]; try exact GEN).
Qed.

(* jbn_merge_patch_path(root, path, val, 0) over the ownership heap: for every heap whose live allocations are those of the
   target plus a frame F - no DoubleFree / UseAfterFree, afterwards exactly the allocations of the result plus F are live
   (every node the call allocated is reachable from the result or was freed exactly once), freeing the result returns to F,
   success gives MergePatch(target, wrapper), failure leaves heap and target untouched *)
Theorem merge_path_heap_safe : forall h root path v F, good (forget root) -> opt_good v ->
  Permutation (h_live h) (owns root ++ F) ->
  exists rc h' root', jbn_merge_patch_path_heap h root path v = inr (rc, h', root') /\
    Permutation (h_live h') (owns root' ++ F) /\
    (exists h'', destroy h' root' = inr h'' /\ Permutation (h_live h'') F) /\
    (rc = RcOk -> exists p, merge_patch_create path v = inr (Some p) /\ n_ty p = TObj /\ hn_ty root = TObj /\
                            val (forget root') = merge_spec (Some (val (forget root))) (val p) /\ good (forget root')) /\
    (rc <> RcOk -> root' = root /\ h' = h).
Proof.
  intros h root path v F Gr Gv P. unfold jbn_merge_patch_path_heap.
  pose proof (merge_patch_create_spec path v Gv) as S.
  destruct (merge_patch_create path v) as [e|[p|]].
  - destruct S as [S1 _]. subst e. exists RcPtr, h, root. split; [reflexivity|]. split; [exact P|].
    split; [apply destroy_perm; exact P|]. split; [discriminate | auto].
  - destruct S as [Gp _].
    destruct (merge_heap_safe h root p F Gr Gp P) as [rc0 [h' [root' [E [P' [D [OK KO]]]]]]].
    exists rc0, h', root'. split; [exact E|]. split; [exact P'|]. split; [exact D|]. split; [|exact KO].
    intro R. destruct (OK R) as [V G]. exists p. split; [reflexivity|].
    unfold jbn_merge_patch_heap in E. subst rc0.
    destruct (hn_ty root) eqn:TR; try (inversion E; discriminate).
    destruct (n_ty p) eqn:TP; try (inversion E; discriminate). split; [reflexivity|]. split; [reflexivity|]. split; [exact V | exact G].
  - exists RcInvArgs, h, root. split; [reflexivity|]. split; [exact P|].
    split; [apply destroy_perm; exact P|]. split; [discriminate | auto].
Qed.

(* iwjsreg_merge: the same, and the dirty flag is set exactly by a successful call *)
Theorem iwjsreg_merge_safe : forall h root dirty path v F, good (forget root) -> opt_good v ->
  Permutation (h_live h) (owns root ++ F) ->
  exists rc h' root' dirty', iwjsreg_merge_model h root dirty path v = inr (rc, h', root', dirty') /\
    Permutation (h_live h') (owns root' ++ F) /\
    (exists h'', destroy h' root' = inr h'' /\ Permutation (h_live h'') F) /\
    (rc = RcOk -> dirty' = true /\
                  exists p, merge_patch_create path v = inr (Some p) /\
                            val (forget root') = merge_spec (Some (val (forget root))) (val p) /\ good (forget root')) /\
    (rc <> RcOk -> root' = root /\ h' = h /\ dirty' = dirty).
Proof.
  intros h root dirty path v F Gr Gv P. unfold iwjsreg_merge_model.
  destruct (merge_path_heap_safe h root path v F Gr Gv P) as [rc0 [h' [root' [E [P' [D [OK KO]]]]]]].
  rewrite E. exists rc0, h', root', (if rc_ok rc0 then true else dirty).
  split; [reflexivity|]. split; [exact P'|]. split; [exact D|]. split.
  - intro R. subst rc0. split; [reflexivity|]. destruct (OK eq_refl) as [p [A [_ [_ [B C]]]]]. exists p. auto.
  - intro R. destruct (KO R) as [A B]. repeat split; auto. destruct rc0; try reflexivity. exfalso. apply R. reflexivity.
Qed.

(* the typed entry points: a scalar on the caller's stack is a good value *)
Lemma scalar_node_good : forall ty vi vs, ty <> TNone -> ty <> TObj -> ty <> TArr -> good (scalar_node ty vi vs).
Proof.
  intros ty vi vs A B C. unfold scalar_node. split; [|exact A]. apply inv_unfold. cbn [n_ch n_ty]. split; [constructor|].
  destruct ty; auto; contradiction.
Qed.

(* pool mode, total: every root, every path text, every value *)
Theorem merge_path_pool_total : forall root path v, good root -> opt_good v ->
  match jbn_merge_patch_path_pool root path v with
  | (RcOk, r) => exists p, merge_patch_create path v = inr (Some p) /\
                           val r = merge_spec (Some (val root)) (val p) /\ good r
  | (_, r) => r = root
  end.
Proof.
  intros root path v Gr Gv. unfold jbn_merge_patch_path_pool.
  pose proof (merge_patch_create_spec path v Gv) as S.
  destruct (merge_patch_create path v) as [e|[p|]].
  - destruct S as [S1 _]. subst e. reflexivity.
  - destruct S as [Gp _]. pose proof (jbn_merge_patch_pool_rfc7386 root p Gr Gp) as M.
    destruct (jbn_merge_patch_pool root p) as [r0 r]. destruct r0; try (destruct M as [M _]; exact M).
    destruct M as [M1 M2]. exists p. auto.
  - reflexivity.
Qed.

(* ------------------------------------------------------------------ member names with a zero byte
   The model compares member names over their whole cached length (mkey_match: what memcmp does - fixes/jpatch-merge-nul.diff).
   The unmodified code uses strncmp, which stops at a zero byte: *)
Fixpoint strncmp_c (a b : list Z) (n : nat) : bool :=
  match n with
  | O => true
  | S n' => match a, b with
            | [], [] => true
            | x :: a', y :: b' => if x =? y then (if x =? 0 then true else strncmp_c a' b' n') else false
            | _, _ => false
            end
  end.
Definition mkey_match_c (pc c : node) : bool := (n_kl c =? n_kl pc) && strncmp_c (n_key c) (n_key pc) (Z.to_nat (n_kl c)).

(* on names without a zero byte both comparisons agree: for those the model IS the code *)
Lemma strncmp_c_nul_free : forall a b n, Forall (fun x => x <> 0) a -> strncmp_c a b n = strncmp_eq a b n.
Proof.
  induction a as [|x a IH]; intros b n H.
  - destruct n; [reflexivity|]. destruct b; reflexivity.
  - destruct n as [|n]; [reflexivity|]. destruct b as [|y b]; [reflexivity|].
    inversion H as [|? ? Hx Ha]; subst. cbn [strncmp_c strncmp_eq].
    destruct (x =? y) eqn:E; [|reflexivity]. cbn [andb].
    destruct (x =? 0) eqn:Z0; [apply Z.eqb_eq in Z0; contradiction|]. apply IH. exact Ha.
Qed.
Theorem mkey_match_c_nul_free : forall pc c, Forall (fun x => x <> 0) (n_key c) -> mkey_match_c pc c = mkey_match pc c.
Proof. intros pc c H. unfold mkey_match_c, mkey_match. rewrite (strncmp_c_nul_free _ _ _ H). reflexivity. Qed.

(* with a zero byte they differ: the member "a\0b" is taken for the patch member "a\0c" *)
Theorem merge_name_nul_refuted : exists c pc, good c /\ good pc /\ key_ok c /\ key_ok pc /\ n_key c <> n_key pc /\
  mkey_match_c pc c = true /\ mkey_match pc c = false.
Proof.
  exists (of_val 3 [97; 0; 98] (JI64 1)), (of_val 3 [97; 0; 99] (JI64 2)).
  split; [apply of_val_good|]. split; [apply of_val_good|]. repeat split; try reflexivity. discriminate.
Qed.
