(* Proofs about the JSON text model (Text.v) against the reference definitions (TextSpec.v). *)
Require Import ZArith List Bool Lia.
Require Import IW.Lib.CInt IW.Gen.Facts IW.UT.Conv IW.JSON.Val IW.JSON.Utf8 IW.JSON.Text IW.JSON.TextSpec IW.JSON.Utf8_proofs.
Import ListNotations.
Local Open Scope Z_scope. Local Open Scope bool_scope.
Ltac Zify.zify_post_hook ::= Z.div_mod_to_equations.

(* ================================================================ one-step unfoldings *)
Lemma unesc_S : forall f q p d dlen, unesc (S f) q p d dlen =
  let emit (x : Z) (p' : list Z) :=
    match unesc f q p' (d + 1) dlen with
    | Ok (n, out, e) => Ok (n, put d dlen x out, e)
    | Err e => Err e
    end in
  match p with
  | [] => Err E_UNQ
  | c :: p1 =>
    if c =? 0 then Err E_UNQ
    else if c =? q then Ok (d, [], p1)
    else if c =? 92 then
      let e := hd0 p1 in
      if (e =? 92) || (e =? 47) || (e =? 34) then emit e (tl p1)
      else if e =? 98 then emit 8 (tl p1)
      else if e =? 102 then emit 12 (tl p1)
      else if e =? 110 then emit 10 (tl p1)
      else if e =? 114 then emit 13 (tl p1)
      else if e =? 116 then emit 9 (tl p1)
      else if e =? 117 then
        match u_escape p1 with
        | Err er => Err er
        | Ok (cp, pu) =>
          if negb (codepoint_valid cp) then Err E_CP else
          let bytes := encode_char cp in
          match unesc f q (skipn 5 pu) (d + Z.of_nat (length bytes)) dlen with
          | Ok (n, out, e) => Ok (n, put_list d dlen bytes out, e)
          | Err er => Err er
          end
        end
      else emit c p1
    else emit c p1
  end.
Proof. reflexivity. Qed.

(* ================================================================ hex digits, \uXXXX *)
Lemma jbl_hex_hexv : forall c, jbl_hex c = hexv c.
Proof.
  intro c. unfold jbl_hex, hexv.
  destruct ((48 <=? c) && (c <=? 57)) eqn:E1; [reflexivity|].
  destruct ((97 <=? c) && (c <=? 102)) eqn:E2; destruct ((65 <=? c) && (c <=? 70)) eqn:E3; try lia; reflexivity.
Qed.

Lemma hexv_range : forall c, is_hex c -> 0 <= hexv c < 16.
Proof.
  intros c H. unfold is_hex in H. unfold hexv in *.
  destruct ((48 <=? c) && (c <=? 57)) eqn:E1; [lia|].
  destruct ((65 <=? c) && (c <=? 70)) eqn:E2; [lia|].
  destruct ((97 <=? c) && (c <=? 102)) eqn:E3; lia.
Qed.

Lemma cp4_range : forall a b c d, is_hex a -> is_hex b -> is_hex c -> is_hex d -> 0 <= cp4 a b c d < 65536.
Proof.
  intros a b c d Ha Hb Hc Hd. apply hexv_range in Ha, Hb, Hc, Hd. unfold cp4. lia.
Qed.

Lemma hex4_ok : forall h1 h2 h3 h4 t, is_hex h1 -> is_hex h2 -> is_hex h3 -> is_hex h4 ->
  hex4 (117 :: h1 :: h2 :: h3 :: h4 :: t) = Some (cp4 h1 h2 h3 h4).
Proof.
  intros h1 h2 h3 h4 t H1 H2 H3 H4. unfold hex4, at0. cbn [nth].
  rewrite !jbl_hex_hexv.
  apply hexv_range in H1, H2, H3, H4.
  replace (hexv h1 <? 0) with false by lia. replace (hexv h2 <? 0) with false by lia.
  replace (hexv h3 <? 0) with false by lia. replace (hexv h4 <? 0) with false by lia.
  rewrite lor4_4 by lia. unfold cp4. f_equal. lia.
Qed.

Lemma land_fc00 : forall x, 0 <= x < 65536 -> Z.land x 64512 = 1024 * (x / 1024).
Proof.
  intros x Hx.
  assert (Hs : forallb (fun x => Z.land x 64512 =? 1024 * (x / 1024)) (zseq 0 (Z.to_nat 65536)) = true)
    by (vm_compute; reflexivity).
  apply Z.eqb_eq. exact (range_forall _ _ Hs x Hx).
Qed.

Lemma u_escape_bmp : forall h1 h2 h3 h4 t, item_ok (SU h1 h2 h3 h4) ->
  u_escape (117 :: h1 :: h2 :: h3 :: h4 :: t) = Ok (cp4 h1 h2 h3 h4, 117 :: h1 :: h2 :: h3 :: h4 :: t).
Proof.
  intros h1 h2 h3 h4 t (H1 & H2 & H3 & H4 & Hns). unfold u_escape.
  rewrite hex4_ok by assumption.
  pose proof (cp4_range _ _ _ _ H1 H2 H3 H4) as Hr.
  rewrite land_fc00 by exact Hr.
  replace (1024 * (cp4 h1 h2 h3 h4 / 1024) =? 55296) with false by lia. reflexivity.
Qed.

Lemma u_escape_pair : forall h1 h2 h3 h4 l1 l2 l3 l4 t, item_ok (SPair h1 h2 h3 h4 l1 l2 l3 l4) ->
  u_escape (117 :: h1 :: h2 :: h3 :: h4 :: 92 :: 117 :: l1 :: l2 :: l3 :: l4 :: t) =
  Ok (65536 + (cp4 h1 h2 h3 h4 - 55296) * 1024 + (cp4 l1 l2 l3 l4 - 56320), 117 :: l1 :: l2 :: l3 :: l4 :: t).
Proof.
  intros h1 h2 h3 h4 l1 l2 l3 l4 t (H1 & H2 & H3 & H4 & L1 & L2 & L3 & L4 & Hh & Hl). unfold u_escape.
  rewrite hex4_ok by assumption.
  pose proof (cp4_range _ _ _ _ H1 H2 H3 H4) as Hr.
  pose proof (cp4_range _ _ _ _ L1 L2 L3 L4) as Hr2.
  rewrite land_fc00 by exact Hr.
  replace (1024 * (cp4 h1 h2 h3 h4 / 1024) =? 55296) with true by lia.
  cbn [skipn at0 nth hd0]. cbn [Z.eqb negb orb Pos.eqb].
  rewrite hex4_ok by assumption.
  rewrite land_fc00 by exact Hr2.
  replace (1024 * (cp4 l1 l2 l3 l4 / 1024) =? 56320) with true by lia. cbn [negb].
  rewrite Z.shiftl_mul_pow2 by lia. reflexivity.
Qed.

(* ================================================================ put / put_list *)
Lemma put_list_app : forall a b d dlen t,
  put_list d dlen (a ++ b) t = put_list d dlen a (put_list (d + Z.of_nat (length a)) dlen b t).
Proof.
  induction a as [|x a IH]; intros b d dlen t.
  - simpl. replace (d + 0) with d by lia. reflexivity.
  - cbn [app put_list length]. rewrite IH.
    replace (d + Z.of_nat (S (length a))) with (d + 1 + Z.of_nat (length a)) by lia. reflexivity.
Qed.

Lemma put_list_none : forall l d dlen t, dlen <= d -> put_list d dlen l t = t.
Proof.
  induction l as [|x l IH]; intros d dlen t H; [reflexivity|].
  cbn [put_list]. rewrite IH by lia. unfold put. replace (d <? dlen) with false by lia. reflexivity.
Qed.

Lemma put_list_all : forall l d dlen t, d + Z.of_nat (length l) <= dlen -> put_list d dlen l t = l ++ t.
Proof.
  induction l as [|x l IH]; intros d dlen t H; [reflexivity|].
  cbn [put_list length] in *. rewrite IH by lia. unfold put. replace (d <? dlen) with true by lia. reflexivity.
Qed.

(* ================================================================ unescape_correct *)
Lemma esc_ok_cases : forall c, item_ok (SEsc c) ->
  (c = 34 \/ c = 92 \/ c = 47 \/ c = 98 \/ c = 102 \/ c = 110 \/ c = 114 \/ c = 116).
Proof. intros c H. exact H. Qed.

Lemma unesc_items : forall items fuel d dlen rest, Forall item_ok items -> (length items < fuel)%nat ->
  unesc fuel 34 (render_all items ++ 34 :: rest) d dlen =
  Ok (d + Z.of_nat (length (denote_all items)), put_list d dlen (denote_all items) [], rest).
Proof.
  induction items as [|i items IH]; intros fuel d dlen rest Hok Hf.
  - destruct fuel as [|f]; [simpl in Hf; lia|]. rewrite unesc_S. cbn. f_equal. f_equal. f_equal. lia.
  - destruct fuel as [|f]; [simpl in Hf; lia|]. cbn [length] in Hf.
    inversion Hok as [|? ? Hi Hok']; subst.
    unfold render_all, denote_all in *. cbn [flat_map]. rewrite <- !app_assoc.
    specialize (IH f). rewrite unesc_S.
    destruct i as [b | c | h1 h2 h3 h4 | h1 h2 h3 h4 l1 l2 l3 l4].
    + (* raw byte *)
      destruct Hi as (Hb & H34 & H92). cbn [render denote app]. cbv zeta.
      replace (b =? 0) with false by lia. replace (b =? 34) with false by lia. replace (b =? 92) with false by lia.
      rewrite IH by (assumption || lia). cbn [put_list length]. f_equal. f_equal. f_equal. lia.
    + (* short escape *)
      cbn [render denote app]. cbv zeta. cbn [hd0 tl]. cbn [Z.eqb Pos.eqb].
      assert (Hc := esc_ok_cases c Hi).
      destruct Hc as [-> | [-> | [-> | [-> | [-> | [-> | [-> | ->]]]]]]]; cbn [Z.eqb Pos.eqb orb];
        rewrite IH by (assumption || lia); cbn [put_list length esc_byte Z.eqb Pos.eqb];
        (f_equal; f_equal; f_equal; lia).
    + (* \uXXXX *)
      cbn [render denote app]. cbv zeta. cbn [hd0 tl]. cbn [Z.eqb Pos.eqb orb].
      rewrite (u_escape_bmp _ _ _ _ _ Hi).
      destruct Hi as (H1 & H2 & H3 & H4 & Hns).
      pose proof (cp4_range _ _ _ _ H1 H2 H3 H4) as Hr.
      assert (Hv : codepoint_valid (cp4 h1 h2 h3 h4) = true).
      { apply codepoint_valid_scalar. change (2 ^ 31) with 2147483648. lia. unfold scalar. lia. }
      rewrite Hv. cbn [negb]. rewrite encode_char_spec by lia. cbn [skipn].
      rewrite IH by (assumption || lia).
      rewrite app_length, put_list_app. f_equal. f_equal. f_equal. lia.
    + (* surrogate pair *)
      cbn [render denote app]. cbv zeta. cbn [hd0 tl]. cbn [Z.eqb Pos.eqb orb].
      rewrite (u_escape_pair _ _ _ _ _ _ _ _ _ Hi).
      destruct Hi as (H1 & H2 & H3 & H4 & L1 & L2 & L3 & L4 & Hh & Hl).
      set (cp := 65536 + (cp4 h1 h2 h3 h4 - 55296) * 1024 + (cp4 l1 l2 l3 l4 - 56320)).
      assert (Hcp : 65536 <= cp < 1114112) by (unfold cp; lia).
      assert (Hv : codepoint_valid cp = true).
      { apply codepoint_valid_scalar. change (2 ^ 31) with 2147483648. lia. unfold scalar. lia. }
      rewrite Hv. cbn [negb]. rewrite encode_char_spec by lia. cbn [skipn].
      rewrite IH by (assumption || lia).
      rewrite app_length, put_list_app. f_equal. f_equal. f_equal. lia.
Qed.

Lemma render_len : forall items, (length items <= length (render_all items))%nat.
Proof.
  induction items as [|i items IH]; [simpl; lia|].
  unfold render_all in *. cbn [flat_map]. rewrite app_length. destruct i; simpl; lia.
Qed.

(* pass 1 (no buffer) returns the length of pass 2's output; pass 2 writes the denoted bytes; both end
   right after the closing quote *)
Theorem unescape_correct : forall items rest, Forall item_ok items ->
  let body := render_all items ++ 34 :: rest in
  let out := denote_all items in
  unescape 34 body 0 = Ok (Z.of_nat (length out), [], rest) /\
  unescape 34 body (Z.of_nat (length out)) = Ok (Z.of_nat (length out), out, rest).
Proof.
  intros items rest Hok body out. unfold unescape, body.
  pose proof (render_len items) as Hl.
  split.
  - rewrite unesc_items by (assumption || (rewrite app_length; simpl; lia)).
    rewrite put_list_none by lia. reflexivity.
  - rewrite unesc_items by (assumption || (rewrite app_length; simpl; lia)).
    rewrite put_list_all by (fold out; lia). rewrite app_nil_r. reflexivity.
Qed.

(* ================================================================ integers: iwitoa writes the decimal text *)
Definition dig (v j : Z) : Z := (v / 10 ^ j) mod 10.

Lemma dig_shift : forall v j, 0 <= j -> dig (v / 10) j = dig v (j + 1).
Proof.
  intros v j Hj. unfold dig. rewrite Z.pow_add_r by lia. change (10 ^ 1) with 10.
  rewrite (Z.mul_comm (10 ^ j) 10). rewrite Z.div_div by (try lia; apply Z.pow_pos_nonneg; lia). reflexivity.
Qed.
Lemma dig_0 : forall v, dig v 0 = v mod 10.
Proof. intro v. unfold dig. change (10 ^ 0) with 1. rewrite Z.div_1_r. reflexivity. Qed.

(* number of iterations of the digit loop *)
Fixpoint nd (f : nat) (v : Z) : Z :=
  match f with O => 0 | S f' => if v =? 0 then 0 else 1 + nd f' (v / 10) end.

Lemma nd_range : forall f v, 0 <= nd f v <= Z.of_nat f.
Proof. induction f as [|f IH]; intro v; cbn [nd]. lia. destruct (v =? 0). lia. specialize (IH (v / 10)). lia. Qed.

Lemma peek_wr : forall m i x m' j, wr m i x = Some m' ->
  peek m' j = (if i =? j then x else peek m j) /\ m_len m' = m_len m.
Proof.
  intros m i x m' j H. unfold wr in H. destruct (inb m i); [|discriminate]. injection H as <-.
  unfold peek. cbn [m_wr m_init m_len rd_wr]. split; reflexivity.
Qed.
Lemma wr_ok : forall m i x, 0 <= i < m_len m -> exists m', wr m i x = Some m'.
Proof. intros m i x H. unfold wr, inb. replace ((0 <=? i) && (i <? m_len m)) with true by lia. eauto. Qed.
Lemma rd_peek : forall m i, 0 <= i < m_len m -> rd m i = Some (peek m i).
Proof. intros m i H. unfold rd, inb, peek. replace ((0 <=? i) && (i <? m_len m)) with true by lia. reflexivity. Qed.

Lemma itoa_loop_S : forall f ptr max ret p v m, itoa_loop (S f) ptr max ret p v m =
  if v =? 0 then Some (ret, p, m)
  else
    let ret := ret + 1 in
    if ret >=? max then
      if p =? ptr then Some (ret, p, m)
      else match shl1 (Z.to_nat (p - ptr)) m ptr with
           | None => None
           | Some m1 => match wr m1 (p - 1) (48 + v mod 10) with
                        | None => None
                        | Some m2 => itoa_loop f ptr max ret p (v / 10) m2
                        end
           end
    else match wr m p (48 + v mod 10) with
         | None => None
         | Some m2 => itoa_loop f ptr max ret (p + 1) (v / 10) m2
         end.
Proof. reflexivity. Qed.

Lemma itoa_loop_spec : forall f ptr ret p v m, 0 <= v -> 0 <= p -> p + nd f v < m_len m -> ret + nd f v < 32 ->
  exists m', itoa_loop f ptr 32 ret p v m = Some (ret + nd f v, p + nd f v, m') /\ m_len m' = m_len m /\
    forall i, peek m' i = if (p <=? i) && (i <? p + nd f v) then 48 + dig v (i - p) else peek m i.
Proof.
  induction f as [|f IH]; intros ptr ret p v m Hv Hp Hlen Hret.
  - cbn [itoa_loop nd]. exists m. rewrite !Z.add_0_r. repeat split. intro i.
    replace ((p <=? i) && (i <? p)) with false by lia. reflexivity.
  - rewrite itoa_loop_S. cbn [nd] in *. destruct (v =? 0) eqn:E0.
    + exists m. rewrite !Z.add_0_r. repeat split. intro i.
      replace ((p <=? i) && (i <? p)) with false by lia. reflexivity.
    + cbv zeta. pose proof (nd_range f (v / 10)) as Hn.
      replace (ret + 1 >=? 32) with false by lia.
      destruct (wr_ok m p (48 + v mod 10) ltac:(lia)) as [m2 Hw]. rewrite Hw.
      assert (Hv10 : 0 <= v / 10) by (apply Z.div_pos; lia).
      pose proof (peek_wr _ _ _ _ 0 Hw) as [_ Hl2].
      destruct (IH ptr (ret + 1) (p + 1) (v / 10) m2 Hv10 ltac:(lia) ltac:(lia) ltac:(lia)) as (m' & Hrun & Hl & Hpk).
      exists m'. rewrite Hrun.
      replace (ret + 1 + nd f (v / 10)) with (ret + (1 + nd f (v / 10))) by lia.
      replace (p + 1 + nd f (v / 10)) with (p + (1 + nd f (v / 10))) by lia.
      split; [reflexivity|]. split; [lia|].
      intro i. rewrite Hpk. destruct (peek_wr _ _ _ _ i Hw) as [Hpi _]. rewrite Hpi.
      destruct (Z.eq_dec i p) as [->|Hne].
      * replace ((p + 1 <=? p) && (p <? p + 1 + nd f (v / 10))) with false by lia.
        rewrite Z.eqb_refl. replace ((p <=? p) && (p <? p + (1 + nd f (v / 10)))) with true by lia.
        rewrite Z.sub_diag, dig_0. reflexivity.
      * replace (p =? i) with false by lia.
        destruct ((p + 1 <=? i) && (i <? p + 1 + nd f (v / 10))) eqn:Er.
        -- replace ((p <=? i) && (i <? p + (1 + nd f (v / 10)))) with true by lia.
           rewrite dig_shift by lia. f_equal. f_equal. lia.
        -- replace ((p <=? i) && (i <? p + (1 + nd f (v / 10)))) with false by lia. reflexivity.
Qed.

Lemma rev_loop_S : forall f ptr p m, rev_loop (S f) ptr p m =
  if p >? ptr then
    let p := p - 1 in
    match rd m p, rd m ptr with
    | Some c, Some d =>
      match wr m p d with
      | Some m1 => match wr m1 ptr c with Some m2 => rev_loop f (ptr + 1) p m2 | None => None end
      | None => None
      end
    | _, _ => None
    end
  else Some m.
Proof. reflexivity. Qed.

Lemma rev_loop_spec : forall f ptr p m, 0 <= ptr -> p <= m_len m -> p - ptr <= 2 * Z.of_nat f ->
  exists m', rev_loop f ptr p m = Some m' /\ m_len m' = m_len m /\
    forall i, peek m' i = if (ptr <=? i) && (i <? p) then peek m (ptr + p - 1 - i) else peek m i.
Proof.
  induction f as [|f IH]; intros ptr p m Hptr Hp Hf.
  - cbn [rev_loop]. exists m. repeat split. intro i.
    replace ((ptr <=? i) && (i <? p)) with false by lia. reflexivity.
  - rewrite rev_loop_S. destruct (p >? ptr) eqn:E.
    + cbv zeta. rewrite !rd_peek by lia.
      destruct (wr_ok m (p - 1) (peek m ptr) ltac:(lia)) as [m1 Hw1]. rewrite Hw1.
      pose proof (peek_wr _ _ _ _ 0 Hw1) as [_ Hl1].
      destruct (wr_ok m1 ptr (peek m (p - 1)) ltac:(lia)) as [m2 Hw2]. rewrite Hw2.
      pose proof (peek_wr _ _ _ _ 0 Hw2) as [_ Hl2].
      destruct (IH (ptr + 1) (p - 1) m2 ltac:(lia) ltac:(lia) ltac:(lia)) as (m' & Hrun & Hl & Hpk).
      exists m'. rewrite Hrun. split; [reflexivity|]. split; [lia|].
      intro i. rewrite Hpk.
      assert (Hm2 : forall j, peek m2 j = if ptr =? j then peek m (p - 1) else if p - 1 =? j then peek m ptr else peek m j).
      { intro j. destruct (peek_wr _ _ _ _ j Hw2) as [-> _]. destruct (peek_wr _ _ _ _ j Hw1) as [-> _]. reflexivity. }
      rewrite !Hm2.
      destruct ((ptr + 1 <=? i) && (i <? p - 1)) eqn:Er.
      * replace ((ptr <=? i) && (i <? p)) with true by lia.
        replace (ptr =? ptr + 1 + (p - 1) - 1 - i) with false by lia.
        replace (p - 1 =? ptr + 1 + (p - 1) - 1 - i) with false by lia. f_equal. lia.
      * destruct (Z.eq_dec i ptr) as [->|Hn1].
        -- rewrite Z.eqb_refl. replace ((ptr <=? ptr) && (ptr <? p)) with true by lia. f_equal. lia.
        -- replace (ptr =? i) with false by lia. destruct (Z.eq_dec i (p - 1)) as [->|Hn2].
           ++ rewrite Z.eqb_refl. replace ((ptr <=? p - 1) && (p - 1 <? p)) with true by lia. f_equal. lia.
           ++ replace (p - 1 =? i) with false by lia.
              replace ((ptr <=? i) && (i <? p)) with false by lia. reflexivity.
    + exists m. repeat split. intro i. replace ((ptr <=? i) && (i <? p)) with false by lia. reflexivity.
Qed.

(* itoa_digits: digits of v > 0 most significant first at [ptr, ptr + k), NUL after them *)
Lemma itoa_digits_spec : forall v m ptr ret, 0 <= v -> 0 <= ptr -> ptr + 20 < m_len m -> m_len m = 32 -> 0 <= ret <= 1 ->
  let k := nd 20 v in
  exists m', itoa_digits v m 32 ptr ret = Some (ret + k, m') /\
    forall i, peek m' i = if (ptr <=? i) && (i <? ptr + k) then 48 + dig v (k - 1 - (i - ptr))
                          else if i =? ptr + k then 0 else peek m i.
Proof.
  intros v m ptr ret Hv Hptr Hlen H32 Hret k. unfold itoa_digits.
  pose proof (nd_range 20 v) as Hk. fold k in Hk. change (Z.of_nat 20) with 20 in Hk.
  destruct (itoa_loop_spec 20 ptr ret ptr v m Hv Hptr ltac:(fold k; lia) ltac:(fold k; lia)) as (m1 & Hrun & Hl1 & Hp1).
  fold k in Hrun, Hp1. rewrite Hrun.
  destruct (rev_loop_spec 20 ptr (ptr + k) m1 Hptr ltac:(lia) ltac:(change (Z.of_nat 20) with 20; lia)) as (m2 & Hrev & Hl2 & Hp2).
  rewrite Hrev.
  destruct (wr_ok m2 (ptr + k) 0 ltac:(lia)) as [m3 Hw]. rewrite Hw.
  exists m3. split; [reflexivity|]. intro i.
  destruct (peek_wr _ _ _ _ i Hw) as [-> _]. rewrite Hp2.
  destruct (Z.eq_dec i (ptr + k)) as [->|Hne].
  - rewrite Z.eqb_refl. replace ((ptr <=? ptr + k) && (ptr + k <? ptr + k)) with false by lia.
    reflexivity.
  - replace (ptr + k =? i) with false by lia. replace (i =? ptr + k) with false by lia.
    destruct ((ptr <=? i) && (i <? ptr + k)) eqn:Er.
    + rewrite Hp1. replace ((ptr <=? ptr + (ptr + k) - 1 - i) && (ptr + (ptr + k) - 1 - i <? ptr + k)) with true by lia.
      f_equal. f_equal. lia.
    + rewrite Hp1. rewrite Er. reflexivity.
Qed.

(* the reference text, index by index *)
Lemma zseq_snoc : forall n s, zseq s (S n) = zseq s n ++ [s + Z.of_nat n].
Proof.
  induction n as [|n IH]; intro s.
  - cbn. f_equal. lia.
  - change (zseq s (S (S n))) with (s :: zseq (s + 1) (S n)). rewrite IH. cbn [zseq app].
    f_equal. f_equal. f_equal. lia.
Qed.
Lemma zseq_len : forall n s, length (zseq s n) = n.
Proof. induction n; intro s; cbn; [reflexivity|rewrite IHn; reflexivity]. Qed.
Lemma zseq_bounds : forall n s x, In x (zseq s n) -> s <= x < s + Z.of_nat n.
Proof.
  induction n as [|n IH]; intros s x H; [destruct H|]. cbn [zseq] in H. destruct H as [<-|H]. lia.
  apply IH in H. lia.
Qed.

Lemma dec_pos_spec : forall f v acc, 0 <= v ->
  dec_pos f v acc = map (fun j => 48 + dig v (nd f v - 1 - j)) (zseq 0 (Z.to_nat (nd f v))) ++ acc.
Proof.
  induction f as [|f IH]; intros v acc Hv; [reflexivity|].
  cbn [dec_pos nd]. destruct (v =? 0) eqn:E0; [reflexivity|].
  pose proof (nd_range f (v / 10)) as Hn.
  rewrite IH by (apply Z.div_pos; lia).
  replace (Z.to_nat (1 + nd f (v / 10))) with (S (Z.to_nat (nd f (v / 10)))) by lia.
  rewrite zseq_snoc, map_app, <- app_assoc. cbn [map app]. f_equal.
  - apply map_ext_in. intros j Hj. apply zseq_bounds in Hj. rewrite dig_shift by lia. f_equal. f_equal. lia.
  - f_equal. rewrite Z2Nat.id by lia. replace (1 + nd f (v / 10) - 1 - (0 + nd f (v / 10))) with 0 by lia.
    rewrite dig_0. reflexivity.
Qed.

Lemma map_peek_zseq : forall (g : Z -> Z) n, map (fun i => g (Z.of_nat i)) (seq 0 n) = map g (zseq 0 n).
Proof.
  intros g n. assert (H : forall s, map (fun i => g (Z.of_nat i)) (seq s n) = map g (zseq (Z.of_nat s) n)).
  { induction n as [|n IH]; intro s; [reflexivity|]. cbn [seq map zseq]. f_equal. rewrite IH. f_equal. f_equal. lia. }
  apply (H O).
Qed.

Theorem write_int_dec : forall n, - 2 ^ 63 <= n < 2 ^ 63 -> write_int n = Ok (dec n).
Proof.
  intros n Hn. unfold write_int, itoa.
  assert (H32 : IWNUMBUF_SIZE = 32) by reflexivity. rewrite H32.
  change (32 <? 1) with false. change (1 >=? 32) with false. cbv iota.
  unfold dec. destruct (n =? 0) eqn:E0.
  { reflexivity. }
  destruct (n =? - 2 ^ 63) eqn:Emin.
  { assert (n = - 2 ^ 63) by lia. subst n. vm_compute. reflexivity. }
  destruct (n <? 0) eqn:Eneg.
  - destruct (wr_ok numbuf 0 45 ltac:(cbn; lia)) as [m0 Hw0]. rewrite Hw0.
    destruct (peek_wr _ _ _ _ 0 Hw0) as [_ Hl0]. change (m_len numbuf) with 32 in Hl0.
    destruct (itoa_digits_spec (- n) m0 1 1 ltac:(lia) ltac:(lia) ltac:(lia) Hl0 ltac:(lia)) as (m' & Hrun & Hpk).
    rewrite Hrun. f_equal. pose proof (nd_range 20 (- n)) as Hk.
    replace (Z.to_nat (1 + nd 20 (- n))) with (S (Z.to_nat (nd 20 (- n)))) by lia.
    cbn [seq map]. f_equal.
    + rewrite Hpk. change (Z.of_nat 0) with 0. replace ((1 <=? 0) && (0 <? 1 + nd 20 (- n))) with false by lia.
      replace (0 =? 1 + nd 20 (- n)) with false by lia. destruct (peek_wr _ _ _ _ 0 Hw0) as [-> _]. reflexivity.
    + rewrite dec_pos_spec by lia. rewrite app_nil_r.
      rewrite <- seq_shift, map_map.
      rewrite (map_ext _ (fun i => (fun z => peek m' (z + 1)) (Z.of_nat i))) by (intro a; cbv beta; f_equal; lia).
      rewrite (map_peek_zseq (fun z => peek m' (z + 1))).
      apply map_ext_in. intros j Hj. apply zseq_bounds in Hj. rewrite Hpk.
      replace ((1 <=? j + 1) && (j + 1 <? 1 + nd 20 (- n))) with true by lia. f_equal. f_equal. lia.
  - destruct (itoa_digits_spec n numbuf 0 0 ltac:(lia) ltac:(lia) ltac:(cbn; lia) eq_refl ltac:(lia)) as (m' & Hrun & Hpk).
    rewrite Hrun. f_equal. pose proof (nd_range 20 n) as Hk.
    rewrite dec_pos_spec by lia. rewrite app_nil_r. rewrite Z.add_0_l.
    rewrite (map_peek_zseq (peek m')).
    apply map_ext_in. intros j Hj. apply zseq_bounds in Hj. rewrite Hpk.
    replace ((0 <=? j) && (j <? 0 + nd 20 n)) with true by lia. f_equal. f_equal. lia.
Qed.

(* ================================================================ integers: strtoll reads the decimal text back *)
Definition isdig (c : Z) : Prop := 48 <= c <= 57.
Definition dstep (a c : Z) : Z := a * 10 + (c - 48).

(* what may follow a value: nothing, or one of , ] } newline space tab CR *)
Definition fol (rest : list Z) : Prop :=
  match rest with [] => True | c :: _ => c = 44 \/ c = 93 \/ c = 125 \/ c = 10 \/ c = 32 \/ c = 9 \/ c = 13 end.

Lemma dec_pos_app : forall f v acc, 0 <= v -> dec_pos f v acc = dec_pos f v [] ++ acc.
Proof. intros. rewrite (dec_pos_spec f v acc), (dec_pos_spec f v []) by assumption. rewrite app_nil_r. reflexivity. Qed.

Lemma dec_pos_digits : forall f v acc, 0 <= v -> Forall isdig acc -> Forall isdig (dec_pos f v acc).
Proof.
  induction f as [|f IH]; intros v acc Hv Ha; [exact Ha|].
  cbn [dec_pos]. destruct (v =? 0); [exact Ha|]. apply IH. apply Z.div_pos; lia.
  constructor; [unfold isdig; lia|exact Ha].
Qed.

Lemma dec_pos_value : forall f v, 0 <= v < 10 ^ Z.of_nat f -> fold_left dstep (dec_pos f v []) 0 = v.
Proof.
  induction f as [|f IH]; intros v Hv.
  - change (10 ^ Z.of_nat 0) with 1 in Hv. cbn. lia.
  - cbn [dec_pos]. destruct (v =? 0) eqn:E0; [cbn; lia|].
    rewrite Nat2Z.inj_succ, Z.pow_succ_r in Hv by lia.
    rewrite dec_pos_app by (apply Z.div_pos; lia).
    rewrite fold_left_app. rewrite IH by lia. cbn [fold_left]. unfold dstep. lia.
Qed.

Lemma dec_pos_head : forall f v acc, 0 < v < 10 ^ Z.of_nat f ->
  exists d t, dec_pos f v acc = d :: t /\ 49 <= d <= 57.
Proof.
  induction f as [|f IH]; intros v acc Hv.
  - change (10 ^ Z.of_nat 0) with 1 in Hv. lia.
  - cbn [dec_pos]. replace (v =? 0) with false by lia.
    rewrite Nat2Z.inj_succ, Z.pow_succ_r in Hv by lia.
    destruct (Z.eq_dec (v / 10) 0) as [Hz|Hnz].
    + rewrite Hz. destruct f; cbn [dec_pos Z.eqb]; eexists; eexists; (split; [reflexivity|lia]).
    + apply IH. lia.
Qed.

Lemma digit_val_dig : forall c, isdig c -> digit_val 10 c = c - 48.
Proof.
  intros c H. unfold isdig in H. unfold digit_val.
  replace ((48 <=? c) && (c <=? 57)) with true by lia. replace (c - 48 <? 10) with true by lia. reflexivity.
Qed.

Lemma ll_digits_app : forall ds tail a k, Forall isdig ds ->
  ll_digits 10 (ds ++ tail) a k = ll_digits 10 tail (fold_left dstep ds a) (k + length ds)%nat.
Proof.
  induction ds as [|c ds IH]; intros tail a k H.
  - cbn. f_equal. lia.
  - inversion H as [|? ? Hc Hds]; subst. cbn [app ll_digits fold_left length].
    rewrite digit_val_dig by exact Hc. cbv zeta. unfold isdig in Hc. replace (c - 48 <? 0) with false by lia.
    rewrite IH by exact Hds. unfold dstep at 2. f_equal. lia.
Qed.

Lemma fol_nodigit : forall base rest a k, base <= 36 -> fol rest -> ll_digits base rest a k = (a, k).
Proof.
  intros base rest a k Hb H. destruct rest as [|c r]; [reflexivity|]. cbn [fol] in H. cbn [ll_digits].
  assert (Hd : digit_val base c = -1).
  { unfold digit_val. destruct H as [ -> | [ -> | [ -> | [ -> | [ -> | [ -> | -> ]]]]]]; cbn [Z.leb Z.compare Pos.compare Pos.compare_cont andb];
      replace (99 <? base) with false by lia; reflexivity. }
  rewrite Hd. reflexivity.
Qed.

Lemma skipn_app_len : forall (a b : list Z), skipn (length a) (a ++ b) = b.
Proof. induction a; intro b; [reflexivity|]. cbn. apply IHa. Qed.

Lemma pow10_20 : 2 ^ 63 < 10 ^ Z.of_nat 20. Proof. vm_compute. reflexivity. Qed.

Lemma strtoll_dec : forall n rest, - 2 ^ 63 <= n < 2 ^ 63 -> fol rest ->
  strtoll0 (dec n ++ rest) = (n, length (dec n), false).
Proof.
  intros n rest Hn Hf. pose proof pow10_20 as P20. unfold dec.
  destruct (n =? 0) eqn:E0.
  { assert (n = 0) by lia. subst n. cbn [app]. unfold strtoll0. cbn [skip_space is_space Z.leb Z.eqb Z.compare andb orb Pos.compare Pos.compare_cont Pos.eqb].
    cbn [hd0 tl at0 nth Z.eqb Pos.eqb].
    assert (Hx : (at0 (48 :: rest) 1 =? 120) || (at0 (48 :: rest) 1 =? 88) = false).
    { destruct rest as [|c r]; [reflexivity|]. cbn [at0 nth]. cbn [fol] in Hf.
      destruct Hf as [ -> | [ -> | [ -> | [ -> | [ -> | [ -> | -> ]]]]]]; reflexivity. }
    cbn [at0 nth] in Hx. rewrite Hx. cbn [ll_digits]. change (digit_val 8 48) with 0. cbv zeta. change (0 <? 0) with false. cbv iota.
    rewrite (fol_nodigit 8 rest) by (lia || exact Hf). reflexivity. }
  assert (Hcore : forall m, 0 < m <= 2 ^ 63 -> forall (neg : bool) ks,
            (let '(base, s2, kp) := if hd0 (dec_pos 20 m [] ++ rest) =? 48
                 then if (at0 (dec_pos 20 m [] ++ rest) 1 =? 120) || (at0 (dec_pos 20 m [] ++ rest) 1 =? 88)
                      then (16, skipn 2 (dec_pos 20 m [] ++ rest), 2%nat) else (8, dec_pos 20 m [] ++ rest, 0%nat)
                 else (10, dec_pos 20 m [] ++ rest, 0%nat) in
             let '(n0, kd) := ll_digits base s2 0 0 in
             match kd with
             | O => match kp with O => (0, O, false) | _ => (0, S ks, false) end
             | _ => let v := if neg then - n0 else n0 in
                    let k := (ks + kp + kd)%nat in
                    if v <? - 2 ^ 63 then (- 2 ^ 63, k, true)
                    else if v >? 2 ^ 63 - 1 then (2 ^ 63 - 1, k, true) else (v, k, false)
             end) =
            (let v := if neg then - m else m in
             let k := (ks + length (dec_pos 20 m []))%nat in
             if v <? - 2 ^ 63 then (- 2 ^ 63, k, true)
             else if v >? 2 ^ 63 - 1 then (2 ^ 63 - 1, k, true) else (v, k, false))).
  { intros m Hm neg ks.
    destruct (dec_pos_head 20 m [] ltac:(lia)) as (d & t & Hdt & Hd).
    assert (Hdig : Forall isdig (dec_pos 20 m [])) by (apply dec_pos_digits; [lia|constructor]).
    assert (Hh : hd0 (dec_pos 20 m [] ++ rest) = d) by (rewrite Hdt; reflexivity).
    assert (Hlen : length (dec_pos 20 m []) = S (length t)) by (rewrite Hdt; reflexivity).
    rewrite Hh. replace (d =? 48) with false by lia. cbv beta iota.
    rewrite ll_digits_app by exact Hdig. rewrite dec_pos_value by lia.
    rewrite (fol_nodigit 10 rest) by (lia || exact Hf).
    rewrite Hlen. cbn [Nat.add]. cbv beta iota zeta.
    replace (ks + 0 + S (length t))%nat with (ks + S (length t))%nat by lia.
    reflexivity. }
  destruct (n <? 0) eqn:Eneg.
  - cbn [app]. assert (Hm : 0 < - n <= 2 ^ 63) by lia.
    etransitivity; [exact (Hcore (- n) Hm true 1%nat)|]. cbv zeta.
    rewrite !Z.opp_involutive.
    replace (n <? - 2 ^ 63) with false by lia. replace (n >? 2 ^ 63 - 1) with false by lia. reflexivity.
  - destruct (dec_pos_head 20 n [] ltac:(lia)) as (d & t & Hdt & Hd).
    unfold strtoll0.
    assert (Hsp : skip_space (dec_pos 20 n [] ++ rest) 0 = (dec_pos 20 n [] ++ rest, 0%nat)).
    { rewrite Hdt. cbn [app skip_space]. unfold is_space. replace ((9 <=? d) && (d <=? 13) || (d =? 32)) with false by lia. reflexivity. }
    rewrite Hsp.
    assert (Hh : hd0 (dec_pos 20 n [] ++ rest) = d) by (rewrite Hdt; reflexivity).
    replace (hd0 (dec_pos 20 n [] ++ rest) =? 45) with false by (rewrite Hh; lia).
    replace (hd0 (dec_pos 20 n [] ++ rest) =? 43) with false by (rewrite Hh; lia).
    assert (Hm : 0 < n <= 2 ^ 63) by lia.
    etransitivity; [exact (Hcore n Hm false 0%nat)|]. cbv beta iota zeta.
    replace (n <? - 2 ^ 63) with false by lia. replace (n >? 2 ^ 63 - 1) with false by lia. reflexivity.
Qed.

Lemma dec_nonempty : forall n, - 2 ^ 63 <= n < 2 ^ 63 ->
  exists c t, dec n = c :: t /\ (c = 45 \/ isdig c).
Proof.
  intros n Hn. pose proof pow10_20 as P20. unfold dec. destruct (n =? 0) eqn:E0.
  { eexists; eexists; split; [reflexivity|right; unfold isdig; lia]. }
  destruct (n <? 0) eqn:E1.
  { eexists; eexists; split; [reflexivity|left; reflexivity]. }
  destruct (dec_pos_head 20 n [] ltac:(lia)) as (d & t & Hdt & Hd).
  exists d, t. split; [exact Hdt|right; unfold isdig; lia].
Qed.

Section ParseNum.
  Variable ora : list Z -> Z * nat * bool.

  Lemma parse_number_dec : forall n rest, - 2 ^ 63 <= n < 2 ^ 63 -> fol rest ->
    parse_number ora (dec n ++ rest) = Ok (Some (JI64 n), rest).
  Proof.
    intros n rest Hn Hf. unfold parse_number.
    destruct (dec_nonempty n Hn) as (c & t & Hct & Hc).
    assert (Hh : hd0 (dec n ++ rest) = c) by (rewrite Hct; reflexivity).
    rewrite Hh. replace (c =? 46) with false by (unfold isdig in Hc; lia).
    rewrite strtoll_dec by assumption.
    assert (Hl : Nat.eqb (length (dec n)) 0 = false) by (rewrite Hct; reflexivity).
    rewrite Hl. cbn [negb andb orb]. rewrite skipn_app_len.
    assert (Hr : (hd0 rest =? 46) || (hd0 rest =? 101) || (hd0 rest =? 69) || (hd0 rest =? 45) || (hd0 rest =? 43) = false).
    { destruct rest as [|x r]; [reflexivity|]. cbn [fol] in Hf. cbn [hd0].
      destruct Hf as [ -> | [ -> | [ -> | [ -> | [ -> | [ -> | -> ]]]]]]; reflexivity. }
    rewrite Hr. reflexivity.
  Qed.
End ParseNum.

(* ================================================================ strings: what the printer writes is a valid body denoting the string *)
Lemma wstr_S : forall f pf s, wstr (S f) pf s =
  match s with
  | [] => Ok []
  | ch :: r =>
    let cont (pre : list Z) (s' : list Z) :=
      match wstr f pf s' with Ok t => Ok (pre ++ t) | Err e => Err e end in
    if (ch =? 34) || (ch =? 92) then cont [92; ch] r
    else if (8 <=? ch) && (ch <=? 13) && negb (ch =? 11) then cont [92; nth (Z.to_nat (ch - 8)) specials 0] r
    else if ch <? 32 then cont (u_esc ch) r
    else if isprint ch then cont [ch] r
    else if has pf JBL_PRINT_CODEPOINTS then
      match iterate s with
      | None => Err E_UTF8
      | Some (cp, sz) =>
        if cp >=? 65536 then
          let c' := cp - 65536 in
          cont (u_esc (Z.lor 55296 (Z.land (Z.shiftr c' 10) 1023)) ++ u_esc (Z.lor 56320 (Z.land c' 1023)))
               (skipn (Z.to_nat sz) s)
        else cont (u_esc cp) (skipn (Z.to_nat sz) s)
      end
    else cont [ch] r
  end.
Proof. reflexivity. Qed.

Lemma isprint_range : forall ch, 0 <= ch < 256 -> isprint ch = true -> 32 <= ch <= 126.
Proof.
  intros ch Hb Hp.
  assert (H := range_forall (fun b => negb (isprint b) || ((32 <=? b) && (b <=? 126))) 256 eq_refl ch Hb).
  cbv beta in H. rewrite Hp in H. cbn [negb orb] in H. lia.
Qed.

Lemma hexU_hex : forall n, 0 <= n < 16 -> hexv (hexU n) = n /\ is_hex (hexU n) /\ 48 <= hexU n <= 70.
Proof.
  intros n H. unfold is_hex, hexU, hexv. destruct (n <? 10) eqn:E.
  - replace ((48 <=? 48 + n) && (48 + n <=? 57)) with true by lia. lia.
  - replace ((48 <=? 55 + n) && (55 + n <=? 57)) with false by lia.
    replace ((65 <=? 55 + n) && (55 + n <=? 70)) with true by lia. lia.
Qed.

Lemma u_esc_item : forall x, 0 <= x < 65536 ->
  exists h1 h2 h3 h4, u_esc x = render (SU h1 h2 h3 h4) /\ is_hex h1 /\ is_hex h2 /\ is_hex h3 /\ is_hex h4 /\
                      cp4 h1 h2 h3 h4 = x.
Proof.
  intros x Hx. unfold u_esc.
  destruct (hexU_hex (x / 4096 mod 16) ltac:(lia)) as (V1 & I1 & _).
  destruct (hexU_hex (x / 256 mod 16) ltac:(lia)) as (V2 & I2 & _).
  destruct (hexU_hex (x / 16 mod 16) ltac:(lia)) as (V3 & I3 & _).
  destruct (hexU_hex (x mod 16) ltac:(lia)) as (V4 & I4 & _).
  do 4 eexists. split; [reflexivity|]. repeat (split; [assumption|]).
  unfold cp4. rewrite V1, V2, V3, V4. lia.
Qed.

Lemma Forall_skipn : forall (P : Z -> Prop) n l, Forall P l -> Forall P (skipn n l).
Proof. induction n; intros l H; [exact H|]. destruct l; [constructor|]. inversion H; subst. cbn. auto. Qed.

Lemma lor_d800 : forall y, 0 <= y < 1024 -> Z.lor 55296 y = 55296 + y.
Proof. intros. apply (lor_acc' 55296 10 1024); try reflexivity; lia. Qed.
Lemma lor_dc00 : forall y, 0 <= y < 1024 -> Z.lor 56320 y = 56320 + y.
Proof. intros. apply (lor_acc' 56320 10 1024); try reflexivity; lia. Qed.

Lemma item_rfc_ok : forall items, Forall item_rfc items -> Forall item_ok items.
Proof. intros items H. eapply Forall_impl; [|exact H]. intros i [Hi _]. exact Hi. Qed.

Lemma wstr_items : forall fuel pf s t, bytes_ok s -> (length s < fuel)%nat -> wstr fuel pf s = Ok t ->
  exists items, Forall item_rfc items /\ t = render_all items /\ denote_all items = s.
Proof.
  induction fuel as [|f IH]; intros pf s t Hb Hf H; [lia|].
  rewrite wstr_S in H. destruct s as [|ch r].
  { injection H as <-. exists []. repeat split. constructor. }
  inversion Hb as [|? ? Hch Hr]; subst. unfold byte_ok in Hch. cbn [length] in Hf. cbv zeta in H.
  (* the common continuation *)
  assert (Hcont : forall pre s' i, bytes_ok s' -> (length s' < f)%nat ->
            match wstr f pf s' with Ok t0 => Ok (pre ++ t0) | Err e => Err e end = Ok t ->
            item_rfc i -> render i = pre -> denote i ++ s' = ch :: r ->
            exists items, Forall item_rfc items /\ t = render_all items /\ denote_all items = ch :: r).
  { intros pre s' i Hb' Hl' Hw Hi Hre Hde. destruct (wstr f pf s') as [t0|e] eqn:Ew; [|discriminate].
    injection Hw as <-. destruct (IH pf s' t0 Hb' Hl' Ew) as (items & Hok & Ht & Hd).
    exists (i :: items). split; [constructor; assumption|]. unfold render_all, denote_all in *. cbn [flat_map].
    rewrite Hre, Hd, <- Ht. split; [reflexivity|exact Hde]. }
  destruct ((ch =? 34) || (ch =? 92)) eqn:E1.
  { apply (Hcont _ _ (SEsc ch) Hr ltac:(lia) H); [split; [cbn; lia|exact I]|reflexivity|].
    cbn [denote]. unfold esc_byte. assert (ch = 34 \/ ch = 92) as [-> | ->] by lia; reflexivity. }
  destruct ((8 <=? ch) && (ch <=? 13) && negb (ch =? 11)) eqn:E2.
  { assert (Hc : ch = 8 \/ ch = 9 \/ ch = 10 \/ ch = 12 \/ ch = 13) by lia.
    destruct Hc as [ -> | [ -> | [ -> | [ -> | -> ]]]].
    - apply (Hcont _ _ (SEsc 98) Hr ltac:(lia) H); [split; [cbn; lia|exact I]|reflexivity|reflexivity].
    - apply (Hcont _ _ (SEsc 116) Hr ltac:(lia) H); [split; [cbn; lia|exact I]|reflexivity|reflexivity].
    - apply (Hcont _ _ (SEsc 110) Hr ltac:(lia) H); [split; [cbn; lia|exact I]|reflexivity|reflexivity].
    - apply (Hcont _ _ (SEsc 102) Hr ltac:(lia) H); [split; [cbn; lia|exact I]|reflexivity|reflexivity].
    - apply (Hcont _ _ (SEsc 114) Hr ltac:(lia) H); [split; [cbn; lia|exact I]|reflexivity|reflexivity]. }
  destruct (ch <? 32) eqn:E3.
  { destruct (u_esc_item ch ltac:(lia)) as (h1 & h2 & h3 & h4 & Hre & I1 & I2 & I3 & I4 & Hcp).
    apply (Hcont _ _ (SU h1 h2 h3 h4) Hr ltac:(lia) H).
    - split; [|exact I]. cbn [item_ok]. rewrite Hcp. repeat (split; [assumption|]). lia.
    - symmetry. exact Hre.
    - cbn [denote]. rewrite Hcp. unfold utf8_enc. replace (ch <? 128) with true by lia. reflexivity. }
  destruct (isprint ch) eqn:E4.
  { pose proof (isprint_range ch ltac:(lia) E4) as Hp.
    apply (Hcont _ _ (SRaw ch) Hr ltac:(lia) H); [split; cbn; lia|reflexivity|reflexivity]. }
  destruct (has pf JBL_PRINT_CODEPOINTS) eqn:E5.
  - destruct (iterate (ch :: r)) as [[cp sz]|] eqn:Eit; [|discriminate].
    destruct (iterate_inv (ch :: r) cp sz Hb ltac:(discriminate) Eit) as (Hsc & Hsz & Henc).
    cbn [length] in Hsz.
    assert (Hb' : bytes_ok (skipn (Z.to_nat sz) (ch :: r))) by (apply Forall_skipn; exact Hb).
    assert (Hl' : (length (skipn (Z.to_nat sz) (ch :: r)) < f)%nat) by (rewrite skipn_length; cbn [length]; lia).
    assert (Hsplit : utf8_enc cp ++ skipn (Z.to_nat sz) (ch :: r) = ch :: r) by (rewrite Henc; apply firstn_skipn).
    unfold scalar in Hsc.
    destruct (cp >=? 65536) eqn:E6.
    + set (c' := cp - 65536) in *.
      assert (Hc' : 0 <= c' < 1048576) by (unfold c'; lia).
      rewrite land1023, shr_div in H by lia. change (2 ^ 10) with 1024 in H.
      rewrite land1023 in H. rewrite lor_d800, lor_dc00 in H by lia.
      destruct (u_esc_item (55296 + (c' / 1024) mod 1024) ltac:(lia)) as (h1 & h2 & h3 & h4 & Hre & I1 & I2 & I3 & I4 & Hcp).
      destruct (u_esc_item (56320 + c' mod 1024) ltac:(lia)) as (l1 & l2 & l3 & l4 & Hre2 & J1 & J2 & J3 & J4 & Hcp2).
      apply (Hcont _ _ (SPair h1 h2 h3 h4 l1 l2 l3 l4) Hb' Hl' H).
      * split; [|exact I]. cbn [item_ok]. rewrite Hcp, Hcp2. repeat (split; [assumption|]). lia.
      * rewrite Hre, Hre2. reflexivity.
      * cbn [denote]. rewrite Hcp, Hcp2.
        replace (65536 + (55296 + (c' / 1024) mod 1024 - 55296) * 1024 + (56320 + c' mod 1024 - 56320)) with cp by (unfold c'; lia).
        exact Hsplit.
    + destruct (u_esc_item cp ltac:(lia)) as (h1 & h2 & h3 & h4 & Hre & I1 & I2 & I3 & I4 & Hcp).
      apply (Hcont _ _ (SU h1 h2 h3 h4) Hb' Hl' H).
      * split; [|exact I]. cbn [item_ok]. rewrite Hcp. repeat (split; [assumption|]). lia.
      * symmetry. exact Hre.
      * cbn [denote]. rewrite Hcp. exact Hsplit.
  - apply (Hcont _ _ (SRaw ch) Hr ltac:(lia) H); [split; cbn; lia|reflexivity|reflexivity].
Qed.

(* without the code-point flag the string printer cannot fail *)
Lemma wstr_total : forall fuel pf s, has pf JBL_PRINT_CODEPOINTS = false -> (length s < fuel)%nat ->
  exists t, wstr fuel pf s = Ok t.
Proof.
  induction fuel as [|f IH]; intros pf s Hpf Hf; [lia|].
  rewrite wstr_S. destruct s as [|ch r]; [eauto|]. cbn [length] in Hf. cbv zeta. rewrite Hpf.
  destruct (IH pf r Hpf ltac:(lia)) as [t Ht]. rewrite Ht.
  repeat (match goal with |- context [if ?c then _ else _] => destruct c end); eauto.
Qed.

(* with the code-point flag every byte written is ASCII *)
Definition ascii (b : Z) : Prop := 0 <= b < 128.
Lemma u_esc_ascii : forall x, 0 <= x < 65536 -> Forall ascii (u_esc x).
Proof.
  intros x Hx. unfold u_esc.
  destruct (hexU_hex (x / 4096 mod 16) ltac:(lia)) as (_ & _ & R1).
  destruct (hexU_hex (x / 256 mod 16) ltac:(lia)) as (_ & _ & R2).
  destruct (hexU_hex (x / 16 mod 16) ltac:(lia)) as (_ & _ & R3).
  destruct (hexU_hex (x mod 16) ltac:(lia)) as (_ & _ & R4).
  repeat constructor; unfold ascii; lia.
Qed.

Lemma wstr_ascii : forall fuel pf s t, bytes_ok s -> has pf JBL_PRINT_CODEPOINTS = true ->
  wstr fuel pf s = Ok t -> Forall ascii t.
Proof.
  induction fuel as [|f IH]; intros pf s t Hb Hpf H; [discriminate|].
  rewrite wstr_S in H. destruct s as [|ch r]; [injection H as <-; constructor|].
  inversion Hb as [|? ? Hch Hr]; subst. unfold byte_ok in Hch. cbv zeta in H. rewrite Hpf in H.
  assert (Hcont : forall pre s', bytes_ok s' -> Forall ascii pre ->
            match wstr f pf s' with Ok t0 => Ok (pre ++ t0) | Err e => Err e end = Ok t -> Forall ascii t).
  { intros pre s' Hb' Hpre Hw. destruct (wstr f pf s') as [t0|e] eqn:Ew; [|discriminate]. injection Hw as <-.
    apply Forall_app. split; [exact Hpre|]. eapply IH; eauto. }
  destruct ((ch =? 34) || (ch =? 92)) eqn:E1.
  { apply (Hcont _ _ Hr) in H; [exact H|]. apply Forall_cons; [unfold ascii; lia|apply Forall_cons; [unfold ascii; lia|apply Forall_nil]]. }
  destruct ((8 <=? ch) && (ch <=? 13) && negb (ch =? 11)) eqn:E2.
  { apply (Hcont _ _ Hr) in H; [exact H|].
    assert (Hc : ch = 8 \/ ch = 9 \/ ch = 10 \/ ch = 12 \/ ch = 13) by lia.
    destruct Hc as [ -> | [ -> | [ -> | [ -> | -> ]]]]; (apply Forall_cons; [unfold ascii; lia|apply Forall_cons; [match goal with |- ascii ?x => let y := eval vm_compute in x in change x with y end; unfold ascii; lia|apply Forall_nil]]). }
  destruct (ch <? 32) eqn:E3.
  { apply (Hcont _ _ Hr) in H; [exact H|]. apply u_esc_ascii. lia. }
  destruct (isprint ch) eqn:E4.
  { pose proof (isprint_range ch ltac:(lia) E4) as Hp.
    apply (Hcont _ _ Hr) in H; [exact H|]. apply Forall_cons; [unfold ascii; lia|apply Forall_nil]. }
  destruct (iterate (ch :: r)) as [[cp sz]|] eqn:Eit; [|discriminate].
  destruct (iterate_inv (ch :: r) cp sz Hb ltac:(discriminate) Eit) as (Hsc & Hsz & Henc).
  assert (Hb' : bytes_ok (skipn (Z.to_nat sz) (ch :: r))) by (apply Forall_skipn; exact Hb).
  unfold scalar in Hsc.
  destruct (cp >=? 65536) eqn:E6.
  - set (c' := cp - 65536) in *.
    assert (Hc' : 0 <= c' < 1048576) by (unfold c'; lia).
    rewrite land1023, shr_div in H by lia. change (2 ^ 10) with 1024 in H.
    rewrite land1023 in H. rewrite lor_d800, lor_dc00 in H by lia.
    apply (Hcont _ _ Hb') in H; [exact H|]. apply Forall_app. split; apply u_esc_ascii; lia.
  - apply (Hcont _ _ Hb') in H; [exact H|]. apply u_esc_ascii. lia.
Qed.

(* ================================================================ structure: parse (print v) = v *)
Lemma parse_value_S : forall ora f lvl p, parse_value ora (S f) lvl p =
  if lvl >? JBL_MAX_NESTING_LEVEL then Err E_NEST else
  let p := skip_vws p in
  match p with
  | [] => Err E_JSON
  | c :: p1 =>
    if c =? 0 then Err E_JSON
    else if c =? 110 then if starts [110; 117; 108; 108] p then Ok (Some JNull, skipn 4 p) else Err E_JSON
    else if c =? 116 then if starts [116; 114; 117; 101] p then Ok (Some (JBool true), skipn 4 p) else Err E_JSON
    else if c =? 102 then if starts [102; 97; 108; 115; 101] p then Ok (Some (JBool false), skipn 5 p) else Err E_JSON
    else if c =? 39 then Err E_JSON
    else if c =? 34 then parse_string p1
    else if c =? 123 then parse_obj ora f lvl p1 []
    else if c =? 91 then parse_arr ora f lvl p1 []
    else if c =? 93 then Ok (None, p)
    else if (c =? 46) || (c =? 45) || ((48 <=? c) && (c <=? 57)) then parse_number ora p
    else Err E_JSON
  end.
Proof. reflexivity. Qed.

Lemma parse_arr_S : forall ora f lvl p acc, parse_arr ora (S f) lvl p acc =
  match parse_value ora f (lvl + 1) p with
  | Err e => Err e
  | Ok (ov, p') =>
    let acc' := match ov with Some v => acc ++ [v] | None => acc end in
    if hd0 p' =? 93 then Ok (Some (JArr acc'), tl p') else parse_arr ora f lvl p' acc'
  end.
Proof. reflexivity. Qed.

Lemma parse_obj_S : forall ora f lvl p acc, parse_obj ora (S f) lvl p acc =
  match parse_key p with
  | Err e => Err e
  | Ok (ok, p') =>
    if hd0 p' =? 125 then Ok (Some (JObj acc), tl p') else
    match parse_value ora f (lvl + 1) p' with
    | Err e => Err e
    | Ok (ov, p'') =>
      let acc' := match ov, ok with Some v, Some k => acc ++ [(k, v)] | _, _ => acc end in
      parse_obj ora f lvl p'' acc'
    end
  end.
Proof. reflexivity. Qed.

Definition vws (w : list Z) : Prop := Forall (fun c => is_vws c = true) w.
(* whitespace the key scanner skips: bytes 1..32 and the comma *)
Definition kws (w : list Z) : Prop := Forall (fun c => c = 32 \/ c = 10 \/ c = 44 \/ c = 9 \/ c = 13) w.

Lemma skip_vws_app : forall w c l, vws w -> is_vws c = false -> skip_vws (w ++ c :: l) = c :: l.
Proof.
  induction w as [|x w IH]; intros c l Hw Hc.
  - cbn [app skip_vws]. rewrite Hc. reflexivity.
  - inversion Hw as [|? ? Hx Hw']; subst. cbn [app skip_vws]. rewrite Hx. apply IH; assumption.
Qed.

Lemma rep_vws : forall n, vws (rep 32 n).
Proof. intro n. unfold rep. induction (Z.to_nat n); cbn [repeat]; constructor; [reflexivity|assumption]. Qed.
Lemma rep_kws : forall n, kws (rep 32 n).
Proof. intro n. unfold rep. induction (Z.to_nat n); cbn [repeat]; constructor; [left; reflexivity|assumption]. Qed.
Lemma kws_vws : forall w, kws w -> vws w.
Proof. intros w H. induction H as [|c w Hc Hw IH]; constructor; [|exact IH]. destruct Hc as [ -> | [ -> | [ -> | [ -> | -> ]]]]; reflexivity. Qed.

Lemma parse_key_skip : forall w l, kws w -> parse_key (w ++ l) = parse_key l.
Proof.
  induction w as [|x w IH]; intros l Hw; [reflexivity|].
  inversion Hw as [|? ? Hx Hw']; subst. cbn [app parse_key].
  destruct Hx as [ -> | [ -> | [ -> | [ -> | -> ]]]]; cbn; apply IH; assumption.
Qed.

(* ---------- strings and keys *)
Lemma wjs_inv : forall pf s t, write_json_string pf s = Ok t ->
  exists body, wstr (S (length s)) pf s = Ok body /\ t = 34 :: body ++ [34].
Proof.
  intros pf s t H. unfold write_json_string in H. destruct (wstr (S (length s)) pf s) as [b|e]; [|discriminate].
  injection H as <-. exists b. split; reflexivity.
Qed.

Lemma body_roundtrip : forall pf s body rest, bytes_ok s -> wstr (S (length s)) pf s = Ok body ->
  unescape 34 (body ++ 34 :: rest) 0 = Ok (Z.of_nat (length s), [], rest) /\
  unescape 34 (body ++ 34 :: rest) (Z.of_nat (length s)) = Ok (Z.of_nat (length s), s, rest).
Proof.
  intros pf s body rest Hb Hw.
  destruct (wstr_items (S (length s)) pf s body Hb (Nat.lt_succ_diag_r _) Hw) as (items & Hok & -> & <-).
  exact (unescape_correct items rest (item_rfc_ok _ Hok)).
Qed.

Lemma parse_string_print : forall pf s body rest, bytes_ok s -> wstr (S (length s)) pf s = Ok body ->
  parse_string (body ++ 34 :: rest) = Ok (Some (JStr s), rest).
Proof.
  intros pf s body rest Hb Hw. destruct (body_roundtrip pf s body rest Hb Hw) as [H1 H2].
  unfold parse_string. rewrite H1. destruct (Z.of_nat (length s) =? 0) eqn:E.
  - assert (s = []) by (destruct s; [reflexivity|exfalso; apply Z.eqb_eq in E; cbn [length] in E; lia]). subst s. reflexivity.
  - rewrite H2. rewrite Z.eqb_refl. reflexivity.
Qed.

Lemma key_body_print : forall pf k body rest, bytes_ok k -> wstr (S (length k)) pf k = Ok body ->
  key_body (body ++ 34 :: 58 :: rest) = Ok (Some k, rest).
Proof.
  intros pf k body rest Hb Hw. destruct (body_roundtrip pf k body (58 :: rest) Hb Hw) as [H1 H2].
  unfold key_body. rewrite H1, H2. rewrite Z.eqb_refl. cbn [negb skip_ws32]. reflexivity.
Qed.

(* ---------- the printer with its inner loops named *)
Section RoundTrip.
  Variable ora : list Z -> Z * nat * bool.
  Variable fo : Z -> list Z.
  Variable pf : Z.

  Definition ind (lvl : Z) : list Z := if pretty pf then rep 32 (lvl * indent pf + indent pf) else [].
  Definition cind (lvl : Z) : list Z := if pretty pf then rep 32 (lvl * indent pf) else [].
  Definition nl : list Z := if pretty pf then [10] else [].
  Definition colon : list Z := if pretty pf then [58; 32] else [58].
  Definition sepc {A} (r : list A) : list Z := match r with [] => [] | _ => [44] end.

  Fixpoint pitems (lvl : Z) (l : list jval) : res (list Z) :=
    match l with
    | [] => Ok []
    | x :: r => bind2 (print_node fo pf (lvl + 1) x) (pitems lvl r)
                      (fun a b => ind lvl ++ a ++ sepc r ++ nl ++ b)
    end.
  Fixpoint pmembers (lvl : Z) (l : list (list Z * jval)) : res (list Z) :=
    match l with
    | [] => Ok []
    | (k, x) :: r =>
      match write_json_string pf k with
      | Err e => Err e
      | Ok kt => bind2 (print_node fo pf (lvl + 1) x) (pmembers lvl r)
                       (fun a b => ind lvl ++ kt ++ colon ++ a ++ sepc r ++ nl ++ b)
      end
    end.

  Lemma print_arr_eq : forall lvl items, print_node fo pf lvl (JArr items) =
    match pitems lvl items with
    | Err e => Err e
    | Ok body => Ok (([91] ++ match items with [] => [] | _ => nl end) ++ body
                     ++ (match items with [] => [] | _ => cind lvl end) ++ [93])
    end.
  Proof.
    intros lvl items. cbn [print_node].
    match goal with |- match ?g items with _ => _ end = _ =>
      assert (Hg : forall l, g l = pitems lvl l)
        by (induction l as [|x r IHl]; [reflexivity | cbn [pitems]; rewrite <- IHl; reflexivity]);
      rewrite Hg end.
    reflexivity.
  Qed.

  Lemma print_obj_eq : forall lvl members, print_node fo pf lvl (JObj members) =
    match pmembers lvl members with
    | Err e => Err e
    | Ok body => Ok (([123] ++ match members with [] => [] | _ => nl end) ++ body
                     ++ (match members with [] => [] | _ => cind lvl end) ++ [125])
    end.
  Proof.
    intros lvl members. cbn [print_node].
    match goal with |- match ?g members with _ => _ end = _ =>
      assert (Hg : forall l, g l = pmembers lvl l)
        by (induction l as [|[k x] r IHl]; [reflexivity | cbn [pmembers]; rewrite <- IHl; reflexivity]);
      rewrite Hg end.
    reflexivity.
  Qed.

  (* first byte of a printed value *)
  Definition first_ok (c : Z) : Prop :=
    c = 110 \/ c = 116 \/ c = 102 \/ c = 34 \/ c = 45 \/ isdig c \/ c = 91 \/ c = 123.

  Lemma print_first : forall lvl v t, wf v -> print_node fo pf lvl v = Ok t ->
    exists c t', t = c :: t' /\ first_ok c.
  Proof.
    intros lvl v t Hwf H. unfold first_ok. destruct v as [|b|n|b|s|items|members].
    - cbn in H. injection H as <-. eauto 10.
    - destruct b; cbn in H; injection H as <-; eauto 10.
    - cbn [print_node] in H. cbn [wf] in Hwf. rewrite write_int_dec in H by exact Hwf. injection H as <-.
      destruct (dec_nonempty n Hwf) as (c & t' & -> & [ -> | Hd ]); eauto 12.
    - destruct Hwf.
    - cbn [print_node] in H. apply wjs_inv in H. destruct H as (body & _ & ->). eauto 10.
    - rewrite print_arr_eq in H. destruct (pitems lvl items); [|discriminate]. injection H as <-. cbn [app]. eauto 12.
    - rewrite print_obj_eq in H. destruct (pmembers lvl members); [|discriminate]. injection H as <-. cbn [app]. eauto 12.
  Qed.
End RoundTrip.

Lemma jsize_pos : forall v, (1 <= jsize v)%nat.
Proof. destruct v; cbn [jsize]; lia. Qed.

Lemma fold_max_nonneg : forall (A : Type) (g : A -> Z) l, 0 <= fold_right (fun x a => Z.max (g x) a) 0 l.
Proof. intros A g l. induction l as [|x l IH]; cbn [fold_right]; lia. Qed.

Section RoundTrip2.
  Variable ora : list Z -> Z * nat * bool.
  Variable fo : Z -> list Z.
  Variable pf : Z.

  Notation pitems := (pitems fo pf). Notation pmembers := (pmembers fo pf).
  Notation ind := (ind pf). Notation cind := (cind pf). Notation nl := (nl pf). Notation colon := (colon pf).

  Definition P (v : jval) : Prop :=
    forall lvl fuel w rest t, wf v -> print_node fo pf lvl v = Ok t -> vws w -> fol rest -> 0 <= lvl ->
      lvl + depth v <= JBL_MAX_NESTING_LEVEL -> (2 * jsize v + 1 <= fuel)%nat ->
      parse_value ora fuel lvl (w ++ t ++ rest) = Ok (Some v, rest).

  Lemma bind2_inv : forall a b k t, bind2 a b k = Ok t -> exists x y, a = Ok x /\ b = Ok y /\ t = k x y.
  Proof.
    intros a b k t H. unfold bind2 in H. destruct a as [x|]; [|discriminate]. destruct b as [y|]; [|discriminate].
    injection H as <-. eauto.
  Qed.

  Lemma first_ok_facts : forall c, first_ok c ->
    is_vws c = false /\ c <> 0 /\ c <> 125 /\ c <> 93 /\ c <> 239 /\ c <> 32.
  Proof.
    intros c H. unfold first_ok, isdig in H. unfold is_vws.
    repeat split; lia.
  Qed.

  Lemma arr_end : forall f lvl w rest acc, vws w -> lvl + 1 <= JBL_MAX_NESTING_LEVEL ->
    parse_arr ora (S (S f)) lvl (w ++ 93 :: rest) acc = Ok (Some (JArr acc), rest).
  Proof.
    intros f lvl w rest acc Hw Hl. rewrite parse_arr_S, parse_value_S.
    replace (lvl + 1 >? JBL_MAX_NESTING_LEVEL) with false by lia. cbv zeta.
    rewrite skip_vws_app by (assumption || reflexivity). cbn. reflexivity.
  Qed.

  Lemma fol_close_arr : forall lvl rest, fol (nl ++ cind lvl ++ 93 :: rest).
  Proof.
    intros. unfold Text_proofs.nl, Text_proofs.cind. destruct (pretty pf); cbn [app fol]; auto.
  Qed.
  Lemma fol_close_obj : forall lvl rest, fol (nl ++ cind lvl ++ 125 :: rest).
  Proof.
    intros. unfold Text_proofs.nl, Text_proofs.cind. destruct (pretty pf); cbn [app fol]; auto.
  Qed.
  Lemma ind_kws : forall lvl, kws (ind lvl).
  Proof. intro. unfold Text_proofs.ind. destruct (pretty pf); [apply rep_kws|constructor]. Qed.
  Lemma cind_kws : forall lvl, kws (cind lvl).
  Proof. intro. unfold Text_proofs.cind. destruct (pretty pf); [apply rep_kws|constructor]. Qed.
  Lemma nl_kws : kws nl.
  Proof. unfold Text_proofs.nl. destruct (pretty pf); [apply Forall_cons; [right; left; reflexivity|apply Forall_nil]|apply Forall_nil]. Qed.
  Lemma kws_app : forall a b, kws a -> kws b -> kws (a ++ b).
  Proof. intros. apply Forall_app. split; assumption. Qed.
  Lemma sepc_kws : forall A (r : list A), kws (sepc r).
  Proof. intros A r. destruct r; [apply Forall_nil|apply Forall_cons; [right; right; left; reflexivity|apply Forall_nil]]. Qed.

  Section Loops.
    Variable n : nat.
    Hypothesis IHn : forall v, (jsize v <= n)%nat -> P v.

    Lemma arr_loop : forall lvl rest, 0 <= lvl ->
      forall items acc w f body, items <> [] ->
        fold_right (fun x a => wf x /\ a) True items -> pitems lvl items = Ok body -> vws w ->
        (fold_right (fun x a => jsize x + a) 0 items <= n)%nat ->
        lvl + 1 + fold_right (fun x a => Z.max (depth x) a) 0 items <= JBL_MAX_NESTING_LEVEL ->
        (2 * fold_right (fun x a => jsize x + a) 0 items + 2 <= f)%nat ->
        parse_arr ora f lvl (w ++ body ++ cind lvl ++ 93 :: rest) acc = Ok (Some (JArr (acc ++ items)), rest).
    Proof.
      intros lvl rest Hlvl. induction items as [|x r IHr]; intros acc w f body Hne Hwf Hbody Hw Hsz Hd Hf; [congruence|].
      cbn [fold_right] in *. destruct Hwf as [Hwx Hwr]. pose proof (jsize_pos x) as Hjx.
      cbn [Text_proofs.pitems] in Hbody. apply bind2_inv in Hbody. destruct Hbody as (a & b & Hpa & Hpb & ->).
      destruct f as [|f']; [lia|]. rewrite parse_arr_S.
      set (rest1 := sepc r ++ nl ++ b ++ cind lvl ++ 93 :: rest).
      replace (w ++ (ind lvl ++ a ++ sepc r ++ nl ++ b) ++ cind lvl ++ 93 :: rest) with ((w ++ ind lvl) ++ a ++ rest1)
        by (unfold rest1; rewrite <- !app_assoc; reflexivity).
      assert (Hfol : fol rest1).
      { unfold rest1. destruct r as [|y r']; [|cbn [sepc app fol]; auto].
        cbn [Text_proofs.pitems] in Hpb. injection Hpb as <-. cbn [sepc app]. apply fol_close_arr. }
      rewrite (IHn x ltac:(lia) (lvl + 1) f' (w ++ ind lvl) rest1 a Hwx Hpa); try assumption; try lia.
      2: { apply Forall_app. split; [assumption|apply kws_vws, ind_kws]. }
      cbv zeta.
      destruct r as [|y r'].
      - cbn [fold_right] in Hd, Hf, Hsz. cbn [Text_proofs.pitems] in Hpb. injection Hpb as <-. unfold rest1. cbn [sepc app].
        unfold Text_proofs.nl, Text_proofs.cind. destruct (pretty pf) eqn:Epr.
        + cbn [app hd0]. change (10 =? 93) with false. cbv iota.
          pose proof (jsize_pos x) as Hjp. destruct f' as [|[|f'']]; [lia|lia|].
          change (10 :: rep 32 (lvl * indent pf) ++ 93 :: rest) with ((10 :: rep 32 (lvl * indent pf)) ++ 93 :: rest).
          apply arr_end; [|lia]. constructor; [reflexivity|apply rep_vws].
        + cbn [app hd0 tl]. rewrite Z.eqb_refl. reflexivity.
      - assert (Hh : hd0 rest1 =? 93 = false) by (unfold rest1; reflexivity). rewrite Hh.
        unfold rest1.
        replace (sepc (y :: r') ++ nl ++ b ++ cind lvl ++ 93 :: rest) with ((sepc (y :: r') ++ nl) ++ b ++ cind lvl ++ 93 :: rest)
          by (rewrite <- !app_assoc; reflexivity).
        rewrite (IHr (acc ++ [x]) (sepc (y :: r') ++ nl) f' b); try assumption; try lia; try discriminate.
        + rewrite <- app_assoc. reflexivity.
        + apply kws_vws, kws_app; [apply sepc_kws|apply nl_kws].
    Qed.

    Lemma obj_loop : forall lvl rest, 0 <= lvl ->
      forall members acc w f body c, kws c -> fol (nl ++ c ++ 125 :: rest) ->
        fold_right (fun kx a => (let '(k, x) := kx in bytes_ok k /\ wf x) /\ a) True members ->
        pmembers lvl members = Ok body -> kws w ->
        (fold_right (fun kx a => (let '(_, x) := kx in jsize x) + a) 0 members <= n)%nat ->
        lvl + 1 + fold_right (fun kx a => Z.max (let '(_, x) := kx in depth x) a) 0 members <= JBL_MAX_NESTING_LEVEL ->
        (2 * fold_right (fun kx a => (let '(_, x) := kx in jsize x) + a) 0 members + 2 <= f)%nat ->
        parse_obj ora f lvl (w ++ body ++ c ++ 125 :: rest) acc = Ok (Some (JObj (acc ++ members)), rest).
    Proof.
      intros lvl rest Hlvl. induction members as [|[k x] r IHr]; intros acc w f body c Hc Hfc Hwf Hbody Hw Hsz Hd Hf.
      - cbn [Text_proofs.pmembers] in Hbody. injection Hbody as <-. cbn [app].
        destruct f as [|f']; [cbn in Hf; lia|]. rewrite parse_obj_S.
        rewrite app_assoc. rewrite parse_key_skip by (apply kws_app; assumption).
        cbn [parse_key]. cbn. rewrite app_nil_r. reflexivity.
      - cbn [fold_right] in *. destruct Hwf as [[Hbk Hwx] Hwr]. pose proof (jsize_pos x) as Hjx.
        cbn [Text_proofs.pmembers] in Hbody. destruct (write_json_string pf k) as [kt|] eqn:Ekt; [|discriminate].
        apply bind2_inv in Hbody. destruct Hbody as (a & b & Hpa & Hpb & ->).
        apply wjs_inv in Ekt. destruct Ekt as (kb & Hkb & ->).
        destruct f as [|f']; [lia|]. rewrite parse_obj_S.
        set (rest1 := sepc r ++ nl ++ b ++ c ++ 125 :: rest).
        set (w2 := if pretty pf then [32] else [] : list Z).
        replace (w ++ (ind lvl ++ (34 :: kb ++ [34]) ++ colon ++ a ++ sepc r ++ nl ++ b) ++ c ++ 125 :: rest)
          with ((w ++ ind lvl) ++ 34 :: kb ++ 34 :: 58 :: w2 ++ a ++ rest1).
        2: { unfold rest1, w2, Text_proofs.colon. destruct (pretty pf); cbn [app]; rewrite <- !app_assoc; cbn [app];
             repeat (f_equal; try (rewrite <- !app_assoc; cbn [app])). }
        rewrite parse_key_skip by (apply kws_app; [assumption|apply ind_kws]).
        cbn [parse_key]. cbn [Z.eqb Pos.eqb].
        rewrite (key_body_print pf k kb _ Hbk Hkb).
        destruct (print_first fo pf (lvl + 1) x a Hwx Hpa) as (c0 & a' & -> & Hc0).
        destruct (first_ok_facts c0 Hc0) as (_ & _ & H125 & _ & _ & _).
        assert (Hh : hd0 (w2 ++ (c0 :: a') ++ rest1) =? 125 = false).
        { unfold w2. destruct (pretty pf); cbn [app hd0]; [reflexivity|lia]. }
        rewrite Hh.
        assert (Hfol : fol rest1).
        { unfold rest1. destruct r as [|y r']; [|cbn [sepc app fol]; auto].
          cbn [Text_proofs.pmembers] in Hpb. injection Hpb as <-. cbn [sepc app]. exact Hfc. }
        rewrite (IHn x ltac:(lia) (lvl + 1) f' w2 rest1 (c0 :: a') Hwx Hpa); try assumption; try lia.
        2: { unfold w2. destruct (pretty pf); repeat constructor. }
        cbv zeta. unfold rest1.
        replace (sepc r ++ nl ++ b ++ c ++ 125 :: rest) with ((sepc r ++ nl) ++ b ++ c ++ 125 :: rest)
          by (rewrite <- !app_assoc; reflexivity).
        rewrite (IHr (acc ++ [(k, x)]) (sepc r ++ nl) f' b c); try assumption; try lia.
        + rewrite <- app_assoc. reflexivity.
        + apply kws_app; [apply sepc_kws|apply nl_kws].
    Qed.
  End Loops.
End RoundTrip2.

Section RoundTrip3.
  Variable ora : list Z -> Z * nat * bool.
  Variable fo : Z -> list Z.
  Variable pf : Z.

  Lemma max_level : JBL_MAX_NESTING_LEVEL = 999. Proof. reflexivity. Qed.

  Lemma parse_print_all : forall n v, (jsize v <= n)%nat -> P ora fo pf v.
  Proof.
    induction n as [|n IHn]; intros v Hn.
    { pose proof (jsize_pos v). lia. }
    unfold P. intros lvl fuel w rest t Hwf Hp Hw Hfol Hlvl Hd Hf.
    destruct fuel as [|f]; [lia|]. rewrite parse_value_S.
    assert (Hdv : 0 <= depth v).
    { destruct v; cbn [depth]; try lia.
      - pose proof (fold_max_nonneg _ depth items). lia.
      - pose proof (fold_max_nonneg _ (fun kx : list Z * jval => let '(_, x) := kx in depth x) members). lia. }
    replace (lvl >? JBL_MAX_NESTING_LEVEL) with false by lia. cbv zeta.
    destruct v as [|b|i|b|s|items|members].
    - (* null *)
      cbn in Hp. injection Hp as <-. cbn [app]. rewrite skip_vws_app by (assumption || reflexivity). reflexivity.
    - (* bool *)
      destruct b; cbn in Hp; injection Hp as <-; cbn [app]; rewrite skip_vws_app by (assumption || reflexivity); reflexivity.
    - (* integer *)
      cbn [print_node] in Hp. cbn [wf] in Hwf. rewrite write_int_dec in Hp by exact Hwf. injection Hp as <-.
      destruct (dec_nonempty i Hwf) as (c & t' & Hct & Hc).
      rewrite Hct. cbn [app]. rewrite skip_vws_app; [|assumption|unfold is_vws, isdig in *; lia].
      assert (Hnum : parse_number ora (c :: t' ++ rest) = Ok (Some (JI64 i), rest)).
      { change (c :: t' ++ rest) with ((c :: t') ++ rest). rewrite <- Hct. apply parse_number_dec; assumption. }
      unfold isdig in Hc.
      replace (c =? 0) with false by lia. replace (c =? 110) with false by lia. replace (c =? 116) with false by lia.
      replace (c =? 102) with false by lia. replace (c =? 39) with false by lia. replace (c =? 34) with false by lia.
      replace (c =? 123) with false by lia. replace (c =? 91) with false by lia. replace (c =? 93) with false by lia.
      replace ((c =? 46) || (c =? 45) || ((48 <=? c) && (c <=? 57))) with true by lia.
      exact Hnum.
    - destruct Hwf.
    - (* string *)
      cbn [print_node] in Hp. cbn [wf] in Hwf. apply wjs_inv in Hp. destruct Hp as (body & Hb & ->).
      cbn [app]. rewrite skip_vws_app by (assumption || reflexivity).
      cbn [Z.eqb Pos.eqb]. rewrite <- app_assoc. cbn [app].
      apply (parse_string_print pf); assumption.
    - (* array *)
      rewrite print_arr_eq in Hp. destruct (pitems fo pf lvl items) as [body|] eqn:Eb; [|discriminate].
      injection Hp as <-. cbn [wf depth jsize] in *. cbn [app]. rewrite <- ?app_assoc. cbn [app].
      rewrite skip_vws_app by (assumption || reflexivity). cbn [Z.eqb Pos.eqb].
      destruct items as [|x r].
      + cbn [Text_proofs.pitems] in Eb. injection Eb as <-. cbn [app]. cbn [fold_right] in *.
        destruct f as [|[|f']]; [lia|lia|].
        change (93 :: rest) with ([] ++ 93 :: rest). apply arr_end; try exact fo; try exact pf; [constructor|lia].
      + assert (IH' : forall v, (jsize v <= n)%nat -> P ora fo pf v) by (intros; apply IHn; assumption).
        rewrite <- ?app_assoc.
        apply (arr_loop ora fo pf n IH' lvl rest Hlvl (x :: r) [] (nl pf) f body); try assumption; try lia; try discriminate.
        apply kws_vws, nl_kws.
    - (* object *)
      rewrite print_obj_eq in Hp. destruct (pmembers fo pf lvl members) as [body|] eqn:Eb; [|discriminate].
      injection Hp as <-. cbn [wf depth jsize] in *. cbn [app]. rewrite <- ?app_assoc. cbn [app].
      rewrite skip_vws_app by (assumption || reflexivity). cbn [Z.eqb Pos.eqb].
      assert (IH' : forall v, (jsize v <= n)%nat -> P ora fo pf v) by (intros; apply IHn; assumption).
      rewrite <- ?app_assoc.
      destruct members as [|m r].
      + change ([] ++ body ++ [] ++ 125 :: rest) with ([] ++ body ++ [] ++ 125 :: rest).
        apply (obj_loop ora fo pf n IH' lvl rest Hlvl [] [] [] f body []); try assumption; try lia; try constructor.
        change ([] ++ 125 :: rest) with ((cind pf lvl ++ []) ++ 125 :: rest) || idtac.
        unfold Text_proofs.nl. destruct (pretty pf); cbn [app fol]; auto.
      + apply (obj_loop ora fo pf n IH' lvl rest Hlvl (m :: r) [] (nl pf) f body (cind pf lvl)); try assumption; try lia.
        * apply cind_kws.
        * apply fol_close_obj.
        * apply nl_kws.
  Qed.
End RoundTrip3.

(* ================================================================ induction principle for trees *)
Lemma jval_ind2 : forall Q : jval -> Prop,
  Q JNull -> (forall b, Q (JBool b)) -> (forall n, Q (JI64 n)) -> (forall b, Q (JF64 b)) -> (forall s, Q (JStr s)) ->
  (forall l, Forall Q l -> Q (JArr l)) ->
  (forall l, Forall (fun kx : list Z * jval => Q (snd kx)) l -> Q (JObj l)) ->
  forall v, Q v.
Proof.
  intros Q Hn Hb Hi Hf Hs Ha Ho. fix IH 1. intros [|b|n|b|s|l|l].
  - exact Hn. - apply Hb. - apply Hi. - apply Hf. - apply Hs.
  - apply Ha. induction l as [|x r IHl]; constructor; [apply IH|exact IHl].
  - apply Ho. induction l as [|[k x] r IHl]; constructor; [apply IH|exact IHl].
Qed.

Section PrintFacts.
  Variable fo : Z -> list Z.
  Variable pf : Z.
  Notation pitems := (pitems fo pf). Notation pmembers := (pmembers fo pf).

  Lemma dec_ascii : forall n, - 2 ^ 63 <= n < 2 ^ 63 -> Forall ascii (dec n).
  Proof.
    intros n Hn. unfold dec. destruct (n =? 0); [repeat constructor; unfold ascii; lia|].
    assert (Hd : forall m, 0 <= m -> Forall ascii (dec_pos 20 m [])).
    { intros m Hm. pose proof (dec_pos_digits 20 m [] Hm ltac:(constructor)) as H.
      eapply Forall_impl; [|exact H]. unfold isdig, ascii. intros; lia. }
    destruct (n <? 0) eqn:E; [constructor; [unfold ascii; lia|]|]; apply Hd; lia.
  Qed.

  Lemma rep_ascii : forall n, Forall ascii (rep 32 n).
  Proof. intro n. unfold rep. induction (Z.to_nat n); cbn [repeat]; constructor; [unfold ascii; lia|assumption]. Qed.

  Ltac asc := repeat (first [ assumption | apply Forall_nil | apply rep_ascii
                            | apply Forall_cons; [unfold ascii; lia|] | apply Forall_app; split ]).

  Lemma wjs_ascii : forall s t, bytes_ok s -> has pf JBL_PRINT_CODEPOINTS = true -> write_json_string pf s = Ok t -> Forall ascii t.
  Proof.
    intros s t Hb Hcp H. apply wjs_inv in H. destruct H as (body & Hw & ->).
    apply Forall_cons; [unfold ascii; lia|]. apply Forall_app. split; [eapply wstr_ascii; eauto|].
    apply Forall_cons; [unfold ascii; lia|apply Forall_nil].
  Qed.

  (* (4) with JBL_PRINT_CODEPOINTS every byte written is below 128 *)
  Lemma print_ascii : forall v lvl t, wf v -> has pf JBL_PRINT_CODEPOINTS = true ->
    print_node fo pf lvl v = Ok t -> Forall ascii t.
  Proof.
    intro v. induction v as [|b|n|b|s|l IHl|l IHl] using jval_ind2; intros lvl t Hwf Hcp Hp.
    - cbn in Hp. injection Hp as <-. asc.
    - destruct b; cbn in Hp; injection Hp as <-; asc.
    - cbn [print_node wf] in *. rewrite write_int_dec in Hp by exact Hwf. injection Hp as <-. apply dec_ascii; exact Hwf.
    - destruct Hwf.
    - cbn [print_node wf] in *. eapply wjs_ascii; eauto.
    - rewrite print_arr_eq in Hp. destruct (pitems lvl l) as [body|] eqn:Eb; [|discriminate]. injection Hp as <-.
      assert (Hbody : Forall ascii body).
      { clear - IHl Hwf Eb Hcp. cbn [wf] in Hwf. revert body Eb. induction l as [|x r IHr]; intros body Eb.
        - cbn in Eb. injection Eb as <-. constructor.
        - cbn [Text_proofs.pitems] in Eb. apply bind2_inv in Eb. destruct Eb as (a & b & Ha & Hb & ->).
          inversion IHl as [|? ? Hx Hr]; subst. cbn [fold_right] in Hwf. destruct Hwf as [Hwx Hwr].
          pose proof (Hx _ _ Hwx Hcp Ha) as Ha'. pose proof (IHr Hr Hwr _ Hb) as Hb'.
          unfold ind, nl. destruct (pretty pf), r; cbn [sepc]; asc. }
      unfold nl, cind. destruct l, (pretty pf); asc.
    - rewrite print_obj_eq in Hp. destruct (pmembers lvl l) as [body|] eqn:Eb; [|discriminate]. injection Hp as <-.
      assert (Hbody : Forall ascii body).
      { clear - IHl Hwf Eb Hcp. cbn [wf] in Hwf. revert body Eb. induction l as [|[k x] r IHr]; intros body Eb.
        - cbn in Eb. injection Eb as <-. constructor.
        - cbn [Text_proofs.pmembers] in Eb. destruct (write_json_string pf k) as [kt|] eqn:Ek; [|discriminate].
          apply bind2_inv in Eb. destruct Eb as (a & b & Ha & Hb & ->).
          inversion IHl as [|? ? Hx Hr]; subst. cbn [snd] in Hx. cbn [fold_right] in Hwf. destruct Hwf as [[Hbk Hwx] Hwr].
          assert (Hkt : Forall ascii kt) by (eapply wjs_ascii; eauto).
          pose proof (Hx _ _ Hwx Hcp Ha) as Ha'. pose proof (IHr Hr Hwr _ Hb) as Hb'.
          unfold ind, nl, colon. destruct (pretty pf), r; cbn [sepc]; asc. }
      unfold nl, cind. destruct l, (pretty pf); asc.
  Qed.

  (* every node prints at least one byte *)
  Lemma print_len : forall v lvl t, wf v -> print_node fo pf lvl v = Ok t -> (jsize v <= length t)%nat.
  Proof.
    intro v. induction v as [|b|n|b|s|l IHl|l IHl] using jval_ind2; intros lvl t Hwf Hp;
      try (destruct (print_first fo pf lvl _ t Hwf Hp) as (c & t' & -> & _); cbn [jsize length]; lia).
    - rewrite print_arr_eq in Hp. destruct (pitems lvl l) as [body|] eqn:Eb; [|discriminate]. injection Hp as <-.
      assert (Hbody : (fold_right (fun x a => jsize x + a) 0 l <= length body)%nat).
      { clear - IHl Hwf Eb. cbn [wf] in Hwf. revert body Eb. induction l as [|x r IHr]; intros body Eb.
        - cbn. lia.
        - cbn [Text_proofs.pitems] in Eb. apply bind2_inv in Eb. destruct Eb as (a & b & Ha & Hb & ->).
          inversion IHl as [|? ? Hx Hr]; subst. cbn [fold_right] in *. destruct Hwf as [Hwx Hwr].
          specialize (Hx _ _ Hwx Ha). specialize (IHr Hr Hwr _ Hb). rewrite !app_length. lia. }
      cbn [jsize length]. rewrite !app_length. cbn [length]. lia.
    - rewrite print_obj_eq in Hp. destruct (pmembers lvl l) as [body|] eqn:Eb; [|discriminate]. injection Hp as <-.
      assert (Hbody : (fold_right (fun kx a => (let '(_, x) := kx in jsize x) + a) 0 l <= length body)%nat).
      { clear - IHl Hwf Eb. cbn [wf] in Hwf. revert body Eb. induction l as [|[k x] r IHr]; intros body Eb.
        - cbn. lia.
        - cbn [Text_proofs.pmembers] in Eb. destruct (write_json_string pf k) as [kt|] eqn:Ek; [|discriminate].
          apply bind2_inv in Eb. destruct Eb as (a & b & Ha & Hb & ->).
          inversion IHl as [|? ? Hx Hr]; subst. cbn [snd] in Hx. cbn [fold_right] in *. destruct Hwf as [[Hbk Hwx] Hwr].
          specialize (Hx _ _ Hwx Ha). specialize (IHr Hr Hwr _ Hb). rewrite !app_length. lia. }
      cbn [jsize length]. rewrite !app_length. cbn [length]. lia.
  Qed.

  (* without the code-point flag printing never fails *)
  Lemma wjs_total : forall s, has pf JBL_PRINT_CODEPOINTS = false -> exists t, write_json_string pf s = Ok t.
  Proof.
    intros s H. unfold write_json_string. destruct (wstr_total (S (length s)) pf s H ltac:(lia)) as [t ->]. eauto.
  Qed.

  Lemma print_total : forall v lvl, wf v -> has pf JBL_PRINT_CODEPOINTS = false -> exists t, print_node fo pf lvl v = Ok t.
  Proof.
    intro v. induction v as [|b|n|b|s|l IHl|l IHl] using jval_ind2; intros lvl Hwf Hcp.
    - cbn. eauto.
    - destruct b; cbn; eauto.
    - cbn [print_node wf] in *. rewrite write_int_dec by exact Hwf. eauto.
    - destruct Hwf.
    - cbn [print_node]. apply wjs_total; assumption.
    - rewrite print_arr_eq.
      assert (Hb : exists body, pitems lvl l = Ok body).
      { clear - IHl Hwf Hcp. cbn [wf] in Hwf. induction l as [|x r IHr]; [cbn; eauto|].
        inversion IHl as [|? ? Hx Hr]; subst. cbn [fold_right] in Hwf. destruct Hwf as [Hwx Hwr].
        destruct (Hx (lvl + 1) Hwx Hcp) as [a Ha]. destruct (IHr Hr Hwr) as [b Hb].
        cbn [Text_proofs.pitems]. rewrite Ha, Hb. cbn. eauto. }
      destruct Hb as [body ->]. eauto.
    - rewrite print_obj_eq.
      assert (Hb : exists body, pmembers lvl l = Ok body).
      { clear - IHl Hwf Hcp. cbn [wf] in Hwf. induction l as [|[k x] r IHr]; [cbn; eauto|].
        inversion IHl as [|? ? Hx Hr]; subst. cbn [snd] in Hx. cbn [fold_right] in Hwf. destruct Hwf as [[Hbk Hwx] Hwr].
        destruct (Hx (lvl + 1) Hwx Hcp) as [a Ha]. destruct (IHr Hr Hwr) as [b Hb].
        destruct (wjs_total k Hcp) as [kt Hk].
        cbn [Text_proofs.pmembers]. rewrite Hk, Ha, Hb. cbn. eauto. }
      destruct Hb as [body ->]. eauto.
  Qed.
End PrintFacts.

(* ================================================================ top level *)
Theorem print_parse : forall ora fo pf v t, wf v -> depth v <= JBL_MAX_NESTING_LEVEL ->
  as_json fo pf v = Ok t -> from_json ora t = Ok (Some v).
Proof.
  intros ora fo pf v t Hwf Hd Hp. unfold as_json in Hp. unfold from_json.
  destruct (print_first fo pf 0 v t Hwf Hp) as (c & t' & Ht & Hc).
  destruct (first_ok_facts ora fo c Hc) as (_ & _ & _ & _ & H239 & _).
  assert (Hbom : skip_bom t = t).
  { unfold skip_bom. rewrite Ht. cbn [at0 nth]. replace (c =? 239) with false by lia. reflexivity. }
  rewrite Hbom.
  pose proof (print_len fo pf v 0 t Hwf Hp) as Hlen.
  pose proof (parse_print_all ora fo pf (jsize v) v (le_n _)) as HP. unfold P in HP.
  specialize (HP 0 (parse_fuel t) [] [] t Hwf Hp ltac:(constructor) I ltac:(lia) ltac:(lia)).
  rewrite app_nil_r in HP. cbn [app] in HP. rewrite HP; [reflexivity|]. unfold parse_fuel. lia.
Qed.

(* ================================================================ T1: the printer's per-byte behaviour table regenerated from the source *)
Lemma bytes_eqb_eq : forall a b, bytes_eqb a b = true -> a = b.
Proof.
  induction a as [|x a IH]; intros [|y b] H; try discriminate; [reflexivity|].
  cbn [bytes_eqb] in H. apply andb_true_iff in H. destruct H as [H1 H2]. apply Z.eqb_eq in H1. subst. f_equal. auto.
Qed.
Definition ok_eqb (r : res (list Z)) (l : list Z) : bool :=
  match r with Ok t => bytes_eqb t l | Err _ => false end.
Lemma ok_eqb_eq : forall r l, ok_eqb r l = true -> r = Ok l.
Proof. intros [t|e] l H; [|discriminate]. cbn in H. apply bytes_eqb_eq in H. subst. reflexivity. Qed.

Theorem esc_table_agrees : forall b, 0 <= b < 256 ->
  write_json_string 0 [b] = Ok (nth (Z.to_nat b) jtext_esc_tbl []).
Proof.
  intros b Hb. apply ok_eqb_eq.
  assert (Hs : forallb (fun b => ok_eqb (write_json_string 0 [b]) (nth (Z.to_nat b) jtext_esc_tbl [])) (zseq 0 (Z.to_nat 256)) = true)
    by (vm_compute; reflexivity).
  exact (range_forall _ _ Hs b Hb).
Qed.

Theorem esc_cp_table_agrees : forall b, 0 <= b < 128 ->
  write_json_string JBL_PRINT_CODEPOINTS [b] = Ok (nth (Z.to_nat b) jtext_esc_cp_tbl []).
Proof.
  intros b Hb. apply ok_eqb_eq.
  assert (Hs : forallb (fun b => ok_eqb (write_json_string JBL_PRINT_CODEPOINTS [b]) (nth (Z.to_nat b) jtext_esc_cp_tbl []))
                       (zseq 0 (Z.to_nat 128)) = true) by (vm_compute; reflexivity).
  exact (range_forall _ _ Hs b Hb).
Qed.

(* ================================================================ (3) every text of the reference grammar is parsed to the value it denotes *)
Lemma ws_vws : forall w, ws w -> vws w.
Proof. intros w H. induction H as [|c w Hc Hw IH]; constructor; [|exact IH]. destruct Hc as [ -> | [ -> | [ -> | -> ]]]; reflexivity. Qed.
Lemma ws_kws : forall w, ws w -> kws w.
Proof. intros w H. induction H as [|c w Hc Hw IH]; constructor; [|exact IH]. destruct Hc as [ -> | [ -> | [ -> | -> ]]]; auto 6. Qed.
Lemma vws_app : forall a b, vws a -> vws b -> vws (a ++ b).
Proof. intros. apply Forall_app. split; assumption. Qed.

Lemma skip_ws32_app : forall w c l, ws w -> 32 < c -> skip_ws32 (w ++ c :: l) = c :: l.
Proof.
  induction w as [|x w IH]; intros c l Hw Hc.
  - cbn [app skip_ws32]. unfold is_ws32. replace (c <=? 32) with false by lia. rewrite andb_false_r. reflexivity.
  - inversion Hw as [|? ? Hx Hw']; subst. cbn [app skip_ws32].
    destruct Hx as [ -> | [ -> | [ -> | -> ]]]; cbn; apply IH; assumption.
Qed.

Lemma fol_ws_then : forall w c l, ws w -> (c = 44 \/ c = 93 \/ c = 125) -> fol (w ++ c :: l).
Proof.
  intros w c l Hw Hc. destruct w as [|x w]; cbn [app fol].
  - destruct Hc as [ -> | [ -> | -> ]]; auto.
  - inversion Hw as [|? ? Hx _]; subst. destruct Hx as [ -> | [ -> | [ -> | -> ]]]; auto 8.
Qed.

Lemma parse_string_items : forall items rest, Forall item_ok items ->
  parse_string (render_all items ++ 34 :: rest) = Ok (Some (JStr (denote_all items)), rest).
Proof.
  intros items rest Hok. destruct (unescape_correct items rest Hok) as [H1 H2].
  unfold parse_string. rewrite H1. destruct (Z.of_nat (length (denote_all items)) =? 0) eqn:E.
  - assert (Hnil : denote_all items = []).
    { destruct (denote_all items); [reflexivity|exfalso; apply Z.eqb_eq in E; cbn [length] in E; lia]. }
    rewrite Hnil. reflexivity.
  - rewrite H2. rewrite Z.eqb_refl. reflexivity.
Qed.

Lemma key_body_items : forall items w rest, Forall item_ok items -> ws w ->
  key_body (render_all items ++ 34 :: w ++ 58 :: rest) = Ok (Some (denote_all items), rest).
Proof.
  intros items w rest Hok Hw. destruct (unescape_correct items (w ++ 58 :: rest) Hok) as [H1 H2].
  unfold key_body. rewrite H1, H2. rewrite Z.eqb_refl. cbn [negb].
  rewrite skip_ws32_app by (assumption || lia). reflexivity.
Qed.

Lemma strtoll_negzero : forall rest, fol rest -> strtoll0 ([45; 48] ++ rest) = (0, 2%nat, false).
Proof.
  intros rest Hf. cbn [app]. unfold strtoll0.
  cbn [skip_space is_space Z.leb Z.eqb Z.compare andb orb Pos.compare Pos.compare_cont Pos.eqb hd0 tl].
  assert (Hx : (at0 (48 :: rest) 1 =? 120) || (at0 (48 :: rest) 1 =? 88) = false).
  { destruct rest as [|c r]; [reflexivity|]. cbn [at0 nth]. cbn [fol] in Hf.
    destruct Hf as [ -> | [ -> | [ -> | [ -> | [ -> | [ -> | -> ]]]]]]; reflexivity. }
  cbn [at0 nth] in Hx. cbn [at0 nth]. rewrite Hx. cbn [ll_digits]. change (digit_val 8 48) with 0. cbv zeta.
  change (0 <? 0) with false. cbv iota.
  rewrite (fol_nodigit 8 rest) by (lia || exact Hf). reflexivity.
Qed.

Section Grammar.
  Variable ora : list Z -> Z * nat * bool.

  Lemma int_tok_parse : forall t n rest, int_tok t n -> fol rest ->
    parse_number ora (t ++ rest) = Ok (Some (JI64 n), rest) /\ (- 2 ^ 63 <= n < 2 ^ 63) /\
    exists c t', t = c :: t' /\ (c = 45 \/ isdig c).
  Proof.
    intros t n rest Ht Hf. destruct Ht as [n Hn|].
    - split; [apply parse_number_dec; assumption|]. split; [exact Hn|]. apply dec_nonempty; exact Hn.
    - split; [|split; [lia|eauto]].
      unfold parse_number. rewrite strtoll_negzero by exact Hf. cbn [app hd0 at0 nth skipn Nat.eqb negb andb orb Z.eqb Pos.eqb].
      assert (Hr : (hd0 rest =? 46) || (hd0 rest =? 101) || (hd0 rest =? 69) || (hd0 rest =? 45) || (hd0 rest =? 43) = false).
      { destruct rest as [|x r]; [reflexivity|]. cbn [fol] in Hf. cbn [hd0].
        destruct Hf as [ -> | [ -> | [ -> | [ -> | [ -> | [ -> | -> ]]]]]]; reflexivity. }
      rewrite Hr. reflexivity.
  Qed.

  Lemma denotes_first : forall t v, denotes t v -> exists c t', t = c :: t' /\ first_ok c.
  Proof.
    intros t v H. unfold first_ok. destruct H; try (eexists; eexists; split; [reflexivity|]; auto 10; fail).
    destruct H as [n Hn|].
    - destruct (dec_nonempty n Hn) as (c & t' & -> & [ -> | Hd ]); eauto 12.
    - eauto 12.
  Qed.

  Lemma obj_end : forall f lvl w rest acc, kws w ->
    parse_obj ora (S f) lvl (w ++ 125 :: rest) acc = Ok (Some (JObj acc), rest).
  Proof.
    intros f lvl w rest acc Hw. rewrite parse_obj_S. rewrite parse_key_skip by exact Hw. cbn. reflexivity.
  Qed.

  Definition Pd (t : list Z) (v : jval) : Prop :=
    forall lvl fuel w rest, vws w -> fol rest -> 0 <= lvl -> lvl + depth v <= JBL_MAX_NESTING_LEVEL ->
      (2 * jsize v + 1 <= fuel)%nat -> parse_value ora fuel lvl (w ++ t ++ rest) = Ok (Some v, rest).
  Definition Pe (ts : list Z) (l : list jval) : Prop :=
    forall lvl fuel w rest acc, vws w -> 0 <= lvl ->
      lvl + 1 + fold_right (fun x a => Z.max (depth x) a) 0 l <= JBL_MAX_NESTING_LEVEL ->
      (2 * fold_right (fun x a => jsize x + a) 0 l + 2 <= fuel)%nat ->
      parse_arr ora fuel lvl (w ++ ts ++ 93 :: rest) acc = Ok (Some (JArr (acc ++ l)), rest).
  Definition Pm (ts : list Z) (l : list (list Z * jval)) : Prop :=
    forall lvl fuel w rest acc, kws w -> 0 <= lvl ->
      lvl + 1 + fold_right (fun kx a => Z.max (let '(_, x) := kx in depth x) a) 0 l <= JBL_MAX_NESTING_LEVEL ->
      (2 * fold_right (fun kx a => (let '(_, x) := kx in jsize x) + a) 0 l + 2 <= fuel)%nat ->
      parse_obj ora fuel lvl (w ++ ts ++ 125 :: rest) acc = Ok (Some (JObj (acc ++ l)), rest).

  Lemma depth_nonneg : forall v, 0 <= depth v.
  Proof.
    destruct v; cbn [depth]; try lia.
    - pose proof (fold_max_nonneg _ depth items). lia.
    - pose proof (fold_max_nonneg _ (fun kx : list Z * jval => let '(_, x) := kx in depth x) members). lia.
  Qed.

  Ltac enter lvl :=
    match goal with |- parse_value _ ?fuel _ _ = _ => destruct fuel as [|f]; [cbn [jsize] in *; lia|] end;
    rewrite parse_value_S; replace (lvl >? JBL_MAX_NESTING_LEVEL) with false by lia; cbv zeta.

  Lemma grammar_all :
    (forall t v, denotes t v -> Pd t v) /\ (forall ts l, elems ts l -> Pe ts l) /\ (forall ts l, members ts l -> Pm ts l).
  Proof.
    apply denotes_mutind.
    - (* null *) intros lvl fuel w rest Hw Hf Hl Hd Hfu. cbn [depth] in Hd. enter lvl.
      cbn [app]. rewrite skip_vws_app by (assumption || reflexivity). reflexivity.
    - intros lvl fuel w rest Hw Hf Hl Hd Hfu. cbn [depth] in Hd. enter lvl.
      cbn [app]. rewrite skip_vws_app by (assumption || reflexivity). reflexivity.
    - intros lvl fuel w rest Hw Hf Hl Hd Hfu. cbn [depth] in Hd. enter lvl.
      cbn [app]. rewrite skip_vws_app by (assumption || reflexivity). reflexivity.
    - (* integer *) intros t n Ht lvl fuel w rest Hw Hf Hl Hd Hfu. cbn [depth] in Hd. enter lvl.
      destruct (int_tok_parse t n rest Ht Hf) as (Hnum & Hn & c & t' & -> & Hc).
      cbn [app]. rewrite skip_vws_app; [|assumption|unfold is_vws, isdig in *; lia].
      change (c :: t' ++ rest) with ((c :: t') ++ rest). unfold isdig in Hc.
      replace (c =? 0) with false by lia. replace (c =? 110) with false by lia. replace (c =? 116) with false by lia.
      replace (c =? 102) with false by lia. replace (c =? 39) with false by lia. replace (c =? 34) with false by lia.
      replace (c =? 123) with false by lia. replace (c =? 91) with false by lia. replace (c =? 93) with false by lia.
      replace ((c =? 46) || (c =? 45) || ((48 <=? c) && (c <=? 57))) with true by lia.
      exact Hnum.
    - (* string *) intros items Hit lvl fuel w rest Hw Hf Hl Hd Hfu. cbn [depth] in Hd. enter lvl.
      cbn [app]. rewrite skip_vws_app by (assumption || reflexivity). cbn [Z.eqb Pos.eqb].
      rewrite <- app_assoc. cbn [app]. apply parse_string_items. apply item_rfc_ok; exact Hit.
    - (* [] *) intros w0 Hw0 lvl fuel w rest Hw Hf Hl Hd Hfu. cbn [depth fold_right jsize] in *. enter lvl.
      cbn [app]. rewrite skip_vws_app by (assumption || reflexivity). cbn [Z.eqb Pos.eqb].
      rewrite <- app_assoc. cbn [app]. destruct f as [|[|f']]; [lia|lia|].
      apply (arr_end ora (fun _ => [])); [apply ws_vws; exact Hw0|lia].
    - (* [ elems ] *) intros ts l He IHe lvl fuel w rest Hw Hf Hl Hd Hfu. cbn [depth jsize] in *.
      pose proof (fold_max_nonneg _ depth l) as Hml. enter lvl.
      cbn [app]. rewrite skip_vws_app by (assumption || reflexivity). cbn [Z.eqb Pos.eqb].
      rewrite <- app_assoc. cbn [app].
      apply (IHe lvl f [] rest []); [constructor|assumption|lia|lia].
    - (* {} *) intros w0 Hw0 lvl fuel w rest Hw Hf Hl Hd Hfu. cbn [depth fold_right jsize] in *. enter lvl.
      cbn [app]. rewrite skip_vws_app by (assumption || reflexivity). cbn [Z.eqb Pos.eqb].
      rewrite <- app_assoc. cbn [app]. destruct f as [|f']; [lia|].
      apply obj_end. apply ws_kws; exact Hw0.
    - (* { members } *) intros ts l Hm IHm lvl fuel w rest Hw Hf Hl Hd Hfu. cbn [depth jsize] in *.
      pose proof (fold_max_nonneg _ (fun kx : list Z * jval => let '(_, x) := kx in depth x) l) as Hml. enter lvl.
      cbn [app]. rewrite skip_vws_app by (assumption || reflexivity). cbn [Z.eqb Pos.eqb].
      rewrite <- app_assoc. cbn [app].
      apply (IHm lvl f [] rest []); [constructor|assumption|lia|lia].
    - (* one element *) intros w1 t v w2 Hw1 Hd IHd Hw2 lvl fuel w rest acc Hw Hl Hdp Hfu.
      cbn [fold_right] in *. pose proof (jsize_pos v) as Hjp. pose proof (depth_nonneg v) as Hdv.
      destruct fuel as [|f]; [lia|]. rewrite parse_arr_S.
      replace (w ++ (w1 ++ t ++ w2) ++ 93 :: rest) with ((w ++ w1) ++ t ++ (w2 ++ 93 :: rest))
        by (rewrite <- !app_assoc; reflexivity).
      rewrite (IHd (lvl + 1) f (w ++ w1) (w2 ++ 93 :: rest)); try lia.
      2: { apply vws_app; [assumption|apply ws_vws; assumption]. }
      2: { apply fol_ws_then; auto. }
      cbv zeta. destruct w2 as [|c2 w2'].
      + cbn [app hd0 tl]. rewrite Z.eqb_refl. reflexivity.
      + inversion Hw2 as [|? ? Hc2 Hw2']; subst.
        assert (Hh : hd0 ((c2 :: w2') ++ 93 :: rest) =? 93 = false).
        { cbn [app hd0]. destruct Hc2 as [ -> | [ -> | [ -> | -> ]]]; reflexivity. }
        rewrite Hh. destruct f as [|[|f']]; [lia|lia|].
        apply (arr_end ora (fun _ => [])); [apply ws_vws; exact Hw2|lia].
    - (* element , elems *) intros w1 t v w2 ts l Hw1 Hd IHd Hw2 He IHe lvl fuel w rest acc Hw Hl Hdp Hfu.
      cbn [fold_right] in *. pose proof (jsize_pos v) as Hjp. pose proof (depth_nonneg v) as Hdv.
      pose proof (fold_max_nonneg _ depth l) as Hml.
      destruct fuel as [|f]; [lia|]. rewrite parse_arr_S.
      replace (w ++ (w1 ++ t ++ w2 ++ 44 :: ts) ++ 93 :: rest) with ((w ++ w1) ++ t ++ (w2 ++ 44 :: ts ++ 93 :: rest))
        by (rewrite <- !app_assoc; cbn [app]; reflexivity).
      rewrite (IHd (lvl + 1) f (w ++ w1) (w2 ++ 44 :: ts ++ 93 :: rest)); try lia.
      2: { apply vws_app; [assumption|apply ws_vws; assumption]. }
      2: { apply fol_ws_then; auto. }
      cbv zeta.
      assert (Hh : hd0 (w2 ++ 44 :: ts ++ 93 :: rest) =? 93 = false).
      { destruct w2 as [|c2 w2']; [reflexivity|]. inversion Hw2 as [|? ? Hc2 _]; subst. cbn [app hd0].
        destruct Hc2 as [ -> | [ -> | [ -> | -> ]]]; reflexivity. }
      rewrite Hh.
      replace (w2 ++ 44 :: ts ++ 93 :: rest) with ((w2 ++ [44]) ++ ts ++ 93 :: rest) by (rewrite <- app_assoc; reflexivity).
      rewrite (IHe lvl f (w2 ++ [44]) rest (acc ++ [v])); try lia.
      + rewrite <- app_assoc. reflexivity.
      + apply vws_app; [apply ws_vws; assumption|repeat constructor].
    - (* one member *) intros w1 items w2 w3 t v w4 Hw1 Hit Hw2 Hw3 Hd IHd Hw4 lvl fuel w rest acc Hw Hl Hdp Hfu.
      cbn [fold_right] in *. pose proof (jsize_pos v) as Hjp. pose proof (depth_nonneg v) as Hdv.
      destruct fuel as [|f]; [lia|]. rewrite parse_obj_S.
      replace (w ++ (w1 ++ (34 :: render_all items ++ [34]) ++ w2 ++ 58 :: w3 ++ t ++ w4) ++ 125 :: rest)
        with ((w ++ w1) ++ 34 :: render_all items ++ 34 :: w2 ++ 58 :: (w3 ++ t ++ (w4 ++ 125 :: rest))).
      2: { repeat (rewrite <- ?app_assoc; cbn [app]; f_equal); reflexivity. }
      rewrite parse_key_skip by (apply kws_app; [assumption|apply ws_kws; assumption]).
      cbn [parse_key]. cbn [Z.eqb Pos.eqb].
      rewrite key_body_items by (try apply item_rfc_ok; assumption).
      destruct (denotes_first t v Hd) as (c0 & t0 & -> & Hc0).
      destruct (first_ok_facts ora (fun _ => []) c0 Hc0) as (_ & _ & H125 & _ & _ & _).
      assert (Hh : hd0 (w3 ++ (c0 :: t0) ++ w4 ++ 125 :: rest) =? 125 = false).
      { destruct w3 as [|c3 w3']; cbn [app hd0]; [lia|]. inversion Hw3 as [|? ? Hc3 _]; subst.
        destruct Hc3 as [ -> | [ -> | [ -> | -> ]]]; reflexivity. }
      rewrite Hh.
      rewrite (IHd (lvl + 1) f w3 (w4 ++ 125 :: rest)); try lia.
      2: { apply ws_vws; assumption. }
      2: { apply fol_ws_then; auto. }
      cbv zeta. destruct f as [|f']; [lia|].
      apply obj_end. apply ws_kws; assumption.
    - (* member , members *)
      intros w1 items w2 w3 t v w4 ts l Hw1 Hit Hw2 Hw3 Hd IHd Hw4 Hm IHm lvl fuel w rest acc Hw Hl Hdp Hfu.
      cbn [fold_right] in *. pose proof (jsize_pos v) as Hjp. pose proof (depth_nonneg v) as Hdv.
      pose proof (fold_max_nonneg _ (fun kx : list Z * jval => let '(_, x) := kx in depth x) l) as Hml.
      destruct fuel as [|f]; [lia|]. rewrite parse_obj_S.
      replace (w ++ (w1 ++ (34 :: render_all items ++ [34]) ++ w2 ++ 58 :: w3 ++ t ++ w4 ++ 44 :: ts) ++ 125 :: rest)
        with ((w ++ w1) ++ 34 :: render_all items ++ 34 :: w2 ++ 58 :: (w3 ++ t ++ (w4 ++ 44 :: ts ++ 125 :: rest))).
      2: { repeat (rewrite <- ?app_assoc; cbn [app]; f_equal); reflexivity. }
      rewrite parse_key_skip by (apply kws_app; [assumption|apply ws_kws; assumption]).
      cbn [parse_key]. cbn [Z.eqb Pos.eqb].
      rewrite key_body_items by (try apply item_rfc_ok; assumption).
      destruct (denotes_first t v Hd) as (c0 & t0 & -> & Hc0).
      destruct (first_ok_facts ora (fun _ => []) c0 Hc0) as (_ & _ & H125 & _ & _ & _).
      assert (Hh : hd0 (w3 ++ (c0 :: t0) ++ w4 ++ 44 :: ts ++ 125 :: rest) =? 125 = false).
      { destruct w3 as [|c3 w3']; cbn [app hd0]; [lia|]. inversion Hw3 as [|? ? Hc3 _]; subst.
        destruct Hc3 as [ -> | [ -> | [ -> | -> ]]]; reflexivity. }
      rewrite Hh.
      rewrite (IHd (lvl + 1) f w3 (w4 ++ 44 :: ts ++ 125 :: rest)); try lia.
      2: { apply ws_vws; assumption. }
      2: { apply fol_ws_then; auto. }
      cbv zeta.
      replace (w4 ++ 44 :: ts ++ 125 :: rest) with ((w4 ++ [44]) ++ ts ++ 125 :: rest) by (rewrite <- app_assoc; reflexivity).
      rewrite (IHm lvl f (w4 ++ [44]) rest (acc ++ [(denote_all items, v)])); try lia.
      + rewrite <- app_assoc. reflexivity.
      + apply kws_app; [apply ws_kws; assumption|]. apply Forall_cons; [auto 6|apply Forall_nil].
  Qed.
End Grammar.

Lemma ws_fol : forall w, ws w -> fol w.
Proof. intros w H. destruct H as [|c w Hc _]; cbn [fol]; [exact I|]. destruct Hc as [ -> | [ -> | [ -> | -> ]]]; auto 8. Qed.

Lemma denotes_len :
  (forall t v, denotes t v -> (jsize v <= length t)%nat) /\
  (forall ts l, elems ts l -> (fold_right (fun x a => jsize x + a) 0 l <= length ts)%nat) /\
  (forall ts l, members ts l -> (fold_right (fun kx a => (let '(_, x) := kx in jsize x) + a) 0 l <= length ts)%nat).
Proof.
  apply denotes_mutind; intros; cbn [jsize fold_right length] in *; rewrite ?app_length in *; cbn [length] in *;
    rewrite ?app_length in *; cbn [length] in *; try lia.
  match goal with H : int_tok _ _ |- _ => destruct H as [n Hn|] end; [|cbn; lia].
  destruct (dec_nonempty n Hn) as (c & t' & -> & _). cbn [length]. lia.
Qed.

(* (3) every text of the grammar (optional BOM, any whitespace around and inside) is accepted with the denoted value *)
Theorem parse_valid : forall ora t v w1 w2 bom, denotes t v -> depth v <= JBL_MAX_NESTING_LEVEL -> ws w1 -> ws w2 ->
  bom = [] \/ bom = [239; 187; 191] ->
  from_json ora (bom ++ w1 ++ t ++ w2) = Ok (Some v).
Proof.
  intros ora t v w1 w2 bom Hd Hdep Hw1 Hw2 Hbom. unfold from_json.
  destruct (grammar_all ora) as [HPd _]. specialize (HPd t v Hd). unfold Pd in HPd.
  destruct denotes_len as [Hlen _]. specialize (Hlen t v Hd).
  assert (Hskip : skip_bom (bom ++ w1 ++ t ++ w2) = w1 ++ t ++ w2).
  { destruct Hbom as [ -> | -> ]; [|reflexivity]. cbn [app]. unfold skip_bom.
    destruct (denotes_first t v Hd) as (c & t' & -> & Hc).
    destruct (first_ok_facts ora (fun _ => []) c Hc) as (_ & _ & _ & _ & H239 & _).
    assert (H0 : at0 (w1 ++ (c :: t') ++ w2) 0 =? 239 = false).
    { destruct w1 as [|x w1']; cbn [app at0 nth]; [lia|]. inversion Hw1 as [|? ? Hx _]; subst.
      destruct Hx as [ -> | [ -> | [ -> | -> ]]]; reflexivity. }
    rewrite H0. reflexivity. }
  rewrite Hskip.
  rewrite (HPd 0 (parse_fuel (bom ++ w1 ++ t ++ w2)) w1 w2); try lia; [reflexivity| | |].
  - apply ws_vws; assumption.
  - apply ws_fol; assumption.
  - unfold parse_fuel. rewrite !app_length. lia.
Qed.

(* ---------- what the printer writes is in the grammar *)
Section PrintGrammar.
  Variable fo : Z -> list Z.
  Variable pf : Z.
  Notation pitems := (pitems fo pf). Notation pmembers := (pmembers fo pf).

  Lemma rep_ws : forall n, ws (rep 32 n).
  Proof. intro n. unfold rep. induction (Z.to_nat n); cbn [repeat]; constructor; [left; reflexivity|assumption]. Qed.
  Lemma ind_ws : forall lvl, ws (ind pf lvl).
  Proof. intro. unfold ind. destruct (pretty pf); [apply rep_ws|constructor]. Qed.
  Lemma cind_ws : forall lvl, ws (cind pf lvl).
  Proof. intro. unfold cind. destruct (pretty pf); [apply rep_ws|constructor]. Qed.
  Lemma nl_ws : ws (nl pf).
  Proof. unfold nl. destruct (pretty pf); [apply Forall_cons; [right; right; left; reflexivity|apply Forall_nil]|apply Forall_nil]. Qed.
  Lemma ws_app : forall a b, ws a -> ws b -> ws (a ++ b).
  Proof. intros. apply Forall_app. split; assumption. Qed.

  Lemma wjs_grammar : forall k kt, bytes_ok k -> write_json_string pf k = Ok kt ->
    exists items, Forall item_rfc items /\ kt = 34 :: render_all items ++ [34] /\ denote_all items = k.
  Proof.
    intros k kt Hb H. apply wjs_inv in H. destruct H as (body & Hw & ->).
    destruct (wstr_items (S (length k)) pf k body Hb (Nat.lt_succ_diag_r _) Hw) as (items & Hok & -> & Hd). eauto.
  Qed.

  Theorem print_in_grammar : forall v lvl t, wf v -> print_node fo pf lvl v = Ok t -> denotes t v.
  Proof.
    intro v. induction v as [|b|n|b|s|l IHl|l IHl] using jval_ind2; intros lvl t Hwf Hp.
    - cbn in Hp. injection Hp as <-. constructor.
    - destruct b; cbn in Hp; injection Hp as <-; constructor.
    - cbn [print_node wf] in *. rewrite write_int_dec in Hp by exact Hwf. injection Hp as <-. constructor. constructor. exact Hwf.
    - destruct Hwf.
    - cbn [print_node wf] in *. destruct (wjs_grammar s t Hwf Hp) as (items & Hok & -> & <-). constructor. exact Hok.
    - rewrite print_arr_eq in Hp. destruct (pitems lvl l) as [body|] eqn:Eb; [|discriminate]. injection Hp as <-.
      destruct l as [|x r].
      + cbn in Eb. injection Eb as <-. cbn [app]. apply (D_arr0 []). constructor.
      + assert (He : forall wpre wpost, ws wpre -> ws wpost -> elems (wpre ++ body ++ wpost) (x :: r)).
        { clear - IHl Hwf Eb. cbn [wf] in Hwf. revert body Eb. generalize dependent x. induction r as [|y r' IHr]; intros x IHl Hwf body Eb wpre wpost Hpre Hpost.
          - cbn [Text_proofs.pitems] in Eb. apply bind2_inv in Eb. destruct Eb as (a & b & Ha & Hb & ->). injection Hb as <-.
            inversion IHl as [|? ? Hx _]; subst. cbn [fold_right] in Hwf. destruct Hwf as [Hwx _].
            cbn [sepc app]. rewrite app_nil_r.
            replace (wpre ++ (ind pf lvl ++ a ++ nl pf) ++ wpost) with ((wpre ++ ind pf lvl) ++ a ++ (nl pf ++ wpost))
              by (rewrite <- !app_assoc; reflexivity).
            apply E_one; [apply ws_app; [assumption|apply ind_ws]|eapply Hx; eauto|apply ws_app; [apply nl_ws|assumption]].
          - cbn [Text_proofs.pitems] in Eb. apply bind2_inv in Eb. destruct Eb as (a & b & Ha & Hb & ->).
            inversion IHl as [|? ? Hx Hr]; subst. cbn [fold_right] in Hwf. destruct Hwf as [Hwx Hwr].
            cbn [sepc].
            replace (wpre ++ (ind pf lvl ++ a ++ [44] ++ nl pf ++ b) ++ wpost)
              with ((wpre ++ ind pf lvl) ++ a ++ [] ++ 44 :: (nl pf ++ b ++ wpost))
              by (rewrite <- !app_assoc; reflexivity).
            apply E_cons; [apply ws_app; [assumption|apply ind_ws]|eapply Hx; eauto|constructor|].
            apply (IHr y Hr Hwr b Hb (nl pf) wpost); [apply nl_ws|assumption]. }
        match goal with |- denotes ?t _ => replace t with (91 :: (nl pf ++ body ++ cind pf lvl) ++ [93])
          by (cbn [app]; rewrite <- ?app_assoc; reflexivity) end.
        apply D_arr. apply He; [apply nl_ws|apply cind_ws].
    - rewrite print_obj_eq in Hp. destruct (pmembers lvl l) as [body|] eqn:Eb; [|discriminate]. injection Hp as <-.
      destruct l as [|[k x] r].
      + cbn in Eb. injection Eb as <-. cbn [app]. apply (D_obj0 []). constructor.
      + assert (He : forall wpre wpost, ws wpre -> ws wpost -> members (wpre ++ body ++ wpost) ((k, x) :: r)).
        { clear - IHl Hwf Eb. cbn [wf] in Hwf. revert body Eb. generalize dependent x. generalize dependent k.
          induction r as [|[k2 y] r' IHr]; intros k x IHl Hwf body Eb wpre wpost Hpre Hpost.
          - cbn [Text_proofs.pmembers] in Eb. destruct (write_json_string pf k) as [kt|] eqn:Ek; [|discriminate].
            apply bind2_inv in Eb. destruct Eb as (a & b & Ha & Hb & ->). injection Hb as <-.
            inversion IHl as [|? ? Hx _]; subst. cbn [snd] in Hx. cbn [fold_right] in Hwf. destruct Hwf as [[Hbk Hwx] _].
            destruct (wjs_grammar k kt Hbk Ek) as (items & Hok & -> & <-).
            cbn [sepc app]. rewrite app_nil_r.
            set (w3 := if pretty pf then [32] else [] : list Z).
            assert (Hw3 : ws w3) by (unfold w3; destruct (pretty pf); [apply Forall_cons; [left; reflexivity|apply Forall_nil]|apply Forall_nil]).
            match goal with |- members ?tt _ => replace tt
              with ((wpre ++ ind pf lvl) ++ (34 :: render_all items ++ [34]) ++ [] ++ 58 :: w3 ++ a ++ (nl pf ++ wpost)) end.
            2: { unfold w3, colon. destruct (pretty pf); repeat (rewrite <- ?app_assoc; cbn [app]; f_equal); reflexivity. }
            apply M_one; try assumption; [apply ws_app; [assumption|apply ind_ws]|constructor|eapply Hx; eauto|apply ws_app; [apply nl_ws|assumption]].
          - cbn [Text_proofs.pmembers] in Eb. destruct (write_json_string pf k) as [kt|] eqn:Ek; [|discriminate].
            apply bind2_inv in Eb. destruct Eb as (a & b & Ha & Hb & ->).
            inversion IHl as [|? ? Hx Hr]; subst. cbn [snd] in Hx. cbn [fold_right] in Hwf. destruct Hwf as [[Hbk Hwx] Hwr].
            destruct (wjs_grammar k kt Hbk Ek) as (items & Hok & -> & <-).
            cbn [sepc].
            set (w3 := if pretty pf then [32] else [] : list Z).
            assert (Hw3 : ws w3) by (unfold w3; destruct (pretty pf); [apply Forall_cons; [left; reflexivity|apply Forall_nil]|apply Forall_nil]).
            match goal with |- members ?tt _ => replace tt
              with ((wpre ++ ind pf lvl) ++ (34 :: render_all items ++ [34]) ++ [] ++ 58 :: w3 ++ a ++ [] ++ 44 :: (nl pf ++ b ++ wpost)) end.
            2: { unfold w3, colon. destruct (pretty pf); repeat (rewrite <- ?app_assoc; cbn [app]; f_equal); reflexivity. }
            apply M_cons; try assumption; [apply ws_app; [assumption|apply ind_ws]|constructor|eapply Hx; eauto|constructor|].
            apply (IHr k2 y Hr Hwr b Hb (nl pf) wpost); [apply nl_ws|assumption]. }
        match goal with |- denotes ?t _ => replace t with (123 :: (nl pf ++ body ++ cind pf lvl) ++ [125])
          by (cbn [app]; rewrite <- ?app_assoc; reflexivity) end.
        apply D_obj. apply He; [apply nl_ws|apply cind_ws].
  Qed.
End PrintGrammar.

(* ================================================================ jbl_as_json writes what jbn_as_json writes (NUL-free trees; every flag set since d42c39c) *)
Lemma cstr0_id : forall s, ~ In 0 s -> cstr0 s = s.
Proof.
  induction s as [|c s IH]; intro H; [reflexivity|]. cbn [cstr0].
  destruct (c =? 0) eqn:E; [exfalso; apply H; left; lia|]. f_equal. apply IH. intro Hi. apply H. right. exact Hi.
Qed.

Section JblPrint.
  Variable fo : Z -> list Z.
  Variable pf : Z.

  Lemma print_jbl_eq : forall v lvl, nulfree v -> print_jbl fo pf lvl v = print_node fo pf lvl v.
  Proof.
    intro v. induction v as [|b|n|b|s|l IHl|l IHl] using jval_ind2; intros lvl Hnf; try reflexivity.
    - cbn [print_jbl print_node nulfree] in *. rewrite cstr0_id by exact Hnf. reflexivity.
    - cbn [print_jbl print_node]. cbn [nulfree] in Hnf. unfold pretty.
      match goal with |- match ?g1 l with _ => _ end = match ?g2 l with _ => _ end =>
        assert (Hg : g1 l = g2 l) end.
      { clear - IHl Hnf. induction l as [|x r IHr]; [reflexivity|].
        inversion IHl as [|? ? Hx Hr]; subst. cbn [fold_right] in Hnf. destruct Hnf as [Hnx Hnr].
        cbn beta iota. rewrite (Hx (lvl + 1) Hnx). rewrite (IHr Hr Hnr). reflexivity. }
      rewrite Hg. reflexivity.
    - cbn [print_jbl print_node]. cbn [nulfree] in Hnf. unfold pretty.
      match goal with |- match ?g1 l with _ => _ end = match ?g2 l with _ => _ end =>
        assert (Hg : g1 l = g2 l) end.
      { clear - IHl Hnf. induction l as [|[k x] r IHr]; [reflexivity|].
        inversion IHl as [|? ? Hx Hr]; subst. cbn [snd] in Hx. cbn [fold_right] in Hnf. destruct Hnf as [[Hnk Hnx] Hnr].
        cbn beta iota. rewrite (cstr0_id k Hnk). rewrite (Hx (lvl + 1) Hnx). rewrite (IHr Hr Hnr). reflexivity. }
      rewrite Hg. reflexivity.
  Qed.

  Theorem jbl_print_parse : forall ora v t, wf v -> nulfree v -> depth v <= JBL_MAX_NESTING_LEVEL ->
    jbl_as_json fo pf v = Ok t -> from_json ora t = Ok (Some v).
  Proof.
    intros ora v t Hwf Hnf Hd Hp. unfold jbl_as_json in Hp. rewrite print_jbl_eq in Hp by assumption.
    eapply print_parse; eauto.
  Qed.
End JblPrint.


(* ================================================================ jbn_from_json never reports success without a root (3d4d0bc) *)
Lemma from_json_root : forall ora json, from_json ora json <> Ok None.
Proof.
  intros ora json. unfold from_json. destruct (parse_value ora (parse_fuel json) 0 (skip_bom json)) as [[[v|] r]|e]; discriminate.
Qed.
