(* proofs about JSON/Binn.v (family jbinn, C14) *)
Require Import ZArith List Bool Lia. Import ListNotations.
Require Import IW.JSON.Val IW.JSON.Binn IW.Gen.Facts.
Local Open Scope Z_scope.
Ltac Zify.zify_post_hook ::= Z.div_mod_to_equations.

Lemma binn_encode_scalar_none : forall v, (forall ms, v <> JObj ms) -> (forall l, v <> JArr l) -> binn_encode v = None.
Proof. intros v Ho Ha. destruct v; try reflexivity. - exfalso; eapply Ha; reflexivity. - exfalso; eapply Ho; reflexivity. Qed.

(* ------------------------------------------------------------------ lists *)
Lemma zlen_app {A} (a b : list A) : zlen (a ++ b) = zlen a + zlen b.
Proof. unfold zlen. rewrite app_length. lia. Qed.
Lemma zlen_cons {A} (x : A) l : zlen (x :: l) = 1 + zlen l.
Proof. unfold zlen. simpl length. lia. Qed.
Lemma zlen_nonneg {A} (l : list A) : 0 <= zlen l.
Proof. unfold zlen. lia. Qed.
Lemma zlen_nil {A} : zlen (@nil A) = 0. Proof. reflexivity. Qed.

Lemma skipn_app_exact {A} (a b : list A) n : n = length a -> skipn n (a ++ b) = b.
Proof. intros ->. rewrite skipn_app, skipn_all, Nat.sub_diag. reflexivity. Qed.
Lemma firstn_app_exact {A} (a b : list A) n : n = length a -> firstn n (a ++ b) = a.
Proof. intros ->. rewrite firstn_app, firstn_all, Nat.sub_diag. simpl. apply app_nil_r. Qed.
Lemma zskip_app {A} (a b : list A) k : k = zlen a -> zskip k (a ++ b) = b.
Proof. intros ->. unfold zskip, zlen. rewrite Nat2Z.id. apply skipn_app_exact. reflexivity. Qed.
Lemma zfirst_app {A} (a b : list A) k : k = zlen a -> zfirst k (a ++ b) = a.
Proof. intros ->. unfold zfirst, zlen. rewrite Nat2Z.id. apply firstn_app_exact. reflexivity. Qed.
Lemma zskip_0 {A} (l : list A) : zskip 0 l = l. Proof. reflexivity. Qed.

(* ------------------------------------------------------------------ big-endian bytes *)
Lemma be_bytes_length n v : length (be_bytes n v) = n.
Proof. induction n; simpl; congruence. Qed.
Lemma be_bytes_zlen n v : zlen (be_bytes n v) = Z.of_nat n.
Proof. unfold zlen. rewrite be_bytes_length. reflexivity. Qed.

Lemma be_val_be_bytes n v rest : be_val n (be_bytes n v ++ rest) = Some (v mod 2 ^ (8 * Z.of_nat n)).
Proof.
  induction n as [|k IH].
  - simpl. rewrite Z.mod_1_r. reflexivity.
  - cbn [be_bytes be_val app]. rewrite IH. f_equal.
    replace (8 * Z.of_nat (S k)) with (8 * Z.of_nat k + 8) by lia.
    rewrite Z.pow_add_r by lia. change (2 ^ 8) with 256.
    assert (Hp : 0 < 2 ^ (8 * Z.of_nat k)) by (apply Z.pow_pos_nonneg; lia).
    rewrite (Z.rem_mul_r v (2 ^ (8 * Z.of_nat k)) 256) by lia. lia.
Qed.

Lemma mod_small_id a m : 0 <= a < m -> a mod m = a. Proof. intros. apply Z.mod_small. assumption. Qed.

(* bit facts about one byte, by a complete sweep of 0..255 *)
Definition bytes256 : list Z := map Z.of_nat (seq 0 256).
Lemma in_bytes256 b : 0 <= b <= 255 -> In b bytes256.
Proof. intros H. unfold bytes256. apply in_map_iff. exists (Z.to_nat b). split; [lia|]. apply in_seq. lia. Qed.
Lemma byte_land128 b : 0 <= b <= 255 -> (Z.land b 128 =? 0) = (b <? 128).
Proof.
  intros H. assert (A : forallb (fun b => Bool.eqb (Z.land b 128 =? 0) (b <? 128)) bytes256 = true) by (vm_compute; reflexivity).
  rewrite forallb_forall in A. specialize (A b (in_bytes256 b H)). apply eqb_prop in A. exact A.
Qed.

Lemma land_2p31_zero n : 0 <= n < 2147483648 -> Z.land n 2147483648 = 0.
Proof.
  intros H. apply Z.bits_inj'. intros m Hm. rewrite Z.land_spec, Z.bits_0.
  change 2147483648 with (2 ^ 31). rewrite Z.pow2_bits_eqb by lia.
  destruct (Z.eqb_spec 31 m) as [<-|]; [|apply andb_false_r].
  rewrite andb_true_r. apply Z.testbit_false; [lia|]. rewrite Z.div_small by (change (2^31) with 2147483648; lia). reflexivity.
Qed.
Lemma lor_2p31 n : 0 <= n < 2147483648 -> Z.lor n 2147483648 = n + 2147483648.
Proof. intros H. pose proof (land_2p31_zero n H) as L. rewrite <- (Z.lxor_lor _ _ L). symmetry. apply Z.add_nocarry_lxor. exact L. Qed.
Lemma land_mask31 v : Z.land v 2147483647 = v mod 2147483648.
Proof. change 2147483647 with (Z.ones 31). rewrite Z.land_ones by lia. reflexivity. Qed.

Lemma hi_byte_2p31 n : 0 <= n < 2147483648 -> 128 <= ((n + 2147483648) / 2 ^ 24) mod 256 <= 255.
Proof.
  intros H. change 2147483648 with (128 * 2 ^ 24) at 2. rewrite Z.div_add by (change (2^24) with 16777216; lia).
  assert (0 <= n / 2 ^ 24 < 128).
  { split. - apply Z.div_pos; [lia|]. change (2^24) with 16777216; lia.
    - apply Z.div_lt_upper_bound; change (2^24) with 16777216; lia. }
  rewrite Z.mod_small by lia. lia.
Qed.

(* ------------------------------------------------------------------ size / count fields *)
Lemma wr_field_len n : zlen (wr_field n) = if n >? 127 then 4 else 1.
Proof. unfold wr_field. destruct (n >? 127). - apply be_bytes_zlen. - reflexivity. Qed.

Lemma rd_field_wr_field n rest : 0 <= n < 2147483648 ->
  rd_field (wr_field n ++ rest) = Some (n, zlen (wr_field n)).
Proof.
  intros H. rewrite wr_field_len. unfold wr_field. destruct (n >? 127) eqn:E.
  - rewrite lor_2p31 by assumption.
    pose proof (be_val_be_bytes 4 (n + 2147483648) rest) as Hv.
    remember (be_bytes 4 (n + 2147483648)) as bs eqn:Hbs.
    cbn [be_bytes] in Hbs. change (8 * Z.of_nat 3) with 24 in Hbs.
    destruct bs as [|b0 bs']; [discriminate|]. injection Hbs as Hb0 Hbs'.
    unfold rd_field. cbn [app].
    assert (Hb : 128 <= b0 <= 255) by (subst b0; apply hi_byte_2p31; assumption).
    rewrite byte_land128 by lia. replace (b0 <? 128) with false by lia. cbn [negb].
    change ((b0 :: bs') ++ rest) with (b0 :: bs' ++ rest) in Hv. rewrite Hv.
    rewrite land_mask31. f_equal. f_equal. change (2 ^ (8 * Z.of_nat 4)) with 4294967296. lia.
  - unfold rd_field. cbn [app]. rewrite byte_land128 by lia. replace (n <? 128) with true by lia. reflexivity.
Qed.

(* ------------------------------------------------------------------ container headers *)
Lemma save_header_inv ty body count bs : save_header ty body count = Some bs ->
  exists size, bs = ty :: wr_field size ++ wr_field count ++ body /\ size = zlen bs /\ 3 <= size <= 2147483647.
Proof.
  unfold save_header. change jbinn_MIN_BINN_SIZE with 3.
  set (size0 := zlen body + 3).
  set (size1 := if count >? 127 then size0 + 3 else size0).
  set (size2 := if size1 >? 127 then size1 + 3 else size1).
  destruct (size2 >? 2147483647) eqn:E; [discriminate|]. intros H. injection H as <-.
  exists size2. split; [reflexivity|].
  pose proof (zlen_nonneg body) as Hb.
  rewrite zlen_cons, !zlen_app, !wr_field_len.
  assert (Hs : (size2 >? 127) = (size1 >? 127)) by (subst size2; destruct (size1 >? 127) eqn:E1; lia).
  rewrite Hs. subst size2 size1 size0.
  destruct (count >? 127); destruct (zlen body + 3 + 3 >? 127) eqn:E2; destruct (zlen body + 3 >? 127) eqn:E3; lia.
Qed.

Lemma read_hdr_saved ty size count tail :
  ty = jbinn_BINN_LIST \/ ty = jbinn_BINN_OBJECT -> 3 <= size < 2147483648 -> 0 <= count < 2147483648 ->
  read_hdr (ty :: wr_field size ++ wr_field count ++ tail)
  = Some (ty, size, count, 1 + zlen (wr_field size) + zlen (wr_field count)).
Proof.
  intros Hty Hs Hc. unfold read_hdr.
  assert (T1 : negb (Z.land ty jbinn_STORAGE_MASK =? jbinn_STORAGE_CONTAINER) = false) by (destruct Hty; subst ty; reflexivity).
  assert (T2 : negb (Z.land ty jbinn_STORAGE_HAS_MORE =? 0) = false) by (destruct Hty; subst ty; reflexivity).
  assert (T3 : negb ((ty =? jbinn_BINN_LIST) || (ty =? jbinn_BINN_MAP) || (ty =? jbinn_BINN_OBJECT)) = false)
    by (destruct Hty; subst ty; reflexivity).
  rewrite T1, T2, T3. rewrite rd_field_wr_field by lia.
  rewrite zskip_app by reflexivity. rewrite rd_field_wr_field by lia.
  change jbinn_MIN_BINN_SIZE with 3. replace (size <? 3) with false by lia. reflexivity.
Qed.

(* ------------------------------------------------------------------ constants *)
Ltac kc := cbv [jbinn_BINN_LIST jbinn_BINN_MAP jbinn_BINN_OBJECT jbinn_BINN_NULL jbinn_BINN_TRUE jbinn_BINN_FALSE
  jbinn_BINN_BOOL jbinn_BINN_UINT8 jbinn_BINN_INT8 jbinn_BINN_UINT16 jbinn_BINN_INT16 jbinn_BINN_UINT32 jbinn_BINN_INT32
  jbinn_BINN_UINT64 jbinn_BINN_INT64 jbinn_BINN_FLOAT32 jbinn_BINN_FLOAT64 jbinn_BINN_DOUBLE jbinn_BINN_STRING
  jbinn_STORAGE_NOBYTES jbinn_STORAGE_BYTE jbinn_STORAGE_WORD jbinn_STORAGE_DWORD jbinn_STORAGE_QWORD
  jbinn_STORAGE_STRING jbinn_STORAGE_BLOB jbinn_STORAGE_CONTAINER jbinn_STORAGE_MASK jbinn_STORAGE_HAS_MORE
  jbinn_MAX_BINN_HEADER jbinn_MIN_BINN_SIZE jbinn_MAX_BIN_KEY_LEN jbinn_sizeof_int
  jbinn_UINT8_MAX jbinn_UINT16_MAX jbinn_UINT32_MAX jbinn_INT8_MIN jbinn_INT16_MIN jbinn_INT32_MIN] in *.
Ltac kb := cbn [Z.land Pos.land Z.eqb Pos.eqb negb andb orb Z.of_N Pos.Nsucc_double Pos.Ndouble] in *.

Lemma cstr_id s : forallb char_ok s = true -> cstr s = s.
Proof.
  induction s as [|c r IH]; [reflexivity|]. cbn [forallb cstr]. intros H. apply andb_prop in H as [Hc Hr].
  unfold char_ok in Hc. replace (c =? 0) with false by lia. rewrite IH by assumption. reflexivity.
Qed.

(* the head of a size field followed by anything *)
Lemma field_cases n tail : 0 <= n < 2147483648 ->
  exists d tl, wr_field n ++ tail = d :: tl /\ 0 <= d <= 255 /\
    ((n > 127 /\ be_val 4 (d :: tl) = Some (n + 2147483648) /\ 128 <= d) \/ (n <= 127 /\ d = n)).
Proof.
  intros H. unfold wr_field. destruct (n >? 127) eqn:E.
  - rewrite lor_2p31 by assumption.
    pose proof (be_val_be_bytes 4 (n + 2147483648) tail) as Hv.
    remember (be_bytes 4 (n + 2147483648)) as bs eqn:Hbs.
    cbn [be_bytes] in Hbs. change (8 * Z.of_nat 3) with 24 in Hbs.
    destruct bs as [|b0 bs']; [discriminate|]. injection Hbs as Hb0 Hbs'.
    exists b0, (bs' ++ tail). split; [reflexivity|].
    assert (Hb : 128 <= b0 <= 255) by (subst b0; apply hi_byte_2p31; assumption).
    split; [lia|]. left. split; [lia|]. split; [|lia].
    change ((b0 :: bs') ++ tail) with (b0 :: bs' ++ tail) in Hv. rewrite Hv. f_equal.
    change (2 ^ (8 * Z.of_nat 4)) with 4294967296. lia.
  - exists n, tail. split; [reflexivity|]. split; [lia|]. right. lia.
Qed.

(* ------------------------------------------------------------------ AdvanceDataPos over one encoded item *)
Definition adv_ok (bs : list Z) : Prop :=
  forall rest rem, rem > 0 ->
    advance (bs ++ rest) rem = if rem - zlen bs <=? 0 then None else Some (rest, rem - zlen bs).

Lemma adv_fixed t payload k :
  Z.land t 16 = 0 ->
  (   (Z.land t 224 = 0 /\ k = 0) \/ (Z.land t 224 = 32 /\ k = 1) \/ (Z.land t 224 = 64 /\ k = 2)
   \/ (Z.land t 224 = 96 /\ k = 4) \/ (Z.land t 224 = 128 /\ k = 8)) ->
  zlen payload = k -> adv_ok (t :: payload).
Proof.
  intros Hm Hst Hl rest rem Hr. unfold advance. replace (rem <=? 0) with false by lia. cbn [app].
  kc. rewrite Hm. cbn [Z.eqb negb]. rewrite zlen_cons, Hl.
  assert (Hsk : zskip k (payload ++ rest) = rest) by (apply zskip_app; lia).
  destruct Hst as [[-> ->]|[[-> ->]|[[-> ->]|[[-> ->]|[-> ->]]]]]; kb; rewrite Hsk;
    match goal with |- (if ?a <=? 0 then _ else _) = (if ?b <=? 0 then _ else _) => replace a with b by lia end;
    destruct (_ <=? 0); try reflexivity; repeat f_equal; lia.
Qed.

Lemma adv_string s : zlen s < 2147483648 ->
  adv_ok (jbinn_BINN_STRING :: wr_field (zlen s) ++ s ++ [0]) .
Proof.
  intros Hn rest rem Hr. pose proof (zlen_nonneg s) as Hs0.
  unfold advance. replace (rem <=? 0) with false by lia. cbn [app]. kc. kb.
  rewrite zlen_cons, !zlen_app, wr_field_len. change (zlen [0]) with 1.
  rewrite <- !app_assoc.
  destruct (field_cases (zlen s) (s ++ [0] ++ rest)) as (d & tl & Heq & Hd & Hc); [lia|].
  assert (Hsk : forall k, k = zlen (wr_field (zlen s)) + zlen s + 1 ->
                 zskip k (wr_field (zlen s) ++ s ++ [0] ++ rest) = rest).
  { intros k ->. rewrite !app_assoc. apply zskip_app. rewrite !zlen_app. reflexivity. }
  rewrite wr_field_len in Hsk.
  destruct (rem - 1 <=? 0) eqn:E1.
  { destruct (zlen s >? 127); replace (_ <=? 0) with true by lia; reflexivity. }
  rewrite Heq. rewrite byte_land128 by lia.
  destruct Hc as [(Hgt & Hv & Hd128)|(Hle & ->)].
  - replace (d <? 128) with false by lia. cbn [negb]. replace (zlen s >? 127) with true in * by lia.
    destruct (rem - 1 - (4 - 1) <=? 0) eqn:E2; [replace (_ <=? 0) with true by lia; reflexivity|].
    rewrite Hv. rewrite land_mask31. replace ((zlen s + 2147483648) mod 2147483648) with (zlen s) by lia.
    rewrite <- Heq. rewrite Hsk by lia.
    match goal with |- (if ?a <=? 0 then _ else _) = (if ?b <=? 0 then _ else _) => replace a with b by lia end.
    destruct (_ <=? 0); reflexivity.
  - replace (zlen s <? 128) with true by lia. cbn [negb]. replace (zlen s >? 127) with false in * by lia.
    rewrite <- Heq. rewrite Hsk by lia.
    match goal with |- (if ?a <=? 0 then _ else _) = (if ?b <=? 0 then _ else _) => replace a with b by lia end.
    destruct (_ <=? 0); reflexivity.
Qed.

Lemma adv_container ty size tail :
  ty = jbinn_BINN_LIST \/ ty = jbinn_BINN_OBJECT ->
  size = zlen (ty :: wr_field size ++ tail) -> 3 <= size < 2147483648 ->
  adv_ok (ty :: wr_field size ++ tail).
Proof.
  intros Hty Hsz Hs rest rem Hr.
  unfold advance. replace (rem <=? 0) with false by lia. cbn [app].
  assert (M1 : Z.land ty jbinn_STORAGE_MASK = 224) by (destruct Hty; subst ty; reflexivity).
  assert (M2 : Z.land ty jbinn_STORAGE_HAS_MORE = 0) by (destruct Hty; subst ty; reflexivity).
  rewrite M1, M2. kc. kb. rewrite <- Hsz. rewrite <- app_assoc.
  destruct (field_cases size (tail ++ rest)) as (d & tl & Heq & Hd & Hc); [lia|].
  assert (Hsk : zskip (size - 1) (wr_field size ++ tail ++ rest) = rest).
  { rewrite app_assoc. apply zskip_app. rewrite zlen_cons in Hsz. lia. }
  destruct (rem - 1 <=? 0) eqn:E1; [replace (rem - size <=? 0) with true by lia; reflexivity|].
  rewrite Heq. rewrite byte_land128 by lia.
  destruct Hc as [(Hgt & Hv & Hd128)|(Hle & ->)].
  - replace (d <? 128) with false by lia. cbn [negb].
    destruct (rem - 1 - (4 - 1) <=? 0) eqn:E2; [replace (_ <=? 0) with true by lia; reflexivity|].
    rewrite Hv. rewrite land_mask31. replace ((size + 2147483648) mod 2147483648) with size by lia.
    rewrite <- Heq. rewrite Hsk.
    match goal with |- (if ?a <=? 0 then _ else _) = (if ?b <=? 0 then _ else _) => replace a with b by lia end.
    destruct (_ <=? 0); reflexivity.
  - replace (size <? 128) with true by lia. cbn [negb].
    rewrite <- Heq. rewrite Hsk.
    match goal with |- (if ?a <=? 0 then _ else _) = (if ?b <=? 0 then _ else _) => replace a with b by lia end.
    destruct (_ <=? 0); reflexivity.
Qed.

(* ------------------------------------------------------------------ the encoder, unfolded *)
Fixpoint enc_arr_go (l : list jval) (body : list Z) (cnt : Z) : option (list Z * Z) :=
  match l with
  | [] => Some (body, cnt)
  | x :: r => match enc_item x with
              | None => None
              | Some bx => enc_arr_go r (body ++ bx) (cnt + 1)
              end
  end.

Fixpoint enc_obj_go (l : list (list Z * jval)) (body : list Z) (cnt : Z) : option (list Z * Z) :=
  match l with
  | [] => Some (body, cnt)
  | (k, x) :: r =>
    match enc_item x with
    | None => None
    | Some bx =>
      if zlen k >? jbinn_MAX_BIN_KEY_LEN then None
      else if search_key (Z.to_nat cnt) body (zlen body) k then None
      else enc_obj_go r (body ++ zlen k :: k ++ bx) (cnt + 1)
    end
  end.

Lemma enc_item_arr items : enc_item (JArr items) =
  match enc_arr_go items [] 0 with None => None | Some (body, cnt) => save_header jbinn_BINN_LIST body cnt end.
Proof.
  cbn [enc_item].
  assert (E : forall l b c, (fix go (l : list jval) (body : list Z) (cnt : Z) {struct l} : option (list Z * Z) :=
             match l with
             | [] => Some (body, cnt)
             | x :: r => match enc_item x with
                         | None => None
                         | Some bx => go r (body ++ bx) (cnt + 1)
                         end
             end) l b c = enc_arr_go l b c).
  { induction l as [|x r IH]; intros; [reflexivity|]. cbn [enc_arr_go]. destruct (enc_item x); [apply IH|reflexivity]. }
  rewrite E. reflexivity.
Qed.

Lemma enc_item_obj ms : enc_item (JObj ms) =
  match enc_obj_go ms [] 0 with None => None | Some (body, cnt) => save_header jbinn_BINN_OBJECT body cnt end.
Proof.
  cbn [enc_item].
  assert (E : forall l b c, (fix go (l : list (list Z * jval)) (body : list Z) (cnt : Z) {struct l} : option (list Z * Z) :=
             match l with
             | [] => Some (body, cnt)
             | (k, x) :: r =>
               match enc_item x with
               | None => None
               | Some bx =>
                 if zlen k >? jbinn_MAX_BIN_KEY_LEN then None
                 else if search_key (Z.to_nat cnt) body (zlen body) k then None
                 else go r (body ++ zlen k :: k ++ bx) (cnt + 1)
               end
             end) l b c = enc_obj_go l b c).
  { induction l as [|[k x] r IH]; intros; [reflexivity|]. cbn [enc_obj_go]. destruct (enc_item x); [|reflexivity].
    destruct (zlen k >? jbinn_MAX_BIN_KEY_LEN); [reflexivity|]. destruct (search_key _ _ _ _); [reflexivity|]. apply IH. }
  rewrite E. reflexivity.
Qed.

(* encodings of the elements / members and the body they make up *)
Inductive arr_encs : list jval -> list (list Z) -> Prop :=
| AE_nil : arr_encs [] []
| AE_cons x bx r bs : enc_item x = Some bx -> arr_encs r bs -> arr_encs (x :: r) (bx :: bs).

Lemma enc_arr_go_spec l : forall body cnt body' cnt',
  enc_arr_go l body cnt = Some (body', cnt') ->
  exists bs, arr_encs l bs /\ body' = body ++ concat bs /\ cnt' = cnt + zlen l.
Proof.
  induction l as [|x r IH]; intros body cnt body' cnt' H; cbn [enc_arr_go] in H.
  - injection H as <- <-. exists []. split; [constructor|]. rewrite app_nil_r. split; [reflexivity|]. rewrite zlen_nil. lia.
  - destruct (enc_item x) as [bx|] eqn:Ex; [|discriminate].
    destruct (IH _ _ _ _ H) as (bs & Hbs & -> & ->). exists (bx :: bs). split; [constructor; assumption|].
    cbn [concat]. rewrite app_assoc. split; [reflexivity|]. rewrite zlen_cons. lia.
Qed.

Inductive obj_encs : list (list Z * jval) -> list (list Z) -> Prop :=
| OE_nil : obj_encs [] []
| OE_cons k x bx r bs : enc_item x = Some bx -> zlen k <= 255 ->
    obj_encs r bs -> obj_encs ((k, x) :: r) ((zlen k :: k ++ bx) :: bs).

Lemma enc_obj_go_spec l : forall body cnt body' cnt',
  enc_obj_go l body cnt = Some (body', cnt') ->
  exists bs, obj_encs l bs /\ body' = body ++ concat bs /\ cnt' = cnt + zlen l.
Proof.
  induction l as [|[k x] r IH]; intros body cnt body' cnt' H; cbn [enc_obj_go] in H.
  - injection H as <- <-. exists []. split; [constructor|]. rewrite app_nil_r. split; [reflexivity|]. rewrite zlen_nil. lia.
  - destruct (enc_item x) as [bx|] eqn:Ex; [|discriminate].
    destruct (zlen k >? jbinn_MAX_BIN_KEY_LEN) eqn:Ek; [discriminate|].
    destruct (search_key _ _ _ _); [discriminate|].
    destruct (IH _ _ _ _ H) as (bs & Hbs & -> & ->). exists ((zlen k :: k ++ bx) :: bs).
    split; [constructor; try assumption; change jbinn_MAX_BIN_KEY_LEN with 255 in Ek; lia|].
    cbn [concat]. rewrite <- app_assoc. split; [reflexivity|]. rewrite zlen_cons. lia.
Qed.

(* ------------------------------------------------------------------ induction on documents *)
Section JvalInd.
  Variable P : jval -> Prop.
  Hypothesis Hnull : P JNull.
  Hypothesis Hbool : forall b, P (JBool b).
  Hypothesis Hi64 : forall n, P (JI64 n).
  Hypothesis Hf64 : forall b, P (JF64 b).
  Hypothesis Hstr : forall s, P (JStr s).
  Hypothesis Harr : forall l, Forall P l -> P (JArr l).
  Hypothesis Hobj : forall ms, Forall (fun m => P (snd m)) ms -> P (JObj ms).
  Fixpoint jval_ind' (v : jval) : P v :=
    match v with
    | JNull => Hnull
    | JBool b => Hbool b
    | JI64 n => Hi64 n
    | JF64 b => Hf64 b
    | JStr s => Hstr s
    | JArr l => Harr l ((fix go (l : list jval) : Forall P l :=
                          match l with [] => Forall_nil P | x :: r => Forall_cons x (jval_ind' x) (go r) end) l)
    | JObj ms => Hobj ms ((fix go (l : list (list Z * jval)) : Forall (fun m => P (snd m)) l :=
                            match l with
                            | [] => Forall_nil _
                            | m :: r => Forall_cons (P := fun m => P (snd m)) m (jval_ind' (snd m)) (go r)
                            end) ms)
    end.
End JvalInd.

(* ------------------------------------------------------------------ GetValue + _jbl_create_node on scalars *)
Definition gv_dec (v : jval) (bs : list Z) : Prop :=
  forall rest, exists b, get_value (bs ++ rest) = Some b /\
    forall fuel, (0 < fuel)%nat -> dec_node fuel b = Some v.

Ltac pw := change (2 ^ (8 * Z.of_nat 1)) with 256 in *; change (2 ^ (8 * Z.of_nat 2)) with 65536 in *;
  change (2 ^ (8 * Z.of_nat 4)) with 4294967296 in *; change (2 ^ (8 * Z.of_nat 8)) with 18446744073709551616 in *;
  change (2 ^ 8) with 256 in *; change (2 ^ 16) with 65536 in *; change (2 ^ 32) with 4294967296 in *;
  change (2 ^ 64) with 18446744073709551616 in *; change (2 ^ 63) with 9223372036854775808 in *;
  change (2 ^ (8 - 1)) with 128 in *; change (2 ^ (16 - 1)) with 32768 in *; change (2 ^ (32 - 1)) with 2147483648 in *;
  change (2 ^ (64 - 1)) with 9223372036854775808 in *.

Lemma Some_inj {A} (a b : A) : Some a = Some b -> a = b. Proof. congruence. Qed.

Ltac gv_num_tac :=
  let rest := fresh "rest" in let fuel := fresh "fuel" in let Hf := fresh "Hf" in
  intros rest; rewrite <- app_comm_cons; unfold get_value; kc; kb; rewrite be_val_be_bytes; kb;
  eexists; split; [reflexivity|];
  intros fuel Hf; destruct fuel as [|fuel]; [lia|];
  cbn [dec_node bt]; kc; kb; unfold create_scalar; cbn [bt bnum]; kc; kb; f_equal; f_equal; unfold sx; pw.
Ltac inj_bs H := cbv beta iota zeta in H; apply Some_inj in H; subst.

Lemma gv_dec_i64 n bs : wf (JI64 n) = true -> enc_item (JI64 n) = Some bs -> gv_dec (JI64 n) bs.
Proof.
  cbn [wf enc_item]. intros Hw H. apply andb_prop in Hw as [H1 H2]. pw.
  unfold compress_int in H. kc.
  destruct (n >=? 0) eqn:E0.
  - destruct (n <=? 255) eqn:E1; [inj_bs H; gv_num_tac; rewrite !Z.mod_small by lia; lia|].
    destruct (n <=? 65535) eqn:E2; [inj_bs H; gv_num_tac; rewrite !Z.mod_small by lia; lia|].
    destruct (n <=? 4294967295) eqn:E3; [inj_bs H; gv_num_tac; rewrite !Z.mod_small by lia; lia|].
    inj_bs H. gv_num_tac. rewrite !Z.mod_small by lia. replace (n >=? 9223372036854775808) with false by lia. lia.
  - destruct (n >=? -128) eqn:E1.
    { inj_bs H. gv_num_tac. rewrite Z.mod_mod by lia.
      replace (n mod 256) with (n + 256) by lia. replace (n + 256 >=? 128) with true by lia. lia. }
    destruct (n >=? -32768) eqn:E2.
    { inj_bs H. gv_num_tac. rewrite Z.mod_mod by lia.
      replace (n mod 65536) with (n + 65536) by lia. replace (n + 65536 >=? 32768) with true by lia. lia. }
    destruct (n >=? -2147483648) eqn:E3.
    { inj_bs H. gv_num_tac. rewrite Z.mod_mod by lia.
      replace (n mod 4294967296) with (n + 4294967296) by lia. replace (n + 4294967296 >=? 2147483648) with true by lia. lia. }
    inj_bs H. gv_num_tac. rewrite Z.mod_mod by lia.
    replace (n mod 18446744073709551616) with (n + 18446744073709551616) by lia.
    replace (n + 18446744073709551616 >=? 9223372036854775808) with true by lia. lia.
Qed.

Ltac gv_fin :=
  let fuel := fresh "fuel" in let Hf := fresh "Hf" in
  eexists; split; [reflexivity|];
  intros fuel Hf; destruct fuel as [|fuel]; [lia|];
  cbn [dec_node bt]; kc; kb; unfold create_scalar; cbn [bt bnum bsize bptr]; kc; kb.

Lemma gv_dec_null bs : enc_item JNull = Some bs -> gv_dec JNull bs.
Proof. cbn [enc_item]. intros H. inj_bs H. intros rest. rewrite <- app_comm_cons. unfold get_value. kc; kb. gv_fin. reflexivity. Qed.

Lemma gv_dec_bool b bs : enc_item (JBool b) = Some bs -> gv_dec (JBool b) bs.
Proof.
  cbn [enc_item]. intros H. inj_bs H. intros rest. rewrite <- app_comm_cons. unfold get_value.
  destruct b; kc; kb; cbn [bt bsize bcount]; gv_fin; reflexivity.
Qed.

Lemma gv_dec_f64 x bs : wf (JF64 x) = true -> enc_item (JF64 x) = Some bs -> gv_dec (JF64 x) bs.
Proof.
  cbn [wf enc_item]. intros Hw H. apply andb_prop in Hw as [H1 H2]. pw. inj_bs H.
  gv_num_tac. rewrite Z.mod_small by lia. reflexivity.
Qed.

Lemma enc_str s : forallb char_ok s = true ->
  enc_item (JStr s) = Some (jbinn_BINN_STRING :: wr_field (zlen s) ++ s ++ [0]).
Proof. intros H. cbn [enc_item]. destruct (jbinn_STRING_KEEPS_NUL =? 1); [reflexivity|]. rewrite cstr_id by assumption. reflexivity. Qed.

Lemma gv_dec_str s bs : wf (JStr s) = true -> enc_item (JStr s) = Some bs -> zlen bs < 2147483648 -> gv_dec (JStr s) bs.
Proof.
  cbn [wf]. intros Hw H Hl. rewrite enc_str in H by assumption. apply Some_inj in H. subst bs.
  rewrite zlen_cons, !zlen_app in Hl. pose proof (zlen_nonneg (wr_field (zlen s))). change (zlen [0]) with 1 in Hl.
  pose proof (zlen_nonneg s).
  intros rest. rewrite <- app_comm_cons. unfold get_value. kc; kb.
  rewrite <- app_assoc. rewrite rd_field_wr_field by lia. kb. cbn [bt].  kb.
  rewrite zskip_app by reflexivity.
  gv_fin. rewrite <- app_assoc. rewrite zfirst_app by reflexivity. reflexivity.
Qed.

(* ------------------------------------------------------------------ every encoded item: length, AdvanceDataPos, GetValue *)
Lemma wf_obj_inv ms : wf (JObj ms) = true ->
  Forall (fun m => forallb char_ok (fst m) = true /\ zlen (fst m) <= 255 /\ wf (snd m) = true) ms /\ keys_unique (map fst ms) = true.
Proof.
  cbn [wf]. intros H. apply andb_prop in H as [H1 H2]. split; [|assumption].
  rewrite forallb_forall in H1. apply Forall_forall. intros m Hm. specialize (H1 m Hm).
  apply andb_prop in H1 as [H1 H3]. apply andb_prop in H1 as [H1 H4]. change jbinn_MAX_BIN_KEY_LEN with 255 in H4.
  repeat split; try assumption. lia.
Qed.
Lemma wf_arr_inv l : wf (JArr l) = true -> Forall (fun v => wf v = true) l.
Proof. cbn [wf]. intros H. rewrite forallb_forall in H. apply Forall_forall. assumption. Qed.

Lemma enc_container_inv v bs : (exists l, v = JArr l) \/ (exists ms, v = JObj ms) -> enc_item v = Some bs ->
  exists ty size count body,
    bs = ty :: wr_field size ++ wr_field count ++ body /\ size = zlen bs /\ 3 <= size <= 2147483647 /\
    ((ty = jbinn_BINN_LIST /\ exists l bxs, v = JArr l /\ arr_encs l bxs /\ body = concat bxs /\ count = zlen l) \/
     (ty = jbinn_BINN_OBJECT /\ exists ms bxs, v = JObj ms /\ obj_encs ms bxs /\ body = concat bxs /\ count = zlen ms)).
Proof.
  intros [[l ->]|[ms ->]] H.
  - rewrite enc_item_arr in H. destruct (enc_arr_go l [] 0) as [[body cnt]|] eqn:E; [|discriminate].
    destruct (enc_arr_go_spec _ _ _ _ _ E) as (bxs & Hb & -> & ->).
    destruct (save_header_inv _ _ _ _ H) as (size & -> & Hs & Hr).
    exists jbinn_BINN_LIST, size, (0 + zlen l), ([] ++ concat bxs).
    split; [reflexivity|]. split; [assumption|]. split; [lia|].
    left. split; [reflexivity|]. exists l, bxs. split; [reflexivity|]. split; [assumption|]. split; [reflexivity|lia].
  - rewrite enc_item_obj in H. destruct (enc_obj_go ms [] 0) as [[body cnt]|] eqn:E; [|discriminate].
    destruct (enc_obj_go_spec _ _ _ _ _ E) as (bxs & Hb & -> & ->).
    destruct (save_header_inv _ _ _ _ H) as (size & -> & Hs & Hr).
    exists jbinn_BINN_OBJECT, size, (0 + zlen ms), ([] ++ concat bxs).
    split; [reflexivity|]. split; [assumption|]. split; [lia|].
    right. split; [reflexivity|]. exists ms, bxs. split; [reflexivity|]. split; [assumption|]. split; [reflexivity|lia].
Qed.

Lemma item_len_pos v bs : enc_item v = Some bs -> 1 <= zlen bs.
Proof.
  intros H. destruct v.
  - cbn [enc_item] in H. inj_bs H. rewrite zlen_cons. pose proof (zlen_nonneg (@nil Z)). lia.
  - cbn [enc_item] in H. inj_bs H. rewrite zlen_cons. pose proof (zlen_nonneg (@nil Z)). lia.
  - cbn [enc_item] in H. destruct (compress_int n) as [t k]. inj_bs H. rewrite zlen_cons. pose proof (zlen_nonneg (be_bytes k n)). lia.
  - cbn [enc_item] in H. inj_bs H. rewrite zlen_cons. pose proof (zlen_nonneg (be_bytes 8 bits)). lia.
  - cbn [enc_item] in H. apply Some_inj in H. subst bs. rewrite zlen_cons.
    match goal with |- 1 <= 1 + zlen ?l => pose proof (zlen_nonneg l) end. lia.
  - destruct (enc_container_inv (JArr items) bs) as (ty & size & count & body & _ & <- & Hr & _); [left; eauto|assumption|lia].
  - destruct (enc_container_inv (JObj members) bs) as (ty & size & count & body & _ & <- & Hr & _); [right; eauto|assumption|lia].
Qed.

Lemma item_adv v bs : wf v = true -> enc_item v = Some bs -> zlen bs < 2147483648 -> adv_ok bs.
Proof.
  intros Hw H Hl. destruct v.
  - cbn [enc_item] in H. inj_bs H. apply (adv_fixed _ [] 0); [reflexivity|left; split; reflexivity|reflexivity].
  - cbn [enc_item] in H. inj_bs H. destruct b; apply (adv_fixed _ [] 0); try reflexivity; left; split; reflexivity.
  - cbn [enc_item] in H. unfold compress_int in H. kc.
    destruct (n >=? 0); [destruct (n <=? 255); [|destruct (n <=? 65535); [|destruct (n <=? 4294967295)]]
                        |destruct (n >=? -128); [|destruct (n >=? -32768); [|destruct (n >=? -2147483648)]]];
    inj_bs H;
    [ apply (adv_fixed _ _ 1) | apply (adv_fixed _ _ 2) | apply (adv_fixed _ _ 4) | apply (adv_fixed _ _ 8)
    | apply (adv_fixed _ _ 1) | apply (adv_fixed _ _ 2) | apply (adv_fixed _ _ 4) | apply (adv_fixed _ _ 8) ];
    try reflexivity; try (apply be_bytes_zlen); tauto.
  - cbn [enc_item] in H. inj_bs H. apply (adv_fixed _ _ 8); [reflexivity| |apply be_bytes_zlen]. kc. kb. tauto.
  - cbn [wf] in Hw. rewrite enc_str in H by assumption. apply Some_inj in H. subst bs. apply adv_string.
    rewrite zlen_cons, !zlen_app in Hl. pose proof (zlen_nonneg (wr_field (zlen s))). change (zlen [0]) with 1 in Hl. lia.
  - destruct (enc_container_inv (JArr items) bs) as (ty & size & count & body & -> & Hs & Hr & Hk); [left; eauto|assumption|].
    apply adv_container; [destruct Hk as [[-> _]|[-> _]]; tauto|assumption|lia].
  - destruct (enc_container_inv (JObj members) bs) as (ty & size & count & body & -> & Hs & Hr & Hk); [right; eauto|assumption|].
    apply adv_container; [destruct Hk as [[-> _]|[-> _]]; tauto|assumption|lia].
Qed.

(* ------------------------------------------------------------------ the value GetValue reads at an encoded item *)
Definition repr (v : jval) (b : bval) : Prop :=
  exists bs rest, wf v = true /\ enc_item v = Some bs /\ zlen bs < 2147483648 /\ get_value (bs ++ rest) = Some b.

Lemma gv_container ty size count body rest :
  ty = jbinn_BINN_LIST \/ ty = jbinn_BINN_OBJECT -> 3 <= size < 2147483648 -> 0 <= count < 2147483648 ->
  get_value ((ty :: wr_field size ++ wr_field count ++ body) ++ rest)
  = Some (BV ty 0 size count ((ty :: wr_field size ++ wr_field count ++ body) ++ rest)).
Proof.
  intros Hty Hs Hc. rewrite <- app_comm_cons, <- !app_assoc.
  pose proof (read_hdr_saved ty size count (body ++ rest) Hty Hs Hc) as Hh.
  unfold get_value.
  assert (M1 : Z.land ty jbinn_STORAGE_MASK = 224) by (destruct Hty; subst ty; reflexivity).
  assert (M2 : Z.land ty jbinn_STORAGE_HAS_MORE = 0) by (destruct Hty; subst ty; reflexivity).
  rewrite M1, M2. kc. kb. rewrite Hh. cbn [bt bsize bcount].
  destruct Hty; subst ty; kc; kb; reflexivity.
Qed.

Lemma count_bound {A} (l : list A) (bxs : list (list Z)) : length l = length bxs -> Forall (fun bx => 1 <= zlen bx) bxs ->
  zlen l <= zlen (concat bxs).
Proof.
  revert bxs. induction l as [|x r IH]; intros [|bx bs] Hl Hf; simpl in Hl; try discriminate.
  inversion Hf; subst. cbn [concat]. rewrite zlen_cons, zlen_app. injection Hl as Hl. specialize (IH bs Hl H2). lia.
Qed.

Lemma arr_encs_len l bxs : arr_encs l bxs -> length l = length bxs /\ Forall (fun bx => 1 <= zlen bx) bxs.
Proof.
  induction 1 as [|x bx r bs Hx Hr [IH1 IH2]]; [split; [reflexivity|constructor]|].
  split; [simpl; congruence|]. constructor; [eapply item_len_pos; eassumption|assumption].
Qed.
Lemma obj_encs_len l bxs : obj_encs l bxs -> length l = length bxs /\ Forall (fun bx => 1 <= zlen bx) bxs.
Proof.
  induction 1 as [|k x bx r bs Hx Hk Hr [IH1 IH2]]; [split; [reflexivity|constructor]|].
  split; [simpl; congruence|]. constructor; [|assumption]. rewrite zlen_cons. pose proof (zlen_nonneg (k ++ bx)). lia.
Qed.

Lemma gv_total v bs rest : wf v = true -> enc_item v = Some bs -> zlen bs < 2147483648 ->
  exists b, get_value (bs ++ rest) = Some b.
Proof.
  intros Hw H Hl. destruct v.
  - destruct (gv_dec_null bs H rest) as (b & Hb & _). eauto.
  - destruct (gv_dec_bool b bs H rest) as (b' & Hb & _). eauto.
  - destruct (gv_dec_i64 n bs Hw H rest) as (b' & Hb & _). eauto.
  - destruct (gv_dec_f64 bits bs Hw H rest) as (b' & Hb & _). eauto.
  - destruct (gv_dec_str s bs Hw H Hl rest) as (b' & Hb & _). eauto.
  - destruct (enc_container_inv (JArr items) bs) as (ty & size & count & body & -> & Hs & Hr & Hk); [left; eauto|assumption|].
    eexists. apply gv_container; [destruct Hk as [[-> _]|[-> _]]; tauto|lia|].
    destruct Hk as [(_ & l & bxs & _ & He & -> & ->)|(_ & l & bxs & _ & He & -> & ->)].
    + destruct (arr_encs_len _ _ He) as [L1 L2]. pose proof (count_bound l bxs L1 L2). pose proof (zlen_nonneg l).
      rewrite zlen_cons, !zlen_app in Hl. pose proof (zlen_nonneg (wr_field size)). pose proof (zlen_nonneg (wr_field (zlen l))). lia.
    + destruct (obj_encs_len _ _ He) as [L1 L2]. pose proof (count_bound l bxs L1 L2). pose proof (zlen_nonneg l).
      rewrite zlen_cons, !zlen_app in Hl. pose proof (zlen_nonneg (wr_field size)). pose proof (zlen_nonneg (wr_field (zlen l))). lia.
  - destruct (enc_container_inv (JObj members) bs) as (ty & size & count & body & -> & Hs & Hr & Hk); [right; eauto|assumption|].
    eexists. apply gv_container; [destruct Hk as [[-> _]|[-> _]]; tauto|lia|].
    destruct Hk as [(_ & l & bxs & _ & He & -> & ->)|(_ & l & bxs & _ & He & -> & ->)].
    + destruct (arr_encs_len _ _ He) as [L1 L2]. pose proof (count_bound l bxs L1 L2). pose proof (zlen_nonneg l).
      rewrite zlen_cons, !zlen_app in Hl. pose proof (zlen_nonneg (wr_field size)). pose proof (zlen_nonneg (wr_field (zlen l))). lia.
    + destruct (obj_encs_len _ _ He) as [L1 L2]. pose proof (count_bound l bxs L1 L2). pose proof (zlen_nonneg l).
      rewrite zlen_cons, !zlen_app in Hl. pose proof (zlen_nonneg (wr_field size)). pose proof (zlen_nonneg (wr_field (zlen l))). lia.
Qed.

(* ------------------------------------------------------------------ the iterators over an encoded container *)
Lemma list_items_none n cur cnt ty : list_items n (BI None cur cnt ty) = [].
Proof. destruct n; reflexivity. Qed.
Lemma obj_items_none n cur cnt ty : obj_items n (BI None cur cnt ty) = [].
Proof. destruct n; reflexivity. Qed.

Lemma list_next_end p rem cur cnt ty : rem <= 0 -> list_next (BI (Some (p, rem)) cur cnt ty) = None.
Proof. intros H. unfold list_next. cbn [it_p]. replace (rem <=? 0) with true by lia. reflexivity. Qed.
Lemma object_next_end p rem cur cnt ty : rem <= 0 -> object_next (BI (Some (p, rem)) cur cnt ty) = None.
Proof. intros H. unfold object_next. cbn [it_p]. replace (rem <=? 0) with true by lia. reflexivity. Qed.

Lemma list_next_step p rem cur cnt b : rem > 0 -> cur + 1 <= cnt -> get_value p = Some b ->
  list_next (BI (Some (p, rem)) cur cnt jbinn_BINN_LIST) = Some (b, BI (advance p rem) (cur + 1) cnt jbinn_BINN_LIST).
Proof.
  intros Hr Hc Hg. unfold list_next. cbn [it_p it_cur it_cnt it_type].
  replace (rem <=? 0) with false by lia. replace (cur >? cnt) with false by lia.
  rewrite Z.eqb_refl. cbn [negb orb]. replace (cur + 1 >? cnt) with false by lia. rewrite Hg. reflexivity.
Qed.

Lemma object_next_step k p rem cur cnt b : zlen k <= 255 -> rem - 1 - zlen k > 0 -> cur + 1 <= cnt -> get_value p = Some b ->
  object_next (BI (Some (zlen k :: k ++ p, rem)) cur cnt jbinn_BINN_OBJECT)
  = Some (k, b, BI (advance p (rem - 1 - zlen k)) (cur + 1) cnt jbinn_BINN_OBJECT).
Proof.
  intros Hk Hr Hc Hg. unfold object_next. cbn [it_p it_cur it_cnt it_type]. pose proof (zlen_nonneg k).
  replace (rem <=? 0) with false by lia. replace (cur >? cnt) with false by lia.
  rewrite Z.eqb_refl. cbn [negb orb]. replace (cur + 1 >? cnt) with false by lia.
  rewrite zfirst_app by reflexivity. rewrite zskip_app by reflexivity.
  replace (rem - 1 - zlen k <=? 0) with false by lia. rewrite Hg. reflexivity.
Qed.

Lemma list_items_repr l bxs : arr_encs l bxs -> Forall (fun v => wf v = true) l -> zlen (concat bxs) < 2147483648 ->
  forall rest cur n, (length l < n)%nat ->
  Forall2 repr l (list_items n (BI (Some (concat bxs ++ rest, zlen (concat bxs))) cur (cur + zlen l) jbinn_BINN_LIST)).
Proof.
  induction 1 as [|x bx r bs Hx Hr IH]; intros Hw Hlen rest cur n Hn.
  - destruct n as [|n]; [simpl in Hn; lia|]. cbn [list_items concat]. rewrite list_next_end by (rewrite zlen_nil; lia). constructor.
  - destruct n as [|n]; [simpl in Hn; lia|]. inversion Hw as [|? ? Hwx Hwr]; subst.
    cbn [concat] in *. rewrite zlen_app in *. pose proof (item_len_pos _ _ Hx) as Hp. pose proof (zlen_nonneg (concat bs)) as Hq.
    pose proof (zlen_nonneg r) as Hr0.
    destruct (gv_total x bx (concat bs ++ rest) Hwx Hx ltac:(lia)) as (b & Hb).
    cbn [list_items]. rewrite <- app_assoc.
    rewrite (list_next_step _ _ _ _ b) by (try assumption; try (rewrite zlen_cons); lia).
    rewrite (item_adv x bx Hwx Hx ltac:(lia)) by lia.
    replace (zlen bx + zlen (concat bs) - zlen bx) with (zlen (concat bs)) by lia.
    constructor.
    { exists bx, (concat bs ++ rest). repeat split; try assumption. lia. }
    replace (cur + zlen (x :: r)) with (cur + 1 + zlen r) by (rewrite zlen_cons; lia).
    inversion Hr as [|y by_ r' bs' Hy Hr']; subst.
    + cbn [concat]. rewrite zlen_nil. cbn [Z.leb Z.compare]. rewrite list_items_none. constructor.
    + assert (1 <= zlen (concat (by_ :: bs'))).
      { cbn [concat]. rewrite zlen_app. pose proof (item_len_pos _ _ Hy). pose proof (zlen_nonneg (concat bs')). lia. }
      replace (zlen (concat (by_ :: bs')) <=? 0) with false by lia.
      apply IH; try assumption; try lia. simpl in Hn. simpl. lia.
Qed.

Lemma obj_items_repr l bxs : obj_encs l bxs -> Forall (fun m => wf (snd m) = true) l -> zlen (concat bxs) < 2147483648 ->
  forall rest cur n, (length l < n)%nat ->
  Forall2 (fun m kb => fst kb = fst m /\ repr (snd m) (snd kb)) l
          (obj_items n (BI (Some (concat bxs ++ rest, zlen (concat bxs))) cur (cur + zlen l) jbinn_BINN_OBJECT)).
Proof.
  induction 1 as [|k x bx r bs Hx Hk Hr IH]; intros Hw Hlen rest cur n Hn.
  - destruct n as [|n]; [simpl in Hn; lia|]. cbn [obj_items concat]. rewrite object_next_end by (rewrite zlen_nil; lia). constructor.
  - destruct n as [|n]; [simpl in Hn; lia|]. inversion Hw as [|? ? Hwx Hwr]; subst. cbn [snd] in Hwx.
    cbn [concat] in *. rewrite zlen_app, zlen_cons, zlen_app in *.
    pose proof (item_len_pos _ _ Hx) as Hp. pose proof (zlen_nonneg (concat bs)) as Hq. pose proof (zlen_nonneg k).
    pose proof (zlen_nonneg r) as Hr0.
    destruct (gv_total x bx (concat bs ++ rest) Hwx Hx ltac:(lia)) as (b & Hb).
    cbn [obj_items]. rewrite <- !app_assoc, <- app_comm_cons, <- !app_assoc.
    rewrite (object_next_step k _ _ _ _ b) by (try assumption; try (rewrite zlen_cons); lia).
    rewrite (item_adv x bx Hwx Hx ltac:(lia)) by lia.
    replace (1 + (zlen k + zlen bx) + zlen (concat bs) - 1 - zlen k - zlen bx) with (zlen (concat bs)) by lia.
    constructor.
    { cbn [fst snd]. split; [reflexivity|]. exists bx, (concat bs ++ rest). repeat split; try assumption. lia. }
    replace (cur + zlen ((k, x) :: r)) with (cur + 1 + zlen r) by (rewrite zlen_cons; lia).
    inversion Hr as [|k' y by_ r' bs' Hy Hk' Hr']; subst.
    + cbn [concat]. rewrite zlen_nil. cbn [Z.leb Z.compare]. rewrite obj_items_none. constructor.
    + assert (1 <= zlen (concat ((zlen k' :: k' ++ by_) :: bs'))).
      { cbn [concat]. rewrite zlen_app, zlen_cons. pose proof (zlen_nonneg (k' ++ by_)). pose proof (zlen_nonneg (concat bs')). lia. }
      replace (zlen (concat ((zlen k' :: k' ++ by_) :: bs')) <=? 0) with false by lia.
      apply IH; try assumption; try lia. simpl in Hn. simpl. lia.
Qed.

(* ------------------------------------------------------------------ binary -> tree inverts tree -> binary *)
Fixpoint depth (v : jval) : nat :=
  match v with
  | JArr l => S (fold_right (fun x m => Nat.max (depth x) m) 0%nat l)
  | JObj ms => S (fold_right (fun m a => Nat.max (depth (snd m)) a) 0%nat ms)
  | _ => 0%nat
  end.

Lemma container_iter ty size count body rest :
  ty = jbinn_BINN_LIST \/ ty = jbinn_BINN_OBJECT -> 3 <= size < 2147483648 -> 0 <= count < 2147483648 ->
  size = zlen (ty :: wr_field size ++ wr_field count ++ body) ->
  iter_init ((ty :: wr_field size ++ wr_field count ++ body) ++ rest) ty
  = Some (BI (Some (body ++ rest, zlen body)) 0 count ty).
Proof.
  intros Hty Hs Hc Hsz. unfold iter_init. rewrite <- app_comm_cons, <- !app_assoc.
  rewrite (read_hdr_saved ty size count (body ++ rest) Hty Hs Hc). rewrite Z.eqb_refl. cbn [negb].
  assert (A1 : zskip (1 + zlen (wr_field size) + zlen (wr_field count)) (ty :: wr_field size ++ wr_field count ++ body ++ rest)
               = body ++ rest).
  { replace (ty :: wr_field size ++ wr_field count ++ body ++ rest) with ((ty :: wr_field size ++ wr_field count) ++ body ++ rest)
      by (rewrite <- app_comm_cons, <- app_assoc; reflexivity).
    apply zskip_app. rewrite zlen_cons, zlen_app. lia. }
  assert (A2 : size - (1 + zlen (wr_field size) + zlen (wr_field count)) = zlen body).
  { rewrite zlen_cons, !zlen_app in Hsz. lia. }
  rewrite A1, A2. reflexivity.
Qed.

(* what a container value looks like once read *)
Lemma repr_container v b : repr v b -> (exists l, v = JArr l) \/ (exists ms, v = JObj ms) ->
  exists ty count body rest,
    bt b = ty /\ iter_init (bptr b) ty = Some (BI (Some (body ++ rest, zlen body)) 0 count ty) /\ zlen body < 2147483648 /\
    ((ty = jbinn_BINN_LIST /\ exists l bxs, v = JArr l /\ arr_encs l bxs /\ body = concat bxs /\ count = zlen l) \/
     (ty = jbinn_BINN_OBJECT /\ exists ms bxs, v = JObj ms /\ obj_encs ms bxs /\ body = concat bxs /\ count = zlen ms)).
Proof.
  intros (bs & rest & Hw & He & Hl & Hg) Hv.
  destruct (enc_container_inv v bs Hv He) as (ty & size & count & body & -> & Hs & Hr & Hk).
  assert (Hty : ty = jbinn_BINN_LIST \/ ty = jbinn_BINN_OBJECT) by (destruct Hk as [[-> _]|[-> _]]; tauto).
  assert (Hb : zlen body < 2147483648).
  { rewrite zlen_cons, !zlen_app in Hl. pose proof (zlen_nonneg (wr_field size)). pose proof (zlen_nonneg (wr_field count)). lia. }
  assert (Hc : 0 <= count < 2147483648).
  { destruct Hk as [(_ & l & bxs & _ & Hx & -> & ->)|(_ & l & bxs & _ & Hx & -> & ->)].
    - destruct (arr_encs_len _ _ Hx) as [L1 L2]. pose proof (count_bound l bxs L1 L2). pose proof (zlen_nonneg l). lia.
    - destruct (obj_encs_len _ _ Hx) as [L1 L2]. pose proof (count_bound l bxs L1 L2). pose proof (zlen_nonneg l). lia. }
  rewrite gv_container in Hg by (try assumption; lia). apply Some_inj in Hg. subst b.
  exists ty, count, body, rest. cbn [bt bptr]. split; [reflexivity|].
  split; [apply container_iter; try assumption; lia|]. split; assumption.
Qed.

Lemma repr_scalar_dec v b : repr v b -> (forall l, v <> JArr l) -> (forall ms, v <> JObj ms) ->
  forall fuel, (0 < fuel)%nat -> dec_node fuel b = Some v.
Proof.
  intros (bs & rest & Hw & He & Hl & Hg) Ha Ho.
  assert (G : gv_dec v bs).
  { destruct v; [apply gv_dec_null|apply gv_dec_bool|apply gv_dec_i64|apply gv_dec_f64|apply gv_dec_str
                 |exfalso; eapply Ha; reflexivity|exfalso; eapply Ho; reflexivity]; assumption. }
  destruct (G rest) as (b' & Hb' & Hd). rewrite Hg in Hb'. apply Some_inj in Hb'. subst b'. exact Hd.
Qed.

Lemma fold_max_ge {A} (f : A -> nat) l x : In x l -> (f x <= fold_right (fun y m => Nat.max (f y) m) 0 l)%nat.
Proof. induction l as [|y r IH]; [contradiction|]. intros [->|H]; cbn [fold_right]; [lia|]. specialize (IH H). lia. Qed.

Lemma go_list_ok f : forall l bvs, Forall2 repr l bvs ->
  (forall x, In x l -> forall b, repr x b -> dec_node f b = Some x) ->
  (fix go (l0 : list bval) : option (list jval) :=
     match l0 with
     | [] => Some []
     | x :: r => match dec_node f x with
                 | Some v => match go r with Some vs => Some (v :: vs) | None => None end
                 | None => None
                 end
     end) bvs = Some l.
Proof.
  induction 1 as [|x bx r bs' Hxb Hrest IHF]; intros Hd; [reflexivity|].
  rewrite (Hd x (or_introl eq_refl) bx Hxb). rewrite IHF; [reflexivity|]. intros y Hy. apply Hd. right. assumption.
Qed.

Lemma go_obj_ok f : forall ms kbs, Forall2 (fun m kb => fst kb = fst m /\ repr (snd m) (snd kb)) ms kbs ->
  (forall m, In m ms -> forall b, repr (snd m) b -> dec_node f b = Some (snd m)) ->
  (fix go (l0 : list (list Z * bval)) : option (list (list Z * jval)) :=
     match l0 with
     | [] => Some []
     | (k, x) :: r => match dec_node f x with
                      | Some v => match go r with Some vs => Some ((k, v) :: vs) | None => None end
                      | None => None
                      end
     end) kbs = Some ms.
Proof.
  induction 1 as [|m kb r kbs' [Hk Hxb] Hrest IHF]; intros Hd; [reflexivity|].
  destruct kb as [k' bx]. destruct m as [k x]. cbn [fst snd] in *. subst k'.
  rewrite (Hd (k, x) (or_introl eq_refl) bx Hxb). rewrite IHF; [reflexivity|]. intros y Hy. apply Hd. right. assumption.
Qed.

Theorem repr_dec : forall v b, repr v b -> forall fuel, (depth v < fuel)%nat -> dec_node fuel b = Some v.
Proof.
  induction v as [|bb|n|x|s|l IH|ms IH] using jval_ind'; intros b Hr fuel Hf;
    try (apply repr_scalar_dec; [assumption|discriminate|discriminate|lia]).
  - destruct (repr_container _ _ Hr ltac:(left; eauto)) as (ty & count & body & rest & Hbt & Hit & Hb & Hk).
    destruct Hk as [(-> & l' & bxs & E & Hx & -> & ->)|(_ & ms' & bxs & E & _)]; [|discriminate].
    injection E as <-.
    destruct fuel as [|f]; [lia|]. cbn [dec_node]. rewrite Hbt. kc. kb. rewrite Hit.
    destruct Hr as (bs & rest' & Hw & _).
    pose proof (list_items_repr l bxs Hx (wf_arr_inv _ Hw) Hb rest 0 (S (Z.to_nat (zlen l)))) as HI.
    unfold iter_fuel. cbn [it_cnt]. change (0 + zlen l) with (zlen l) in HI.
    specialize (HI ltac:(unfold zlen; rewrite Nat2Z.id; lia)).
    cbn [depth] in Hf. kc.
    rewrite (go_list_ok f l _ HI); [reflexivity|].
    intros x Hx' b' Hb'. rewrite Forall_forall in IH. apply (IH x Hx' b' Hb').
    pose proof (fold_max_ge depth l x Hx'). lia.
  - destruct (repr_container _ _ Hr ltac:(right; eauto)) as (ty & count & body & rest & Hbt & Hit & Hb & Hk).
    destruct Hk as [(_ & l' & bxs & E & _)|(-> & ms' & bxs & E & Hx & -> & ->)]; [discriminate|].
    injection E as <-.
    destruct fuel as [|f]; [lia|]. cbn [dec_node]. rewrite Hbt. kc. kb. rewrite Hit.
    destruct Hr as (bs & rest' & Hw & _).
    destruct (wf_obj_inv _ Hw) as [Hwm _].
    assert (Hwm' : Forall (fun m => wf (snd m) = true) ms) by (eapply Forall_impl; [|exact Hwm]; intros m (_ & _ & H); exact H).
    pose proof (obj_items_repr ms bxs Hx Hwm' Hb rest 0 (S (Z.to_nat (zlen ms)))) as HI.
    unfold iter_fuel. cbn [it_cnt]. change (0 + zlen ms) with (zlen ms) in HI.
    specialize (HI ltac:(unfold zlen; rewrite Nat2Z.id; lia)).
    cbn [depth] in Hf. kc.
    rewrite (go_obj_ok f ms _ HI); [reflexivity|].
    intros m Hm b' Hb'. rewrite Forall_forall in IH. apply (IH m Hm b' Hb').
    pose proof (fold_max_ge (fun m => depth (snd m)) ms m Hm) as Hge. cbn beta in Hge. lia.
Qed.

Lemma in_concat_len (bx : list Z) bxs : In bx bxs -> (length bx <= length (concat bxs))%nat.
Proof. induction bxs as [|y r IH]; [contradiction|]. intros [->|H]; cbn [concat]; rewrite app_length; [lia|]. specialize (IH H). lia. Qed.

Lemma arr_encs_in l bxs x : arr_encs l bxs -> In x l -> exists bx, In bx bxs /\ enc_item x = Some bx.
Proof.
  induction 1 as [|y by_ r bs Hy Hr IH]; [contradiction|]. intros [->|H].
  - exists by_. split; [left; reflexivity|assumption].
  - destruct (IH H) as (bx & Hi & He). exists bx. split; [right; assumption|assumption].
Qed.
Lemma obj_encs_in l bxs m : obj_encs l bxs -> In m l ->
  exists bx bx', In bx' bxs /\ enc_item (snd m) = Some bx /\ (length bx <= length bx')%nat.
Proof.
  induction 1 as [|k y by_ r bs Hy Hk Hr IH]; [contradiction|]. intros [<-|H].
  - exists by_, (zlen k :: k ++ by_). split; [left; reflexivity|]. split; [assumption|]. cbn [length]. rewrite app_length. lia.
  - destruct (IH H) as (bx & bx' & Hi & He & Hl). exists bx, bx'. split; [right; assumption|]. split; assumption.
Qed.

Lemma fold_max_le {A} (f : A -> nat) l n : (forall x, In x l -> (f x <= n)%nat) ->
  (fold_right (fun y m => Nat.max (f y) m) 0 l <= n)%nat.
Proof.
  induction l as [|y r IH]; intros H; cbn [fold_right]; [lia|].
  pose proof (H y (or_introl eq_refl)). specialize (IH (fun x Hx => H x (or_intror Hx))). lia.
Qed.

Lemma depth_le_len : forall v bs, enc_item v = Some bs -> (depth v <= length bs)%nat.
Proof.
  induction v as [|bb|n|x|s|l IH|ms IH] using jval_ind'; intros bs He; try (cbn [depth]; lia).
  - destruct (enc_container_inv (JArr l) bs ltac:(left; eauto) He) as (ty & size & count & body & -> & _ & _ & Hk).
    destruct Hk as [(_ & l' & bxs & E & Hx & -> & _)|(_ & ms' & bxs & E & _)]; [|discriminate]. injection E as <-.
    cbn [depth length]. rewrite !app_length. apply le_n_S.
    apply Nat.le_trans with (length (concat bxs)); [|lia].
    apply fold_max_le. intros x Hin. destruct (arr_encs_in _ _ _ Hx Hin) as (bx & Hi & Hex).
    rewrite Forall_forall in IH. specialize (IH x Hin bx Hex). pose proof (in_concat_len bx bxs Hi). lia.
  - destruct (enc_container_inv (JObj ms) bs ltac:(right; eauto) He) as (ty & size & count & body & -> & _ & _ & Hk).
    destruct Hk as [(_ & l' & bxs & E & _)|(_ & ms' & bxs & E & Hx & -> & _)]; [discriminate|]. injection E as <-.
    cbn [depth length]. rewrite !app_length. apply le_n_S.
    apply Nat.le_trans with (length (concat bxs)); [|lia].
    apply (fold_max_le (fun m => depth (snd m))). intros m Hin. destruct (obj_encs_in _ _ _ Hx Hin) as (bx & bx' & Hi & Hex & Hl).
    rewrite Forall_forall in IH. specialize (IH m Hin bx Hex). pose proof (in_concat_len bx' bxs Hi). lia.
Qed.

(* the whole-document statement *)
Lemma root_repr : forall v bs, wf v = true -> binn_encode v = Some bs ->
  exists b, root_bval bs = Some b /\ repr v b /\ enc_item v = Some bs.
Proof.
  intros v bs Hw He.
  assert (Hc : (exists l, v = JArr l) \/ (exists ms, v = JObj ms)) by (destruct v; try discriminate; eauto).
  assert (He' : enc_item v = Some bs) by (destruct v; try discriminate; exact He).
  destruct (enc_container_inv v bs Hc He') as (ty & size & count & body & Hbs & Hs & Hr & Hk).
  assert (Hl : zlen bs < 2147483648) by lia.
  destruct (gv_total v bs [] Hw He' Hl) as (b & Hb).
  assert (R : repr v b) by (exists bs, []; repeat split; assumption).
  exists b. split; [|split; assumption].
  subst bs. assert (Hty : ty = jbinn_BINN_LIST \/ ty = jbinn_BINN_OBJECT) by (destruct Hk as [[-> _]|[-> _]]; tauto).
  assert (Hcnt : 0 <= count < 2147483648).
  { destruct Hk as [(_ & l & bxs & _ & Hx & -> & ->)|(_ & l & bxs & _ & Hx & -> & ->)].
    - destruct (arr_encs_len _ _ Hx) as [L1 L2]. pose proof (count_bound l bxs L1 L2). pose proof (zlen_nonneg l).
      rewrite zlen_cons, !zlen_app in Hl. pose proof (zlen_nonneg (wr_field size)). pose proof (zlen_nonneg (wr_field (zlen l))). lia.
    - destruct (obj_encs_len _ _ Hx) as [L1 L2]. pose proof (count_bound l bxs L1 L2). pose proof (zlen_nonneg l).
      rewrite zlen_cons, !zlen_app in Hl. pose proof (zlen_nonneg (wr_field size)). pose proof (zlen_nonneg (wr_field (zlen l))). lia. }
  rewrite gv_container in Hb by (try assumption; lia). rewrite app_nil_r in Hb. apply Some_inj in Hb. subst b.
  unfold root_bval. rewrite <- Hs. change jbinn_MIN_BINN_SIZE with 3. replace (size <? 3) with false by lia.
  pose proof (read_hdr_saved ty size count body Hty ltac:(lia) Hcnt) as Hh. rewrite Hh.
  replace (size >? size) with false by lia. reflexivity.
Qed.

Theorem binn_roundtrip : forall v bs, wf v = true -> binn_encode v = Some bs -> binn_decode bs = Some v.
Proof.
  intros v bs Hw He. destruct (root_repr v bs Hw He) as (b & Hroot & R & He').
  unfold binn_decode. rewrite Hroot. apply (repr_dec v b R). pose proof (depth_le_len v bs He'). lia.
Qed.

(* ------------------------------------------------------------------ clones of the binary form *)
Lemma enc_container_save v bs : (exists l, v = JArr l) \/ (exists ms, v = JObj ms) -> enc_item v = Some bs ->
  exists ty body count, save_header ty body count = Some bs /\ (ty = jbinn_BINN_LIST \/ ty = jbinn_BINN_OBJECT) /\
                        0 <= count <= zlen body.
Proof.
  intros [[l ->]|[ms ->]] H.
  - rewrite enc_item_arr in H. destruct (enc_arr_go l [] 0) as [[body cnt]|] eqn:E; [|discriminate].
    destruct (enc_arr_go_spec _ _ _ _ _ E) as (bxs & Hb & -> & ->).
    exists jbinn_BINN_LIST, ([] ++ concat bxs), (0 + zlen l). split; [assumption|]. split; [tauto|].
    destruct (arr_encs_len _ _ Hb) as [L1 L2]. pose proof (count_bound l bxs L1 L2). pose proof (zlen_nonneg l). cbn [app]. lia.
  - rewrite enc_item_obj in H. destruct (enc_obj_go ms [] 0) as [[body cnt]|] eqn:E; [|discriminate].
    destruct (enc_obj_go_spec _ _ _ _ _ E) as (bxs & Hb & -> & ->).
    exists jbinn_BINN_OBJECT, ([] ++ concat bxs), (0 + zlen ms). split; [assumption|]. split; [tauto|].
    destruct (obj_encs_len _ _ Hb) as [L1 L2]. pose proof (count_bound ms bxs L1 L2). pose proof (zlen_nonneg ms). cbn [app]. lia.
Qed.

Theorem binn_clone_same : forall v bs, binn_encode v = Some bs ->
  binn_clone bs = Some bs /\ binn_clone_into_pool bs = Some bs.
Proof.
  intros v bs He.
  assert (Hc : (exists l, v = JArr l) \/ (exists ms, v = JObj ms)) by (destruct v; try discriminate; eauto).
  assert (He' : enc_item v = Some bs) by (destruct v; try discriminate; exact He).
  destruct (enc_container_save v bs Hc He') as (ty & body & count & Hsave & Hty & Hcnt).
  destruct (save_header_inv _ _ _ _ Hsave) as (size & Hbs & Hs & Hr).
  assert (Hl : zlen body < 2147483648).
  { subst bs. rewrite zlen_cons, !zlen_app in Hs. pose proof (zlen_nonneg (wr_field size)). pose proof (zlen_nonneg (wr_field count)). lia. }
  pose proof (read_hdr_saved ty size count body Hty ltac:(lia) ltac:(lia)) as Hh. rewrite <- Hbs in Hh.
  split.
  - unfold binn_clone. rewrite Hh.
    assert (A : firstn (Z.to_nat (size - (1 + zlen (wr_field size) + zlen (wr_field count))))
                  (zskip (1 + zlen (wr_field size) + zlen (wr_field count)) bs) = body).
    { rewrite Hbs.
      replace (ty :: wr_field size ++ wr_field count ++ body) with ((ty :: wr_field size ++ wr_field count) ++ body)
        by (rewrite <- app_comm_cons, <- app_assoc; reflexivity).
      rewrite zskip_app by (rewrite zlen_cons, zlen_app; lia).
      replace (size - (1 + zlen (wr_field size) + zlen (wr_field count))) with (zlen body)
        by (rewrite Hbs in Hs; rewrite zlen_cons, !zlen_app in Hs; lia).
      unfold zlen. rewrite Nat2Z.id. apply firstn_all. }
    rewrite A. exact Hsave.
  - unfold binn_clone_into_pool. rewrite Hh. f_equal. rewrite Hs. unfold zfirst, zlen. rewrite Nat2Z.id. apply firstn_all.
Qed.
