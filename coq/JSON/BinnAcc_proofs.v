(* proofs about JSON/BinnAcc.v (family jbinn, C14, deepening round):
   A. the encoder succeeds exactly on the documents the executable guard accepts (totality + exactness);
   B. the printer of the binary form writes what C13's value-level model print_jbl writes, hence (every flag set)
      what the tree printer writes;
   C. jbl_type / jbl_count / the public iterator / the keyed accessors against the value of the document. *)
Require Import ZArith List Bool Lia Btauto. Import ListNotations.
Require Import IW.Gen.Facts IW.JSON.Val IW.JSON.Binn IW.JSON.Binn_proofs IW.JSON.Text IW.JSON.BinnAcc.
Require Import IW.JSON.WriteBack IW.JSON.WriteBack_proofs.
Require IW.JSON.Ptr.
Local Open Scope Z_scope.
Ltac Zify.zify_post_hook ::= Z.div_mod_to_equations.

(* ================================================================== A. totality and exactness of the encoder guard *)

(* AdvanceDataPos steps over every encoded item - no well-formedness needed (item_adv of Binn_proofs asks for wf only to
   rewrite the string case) *)
Lemma item_adv_any v bs : enc_item v = Some bs -> zlen bs < 2147483648 -> adv_ok bs.
Proof.
  intros H Hl. destruct v.
  - cbn [enc_item] in H. inj_bs H. apply (adv_fixed _ [] 0); [reflexivity|left; split; reflexivity|reflexivity].
  - cbn [enc_item] in H. inj_bs H. destruct b; apply (adv_fixed _ [] 0); try reflexivity; left; split; reflexivity.
  - cbn [enc_item] in H. unfold compress_int in H. kc.
    destruct (n >=? 0); [destruct (n <=? 255); [|destruct (n <=? 65535); [|destruct (n <=? 4294967295)]]
                        |destruct (n >=? -128); [|destruct (n >=? -32768); [|destruct (n >=? -2147483648)]]];
    inj_bs H;
    [ apply (adv_fixed _ _ 1) | apply (adv_fixed _ _ 2) | apply (adv_fixed _ _ 4) | apply (adv_fixed _ _ 8)
    | apply (adv_fixed _ _ 1) | apply (adv_fixed _ _ 2) | apply (adv_fixed _ _ 4) | apply (adv_fixed _ _ 8) ];
    try reflexivity; try (apply be_bytes_zlen); tauto.
  - cbn [enc_item] in H. inj_bs H. apply (adv_fixed _ _ 8); [reflexivity| |apply be_bytes_zlen]. kc. kb. tauto.
  - cbn [enc_item] in H. apply Some_inj in H. subst bs.
    match goal with |- adv_ok (_ :: wr_field (zlen ?x) ++ _ ++ _) => set (s' := x) in * end.
    apply adv_string. rewrite zlen_cons, !zlen_app in Hl. pose proof (zlen_nonneg (wr_field (zlen s'))).
    change (zlen [0]) with 1 in Hl. lia.
  - destruct (enc_container_inv (JArr items) bs) as (ty & size & count & body & -> & Hs & Hr & Hk); [left; eauto|assumption|].
    apply adv_container; [destruct Hk as [[-> _]|[-> _]]; tauto|assumption|lia].
  - destruct (enc_container_inv (JObj members) bs) as (ty & size & count & body & -> & Hs & Hr & Hk); [right; eauto|assumption|].
    apply adv_container; [destruct Hk as [[-> _]|[-> _]]; tauto|assumption|lia].
Qed.

(* strncasecmp reads only the n bytes it is asked to compare *)
Lemma strnieq_0 a b : strnieq a b 0 = true. Proof. destruct a; reflexivity. Qed.
Lemma strnieq_app a rest b : strnieq (a ++ rest) b (length a) = strnieq a b (length a).
Proof.
  revert b. induction a as [|x a IH]; intros b; [cbn [length]; rewrite !strnieq_0; reflexivity|].
  destruct b as [|y b]; [reflexivity|]. cbn [length app strnieq].
  destruct (tolower x =? tolower y); [|reflexivity]. destruct (x =? 0); [reflexivity|]. apply IH.
Qed.

(* the item area of an object under construction: (name, encoded value) entries *)
Definition entry (e : list Z * list Z) : list Z := zlen (fst e) :: fst e ++ snd e.
Definition flat (es : list (list Z * list Z)) : list Z := concat (map entry es).
Definition good_entry (e : list Z * list Z) : Prop := zlen (fst e) <= 255 /\ adv_ok (snd e) /\ 1 <= zlen (snd e).

Lemma flat_cons e es : flat (e :: es) = entry e ++ flat es. Proof. reflexivity. Qed.
Lemma flat_app a b : flat (a ++ b) = flat a ++ flat b.
Proof. unfold flat. rewrite map_app, concat_app. reflexivity. Qed.
Lemma zlen_entry e : zlen (entry e) = 1 + zlen (fst e) + zlen (snd e).
Proof. unfold entry. rewrite zlen_cons, zlen_app. lia. Qed.
Lemma zlen_flat_nonneg es : 0 <= zlen (flat es). Proof. apply zlen_nonneg. Qed.

(* where SearchForKey stops: behind the first stored name that clashes with `key` *)
Fixpoint find_entry (key : list Z) (es : list (list Z * list Z)) (rest : list Z) : option (list Z) :=
  match es with
  | [] => None
  | e :: r => if key_clash (fst e) key then Some (snd e ++ flat r ++ rest) else find_entry key r rest
  end.

Lemma search_pos_flat key rest : forall es, Forall good_entry es ->
  search_pos (length es) (flat es ++ rest) (zlen (flat es)) key = find_entry key es rest.
Proof.
  induction es as [|[k bx] es IH]; intros Hg; [reflexivity|].
  inversion Hg as [|? ? (Hk & Ha & Hp) Hg']; subst. cbn [fst snd] in *.
  assert (Hshape : flat ((k, bx) :: es) ++ rest = zlen k :: k ++ bx ++ flat es ++ rest).
  { rewrite flat_cons. unfold entry. cbn [fst snd app]. rewrite <- !app_assoc. reflexivity. }
  assert (Hlen : zlen (flat ((k, bx) :: es)) = 1 + zlen k + zlen bx + zlen (flat es)).
  { rewrite flat_cons, zlen_app, zlen_entry. reflexivity. }
  rewrite Hshape, Hlen. cbn [length search_pos find_entry fst snd].
  pose proof (zlen_nonneg k) as Hk0. pose proof (zlen_flat_nonneg es) as Hf0.
  replace (1 + zlen k + zlen bx + zlen (flat es) - 1 <=? 0) with false by lia.
  assert (Hnat : Z.to_nat (zlen k) = length k) by (unfold zlen; apply Nat2Z.id).
  assert (Hskip : zskip (zlen k) (k ++ bx ++ flat es ++ rest) = bx ++ flat es ++ rest) by (apply zskip_app; reflexivity).
  assert (Hadv : advance (bx ++ flat es ++ rest) (zlen bx + zlen (flat es)) =
                 if zlen (flat es) <=? 0 then None else Some (flat es ++ rest, zlen (flat es))).
  { rewrite (Ha (flat es ++ rest) (zlen bx + zlen (flat es))) by lia.
    replace (zlen bx + zlen (flat es) - zlen bx) with (zlen (flat es)) by lia. reflexivity. }
  assert (Hend : zlen (flat es) <= 0 -> es = []).
  { intros Hz. destruct es as [|e es']; [reflexivity|]. rewrite flat_cons, zlen_app, zlen_entry in Hz.
    pose proof (zlen_nonneg (fst e)). pose proof (zlen_nonneg (snd e)). pose proof (zlen_flat_nonneg es'). lia. }
  unfold key_clash.
  destruct (zlen k >? 0) eqn:Ekl.
  - rewrite Hnat, strnieq_app.
    destruct (strnieq k (key ++ [0]) (length k) && (zlen key =? zlen k)) eqn:Em.
    + rewrite Hskip. reflexivity.
    + replace (1 + zlen k + zlen bx + zlen (flat es) - 1 - zlen k <=? 0) with false by lia.
      rewrite Hskip. replace (1 + zlen k + zlen bx + zlen (flat es) - 1 - zlen k) with (zlen bx + zlen (flat es)) by lia.
      rewrite Hadv. destruct (zlen (flat es) <=? 0) eqn:Ez.
      * rewrite (Hend ltac:(lia)). reflexivity.
      * apply IH. assumption.
  - assert (Hk1 : zlen k = 0) by lia. assert (Hknil : k = []) by (destruct k; [reflexivity|rewrite zlen_cons in Hk1; pose proof (zlen_nonneg k); lia]).
    subst k. cbn [app]. rewrite zlen_nil. replace (0 =? zlen key) with (zlen (@nil Z) =? zlen key) by reflexivity.
    rewrite zlen_nil.
    destruct (0 =? zlen key) eqn:Em; [reflexivity|].
    replace (1 + 0 + zlen bx + zlen (flat es) - 1) with (zlen bx + zlen (flat es)) by lia.
    rewrite Hadv. destruct (zlen (flat es) <=? 0) eqn:Ez.
    + rewrite (Hend ltac:(lia)). reflexivity.
    + apply IH. assumption.
Qed.

Lemma search_key_pos key : forall n p rem,
  search_key n p rem key = match search_pos n p rem key with Some _ => true | None => false end.
Proof.
  induction n as [|n IH]; intros p rem; [reflexivity|].
  cbn [search_key search_pos]. destruct p as [|len p1]; [reflexivity|].
  destruct (rem - 1 <=? 0); [reflexivity|].
  destruct (len >? 0).
  - destruct (strnieq p1 (key ++ [0]) (Z.to_nat len) && (zlen key =? len)); [reflexivity|].
    destruct (rem - 1 - len <=? 0); [reflexivity|].
    destruct (advance (zskip len p1) (rem - 1 - len)) as [[q r]|]; [apply IH|reflexivity].
  - destruct (len =? zlen key); [reflexivity|].
    destruct (advance p1 (rem - 1)) as [[q r]|]; [apply IH|reflexivity].
Qed.

Lemma find_entry_exists key rest : forall es,
  match find_entry key es rest with Some _ => true | None => false end = existsb (fun s => key_clash s key) (map fst es).
Proof.
  induction es as [|e es IH]; [reflexivity|]. cbn [find_entry map existsb]. destruct (key_clash (fst e) key); [reflexivity|apply IH].
Qed.

(* SearchForKey over the members written so far = "some stored name clashes" (WriteBack.key_clash) *)
Lemma search_key_flat key es : Forall good_entry es ->
  search_key (length es) (flat es) (zlen (flat es)) key = existsb (fun s => key_clash s key) (map fst es).
Proof.
  intros Hg. rewrite search_key_pos. rewrite <- (app_nil_r (flat es)) at 1. rewrite (search_pos_flat key [] es Hg).
  apply find_entry_exists.
Qed.

(* ------------------------------------------------------------------ sizes *)
Lemma save_header_total ty body count :
  save_header ty body count =
  if hdr_total (zlen body) count >? 2147483647 then None
  else Some (ty :: wr_field (hdr_total (zlen body) count) ++ wr_field count ++ body).
Proof. reflexivity. Qed.

Lemma save_header_len ty body count bs : save_header ty body count = Some bs -> zlen bs = hdr_total (zlen body) count.
Proof.
  intros H. rewrite save_header_total in H. destruct (hdr_total (zlen body) count >? 2147483647); [discriminate|].
  apply Some_inj in H. subst bs. rewrite zlen_cons, !zlen_app, !wr_field_len.
  unfold hdr_total. change jbinn_MIN_BINN_SIZE with 3.
  set (size0 := zlen body + 3).
  set (size1 := if count >? 127 then size0 + 3 else size0).
  set (size2 := if size1 >? 127 then size1 + 3 else size1).
  pose proof (zlen_nonneg body) as Hb.
  assert (Hs : (size2 >? 127) = (size1 >? 127)) by (subst size2; destruct (size1 >? 127) eqn:E1; lia).
  rewrite Hs. subst size2 size1 size0.
  destruct (count >? 127); destruct (zlen body + 3 + 3 >? 127) eqn:E2; destruct (zlen body + 3 >? 127) eqn:E3; lia.
Qed.

Lemma hdr_total_ge blen cnt : 0 <= blen -> blen + 3 <= hdr_total blen cnt.
Proof.
  intros H. unfold hdr_total. change jbinn_MIN_BINN_SIZE with 3.
  repeat match goal with |- context [if ?c then _ else _] => destruct c eqn:? end; lia.
Qed.

Definition sum_arr (l : list jval) : Z := fold_right (fun x a => enc_size x + a) 0 l.
Definition sum_obj (l : list (list Z * jval)) : Z := fold_right (fun m a => 1 + zlen (fst m) + enc_size (snd m) + a) 0 l.

Lemma enc_size_arr l : enc_size (JArr l) = hdr_total (sum_arr l) (zlen l). Proof. reflexivity. Qed.
Lemma enc_size_obj l : enc_size (JObj l) = hdr_total (sum_obj l) (zlen l). Proof. reflexivity. Qed.

Lemma enc_size_pos : forall v, 1 <= enc_size v.
Proof.
  induction v as [|bb|n|x|s|l IH|ms IH] using jval_ind'; try (cbn [enc_size]; lia).
  - cbn [enc_size]. match goal with |- context [zlen ?s'] => pose proof (zlen_nonneg s') end.
    match goal with |- context [if ?c then 4 else 1] => destruct c end; lia.
  - rewrite enc_size_arr. assert (0 <= sum_arr l).
    { induction IH as [|x r Hx Hr IHr]; cbn [sum_arr fold_right]; [lia|]. fold (sum_arr r). lia. }
    pose proof (hdr_total_ge (sum_arr l) (zlen l) H). lia.
  - rewrite enc_size_obj. assert (0 <= sum_obj ms).
    { induction IH as [|x r Hx Hr IHr]; cbn [sum_obj fold_right]; [lia|]. fold (sum_obj r). pose proof (zlen_nonneg (fst x)). lia. }
    pose proof (hdr_total_ge (sum_obj ms) (zlen ms) H). lia.
Qed.

Lemma sum_arr_nonneg l : 0 <= sum_arr l.
Proof. induction l as [|x r IH]; cbn [sum_arr fold_right]; [lia|]. fold (sum_arr r). pose proof (enc_size_pos x). lia. Qed.
Lemma sum_obj_nonneg l : 0 <= sum_obj l.
Proof.
  induction l as [|x r IH]; cbn [sum_obj fold_right]; [lia|]. fold (sum_obj r).
  pose proof (enc_size_pos (snd x)). pose proof (zlen_nonneg (fst x)). lia.
Qed.

Lemma existsb_map {A B} (g : A -> B) (f : B -> bool) l : existsb f (map g l) = existsb (fun x => f (g x)) l.
Proof. induction l as [|x r IH]; [reflexivity|]. cbn [map existsb]. rewrite IH. reflexivity. Qed.

Lemma zlen_map {A B} (g : A -> B) l : zlen (map g l) = zlen l.
Proof. unfold zlen. rewrite map_length. reflexivity. Qed.
Lemma to_nat_zlen {A} (l : list A) : Z.to_nat (zlen l) = length l.
Proof. unfold zlen. apply Nat2Z.id. Qed.

(* ------------------------------------------------------------------ success => the guard holds *)
(* the loop over the members: when it succeeds (and the body stays below 2^31) every name passed set_ok *)
Lemma enc_obj_go_keys : forall l es body' cnt',
  Forall good_entry es -> enc_obj_go l (flat es) (zlen es) = Some (body', cnt') -> zlen body' < 2147483648 ->
  keys_seq (map fst es) (map fst l) = true.
Proof.
  induction l as [|[k x] r IH]; intros es body' cnt' Hg H Hl; [reflexivity|].
  cbn [enc_obj_go] in H. destruct (enc_item x) as [bx|] eqn:Ex; [|discriminate].
  destruct (zlen k >? jbinn_MAX_BIN_KEY_LEN) eqn:Ek; [discriminate|].
  destruct (search_key (Z.to_nat (zlen es)) (flat es) (zlen (flat es)) k) eqn:Es; [discriminate|].
  rewrite to_nat_zlen in Es. rewrite (search_key_flat k es Hg) in Es.
  cbn [map keys_seq fst]. rewrite set_ok_eq. change JP_BINN_KEY_MAX with 255. change jbinn_MAX_BIN_KEY_LEN with 255 in Ek.
  replace (zlen k <=? 255) with true by lia. rewrite Es. cbn [negb andb].
  destruct (enc_obj_go_spec _ _ _ _ _ H) as (bs & _ & Hb & _).
  assert (Hbx : zlen bx < 2147483648).
  { rewrite Hb in Hl. rewrite !zlen_app, zlen_cons, zlen_app in Hl.
    pose proof (zlen_flat_nonneg es). pose proof (zlen_nonneg k). pose proof (zlen_nonneg (concat bs)). lia. }
  replace (map fst es ++ [k]) with (map fst (es ++ [(k, bx)])) by (rewrite map_app; reflexivity).
  apply (IH (es ++ [(k, bx)]) body' cnt').
  - apply Forall_app. split; [assumption|]. constructor; [|constructor]. unfold good_entry. cbn [fst snd].
    split; [lia|]. split; [apply (item_adv_any x); assumption|apply (item_len_pos x); assumption].
  - rewrite flat_app. unfold flat at 2. cbn [map concat]. rewrite app_nil_r. unfold entry. cbn [fst snd].
    replace (zlen (es ++ [(k, bx)])) with (zlen es + 1) by (rewrite zlen_app; reflexivity). exact H.
  - assumption.
Qed.

Lemma zlen_concat_arr l bxs : arr_encs l bxs -> Forall2 (fun x bx => zlen bx = enc_size x) l bxs -> zlen (concat bxs) = sum_arr l.
Proof.
  induction 1 as [|x bx r bs Hx Hr IH]; intros F; [reflexivity|]. inversion F; subst.
  cbn [concat sum_arr fold_right]. fold (sum_arr r). rewrite zlen_app. rewrite IH by assumption. lia.
Qed.
Lemma zlen_concat_obj l bxs : obj_encs l bxs ->
  (forall m bx, In m l -> enc_item (snd m) = Some bx -> zlen bx = enc_size (snd m)) -> zlen (concat bxs) = sum_obj l.
Proof.
  induction 1 as [|k x bx r bs Hx Hk Hr IH]; intros F; [reflexivity|].
  cbn [concat sum_obj fold_right]. fold (sum_obj r). rewrite zlen_app, zlen_cons, zlen_app. cbn [fst snd].
  rewrite IH by (intros m b' Hm; apply F; right; assumption).
  rewrite (F (k, x) bx (or_introl eq_refl) Hx). cbn [snd]. lia.
Qed.

Lemma Forall2_imp {A B} (P Q : A -> B -> Prop) l l' : (forall a b, P a b -> Q a b) -> Forall2 P l l' -> Forall2 Q l l'.
Proof. intros H. induction 1; constructor; auto. Qed.

Lemma arr_all (P : jval -> list Z -> Prop) l bxs : arr_encs l bxs ->
  Forall (fun x => forall bx, enc_item x = Some bx -> zlen bx < 2147483648 -> P x bx) l ->
  (forall bx, In bx bxs -> zlen bx < 2147483648) -> Forall2 P l bxs.
Proof.
  induction 1 as [|x bx r bs' Hex Hr IHx]; intros HF Hsub; [constructor|].
  inversion HF as [|? ? Hx' Hr']; subst. constructor.
  - apply Hx'; [assumption|apply Hsub; left; reflexivity].
  - apply IHx; [assumption|intros b' Hb'; apply Hsub; right; assumption].
Qed.

Theorem enc_success_guard : forall v bs, enc_item v = Some bs -> zlen bs < 2147483648 ->
  representable v = true /\ fits v = true /\ zlen bs = enc_size v.
Proof.
  induction v as [|bb|n|x|s|l IH|ms IH] using jval_ind'; intros bs He Hl.
  - cbn [enc_item] in He. inj_bs He. repeat split.
  - cbn [enc_item] in He. inj_bs He. repeat split.
  - cbn [enc_item enc_size] in *. destruct (compress_int n) as [t k]. inj_bs He. repeat split.
    rewrite zlen_cons, be_bytes_zlen. reflexivity.
  - cbn [enc_item enc_size] in *. inj_bs He. repeat split.
  - cbn [enc_item enc_size] in *. apply Some_inj in He. subst bs. repeat split.
    rewrite zlen_cons, !zlen_app, wr_field_len. change (zlen [0]) with 1. lia.
  - destruct (enc_container_inv (JArr l) bs ltac:(left; eauto) He) as (ty & size & count & body & Hbs & Hs & Hr & Hk).
    destruct Hk as [(_ & l' & bxs & E & Hx & Hb & Hc)|(_ & ms' & bxs & E & _)]; [|discriminate]. injection E as <-.
    assert (Hall : Forall2 (fun x bx => representable x = true /\ fits x = true /\ zlen bx = enc_size x) l bxs).
    { assert (Hsub : forall bx, In bx bxs -> zlen bx < 2147483648).
      { intros bx Hi. pose proof (in_concat_len bx bxs Hi) as Hle. subst body. subst bs.
        rewrite zlen_cons, !zlen_app in Hs. pose proof (zlen_nonneg (wr_field size)). pose proof (zlen_nonneg (wr_field count)).
        unfold zlen in *. lia. }
      apply (arr_all _ l bxs Hx); [|exact Hsub]. eapply Forall_impl; [|exact IH]. intros a Ha bx Hex Hlt. apply Ha; assumption. }
    assert (Hsz : zlen bs = enc_size (JArr l)).
    { rewrite enc_item_arr in He. destruct (enc_arr_go l [] 0) as [[body0 cnt0]|] eqn:Eg; [|discriminate].
      destruct (enc_arr_go_spec _ _ _ _ _ Eg) as (bxs' & Hx' & -> & ->).
      rewrite (save_header_len _ _ _ _ He). rewrite enc_size_arr. cbn [app]. change (0 + zlen l) with (zlen l). f_equal.
      assert (bxs' = bxs).
      { clear - Hx Hx'. revert bxs' Hx'. induction Hx as [|x bx r bs' Hex Hr' IHx]; intros bxs' Hx'; inversion Hx'; subst; [reflexivity|].
        f_equal; [congruence|apply IHx; assumption]. }
      subst bxs'. apply zlen_concat_arr; [assumption|]. eapply Forall2_imp; [|exact Hall]. intros a b (_ & _ & H). exact H. }
    split; [|split; [|exact Hsz]].
    + cbn [representable]. apply forallb_forall. intros x Hin.
      clear - Hall Hin. induction Hall as [|a b r bs' (Ha & _) Hr IHa]; [contradiction|]. destruct Hin as [<-|Hin]; [assumption|apply IHa; assumption].
    + cbn [fits]. apply andb_true_intro. split.
      * apply forallb_forall. intros x Hin.
        clear - Hall Hin. induction Hall as [|a b r bs' (_ & Ha & _) Hr IHa]; [contradiction|]. destruct Hin as [<-|Hin]; [assumption|apply IHa; assumption].
      * rewrite <- Hsz. unfold BINN_MAX_SIZE. lia.
  - destruct (enc_container_inv (JObj ms) bs ltac:(right; eauto) He) as (ty & size & count & body & Hbs & Hs & Hr & Hk).
    destruct Hk as [(_ & l' & bxs & E & _)|(_ & ms' & bxs & E & Hx & Hb & Hc)]; [discriminate|]. injection E as <-.
    assert (Hsub : forall bx', In bx' bxs -> zlen bx' < 2147483648).
    { intros bx Hi. pose proof (in_concat_len bx bxs Hi) as Hle. subst body. subst bs.
      rewrite zlen_cons, !zlen_app in Hs. pose proof (zlen_nonneg (wr_field size)). pose proof (zlen_nonneg (wr_field count)).
      unfold zlen in *. lia. }
    assert (Hall : forall m bx, In m ms -> enc_item (snd m) = Some bx ->
                   representable (snd m) = true /\ fits (snd m) = true /\ zlen bx = enc_size (snd m)).
    { intros m bx Hm Hex. rewrite Forall_forall in IH. apply (IH m Hm bx Hex).
      destruct (obj_encs_in _ _ _ Hx Hm) as (bx0 & bx' & Hi & Hex0 & Hle). rewrite Hex in Hex0. injection Hex0 as <-.
      pose proof (Hsub bx' Hi). unfold zlen in *. lia. }
    assert (Hex_all : forall m, In m ms -> exists bx, enc_item (snd m) = Some bx).
    { intros m Hm. destruct (obj_encs_in _ _ _ Hx Hm) as (bx0 & bx' & _ & Hex0 & _). eauto. }
    rewrite enc_item_obj in He. destruct (enc_obj_go ms [] 0) as [[body0 cnt0]|] eqn:Eg; [|discriminate].
    destruct (enc_obj_go_spec _ _ _ _ _ Eg) as (bxs' & Hx' & Hb0 & Hc0). cbn [app] in Hb0.
    assert (Hkeys : keys_ok (map fst ms) = true).
    { rewrite <- keys_seq_nil. change (@nil (list Z)) with (map (@fst (list Z) (list Z)) []).
      apply (enc_obj_go_keys ms [] body0 cnt0); [constructor|exact Eg|].
      pose proof (save_header_len _ _ _ _ He) as Hlen. pose proof (hdr_total_ge (zlen body0) cnt0 (zlen_nonneg body0)). lia. }
    assert (Hsz : zlen bs = enc_size (JObj ms)).
    { rewrite (save_header_len _ _ _ _ He). rewrite enc_size_obj. subst body0 cnt0. change (0 + zlen ms) with (zlen ms). f_equal.
      apply zlen_concat_obj; [assumption|]. intros m bx Hm Hex. apply (Hall m bx Hm Hex). }
    split; [|split; [|exact Hsz]].
    + cbn [representable]. apply andb_true_intro. split; [|exact Hkeys].
      apply forallb_forall. intros m Hm. destruct (Hex_all m Hm) as (bx & Hex). apply (Hall m bx Hm Hex).
    + cbn [fits]. apply andb_true_intro. split.
      * apply forallb_forall. intros m Hm. destruct (Hex_all m Hm) as (bx & Hex). apply (Hall m bx Hm Hex).
      * rewrite <- Hsz. unfold BINN_MAX_SIZE. lia.
Qed.

(* ------------------------------------------------------------------ the guard holds => success *)
Lemma enc_arr_go_total : forall l body cnt,
  Forall (fun x => exists bx, enc_item x = Some bx /\ zlen bx = enc_size x) l ->
  exists body', enc_arr_go l body cnt = Some (body', cnt + zlen l) /\ zlen body' = zlen body + sum_arr l.
Proof.
  induction l as [|x r IH]; intros body cnt HF.
  - exists body. cbn [enc_arr_go sum_arr fold_right]. rewrite zlen_nil. split; [f_equal; f_equal; lia|lia].
  - inversion HF as [|? ? (bx & Hx & Hs) Hr]; subst. cbn [enc_arr_go]. rewrite Hx.
    destruct (IH (body ++ bx) (cnt + 1) Hr) as (body' & Hgo & Hlen). exists body'. rewrite Hgo. split.
    + f_equal. f_equal. rewrite zlen_cons. lia.
    + rewrite Hlen, zlen_app. cbn [sum_arr fold_right]. fold (sum_arr r). lia.
Qed.

Lemma enc_obj_go_total : forall l es,
  Forall good_entry es ->
  Forall (fun m => exists bx, enc_item (snd m) = Some bx /\ zlen bx = enc_size (snd m)) l ->
  keys_seq (map fst es) (map fst l) = true ->
  zlen (flat es) + sum_obj l < 2147483648 ->
  exists body', enc_obj_go l (flat es) (zlen es) = Some (body', zlen es + zlen l) /\ zlen body' = zlen (flat es) + sum_obj l.
Proof.
  induction l as [|[k x] r IH]; intros es Hg HF Hk Hsz.
  - exists (flat es). cbn [enc_obj_go sum_obj fold_right]. rewrite zlen_nil. split; [f_equal; f_equal; lia|lia].
  - inversion HF as [|? ? (bx & Hx & Hs) Hr]; subst. cbn [fst snd] in *.
    cbn [map keys_seq fst] in Hk. apply andb_prop in Hk as [Hset Hk]. rewrite set_ok_eq in Hset.
    apply andb_prop in Hset as [Hlen Hno]. change JP_BINN_KEY_MAX with 255 in Hlen. apply negb_true_iff in Hno.
    cbn [sum_obj fold_right fst snd] in Hsz. fold (sum_obj r) in Hsz.
    pose proof (sum_obj_nonneg r) as Hr0. pose proof (zlen_nonneg k) as Hk0. pose proof (zlen_flat_nonneg es) as Hf0.
    pose proof (enc_size_pos x) as Hx0.
    cbn [enc_obj_go]. rewrite Hx. change jbinn_MAX_BIN_KEY_LEN with 255. replace (zlen k >? 255) with false by lia.
    rewrite to_nat_zlen, (search_key_flat k es Hg), Hno.
    assert (Hge : good_entry (k, bx)).
    { unfold good_entry. cbn [fst snd]. split; [lia|]. split; [apply (item_adv_any x); [assumption|lia]|apply (item_len_pos x); assumption]. }
    assert (Hfl : flat (es ++ [(k, bx)]) = flat es ++ zlen k :: k ++ bx).
    { rewrite flat_app. unfold flat at 2. cbn [map concat]. rewrite app_nil_r. reflexivity. }
    destruct (IH (es ++ [(k, bx)])) as (body' & Hgo & Hlen').
    + apply Forall_app. split; [assumption|constructor; [assumption|constructor]].
    + assumption.
    + rewrite map_app. exact Hk.
    + rewrite Hfl, zlen_app, zlen_cons, zlen_app. lia.
    + exists body'. rewrite Hfl in Hgo. replace (zlen (es ++ [(k, bx)])) with (zlen es + 1) in Hgo by (rewrite zlen_app; reflexivity).
      rewrite Hgo. split.
      * f_equal. f_equal. rewrite zlen_cons. lia.
      * rewrite Hlen', Hfl, zlen_app, zlen_cons, zlen_app. cbn [sum_obj fold_right fst snd]. fold (sum_obj r). lia.
Qed.

Theorem guard_enc_success : forall v, representable v = true -> fits v = true ->
  exists bs, enc_item v = Some bs /\ zlen bs = enc_size v.
Proof.
  induction v as [|bb|n|x|s|l IH|ms IH] using jval_ind'; intros Hrep Hfit.
  - eexists. split; reflexivity.
  - eexists. split; reflexivity.
  - cbn [enc_item enc_size]. destruct (compress_int n) as [t k]. eexists. split; [reflexivity|].
    rewrite zlen_cons, be_bytes_zlen. reflexivity.
  - eexists. split; [reflexivity|]. cbn [enc_size]. rewrite zlen_cons, be_bytes_zlen. reflexivity.
  - eexists. split; [reflexivity|]. cbn [enc_size]. rewrite zlen_cons, !zlen_app, wr_field_len. change (zlen [0]) with 1. lia.
  - cbn [representable] in Hrep. cbn [fits] in Hfit. apply andb_prop in Hfit as [Hfit Hsz]. unfold BINN_MAX_SIZE in Hsz.
    rewrite forallb_forall in Hrep, Hfit.
    assert (HF : Forall (fun x => exists bx, enc_item x = Some bx /\ zlen bx = enc_size x) l).
    { rewrite Forall_forall in IH. apply Forall_forall. intros x Hin. apply IH; auto. }
    destruct (enc_arr_go_total l [] 0 HF) as (body' & Hgo & Hlen). rewrite zlen_nil in Hlen.
    rewrite enc_item_arr, Hgo, save_header_total. change (0 + zlen l) with (zlen l). rewrite Hlen. change (0 + sum_arr l) with (sum_arr l).
    rewrite <- enc_size_arr. replace (enc_size (JArr l) >? 2147483647) with false by lia.
    eexists. split; [reflexivity|].
    rewrite zlen_cons, !zlen_app, !wr_field_len, Hlen. change (0 + sum_arr l) with (sum_arr l).
    pose proof (save_header_len jbinn_BINN_LIST body' (zlen l)) as Hsl. rewrite save_header_total, Hlen in Hsl.
    change (0 + sum_arr l) with (sum_arr l) in Hsl. rewrite <- enc_size_arr in Hsl.
    replace (enc_size (JArr l) >? 2147483647) with false in Hsl by lia.
    specialize (Hsl _ eq_refl). rewrite zlen_cons, !zlen_app, !wr_field_len, Hlen in Hsl. exact Hsl.
  - cbn [representable] in Hrep. cbn [fits] in Hfit. apply andb_prop in Hfit as [Hfit Hsz]. unfold BINN_MAX_SIZE in Hsz.
    apply andb_prop in Hrep as [Hrep Hkeys]. rewrite forallb_forall in Hrep, Hfit.
    assert (HF : Forall (fun m => exists bx, enc_item (snd m) = Some bx /\ zlen bx = enc_size (snd m)) ms).
    { rewrite Forall_forall in IH. apply Forall_forall. intros m Hin. apply IH; auto. }
    pose proof (hdr_total_ge (sum_obj ms) (zlen ms) (sum_obj_nonneg ms)) as Hge. rewrite <- enc_size_obj in Hge.
    destruct (enc_obj_go_total ms [] ltac:(constructor) HF) as (body' & Hgo & Hlen).
    { cbn [map]. rewrite keys_seq_nil. exact Hkeys. }
    { change (zlen (flat [])) with 0. lia. }
    change (flat []) with (@nil Z) in Hgo. change (zlen (@nil (list Z * list Z))) with 0 in Hgo.
    change (zlen (flat [])) with 0 in Hlen.
    rewrite enc_item_obj, Hgo, save_header_total. change (0 + zlen ms) with (zlen ms). rewrite Hlen. change (0 + sum_obj ms) with (sum_obj ms).
    rewrite <- enc_size_obj. replace (enc_size (JObj ms) >? 2147483647) with false by lia.
    eexists. split; [reflexivity|].
    pose proof (save_header_len jbinn_BINN_OBJECT body' (zlen ms)) as Hsl. rewrite save_header_total, Hlen in Hsl.
    change (0 + sum_obj ms) with (sum_obj ms) in Hsl. rewrite <- enc_size_obj in Hsl.
    replace (enc_size (JObj ms) >? 2147483647) with false in Hsl by lia.
    specialize (Hsl _ eq_refl). exact Hsl.
Qed.

Lemma binn_encode_container v : is_container v = true -> binn_encode v = enc_item v.
Proof. destruct v; try discriminate; reflexivity. Qed.

(* EXACTNESS, with no hypothesis on the document: the encoder succeeds iff the value-level guard of the write-back model
   (WriteBack.representable: every name <= 255 bytes and clashing with no other name of its object under SearchForKey's
   comparison) holds and every container stays within the size binn_save_header can write *)
Theorem encode_iff_guard : forall v, is_container v = true ->
  ((exists bs, binn_encode v = Some bs) <-> representable v = true /\ fits v = true).
Proof.
  intros v Hc. rewrite (binn_encode_container v Hc). split.
  - intros (bs & He).
    assert (Hl : zlen bs < 2147483648).
    { destruct (enc_container_inv v bs) as (ty & size & count & body & _ & <- & Hr & _); [destruct v; try discriminate; eauto|assumption|lia]. }
    destruct (enc_success_guard v bs He Hl) as (H1 & H2 & _). split; assumption.
  - intros (H1 & H2). destruct (guard_enc_success v H1 H2) as (bs & He & _). eauto.
Qed.

(* ------------------------------------------------------------------ the guard in C14's vocabulary *)
Lemma key_ieq_spec : forall a b, key_ieq a b = true <-> map tolower a = map tolower b.
Proof.
  induction a as [|x a IH]; intros [|y b]; cbn [key_ieq map]; try (split; [discriminate|discriminate]); [split; reflexivity|].
  rewrite andb_true_iff, Z.eqb_eq, IH. split; [intros [-> ->]; reflexivity|intros H; injection H; auto].
Qed.

Lemma char_ok_nozero s : forallb char_ok s = true -> forallb (fun c => negb (c =? 0)) s = true.
Proof.
  intros H. rewrite forallb_forall in *. intros c Hc. specialize (H c Hc). unfold char_ok in H.
  apply andb_prop in H as [H _]. apply negb_true_iff. lia.
Qed.

Lemma key_clash_ieq a b : forallb char_ok a = true -> forallb char_ok b = true -> key_clash a b = key_ieq a b.
Proof.
  intros Ha Hb. apply eq_iff_eq_true. rewrite (key_clash_nozero a b (char_ok_nozero a Ha) (char_ok_nozero b Hb)).
  symmetry. apply key_ieq_spec.
Qed.

Lemma existsb_ext_in {A} (f g : A -> bool) l : (forall x, In x l -> f x = g x) -> existsb f l = existsb g l.
Proof.
  induction l as [|x r IH]; intros H; [reflexivity|]. cbn [existsb]. rewrite (H x (or_introl eq_refl)).
  rewrite IH; [reflexivity|]. intros y Hy. apply H. right. assumption.
Qed.
Lemma forallb_ext_in {A} (f g : A -> bool) l : (forall x, In x l -> f x = g x) -> forallb f l = forallb g l.
Proof.
  induction l as [|x r IH]; intros H; [reflexivity|]. cbn [forallb]. rewrite (H x (or_introl eq_refl)).
  rewrite IH; [reflexivity|]. intros y Hy. apply H. right. assumption.
Qed.

Lemma keys_ok_unique : forall ks, Forall (fun k => forallb char_ok k = true) ks ->
  keys_ok ks = forallb (fun k => zlen k <=? 255) ks && keys_unique ks.
Proof.
  induction ks as [|k r IH]; intros HF; [reflexivity|]. inversion HF as [|? ? Hk Hr]; subst.
  cbn [keys_ok forallb keys_unique]. rewrite (IH Hr). change JP_BINN_KEY_MAX with 255.
  rewrite (existsb_ext_in (key_clash k) (key_ieq k) r).
  - btauto.
  - intros y Hy. rewrite Forall_forall in Hr. apply key_clash_ieq; [assumption|apply Hr; assumption].
Qed.

Lemma cdom_representable : forall v, cdom v = true -> representable v = keys_fit v.
Proof.
  induction v as [|bb|n|x|s|l IH|ms IH] using jval_ind'; intros Hd; try reflexivity.
  - cbn [representable keys_fit cdom] in *. rewrite forallb_forall in Hd. rewrite Forall_forall in IH.
    apply forallb_ext_in. intros x Hx. apply IH; auto.
  - cbn [representable keys_fit cdom] in *. rewrite forallb_forall in Hd. rewrite Forall_forall in IH.
    assert (Hch : Forall (fun k => forallb char_ok k = true) (map fst ms)).
    { apply Forall_forall. intros k Hk. apply in_map_iff in Hk as (m & <- & Hm). specialize (Hd m Hm). apply andb_prop in Hd. tauto. }
    rewrite (keys_ok_unique _ Hch). rewrite forallb_map.
    rewrite (forallb_ext_in (fun m => representable (snd m)) (fun m => keys_fit (snd m)) ms).
    2:{ intros m Hm. apply IH; [assumption|]. specialize (Hd m Hm). apply andb_prop in Hd. tauto. }
    change jbinn_MAX_BIN_KEY_LEN with 255. rewrite (WriteBack_proofs.forallb_andb _ (fun m => zlen (fst m) <=? 255) (fun m => keys_fit (snd m))).
    btauto.
Qed.

Lemma wf_split : forall v, wf v = cdom v && keys_fit v.
Proof.
  induction v as [|bb|n|x|s|l IH|ms IH] using jval_ind'; try reflexivity; try (cbn [wf cdom keys_fit]; rewrite andb_true_r; reflexivity).
  - cbn [wf cdom keys_fit]. rewrite Forall_forall in IH. rewrite <- WriteBack_proofs.forallb_andb. apply forallb_ext_in. assumption.
  - cbn [wf cdom keys_fit]. rewrite Forall_forall in IH.
    rewrite (forallb_ext_in _ (fun m => (forallb char_ok (fst m) && cdom (snd m)) && ((zlen (fst m) <=? jbinn_MAX_BIN_KEY_LEN) && keys_fit (snd m))) ms).
    + rewrite WriteBack_proofs.forallb_andb. btauto.
    + intros m Hm. rewrite (IH m Hm). btauto.
Qed.

(* TOTALITY: every document that satisfies the executable well-formedness predicate and the size guard is encoded *)
Theorem encode_total : forall v, wf v = true -> fits v = true -> is_container v = true ->
  exists bs, binn_encode v = Some bs /\ zlen bs = enc_size v.
Proof.
  intros v Hw Hf Hc. rewrite wf_split in Hw. apply andb_prop in Hw as [Hd Hk].
  rewrite (binn_encode_container v Hc). apply guard_enc_success; [|assumption]. rewrite (cdom_representable v Hd). exact Hk.
Qed.

(* EXACTNESS of the guard over the documents a C tree can hold: accepted iff wf and the size guard *)
Theorem encode_guard_exact : forall v, cdom v = true -> is_container v = true ->
  ((exists bs, binn_encode v = Some bs) <-> wf v && fits v = true).
Proof.
  intros v Hd Hc. rewrite (encode_iff_guard v Hc), (cdom_representable v Hd), wf_split, Hd. cbn [andb].
  rewrite andb_true_iff. tauto.
Qed.

Corollary encode_reject_exact : forall v, cdom v = true -> is_container v = true -> binn_encode v = None ->
  wf v && fits v = false.
Proof.
  intros v Hd Hc Hn. destruct (wf v && fits v) eqn:E; [|reflexivity].
  apply (encode_guard_exact v Hd Hc) in E. destruct E as (bs & E). congruence.
Qed.

(* ================================================================== B. the printer of the binary form *)
(* what GetValue reads at an encoded scalar, explicitly *)
Definition scalar_bval (v : jval) (rest : list Z) : option bval :=
  match v with
  | JNull => Some (BV jbinn_BINN_NULL 0 0 0 [])
  | JBool b => Some (BV jbinn_BINN_BOOL (if b then 1 else 0) 0 0 [])
  | JI64 n => let '(t, k) := compress_int n in Some (BV t (n mod 2 ^ (8 * Z.of_nat k)) 0 0 [])
  | JF64 x => Some (BV jbinn_BINN_DOUBLE (x mod 2 ^ 64) 0 0 [])
  | JStr s => let s' := if jbinn_STRING_KEEPS_NUL =? 1 then s else cstr s in
              Some (BV jbinn_BINN_STRING 0 (zlen s') 0 (s' ++ [0] ++ rest))
  | _ => None
  end.

Lemma gv_scalar v bs rest : enc_item v = Some bs -> zlen bs < 2147483648 -> is_container v = false ->
  get_value (bs ++ rest) = scalar_bval v rest.
Proof.
  intros H Hl Hc. destruct v; try discriminate.
  - cbn [enc_item] in H. inj_bs H. reflexivity.
  - cbn [enc_item] in H. inj_bs H. destruct b; reflexivity.
  - cbn [enc_item scalar_bval] in *. unfold compress_int in *. kc.
    destruct (n >=? 0); [destruct (n <=? 255); [|destruct (n <=? 65535); [|destruct (n <=? 4294967295)]]
                        |destruct (n >=? -128); [|destruct (n >=? -32768); [|destruct (n >=? -2147483648)]]];
    inj_bs H; rewrite <- app_comm_cons; unfold get_value; kc; kb; rewrite be_val_be_bytes; kb; reflexivity.
  - cbn [enc_item scalar_bval] in *. inj_bs H. rewrite <- app_comm_cons. unfold get_value. kc. kb.
    rewrite be_val_be_bytes. kb. reflexivity.
  - cbn [enc_item scalar_bval] in *. apply Some_inj in H. subst bs.
    match goal with |- context [wr_field (zlen ?x)] => set (s' := x) in * end.
    rewrite zlen_cons, !zlen_app in Hl. pose proof (zlen_nonneg (wr_field (zlen s'))). change (zlen [0]) with 1 in Hl.
    pose proof (zlen_nonneg s').
    rewrite <- app_comm_cons. unfold get_value. kc; kb.
    rewrite <- app_assoc. rewrite rd_field_wr_field by lia. kb. cbn [bt]. kb.
    rewrite zskip_app by reflexivity. rewrite <- app_assoc. reflexivity.
Qed.

Lemma repr_scalar_shape v b : repr v b -> is_container v = false -> exists rest, scalar_bval v rest = Some b.
Proof.
  intros (bs & rest & Hw & He & Hl & Hg) Hc. exists rest. rewrite <- Hg. symmetry. apply gv_scalar; assumption.
Qed.

Lemma char_ok_cstr0 s : forallb char_ok s = true -> cstr0 s = s.
Proof.
  induction s as [|c r IH]; [reflexivity|]. cbn [forallb cstr0]. intros H. apply andb_prop in H as [Hc Hr].
  unfold char_ok in Hc. replace (c =? 0) with false by lia. rewrite IH by assumption. reflexivity.
Qed.

Lemma repr_container_cnt v b : repr v b -> is_container v = true ->
  bcount b = match v with JArr l => zlen l | JObj ms => zlen ms | _ => 0 end.
Proof.
  intros (bs & rest & Hw & He & Hl & Hg) Hv.
  assert (Hv' : (exists l, v = JArr l) \/ (exists ms, v = JObj ms)) by (destruct v; try discriminate; eauto).
  destruct (enc_container_inv v bs Hv' He) as (ty & size & count & body & -> & Hs & Hr & Hk).
  assert (Hty : ty = jbinn_BINN_LIST \/ ty = jbinn_BINN_OBJECT) by (destruct Hk as [[-> _]|[-> _]]; tauto).
  assert (Hc : 0 <= count < 2147483648).
  { rewrite zlen_cons, !zlen_app in Hl. pose proof (zlen_nonneg (wr_field size)). pose proof (zlen_nonneg (wr_field count)).
    destruct Hk as [(_ & l & bxs & _ & Hx & -> & ->)|(_ & l & bxs & _ & Hx & -> & ->)].
    - destruct (arr_encs_len _ _ Hx) as [L1 L2]. pose proof (count_bound l bxs L1 L2). pose proof (zlen_nonneg l). lia.
    - destruct (obj_encs_len _ _ Hx) as [L1 L2]. pose proof (count_bound l bxs L1 L2). pose proof (zlen_nonneg l). lia. }
  rewrite gv_container in Hg by (try assumption; lia). apply Some_inj in Hg. subst b. cbn [bcount].
  destruct Hk as [(_ & l & bxs & -> & _ & _ & ->)|(_ & l & bxs & -> & _ & _ & ->)]; reflexivity.
Qed.

Section PrintBinnProofs.
  Variable fo : Z -> list Z.
  Variable pf : Z.

  Lemma print_scalar_repr v b lvl : repr v b -> is_container v = false ->
    print_bscalar fo pf b = lift (print_jbl fo pf lvl v).
  Proof.
    intros Hr Hc. destruct (repr_scalar_shape v b Hr Hc) as (rest & Hs). destruct Hr as (bs & rest' & Hw & _).
    destruct v; try discriminate.
    - cbn [scalar_bval] in Hs. apply Some_inj in Hs. subst b. reflexivity.
    - cbn [scalar_bval] in Hs. apply Some_inj in Hs. subst b. destruct b0; reflexivity.
    - cbn [wf] in Hw. apply andb_prop in Hw as [H1 H2]. pw.
      cbn [scalar_bval] in Hs. unfold compress_int in Hs. kc.
      cbn [print_jbl]. unfold print_bscalar.
      destruct (n >=? 0) eqn:E0.
      + destruct (n <=? 255) eqn:E1; [apply Some_inj in Hs; subst b; cbn [bt bnum]; kc; kb; pw; rewrite !Z.mod_small by lia; reflexivity|].
        destruct (n <=? 65535) eqn:E2; [apply Some_inj in Hs; subst b; cbn [bt bnum]; kc; kb; pw; rewrite !Z.mod_small by lia; reflexivity|].
        destruct (n <=? 4294967295) eqn:E3; [apply Some_inj in Hs; subst b; cbn [bt bnum]; kc; kb; pw; rewrite !Z.mod_small by lia; reflexivity|].
        apply Some_inj in Hs; subst b; cbn [bt bnum]; kc; kb. unfold sx. pw. rewrite !Z.mod_small by lia.
        replace (n >=? 9223372036854775808) with false by lia. reflexivity.
      + destruct (n >=? -128) eqn:E1.
        { apply Some_inj in Hs; subst b; cbn [bt bnum]; kc; kb. unfold sx. pw. rewrite Z.mod_mod by lia.
          replace (n mod 256) with (n + 256) by lia. replace (n + 256 >=? 128) with true by lia. do 2 f_equal. lia. }
        destruct (n >=? -32768) eqn:E2.
        { apply Some_inj in Hs; subst b; cbn [bt bnum]; kc; kb. unfold sx. pw. rewrite Z.mod_mod by lia.
          replace (n mod 65536) with (n + 65536) by lia. replace (n + 65536 >=? 32768) with true by lia. do 2 f_equal. lia. }
        destruct (n >=? -2147483648) eqn:E3.
        { apply Some_inj in Hs; subst b; cbn [bt bnum]; kc; kb. unfold sx. pw. rewrite Z.mod_mod by lia.
          replace (n mod 4294967296) with (n + 4294967296) by lia. replace (n + 4294967296 >=? 2147483648) with true by lia. do 2 f_equal. lia. }
        apply Some_inj in Hs; subst b; cbn [bt bnum]; kc; kb. unfold sx. pw. rewrite Z.mod_mod by lia.
        replace (n mod 18446744073709551616) with (n + 18446744073709551616) by lia.
        replace (n + 18446744073709551616 >=? 9223372036854775808) with true by lia. do 2 f_equal. lia.
    - cbn [wf] in Hw. apply andb_prop in Hw as [H1 H2]. pw.
      cbn [scalar_bval] in Hs. apply Some_inj in Hs. subst b. unfold print_bscalar. cbn [bt bnum]. kc. kb. pw.
      rewrite Z.mod_small by lia. reflexivity.
    - cbn [wf] in Hw. cbn [scalar_bval] in Hs.
      assert (Hs' : (if jbinn_STRING_KEEPS_NUL =? 1 then s else cstr s) = s) by (destruct (jbinn_STRING_KEEPS_NUL =? 1); [reflexivity|apply cstr_id; assumption]).
      rewrite Hs' in Hs. apply Some_inj in Hs. subst b. unfold print_bscalar. cbn [bt bsize bptr print_jbl]. kc. kb.
      rewrite (char_ok_cstr0 s Hw).
      destruct (zlen s >? 0) eqn:Ez.
      + rewrite zfirst_app by reflexivity. reflexivity.
      + assert (s = []) by (destruct s; [reflexivity|rewrite zlen_cons in Ez; pose proof (zlen_nonneg s); lia]). subst s. reflexivity.
  Qed.

  Theorem print_binn_repr : forall v b, repr v b -> forall fuel lvl, (depth v < fuel)%nat ->
    print_binn fo pf fuel lvl b = lift (print_jbl fo pf lvl v).
  Proof.
    induction v as [|bb|n|x|s|l IH|ms IH] using jval_ind'; intros b Hr fuel lvl Hf.
    1-5: (destruct fuel as [|f]; [lia|];
          destruct (repr_scalar_shape _ b Hr eq_refl) as (rest & Hs);
          rewrite <- (print_scalar_repr _ b lvl Hr eq_refl);
          cbn [print_binn]).
    - cbn [scalar_bval] in Hs. apply Some_inj in Hs. subst b. reflexivity.
    - cbn [scalar_bval] in Hs. apply Some_inj in Hs. subst b. reflexivity.
    - cbn [scalar_bval] in Hs. unfold compress_int in Hs. kc.
      destruct (n >=? 0); [destruct (n <=? 255); [|destruct (n <=? 65535); [|destruct (n <=? 4294967295)]]
                          |destruct (n >=? -128); [|destruct (n >=? -32768); [|destruct (n >=? -2147483648)]]];
      apply Some_inj in Hs; subst b; reflexivity.
    - cbn [scalar_bval] in Hs. apply Some_inj in Hs. subst b. reflexivity.
    - cbn [scalar_bval] in Hs. apply Some_inj in Hs. subst b. reflexivity.
    - pose proof (repr_container_cnt _ b Hr eq_refl) as Hcnt.
      destruct (repr_container _ _ Hr ltac:(left; eauto)) as (ty & count & body & rest & Hbt & Hit & Hb & Hk).
      destruct Hk as [(-> & l' & bxs & E & Hx & -> & ->)|(_ & ms' & bxs & E & _)]; [|discriminate].
      injection E as <-.
      destruct fuel as [|f]; [lia|]. cbn [print_binn print_jbl]. rewrite Hbt. kc. kb. rewrite Hit. rewrite Hcnt.
      destruct Hr as (bs & rest' & Hw & _).
      pose proof (list_items_repr l bxs Hx (wf_arr_inv _ Hw) Hb rest 0 (S (Z.to_nat (zlen l)))) as HI.
      unfold iter_fuel. cbn [it_cnt]. change (0 + zlen l) with (zlen l) in HI.
      specialize (HI ltac:(unfold zlen; rewrite Nat2Z.id; lia)).
      cbn [depth] in Hf.
      set (bvs := list_items (S (Z.to_nat (zlen l))) _) in *.
      match goal with |- match ?g1 bvs 0 with _ => _ end = lift (match ?g2 l with _ => _ end) =>
        assert (Hg : forall l0 bvs0 i, Forall2 repr l0 bvs0 -> (forall x, In x l0 -> In x l) -> zlen l = i + zlen l0 ->
                      g1 bvs0 i = lift (g2 l0)) end.
      { clear HI bvs. intros l0 bvs0 i HF2. revert i. induction HF2 as [|x bx r bs' Hxb Hrest IHF]; intros i Hin Hlen; [reflexivity|].
        cbn beta iota. rewrite Forall_forall in IH.
        rewrite (IH x (Hin x (or_introl eq_refl)) bx Hxb f (lvl + 1)).
        2:{ pose proof (fold_max_ge depth l x (Hin x (or_introl eq_refl))). lia. }
        destruct (print_jbl fo pf (lvl + 1) x) as [a|e]; [|reflexivity]. cbn [lift bind2].
        rewrite (IHF (i + 1)); [|intros y Hy; apply Hin; right; assumption|rewrite zlen_cons in Hlen; lia].
        match goal with |- context [lift (?g r)] => destruct (g r) as [rest0|e] end; [|reflexivity]. cbn [lift].
        rewrite zlen_cons in Hlen. pose proof (zlen_nonneg r).
        destruct r as [|y r']; [replace (i <? zlen l - 1) with false by (rewrite zlen_nil in Hlen; lia); reflexivity|].
        replace (i <? zlen l - 1) with true by (rewrite zlen_cons in Hlen; pose proof (zlen_nonneg r'); lia). reflexivity. }
      rewrite (Hg l bvs 0 HI (fun x H => H) ltac:(lia)).
      match goal with |- context [lift (match ?g l with _ => _ end)] => destruct (g l) as [body0|e] end; [|reflexivity]. cbn [lift].
      destruct l as [|y r]; [reflexivity|]. rewrite zlen_cons. pose proof (zlen_nonneg r).
      replace (1 + zlen r =? 0) with false by lia. cbn [negb andb].
      destruct (has pf JBL_PRINT_PRETTY); rewrite <- ?app_assoc; reflexivity.
    - pose proof (repr_container_cnt _ b Hr eq_refl) as Hcnt.
      destruct (repr_container _ _ Hr ltac:(right; eauto)) as (ty & count & body & rest & Hbt & Hit & Hb & Hk).
      destruct Hk as [(_ & l' & bxs & E & _)|(-> & ms' & bxs & E & Hx & -> & ->)]; [discriminate|].
      injection E as <-.
      destruct fuel as [|f]; [lia|]. cbn [print_binn print_jbl]. rewrite Hbt. kc. kb. rewrite Hit. rewrite Hcnt.
      destruct Hr as (bs & rest' & Hw & _).
      destruct (wf_obj_inv _ Hw) as [Hwm _].
      assert (Hwm' : Forall (fun m => wf (snd m) = true) ms) by (eapply Forall_impl; [|exact Hwm]; intros m (_ & _ & H); exact H).
      pose proof (obj_items_repr ms bxs Hx Hwm' Hb rest 0 (S (Z.to_nat (zlen ms)))) as HI.
      unfold iter_fuel. cbn [it_cnt]. change (0 + zlen ms) with (zlen ms) in HI.
      specialize (HI ltac:(unfold zlen; rewrite Nat2Z.id; lia)).
      cbn [depth] in Hf.
      set (kbs := obj_items (S (Z.to_nat (zlen ms))) _) in *.
      match goal with |- match ?g1 kbs 0 with _ => _ end = lift (match ?g2 ms with _ => _ end) =>
        assert (Hg : forall l0 kbs0 i, Forall2 (fun m kb => fst kb = fst m /\ repr (snd m) (snd kb)) l0 kbs0 ->
                      (forall m, In m l0 -> In m ms) -> zlen ms = i + zlen l0 ->
                      g1 kbs0 i = lift (g2 l0)) end.
      { clear HI kbs. intros l0 kbs0 i HF2. revert i. induction HF2 as [|m kb r kbs' [Hk Hxb] Hrest IHF]; intros i Hin Hlen; [reflexivity|].
        destruct kb as [k' bx]. destruct m as [k x]. cbn [fst snd] in *. subst k'.
        cbn beta iota. rewrite Forall_forall in IH, Hwm.
        destruct (Hwm (k, x) (Hin _ (or_introl eq_refl))) as (Hkc & _ & _). cbn [fst] in Hkc.
        destruct (write_json_string pf (cstr0 k)) as [kt|e]; [|reflexivity].
        rewrite (IH (k, x) (Hin _ (or_introl eq_refl)) bx Hxb f (lvl + 1)).
        2:{ pose proof (fold_max_ge (fun m => depth (snd m)) ms (k, x) (Hin _ (or_introl eq_refl))) as Hge. cbn beta in Hge. cbn [snd] in *. lia. }
        cbn [snd]. destruct (print_jbl fo pf (lvl + 1) x) as [a|e]; [|reflexivity]. cbn [lift bind2].
        rewrite (IHF (i + 1)); [|intros y Hy; apply Hin; right; assumption|rewrite zlen_cons in Hlen; lia].
        match goal with |- context [lift (?g r)] => destruct (g r) as [rest0|e] end; [|reflexivity]. cbn [lift].
        rewrite zlen_cons in Hlen. pose proof (zlen_nonneg r).
        destruct r as [|y r']; [replace (i <? zlen ms - 1) with false by (rewrite zlen_nil in Hlen; lia); reflexivity|].
        replace (i <? zlen ms - 1) with true by (rewrite zlen_cons in Hlen; pose proof (zlen_nonneg r'); lia). reflexivity. }
      rewrite (Hg ms kbs 0 HI (fun x H => H) ltac:(lia)).
      match goal with |- context [lift (match ?g ms with _ => _ end)] => destruct (g ms) as [body0|e] end; [|reflexivity]. cbn [lift].
      destruct ms as [|y r]; [reflexivity|]. rewrite zlen_cons. pose proof (zlen_nonneg r).
      replace (1 + zlen r =? 0) with false by lia. cbn [negb andb].
      destruct (has pf JBL_PRINT_PRETTY); rewrite <- ?app_assoc; reflexivity.
  Qed.
End PrintBinnProofs.

(* ================================================================== C. jbl_type, jbl_count, the iterator, the keyed accessors *)
Lemma shape_int n rest b : scalar_bval (JI64 n) rest = Some b -> wf (JI64 n) = true ->
  int64_of_bval b = Some n /\ is_int_type (bt b) = true /\ bcount b = 0.
Proof.
  intros Hs Hw. cbn [wf] in Hw. apply andb_prop in Hw as [H1 H2]. pw.
  cbn [scalar_bval] in Hs. unfold compress_int in Hs. kc. unfold int64_of_bval, is_int_type.
  destruct (n >=? 0) eqn:E0.
  - destruct (n <=? 255) eqn:E1; [apply Some_inj in Hs; subst b; cbn [bt bnum bcount]; kc; kb; pw; rewrite !Z.mod_small by lia; auto|].
    destruct (n <=? 65535) eqn:E2; [apply Some_inj in Hs; subst b; cbn [bt bnum bcount]; kc; kb; pw; rewrite !Z.mod_small by lia; auto|].
    destruct (n <=? 4294967295) eqn:E3; [apply Some_inj in Hs; subst b; cbn [bt bnum bcount]; kc; kb; pw; rewrite !Z.mod_small by lia; auto|].
    apply Some_inj in Hs; subst b; cbn [bt bnum bcount]; kc; kb. unfold sx. pw. rewrite !Z.mod_small by lia.
    replace (n >=? 9223372036854775808) with false by lia. auto.
  - destruct (n >=? -128) eqn:E1.
    { apply Some_inj in Hs; subst b; cbn [bt bnum bcount]; kc; kb. unfold sx. pw. rewrite Z.mod_mod by lia.
      replace (n mod 256) with (n + 256) by lia. replace (n + 256 >=? 128) with true by lia. split; [f_equal; lia|auto]. }
    destruct (n >=? -32768) eqn:E2.
    { apply Some_inj in Hs; subst b; cbn [bt bnum bcount]; kc; kb. unfold sx. pw. rewrite Z.mod_mod by lia.
      replace (n mod 65536) with (n + 65536) by lia. replace (n + 65536 >=? 32768) with true by lia. split; [f_equal; lia|auto]. }
    destruct (n >=? -2147483648) eqn:E3.
    { apply Some_inj in Hs; subst b; cbn [bt bnum bcount]; kc; kb. unfold sx. pw. rewrite Z.mod_mod by lia.
      replace (n mod 4294967296) with (n + 4294967296) by lia. replace (n + 4294967296 >=? 2147483648) with true by lia. split; [f_equal; lia|auto]. }
    apply Some_inj in Hs; subst b; cbn [bt bnum bcount]; kc; kb. unfold sx. pw. rewrite Z.mod_mod by lia.
    replace (n mod 18446744073709551616) with (n + 18446744073709551616) by lia.
    replace (n + 18446744073709551616 >=? 9223372036854775808) with true by lia. split; [f_equal; lia|auto].
Qed.

Lemma int_type_jbv t : is_int_type t = true -> binn_type_jbv t = JP_JBV_I64.
Proof.
  unfold is_int_type, binn_type_jbv. intros H. kc.
  repeat (apply orb_prop in H as [H|H]); apply Z.eqb_eq in H; subst t; reflexivity.
Qed.

(* jbl_type and jbl_count of the value read at an encoded item are the type and the number of members of the item *)
Theorem type_count_repr : forall v b, repr v b ->
  jbl_type b = jval_type v /\
  jbl_count b = match v with JArr l => zlen l | JObj ms => zlen ms | _ => 0 end.
Proof.
  intros v b Hr. destruct (is_container v) eqn:Hc.
  - split; [|apply (repr_container_cnt v b Hr Hc)].
    destruct (repr_container v b Hr) as (ty & count & body & rest & Hbt & _ & _ & Hk); [destruct v; try discriminate; eauto|].
    unfold jbl_type. rewrite Hbt.
    destruct Hk as [(-> & l & bxs & -> & _)|(-> & ms & bxs & -> & _)]; reflexivity.
  - destruct (repr_scalar_shape v b Hr Hc) as (rest & Hs). destruct Hr as (bs & rest' & Hw & _).
    destruct v; try discriminate.
    + cbn [scalar_bval] in Hs. apply Some_inj in Hs. subst b. split; reflexivity.
    + cbn [scalar_bval] in Hs. apply Some_inj in Hs. subst b. split; reflexivity.
    + destruct (shape_int n rest b Hs Hw) as (_ & Hi & Hcnt). split; [|exact Hcnt]. unfold jbl_type. apply int_type_jbv. exact Hi.
    + cbn [scalar_bval] in Hs. apply Some_inj in Hs. subst b. split; reflexivity.
    + cbn [scalar_bval] in Hs. apply Some_inj in Hs. subst b. split; reflexivity.
Qed.

(* ------------------------------------------------------------------ the public iterator *)
Fixpoint number3 (i : Z) (l : list bval) : list (option (list Z) * Z * bval) :=
  match l with [] => [] | x :: r => (None, i, x) :: number3 (i + 1) r end.

Lemma Forall2_len {A B} (R : A -> B -> Prop) l l' : Forall2 R l l' -> length l = length l'.
Proof. induction 1; cbn [length]; congruence. Qed.

Lemma number3_length : forall l i, length (number3 i l) = length l.
Proof. induction l as [|x r IH]; intros i; cbn [number3 length]; [reflexivity|rewrite IH; reflexivity]. Qed.

Lemma jbl_iterate_list : forall n it, it_type it = jbinn_BINN_LIST ->
  jbl_iterate n (JI_it it) = number3 (it_cur it) (list_items n it).
Proof.
  induction n as [|n IH]; intros it Ht; [reflexivity|].
  cbn [jbl_iterate jbl_iterator_next list_items]. rewrite Ht. kc. kb.
  destruct (list_next it) as [[b it']|] eqn:E; [|reflexivity]. cbn [number3]. f_equal.
  unfold list_next in E. destruct (it_p it) as [[p rem]|]; [|discriminate].
  destruct ((rem <=? 0) || (it_cur it >? it_cnt it) || negb (it_type it =? jbinn_BINN_LIST)); [discriminate|].
  destruct (it_cur it + 1 >? it_cnt it); [discriminate|]. destruct (get_value p); [|discriminate].
  injection E as _ <-. rewrite IH by (cbn [it_type]; assumption). reflexivity.
Qed.

Lemma jbl_iterate_obj : forall n it, it_type it = jbinn_BINN_OBJECT ->
  jbl_iterate n (JI_it it) = map (fun kb => (Some (fst kb), zlen (fst kb), snd kb)) (obj_items n it).
Proof.
  induction n as [|n IH]; intros it Ht; [reflexivity|].
  cbn [jbl_iterate jbl_iterator_next obj_items]. rewrite Ht. kc. kb.
  destruct (object_next it) as [[[k b] it']|] eqn:E; [|reflexivity]. cbn [map fst snd]. f_equal.
  unfold object_next in E. destruct (it_p it) as [[p rem]|]; [|discriminate].
  destruct ((rem <=? 0) || (it_cur it >? it_cnt it) || negb (it_type it =? jbinn_BINN_OBJECT)); [discriminate|].
  destruct (it_cur it + 1 >? it_cnt it); [discriminate|]. destruct p as [|len p1]; [discriminate|].
  destruct (rem - 1 - len <=? 0); [discriminate|]. destruct (get_value (zskip len p1)); [|discriminate].
  injection E as _ _ <-. rewrite IH by (cbn [it_type]; assumption). reflexivity.
Qed.

(* jbl_iterator_init + jbl_iterator_next until it returns false: an array yields its elements in order, each with its index;
   an object its members in order, each with its name and the length of the name; a scalar nothing *)
Theorem jbl_members_repr : forall v b, repr v b ->
  match v with
  | JArr l => exists bvs, jbl_members b = Some (number3 0 bvs) /\ Forall2 repr l bvs
  | JObj ms => exists kbs, jbl_members b = Some (map (fun kb => (Some (fst kb), zlen (fst kb), snd kb)) kbs) /\
                           Forall2 (fun m kb => fst kb = fst m /\ repr (snd m) (snd kb)) ms kbs
  | _ => jbl_members b = Some []
  end.
Proof.
  intros v b Hr. destruct (is_container v) eqn:Hc.
  - destruct (repr_container v b Hr) as (ty & count & body & rest & Hbt & Hit & Hb & Hk); [destruct v; try discriminate; eauto|].
    destruct Hr as (bs & rest' & Hw & _).
    destruct Hk as [(-> & l & bxs & -> & Hx & -> & ->)|(-> & ms & bxs & -> & Hx & -> & ->)].
    + unfold jbl_members, jbl_iterator_init. rewrite Hbt. kc. kb. rewrite Hit. cbn [jiter_fuel].
      rewrite jbl_iterate_list by reflexivity. cbn [it_cur]. eexists. split; [reflexivity|].
      pose proof (list_items_repr l bxs Hx (wf_arr_inv _ Hw) Hb rest 0 (S (Z.to_nat (zlen l)))) as HI.
      change (0 + zlen l) with (zlen l) in HI. apply HI. unfold zlen. rewrite Nat2Z.id. lia.
    + unfold jbl_members, jbl_iterator_init. rewrite Hbt. kc. kb. rewrite Hit. cbn [jiter_fuel].
      rewrite jbl_iterate_obj by reflexivity. eexists. split; [reflexivity|].
      destruct (wf_obj_inv _ Hw) as [Hwm _].
      assert (Hwm' : Forall (fun m => wf (snd m) = true) ms) by (eapply Forall_impl; [|exact Hwm]; intros m (_ & _ & H); exact H).
      pose proof (obj_items_repr ms bxs Hx Hwm' Hb rest 0 (S (Z.to_nat (zlen ms)))) as HI.
      change (0 + zlen ms) with (zlen ms) in HI. apply HI. unfold zlen. rewrite Nat2Z.id. lia.
  - destruct (repr_scalar_shape v b Hr Hc) as (rest & Hs). destruct Hr as (bs & rest' & Hw & _).
    destruct v; try discriminate.
    + cbn [scalar_bval] in Hs. apply Some_inj in Hs. subst b. reflexivity.
    + cbn [scalar_bval] in Hs. apply Some_inj in Hs. subst b. reflexivity.
    + cbn [scalar_bval] in Hs. unfold compress_int in Hs. kc.
      destruct (n >=? 0); [destruct (n <=? 255); [|destruct (n <=? 65535); [|destruct (n <=? 4294967295)]]
                          |destruct (n >=? -128); [|destruct (n >=? -32768); [|destruct (n >=? -2147483648)]]];
      apply Some_inj in Hs; subst b; reflexivity.
    + cbn [scalar_bval] in Hs. apply Some_inj in Hs. subst b. reflexivity.
    + cbn [scalar_bval] in Hs. apply Some_inj in Hs. subst b. reflexivity.
Qed.

(* the same statement at the level of values: decoding what the iterator hands out gives the members of the document, in
   order, with their names / indices *)
Definition members_val (fuel : nat) (l : list (option (list Z) * Z * bval)) : list (option (list Z) * Z * option jval) :=
  map (fun e => (fst (fst e), snd (fst e), dec_node fuel (snd e))) l.

Definition expected_members (v : jval) : list (option (list Z) * Z * option jval) :=
  match v with
  | JArr l => (fix go (i : Z) (l : list jval) := match l with [] => [] | x :: r => (None, i, Some x) :: go (i + 1) r end) 0 l
  | JObj ms => map (fun m => (Some (fst m), zlen (fst m), Some (snd m))) ms
  | _ => []
  end.

Theorem iterator_enumerates : forall v bs, wf v = true -> binn_encode v = Some bs ->
  exists b l, root_bval bs = Some b /\ jbl_members b = Some l /\
              members_val (S (length bs)) l = expected_members v /\
              jbl_type b = jval_type v /\ jbl_count b = Z.of_nat (length l).
Proof.
  intros v bs Hw He. destruct (root_repr v bs Hw He) as (b & Hroot & R & He').
  pose proof (depth_le_len v bs He') as Hdep. destruct (type_count_repr v b R) as (Hty & Hcnt).
  pose proof (jbl_members_repr v b R) as HM.
  destruct v; try discriminate.
  - destruct HM as (bvs & Hm & HF). exists b, (number3 0 bvs). split; [assumption|]. split; [assumption|].
    split; [|split; [assumption|]].
    + cbn [expected_members]. cbn [depth] in Hdep.
      assert (G : forall l bvs0 i, Forall2 repr l bvs0 -> (forall x, In x l -> (depth x < S (length bs))%nat) ->
                  members_val (S (length bs)) (number3 i bvs0) =
                  (fix go (i : Z) (l : list jval) := match l with [] => [] | x :: r => (None, i, Some x) :: go (i + 1) r end) i l).
      { intros l bvs0 i HF2. revert i. induction HF2 as [|x bx r bs' Hxb Hr IH]; intros i Hd; [reflexivity|].
        cbn [number3 members_val map fst snd]. rewrite (repr_dec x bx Hxb) by (apply Hd; left; reflexivity).
        f_equal. apply IH. intros y Hy. apply Hd. right. assumption. }
      apply G; [assumption|]. intros x Hx. pose proof (fold_max_ge depth items x Hx). lia.
    + rewrite Hcnt. rewrite number3_length. unfold zlen. f_equal. apply (Forall2_len _ _ _ HF).
  - destruct HM as (kbs & Hm & HF). eexists b, _. split; [assumption|]. split; [exact Hm|].
    split; [|split; [assumption|]].
    + cbn [expected_members]. cbn [depth] in Hdep. unfold members_val. rewrite map_map. cbn [fst snd].
      assert (Hd : forall m, In m members -> (depth (snd m) < S (length bs))%nat).
      { intros m Hm'. pose proof (fold_max_ge (fun m => depth (snd m)) members m Hm') as Hge. cbn beta in Hge. lia. }
      clear - HF Hd. induction HF as [|m kb r kbs' [Hk Hxb] Hr IH]; [reflexivity|].
      cbn [map]. rewrite Hk. rewrite (repr_dec (snd m) (snd kb) Hxb) by (apply Hd; left; reflexivity).
      f_equal. apply IH. intros y Hy. apply Hd. right. assumption.
    + rewrite Hcnt. rewrite map_length. unfold zlen. f_equal. apply (Forall2_len _ _ _ HF).
Qed.

(* ------------------------------------------------------------------ binn_object_get_value *)
Lemma iter_init_inv ptr ty p rem cnt : iter_init ptr ty = Some (BI (Some (p, rem)) 0 cnt ty) ->
  exists size hs, read_hdr ptr = Some (ty, size, cnt, hs) /\ zskip hs ptr = p /\ size - hs = rem.
Proof.
  unfold iter_init. destruct (read_hdr ptr) as [[[[ty' size] count] hs]|]; [|discriminate].
  destruct (ty' =? ty) eqn:E; [|discriminate]. cbn [negb]. intros H. injection H as H1 H2 H3 H4. subst.
  exists size, hs. repeat split; reflexivity.
Qed.

Lemma obj_encs_flat : forall ms bxs, obj_encs ms bxs -> (forall bx, In bx bxs -> zlen bx < 2147483648) ->
  exists es, concat bxs = flat es /\ length es = length ms /\ Forall good_entry es /\
             Forall2 (fun m e => fst e = fst m /\ enc_item (snd m) = Some (snd e) /\ zlen (snd e) < 2147483648) ms es.
Proof.
  induction 1 as [|k x bx r bs Hx Hk Hr IH]; intros Hsub.
  - exists []. repeat split; constructor.
  - destruct IH as (es & Hc & Hl & Hg & HF); [intros b' Hb'; apply Hsub; right; assumption|].
    assert (Hbx : zlen bx < 2147483648).
    { pose proof (Hsub _ (or_introl eq_refl)) as H. rewrite zlen_cons, zlen_app in H. pose proof (zlen_nonneg k). lia. }
    exists ((k, bx) :: es). split; [cbn [concat]; rewrite flat_cons, Hc; reflexivity|]. split; [cbn [length]; congruence|].
    split; constructor; try assumption.
    + unfold good_entry. cbn [fst snd]. split; [assumption|]. split; [apply (item_adv_any x); assumption|apply (item_len_pos x); assumption].
    + cbn [fst snd]. auto.
Qed.

Lemma find_entry_ci key rest : forallb char_ok key = true -> forall ms es,
  Forall2 (fun m e => fst e = fst m /\ enc_item (snd m) = Some (snd e) /\ zlen (snd e) < 2147483648) ms es ->
  Forall (fun m => forallb char_ok (fst m) = true) ms ->
  match find_ci key ms with
  | None => find_entry key es rest = None
  | Some x => exists bx tail, find_entry key es rest = Some (bx ++ tail) /\ enc_item x = Some bx /\ zlen bx < 2147483648 /\ In x (map snd ms)
  end.
Proof.
  intros Hkey. induction 1 as [|[k x] [k' bx] r es' (Hk & Hx & Hl) Hr IH]; intros Hch; [reflexivity|].
  cbn [fst snd] in *. subst k'. inversion Hch as [|? ? Hck Hcr]; subst. cbn [fst] in Hck.
  cbn [find_ci find_entry fst snd]. rewrite (key_clash_ieq k key Hck Hkey).
  destruct (key_ieq k key).
  - exists bx, (flat es' ++ rest). repeat split; try assumption. left. reflexivity.
  - specialize (IH Hcr). destruct (find_ci key r) as [y|]; [|exact IH].
    destruct IH as (by_ & tail & H1 & H2 & H3 & H4). exists by_, tail. repeat split; try assumption. right. assumption.
Qed.

(* binn_object_get_value on an encoded object: the member the case-folding rule designates, or nothing *)
Theorem object_get_repr : forall ms b key, repr (JObj ms) b -> forallb char_ok key = true ->
  match find_ci key ms with
  | None => object_get_value b key = None
  | Some x => exists bv, object_get_value b key = Some bv /\ repr x bv
  end.
Proof.
  intros ms b key Hr Hkey.
  destruct (repr_container _ _ Hr ltac:(right; eauto)) as (ty & count & body & rest & Hbt & Hit & Hb & Hk).
  destruct Hk as [(_ & l' & bxs & E & _)|(-> & ms' & bxs & E & Hx & -> & ->)]; [discriminate|]. injection E as <-.
  destruct Hr as (bs & rest' & Hw & _). destruct (wf_obj_inv _ Hw) as [Hwm _].
  destruct (iter_init_inv _ _ _ _ _ Hit) as (size & hs & Hh & Hskip & Hrem).
  unfold object_get_value. rewrite Hh. kc. kb.
  destruct (zlen ms =? 0) eqn:Ez.
  { assert (ms = []) by (destruct ms; [reflexivity|rewrite zlen_cons in Ez; pose proof (zlen_nonneg ms); lia]). subst ms. reflexivity. }
  rewrite Hskip, Hrem.
  destruct (obj_encs_flat ms bxs Hx) as (es & Hc & Hl & Hg & HF).
  { intros bx Hi. pose proof (in_concat_len bx bxs Hi). unfold zlen in *. lia. }
  rewrite Hc. rewrite to_nat_zlen, <- Hl. rewrite (search_pos_flat (cstr key) rest es Hg). rewrite (cstr_id key Hkey).
  assert (Hch : Forall (fun m => forallb char_ok (fst m) = true) ms) by (eapply Forall_impl; [|exact Hwm]; intros m (H & _); exact H).
  pose proof (find_entry_ci key rest Hkey ms es HF Hch) as Hf.
  destruct (find_ci key ms) as [x|]; [|rewrite Hf; reflexivity].
  destruct Hf as (bx & tail & Hfe & Hex & Hlx & Hin). rewrite Hfe.
  assert (Hwx : wf x = true).
  { apply in_map_iff in Hin as (m & <- & Hm). rewrite Forall_forall in Hwm. apply (Hwm m Hm). }
  destruct (gv_total x bx tail Hwx Hex Hlx) as (bv & Hbv). exists bv. split; [assumption|].
  exists bx, tail. repeat split; assumption.
Qed.

(* the typed getters on the member found *)
Theorem object_get_typed : forall ms b key x, repr (JObj ms) b -> forallb char_ok key = true -> find_ci key ms = Some x ->
  jbl_object_get_type b key = jval_type x /\
  (exists bv, jbl_object_get_fill b key = (G_OK, Some bv) /\ repr x bv) /\
  jbl_object_get_i64 b key = match x with JI64 n => (G_OK, n) | _ => (G_CREATION, 0) end /\
  jbl_object_get_f64 b key = match x with JF64 d => (G_OK, d) | _ => (G_CREATION, 0) end /\
  jbl_object_get_bool b key = match x with JBool t => (G_OK, t) | _ => (G_CREATION, false) end /\
  jbl_object_get_str b key = match x with JStr s => (G_OK, s) | _ => (G_CREATION, []) end.
Proof.
  intros ms b key x Hr Hkey Hf. pose proof (object_get_repr ms b key Hr Hkey) as Hg. rewrite Hf in Hg.
  destruct Hg as (bv & Hg & Rx).
  assert (Hbt : bt b = jbinn_BINN_OBJECT).
  { destruct (repr_container _ _ Hr ltac:(right; eauto)) as (ty & count & body & rest & Hbt & _ & _ & Hk).
    destruct Hk as [(_ & l' & bxs & E & _)|(-> & _)]; [discriminate|assumption]. }
  unfold jbl_object_get_type, jbl_object_get_fill, jbl_object_get_i64, jbl_object_get_f64, jbl_object_get_bool, jbl_object_get_str.
  rewrite Hbt, Hg. kc. kb.
  destruct (type_count_repr x bv Rx) as (Hty & _). unfold jbl_type in Hty.
  split; [exact Hty|]. split; [exists bv; split; [reflexivity|assumption]|].
  destruct (is_container x) eqn:Hc.
  - destruct (repr_container x bv Rx) as (ty & count & body & rest & Hbt' & _ & _ & Hk); [destruct x; try discriminate; eauto|].
    assert (Hty' : ty = 224 \/ ty = 226) by (destruct Hk as [(-> & _)|(-> & _)]; auto).
    unfold known_type, is_int_type, int64_of_bval. rewrite Hbt'. kc.
    destruct Hty' as [-> | ->]; kb; destruct x; try discriminate; repeat split; reflexivity.
  - destruct (repr_scalar_shape x bv Rx Hc) as (rest & Hs). destruct Rx as (bs & rest' & Hw & _).
    destruct x; try discriminate.
    + cbn [scalar_bval] in Hs. apply Some_inj in Hs. subst bv. repeat split; reflexivity.
    + cbn [scalar_bval] in Hs. apply Some_inj in Hs. subst bv. unfold known_type, is_int_type, int64_of_bval. cbn [bt bnum]. kc. kb.
      destruct b0; repeat split; reflexivity.
    + destruct (shape_int n rest bv Hs Hw) as (Hi & Hit & _).
      unfold known_type. rewrite Hit. cbn [orb negb]. rewrite Hi.
      assert (Hne : (bt bv =? jbinn_BINN_FLOAT64) = false /\ (bt bv =? jbinn_BINN_BOOL) = false /\ (bt bv =? jbinn_BINN_STRING) = false).
      { unfold is_int_type in Hit. kc. repeat (apply orb_prop in Hit as [Hit|Hit]); apply Z.eqb_eq in Hit; rewrite Hit; repeat split; reflexivity. }
      destruct Hne as (N1 & N2 & N3). kc. rewrite N1, N2, N3. repeat split; reflexivity.
    + cbn [wf] in Hw. apply andb_prop in Hw as [H1 H2]. pw.
      cbn [scalar_bval] in Hs. apply Some_inj in Hs. subst bv. unfold known_type, is_int_type, int64_of_bval. cbn [bt bnum]. kc. kb. pw.
      rewrite Z.mod_mod by lia. rewrite Z.mod_small by lia. repeat split; reflexivity.
    + cbn [wf] in Hw. cbn [scalar_bval] in Hs.
      assert (Hs' : (if jbinn_STRING_KEEPS_NUL =? 1 then s else cstr s) = s) by (destruct (jbinn_STRING_KEEPS_NUL =? 1); [reflexivity|apply cstr_id; assumption]).
      rewrite Hs' in Hs. apply Some_inj in Hs. subst bv. unfold known_type, is_int_type, int64_of_bval. cbn [bt bnum bptr]. kc. kb.
      assert (Hcs : cstr (s ++ [0] ++ rest) = s).
      { clear - Hw. induction s as [|c r IH]; [reflexivity|]. cbn [forallb] in Hw. apply andb_prop in Hw as [Hc Hr].
        cbn [app cstr]. unfold char_ok in Hc. replace (c =? 0) with false by lia. f_equal. apply IH. assumption. }
      rewrite Hcs. repeat split; reflexivity.
Qed.

Theorem object_get_missing : forall ms b key, repr (JObj ms) b -> forallb char_ok key = true -> find_ci key ms = None ->
  jbl_object_get_type b key = JP_JBV_NONE /\ jbl_object_get_fill b key = (G_CREATION, None) /\
  jbl_object_get_i64 b key = (G_CREATION, 0) /\ jbl_object_get_f64 b key = (G_CREATION, 0) /\
  jbl_object_get_bool b key = (G_CREATION, false) /\ jbl_object_get_str b key = (G_CREATION, []).
Proof.
  intros ms b key Hr Hkey Hf. pose proof (object_get_repr ms b key Hr Hkey) as Hg. rewrite Hf in Hg.
  assert (Hbt : bt b = jbinn_BINN_OBJECT).
  { destruct (repr_container _ _ Hr ltac:(right; eauto)) as (ty & count & body & rest & Hbt & _ & _ & Hk).
    destruct Hk as [(_ & l' & bxs & E & _)|(-> & _)]; [discriminate|assumption]. }
  unfold jbl_object_get_type, jbl_object_get_fill, jbl_object_get_i64, jbl_object_get_f64, jbl_object_get_bool, jbl_object_get_str.
  rewrite Hbt, Hg. repeat split; reflexivity.
Qed.

(* the case-folding rule and RFC 6901's exact rule: in a document with names unique ignoring case, a name that is present
   exactly is the one the case-folding rule designates *)
Lemma key_ieq_refl k : key_ieq k k = true. Proof. apply key_ieq_spec. reflexivity. Qed.
Lemma key_ieq_sym a b : key_ieq a b = key_ieq b a.
Proof. apply eq_iff_eq_true. rewrite !key_ieq_spec. split; intros H; symmetry; exact H. Qed.

Theorem find_ci_exact : forall ms key x, keys_unique (map fst ms) = true ->
  IW.JSON.Ptr.find_key key ms = Some x -> find_ci key ms = Some x.
Proof.
  induction ms as [|[k y] r IH]; intros key x Hu Hf; [discriminate|].
  cbn [map fst keys_unique] in Hu. apply andb_prop in Hu as [Hn Hu]. apply negb_true_iff in Hn.
  cbn [IW.JSON.Ptr.find_key] in Hf. cbn [find_ci].
  destruct (bytes_eqb key k) eqn:E.
  - assert (key = k).
    { clear - E. revert k E. induction key as [|c key IHk]; intros [|d k] E; try discriminate; [reflexivity|].
      cbn [bytes_eqb] in E. apply andb_prop in E as [E1 E2]. apply Z.eqb_eq in E1. subst. f_equal. apply IHk. assumption. }
    subst key. rewrite key_ieq_refl. exact Hf.
  - destruct (key_ieq k key) eqn:Ei; [|apply IH; assumption].
    exfalso. clear IH.
    assert (Hex : existsb (key_ieq k) (map fst r) = true).
    { apply existsb_exists. clear - Hf Ei. induction r as [|[k' y'] r IHr]; [discriminate|]. cbn [IW.JSON.Ptr.find_key] in Hf.
      destruct (bytes_eqb key k') eqn:E'.
      - exists k'. split; [left; reflexivity|].
        assert (key = k').
        { clear - E'. revert k' E'. induction key as [|c key IHk]; intros [|d k'] E'; try discriminate; [reflexivity|].
          cbn [bytes_eqb] in E'. apply andb_prop in E' as [E1 E2]. apply Z.eqb_eq in E1. subst. f_equal. apply IHk. assumption. }
        subst k'. exact Ei.
      - destruct (IHr Hf) as (k'' & Hin & Hk''). exists k''. split; [right; assumption|assumption]. }
    congruence.
Qed.

Lemma find_ci_in : forall key ms x, find_ci key ms = Some x -> exists k, In (k, x) ms.
Proof.
  induction ms as [|[k y] r IH]; intros x H; [discriminate|]. cbn [find_ci] in H.
  destruct (key_ieq k key); [injection H as <-; exists k; left; reflexivity|].
  destruct (IH x H) as (k' & Hk'). exists k'. right. assumption.
Qed.

(* the keyed accessors at the level of documents: on the binary form of the object `ms` every jbl_object_get_* call with a
   C-string key answers about the member the case-folding rule designates (find_ci), with the value that member has in the
   tree; and about no member when the rule designates none *)
Theorem object_get_doc : forall ms bs key, wf (JObj ms) = true -> binn_encode (JObj ms) = Some bs ->
  forallb char_ok key = true ->
  exists b, root_bval bs = Some b /\
  match find_ci key ms with
  | Some x =>
    jbl_object_get_type b key = jval_type x /\
    (exists bv, jbl_object_get_fill b key = (G_OK, Some bv) /\ dec_node (S (length bs)) bv = Some x) /\
    jbl_object_get_i64 b key = match x with JI64 n => (G_OK, n) | _ => (G_CREATION, 0) end /\
    jbl_object_get_f64 b key = match x with JF64 d => (G_OK, d) | _ => (G_CREATION, 0) end /\
    jbl_object_get_bool b key = match x with JBool t => (G_OK, t) | _ => (G_CREATION, false) end /\
    jbl_object_get_str b key = match x with JStr s => (G_OK, s) | _ => (G_CREATION, []) end
  | None =>
    jbl_object_get_type b key = JP_JBV_NONE /\ jbl_object_get_fill b key = (G_CREATION, None) /\
    jbl_object_get_i64 b key = (G_CREATION, 0) /\ jbl_object_get_f64 b key = (G_CREATION, 0) /\
    jbl_object_get_bool b key = (G_CREATION, false) /\ jbl_object_get_str b key = (G_CREATION, [])
  end.
Proof.
  intros ms bs key Hw He Hkey. destruct (root_repr _ bs Hw He) as (b & Hroot & R & He').
  exists b. split; [assumption|].
  destruct (find_ci key ms) as [x|] eqn:Hf; [|apply (object_get_missing ms); assumption].
  destruct (object_get_typed ms b key x R Hkey Hf) as (H1 & (bv & H2 & Rx) & H3 & H4 & H5 & H6).
  split; [assumption|]. split; [|repeat split; assumption].
  exists bv. split; [assumption|]. apply (repr_dec x bv Rx).
  destruct (find_ci_in key ms x Hf) as (k & Hin). pose proof (depth_le_len _ bs He') as Hd. cbn [depth] in Hd.
  pose proof (fold_max_ge (fun m => depth (snd m)) ms (k, x) Hin) as Hge. cbn beta in Hge. cbn [snd] in Hge. lia.
Qed.

(* jbl_size of a document is the length of its buffer, which is the size the guard predicts *)
Theorem size_doc : forall v bs, wf v = true -> binn_encode v = Some bs ->
  exists b, root_bval bs = Some b /\ jbl_size b = zlen bs /\ zlen bs = enc_size v.
Proof.
  intros v bs Hw He. destruct (root_repr v bs Hw He) as (b & Hroot & R & He').
  exists b. split; [assumption|].
  assert (Hl : zlen bs < 2147483648).
  { destruct (enc_container_inv v bs) as (ty & size & count & body & _ & <- & Hr & _); [destruct v; try discriminate; eauto|assumption|lia]. }
  destruct (enc_success_guard v bs He' Hl) as (_ & _ & Hsz). split; [|exact Hsz].
  unfold root_bval in Hroot. destruct (zlen bs <? jbinn_MIN_BINN_SIZE); [discriminate|].
  destruct (read_hdr bs) as [[[[ty size] count] hs]|] eqn:Eh; [|discriminate].
  destruct (size >? zlen bs) eqn:Es; [discriminate|]. injection Hroot as <-. unfold jbl_size. cbn [bsize].
  destruct (enc_container_inv v bs) as (ty' & size' & count' & body & Hbs & Hs' & Hr & Hk); [destruct v; try discriminate; eauto|assumption|].
  assert (Hty : ty' = jbinn_BINN_LIST \/ ty' = jbinn_BINN_OBJECT) by (destruct Hk as [[-> _]|[-> _]]; tauto).
  assert (Hcnt : 0 <= count' < 2147483648).
  { destruct Hk as [(_ & l & bxs & _ & Hx & Hb & ->)|(_ & l & bxs & _ & Hx & Hb & ->)].
    - destruct (arr_encs_len _ _ Hx) as [L1 L2]. pose proof (count_bound l bxs L1 L2). pose proof (zlen_nonneg l).
      rewrite Hbs, zlen_cons, !zlen_app in Hl. pose proof (zlen_nonneg (wr_field size')). pose proof (zlen_nonneg (wr_field (zlen l))). subst body. lia.
    - destruct (obj_encs_len _ _ Hx) as [L1 L2]. pose proof (count_bound l bxs L1 L2). pose proof (zlen_nonneg l).
      rewrite Hbs, zlen_cons, !zlen_app in Hl. pose proof (zlen_nonneg (wr_field size')). pose proof (zlen_nonneg (wr_field (zlen l))). subst body. lia. }
  rewrite Hbs in Eh. rewrite (read_hdr_saved ty' size' count' body Hty ltac:(lia) Hcnt) in Eh. injection Eh as _ <- _ _. exact Hs'.
Qed.
