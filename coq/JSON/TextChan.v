(* Print channels of the JSON printer (src/json/iwjson.h: jbl_json_printer and the three exported callbacks).

   The printers _jbl_node_as_json (jbn_as_json) and _jbl_as_json (jbl_as_json) never touch the output themselves: they
   make a sequence of calls  pt(data, size, ch, count, op)  of a printer callback.  This file models
     - that sequence of calls (`chunk`, `emit_node`, `emit_jbl`: which calls pass data == NULL with a single
       character and a count, which pass a buffer with a size or -1),
     - what the three exported callbacks do with one call (`xstr_put`: jbl_xstr_json_printer, `fstream_put`:
       jbl_fstream_json_printer, `count_put`: jbl_count_json_printer), each written after its C code,
     - the bytes a call stands for according to the documented contract (`chunk_bytes`).
   A channel is `fold_left <sink>_put (chunks) <initial state>`.  TextChan_proofs.v shows that the chunks of a document
   concatenate to the text `as_json` / `jbl_as_json` of Text.v gives and that every sink receives exactly these bytes
   (the count printer: their number).

   The single character of a call is a C `char`: a string byte >= 0x80 is passed as a NEGATIVE number where `char`
   is signed (`jtext_char_signed`, a regenerated fact); a sink stores `(unsigned char) ch`. *)
Require Import ZArith List Bool.
Require Import IW.Lib.CInt IW.Gen.Facts IW.UT.Conv IW.JSON.Val IW.JSON.Utf8 IW.JSON.Text.
Import ListNotations.
Local Open Scope Z_scope. Local Open Scope bool_scope.

Inductive chunk :=
| CCh (ch : Z) (count : Z)                    (* pt(0, 0, ch, count, op): data == NULL *)
| CBuf (data : list Z) (size : Z) (count : Z). (* pt(data, size, 0, count, op): data = the buffer's bytes, a NUL follows them *)

(* conversion of a byte 0..255 to the C type char *)
Definition cchar (c : Z) : Z := if jtext_char_signed then sw 8 c else uw 8 c.
(* (unsigned char) ch *)
Definition byte_of_char (ch : Z) : Z := uw 8 ch.

Definition C1 (c : Z) : chunk := CCh (cchar c) 1.                             (* PT(0, 0, c, 1) *)
Definition CN (c n : Z) : chunk := CCh (cchar c) n.                           (* PT(0, 0, c, n) *)
Definition CB (d : list Z) : chunk := CBuf d (Z.of_nat (length d)) 0.         (* PT(buf, len, 0, 0) *)

(* ---------------------------------------------------------------- the calls _jbl_write_json_string makes for str[i..len) *)
Fixpoint wstr_ch (fuel : nat) (pf : Z) (s : list Z) : res (list chunk) :=
  match fuel with
  | O => Err E_FUEL
  | S f =>
    match s with
    | [] => Ok []
    | ch :: r =>
      let cont (pre : list chunk) (s' : list Z) :=
        match wstr_ch f pf s' with Ok t => Ok (pre ++ t) | Err e => Err e end in
      if (ch =? 34) || (ch =? 92) then cont [C1 92; C1 ch] r
      else if (8 <=? ch) && (ch <=? 13) && negb (ch =? 11) then cont [C1 92; C1 (nth (Z.to_nat (ch - 8)) specials 0)] r
      else if ch <? 32 then cont [CB (u_esc ch)] r                              (* PT(sbuf, 6, 0, 0) *)
      else if isprint ch then cont [C1 ch] r
      else if has pf JBL_PRINT_CODEPOINTS then
        match iterate s with
        | None => Err E_UTF8
        | Some (cp, sz) =>
          if cp >=? 65536 then
            let c' := cp - 65536 in
            cont [CB (u_esc (Z.lor 55296 (Z.land (Z.shiftr c' 10) 1023))); CB (u_esc (Z.lor 56320 (Z.land c' 1023)))]
                 (skipn (Z.to_nat sz) s)
          else cont [CB (u_esc cp)] (skipn (Z.to_nat sz) s)
        end
      else cont [C1 ch] r
    end
  end.

Definition write_json_string_ch (pf : Z) (s : list Z) : res (list chunk) :=
  match wstr_ch (S (length s)) pf s with Ok t => Ok ([C1 34] ++ t ++ [C1 34]) | Err e => Err e end.

(* _jbl_write_int: pt(buf, sz, 0, 0, op) *)
Definition write_int_ch (n : Z) : res (list chunk) :=
  match write_int n with Ok t => Ok [CB t] | Err e => Err e end.

Definition bindc (a b : res (list chunk)) (k : list chunk -> list chunk -> list chunk) : res (list chunk) :=
  match a with Err e => Err e | Ok x => match b with Err e => Err e | Ok y => Ok (k x y) end end.

Section Emit.
  Variable fo : Z -> list Z.          (* iwjson_ftoa: the text written for the double with these bits *)
  Variable pf : Z.

  (* _jbl_node_as_json(node, pt, op, lvl, pf): the calls it makes *)
  Fixpoint emit_node (lvl : Z) (v : jval) : res (list chunk) :=
    match v with
    | JNull => Ok [CBuf [110; 117; 108; 108] 4 1]                              (* PT("null", 4, 0, 1) *)
    | JBool true => Ok [CBuf [116; 114; 117; 101] 4 1]
    | JBool false => Ok [CBuf [102; 97; 108; 115; 101] 5 1]
    | JI64 n => write_int_ch n
    | JF64 b => Ok [CBuf (fo b) (-1) 0]                                        (* pt(buf, -1, 0, 0, op) *)
    | JStr s => write_json_string_ch pf s
    | JArr items =>
      let open := [C1 91] ++ (match items with [] => [] | _ => if pretty pf then [C1 10] else [] end) in
      let close := (match items with [] => [] | _ => if pretty pf then [CN 32 (lvl * indent pf)] else [] end) ++ [C1 93] in
      match (fix go (l : list jval) : res (list chunk) :=
               match l with
               | [] => Ok []
               | x :: r =>
                 bindc (emit_node (lvl + 1) x) (go r) (fun a b =>
                   (if pretty pf then [CN 32 (lvl * indent pf + indent pf)] else []) ++ a
                   ++ (match r with [] => [] | _ => [C1 44] end) ++ (if pretty pf then [C1 10] else []) ++ b)
               end) items with
      | Err e => Err e
      | Ok body => Ok (open ++ body ++ close)
      end
    | JObj members =>
      let open := [C1 123] ++ (match members with [] => [] | _ => if pretty pf then [C1 10] else [] end) in
      let close := (match members with [] => [] | _ => if pretty pf then [CN 32 (lvl * indent pf)] else [] end) ++ [C1 125] in
      match (fix go (l : list (list Z * jval)) : res (list chunk) :=
               match l with
               | [] => Ok []
               | (k, x) :: r =>
                 match write_json_string_ch pf k with
                 | Err e => Err e
                 | Ok kt =>
                   bindc (emit_node (lvl + 1) x) (go r) (fun a b =>
                     (if pretty pf then [CN 32 (lvl * indent pf + indent pf)] else []) ++ kt
                     ++ (if pretty pf then [CBuf [58; 32] (-1) 0] else [C1 58]) ++ a     (* PT(": ", -1, 0, 0) / PT(0, 0, ':', 1) *)
                     ++ (match r with [] => [] | _ => [C1 44] end) ++ (if pretty pf then [C1 10] else []) ++ b)
                 end
               end) members with
      | Err e => Err e
      | Ok body => Ok (open ++ body ++ close)
      end
    end.

  (* _jbl_as_json(bn, pt, op, lvl, pf) of src/json/iwjson.c on the binn form of v (values reached through the binn
     iterators: booleans are BINN_BOOL, PT(.., -1, 0, 1); null is PT("null", 4, 0, 0)) *)
  Fixpoint emit_jbl (lvl : Z) (v : jval) : res (list chunk) :=
    let pretty := has pf JBL_PRINT_PRETTY in
    match v with
    | JNull => Ok [CBuf [110; 117; 108; 108] 4 0]
    | JBool true => Ok [CBuf [116; 114; 117; 101] (-1) 1]
    | JBool false => Ok [CBuf [102; 97; 108; 115; 101] (-1) 1]
    | JI64 n => write_int_ch n
    | JF64 b => Ok [CBuf (fo b) (-1) 0]
    | JStr s => write_json_string_ch pf (cstr0 s)
    | JArr items =>
      let open := [C1 91] ++ (match items with [] => [] | _ => if pretty then [C1 10] else [] end) in
      let close := (match items with [] => [] | _ => if pretty then [CN 32 (lvl * indent pf)] else [] end) ++ [C1 93] in
      match (fix go (l : list jval) : res (list chunk) :=
               match l with
               | [] => Ok []
               | x :: r =>
                 bindc (emit_jbl (lvl + 1) x) (go r) (fun a b =>
                   (if pretty then [CN 32 (lvl * indent pf + indent pf)] else []) ++ a
                   ++ (match r with [] => [] | _ => [C1 44] end) ++ (if pretty then [C1 10] else []) ++ b)
               end) items with
      | Err e => Err e
      | Ok body => Ok (open ++ body ++ close)
      end
    | JObj members =>
      let open := [C1 123] ++ (match members with [] => [] | _ => if pretty then [C1 10] else [] end) in
      let close := (match members with [] => [] | _ => if pretty then [CN 32 (lvl * indent pf)] else [] end) ++ [C1 125] in
      match (fix go (l : list (list Z * jval)) : res (list chunk) :=
               match l with
               | [] => Ok []
               | (k, x) :: r =>
                 match write_json_string_ch pf (cstr0 k) with
                 | Err e => Err e
                 | Ok kt =>
                   bindc (emit_jbl (lvl + 1) x) (go r) (fun a b =>
                     (if pretty then [CN 32 (lvl * indent pf + indent pf)] else []) ++ kt
                     ++ (if pretty then [CBuf [58; 32] (-1) 0] else [C1 58]) ++ a
                     ++ (match r with [] => [] | _ => [C1 44] end) ++ (if pretty then [C1 10] else []) ++ b)
                 end
               end) members with
      | Err e => Err e
      | Ok body => Ok (open ++ body ++ close)
      end
    end.

  Definition as_json_chunks (v : jval) : res (list chunk) := emit_node 0 v.        (* jbn_as_json *)
  Definition jbl_as_json_chunks (v : jval) : res (list chunk) := emit_jbl 0 v.     (* jbl_as_json *)
End Emit.

(* ---------------------------------------------------------------- the contract: the bytes one call stands for *)
Definition strlen (d : list Z) : Z := Z.of_nat (length (cstr0 d)).

Definition chunk_bytes (c : chunk) : list Z :=
  match c with
  | CCh ch count => repeat (byte_of_char ch) (Z.to_nat count)
  | CBuf d size count =>
    let piece := if size <? 0 then cstr0 d else firstn (Z.to_nat size) d in
    concat (repeat piece (Z.to_nat (if count =? 0 then 1 else count)))
  end.
Definition chunks_bytes (cs : list chunk) : list Z := flat_map chunk_bytes cs.

(* ---------------------------------------------------------------- the exported callbacks, one call each *)
(* for (int i = 0; i < n; ++i) a = f(a) *)
Fixpoint times {A : Type} (n : nat) (f : A -> A) (a : A) : A :=
  match n with O => a | S k => times k f (f a) end.

(* The content of a byte sink is kept NEWEST BYTE FIRST (appending a byte is a cons; `sink_text` reads it in writing
   order): the extracted sinks then run in linear time. *)
Definition sink_text (rb : list Z) : list Z := rev_append rb [].              (* = rev rb, in linear time *)
Definition sink_cat (rb : list Z) (p : list Z) : list Z := rev_append p rb.       (* append the bytes p *)

(* jbl_xstr_json_printer: iwxstr_cat(xstr, &ch, 1) count times / iwxstr_cat(xstr, data, size) count times *)
Definition xstr_put (rb : list Z) (c : chunk) : list Z :=
  match c with
  | CCh ch count => times (Z.to_nat count) (fun b => sink_cat b [byte_of_char ch]) rb
  | CBuf d size count =>
    let size := if size <? 0 then strlen d else size in
    let count := if count =? 0 then 1 else count in
    times (Z.to_nat count) (fun b => sink_cat b (firstn (Z.to_nat size) d)) rb
  end.

(* jbl_fstream_json_printer: memset(cbuf, ch, count) + fwrite / fprintf(file, "%.*s", size, data) count times
   (a string conversion with a precision stops at a NUL) *)
Definition fstream_put (rf : list Z) (c : chunk) : list Z :=
  match c with
  | CCh ch count => if count =? 0 then rf else sink_cat rf (repeat (byte_of_char ch) (Z.to_nat count))
  | CBuf d size count =>
    let size := if size <? 0 then strlen d else size in
    let count := if count =? 0 then 1 else count in
    times (Z.to_nat count) (fun b => sink_cat b (firstn (Z.to_nat size) (cstr0 d))) rf
  end.

(* jbl_count_json_printer: *cnt += count / *cnt += count * size  (C int; no wrap below 2^31) *)
Definition count_put (cnt : Z) (c : chunk) : Z :=
  match c with
  | CCh _ count => cnt + count
  | CBuf d size count =>
    let size := if size <? 0 then strlen d else size in
    let count := if count =? 0 then 1 else count in
    cnt + count * size
  end.

(* the channels: a printer's calls folded into a sink *)
Definition chan_xstr (cs : list chunk) : list Z := sink_text (fold_left xstr_put cs []).
Definition chan_fstream (cs : list chunk) : list Z := sink_text (fold_left fstream_put cs []).
Definition chan_count (cs : list chunk) : Z := fold_left count_put cs 0.

(* ---------------------------------------------------------------- T1: one call of each callback for every byte (Gen/Facts.v, probe_jtext.c) *)
Fixpoint zlist_eqb (a b : list Z) : bool :=
  match a, b with
  | [], [] => true
  | x :: a', y :: b' => (x =? y) && zlist_eqb a' b'
  | _, _ => false
  end.

(* the six calls of the probe for the byte b *)
Definition probe_chunk (mode : nat) (b : Z) : chunk :=
  match mode with
  | 0%nat => CCh (cchar b) 1
  | 1%nat => CCh (cchar b) 3
  | 2%nat => CCh (cchar b) 0
  | 3%nat => CBuf [b; 120] 2 0
  | 4%nat => CBuf [b; 120] (-1) 2
  | _ => CBuf [121; b] 1 1
  end.

(* a table row is the status (0 = success) followed by what arrived in the sink *)
Definition row_ok (got row : list Z) : bool :=
  match row with st :: bytes => (st =? 0) && zlist_eqb got bytes | [] => false end.

Definition sink_tables_ok (b : Z) : bool :=
  let row (t : list (list Z)) := nth (Z.to_nat b) t [] in
  forallb (fun mt : nat * (list (list Z) * (list (list Z) * list (list Z))) =>
             let '(m, (tx, (tf, tc))) := mt in
             row_ok (sink_text (xstr_put [] (probe_chunk m b))) (row tx)
             && row_ok (sink_text (fstream_put [] (probe_chunk m b))) (row tf)
             && row_ok [count_put 0 (probe_chunk m b)] (row tc))
          [(0%nat, (jtext_xstr_tbl0, (jtext_fstream_tbl0, jtext_count_tbl0)));
           (1%nat, (jtext_xstr_tbl1, (jtext_fstream_tbl1, jtext_count_tbl1)));
           (2%nat, (jtext_xstr_tbl2, (jtext_fstream_tbl2, jtext_count_tbl2)));
           (3%nat, (jtext_xstr_tbl3, (jtext_fstream_tbl3, jtext_count_tbl3)));
           (4%nat, (jtext_xstr_tbl4, (jtext_fstream_tbl4, jtext_count_tbl4)));
           (5%nat, (jtext_xstr_tbl5, (jtext_fstream_tbl5, jtext_count_tbl5)))].

(* ---------------------------------------------------------------- trees the channel theorems speak about: any bytes in strings
   and keys, int64 integers, doubles allowed (their text is the oracle parameter `fo`) *)
Definition byte255 (b : Z) : Prop := 0 <= b <= 255.
Fixpoint wfd (v : jval) : Prop :=
  match v with
  | JNull | JBool _ | JF64 _ => True
  | JI64 n => - 2 ^ 63 <= n < 2 ^ 63
  | JStr s => Forall byte255 s
  | JArr l => fold_right (fun x a => wfd x /\ a) True l
  | JObj l => fold_right (fun kx a => (let '(k, x) := kx in Forall byte255 k /\ wfd x) /\ a) True l
  end.

(* a call every sink understands alike: a count that is not negative; a sized buffer holds `size` bytes before its NUL *)
Definition chunk_ok (c : chunk) : Prop :=
  match c with
  | CCh _ count => 0 <= count
  | CBuf d size count =>
    0 <= count /\ (size < 0 \/ (0 <= size <= Z.of_nat (length d) /\ ~ In 0 (firstn (Z.to_nat size) d)))
  end.
