(* C13 reference definitions, independent of the code-level model in Text.v/Utf8.v:
   the UTF-8 encoding of a code point, the decimal text of an integer, JSON string bodies as lists of items
   (RFC 8259 section 7) with the byte string they denote, and a compact reference printer. *)
Require Import ZArith List Bool. Require Import IW.JSON.Val. Import ListNotations.
Local Open Scope Z_scope. Local Open Scope bool_scope.

(* ---------------------------------------------------------------- UTF-8 (RFC 3629), arithmetic form *)
Definition scalar (cp : Z) : Prop := (0 <= cp < 55296) \/ (57344 <= cp < 1114112).

Definition utf8_enc (cp : Z) : list Z :=
  if cp <? 128 then [cp]
  else if cp <? 2048 then [192 + cp / 64; 128 + cp mod 64]
  else if cp <? 65536 then [224 + cp / 4096; 128 + (cp / 64) mod 64; 128 + cp mod 64]
  else [240 + cp / 262144; 128 + (cp / 4096) mod 64; 128 + (cp / 64) mod 64; 128 + cp mod 64].

(* ---------------------------------------------------------------- decimal text of an integer *)
Fixpoint dec_pos (fuel : nat) (n : Z) (acc : list Z) : list Z :=
  match fuel with
  | O => acc
  | S f => if n =? 0 then acc else dec_pos f (n / 10) ((48 + n mod 10) :: acc)
  end.
(* 20 digits are enough below 10^20 *)
Definition dec (n : Z) : list Z :=
  if n =? 0 then [48] else if n <? 0 then 45 :: dec_pos 20 (- n) [] else dec_pos 20 n [].

(* ---------------------------------------------------------------- string bodies *)
Definition hexv (c : Z) : Z :=
  if (48 <=? c) && (c <=? 57) then c - 48
  else if (65 <=? c) && (c <=? 70) then c - 55
  else if (97 <=? c) && (c <=? 102) then c - 87
  else -1.
Definition is_hex (c : Z) : Prop := 0 <= hexv c.
Definition cp4 (h1 h2 h3 h4 : Z) : Z := ((hexv h1 * 16 + hexv h2) * 16 + hexv h3) * 16 + hexv h4.

Inductive sitem :=
| SRaw (b : Z)                                   (* a byte copied as it is *)
| SEsc (c : Z)                                   (* backslash + one of: quote, backslash, slash, b f n r t *)
| SU (h1 h2 h3 h4 : Z)                           (* \uXXXX, not a surrogate *)
| SPair (h1 h2 h3 h4 l1 l2 l3 l4 : Z).           (* \uD8xx-\uDBxx followed by \uDCxx-\uDFxx *)

Definition esc_byte (c : Z) : Z :=
  if c =? 98 then 8 else if c =? 102 then 12 else if c =? 110 then 10 else if c =? 114 then 13
  else if c =? 116 then 9 else c.

(* RFC 8259 allows raw bytes >= 0x20 other than quote and backslash (multi-byte UTF-8 passes byte by byte);
   the unescaper also copies raw control bytes, so only NUL, quote and backslash are excluded here *)
Definition item_ok (i : sitem) : Prop :=
  match i with
  | SRaw b => 1 <= b <= 255 /\ b <> 34 /\ b <> 92
  | SEsc c => c = 34 \/ c = 92 \/ c = 47 \/ c = 98 \/ c = 102 \/ c = 110 \/ c = 114 \/ c = 116
  | SU h1 h2 h3 h4 => is_hex h1 /\ is_hex h2 /\ is_hex h3 /\ is_hex h4 /\
                      (cp4 h1 h2 h3 h4 < 55296 \/ 57344 <= cp4 h1 h2 h3 h4)
  | SPair h1 h2 h3 h4 l1 l2 l3 l4 =>
    is_hex h1 /\ is_hex h2 /\ is_hex h3 /\ is_hex h4 /\ is_hex l1 /\ is_hex l2 /\ is_hex l3 /\ is_hex l4 /\
    55296 <= cp4 h1 h2 h3 h4 < 56320 /\ 56320 <= cp4 l1 l2 l3 l4 < 57344
  end.

Definition render (i : sitem) : list Z :=
  match i with
  | SRaw b => [b]
  | SEsc c => [92; c]
  | SU h1 h2 h3 h4 => [92; 117; h1; h2; h3; h4]
  | SPair h1 h2 h3 h4 l1 l2 l3 l4 => [92; 117; h1; h2; h3; h4; 92; 117; l1; l2; l3; l4]
  end.

(* the code point(s) an item stands for, as UTF-8 *)
Definition denote (i : sitem) : list Z :=
  match i with
  | SRaw b => [b]
  | SEsc c => [esc_byte c]
  | SU h1 h2 h3 h4 => utf8_enc (cp4 h1 h2 h3 h4)
  | SPair h1 h2 h3 h4 l1 l2 l3 l4 =>
    utf8_enc (65536 + (cp4 h1 h2 h3 h4 - 55296) * 1024 + (cp4 l1 l2 l3 l4 - 56320))
  end.

Definition render_all (l : list sitem) : list Z := flat_map render l.
Definition denote_all (l : list sitem) : list Z := flat_map denote l.

(* ---------------------------------------------------------------- trees *)
Definition byte_ok (b : Z) : Prop := 0 <= b <= 255.
Definition bytes_ok (s : list Z) : Prop := Forall byte_ok s.

(* values the library can hold and this model covers: int64 integers, byte strings, no doubles *)
Fixpoint wf (v : jval) : Prop :=
  match v with
  | JNull | JBool _ => True
  | JI64 n => - 2 ^ 63 <= n < 2 ^ 63
  | JF64 _ => False
  | JStr s => bytes_ok s
  | JArr l => fold_right (fun x a => wf x /\ a) True l
  | JObj l => fold_right (fun kx a => (let '(k, x) := kx in bytes_ok k /\ wf x) /\ a) True l
  end.

(* nesting as the parser counts it: a container costs one level even when it is empty *)
Fixpoint depth (v : jval) : Z :=
  match v with
  | JArr l => 1 + fold_right (fun x a => Z.max (depth x) a) 0 l
  | JObj l => 1 + fold_right (fun kx a => Z.max (let '(_, x) := kx in depth x) a) 0 l
  | _ => 0
  end.

(* number of nodes *)
Fixpoint jsize (v : jval) : nat :=
  match v with
  | JArr l => S (fold_right (fun x a => jsize x + a)%nat O l)
  | JObj l => S (fold_right (fun kx a => (let '(_, x) := kx in jsize x) + a)%nat O l)
  | _ => 1%nat
  end.

(* ---------------------------------------------------------------- RFC 8259 grammar (integers only; doubles are outside the model) *)
Definition ws_char (c : Z) : Prop := c = 32 \/ c = 9 \/ c = 10 \/ c = 13.
Definition ws (w : list Z) : Prop := Forall ws_char w.

(* string items as RFC 8259 allows them: unescaped bytes are >= 0x20 *)
Definition item_rfc (i : sitem) : Prop :=
  item_ok i /\ match i with SRaw b => 32 <= b | _ => True end.

(* int = [ minus ] ( zero / digit1-9 *DIGIT ), value within int64 *)
Inductive int_tok : list Z -> Z -> Prop :=
| IT_dec : forall n, - 2 ^ 63 <= n < 2 ^ 63 -> int_tok (dec n) n
| IT_negzero : int_tok [45; 48] 0.

Inductive denotes : list Z -> jval -> Prop :=
| D_null : denotes [110; 117; 108; 108] JNull
| D_true : denotes [116; 114; 117; 101] (JBool true)
| D_false : denotes [102; 97; 108; 115; 101] (JBool false)
| D_int : forall t n, int_tok t n -> denotes t (JI64 n)
| D_str : forall items, Forall item_rfc items -> denotes (34 :: render_all items ++ [34]) (JStr (denote_all items))
| D_arr0 : forall w, ws w -> denotes (91 :: w ++ [93]) (JArr [])
| D_arr : forall ts l, elems ts l -> denotes (91 :: ts ++ [93]) (JArr l)
| D_obj0 : forall w, ws w -> denotes (123 :: w ++ [125]) (JObj [])
| D_obj : forall ts l, members ts l -> denotes (123 :: ts ++ [125]) (JObj l)
(* ws value ws *( "," ws value ws ) *)
with elems : list Z -> list jval -> Prop :=
| E_one : forall w1 t v w2, ws w1 -> denotes t v -> ws w2 -> elems (w1 ++ t ++ w2) [v]
| E_cons : forall w1 t v w2 ts l, ws w1 -> denotes t v -> ws w2 -> elems ts l ->
    elems (w1 ++ t ++ w2 ++ 44 :: ts) (v :: l)
(* ws string ws ":" ws value ws *( "," member ) *)
with members : list Z -> list (list Z * jval) -> Prop :=
| M_one : forall w1 items w2 w3 t v w4, ws w1 -> Forall item_rfc items -> ws w2 -> ws w3 -> denotes t v -> ws w4 ->
    members (w1 ++ (34 :: render_all items ++ [34]) ++ w2 ++ 58 :: w3 ++ t ++ w4) [(denote_all items, v)]
| M_cons : forall w1 items w2 w3 t v w4 ts l, ws w1 -> Forall item_rfc items -> ws w2 -> ws w3 -> denotes t v -> ws w4 ->
    members ts l ->
    members (w1 ++ (34 :: render_all items ++ [34]) ++ w2 ++ 58 :: w3 ++ t ++ w4 ++ 44 :: ts) ((denote_all items, v) :: l).

Scheme denotes_mind := Minimality for denotes Sort Prop
  with elems_mind := Minimality for elems Sort Prop
  with members_mind := Minimality for members Sort Prop.
Combined Scheme denotes_mutind from denotes_mind, elems_mind, members_mind.

(* no NUL byte in strings and member names: what the binary form (C strings) can hold *)
Fixpoint nulfree (v : jval) : Prop :=
  match v with
  | JStr s => ~ In 0 s
  | JArr l => fold_right (fun x a => nulfree x /\ a) True l
  | JObj l => fold_right (fun kx a => (let '(k, x) := kx in ~ In 0 k /\ nulfree x) /\ a) True l
  | _ => True
  end.
