(* C15, deepening round: the documented extensions (increment, add_create, swap), the operation code 0, and the total
   statements over ALL operation kinds and ALL documents.  Model: IW.JSON.Patch; specification: lib_op / ext_* of
   IW.JSON.PatchSpec. *)
Require Import ZArith List Bool Lia.
Require Import IW.Lib.CInt IW.UT.Conv IW.JSON.Val IW.JSON.Patch IW.JSON.PatchSpec IW.JSON.Patch_proofs IW.Gen.Facts.
Import ListNotations. Local Open Scope Z_scope. Local Open Scope bool_scope.
Ltac Zify.zify_post_hook ::= Z.div_mod_to_equations.

(* ------------------------------------------------------------------ small facts *)
Lemma set_child_same : forall n i c, nth_error (n_ch n) i = Some c -> set_child n i c = n.
Proof.
  intros [kl key ty vi vs ch] i c H. unfold set_child, set_ch. cbn [n_ch] in *. f_equal. symmetry. apply nth_split. exact H.
Qed.

Lemma val_ti64 : forall n, n_ty n = TI64 -> val n = JI64 (n_vi n).
Proof. intros [kl key ty vi vs ch] H. simpl in *. subst. reflexivity. Qed.
Lemma val_tf64 : forall n, n_ty n = TF64 -> val n = JF64 (n_vi n).
Proof. intros [kl key ty vi vs ch] H. simpl in *. subst. reflexivity. Qed.

Definition nsum (fo : fops) := num_sum (f_add fo) (f_of_i fo) (f_to_i fo) (f_fits fo).

(* _jbl_increment_node_data *)
Lemma increment_spec : forall fo c v, good c -> good v ->
  match nsum fo (val c) (val v) with
  | Some x => fst (increment fo c v) = RcOk /\ val (snd (increment fo c v)) = x /\ good (snd (increment fo c v)) /\
              n_kl (snd (increment fo c v)) = n_kl c /\ n_key (snd (increment fo c v)) = n_key c
  | None => fst (increment fo c v) <> RcOk /\ snd (increment fo c v) = c
  end.
Proof.
  intros fo [ckl ckey cty cvi cvs cch] [vkl vkey vty vvi vvs vch] [Ic Tc] [Iv Tv].
  unfold nsum, num_sum, increment, increment_v. cbn [n_ty n_vi]. change i64_fits with i64_ok.
  destruct vty; try (exfalso; apply Tv; reflexivity); destruct cty; try (exfalso; apply Tc; reflexivity);
    cbn [val fst snd n_kl n_key]; try (split; [discriminate | reflexivity]);
    repeat match goal with |- context [if ?b then _ else _] => destruct b end;
    cbn [val fst snd n_kl n_key]; try (split; [discriminate | reflexivity]);
    (split; [reflexivity|]; split; [reflexivity|]; split; [|split; reflexivity]; split; [|discriminate]; simpl in *; tauto).
Qed.

(* ------------------------------------------------------------------ increment *)
Definition ext_inc_alt (fo : fops) (dv : jval) (p : list sseg) (x : jval) : option jval :=
  match jget lenient dv p with
  | Some a => match nsum fo a x with Some r => jmod lenient dv p (set_here lenient r) | None => None end
  | None => None
  end.
Lemma ext_increment_alt : forall fo dv p x,
  ext_increment lenient (f_add fo) (f_of_i fo) (f_to_i fo) (f_fits fo) dv p x = ext_inc_alt fo dv p x.
Proof.
  intros fo dv p x. reflexivity.
Qed.

Lemma set_here_step : forall n s i c x, inv n -> child_pos n s = Some i -> nth_error (n_ch n) i = Some c ->
  set_here lenient x (val n) s = Some (upd_val n s i x).
Proof.
  intros n s i c x H C N. apply inv_unfold in H. destruct H as [Hg Ht]. unfold upd_val.
  destruct (n_ty n) eqn:T; try (rewrite scalar_child_pos in C by (rewrite T; discriminate); discriminate).
  - unfold child_pos in C. rewrite T in C. pose proof (obj_pos s (n_ch n) Ht) as P. rewrite C in P.
    destruct P as [c0 [A [B [L _]]]]. rewrite (val_obj n T). cbn [set_here]. rewrite L. reflexivity.
  - rewrite (arr_pos n s T Ht) in C. rewrite (val_arr n T). cbn [set_here]. rewrite C. reflexivity.
Qed.

Lemma put_here_inc_spec : forall fo p s v, inv p -> good v ->
  put_post (fst (put_here fo OIncrement p s v)) p (snd (put_here fo OIncrement p s v)) (ext_inc_alt fo (val p) [s] (val v)) /\
  (fst (put_here fo OIncrement p s v) <> RcOk -> snd (put_here fo OIncrement p s v) = p).
Proof.
  intros fo p s v H G. pose proof (step_spec p s H) as S. unfold ext_inc_alt.
  assert (E : put_here fo OIncrement p s v =
              match child_pos p s with
              | Some i => match nth_error (n_ch p) i with
                          | None => (RcTargetInvalid, p)
                          | Some c => let '(r, c') := increment fo c v in (r, set_child p i c')
                          end
              | None => (RcTargetInvalid, p)
              end).
  { unfold put_here. change (op_eqb OIncrement OIncrement) with true. cbv iota.
    destruct (n_ty p) eqn:T; try reflexivity;
      try (rewrite scalar_child_pos by (rewrite T; discriminate); reflexivity). }
  rewrite E. clear E.
  destruct (child_pos p s) as [i|] eqn:C.
  - destruct S as [c [A [Gc S]]]. rewrite A. rewrite (S []). cbn [jget].
    pose proof (increment_spec fo c v Gc G) as I.
    destruct (increment fo c v) as [r c'] eqn:EI. cbn [fst snd] in *.
    destruct (nsum fo (val c) (val v)) as [x|].
    + destruct I as [I1 [I2 [I3 [I4 I5]]]]. subst r.
      destruct (set_child_spec p s i c c' H C A I3 I4 I5) as [Q1 [Q2 [Q3 [Q4 Q5]]]].
      split; [|intro F; exfalso; apply F; reflexivity].
      unfold put_post. cbn [rc_ok]. repeat split; auto.
      cbn [jmod]. rewrite (set_here_step p s i c x H C A). rewrite Q2, I2. reflexivity.
    + destruct I as [I1 I2]. subst c'. rewrite (set_child_same p i c A).
      split; [|reflexivity]. unfold put_post. repeat split; auto.
      destruct r; try reflexivity. exfalso. apply I1. reflexivity.
  - rewrite (S []). cbn [fst snd]. split; [|reflexivity]. unfold put_post. cbn [rc_ok]. repeat split; auto.
Qed.

Lemma ext_inc_alt_step : forall fo n s i c r x, inv n -> child_pos n s = Some i -> nth_error (n_ch n) i = Some c -> r <> [] ->
  ext_inc_alt fo (val n) (s :: r) x =
  match ext_inc_alt fo (val c) r x with Some x' => Some (upd_val n s i x') | None => None end.
Proof.
  intros fo n s i c r x H C N R. unfold ext_inc_alt.
  pose proof (step_spec n s H) as S. rewrite C in S. destruct S as [c0 [A [_ S]]]. rewrite N in A. inversion A; subst c0.
  rewrite S. destruct (jget lenient (val c) r) as [a|]; [|reflexivity].
  destruct (nsum fo a x) as [y|]; [|reflexivity].
  apply (jmod_step n s i c r _ H C N R).
Qed.

Lemma inc_put_spec : forall fo v, good v -> forall p n, inv n -> p <> [] ->
  match m_put fo OIncrement n p v with
  | Some (r, n') => put_post r n n' (ext_inc_alt fo (val n) p (val v)) /\ (r <> RcOk -> n' = n)
  | None => ext_inc_alt fo (val n) p (val v) = None
  end.
Proof.
  intros fo v G. induction p as [|s r IH]; intros n H NE; [contradiction|].
  cbn [m_put]. destruct r as [|s2 r'].
  - pose proof (put_here_inc_spec fo n s v H G) as P. destruct (put_here fo OIncrement n s v) as [r0 n']. exact P.
  - pose proof (step_spec n s H) as S.
    destruct (child_pos n s) as [i|] eqn:C.
    + destruct S as [c [A [[G1 G2] S]]]. rewrite A.
      rewrite (ext_inc_alt_step fo n s i c (s2 :: r') _ H C A) by discriminate.
      specialize (IH c G1). assert (NE2 : s2 :: r' <> []) by discriminate. specialize (IH NE2).
      destruct (m_put fo OIncrement c (s2 :: r') v) as [[r0 c']|].
      * destruct IH as [[I1 [I2 [I3 [I4 I5]]]] I6].
        assert (G' : good c') by (split; [exact I1 | rewrite I2; exact G2]).
        destruct (set_child_spec n s i c c' H C A G' I3 I4) as [Q1 [Q2 [Q3 [Q4 Q5]]]].
        split.
        -- unfold put_post. repeat split; auto. destruct (rc_ok r0); rewrite I5; [rewrite Q2|]; reflexivity.
        -- intro F. rewrite (I6 F). apply set_child_same. exact A.
      * rewrite IH. reflexivity.
    + unfold ext_inc_alt. rewrite (S (s2 :: r')). reflexivity.
Qed.

(* the statement proved for EVERY operation kind: against the library's complete reading (lib_op, lenient configuration) the
   model is exact *)
Definition lib_post (fo : fops) (t : node) (o : pop) : Prop :=
  match lib_op lenient (f_eq fo) (f_add fo) (f_of_i fo) (f_to_i fo) (f_fits fo) (doc_val t) (sop_of o) with
  | Some d' => fst (apply_op fo t o) = RcOk /\ doc_val (snd (apply_op fo t o)) = d' /\ inv (snd (apply_op fo t o))
  | None => fst (apply_op fo t o) <> RcOk /\ inv (snd (apply_op fo t o))
  end.

Lemma apply_inc_eq : forall fo t o, p_op o = OIncrement ->
  apply_op fo t o = if is_root (p_path o) then (RcOk, t)
                    else match p_val o with None => (RcNoValue, t) | Some v => put_or_create fo OIncrement t (p_path o) v end.
Proof.
  intros fo t o H. unfold apply_op, apply_op_v. rewrite H. cbn [negb].
  change (op_eqb OIncrement OSwap) with false. change (op_eqb OIncrement OTest) with false.
  change (op_eqb OIncrement ORemove) with false. change (op_eqb OIncrement OReplace) with false.
  change (op_eqb OIncrement OAdd) with false. change (op_eqb OIncrement OMove) with false.
  change (op_eqb OIncrement OCopy) with false. change (op_eqb OIncrement OAddCreate) with false.
  cbn [andb orb]. destruct (is_root (p_path o)); reflexivity.
Qed.

Lemma poc_inc : forall fo v t p, good v -> inv t -> p <> [] ->
  match ext_inc_alt fo (val t) p (val v) with
  | Some d' => fst (put_or_create fo OIncrement t p v) = RcOk /\ val (snd (put_or_create fo OIncrement t p v)) = d' /\
               inv (snd (put_or_create fo OIncrement t p v)) /\ n_ty (snd (put_or_create fo OIncrement t p v)) = n_ty t
  | None => fst (put_or_create fo OIncrement t p v) <> RcOk /\ snd (put_or_create fo OIncrement t p v) = t
  end.
Proof.
  intros fo v t p G H NE. pose proof (inc_put_spec fo v G p t H NE) as P. unfold put_or_create.
  change (op_eqb OIncrement OAddCreate) with false. cbv iota.
  destruct (m_put fo OIncrement t p v) as [[r n']|].
  - destruct P as [[I1 [I2 [I3 [I4 I5]]]] I6]. cbn [fst snd].
    destruct (rc_ok r) eqn:R; rewrite I5.
    + repeat split; auto. apply rc_ok_eq; exact R.
    + pose proof (rc_ok_neq r R) as N. split; [exact N | exact (I6 N)].
  - rewrite P. cbn [fst snd]. split; [discriminate | reflexivity].
Qed.

Lemma op_increment : forall fo t o, p_op o = OIncrement -> inv t -> op_good o -> lib_post fo t o.
Proof.
  intros fo t o K H G. unfold lib_post. rewrite (apply_inc_eq fo t o K).
  unfold lib_op, sop_of. cbn [s_op s_path s_val s_from]. rewrite K. cbn [sopk_of]. rewrite <- is_root_spec.
  destruct (is_root (p_path o)) eqn:R; [cbn [fst snd]; repeat split; auto|].
  unfold op_good in G. destruct (p_val o) as [v|]; cbn [option_map]; [|cbn [fst snd]; split; [discriminate | auto]].
  specialize (G v eq_refl).
  destruct (ty_none_dec t) as [T|T].
  - rewrite (doc_val_none t T). apply poc_none; auto.
  - rewrite (doc_val_good t T). rewrite ext_increment_alt.
    pose proof (poc_inc fo v t (p_path o) G H (not_root_nonempty _ R)) as P.
    destruct (ext_inc_alt fo (val t) (p_path o) (val v)); cbn [option_map].
    + destruct P as [P1 [P2 [P3 P4]]]. repeat split; auto. rewrite doc_val_good by congruence. rewrite P2. reflexivity.
    + destruct P as [P1 P2]. rewrite P2. auto.
Qed.

(* a failing increment changes nothing *)
Lemma increment_failure_atomic : forall fo t o, p_op o = OIncrement -> inv t -> op_good o ->
  fst (apply_op fo t o) <> RcOk -> snd (apply_op fo t o) = t.
Proof.
  intros fo t o K H G. rewrite (apply_inc_eq fo t o K).
  destruct (is_root (p_path o)) eqn:R; [reflexivity|].
  unfold op_good in G. destruct (p_val o) as [v|]; [|reflexivity]. specialize (G v eq_refl).
  pose proof (poc_inc fo v t (p_path o) G H (not_root_nonempty _ R)) as P.
  destruct (ext_inc_alt fo (val t) (p_path o) (val v)).
  - destruct P as [P1 _]. intro F. contradiction.
  - intros _. apply P.
Qed.

(* ------------------------------------------------------------------ operation code 0: an operation object without "op" *)
Lemma apply_none_eq : forall fo t o, p_op o = ONone ->
  apply_op fo t o = if is_root (p_path o) then (RcOk, t)
                    else match p_val o with None => (RcNoValue, t) | Some v => put_or_create fo ONone t (p_path o) v end.
Proof.
  intros fo t o H. unfold apply_op, apply_op_v. rewrite H. cbn [negb].
  change (op_eqb ONone OSwap) with false. change (op_eqb ONone OTest) with false.
  change (op_eqb ONone ORemove) with false. change (op_eqb ONone OReplace) with false.
  change (op_eqb ONone OAdd) with false. change (op_eqb ONone OMove) with false.
  change (op_eqb ONone OCopy) with false. change (op_eqb ONone OAddCreate) with false.
  cbn [andb orb]. destruct (is_root (p_path o)); reflexivity.
Qed.

Lemma op_none : forall fo t o, p_op o = ONone -> inv t -> op_good o -> lib_post fo t o.
Proof.
  intros fo t o K H G. unfold lib_post. rewrite (apply_none_eq fo t o K).
  unfold lib_op, sop_of. cbn [s_op s_path s_val s_from]. rewrite K. cbn [sopk_of]. rewrite <- is_root_spec.
  destruct (is_root (p_path o)) eqn:R; [cbn [fst snd]; repeat split; auto|].
  unfold rfc_op, as_add. cbn [s_op s_path s_val s_from]. rewrite <- is_root_spec, R.
  unfold op_good in G. destruct (p_val o) as [v|]; cbn [option_map]; [|cbn [fst snd]; split; [discriminate | auto]].
  specialize (G v eq_refl).
  destruct (ty_none_dec t) as [T|T].
  - rewrite (doc_val_none t T). apply poc_none; auto.
  - rewrite (doc_val_good t T).
    pose proof (poc_spec fo ONone v t (p_path o) eq_refl eq_refl G H T (not_root_nonempty _ R)) as P.
    destruct (s_add lenient (val t) (p_path o) (val v)); cbn [option_map]; exact P.
Qed.

(* ------------------------------------------------------------------ positions: children of a value, one resolution step *)
Lemma jkids_val : forall n, jkids (val n) = if is_container (n_ty n) then map val (n_ch n) else [].
Proof.
  intros [kl key ty vi vs ch]. destruct ty; try reflexivity.
  cbn [val jkids n_ty n_ch]. change (is_container TObj) with true. cbv iota. rewrite map_map. reflexivity.
Qed.
Lemma jkids_container : forall n, n_ty n = TObj \/ n_ty n = TArr -> jkids (val n) = map val (n_ch n).
Proof. intros n [T|T]; rewrite jkids_val, T; reflexivity. Qed.

Lemma lookup_pos_find : forall s ch, Forall key_ok ch -> lookup_pos s (map kv ch) = find_pos (key_match s) ch.
Proof.
  intros s. induction ch as [|x r IH]; intro H; [reflexivity|].
  inversion H as [|? ? Hx Hr]; subst. cbn [find_pos map]. unfold kv at 1. cbn [lookup_pos].
  rewrite (key_match_spec s x Hx). destruct (bytes_eqb (n_key x) s); [reflexivity|]. rewrite (IH Hr). reflexivity.
Qed.

Lemma jstep_child_pos : forall n s, inv n -> jstep lenient (val n) s = child_pos n s.
Proof.
  intros n s H. apply inv_unfold in H. destruct H as [Hg Ht].
  destruct (n_ty n) eqn:T;
    try (rewrite scalar_child_pos by (rewrite T; discriminate); destruct n as [kl key ty vi vs ch]; simpl in T; subst ty; reflexivity).
  - rewrite (val_obj n T). cbn [jstep]. unfold child_pos. rewrite T. apply lookup_pos_find. exact Ht.
  - rewrite (val_arr n T). cbn [jstep]. symmetry. apply arr_pos; auto.
Qed.

Lemma child_pos_container : forall n s i, child_pos n s = Some i -> n_ty n = TObj \/ n_ty n = TArr.
Proof.
  intros n s i C. destruct (n_ty n) eqn:T; auto; rewrite scalar_child_pos in C by (rewrite T; discriminate); discriminate.
Qed.

Lemma set_member_at : forall s x ms i, lookup_pos s ms = Some i ->
  set_member s x ms = firstn i ms ++ match nth_error ms i with Some (k, _) => [(k, x)] | None => [] end ++ skipn (S i) ms.
Proof.
  intros s x. induction ms as [|[k v] r IH]; intros i H; [discriminate|].
  cbn [lookup_pos] in H. cbn [set_member]. destruct (bytes_eqb k s).
  - inversion H; subst. reflexivity.
  - destruct (lookup_pos s r) as [j|]; [|discriminate]. inversion H; subst. cbn [firstn nth_error skipn app].
    rewrite (IH j eq_refl). reflexivity.
Qed.

Lemma upd_val_kid : forall n s i c x, inv n -> child_pos n s = Some i -> nth_error (n_ch n) i = Some c ->
  upd_val n s i x = jset_kid (val n) i x.
Proof.
  intros n s i c x H C N. pose proof (jstep_child_pos n s H) as J. rewrite C in J.
  apply inv_unfold in H. destruct H as [Hg Ht]. unfold upd_val.
  destruct (child_pos_container n s i C) as [T|T].
  - rewrite (val_obj n T) in *. cbn [jstep] in J. cbn [jset_kid]. f_equal. apply set_member_at. exact J.
  - rewrite (val_arr n T). reflexivity.
Qed.

(* ------------------------------------------------------------------ failing insertions change nothing *)
Lemma put_here_fail_same : forall fo k p s v, k <> OIncrement ->
  fst (put_here fo k p s v) <> RcOk -> snd (put_here fo k p s v) = p.
Proof.
  intros fo k p s v K. assert (KI : op_eqb k OIncrement = false).
  { destruct (op_eqb k OIncrement) eqn:E; auto. apply op_eqb_eq in E. contradiction. }
  unfold put_here. rewrite KI.
  destruct (n_ty p); try reflexivity.
  - destruct (child_pos p s) as [i|]; [|intro F; exfalso; apply F; reflexivity].
    destruct (nth_error (n_ch p) i); [intro F; exfalso; apply F; reflexivity | reflexivity].
  - destruct (is_dash s); [intro F; exfalso; apply F; reflexivity|].
    destruct (arr_index s) as [idx|]; [|reflexivity].
    destruct ((idx >? Z.of_nat (length (n_ch p))) || (idx <? 0)); [reflexivity|].
    destruct (idx <? Z.of_nat (length (n_ch p))); intro F; exfalso; apply F; reflexivity.
Qed.

Lemma m_put_fail_same : forall fo k v, k <> OIncrement -> forall p n r n',
  m_put fo k n p v = Some (r, n') -> r <> RcOk -> n' = n.
Proof.
  intros fo k v K. induction p as [|s r0 IH]; intros n r n' E F.
  - simpl in E. inversion E; subst. reflexivity.
  - cbn [m_put] in E. destruct r0 as [|s2 r'].
    + inversion E as [E1]. pose proof (put_here_fail_same fo k n s v K) as P. rewrite E1 in P. cbn [fst snd] in P. auto.
    + destruct (child_pos n s) as [i|]; [|discriminate].
      destruct (nth_error (n_ch n) i) as [c|] eqn:N; [|discriminate].
      destruct (m_put fo k c (s2 :: r') v) as [[rc0 c']|] eqn:M; [|discriminate].
      inversion E; subst. rewrite (IH c r c' M F). apply set_child_same. exact N.
Qed.

(* the parent of the last segment resolves iff m_put answers *)
Lemma removelast_cons2 : forall (A : Type) (a b : A) l, removelast (a :: b :: l) = a :: removelast (b :: l).
Proof. reflexivity. Qed.

Lemma m_put_parent : forall fo k v p n, inv n -> p <> [] ->
  match m_put fo k n p v with
  | Some _ => exists x, m_find n (removelast p) = Some x
  | None => m_find n (removelast p) = None
  end.
Proof.
  intros fo k v. induction p as [|s r IH]; intros n H NE; [contradiction|].
  cbn [m_put]. destruct r as [|s2 r'].
  - exists n. reflexivity.
  - rewrite removelast_cons2. cbn [m_find].
    destruct (child_pos n s) as [i|] eqn:C; [|reflexivity].
    pose proof (step_spec n s H) as S. rewrite C in S. destruct S as [c [A [[G1 G2] _]]]. rewrite A.
    assert (NE2 : s2 :: r' <> []) by discriminate. specialize (IH c G1 NE2).
    destruct (m_put fo k c (s2 :: r') v) as [[r0 c']|]; exact IH.
Qed.

(* ------------------------------------------------------------------ add_create *)
Lemma create_fresh_some : forall x p, p <> [] -> exists y, create_spec lenient (JObj []) p x = Some y.
Proof.
  intros x. induction p as [|s r IH]; intro NE; [contradiction|].
  destruct r as [|s2 r'].
  - eexists. reflexivity.
  - destruct (IH ltac:(discriminate)) as [y E].
    exists (JObj ([] ++ [(s, y)])). change (create_spec lenient (JObj []) (s :: s2 :: r') x) with
      (match create_spec lenient (JObj []) (s2 :: r') x with
       | Some y' => Some (JObj ([] ++ [(s, y')])) | None => None end).
    rewrite E. reflexivity.
Qed.

Lemma set_ch_set_ch : forall n a b, set_ch (set_ch n a) b = set_ch n b.
Proof. intros [kl key ty vi vs ch] a b. reflexivity. Qed.

Lemma set_child_last : forall n q c', set_child (set_ch n (n_ch n ++ [q])) (length (n_ch n)) c' = set_ch n (n_ch n ++ [c']).
Proof.
  intros n q c'. unfold set_child. rewrite n_ch_set_ch, set_ch_set_ch. f_equal.
  rewrite firstn_app, firstn_all, Nat.sub_diag. cbn [firstn]. rewrite app_nil_r.
  rewrite skipn_app. rewrite skipn_all2 by lia.
  replace (S (length (n_ch n)) - length (n_ch n))%nat with 1%nat by lia. reflexivity.
Qed.

Lemma val_not_obj : forall c ys, n_ty c <> TObj -> val c <> JObj ys.
Proof. intros [kl key ty vi vs ch] ys H. simpl in *. destruct ty; try discriminate. contradiction. Qed.

Lemma val_set_ch_scalar : forall n c, n_ty n <> TObj -> n_ty n <> TArr -> val (set_ch n c) = val n.
Proof. intros [kl key ty vi vs ch] c A B. simpl in *. destruct ty; try reflexivity; contradiction. Qed.

Lemma add_item_shape : forall n q, exists q', add_item n q = set_ch n (n_ch n ++ [q']) /\
  n_ty q' = n_ty q /\ n_ch q' = n_ch q /\
  match n_ty n with
  | TArr => n_kl q' = match rev (n_ch n) with l :: _ => n_kl l + 1 | [] => 0 end /\ n_key q' = []
  | _ => q' = q
  end.
Proof.
  intros n q. unfold add_item. destruct (n_ty n) eqn:T; try (exists q; repeat split; reflexivity).
  eexists. split; [reflexivity|]. rewrite n_ty_set_key, n_ty_set_kl, n_ch_set_key, n_ch_set_kl, n_kl_set_key, n_kl_set_kl, n_key_set_key.
  repeat split; reflexivity.
Qed.

Lemma create_ok : forall fo v, good v -> forall p n, inv n -> p <> [] ->
  inv (snd (m_create fo n p v)) /\ n_ty (snd (m_create fo n p v)) = n_ty n /\
  n_kl (snd (m_create fo n p v)) = n_kl n /\ n_key (snd (m_create fo n p v)) = n_key n /\
  match create_spec lenient (val n) p (val v) with
  | Some x => fst (m_create fo n p v) = RcOk /\ val (snd (m_create fo n p v)) = x
  | None => fst (m_create fo n p v) <> RcOk /\ snd (m_create fo n p v) = n
  end.
Proof.
  intros fo v G. induction p as [|s r IH]; intros n H NE; [contradiction|].
  destruct r as [|s2 r'].
  - (* last segment *)
    cbn [m_create create_spec].
    assert (K : OAddCreate <> OIncrement) by discriminate.
    pose proof (put_here_spec fo OAddCreate n s v H G K) as P.
    pose proof (put_here_fail_same fo OAddCreate n s v K) as F.
    destruct (put_here fo OAddCreate n s v) as [r0 n']. cbn [fst snd] in *.
    destruct P as [P1 [P2 [P3 [P4 P5]]]]. repeat split; auto.
    destruct (rc_ok r0) eqn:R; rewrite P5.
    + split; [apply rc_ok_eq; exact R | reflexivity].
    + pose proof (rc_ok_neq r0 R) as N. split; [exact N | exact (F N)].
  - assert (NE2 : s2 :: r' <> []) by discriminate.
    change (m_create fo n (s :: s2 :: r') v) with
      (match child_pos n s with
       | Some i =>
         match nth_error (n_ch n) i with
         | None => (RcTargetInvalid, n)
         | Some c => match n_ty c with
                     | TObj => let '(rc0, c') := m_create fo c (s2 :: r') v in (rc0, set_child n i c')
                     | _ => (RcTargetInvalid, n)
                     end
         end
       | None =>
         let pn := Node (Z.of_nat (length s)) s TObj 0 [] [] in
         let n1 := add_item n pn in
         let i := length (n_ch n) in
         match nth_error (n_ch n1) i with
         | None => (RcTargetInvalid, n1)
         | Some pn1 => let '(rc0, c') := m_create fo pn1 (s2 :: r') v in (rc0, set_child n1 i c')
         end
       end).
    change (create_spec lenient (val n) (s :: s2 :: r') (val v)) with
      (match jstep lenient (val n) s with
       | Some i =>
         match nth_error (jkids (val n)) i with
         | Some (JObj ys) => match create_spec lenient (JObj ys) (s2 :: r') (val v) with
                             | Some y' => Some (jset_kid (val n) i y') | None => None end
         | _ => None
         end
       | None =>
         match create_spec lenient (JObj []) (s2 :: r') (val v) with
         | Some y' => Some (match val n with JObj ms => JObj (ms ++ [(s, y')]) | JArr l => JArr (l ++ [y']) | _ => val n end)
         | None => None
         end
       end).
    rewrite (jstep_child_pos n s H).
    destruct (child_pos n s) as [i|] eqn:C.
    + (* the member exists *)
      pose proof (step_spec n s H) as S. rewrite C in S. destruct S as [c [A [[G1 G2] _]]]. rewrite A.
      rewrite (jkids_container n (child_pos_container n s i C)), nth_error_map, A. cbn [option_map].
      destruct (n_ty c) eqn:Tc;
        try (cbn [fst snd]; repeat split; auto;
             destruct (val c) eqn:V; try (split; [discriminate | reflexivity]);
             exfalso; eapply (val_not_obj c); [rewrite Tc; discriminate | exact V]).
      rewrite (val_obj c Tc). rewrite <- (val_obj c Tc).
      specialize (IH c G1 NE2). destruct (m_create fo c (s2 :: r') v) as [rc0 c']. cbn [fst snd] in *.
      destruct IH as [I1 [I2 [I3 [I4 I5]]]].
      assert (G' : good c') by (split; [exact I1 | rewrite I2, Tc; discriminate]).
      destruct (set_child_spec n s i c c' H C A G' I3 I4) as [Q1 [Q2 [Q3 [Q4 Q5]]]].
      repeat split; auto.
      destruct (create_spec lenient (val c) (s2 :: r') (val v)) as [y'|].
      * destruct I5 as [I5 I6]. split; [exact I5|]. rewrite Q2, I6. apply (upd_val_kid n s i c); auto.
      * destruct I5 as [I5 I6]. split; [exact I5|]. rewrite I6. apply set_child_same. exact A.
    + (* created *)
      cbv zeta. set (pn := Node (Z.of_nat (length s)) s TObj 0 [] []).
      destruct (add_item_shape n pn) as [pn1 [E1 [E2 [E3 E4]]]]. rewrite E1, n_ch_set_ch.
      rewrite nth_error_app2 by lia. rewrite Nat.sub_diag. cbn [nth_error].
      assert (Ipn : inv pn1).
      { apply inv_unfold. rewrite E3, E2. cbn [n_ch n_ty pn]. split; constructor. }
      assert (Vpn : val pn1 = JObj []).
      { rewrite (val_obj pn1) by (rewrite E2; reflexivity). rewrite E3. reflexivity. }
      specialize (IH pn1 Ipn NE2). rewrite Vpn in IH.
      destruct (create_fresh_some (val v) (s2 :: r') NE2) as [y' EY]. rewrite EY in *.
      destruct (m_create fo pn1 (s2 :: r') v) as [rc0 c']. cbn [fst snd] in *.
      destruct IH as [I1 [I2 [I3 [I4 [I5 I6]]]]]. subst rc0.
      rewrite set_child_last. rewrite n_ty_set_ch, n_kl_set_ch, n_key_set_ch.
      assert (Gc : good c') by (split; [exact I1 | rewrite I2, E2; discriminate]).
      pose proof H as H0. apply inv_unfold in H0. destruct H0 as [Hg Ht].
      split; [|split; [reflexivity|split; [reflexivity|split; [reflexivity|split; [reflexivity|]]]]].
      * apply inv_unfold. rewrite n_ty_set_ch, n_ch_set_ch. split.
        -- apply Forall_app2; auto.
        -- destruct (n_ty n) eqn:T; auto.
           ++ subst pn1. apply Forall_app2; auto. constructor; auto. unfold key_ok. rewrite I3, I4. reflexivity.
           ++ destruct E4 as [E4 E5]. apply idx_ok_app. split; auto. simpl. split; auto.
              rewrite I3, E4. apply (idx_ok_next _ 0 Ht).
      * destruct (n_ty n) eqn:T;
          try (rewrite val_set_ch_scalar by (rewrite T; discriminate);
               destruct n as [kl key ty vi vs ch]; simpl in T; subst ty; reflexivity).
        -- rewrite val_obj by (rewrite n_ty_set_ch; exact T). rewrite n_ch_set_ch, map_app. rewrite (val_obj n T).
           subst pn1. cbn [map]. unfold kv at 2. rewrite I4, I6. reflexivity.
        -- rewrite val_arr by (rewrite n_ty_set_ch; exact T). rewrite n_ch_set_ch, map_app. rewrite (val_arr n T).
           cbn [map]. rewrite I6. reflexivity.
Qed.

Lemma apply_addcreate_eq : forall fo t o, p_op o = OAddCreate ->
  apply_op fo t o = if is_root (p_path o) then match p_val o with None => (RcNoValue, t) | Some v => (RcOk, copy_data t v) end
                    else match p_val o with None => (RcNoValue, t) | Some v => put_or_create fo OAddCreate t (p_path o) v end.
Proof.
  intros fo t o H. unfold apply_op, apply_op_v. rewrite H. cbn [negb].
  change (op_eqb OAddCreate OSwap) with false. change (op_eqb OAddCreate OTest) with false.
  change (op_eqb OAddCreate ORemove) with false. change (op_eqb OAddCreate OReplace) with false.
  change (op_eqb OAddCreate OAdd) with false. change (op_eqb OAddCreate OMove) with false.
  change (op_eqb OAddCreate OCopy) with false. change (op_eqb OAddCreate OAddCreate) with true.
  cbn [andb orb]. destruct (is_root (p_path o)); reflexivity.
Qed.

(* put_or_create for add_create, on a document *)
Lemma poc_create : forall fo v t p, good v -> inv t -> p <> [] ->
  inv (snd (put_or_create fo OAddCreate t p v)) /\ n_ty (snd (put_or_create fo OAddCreate t p v)) = n_ty t /\
  match lib_add_create lenient (val t) p (val v) with
  | Some d' => fst (put_or_create fo OAddCreate t p v) = RcOk /\ val (snd (put_or_create fo OAddCreate t p v)) = d'
  | None => fst (put_or_create fo OAddCreate t p v) <> RcOk /\ snd (put_or_create fo OAddCreate t p v) = t
  end.
Proof.
  intros fo v t p G H NE. unfold put_or_create, lib_add_create.
  change (op_eqb OAddCreate OAddCreate) with true. cbv iota.
  assert (K : OAddCreate <> OIncrement) by discriminate.
  pose proof (m_put_parent fo OAddCreate v p t H NE) as MP.
  pose proof (put_spec fo OAddCreate v G K p t H NE) as PS.
  pose proof (find_spec (removelast p) t H) as FS. unfold sseg, seg in *.
  destruct (m_put fo OAddCreate t p v) as [[r n']|] eqn:M.
  - destruct MP as [x MX]. rewrite MX in FS. destruct FS as [FS _]. rewrite FS.
    destruct PS as [I1 [I2 [I3 [I4 I5]]]]. cbn [fst snd]. split; [exact I1|]. split; [exact I2|].
    destruct (rc_ok r) eqn:R; rewrite I5.
    + split; [apply rc_ok_eq; exact R | reflexivity].
    + pose proof (rc_ok_neq r R) as N. split; [exact N|]. apply (m_put_fail_same fo OAddCreate v K p t r n' M N).
  - rewrite MP in FS. rewrite FS.
    destruct (create_ok fo v G p t H NE) as [C1 [C2 [_ [_ C5]]]]. split; [exact C1|]. split; [exact C2 | exact C5].
Qed.

Lemma create_none_root : forall x s s2 r, exists y, create_spec lenient JNull (s :: s2 :: r) x = Some y.
Proof.
  intros x s s2 r. destruct (create_fresh_some x (s2 :: r) ltac:(discriminate)) as [y E].
  exists JNull. change (create_spec lenient JNull (s :: s2 :: r) x) with
    (match create_spec lenient (JObj []) (s2 :: r) x with Some y' => Some JNull | None => None end).
  rewrite E. reflexivity.
Qed.

Lemma val_tnone : forall t, n_ty t = TNone -> val t = JNull.
Proof. intros [kl key ty vi vs ch] H. simpl in *. subst. reflexivity. Qed.

Lemma op_add_create : forall fo t o, p_op o = OAddCreate -> inv t -> op_good o -> lib_post fo t o.
Proof.
  intros fo t o K H G. unfold lib_post. rewrite (apply_addcreate_eq fo t o K).
  unfold lib_op, sop_of. cbn [s_op s_path s_val s_from]. rewrite K. cbn [sopk_of]. rewrite <- is_root_spec.
  unfold op_good in G. destruct (p_val o) as [v|]; cbn [option_map].
  2:{ destruct (is_root (p_path o)); cbn [fst snd]; split; try discriminate; auto. }
  specialize (G v eq_refl). destruct (is_root (p_path o)) eqn:R.
  - cbn [fst snd]. pose proof (good_copy_data t v G) as [G1 G2]. repeat split; auto.
    rewrite (doc_val_good _ G2), val_copy_data. reflexivity.
  - pose proof (poc_create fo v t (p_path o) G H (not_root_nonempty _ R)) as P.
    destruct P as [P1 [P2 P3]].
    destruct (ty_none_dec t) as [T|T].
    + rewrite (doc_val_none t T).
      destruct (p_path o) as [|s [|s2 r]] eqn:EP; [discriminate| |].
      * (* one segment: the root is no container *)
        unfold put_or_create. cbn [m_put]. unfold put_here. rewrite T. cbn [fst snd]. split; [discriminate | exact H].
      * rewrite (val_tnone t T) in P3. destruct (create_none_root (val v) s s2 r) as [y EY].
        unfold lib_add_create in P3. change (removelast (s :: s2 :: r)) with (s :: removelast (s2 :: r)) in P3.
        change (jget lenient JNull (s :: removelast (s2 :: r))) with (@None jval) in P3. cbv iota in P3.
        unfold sseg, seg in *. rewrite EY in P3. destruct P3 as [P3 _].
        repeat split; auto. apply doc_val_none. congruence.
    + rewrite (doc_val_good t T).
      destruct (lib_add_create lenient (val t) (p_path o) (val v)); cbn [option_map].
      * destruct P3 as [P3 P4]. repeat split; auto. rewrite doc_val_good by congruence. rewrite P4. reflexivity.
      * destruct P3 as [P3 P4]. split; auto.
Qed.

Lemma add_create_failure_atomic : forall fo t o, p_op o = OAddCreate -> inv t -> op_good o ->
  fst (apply_op fo t o) <> RcOk -> snd (apply_op fo t o) = t.
Proof.
  intros fo t o K H G. rewrite (apply_addcreate_eq fo t o K).
  unfold op_good in G. destruct (p_val o) as [v|]; [|destruct (is_root (p_path o)); reflexivity].
  specialize (G v eq_refl). destruct (is_root (p_path o)) eqn:R; [intro F; exfalso; apply F; reflexivity|].
  destruct (poc_create fo v t (p_path o) G H (not_root_nonempty _ R)) as [_ [_ P3]].
  destruct (lib_add_create lenient (val t) (p_path o) (val v)); destruct P3 as [P3 P4]; [contradiction | auto].
Qed.

(* ------------------------------------------------------------------ swap: nodes addressed by position *)
Fixpoint n_get_at (n : node) (pos : list nat) : option node :=
  match pos with
  | [] => Some n
  | i :: r => if is_container (n_ty n) then match nth_error (n_ch n) i with Some c => n_get_at c r | None => None end else None
  end.

Lemma np_prefix_eq : forall a b, np_prefix a b = pos_prefix a b.
Proof. intros a b. reflexivity. Qed.

Lemma container_ty : forall n, n_ty n = TObj \/ n_ty n = TArr -> is_container (n_ty n) = true.
Proof. intros n [T|T]; rewrite T; reflexivity. Qed.
Lemma container_inv : forall n, is_container (n_ty n) = true -> n_ty n = TObj \/ n_ty n = TArr.
Proof. intros n H. destruct (n_ty n); try discriminate; auto. Qed.

(* m_locate and m_find walk together; the position denotes the same node on the value *)
Lemma locate_spec : forall p n, inv n ->
  match m_locate n p with
  | Some l => jlocate lenient (val n) p = Some l /\ (exists x, m_find n p = Some x /\ n_get_at n l = Some x)
  | None => jlocate lenient (val n) p = None /\ m_find n p = None
  end.
Proof.
  induction p as [|s r IH]; intros n H.
  - simpl. split; [reflexivity|]. exists n. split; reflexivity.
  - cbn [m_locate jlocate m_find]. rewrite (jstep_child_pos n s H).
    destruct (child_pos n s) as [i|] eqn:C; [|split; reflexivity].
    pose proof (step_spec n s H) as S. rewrite C in S. destruct S as [c [A [[G1 G2] _]]]. rewrite A.
    pose proof (child_pos_container n s i C) as CT.
    rewrite (jkids_container n CT), nth_error_map, A. cbn [option_map].
    specialize (IH c G1). destruct (m_locate c r) as [l|].
    + destruct IH as [I1 [x [I2 I3]]]. rewrite I1. split; [reflexivity|]. exists x. split; [exact I2|].
      cbn [n_get_at]. rewrite (container_ty n CT), A. exact I3.
    + destruct IH as [I1 I2]. rewrite I1, I2. split; reflexivity.
Qed.

Lemma get_at_spec : forall pos n x, inv n -> n_get_at n pos = Some x ->
  jget_at (val n) pos = Some (val x) /\ inv x /\ (pos <> [] -> good x).
Proof.
  induction pos as [|i r IH]; intros n x H E.
  - simpl in E. inversion E; subst. repeat split; auto; try (intro F; contradiction).
  - cbn [n_get_at] in E. destruct (is_container (n_ty n)) eqn:CT; [|discriminate].
    destruct (nth_error (n_ch n) i) as [c|] eqn:A; [|discriminate].
    pose proof H as H0. apply inv_unfold in H0. destruct H0 as [Hg _].
    assert (Gc : good c) by (eapply Forall_nth; eauto).
    cbn [jget_at]. rewrite (jkids_container n (container_inv n CT)), nth_error_map, A. cbn [option_map].
    destruct (IH c x (proj1 Gc) E) as [I1 [I2 I3]]. split; [exact I1|]. split; [exact I2|].
    intros _. destruct r as [|j r']; [simpl in E; inversion E; subst; exact Gc | apply I3; discriminate].
Qed.

(* replacing a child by a node with the same cached index and name *)
Lemma nth_map_kv : forall ch i c, nth_error ch i = Some c -> nth_error (map kv ch) i = Some (n_key c, val c).
Proof. intros ch i c H. rewrite nth_error_map, H. reflexivity. Qed.

Lemma set_child_pos_spec : forall n i c c', inv n -> is_container (n_ty n) = true -> nth_error (n_ch n) i = Some c ->
  good c' -> n_kl c' = n_kl c -> n_key c' = n_key c ->
  inv (set_child n i c') /\ val (set_child n i c') = jset_kid (val n) i (val c') /\ n_ty (set_child n i c') = n_ty n /\
  n_kl (set_child n i c') = n_kl n /\ n_key (set_child n i c') = n_key n.
Proof.
  intros n i c c' H CT N G K1 K2. pose proof H as H0. apply inv_unfold in H. destruct H as [Hg Ht].
  unfold set_child. rewrite n_ty_set_ch, n_kl_set_ch, n_key_set_ch.
  assert (Gs : Forall good (firstn i (n_ch n) ++ c' :: skipn (S i) (n_ch n))).
  { apply Forall_app2; [apply Forall_firstn; auto | constructor; [auto | apply Forall_skipn; auto]]. }
  pose proof (nth_split _ _ _ _ N) as SP.
  split; [|split; [|auto]].
  - apply inv_unfold. rewrite n_ty_set_ch, n_ch_set_ch. split; [exact Gs|].
    destruct (n_ty n) eqn:T; auto.
    + rewrite SP in Ht. apply Forall_app in Ht. destruct Ht as [F1 F2]. inversion F2; subst.
      apply Forall_app2; auto. constructor; auto. unfold key_ok in *. congruence.
    + rewrite SP in Ht. apply idx_ok_app in Ht. destruct Ht as [F1 F2]. apply idx_ok_app. split; auto.
      simpl in *. destruct F2 as [F2 F3]. split; auto. congruence.
  - destruct (container_inv n CT) as [T|T].
    + rewrite (val_obj n T). rewrite val_obj by (rewrite n_ty_set_ch; exact T). rewrite n_ch_set_ch.
      cbn [jset_kid]. rewrite (nth_map_kv _ _ _ N). rewrite map_app. cbn [map app]. rewrite firstn_map, skipn_map.
      unfold kv at 2. rewrite K2. reflexivity.
    + rewrite (val_arr n T). rewrite val_arr by (rewrite n_ty_set_ch; exact T). rewrite n_ch_set_ch.
      cbn [jset_kid]. rewrite map_app. simpl map. rewrite firstn_map, skipn_map. reflexivity.
Qed.

Lemma remove_item_pos_spec : forall n i c, inv n -> is_container (n_ty n) = true -> nth_error (n_ch n) i = Some c ->
  inv (remove_item n i) /\ val (remove_item n i) = jdel_kid (val n) i /\ n_ty (remove_item n i) = n_ty n /\
  n_kl (remove_item n i) = n_kl n /\ n_key (remove_item n i) = n_key n.
Proof.
  intros n i c H CT N. pose proof H as H0. apply inv_unfold in H. destruct H as [Hg Ht].
  unfold remove_item. rewrite n_ty_set_ch, n_kl_set_ch, n_key_set_ch.
  destruct (container_inv n CT) as [T|T]; rewrite T in *.
  - repeat split; auto.
    + apply inv_unfold. rewrite n_ty_set_ch, n_ch_set_ch, T. split;
        apply Forall_app2; try apply Forall_firstn; try apply Forall_skipn; auto.
    + rewrite (val_obj n T). rewrite val_obj by (rewrite n_ty_set_ch; exact T). rewrite n_ch_set_ch.
      cbn [jdel_kid]. rewrite map_app, firstn_map, skipn_map. reflexivity.
  - repeat split; auto.
    + apply inv_unfold. rewrite n_ty_set_ch, n_ch_set_ch, T. split.
      * apply Forall_app2; [apply Forall_firstn; auto|].
        apply Forall_map_same; [apply good_dec | apply Forall_skipn; auto].
      * pose proof (nth_split _ _ _ _ N) as SP. rewrite SP in Ht.
        apply idx_ok_app in Ht. destruct Ht as [F1 F2]. apply idx_ok_app. split; auto.
        simpl in F2. destruct F2 as [_ F3].
        replace (0 + Z.of_nat (length (firstn i (n_ch n)))) with (0 + Z.of_nat (length (firstn i (n_ch n))) + 1 - 1) by lia.
        apply idx_ok_dec. exact F3.
    + rewrite (val_arr n T). rewrite val_arr by (rewrite n_ty_set_ch; exact T). rewrite n_ch_set_ch.
      cbn [jdel_kid]. rewrite map_app, map_map, firstn_map, skipn_map. f_equal. f_equal.
      apply map_ext. intro a. apply val_dec_kl.
Qed.

Lemma set_data_at_spec : forall d, good d -> forall pos n x, inv n -> n_get_at n pos = Some x ->
  exists n', set_data_at n pos d = Some n' /\ jset_at (val n) pos (val d) = Some (val n') /\ inv n' /\
             n_kl n' = n_kl n /\ n_key n' = n_key n /\ (pos <> [] -> n_ty n' = n_ty n) /\ n_ty n' <> TNone.
Proof.
  intros d G. induction pos as [|i r IH]; intros n x H E.
  - exists (copy_data n d). cbn [set_data_at jset_at]. rewrite val_copy_data.
    pose proof (good_copy_data n d G) as [G1 G2].
    repeat split; auto; try (destruct n; reflexivity); try (intro F; contradiction).
  - cbn [n_get_at] in E. destruct (is_container (n_ty n)) eqn:CT; [|discriminate].
    destruct (nth_error (n_ch n) i) as [c|] eqn:A; [|discriminate].
    pose proof H as H0. apply inv_unfold in H0. destruct H0 as [Hg _].
    assert (Gc : good c) by (eapply Forall_nth; eauto).
    destruct (IH c x (proj1 Gc) E) as [c' [I1 [I2 [I3 [I4 [I5 [I6 I7]]]]]]].
    cbn [set_data_at jset_at]. rewrite A, I1.
    rewrite (jkids_container n (container_inv n CT)), nth_error_map, A. cbn [option_map]. rewrite I2.
    assert (G' : good c') by (split; assumption).
    destruct (set_child_pos_spec n i c c' H CT A G' I4 I5) as [Q1 [Q2 [Q3 [Q4 Q5]]]].
    exists (set_child n i c'). repeat split; auto; try congruence.
    rewrite Q3. destruct (container_inv n CT) as [T|T]; rewrite T; discriminate.
Qed.

Lemma detach_at_spec : forall pos n x, inv n -> n_get_at n pos = Some x -> pos <> [] ->
  exists n', detach_at n pos = Some n' /\ jremove_at (val n) pos = Some (val n') /\ inv n' /\
             n_kl n' = n_kl n /\ n_key n' = n_key n /\ n_ty n' = n_ty n.
Proof.
  induction pos as [|i r IH]; intros n x H E NE; [contradiction|].
  cbn [n_get_at] in E. destruct (is_container (n_ty n)) eqn:CT; [|discriminate].
  destruct (nth_error (n_ch n) i) as [c|] eqn:A; [|discriminate].
  pose proof H as H0. apply inv_unfold in H0. destruct H0 as [Hg _].
  assert (Gc : good c) by (eapply Forall_nth; eauto).
  cbn [detach_at jremove_at]. rewrite A.
  rewrite (jkids_container n (container_inv n CT)), nth_error_map, A. cbn [option_map].
  destruct r as [|j r'].
  - destruct (remove_item_pos_spec n i c H CT A) as [Q1 [Q2 [Q3 [Q4 Q5]]]].
    exists (remove_item n i). repeat split; auto. rewrite Q2. reflexivity.
  - destruct (IH c x (proj1 Gc) E ltac:(discriminate)) as [c' [I1 [I2 [I3 [I4 [I5 I6]]]]]].
    rewrite I1, I2.
    assert (G' : good c') by (split; [exact I3 | rewrite I6; exact (proj2 Gc)]).
    destruct (set_child_pos_spec n i c c' H CT A G' I4 I5) as [Q1 [Q2 [Q3 [Q4 Q5]]]].
    exists (set_child n i c'). repeat split; auto. rewrite Q2. reflexivity.
Qed.

(* ------------------------------------------------------------------ positions stay valid under the mutations swap performs *)
Lemma nth_set_same : forall (A : Type) (l : list A) i c x, nth_error l i = Some c ->
  nth_error (firstn i l ++ x :: skipn (S i) l) i = Some x.
Proof.
  intros A l i c x H. assert (L : (i < length l)%nat) by (apply nth_error_Some; congruence).
  rewrite nth_error_app2; rewrite firstn_length_le by lia; [|lia]. rewrite Nat.sub_diag. reflexivity.
Qed.
Lemma nth_set_other : forall (A : Type) (l : list A) i j c x, nth_error l i = Some c -> j <> i ->
  nth_error (firstn i l ++ x :: skipn (S i) l) j = nth_error l j.
Proof.
  intros A l i j c x H NE. assert (L : (i < length l)%nat) by (apply nth_error_Some; congruence).
  transitivity (nth_error (firstn i l ++ c :: skipn (S i) l) j); [|rewrite <- (nth_split _ _ _ _ H); reflexivity].
  destruct (Nat.lt_ge_cases j i) as [Lt|Ge].
  - rewrite !nth_error_app1 by (rewrite firstn_length_le; lia). reflexivity.
  - rewrite !nth_error_app2 by (rewrite firstn_length_le; lia). rewrite firstn_length_le by lia.
    destruct (j - i)%nat as [|k] eqn:E; [lia|]. reflexivity.
Qed.

Lemma get_at_set_child_same : forall n i c c' r, nth_error (n_ch n) i = Some c ->
  n_get_at (set_child n i c') (i :: r) = if is_container (n_ty n) then n_get_at c' r else None.
Proof.
  intros n i c c' r H. cbn [n_get_at]. unfold set_child. rewrite n_ty_set_ch, n_ch_set_ch.
  rewrite (nth_set_same _ _ _ _ _ H). reflexivity.
Qed.
Lemma get_at_set_child_other : forall n i j c c' r, nth_error (n_ch n) i = Some c -> j <> i ->
  n_get_at (set_child n i c') (j :: r) = n_get_at n (j :: r).
Proof.
  intros n i j c c' r H NE. cbn [n_get_at]. unfold set_child. rewrite n_ty_set_ch, n_ch_set_ch.
  rewrite (nth_set_other _ _ _ _ _ _ H NE). reflexivity.
Qed.

Lemma set_data_keeps : forall d pf n n', set_data_at n pf d = Some n' ->
  forall pos x, n_get_at n pos = Some x -> pos_prefix pf pos = false -> exists x', n_get_at n' pos = Some x'.
Proof.
  intros d. induction pf as [|i r IH]; intros n n' E pos x G P; [discriminate|].
  cbn [set_data_at] in E. destruct (nth_error (n_ch n) i) as [c|] eqn:A; [|discriminate].
  destruct (set_data_at c r d) as [c'|] eqn:E2; [|discriminate]. inversion E; subst n'. clear E.
  destruct pos as [|j rest]; [eexists; reflexivity|].
  destruct (Nat.eq_dec j i) as [EQ|NE].
  - subst j. rewrite (get_at_set_child_same n i c c' rest A).
    cbn [n_get_at] in G. destruct (is_container (n_ty n)); [|discriminate]. rewrite A in G.
    cbn [pos_prefix] in P. rewrite Nat.eqb_refl in P. cbn [andb] in P. exact (IH c c' E2 rest x G P).
  - rewrite (get_at_set_child_other n i j c c' rest A NE). exists x. exact G.
Qed.

Lemma get_at_app : forall pp n par l, n_get_at n pp = Some par -> n_get_at n (pp ++ l) = n_get_at par l.
Proof.
  induction pp as [|i r IH]; intros n par l H.
  - simpl in H. inversion H; subst. reflexivity.
  - cbn [n_get_at app] in *. destruct (is_container (n_ty n)); [|discriminate].
    destruct (nth_error (n_ch n) i) as [c|]; [|discriminate]. apply IH. exact H.
Qed.

Lemma locate_length : forall p n l, m_locate n p = Some l -> length l = length p.
Proof.
  induction p as [|s r IH]; intros n l H.
  - simpl in H. inversion H. reflexivity.
  - cbn [m_locate] in H. destruct (child_pos n s) as [i|]; [|discriminate].
    destruct (nth_error (n_ch n) i) as [c|]; [|discriminate].
    destruct (m_locate c r) as [l'|] eqn:E; [|discriminate]. inversion H; subst. simpl. f_equal. eapply IH. exact E.
Qed.

(* the last segment of `path` addresses no existing child of the parent (in the sense of swap) *)
Definition swap_missing (par : node) (s : seg) : Prop :=
  match n_ty par with
  | TObj => child_pos par s = None
  | TArr => is_dash s = true \/
            match arr_index s with
            | Some idx => ((0 <=? idx) && (idx <? Z.of_nat (length (n_ch par)))) = false
            | None => True
            end
  | _ => True
  end.

Lemma put_here_swap_append : forall fo n s v n', swap_missing n s -> put_here fo OSwap n s v = (RcOk, n') ->
  exists q, n' = set_ch n (n_ch n ++ [q]).
Proof.
  intros fo n s v n' M E. unfold put_here, swap_missing in *. change (op_eqb OSwap OIncrement) with false in E. cbv iota in E.
  destruct (n_ty n) eqn:T; try discriminate.
  - rewrite M in E. inversion E. destruct (add_item_shape n (set_kl (set_key v s) (Z.of_nat (length s)))) as [q [Q _]].
    exists q. exact Q.
  - destruct (is_dash s) eqn:D.
    + inversion E. destruct (add_item_shape n v) as [q [Q _]]. exists q. exact Q.
    + destruct M as [M|M]; [discriminate|].
      destruct (arr_index s) as [idx|]; [|discriminate].
      destruct ((idx >? Z.of_nat (length (n_ch n))) || (idx <? 0)) eqn:B; [discriminate|].
      destruct (idx <? Z.of_nat (length (n_ch n))) eqn:L.
      * exfalso. apply orb_false_iff in B. destruct B as [B1 B2].
        rewrite andb_true_r in M. apply Z.ltb_ge in B2. apply Z.leb_gt in M. lia.
      * inversion E. destruct (add_item_shape n (set_kl v idx)) as [q [Q _]]. exists q. exact Q.
Qed.

Lemma get_at_append : forall n q pos x, n_get_at n pos = Some x ->
  exists x', n_get_at (set_ch n (n_ch n ++ [q])) pos = Some x'.
Proof.
  intros n q [|i r] x H; [eexists; reflexivity|].
  cbn [n_get_at] in *. rewrite n_ty_set_ch, n_ch_set_ch. destruct (is_container (n_ty n)); [|discriminate].
  destruct (nth_error (n_ch n) i) as [c|] eqn:A; [|discriminate].
  rewrite nth_error_app1 by (apply nth_error_Some; congruence). rewrite A. exists x. exact H.
Qed.

Lemma last_cons2 : forall (A : Type) (a b : A) l d, last (a :: b :: l) d = last (b :: l) d.
Proof. reflexivity. Qed.

Lemma m_put_keeps : forall fo v p n par n', p <> [] -> m_find n (removelast p) = Some par -> swap_missing par (last p []) ->
  m_put fo OSwap n p v = Some (RcOk, n') ->
  forall pos x, n_get_at n pos = Some x -> exists x', n_get_at n' pos = Some x'.
Proof.
  intros fo v. induction p as [|s r IH]; intros n par n' NE F M E pos x G; [contradiction|].
  cbn [m_put] in E. destruct r as [|s2 r'].
  - simpl in F. inversion F; subst par. simpl in M. inversion E as [E1].
    destruct (put_here_swap_append fo n s v n' M E1) as [q Q]. subst n'. eapply get_at_append. exact G.
  - rewrite removelast_cons2 in F. cbn [m_find] in F. rewrite last_cons2 in M.
    destruct (child_pos n s) as [i|]; [|discriminate].
    destruct (nth_error (n_ch n) i) as [c|] eqn:A; [|discriminate].
    destruct (m_put fo OSwap c (s2 :: r') v) as [[rc0 c']|] eqn:MP; [|discriminate].
    inversion E; subst rc0 n'. clear E.
    destruct pos as [|j rest]; [eexists; reflexivity|].
    destruct (Nat.eq_dec j i) as [EQ|NEQ].
    + subst j. rewrite (get_at_set_child_same n i c c' rest A).
      cbn [n_get_at] in G. destruct (is_container (n_ty n)); [|discriminate]. rewrite A in G.
      exact (IH c par c' ltac:(discriminate) F M MP rest x G).
    + rewrite (get_at_set_child_other n i j c c' rest A NEQ). exists x. exact G.
Qed.

Lemma scalar_swap_kid : forall par s, n_ty par <> TObj -> n_ty par <> TArr -> swap_kid lenient (val par) s = None.
Proof. intros [kl key ty vi vs ch] s A B. simpl in *. destruct ty; try reflexivity; contradiction. Qed.

Lemma swap_target_spec : forall t path, inv t ->
  match swap_target t path with
  | None => jlocate lenient (val t) (removelast path) = None
  | Some (pp, k) =>
    jlocate lenient (val t) (removelast path) = Some pp /\
    exists par, m_find t (removelast path) = Some par /\ n_get_at t pp = Some par /\ inv par /\
      match k with
      | Some (i, c) => swap_kid lenient (val par) (last path []) = Some i /\ nth_error (n_ch par) i = Some c /\
                       is_container (n_ty par) = true
      | None => swap_kid lenient (val par) (last path []) = None /\ swap_missing par (last path [])
      end
  end.
Proof.
  intros t path H. unfold swap_target. pose proof (locate_spec (removelast path) t H) as L.
  destruct (m_locate t (removelast path)) as [pp|]; [|destruct L as [L _]; exact L].
  destruct L as [L1 [par [L2 L3]]]. rewrite L2.
  destruct (get_at_spec pp t par H L3) as [_ [Ip _]].
  pose proof Ip as Ip0. apply inv_unfold in Ip0. destruct Ip0 as [Hg Ht].
  set (s := last path []).
  destruct (n_ty par) eqn:T;
    try (split; [exact L1|]; exists par; split; [reflexivity|]; split; [exact L3|]; split; [exact Ip|];
         split; [apply scalar_swap_kid; rewrite T; discriminate | unfold swap_missing; rewrite T; exact I]).
  - (* object *)
    assert (SK : swap_kid lenient (val par) s = child_pos par s).
    { rewrite (val_obj par T). cbn [swap_kid]. unfold child_pos. rewrite T. apply lookup_pos_find. exact Ht. }
    destruct (child_pos par s) as [i|] eqn:C.
    + pose proof (step_spec par s Ip) as S. rewrite C in S. destruct S as [c [A _]]. rewrite A.
      split; [exact L1|]. exists par. repeat split; auto. rewrite T. reflexivity.
    + split; [exact L1|]. exists par. repeat split; auto. unfold swap_missing. rewrite T. exact C.
  - (* array *)
    assert (SK : swap_kid lenient (val par) s =
                 if is_dash s then None
                 else match arr_index s with
                      | Some idx => if (0 <=? idx) && (idx <? Z.of_nat (length (n_ch par))) then Some (Z.to_nat idx) else None
                      | None => None
                      end).
    { rewrite (val_arr par T). cbn [swap_kid]. change (s_is_dash s) with (is_dash s). rewrite map_length. reflexivity. }
    destruct (is_dash s) eqn:D.
    + split; [exact L1|]. exists par. repeat split; auto. unfold swap_missing. rewrite T. left. exact D.
    + destruct (arr_index s) as [idx|] eqn:AI.
      2:{ split; [exact L1|]. exists par. repeat split; auto. unfold swap_missing. rewrite T, AI. right. exact I. }
      destruct ((0 <=? idx) && (idx <? Z.of_nat (length (n_ch par)))) eqn:B.
      * pose proof B as B0. apply andb_true_iff in B0. destruct B0 as [B1 B2]. apply Z.leb_le in B1. apply Z.ltb_lt in B2.
        destruct (nth_error (n_ch par) (Z.to_nat idx)) as [c|] eqn:A; [|apply nth_error_None in A; lia].
        split; [exact L1|]. exists par. repeat split; auto. rewrite T. reflexivity.
      * split; [exact L1|]. exists par. repeat split; auto. unfold swap_missing. rewrite T, AI. right. exact B.
Qed.

Lemma apply_swap_eq : forall fo t o, p_op o = OSwap ->
  apply_op fo t o =
  if (match p_from o with Some [] => true | _ => false end) then (RcPatchInvalid, t)
  else if is_root (p_path o) then (RcOk, t)
  else match p_from o with
       | None => (RcPatchInvalid, t)
       | Some f =>
         if seg_nested f (p_path o) then (RcPatchInvalid, t) else
         match m_find t f, m_locate t f with
         | Some v, Some pf =>
           match swap_target t (p_path o) with
           | None => (RcTargetInvalid, t)
           | Some (pp, Some (i, c)) =>
             let pc := pp ++ [i] in
             if pos_eqb pf pc then (RcOk, t)
             else if pos_prefix pf pc then match set_data_at t pf c with Some t2 => (RcOk, t2) | None => (RcUnmodelled, t) end
             else if pos_prefix pc pf then match set_data_at t pc v with Some t2 => (RcOk, t2) | None => (RcUnmodelled, t) end
             else match set_data_at t pf c with
                  | None => (RcUnmodelled, t)
                  | Some t2 => match set_data_at t2 pc v with None => (RcUnmodelled, t) | Some t3 => (RcOk, t3) end
                  end
           | Some (pp, None) =>
             match put_or_create fo OSwap t (p_path o) v with
             | (RcOk, t2) => match detach_at (if pos_prefix pf pp then t else t2) pf with
                             | Some t3 => (RcOk, t3)
                             | None => (RcUnmodelled, t)
                             end
             | r => r
             end
           end
         | _, _ => (RcNotFound, t)
         end
       end.
Proof.
  intros fo t o H. unfold apply_op, apply_op_v. rewrite H. cbn [negb].
  change (op_eqb OSwap OSwap) with true. change (op_eqb OSwap OTest) with false. change (op_eqb OSwap ORemove) with false.
  change (op_eqb OSwap OReplace) with false. change (op_eqb OSwap OAdd) with false. change (op_eqb OSwap OMove) with false.
  change (op_eqb OSwap OCopy) with false. change (op_eqb OSwap OAddCreate) with false.
  cbn [andb orb].
  destruct (match p_from o with Some [] => true | _ => false end); [reflexivity|].
  destruct (is_root (p_path o)); [reflexivity|].
  destruct (p_from o) as [f|]; reflexivity.
Qed.

Lemma doc_val_some : forall t d, doc_val t = Some d -> n_ty t <> TNone /\ val t = d.
Proof.
  intros t d E. destruct (ty_none_dec t) as [T|T].
  - rewrite (doc_val_none t T) in E. discriminate.
  - rewrite (doc_val_good t T) in E. inversion E. auto.
Qed.


Lemma op_swap : forall fo t o, p_op o = OSwap -> inv t -> lib_post fo t o.
Proof.
  intros fo t o K H. unfold lib_post. rewrite (apply_swap_eq fo t o K).
  unfold lib_op, sop_of. cbn [s_op s_path s_val s_from]. rewrite K. cbn [sopk_of]. rewrite <- is_root_spec.
  destruct (p_from o) as [[|f0 fr]|] eqn:EF.
  - cbn [fst snd]. split; [discriminate | exact H].
  - set (f := f0 :: fr). cbv iota.
    destruct (is_root (p_path o)) eqn:R; [cbn [fst snd]; repeat split; auto|].
    change (negb (Nat.eqb (length f) (length (p_path o))) && (seg_prefix f (p_path o) || seg_prefix (p_path o) f))
      with (seg_nested f (p_path o)).
    destruct (ty_none_dec t) as [T|T].
    { rewrite (doc_val_none t T). destruct (seg_nested f (p_path o)); [cbn [fst snd]; split; [discriminate | exact H]|].
      rewrite (none_find t f T) by discriminate. cbn [fst snd]. split; [discriminate | exact H]. }
    rewrite (doc_val_good t T).
    destruct (seg_nested f (p_path o)); [cbn [fst snd]; split; [discriminate | exact H]|].
    cbn [option_map]. unfold lib_swap. unfold sseg, seg in *.
    pose proof (locate_spec f t H) as L. pose proof (find_spec f t H) as FS.
    destruct (m_locate t f) as [pf|] eqn:ML.
    2:{ destruct L as [L1 L2]. rewrite L1, L2. cbn [fst snd option_map]. split; [discriminate | exact H]. }
    destruct L as [L1 [v [L2 L3]]]. rewrite L1, L2. rewrite L2 in FS. destruct FS as [F1 [F2 F3]]. rewrite F1.
    assert (Gv : good v) by (split; [exact F2 | apply F3; discriminate]).
    assert (NEf : pf <> []).
    { intro E. pose proof (locate_length f t pf ML) as LL. rewrite E in LL. discriminate. }
    pose proof (swap_target_spec t (p_path o) H) as ST. unfold sseg, seg in *.
    destruct (swap_target t (p_path o)) as [[pp [[i c]|]]|].
    + (* both exist *)
      destruct ST as [S1 [par [S2 [S3 [S4 [S5 [S6 S7]]]]]]]. rewrite S1.
      destruct (get_at_spec pp t par H S3) as [GA _]. rewrite GA, S5.
      assert (GC : n_get_at t (pp ++ [i]) = Some c).
      { rewrite (get_at_app pp t par [i] S3). cbn [n_get_at]. rewrite S7, S6. reflexivity. }
      destruct (get_at_spec (pp ++ [i]) t c H GC) as [GB [Ic Gc]].
      assert (Gc' : good c) by (apply Gc; destruct pp; discriminate).
      cbv zeta. rewrite GB. change np_prefix with pos_prefix. unfold pos_eqb.
      set (pc := pp ++ [i]) in *.
      destruct (pos_prefix pf pc && pos_prefix pc pf) eqn:PE.
      { cbn [option_map fst snd]. repeat split; auto. apply doc_val_good; exact T. }
      destruct (pos_prefix pf pc) eqn:P1.
      { destruct (set_data_at_spec c Gc' pf t v H L3) as [n' [D1 [D2 [D3 [_ [_ [_ D7]]]]]]].
        rewrite D1, D2. cbn [option_map fst snd]. repeat split; auto. apply doc_val_good; exact D7. }
      destruct (pos_prefix pc pf) eqn:P2.
      { destruct (set_data_at_spec v Gv pc t c H GC) as [n' [D1 [D2 [D3 [_ [_ [_ D7]]]]]]].
        rewrite D1, D2. cbn [option_map fst snd]. repeat split; auto. apply doc_val_good; exact D7. }
      destruct (set_data_at_spec c Gc' pf t v H L3) as [t2 [D1 [D2 [D3 [_ [_ [_ D7]]]]]]].
      rewrite D1, D2.
      destruct (set_data_keeps c pf t t2 D1 pc c GC P1) as [c2 GC2].
      destruct (set_data_at_spec v Gv pc t2 c2 D3 GC2) as [t3 [E1 [E2 [E3 [_ [_ [_ E7]]]]]]].
      rewrite E1, E2. cbn [option_map fst snd]. repeat split; auto. apply doc_val_good; exact E7.
    + (* the last segment of path addresses nothing *)
      destruct ST as [S1 [par [S2 [S3 [S4 [S5 S6]]]]]]. rewrite S1.
      destruct (get_at_spec pp t par H S3) as [GA _]. rewrite GA, S5.
      change np_prefix with pos_prefix.
      pose proof (poc_spec fo OSwap v t (p_path o) eq_refl eq_refl Gv H T (not_root_nonempty _ R)) as P.
      destruct (s_add lenient (val t) (p_path o) (val v)) as [d1|].
      * destruct P as [P1 [P2 P3]].
        destruct (put_or_create fo OSwap t (p_path o) v) as [r0 t2] eqn:EP. cbn [fst snd] in P1, P2, P3. subst r0.
        destruct (doc_val_some t2 d1 P2) as [T2 V2].
        destruct (pos_prefix pf pp).
        -- destruct (detach_at_spec pf t v H L3 NEf) as [n' [D1 [D2 [D3 [_ [_ D6]]]]]].
           rewrite D1, D2. cbn [option_map fst snd]. repeat split; auto. apply doc_val_good. congruence.
        -- assert (MP : m_put fo OSwap t (p_path o) v = Some (RcOk, t2)).
           { unfold put_or_create in EP. destruct (m_put fo OSwap t (p_path o) v) as [[r n']|].
             - rewrite EP. reflexivity.
             - change (op_eqb OSwap OAddCreate) with false in EP. discriminate. }
           destruct (m_put_keeps fo v (p_path o) t par t2 (not_root_nonempty _ R) S2 S6 MP pf v L3) as [x' GX].
           destruct (detach_at_spec pf t2 x' P3 GX NEf) as [n' [D1 [D2 [D3 [_ [_ D6]]]]]].
           rewrite D1. rewrite <- V2, D2. cbn [option_map fst snd]. repeat split; auto. apply doc_val_good. congruence.
      * destruct (put_or_create fo OSwap t (p_path o) v) as [r0 t2]. cbn [fst snd] in P. destruct P as [P1 P2].
        destruct r0; cbn [option_map fst snd]; try (split; [discriminate | exact P2]). exfalso. apply P1. reflexivity.
    + (* no parent *)
      rewrite ST. cbn [option_map fst snd]. split; [discriminate | exact H].
  - (* no from *)
    destruct (is_root (p_path o)) eqn:R; cbn [fst snd]; [repeat split; auto|].
    destruct (doc_val t); split; try discriminate; exact H.
Qed.

(* ------------------------------------------------------------------ every operation kind, every document, every program *)
Theorem apply_op_lib : forall fo t o, inv t -> op_good o -> lib_post fo t o.
Proof.
  intros fo t o H G. destruct (p_op o) eqn:K.
  - apply op_none; auto.
  - pose proof (apply_op_lenient fo t o (or_introl K) H G) as P.
    unfold op_post in P. unfold lib_post, lib_op. unfold sop_of at 1. cbn [s_op]. rewrite K. cbn [sopk_of]. exact P.
  - pose proof (apply_op_lenient fo t o (or_intror (or_introl K)) H G) as P.
    unfold op_post in P. unfold lib_post, lib_op. unfold sop_of at 1. cbn [s_op]. rewrite K. cbn [sopk_of]. exact P.
  - pose proof (apply_op_lenient fo t o (or_intror (or_intror (or_introl K))) H G) as P.
    unfold op_post in P. unfold lib_post, lib_op. unfold sop_of at 1. cbn [s_op]. rewrite K. cbn [sopk_of]. exact P.
  - pose proof (apply_op_lenient fo t o (or_intror (or_intror (or_intror (or_introl K)))) H G) as P.
    unfold op_post in P. unfold lib_post, lib_op. unfold sop_of at 1. cbn [s_op]. rewrite K. cbn [sopk_of]. exact P.
  - pose proof (apply_op_lenient fo t o (or_intror (or_intror (or_intror (or_intror (or_introl K))))) H G) as P.
    unfold op_post in P. unfold lib_post, lib_op. unfold sop_of at 1. cbn [s_op]. rewrite K. cbn [sopk_of]. exact P.
  - pose proof (apply_op_lenient fo t o (or_intror (or_intror (or_intror (or_intror (or_intror K))))) H G) as P.
    unfold op_post in P. unfold lib_post, lib_op. unfold sop_of at 1. cbn [s_op]. rewrite K. cbn [sopk_of]. exact P.
  - apply op_increment; auto.
  - apply op_add_create; auto.
  - apply op_swap; auto.
Qed.

Definition lib_prog (fo : fops) := lib_program lenient (f_eq fo) (f_add fo) (f_of_i fo) (f_to_i fo) (f_fits fo).

Theorem apply_ops_lib : forall fo l t, Forall op_good l -> inv t ->
  match lib_prog fo (doc_val t) (map sop_of l) with
  | Some d' => fst (apply_ops fo t l) = RcOk /\ doc_val (snd (apply_ops fo t l)) = d' /\ inv (snd (apply_ops fo t l))
  | None => fst (apply_ops fo t l) <> RcOk /\ inv (snd (apply_ops fo t l))
  end.
Proof.
  intros fo. induction l as [|o l IH]; intros t HO H.
  - simpl. repeat split; auto.
  - inversion HO as [|? ? G HO']; subst. unfold lib_prog in *. cbn [map lib_program apply_ops].
    pose proof (apply_op_lib fo t o H G) as P. unfold lib_post in P.
    destruct (lib_op lenient (f_eq fo) (f_add fo) (f_of_i fo) (f_to_i fo) (f_fits fo) (doc_val t) (sop_of o)) as [d1|].
    + destruct P as [P1 [P2 P3]]. destruct (apply_op fo t o) as [r t1]. cbn [fst snd] in *. subst r d1.
      apply IH; auto.
    + destruct (apply_op fo t o) as [r t1]. cbn [fst snd] in P. destruct P as [P1 P2].
      destruct r; try (cbn [fst snd]; split; [discriminate | exact P2]). exfalso. apply P1. reflexivity.
Qed.

(* the invariant "cached index = position, cached key length = length of the name" after every program of any operations *)
Theorem klidx_inv_all_ops : forall fo l t, Forall op_good l -> klidx_inv t -> klidx_inv (snd (apply_ops fo t l)).
Proof.
  intros fo l t HO H. pose proof (apply_ops_lib fo l t HO H) as P.
  destruct (lib_prog fo (doc_val t) (map sop_of l)); apply P.
Qed.

(* ------------------------------------------------------------------ the RFC side without the restriction to rfc kinds *)
Lemma rfc_op_some_kind : forall c feq d o d', rfc_op c feq d (sop_of o) = Some d' -> rfc_kind (p_op o).
Proof.
  intros c feq d o d' H. unfold rfc_op, sop_of in H. cbn [s_op] in H. unfold rfc_kind.
  destruct (p_op o); cbn [sopk_of] in H; try discriminate; tauto.
Qed.

Lemma rfc_program_ops_ok : forall c feq l d d', Forall op_good l ->
  rfc_program c feq d (map sop_of l) = Some d' -> ops_ok l.
Proof.
  intros c feq. induction l as [|o l IH]; intros d d' G H; [constructor|].
  inversion G; subst. cbn [map rfc_program] in H.
  destruct (rfc_op c feq d (sop_of o)) as [d1|] eqn:E; [|discriminate].
  constructor; [split; [eapply rfc_op_some_kind; exact E | assumption] | eapply IH; eauto].
Qed.

Theorem patch_program_rfc_all : forall fo l t d',
  Forall op_good l -> Forall no_root_alias (map sop_of l) -> klidx_inv t ->
  rfc_program strict (f_eq fo) (doc_val t) (map sop_of l) = Some d' ->
  fst (apply_ops fo t l) = RcOk /\ doc_val (snd (apply_ops fo t l)) = d' /\ klidx_inv (snd (apply_ops fo t l)).
Proof.
  intros fo l t d' G NA H S. apply (patch_program_rfc fo l t d'); auto. eapply rfc_program_ops_ok; eauto.
Qed.

(* ------------------------------------------------------------------ failing operations: what stays of the tree *)
Lemma poc_fail_same : forall fo k t p v, k <> OIncrement -> op_eqb k OAddCreate = false ->
  fst (put_or_create fo k t p v) <> RcOk -> snd (put_or_create fo k t p v) = t.
Proof.
  intros fo k t p v K KC. unfold put_or_create. rewrite KC.
  destruct (m_put fo k t p v) as [[r n']|] eqn:M; cbn [fst snd]; [|reflexivity].
  intro F. exact (m_put_fail_same fo k v K p t r n' M F).
Qed.

Lemma root_from_fail_same : forall t from, fst (root_from t from) <> RcOk -> snd (root_from t from) = t.
Proof.
  intros t [[|s r]|]; cbn [root_from]; try reflexivity.
  destruct (m_find t (s :: r)); [intro F; exfalso; apply F; reflexivity | reflexivity].
Qed.

Definition atomic_kind (k : opk) : Prop :=
  k = ONone \/ k = OAdd \/ k = ORemove \/ k = OCopy \/ k = OTest \/ k = OIncrement \/ k = OAddCreate \/ k = OSwap.

Theorem op_failure_atomic : forall fo t o, inv t -> op_good o -> atomic_kind (p_op o) ->
  fst (apply_op fo t o) <> RcOk -> snd (apply_op fo t o) = t.
Proof.
  intros fo t o H G [K|[K|[K|[K|[K|[K|[K|K]]]]]]].
  - rewrite (apply_none_eq fo t o K). destruct (is_root (p_path o)); [reflexivity|].
    destruct (p_val o); [|reflexivity]. apply poc_fail_same; [discriminate | reflexivity].
  - rewrite (apply_add_eq fo t o K). destruct (is_root (p_path o)).
    + destruct (p_val o); [intro F; exfalso; apply F; reflexivity | reflexivity].
    + destruct (p_val o); [|reflexivity]. apply poc_fail_same; [discriminate | reflexivity].
  - rewrite (apply_remove_eq fo t o K). destruct (is_root (p_path o)); [intro F; exfalso; apply F; reflexivity|].
    destruct (m_detach t (p_path o)) as [[t' d]|]; [intro F; exfalso; apply F; reflexivity | reflexivity].
  - rewrite (apply_copy_eq fo t o K). destruct (is_root (p_path o)); [apply root_from_fail_same|].
    destruct (p_from o) as [f|]; [|reflexivity]. destruct (m_find t f); [|reflexivity].
    apply poc_fail_same; [discriminate | reflexivity].
  - pose proof (test_outcome fo t o) as TO. rewrite (apply_test_eq fo t o K).
    destruct (p_val o); [|reflexivity].
    destruct (if is_root (p_path o) then Some t else m_find t (p_path o)); [|reflexivity].
    destruct (nodes_eq fo n0 n); reflexivity.
  - apply increment_failure_atomic; auto.
  - apply add_create_failure_atomic; auto.
  - rewrite (apply_swap_eq fo t o K).
    destruct (match p_from o with Some [] => true | _ => false end); [reflexivity|].
    destruct (is_root (p_path o)); [reflexivity|].
    destruct (p_from o) as [f|]; [|reflexivity]. destruct (seg_nested f (p_path o)); [reflexivity|].
    destruct (m_find t f) as [v|]; [|reflexivity]. destruct (m_locate t f) as [pf|]; [|reflexivity].
    destruct (swap_target t (p_path o)) as [[pp [[i c]|]]|]; [| |reflexivity].
    + cbv zeta. destruct (pos_eqb pf (pp ++ [i])); [reflexivity|].
      destruct (pos_prefix pf (pp ++ [i])).
      { destruct (set_data_at t pf c); [intro F; exfalso; apply F; reflexivity | reflexivity]. }
      destruct (pos_prefix (pp ++ [i]) pf).
      { destruct (set_data_at t (pp ++ [i]) v); [intro F; exfalso; apply F; reflexivity | reflexivity]. }
      destruct (set_data_at t pf c) as [t2|]; [|reflexivity].
      destruct (set_data_at t2 (pp ++ [i]) v); [intro F; exfalso; apply F; reflexivity | reflexivity].
    + pose proof (poc_fail_same fo OSwap t (p_path o) v ltac:(discriminate) eq_refl) as PF.
      destruct (put_or_create fo OSwap t (p_path o) v) as [r0 t2]. cbn [fst snd] in PF.
      destruct r0; cbn [fst snd]; try (intro F; apply PF; discriminate).
      destruct (detach_at (if pos_prefix pf pp then t else t2) pf); [intro F; exfalso; apply F; reflexivity | reflexivity].
Qed.

(* a failing program: the operations before the failing one are applied, and the failing one leaves what it leaves *)
Theorem failed_program_prefix : forall fo l t, fst (apply_ops fo t l) <> RcOk ->
  exists l1 o l2 t1, l = l1 ++ o :: l2 /\ apply_ops fo t l1 = (RcOk, t1) /\ apply_op fo t1 o = apply_ops fo t l /\
                     fst (apply_op fo t1 o) <> RcOk.
Proof.
  intros fo. induction l as [|o l IH]; intros t F.
  - exfalso. apply F. reflexivity.
  - cbn [apply_ops] in F. destruct (apply_op fo t o) as [r t'] eqn:E.
    destruct (rc_ok r) eqn:R.
    + apply rc_ok_eq in R. subst r. destruct (IH t' F) as [l1 [o' [l2 [t1 [A [B [C D]]]]]]].
      exists (o :: l1), o', l2, t1. split; [rewrite A; reflexivity|].
      split; [cbn [apply_ops]; rewrite E; exact B|]. split; [|exact D].
      rewrite C. cbn [apply_ops]. rewrite E. reflexivity.
    + exists [], o, l, t. split; [reflexivity|]. split; [reflexivity|].
      assert (EQ : apply_ops fo t (o :: l) = (r, t')).
      { cbn [apply_ops]. rewrite E. destruct r; try reflexivity. discriminate. }
      rewrite EQ. split; [exact E|]. rewrite E. cbn [fst]. apply rc_ok_neq. exact R.
Qed.

(* ------------------------------------------------------------------ pointers as text: _jbl_ptr_pool against rfc6901 *)
Lemma ptr_parse_spec : forall s, ptr_parse s = match lib_ptr s with Some l => PtrOk l | None => PtrErr end.
Proof.
  intros [|c r]; [reflexivity|].
  unfold ptr_parse, lib_ptr.
  destruct ((1 <? Z.of_nat (length (c :: r))) && match rev (c :: r) with 47 :: _ => true | _ => false end) eqn:B.
  - destruct c as [|p|p]; try reflexivity;
    do 6 (try destruct p as [p|p|]; try reflexivity).
  - destruct c as [|p|p]; try reflexivity;
    do 6 (try destruct p as [p|p|]; try reflexivity).
Qed.

Lemma ptr_parse_modelled : forall s, ptr_parse s <> PtrUnmodelled.
Proof. intro s. rewrite ptr_parse_spec. destruct (lib_ptr s); discriminate. Qed.

(* an acceptable pointer is read as rfc6901 reads it *)
Lemma lib_ptr_rfc6901 : forall s l, lib_ptr s = Some l -> rfc6901 s = Some l.
Proof. intros s l. unfold lib_ptr. destruct (_ && _); [discriminate | auto]. Qed.

Definition lib_parse_op (r : rawop) : option sop :=
  match lib_ptr (match r_path r with Some p => p | None => [] end) with
  | None => None
  | Some path =>
    match r_from r with
    | None => Some {| s_op := sopk_of (r_op r); s_path := path; s_from := None; s_val := option_map val (r_val r) |}
    | Some f => match lib_ptr f with
                | None => None
                | Some fs => Some {| s_op := sopk_of (r_op r); s_path := path; s_from := Some fs; s_val := option_map val (r_val r) |}
                end
    end
  end.
Fixpoint lib_parse (l : list rawop) : option (list sop) :=
  match l with
  | [] => Some []
  | r :: l' => match lib_parse_op r with
               | None => None
               | Some o => match lib_parse l' with None => None | Some os => Some (o :: os) end
               end
  end.

Lemma parse_op_spec : forall r,
  match parse_op r with
  | inr o => lib_parse_op r = Some (sop_of o) /\ p_val o = r_val r
  | inl e => e = RcPtr /\ lib_parse_op r = None
  end.
Proof.
  intro r. unfold parse_op, lib_parse_op. rewrite ptr_parse_spec.
  destruct (lib_ptr (match r_path r with Some p => p | None => [] end)) as [path|]; [|split; reflexivity].
  destruct (r_from r) as [f|]; [|split; reflexivity].
  rewrite ptr_parse_spec. destruct (lib_ptr f); split; reflexivity.
Qed.

Lemma parse_ops_spec : forall l,
  match parse_ops l with
  | inr os => lib_parse l = Some (map sop_of os) /\ map p_val os = map r_val l
  | inl e => e = RcPtr /\ lib_parse l = None
  end.
Proof.
  induction l as [|r l IH]; [split; reflexivity|].
  cbn [parse_ops lib_parse]. pose proof (parse_op_spec r) as P.
  destruct (parse_op r) as [e|o].
  - destruct P as [P1 P2]. rewrite P2. auto.
  - destruct P as [P1 P2]. rewrite P1. destruct (parse_ops l) as [e|os].
    + destruct IH as [I1 I2]. rewrite I2. auto.
    + destruct IH as [I1 I2]. rewrite I1. cbn [map]. rewrite P2, I2. auto.
Qed.

Definition raw_good (r : rawop) : Prop := forall v, r_val r = Some v -> good v.

(* jbn_patch, every document, every list of operations of any kind with pointers as text:
   - some pointer unacceptable (not rfc6901, or ending in "/"): JBL_ERROR_JSON_POINTER and NOTHING is applied;
   - otherwise the outcome is the one of lib_program: success with that document, or an error *)
Theorem patch_node_total : forall fo t raw, inv t -> Forall raw_good raw ->
  match lib_parse raw with
  | None => patch_node fo t raw = (RcPtr, t)
  | Some sops =>
    match lib_prog fo (doc_val t) sops with
    | Some d' => fst (patch_node fo t raw) = RcOk /\ doc_val (snd (patch_node fo t raw)) = d' /\ inv (snd (patch_node fo t raw))
    | None => fst (patch_node fo t raw) <> RcOk /\ inv (snd (patch_node fo t raw))
    end
  end.
Proof.
  intros fo t raw H G. pose proof (parse_ops_spec raw) as P. unfold patch_node.
  destruct raw as [|r0 raw']; [simpl; repeat split; auto|].
  destruct (parse_ops (r0 :: raw')) as [e|os].
  - destruct P as [P1 P2]. rewrite P2. subst e. reflexivity.
  - destruct P as [P1 P2]. rewrite P1.
    assert (GO : Forall op_good os).
    { clear P1. revert P2 G. generalize (r0 :: raw'). induction os as [|o os IH]; intros l P2 G; [constructor|].
      destruct l as [|r l]; [discriminate|]. cbn [map] in P2. inversion P2 as [[E1 E2]]. inversion G; subst.
      constructor; [unfold op_good; rewrite E1; assumption | eapply IH; eauto]. }
    apply (apply_ops_lib fo os t GO H).
Qed.

(* ------------------------------------------------------------------ increment: the documented meaning, read back *)
Lemma lookup_set_same : forall s x ms y, lookup s ms = Some y -> lookup s (set_member s x ms) = Some x.
Proof.
  intros s x. induction ms as [|[k v] r IH]; intros y H; [discriminate|].
  cbn [lookup set_member] in *. destruct (bytes_eqb k s) eqn:E.
  - cbn [lookup]. rewrite E. reflexivity.
  - cbn [lookup]. rewrite E. eapply IH. exact H.
Qed.

Lemma aidx_same_length : forall c l l' s, length l = length l' -> aidx c l s = aidx c l' s.
Proof. intros c l l' s H. unfold aidx. rewrite H. destruct l, l'; try discriminate; reflexivity. Qed.

Lemma nth_error_mid_set : forall (A : Type) (l : list A) i x, (i < length l)%nat ->
  nth_error (firstn i l ++ x :: skipn (S i) l) i = Some x.
Proof.
  intros A l i x L. rewrite nth_error_app2; rewrite firstn_length_le by lia; [|lia]. rewrite Nat.sub_diag. reflexivity.
Qed.

Lemma set_length : forall (A : Type) (l : list A) i x, (i < length l)%nat -> length (firstn i l ++ x :: skipn (S i) l) = length l.
Proof.
  intros A l i x L. rewrite app_length. cbn [length]. rewrite firstn_length_le by lia. rewrite skipn_length. lia.
Qed.

(* after replacing the value at a pointer, reading the pointer gives the new value *)
Lemma jget_after_set : forall c x p v v', jmod c v p (set_here c x) = Some v' -> jget c v' p = Some x.
Proof.
  intros c x. induction p as [|s r IH]; intros v v' H; [discriminate|].
  destruct r as [|s2 r'].
  - cbn [jmod] in H. unfold set_here in H. destruct v as [| | | | |l|ms]; try discriminate.
    + destruct (aidx c l s) as [i|] eqn:A; [|discriminate]. apply some_inj in H. subst v'. rewrite jget_cons.
      pose proof (aidx_lt _ _ _ _ A) as L.
      rewrite (aidx_same_length c _ l s (set_length _ l i x L)), A. rewrite nth_error_mid_set by exact L. reflexivity.
    + destruct (lookup s ms) as [y|] eqn:L; [|discriminate]. apply some_inj in H. subst v'. rewrite jget_cons.
      rewrite (lookup_set_same s x ms y L). reflexivity.
  - rewrite jmod_cons2 in H. destruct v as [| | | | |l|ms]; try discriminate.
    + destruct (aidx c l s) as [i|] eqn:A; [|discriminate].
      destruct (nth_error l i) as [y|] eqn:N; [|discriminate].
      destruct (jmod c y (s2 :: r') (set_here c x)) as [y'|] eqn:M; [|discriminate]. apply some_inj in H. subst v'.
      pose proof (aidx_lt _ _ _ _ A) as L. rewrite jget_cons.
      rewrite (aidx_same_length c _ l s (set_length _ l i y' L)), A. rewrite nth_error_mid_set by exact L.
      eapply IH. exact M.
    + destruct (lookup s ms) as [y|] eqn:L; [|discriminate].
      destruct (jmod c y (s2 :: r') (set_here c x)) as [y'|] eqn:M; [|discriminate]. apply some_inj in H. subst v'.
      rewrite jget_cons. rewrite (lookup_set_same s y' ms y L). eapply IH. exact M.
Qed.

(* a resolving pointer can have its value replaced *)
Lemma set_resolves : forall p dv x y, jget lenient dv p = Some y -> p <> [] -> jmod lenient dv p (set_here lenient x) <> None.
Proof.
  induction p as [|s r IH]; intros dv x y JG NE; [contradiction|].
  destruct r as [|s2 r'].
  - cbn [jmod]. unfold set_here. cbn [jget] in JG. destruct dv as [| | | | |l|ms]; try discriminate.
    + destruct (aidx lenient l s); [discriminate | discriminate].
    + destruct (lookup s ms); [discriminate | discriminate].
  - rewrite jmod_cons2. rewrite jget_cons in JG. destruct dv as [| | | | |l|ms]; try discriminate.
    + destruct (aidx lenient l s) as [i|]; [|discriminate]. destruct (nth_error l i) as [z|]; [|discriminate].
      pose proof (IH z x y JG ltac:(discriminate)) as Q.
      destruct (jmod lenient z (s2 :: r') (set_here lenient x)); [discriminate | contradiction].
    + destruct (lookup s ms) as [z|]; [|discriminate].
      pose proof (IH z x y JG ltac:(discriminate)) as Q.
      destruct (jmod lenient z (s2 :: r') (set_here lenient x)); [discriminate | contradiction].
Qed.

(* `increment` of an integer member / array element by an integer, for ALL integers: when the sum is an int64 the call succeeds and
   the pointer then reads exactly a + b; otherwise the call fails (JBL_ERROR_PATCH_INVALID_VALUE) and the tree is untouched *)
Theorem increment_int_exact : forall fo t o v a b,
  inv t -> p_op o = OIncrement -> is_root (p_path o) = false -> p_val o = Some v -> good v -> val v = JI64 b ->
  jget lenient (val t) (p_path o) = Some (JI64 a) ->
  (i64_fits (a + b) = true ->
     fst (apply_op fo t o) = RcOk /\ inv (snd (apply_op fo t o)) /\
     jget lenient (val (snd (apply_op fo t o))) (p_path o) = Some (JI64 (a + b))) /\
  (i64_fits (a + b) = false -> fst (apply_op fo t o) <> RcOk /\ snd (apply_op fo t o) = t).
Proof.
  intros fo t o v a b H K R PV G VB J.
  rewrite (apply_inc_eq fo t o K), R, PV.
  pose proof (poc_inc fo v t (p_path o) G H (not_root_nonempty _ R)) as P.
  unfold ext_inc_alt in P. rewrite J, VB in P. unfold nsum, num_sum in P.
  destruct (i64_fits (a + b)); (split; intro F; [|discriminate F || exact P]); try discriminate F.
  destruct (jmod lenient (val t) (p_path o) (set_here lenient (JI64 (a + b)))) as [d'|] eqn:M.
  - destruct P as [P1 [P2 [P3 _]]]. split; [exact P1|]. split; [exact P3|]. rewrite P2. eapply jget_after_set. exact M.
  - exfalso. exact (set_resolves _ _ _ _ J (not_root_nonempty _ R) M).
Qed.

(* the code before 9a2bde2 (increment_v true): INT64_MAX + 1 "succeeded" with INT64_MIN - a signed overflow in C *)
Lemma increment_old_wraps :
  increment_v true {| f_add := Z.add; f_of_i := fun x => x; f_to_i := fun x => x; f_eq := Z.eqb; f_fits := fun _ => true |}
              (Node 0 [] TI64 9223372036854775807 [] []) (Node 0 [] TI64 1 [] []) =
  (RcOk, Node 0 [] TI64 (- 9223372036854775808) [] []).
Proof. reflexivity. Qed.

(* ------------------------------------------------------------------ swap: the documented meaning *)
Lemma lookup_pos_nth : forall s ms i, lookup_pos s ms = Some i -> lookup s ms = nth_error (map snd ms) i.
Proof.
  intros s. induction ms as [|[k v] r IH]; intros i H; [discriminate|].
  cbn [lookup_pos lookup] in *. destruct (bytes_eqb k s).
  - inversion H; subst. reflexivity.
  - destruct (lookup_pos s r) as [j|]; [|discriminate]. inversion H; subst. cbn [map nth_error]. apply IH. reflexivity.
Qed.
Lemma lookup_pos_none : forall s ms, lookup_pos s ms = None -> lookup s ms = None.
Proof.
  intros s. induction ms as [|[k v] r IH]; intro H; [reflexivity|].
  cbn [lookup_pos lookup] in *. destruct (bytes_eqb k s); [discriminate|].
  destruct (lookup_pos s r); [discriminate|]. apply IH. reflexivity.
Qed.

Lemma jget_step : forall c v s r, jget c v (s :: r) =
  match jstep c v s with Some i => match nth_error (jkids v) i with Some x => jget c x r | None => None end | None => None end.
Proof.
  intros c v s r. rewrite jget_cons. destruct v as [| | | | |l|ms]; try reflexivity.
  - cbn [jstep jkids]. destruct (lookup_pos s ms) as [i|] eqn:L.
    + rewrite (lookup_pos_nth s ms i L). reflexivity.
    + rewrite (lookup_pos_none s ms L). reflexivity.
Qed.

Lemma jlocate_get : forall c p v pos, jlocate c v p = Some pos -> jget c v p = jget_at v pos.
Proof.
  intros c. induction p as [|s r IH]; intros v pos H.
  - simpl in H. inversion H. reflexivity.
  - rewrite jget_step. cbn [jlocate] in H. destruct (jstep c v s) as [i|]; [|discriminate].
    destruct (nth_error (jkids v) i) as [x|] eqn:N; [|discriminate].
    destruct (jlocate c x r) as [l|] eqn:L; [|discriminate]. inversion H; subst. cbn [jget_at]. rewrite N. apply IH. exact L.
Qed.

Lemma jstep_mono : forall v s i, jstep strict v s = Some i -> jstep lenient v s = Some i.
Proof. intros v s i H. destruct v; try discriminate; [apply aidx_mono; exact H | exact H]. Qed.

Lemma jlocate_mono : forall p v pos, jlocate strict v p = Some pos -> jlocate lenient v p = Some pos.
Proof.
  induction p as [|s r IH]; intros v pos H; [exact H|].
  cbn [jlocate] in *. destruct (jstep strict v s) as [i|] eqn:S; [|discriminate]. rewrite (jstep_mono v s i S).
  destruct (nth_error (jkids v) i) as [x|]; [|discriminate].
  destruct (jlocate strict x r) as [l|] eqn:L; [|discriminate]. rewrite (IH x l L). exact H.
Qed.

Lemma jget_at_app : forall p q v, jget_at v (p ++ q) = match jget_at v p with Some x => jget_at x q | None => None end.
Proof.
  induction p as [|i r IH]; intros q v; [reflexivity|].
  cbn [app jget_at]. destruct (nth_error (jkids v) i) as [c|]; [apply IH | reflexivity].
Qed.

Lemma jlocate_last : forall c p v pc, p <> [] -> jlocate c v p = Some pc ->
  exists pp i parent, jlocate c v (removelast p) = Some pp /\ pc = pp ++ [i] /\ jget_at v pp = Some parent /\
                      jstep c parent (last p []) = Some i.
Proof.
  intros c. induction p as [|s r IH]; intros v pc NE H; [contradiction|].
  cbn [jlocate] in H. destruct (jstep c v s) as [i|] eqn:S; [|discriminate].
  destruct (nth_error (jkids v) i) as [x|] eqn:N; [|discriminate].
  destruct (jlocate c x r) as [l|] eqn:L; [|discriminate]. inversion H; subst.
  destruct r as [|s2 r'].
  - simpl in L. inversion L; subst. exists [], i, v. repeat split; auto.
  - destruct (IH x l ltac:(discriminate) L) as [pp [j [parent [A [B [C D]]]]]].
    exists (i :: pp), j, parent. rewrite removelast_cons2. cbn [jlocate]. rewrite S, N, A. subst l.
    repeat split; auto. cbn [jget_at]. rewrite N. exact C.
Qed.

Lemma strict_step_swap_kid : forall parent s i, jstep strict parent s = Some i -> swap_kid lenient parent s = Some i.
Proof.
  intros parent s i H. destruct parent as [| | | | |l|ms]; try discriminate; [|exact H].
  cbn [jstep] in H. cbn [swap_kid]. unfold aidx in H. cbn [strict c_look] in H.
  destruct (s_is_dash s) eqn:D; [discriminate|]. cbn [c_ins lenient]. exact H.
Qed.

Theorem swap_documented : forall dv f path r, ext_swap strict dv f path = Some r -> lib_swap lenient dv f path = Some r.
Proof.
  intros dv f path r H. unfold ext_swap in H.
  destruct (jlocate strict dv f) as [pf|] eqn:LF; [|discriminate].
  destruct (jlocate strict dv path) as [pc|] eqn:LP; [|discriminate].
  destruct (np_prefix pf pc || np_prefix pc pf) eqn:NP; [discriminate|].
  apply orb_false_iff in NP. destruct NP as [N1 N2].
  destruct (jget_at dv pf) as [a|] eqn:GA; [|discriminate]. destruct (jget_at dv pc) as [b|] eqn:GB; [|discriminate].
  assert (NE : path <> []).
  { intro E. subst path. simpl in LP. inversion LP; subst pc. simpl in N2. discriminate. }
  destruct (jlocate_last strict path dv pc NE LP) as [pp [i [parent [A [B [C D]]]]]].
  unfold lib_swap. rewrite (jlocate_mono _ _ _ LF). rewrite (jlocate_get lenient f dv pf (jlocate_mono _ _ _ LF)), GA.
  rewrite (jlocate_mono _ _ _ A), C, (strict_step_swap_kid parent _ i D). cbv zeta. rewrite <- B, GB, N1, N2. cbn [andb]. exact H.
Qed.

Lemma jkids_set_kid : forall v i y x, nth_error (jkids v) i = Some y ->
  jkids (jset_kid v i x) = firstn i (jkids v) ++ x :: skipn (S i) (jkids v).
Proof.
  intros v i y x N. destruct v as [| | | | |l|ms]; try (destruct i; discriminate).
  - reflexivity.
  - cbn [jkids jset_kid] in *. rewrite nth_error_map in N. destruct (nth_error ms i) as [[k y0]|] eqn:M; [|discriminate].
    rewrite !map_app. cbn [map snd app]. rewrite firstn_map, skipn_map. reflexivity.
Qed.

Lemma nth_mid_same : forall (A : Type) (l : list A) i c x, nth_error l i = Some c ->
  nth_error (firstn i l ++ x :: skipn (S i) l) i = Some x.
Proof.
  intros A l i c x H. assert (L : (i < length l)%nat) by (apply nth_error_Some; congruence).
  rewrite nth_error_app2; rewrite firstn_length_le by lia; [|lia]. rewrite Nat.sub_diag. reflexivity.
Qed.

Lemma jget_at_set_same : forall pos v x v', jset_at v pos x = Some v' -> jget_at v' pos = Some x.
Proof.
  induction pos as [|i r IH]; intros v x v' H.
  - simpl in H. inversion H. reflexivity.
  - cbn [jset_at] in H. destruct (nth_error (jkids v) i) as [y|] eqn:N; [|discriminate].
    destruct (jset_at y r x) as [y'|] eqn:S; [|discriminate]. inversion H; subst. cbn [jget_at].
    rewrite (jkids_set_kid v i y y' N), (nth_mid_same _ _ _ _ _ N). apply (IH y x y' S).
Qed.

Lemma jget_at_set_other : forall pf v x v', jset_at v pf x = Some v' ->
  forall pc, np_prefix pf pc = false -> np_prefix pc pf = false -> jget_at v' pc = jget_at v pc.
Proof.
  induction pf as [|i r IH]; intros v x v' H pc P1 P2; [discriminate|].
  cbn [jset_at] in H. destruct (nth_error (jkids v) i) as [y|] eqn:N; [|discriminate].
  destruct (jset_at y r x) as [y'|] eqn:S; [|discriminate]. inversion H; subst.
  destruct pc as [|j q]; [discriminate|]. cbn [jget_at]. rewrite (jkids_set_kid v i y y' N).
  destruct (Nat.eq_dec j i) as [E|NE].
  - subst j. rewrite (nth_mid_same _ _ _ _ _ N), N. cbn [np_prefix] in P1, P2. rewrite Nat.eqb_refl in P1, P2.
    apply (IH y x y' S q P1 P2).
  - rewrite (nth_set_other _ _ _ _ _ _ N NE). reflexivity.
Qed.

(* where the exchange exists the two pointers read each other's old value afterwards *)
Theorem swap_reads_back : forall c dv f path r, ext_swap c dv f path = Some r ->
  exists pf pc a b, jlocate c dv f = Some pf /\ jlocate c dv path = Some pc /\ jget_at dv pf = Some a /\ jget_at dv pc = Some b /\
                    jget_at r pf = Some b /\ jget_at r pc = Some a.
Proof.
  intros c dv f path r H. unfold ext_swap in H.
  destruct (jlocate c dv f) as [pf|] eqn:LF; [|discriminate]. destruct (jlocate c dv path) as [pc|] eqn:LP; [|discriminate].
  destruct (np_prefix pf pc || np_prefix pc pf) eqn:NP; [discriminate|].
  apply orb_false_iff in NP. destruct NP as [N1 N2].
  destruct (jget_at dv pf) as [a|] eqn:GA; [|discriminate]. destruct (jget_at dv pc) as [b|] eqn:GB; [|discriminate].
  destruct (jset_at dv pf b) as [d1|] eqn:S1; [|discriminate].
  exists pf, pc, a, b. split; [reflexivity|]. split; [reflexivity|]. split; [exact GA|]. split; [exact GB|]. split.
  - rewrite (jget_at_set_other pc d1 a r H pf N2 N1). apply (jget_at_set_same pf dv b d1 S1).
  - apply (jget_at_set_same pc d1 a r H).
Qed.

(* ------------------------------------------------------------------ add_create: the documented meaning *)
Lemma ext_create_fresh : forall x p, p <> [] -> ext_add_create lenient (JObj []) p x = create_spec lenient (JObj []) p x.
Proof.
  intros x. induction p as [|s r IH]; intro NE; [contradiction|].
  destruct r as [|s2 r']; [reflexivity|].
  change (ext_add_create lenient (JObj []) (s :: s2 :: r') x) with
    (match ext_add_create lenient (JObj []) (s2 :: r') x with Some y' => Some (JObj ([] ++ [(s, y')])) | None => None end).
  change (create_spec lenient (JObj []) (s :: s2 :: r') x) with
    (match create_spec lenient (JObj []) (s2 :: r') x with Some y' => Some (JObj ([] ++ [(s, y')])) | None => None end).
  rewrite IH by discriminate. reflexivity.
Qed.

Lemma lookup_none_pos : forall s ms, lookup s ms = None -> lookup_pos s ms = None.
Proof.
  intros s ms H. destruct (lookup_pos s ms) as [i|] eqn:L; [|reflexivity].
  pose proof (lookup_pos_nth s ms i L) as E. rewrite H in E.
  assert (Lt : (i < length (map snd ms))%nat).
  { clear E H. revert i L. induction ms as [|[k v] r IH]; intros i L; [discriminate|].
    cbn [lookup_pos] in L. destruct (bytes_eqb k s); [inversion L; simpl; lia|].
    destruct (lookup_pos s r) as [j|]; [|discriminate]. inversion L; subst. simpl. specialize (IH j eq_refl). lia. }
  symmetry in E. apply nth_error_None in E. lia.
Qed.

Theorem add_create_documented : forall p v x r, ext_add_create lenient v p x = Some r -> lib_add_create lenient v p x = Some r.
Proof.
  unfold lib_add_create. induction p as [|s r0 IH]; intros v x r H; [discriminate|].
  destruct r0 as [|s2 r'].
  - cbn [removelast jget]. exact H.
  - rewrite removelast_cons2, jget_cons.
    change (ext_add_create lenient v (s :: s2 :: r') x) with
      (match v with
       | JObj ms => match lookup s ms with
                    | Some y => match ext_add_create lenient y (s2 :: r') x with Some y' => Some (JObj (set_member s y' ms)) | None => None end
                    | None => match ext_add_create lenient (JObj []) (s2 :: r') x with Some y' => Some (JObj (ms ++ [(s, y')])) | None => None end
                    end
       | _ => None end) in H.
    destruct v as [| | | | |l|ms]; try discriminate.
    destruct (lookup s ms) as [y|] eqn:L.
    + destruct (ext_add_create lenient y (s2 :: r') x) as [y'|] eqn:E; [|discriminate]. inversion H; subst r.
      specialize (IH y x y' E).
      destruct (jget lenient y (removelast (s2 :: r'))) as [z|] eqn:G.
      * unfold s_add in *. rewrite jmod_cons2, L, IH. reflexivity.
      * assert (L2 : exists i, lookup_pos s ms = Some i /\ nth_error (map snd ms) i = Some y).
        { destruct (lookup_pos s ms) as [i|] eqn:LP.
          - exists i. split; [reflexivity|]. transitivity (lookup s ms); [symmetry; apply lookup_pos_nth; exact LP | exact L].
          - rewrite (lookup_pos_none s ms LP) in L. discriminate. }
        destruct L2 as [i [LP N]].
        assert (YO : exists ys, y = JObj ys).
        { destruct r' as [|s3 r'']; [simpl in G; discriminate|].
          change (ext_add_create lenient y (s2 :: s3 :: r'') x) with
            (match y with JObj ms0 => match lookup s2 ms0 with
                                      | Some y0 => match ext_add_create lenient y0 (s3 :: r'') x with Some y1 => Some (JObj (set_member s2 y1 ms0)) | None => None end
                                      | None => match ext_add_create lenient (JObj []) (s3 :: r'') x with Some y1 => Some (JObj (ms0 ++ [(s2, y1)])) | None => None end
                                      end
                    | _ => None end) in E.
          destruct y; try discriminate. eexists. reflexivity. }
        destruct YO as [ys EY]. subst y.
        change (create_spec lenient (JObj ms) (s :: s2 :: r') x) with
          (match jstep lenient (JObj ms) s with
           | Some i0 => match nth_error (jkids (JObj ms)) i0 with
                        | Some (JObj ys0) => match create_spec lenient (JObj ys0) (s2 :: r') x with
                                             | Some y1 => Some (jset_kid (JObj ms) i0 y1) | None => None end
                        | _ => None end
           | None => match create_spec lenient (JObj []) (s2 :: r') x with
                     | Some y1 => Some (JObj (ms ++ [(s, y1)])) | None => None end
           end).
        cbn [jstep jkids]. rewrite LP, N, IH. cbn [jset_kid]. rewrite (set_member_at s y' ms i LP). reflexivity.
    + destruct (ext_add_create lenient (JObj []) (s2 :: r') x) as [y'|] eqn:E; [|discriminate]. inversion H; subst r.
      change (create_spec lenient (JObj ms) (s :: s2 :: r') x) with
        (match jstep lenient (JObj ms) s with
         | Some i0 => match nth_error (jkids (JObj ms)) i0 with
                      | Some (JObj ys0) => match create_spec lenient (JObj ys0) (s2 :: r') x with
                                           | Some y1 => Some (jset_kid (JObj ms) i0 y1) | None => None end
                      | _ => None end
         | None => match create_spec lenient (JObj []) (s2 :: r') x with
                   | Some y1 => Some (JObj (ms ++ [(s, y1)])) | None => None end
         end).
      cbn [jstep]. rewrite (lookup_none_pos s ms L). rewrite <- ext_create_fresh by discriminate. rewrite E. reflexivity.
Qed.

(* ------------------------------------------------------------------ since eca2cba: indices are read as rfc6901 reads them, so the
   library's reading and the RFC differ ONLY at the root ("/" as the root, move / copy onto the root ignored) and for a move into
   one's own child - everywhere else "the RFC makes it an error" and "the library reports an error" are the same thing *)
Lemma jget_cfg_eq : forall p v, jget lenient v p = jget strict v p.
Proof.
  induction p as [|s r IH]; intro v; [reflexivity|]. rewrite !jget_cons. destruct v; try reflexivity.
  - change (aidx lenient items s) with (aidx strict items s). destruct (aidx strict items s) as [i|]; [|reflexivity].
    destruct (nth_error items i); [apply IH | reflexivity].
  - destruct (lookup s members); [apply IH | reflexivity].
Qed.
Lemma jmod_cfg_eq : forall f p v, jmod lenient v p f = jmod strict v p f.
Proof.
  intros f. induction p as [|s r IH]; intro v; [reflexivity|].
  destruct r as [|s2 r']; [reflexivity|]. rewrite !jmod_cons2. destruct v; try reflexivity.
  - change (aidx lenient items s) with (aidx strict items s). destruct (aidx strict items s) as [i|]; [|reflexivity].
    destruct (nth_error items i) as [x|]; [|reflexivity]. rewrite (IH x). reflexivity.
  - destruct (lookup s members) as [x|]; [|reflexivity]. rewrite (IH x). reflexivity.
Qed.
Lemma s_add_cfg_eq : forall v p x, s_add lenient v p x = s_add strict v p x.
Proof. intros. unfold s_add. rewrite jmod_cfg_eq. reflexivity. Qed.
Lemma s_remove_cfg_eq : forall v p, s_remove lenient v p = s_remove strict v p.
Proof. intros. unfold s_remove. rewrite jmod_cfg_eq. reflexivity. Qed.

(* an operation that does not touch the remaining leniencies: "/" as the root, a move into one's own child, and - once the
   document has been removed - the root moved / copied onto itself (the library: nothing to do, 0) *)
Definition rfc_shaped (o : sop) : Prop :=
  no_root_alias o /\ (s_op o = SMove -> forall f, s_from o = Some f -> proper_prefix f (s_path o) = false) /\
  ((s_op o = SMove \/ s_op o = SCopy) -> s_path o = [] -> s_from o <> Some []).

Theorem rfc_op_lenient_is_strict : forall feq d o, rfc_shaped o -> rfc_op lenient feq d o = rfc_op strict feq d o.
Proof.
  intros feq d o [NA [PP NS]]. unfold no_root_alias in NA. unfold rfc_op. rewrite (strict_root _ NA).
  assert (RE : s_is_root strict (s_path o) = true -> s_path o = []).
  { destruct (s_path o) as [|[|? ?] [|? ?]]; [reflexivity | discriminate ..]. }
  destruct (s_op o) eqn:K; try reflexivity.
  - destruct (s_val o); [|reflexivity]. destruct (s_is_root strict (s_path o)); [reflexivity|].
    destruct d; [|reflexivity]. rewrite s_add_cfg_eq. reflexivity.
  - destruct (s_is_root strict (s_path o)); [reflexivity|]. destruct d; [|reflexivity]. rewrite s_remove_cfg_eq. reflexivity.
  - destruct (s_val o); [|reflexivity]. destruct (s_is_root strict (s_path o)); [reflexivity|].
    destruct d as [dv|]; [|reflexivity]. rewrite s_remove_cfg_eq. destruct (s_remove strict dv (s_path o)); [|reflexivity].
    rewrite s_add_cfg_eq. reflexivity.
  - cbn [c_lenient strict lenient andb]. destruct (s_is_root strict (s_path o)) eqn:R.
    + specialize (NS (or_intror eq_refl) (RE eq_refl)).
      destruct (s_from o) as [[|s r]|]; [contradiction (NS eq_refl) | | destruct d; reflexivity].
      destruct d as [dv|]; [|reflexivity]. rewrite jget_cfg_eq. reflexivity.
    + destruct (s_from o) as [f|]; [|destruct d; reflexivity]. destruct d as [dv|]; [|reflexivity].
      rewrite jget_cfg_eq. destruct (jget strict dv f); [|reflexivity]. rewrite s_add_cfg_eq. reflexivity.
  - cbn [c_lenient strict lenient andb]. destruct (s_is_root strict (s_path o)) eqn:R.
    + specialize (NS (or_introl eq_refl) (RE eq_refl)).
      destruct (s_from o) as [[|s r]|]; [contradiction (NS eq_refl) | | destruct d; reflexivity].
      destruct d as [dv|]; [|reflexivity]. rewrite jget_cfg_eq. reflexivity.
    + destruct (s_from o) as [f|] eqn:EF; [|destruct d; reflexivity]. destruct d as [dv|]; [|reflexivity].
      cbn [negb andb]. rewrite (PP eq_refl f eq_refl).
      rewrite jget_cfg_eq. destruct (jget strict dv f); [|reflexivity]. rewrite s_remove_cfg_eq.
      destruct (s_remove strict dv f); [|reflexivity]. rewrite s_add_cfg_eq. reflexivity.
  - destruct (s_val o); [|reflexivity]. destruct (s_is_root strict (s_path o)); [reflexivity|].
    destruct d; [|reflexivity]. rewrite jget_cfg_eq. reflexivity.
Qed.

Lemma rfc_program_lenient_is_strict : forall feq l d, Forall rfc_shaped l -> rfc_program lenient feq d l = rfc_program strict feq d l.
Proof.
  intros feq. induction l as [|o l IH]; intros d F; [reflexivity|]. inversion F; subst. cbn [rfc_program].
  rewrite rfc_op_lenient_is_strict by assumption. destruct (rfc_op strict feq d o); [apply IH; assumption | reflexivity].
Qed.

(* both directions against the RFC itself: the result when the RFC defines one, an error otherwise *)
Theorem patch_program_rfc_exact : forall fo l t, ops_ok l -> Forall rfc_shaped (map sop_of l) -> klidx_inv t ->
  match rfc_program strict (f_eq fo) (doc_val t) (map sop_of l) with
  | Some d' => fst (apply_ops fo t l) = RcOk /\ doc_val (snd (apply_ops fo t l)) = d' /\ klidx_inv (snd (apply_ops fo t l))
  | None => fst (apply_ops fo t l) <> RcOk /\ klidx_inv (snd (apply_ops fo t l))
  end.
Proof.
  intros fo l t HO SH H. rewrite <- rfc_program_lenient_is_strict by exact SH. apply apply_ops_lenient; assumption.
Qed.

(* ------------------------------------------------------------------ move / copy onto the root "" (22df63c) *)
Theorem root_move_copy : forall fo t o f, inv t -> (p_op o = OMove \/ p_op o = OCopy) -> p_path o = [] -> p_from o = Some f ->
  n_ty t <> TNone ->
  match jget strict (val t) f with
  | Some x => fst (apply_op fo t o) = RcOk /\ doc_val (snd (apply_op fo t o)) = Some x /\ inv (snd (apply_op fo t o))
  | None => fst (apply_op fo t o) <> RcOk /\ snd (apply_op fo t o) = t
  end.
Proof.
  intros fo t o f H K P F T.
  assert (E : apply_op fo t o = root_from t (Some f)).
  { destruct K as [K|K]; [rewrite (apply_move_eq fo t o K) | rewrite (apply_copy_eq fo t o K)]; rewrite P, F; reflexivity. }
  rewrite E. rewrite <- jget_cfg_eq. destruct f as [|s r]; cbn [root_from].
  - cbn [jget fst snd]. rewrite (doc_val_good t T). repeat split; auto.
  - pose proof (find_spec (s :: r) t H) as FS. destruct (m_find t (s :: r)) as [v|].
    + destruct FS as [F1 [F2 F3]]. rewrite F1. cbn [fst snd].
      assert (G : good v) by (split; [exact F2 | apply F3; discriminate]).
      pose proof (good_copy_data t v G) as [G1 G2]. split; [reflexivity|]. split; [|exact G1].
      rewrite (doc_val_good _ G2), val_copy_data. reflexivity.
    + rewrite FS. cbn [fst snd]. split; [discriminate | reflexivity].
Qed.

(* ------------------------------------------------------------------ swap between a location and one inside it (da6f72b) *)
Theorem swap_nested_refused : forall fo t o f, p_op o = OSwap -> p_from o = Some f -> f <> [] -> is_root (p_path o) = false ->
  seg_nested f (p_path o) = true -> apply_op fo t o = (RcPatchInvalid, t).
Proof.
  intros fo t o f K F NE R N. rewrite (apply_swap_eq fo t o K), F, R, N.
  destruct f as [|s r]; [contradiction|]. reflexivity.
Qed.
