(* Proofs about JSON/Merge.v: pool and heap variants compute the MergePatch function of rfc7386; the heap variant
   neither frees twice, nor reads freed memory, nor leaks (ownership as a multiset: Permutation). *)
Require Import ZArith List Bool Lia Permutation.
Require Import IW.Lib.CInt IW.Gen.Facts IW.UT.Conv IW.JSON.Val IW.JSON.Patch IW.JSON.PatchSpec IW.JSON.Patch_proofs
               IW.JSON.Mem IW.JSON.Merge.
Import ListNotations.
Local Open Scope Z_scope. Local Open Scope bool_scope.

(* ------------------------------------------------------------------ spec helpers *)
Lemma remove_member_none : forall k ms, lookup k ms = None -> remove_member k ms = ms.
Proof.
  induction ms as [|[k' v] r IH]; simpl; intro H; auto.
  destruct (bytes_eqb k' k); [discriminate|]. rewrite IH; auto.
Qed.

Definition spec_step (tm : list (sseg * jval)) (kpv : sseg * jval) : list (sseg * jval) :=
  match snd kpv with
  | JNull => remove_member (fst kpv) tm
  | _ => match lookup (fst kpv) tm with
         | Some x => set_member (fst kpv) (merge_spec (Some x) (snd kpv)) tm
         | None => tm ++ [(fst kpv, merge_spec None (snd kpv))]
         end
  end.
Lemma merge_spec_obj : forall t pms,
  merge_spec t (JObj pms) = JObj (fold_left spec_step pms (match t with Some (JObj ms) => ms | _ => [] end)).
Proof.
  intros t pms. cbn [merge_spec]. f_equal.
  match goal with |- _ ?a pms = _ => generalize a end.
  induction pms as [|[k pv] r IH]; intro tm; [reflexivity|].
  cbn [fold_left]. rewrite <- IH. unfold spec_step. cbn [fst snd]. reflexivity.
Qed.
Lemma merge_spec_nonobj : forall t p, (forall ms, p <> JObj ms) -> merge_spec t p = p.
Proof. intros t p H. destruct p; try reflexivity. exfalso. apply (H members). reflexivity. Qed.

(* ------------------------------------------------------------------ pool mode *)
Definition pool_step (tgt pc : node) : node :=
  match n_ty pc with
  | TNull => match find_pos (mkey_match pc) (n_ch tgt) with
             | Some i => set_ch tgt (firstn i (n_ch tgt) ++ skipn (S i) (n_ch tgt))
             | None => tgt
             end
  | _ => match find_pos (mkey_match pc) (n_ch tgt) with
         | Some i => match nth_error (n_ch tgt) i with
                     | None => tgt
                     | Some c => let src := merge_pool (Some c) pc in
                                 set_child tgt i (match n_ty pc with TObj => src | _ => copy_data c src end)
                     end
         | None => set_ch tgt (n_ch tgt ++ [merge_pool None pc])
         end
  end.
Definition pool_t0 (t : option node) (pkl : Z) (pkey : list Z) : node :=
  match t with
  | None => Node pkl pkey TObj 0 [] []
  | Some t => match n_ty t with TObj => t | _ => reset_obj t end
  end.
Lemma merge_pool_unfold : forall t pkl pkey pty pvi pvs pch,
  merge_pool t (Node pkl pkey pty pvi pvs pch) =
  match pty with
  | TObj => fold_left pool_step pch (pool_t0 t pkl pkey)
  | _ => Node pkl pkey pty pvi pvs pch
  end.
Proof.
  intros. destruct pty; try reflexivity. cbn [merge_pool]. fold (pool_t0 t pkl pkey).
  generalize (pool_t0 t pkl pkey). induction pch as [|pc r IH]; intro tgt; [reflexivity|].
  cbn [fold_left]. rewrite <- IH. reflexivity.
Qed.

Lemma mkey_match_spec : forall pc c, key_ok pc -> mkey_match pc c = key_match (n_key pc) c.
Proof.
  intros pc c H. unfold mkey_match, key_match. rewrite H. rewrite andb_comm. f_equal. apply Z.eqb_sym.
Qed.

(* what the result of a merge looks like from its parent: same cached key and key length *)
Definition same_slot (a b : node) : Prop := n_kl a = n_kl b /\ n_key a = n_key b.

Definition merge_ok (t : option node) (p r : node) : Prop :=
  good r /\ val r = merge_spec (option_map val t) (val p) /\
  (n_ty p = TObj -> match t with Some t0 => same_slot r t0 | None => same_slot r p end) /\
  (n_ty p <> TObj -> r = p).
Definition opt_good (t : option node) : Prop := match t with Some t0 => good t0 | None => True end.

Lemma val_not_obj : forall p, n_ty p <> TObj -> forall ms, val p <> JObj ms.
Proof. intros [kl key ty vi vs ch] H ms. simpl in *. destruct ty; try discriminate. contradiction. Qed.
Lemma val_null : forall p, n_ty p <> TNone -> (val p = JNull <-> n_ty p = TNull).
Proof. intros [kl key ty vi vs ch] H. simpl in *. destruct ty; split; intro E; try discriminate; try reflexivity; contradiction. Qed.

Lemma pool_step_nonnull : forall tgt pc, n_ty pc <> TNull ->
  pool_step tgt pc =
  match find_pos (mkey_match pc) (n_ch tgt) with
  | Some i => match nth_error (n_ch tgt) i with
              | None => tgt
              | Some c => set_child tgt i (match n_ty pc with TObj => merge_pool (Some c) pc | _ => copy_data c (merge_pool (Some c) pc) end)
              end
  | None => set_ch tgt (n_ch tgt ++ [merge_pool None pc])
  end.
Proof. intros tgt pc H. unfold pool_step. destruct (n_ty pc); try reflexivity. contradiction. Qed.
Lemma spec_step_nonnull : forall tm k pv, pv <> JNull ->
  spec_step tm (k, pv) = match lookup k tm with
                         | Some x => set_member k (merge_spec (Some x) pv) tm
                         | None => tm ++ [(k, merge_spec None pv)]
                         end.
Proof. intros tm k pv H. unfold spec_step. cbn [fst snd]. destruct pv; try reflexivity. contradiction. Qed.

Lemma pool_step_spec : forall tgt pc tm, inv tgt -> n_ty tgt = TObj -> val tgt = JObj tm -> good pc -> key_ok pc ->
  (forall t, opt_good t -> merge_ok t pc (merge_pool t pc)) ->
  inv (pool_step tgt pc) /\ n_ty (pool_step tgt pc) = TObj /\ same_slot (pool_step tgt pc) tgt /\
  val (pool_step tgt pc) = JObj (spec_step tm (kv pc)).
Proof.
  intros tgt pc tm H T V [Gp Np] K IH. pose proof H as H0. apply inv_unfold in H. destruct H as [Hg Ht]. rewrite T in Ht.
  rewrite (val_obj tgt T) in V. assert (V' : tm = map kv (n_ch tgt)) by (inversion V; reflexivity). clear V. subst tm.
  pose proof (obj_pos (n_key pc) (n_ch tgt) Ht) as P.
  assert (CP : child_pos tgt (n_key pc) = find_pos (key_match (n_key pc)) (n_ch tgt)) by (unfold child_pos; rewrite T; reflexivity).
  assert (FE : find_pos (mkey_match pc) (n_ch tgt) = find_pos (key_match (n_key pc)) (n_ch tgt)).
  { apply find_pos_ext. intros c _. apply mkey_match_spec. exact K. }
  change (kv pc) with (n_key pc, val pc). destruct (ty_eqb (n_ty pc) TNull) eqn:TN.
  - (* null: delete *)
    apply ty_eqb_eq in TN. unfold pool_step, spec_step. cbn [fst snd]. rewrite TN, FE.
    replace (val pc) with JNull by (symmetry; apply val_null; [exact Np | exact TN]).
    destruct (find_pos (key_match (n_key pc)) (n_ch tgt)) as [i|].
    + destruct P as [c [A [B [L [R _]]]]]. rewrite n_ty_set_ch. unfold same_slot. rewrite n_kl_set_ch, n_key_set_ch.
      repeat split; auto.
      * apply inv_unfold. rewrite n_ty_set_ch, n_ch_set_ch, T.
        split; apply Forall_app2; try apply Forall_firstn; try apply Forall_skipn; auto.
      * rewrite val_obj by (rewrite n_ty_set_ch; exact T). rewrite n_ch_set_ch, <- R. reflexivity.
    + unfold same_slot. repeat split; auto. rewrite (val_obj tgt T). rewrite remove_member_none; auto.
  - (* anything else: merge into the member or append *)
    assert (TN' : n_ty pc <> TNull) by (intro E; rewrite E in TN; discriminate).
    assert (VN : val pc <> JNull) by (intro E; apply val_null in E; auto).
    rewrite (pool_step_nonnull tgt pc TN'), (spec_step_nonnull _ (n_key pc) (val pc) VN), FE.
    destruct (find_pos (key_match (n_key pc)) (n_ch tgt)) as [i|] eqn:F.
    + destruct P as [c [A [B [L _]]]]. rewrite A. rewrite L.
      assert (Gc : good c) by (eapply Forall_nth; eauto).
      destruct (IH (Some c) Gc) as [M1 [M2 [M3 M4]]]. cbn [option_map] in M2.
      set (c' := match n_ty pc with TObj => merge_pool (Some c) pc | _ => copy_data c (merge_pool (Some c) pc) end).
      assert (C' : good c' /\ n_kl c' = n_kl c /\ n_key c' = n_key c /\ val c' = merge_spec (Some (val c)) (val pc)).
      { unfold c'. destruct (ty_eqb (n_ty pc) TObj) eqn:TO.
        - apply ty_eqb_eq in TO. rewrite TO. destruct (M3 TO) as [S1 S2]. repeat split; auto; apply M1.
        - assert (TO' : n_ty pc <> TObj) by (intro E; rewrite E in TO; discriminate).
          rewrite (M4 TO').
          replace (match n_ty pc with TObj => pc | _ => copy_data c pc end) with (copy_data c pc)
            by (destruct (n_ty pc); try reflexivity; contradiction).
          split; [apply good_copy_data; split; auto|]. split; [destruct c; reflexivity|]. split; [destruct c; reflexivity|].
          rewrite val_copy_data. symmetry. apply merge_spec_nonobj. apply val_not_obj. exact TO'. }
      destruct C' as [C1 [C2 [C3 C4]]].
      destruct (set_child_spec tgt (n_key pc) i c c' H0 CP A C1 C2 C3) as [Q1 [Q2 [Q3 [Q4 Q5]]]].
      unfold same_slot. repeat split; auto; try congruence.
      rewrite Q2. unfold upd_val. rewrite (val_obj tgt T). rewrite C4. reflexivity.
    + rewrite P.
      destruct (IH None I) as [M1 [M2 [M3 M4]]]. cbn [option_map] in M2.
      assert (KS : n_key (merge_pool None pc) = n_key pc /\ n_kl (merge_pool None pc) = n_kl pc).
      { destruct (ty_eqb (n_ty pc) TObj) eqn:TO.
        - apply ty_eqb_eq in TO. destruct (M3 TO) as [S1 S2]. auto.
        - assert (TO' : n_ty pc <> TObj) by (intro E; rewrite E in TO; discriminate). rewrite (M4 TO'). auto. }
      destruct KS as [KS1 KS2].
      rewrite n_ty_set_ch. unfold same_slot. rewrite n_kl_set_ch, n_key_set_ch. repeat split; auto.
      * apply inv_unfold. rewrite n_ty_set_ch, n_ch_set_ch, T. split; apply Forall_app2; auto.
        constructor; auto. unfold key_ok in *. congruence.
      * rewrite val_obj by (rewrite n_ty_set_ch; exact T). rewrite n_ch_set_ch, map_app. cbn [map].
        unfold kv at 2. rewrite KS1, M2. reflexivity.
Qed.

Lemma pool_fold_spec : forall pch tgt tm, Forall good pch -> Forall key_ok pch ->
  Forall (fun pc => forall t, opt_good t -> merge_ok t pc (merge_pool t pc)) pch ->
  inv tgt -> n_ty tgt = TObj -> val tgt = JObj tm ->
  inv (fold_left pool_step pch tgt) /\ n_ty (fold_left pool_step pch tgt) = TObj /\
  same_slot (fold_left pool_step pch tgt) tgt /\
  val (fold_left pool_step pch tgt) = JObj (fold_left spec_step (map kv pch) tm).
Proof.
  induction pch as [|pc r IHr]; intros tgt tm G K IH H T V.
  - cbn [fold_left map]. unfold same_slot. repeat split; auto.
  - inversion G as [|? ? Gp Gr]; subst. inversion K as [|? ? Kp Kr]; subst. inversion IH as [|? ? Ip Ir]; subst.
    cbn [fold_left map].
    destruct (pool_step_spec tgt pc tm H T V Gp Kp Ip) as [S1 [S2 [S3 S4]]].
    destruct (IHr (pool_step tgt pc) _ Gr Kr Ir S1 S2 S4) as [R1 [R2 [R3 R4]]].
    unfold same_slot in *. repeat split; auto; try congruence; destruct R3, S3; congruence.
Qed.

Theorem merge_pool_ok : forall p, good p -> forall t, opt_good t -> merge_ok t p (merge_pool t p).
Proof.
  induction p as [pkl pkey pty pvi pvs pch IH] using node_ind'. intros [Hp Np] t Gt.
  rewrite merge_pool_unfold. simpl in Np.
  destruct (ty_eqb pty TObj) eqn:TO.
  - apply ty_eqb_eq in TO. subst pty.
    apply inv_unfold in Hp. cbn [n_ty n_ch] in Hp. destruct Hp as [Hg Hk].
    assert (IH' : Forall (fun pc => forall t, opt_good t -> merge_ok t pc (merge_pool t pc)) pch).
    { rewrite Forall_forall in IH, Hg. apply Forall_forall. intros pc Hpc. apply IH; auto. }
    set (t0 := pool_t0 t pkl pkey).
    set (tm0 := match option_map val t with Some (JObj ms) => ms | _ => [] end).
    assert (T0 : inv t0 /\ n_ty t0 = TObj /\ val t0 = JObj tm0 /\
                 match t with Some t1 => same_slot t0 t1 | None => n_kl t0 = pkl /\ n_key t0 = pkey end).
    { unfold t0, tm0, pool_t0. destruct t as [t1|]; cbn [option_map].
      - destruct Gt as [G1 G2]. destruct (ty_eqb (n_ty t1) TObj) eqn:T1.
        + apply ty_eqb_eq in T1. rewrite T1. unfold same_slot. repeat split; auto. rewrite (val_obj t1 T1). reflexivity.
        + assert (T1' : n_ty t1 <> TObj) by (intro E; rewrite E in T1; discriminate).
          replace (match n_ty t1 with TObj => t1 | _ => reset_obj t1 end) with (reset_obj t1)
            by (destruct (n_ty t1); try reflexivity; contradiction).
          destruct t1 as [kl key ty vi vs ch]. unfold same_slot. simpl in *. repeat split; auto.
          destruct ty; try reflexivity. contradiction.
      - simpl. repeat split; auto. }
    destruct T0 as [A1 [A2 [A3 A4]]].
    destruct (pool_fold_spec pch t0 tm0 Hg Hk IH' A1 A2 A3) as [R1 [R2 [R3 R4]]].
    unfold merge_ok. split; [split; [exact R1 | rewrite R2; discriminate]|]. split.
    + rewrite R4. cbn [val]. rewrite merge_spec_obj. reflexivity.
    + split; [|intro E; exfalso; apply E; reflexivity]. intros _. unfold same_slot in *.
      destruct t as [t1|]; cbn [n_kl n_key]; destruct R3; destruct A4; split; congruence.
  - assert (TO' : pty <> TObj) by (intro E; rewrite E in TO; discriminate).
    replace (match pty with TObj => fold_left pool_step pch (pool_t0 t pkl pkey) | _ => Node pkl pkey pty pvi pvs pch end)
      with (Node pkl pkey pty pvi pvs pch) by (destruct pty; try reflexivity; contradiction).
    unfold merge_ok. split; [split; auto|]. split.
    + symmetry. apply merge_spec_nonobj. apply val_not_obj. exact TO'.
    + split; [intro E; contradiction | reflexivity].
Qed.


(* ------------------------------------------------------------------ the same walk with the patch nodes passed through
   `adopt` where the pool variant links the patch node itself (heap variant: adopt = clone) *)
Section Gen.
  Variable adopt : node -> node.
  Hypothesis adopt_ok : forall p, good p -> good (adopt p) /\ val (adopt p) = val p /\ n_kl (adopt p) = n_kl p /\
                                             (key_ok p -> n_key (adopt p) = n_key p).

  Fixpoint merge_gen (t : option node) (p : node) {struct p} : node :=
    match p with
    | Node pkl pkey pty _ _ pch =>
      match pty with
      | TObj =>
        (fix go (tgt : node) (l : list node) {struct l} : node :=
           match l with
           | [] => tgt
           | pc :: l' =>
             go (match n_ty pc with
                 | TNull => match find_pos (mkey_match pc) (n_ch tgt) with
                            | Some i => set_ch tgt (firstn i (n_ch tgt) ++ skipn (S i) (n_ch tgt))
                            | None => tgt
                            end
                 | _ => match find_pos (mkey_match pc) (n_ch tgt) with
                        | Some i => match nth_error (n_ch tgt) i with
                                    | None => tgt
                                    | Some c => set_child tgt i (match n_ty pc with
                                                                 | TObj => merge_gen (Some c) pc
                                                                 | _ => copy_data c (merge_gen (Some c) pc) end)
                                    end
                        | None => set_ch tgt (n_ch tgt ++ [merge_gen None pc])
                        end
                 end) l'
           end) (pool_t0 t pkl pkey) pch
      | _ => adopt p
      end
    end.
  Definition gen_step (tgt pc : node) : node :=
    match n_ty pc with
    | TNull => match find_pos (mkey_match pc) (n_ch tgt) with
               | Some i => set_ch tgt (firstn i (n_ch tgt) ++ skipn (S i) (n_ch tgt))
               | None => tgt
               end
    | _ => match find_pos (mkey_match pc) (n_ch tgt) with
           | Some i => match nth_error (n_ch tgt) i with
                       | None => tgt
                       | Some c => let src := merge_gen (Some c) pc in
                                   set_child tgt i (match n_ty pc with TObj => src | _ => copy_data c src end)
                       end
           | None => set_ch tgt (n_ch tgt ++ [merge_gen None pc])
           end
    end.
  
  Lemma merge_gen_unfold : forall t pkl pkey pty pvi pvs pch,
    merge_gen t (Node pkl pkey pty pvi pvs pch) =
    match pty with
    | TObj => fold_left gen_step pch (pool_t0 t pkl pkey)
    | _ => adopt (Node pkl pkey pty pvi pvs pch)
    end.
  Proof.
    intros. destruct pty; try reflexivity. cbn [merge_gen].
    generalize (pool_t0 t pkl pkey). induction pch as [|pc r IH]; intro tgt; [reflexivity|].
    cbn [fold_left]. rewrite <- IH. reflexivity.
  Qed.
  
  
Definition gmerge_ok (t : option node) (p r : node) : Prop :=
  good r /\ val r = merge_spec (option_map val t) (val p) /\
  (n_ty p = TObj -> match t with Some t0 => same_slot r t0 | None => same_slot r p end) /\
  (n_ty p <> TObj -> r = adopt p).


Lemma gen_step_nonnull : forall tgt pc, n_ty pc <> TNull ->
  gen_step tgt pc =
  match find_pos (mkey_match pc) (n_ch tgt) with
  | Some i => match nth_error (n_ch tgt) i with
              | None => tgt
              | Some c => set_child tgt i (match n_ty pc with TObj => merge_gen (Some c) pc | _ => copy_data c (merge_gen (Some c) pc) end)
              end
  | None => set_ch tgt (n_ch tgt ++ [merge_gen None pc])
  end.
Proof. intros tgt pc H. unfold gen_step. destruct (n_ty pc); try reflexivity. contradiction. Qed.

Lemma gen_step_spec : forall tgt pc tm, inv tgt -> n_ty tgt = TObj -> val tgt = JObj tm -> good pc -> key_ok pc ->
  (forall t, opt_good t -> gmerge_ok t pc (merge_gen t pc)) ->
  inv (gen_step tgt pc) /\ n_ty (gen_step tgt pc) = TObj /\ same_slot (gen_step tgt pc) tgt /\
  val (gen_step tgt pc) = JObj (spec_step tm (kv pc)).
Proof.
  intros tgt pc tm H T V [Gp Np] K IH. pose proof H as H0. apply inv_unfold in H. destruct H as [Hg Ht]. rewrite T in Ht.
  rewrite (val_obj tgt T) in V. assert (V' : tm = map kv (n_ch tgt)) by (inversion V; reflexivity). clear V. subst tm.
  pose proof (obj_pos (n_key pc) (n_ch tgt) Ht) as P.
  assert (CP : child_pos tgt (n_key pc) = find_pos (key_match (n_key pc)) (n_ch tgt)) by (unfold child_pos; rewrite T; reflexivity).
  assert (FE : find_pos (mkey_match pc) (n_ch tgt) = find_pos (key_match (n_key pc)) (n_ch tgt)).
  { apply find_pos_ext. intros c _. apply mkey_match_spec. exact K. }
  change (kv pc) with (n_key pc, val pc). destruct (ty_eqb (n_ty pc) TNull) eqn:TN.
  - (* null: delete *)
    apply ty_eqb_eq in TN. unfold gen_step, spec_step. cbn [fst snd]. rewrite TN, FE.
    replace (val pc) with JNull by (symmetry; apply val_null; [exact Np | exact TN]).
    destruct (find_pos (key_match (n_key pc)) (n_ch tgt)) as [i|].
    + destruct P as [c [A [B [L [R _]]]]]. rewrite n_ty_set_ch. unfold same_slot. rewrite n_kl_set_ch, n_key_set_ch.
      repeat split; auto.
      * apply inv_unfold. rewrite n_ty_set_ch, n_ch_set_ch, T.
        split; apply Forall_app2; try apply Forall_firstn; try apply Forall_skipn; auto.
      * rewrite val_obj by (rewrite n_ty_set_ch; exact T). rewrite n_ch_set_ch, <- R. reflexivity.
    + unfold same_slot. repeat split; auto. rewrite (val_obj tgt T). rewrite remove_member_none; auto.
  - (* anything else: merge into the member or append *)
    assert (TN' : n_ty pc <> TNull) by (intro E; rewrite E in TN; discriminate).
    assert (VN : val pc <> JNull) by (intro E; apply val_null in E; auto).
    rewrite (gen_step_nonnull tgt pc TN'), (spec_step_nonnull _ (n_key pc) (val pc) VN), FE.
    destruct (find_pos (key_match (n_key pc)) (n_ch tgt)) as [i|] eqn:F.
    + destruct P as [c [A [B [L _]]]]. rewrite A. rewrite L.
      assert (Gc : good c) by (eapply Forall_nth; eauto).
      destruct (IH (Some c) Gc) as [M1 [M2 [M3 M4]]]. cbn [option_map] in M2.
      set (c' := match n_ty pc with TObj => merge_gen (Some c) pc | _ => copy_data c (merge_gen (Some c) pc) end).
      assert (C' : good c' /\ n_kl c' = n_kl c /\ n_key c' = n_key c /\ val c' = merge_spec (Some (val c)) (val pc)).
      { unfold c'. destruct (ty_eqb (n_ty pc) TObj) eqn:TO.
        - apply ty_eqb_eq in TO. rewrite TO. destruct (M3 TO) as [S1 S2]. repeat split; auto; apply M1.
        - assert (TO' : n_ty pc <> TObj) by (intro E; rewrite E in TO; discriminate).
          rewrite (M4 TO').
          replace (match n_ty pc with TObj => adopt pc | _ => copy_data c (adopt pc) end) with (copy_data c (adopt pc))
            by (destruct (n_ty pc); try reflexivity; contradiction).
          destruct (adopt_ok pc (conj Gp Np)) as [AD1 [AD2 _]].
          split; [apply good_copy_data; exact AD1|]. split; [destruct c; reflexivity|]. split; [destruct c; reflexivity|].
          rewrite val_copy_data, AD2. symmetry. apply merge_spec_nonobj. apply val_not_obj. exact TO'. }
      destruct C' as [C1 [C2 [C3 C4]]].
      destruct (set_child_spec tgt (n_key pc) i c c' H0 CP A C1 C2 C3) as [Q1 [Q2 [Q3 [Q4 Q5]]]].
      unfold same_slot. repeat split; auto; try congruence.
      rewrite Q2. unfold upd_val. rewrite (val_obj tgt T). rewrite C4. reflexivity.
    + rewrite P.
      destruct (IH None I) as [M1 [M2 [M3 M4]]]. cbn [option_map] in M2.
      assert (KS : n_key (merge_gen None pc) = n_key pc /\ n_kl (merge_gen None pc) = n_kl pc).
      { destruct (ty_eqb (n_ty pc) TObj) eqn:TO.
        - apply ty_eqb_eq in TO. destruct (M3 TO) as [S1 S2]. auto.
        - assert (TO' : n_ty pc <> TObj) by (intro E; rewrite E in TO; discriminate). rewrite (M4 TO').
          destruct (adopt_ok pc (conj Gp Np)) as [_ [_ [AD3 AD4]]]. split; [apply AD4; exact K | exact AD3]. }
      destruct KS as [KS1 KS2].
      rewrite n_ty_set_ch. unfold same_slot. rewrite n_kl_set_ch, n_key_set_ch. repeat split; auto.
      * apply inv_unfold. rewrite n_ty_set_ch, n_ch_set_ch, T. split; apply Forall_app2; auto.
        constructor; auto. unfold key_ok in *. congruence.
      * rewrite val_obj by (rewrite n_ty_set_ch; exact T). rewrite n_ch_set_ch, map_app. cbn [map].
        unfold kv at 2. rewrite KS1, M2. reflexivity.
Qed.

Lemma gen_fold_spec : forall pch tgt tm, Forall good pch -> Forall key_ok pch ->
  Forall (fun pc => forall t, opt_good t -> gmerge_ok t pc (merge_gen t pc)) pch ->
  inv tgt -> n_ty tgt = TObj -> val tgt = JObj tm ->
  inv (fold_left gen_step pch tgt) /\ n_ty (fold_left gen_step pch tgt) = TObj /\
  same_slot (fold_left gen_step pch tgt) tgt /\
  val (fold_left gen_step pch tgt) = JObj (fold_left spec_step (map kv pch) tm).
Proof.
  induction pch as [|pc r IHr]; intros tgt tm G K IH H T V.
  - cbn [fold_left map]. unfold same_slot. repeat split; auto.
  - inversion G as [|? ? Gp Gr]; subst. inversion K as [|? ? Kp Kr]; subst. inversion IH as [|? ? Ip Ir]; subst.
    cbn [fold_left map].
    destruct (gen_step_spec tgt pc tm H T V Gp Kp Ip) as [S1 [S2 [S3 S4]]].
    destruct (IHr (gen_step tgt pc) _ Gr Kr Ir S1 S2 S4) as [R1 [R2 [R3 R4]]].
    unfold same_slot in *. repeat split; auto; try congruence; destruct R3, S3; congruence.
Qed.

Theorem merge_gen_ok : forall p, good p -> forall t, opt_good t -> gmerge_ok t p (merge_gen t p).
Proof.
  induction p as [pkl pkey pty pvi pvs pch IH] using node_ind'. intros [Hp Np] t Gt.
  rewrite merge_gen_unfold. simpl in Np.
  destruct (ty_eqb pty TObj) eqn:TO.
  - apply ty_eqb_eq in TO. subst pty.
    apply inv_unfold in Hp. cbn [n_ty n_ch] in Hp. destruct Hp as [Hg Hk].
    assert (IH' : Forall (fun pc => forall t, opt_good t -> gmerge_ok t pc (merge_gen t pc)) pch).
    { rewrite Forall_forall in IH, Hg. apply Forall_forall. intros pc Hpc. apply IH; auto. }
    set (t0 := pool_t0 t pkl pkey).
    set (tm0 := match option_map val t with Some (JObj ms) => ms | _ => [] end).
    assert (T0 : inv t0 /\ n_ty t0 = TObj /\ val t0 = JObj tm0 /\
                 match t with Some t1 => same_slot t0 t1 | None => n_kl t0 = pkl /\ n_key t0 = pkey end).
    { unfold t0, tm0, pool_t0. destruct t as [t1|]; cbn [option_map].
      - destruct Gt as [G1 G2]. destruct (ty_eqb (n_ty t1) TObj) eqn:T1.
        + apply ty_eqb_eq in T1. rewrite T1. unfold same_slot. repeat split; auto. rewrite (val_obj t1 T1). reflexivity.
        + assert (T1' : n_ty t1 <> TObj) by (intro E; rewrite E in T1; discriminate).
          replace (match n_ty t1 with TObj => t1 | _ => reset_obj t1 end) with (reset_obj t1)
            by (destruct (n_ty t1); try reflexivity; contradiction).
          destruct t1 as [kl key ty vi vs ch]. unfold same_slot. simpl in *. repeat split; auto.
          destruct ty; try reflexivity. contradiction.
      - simpl. repeat split; auto. }
    destruct T0 as [A1 [A2 [A3 A4]]].
    destruct (gen_fold_spec pch t0 tm0 Hg Hk IH' A1 A2 A3) as [R1 [R2 [R3 R4]]].
    unfold gmerge_ok. split; [split; [exact R1 | rewrite R2; discriminate]|]. split.
    + rewrite R4. cbn [val]. rewrite merge_spec_obj. reflexivity.
    + split; [|intro E; exfalso; apply E; reflexivity]. intros _. unfold same_slot in *.
      destruct t as [t1|]; cbn [n_kl n_key]; destruct R3; destruct A4; split; congruence.
  - assert (TO' : pty <> TObj) by (intro E; rewrite E in TO; discriminate).
    replace (match pty with TObj => fold_left gen_step pch (pool_t0 t pkl pkey) | _ => adopt (Node pkl pkey pty pvi pvs pch) end)
      with (adopt (Node pkl pkey pty pvi pvs pch)) by (destruct pty; try reflexivity; contradiction).
    destruct (adopt_ok (Node pkl pkey pty pvi pvs pch) (conj Hp Np)) as [AD1 [AD2 _]].
    unfold gmerge_ok. split; [exact AD1|]. split.
    + rewrite AD2. symmetry. apply merge_spec_nonobj. apply val_not_obj. exact TO'.
    + split; [intro E; contradiction | reflexivity].
Qed.

End Gen.

(* ================================================================== heap mode *)
Section HnodeInd.
  Variable P : hnode -> Prop.
  Hypothesis H : forall id kid kl key ty vi sid vs ch, Forall P ch -> P (HNode id kid kl key ty vi sid vs ch).
  Fixpoint hnode_ind' (n : hnode) : P n :=
    match n with
    | HNode id kid kl key ty vi sid vs ch =>
      H id kid kl key ty vi sid vs ch
        ((fix go (l : list hnode) : Forall P l :=
            match l with [] => Forall_nil P | c :: r => Forall_cons c (hnode_ind' c) (go r) end) ch)
    end.
End HnodeInd.

(* the allocations a heap tree owns, in the order destroy frees them *)
Definition oid (o : option nat) : list nat := match o with Some i => [i] | None => [] end.
Definition sid_of (ty : jty) (sid : option nat) : list nat := match ty with TStr => oid sid | _ => [] end.
Fixpoint owns (n : hnode) : list nat :=
  match n with
  | HNode id kid _ _ ty _ sid _ ch =>
    (if is_container ty then (fix go (l : list hnode) : list nat := match l with [] => [] | c :: r => owns c ++ go r end) ch else [])
    ++ oid kid ++ sid_of ty sid ++ [id]
  end.
Definition owns_ch (l : list hnode) : list nat := flat_map owns l.
Definition shell (n : hnode) : list nat := oid (hn_kid n) ++ sid_of (hn_ty n) (hn_sid n) ++ [hn_id n].
Lemma owns_unfold : forall n, owns n = (if is_container (hn_ty n) then owns_ch (hn_ch n) else []) ++ shell n.
Proof.
  intros [id kid kl key ty vi sid vs ch]. cbn [owns hn_ty hn_ch]. unfold shell. cbn [hn_kid hn_ty hn_sid hn_id].
  reflexivity.
Qed.
Lemma owns_ch_app : forall a b, owns_ch (a ++ b) = owns_ch a ++ owns_ch b.
Proof. intros. apply flat_map_app. Qed.
Lemma owns_ch_cons : forall c r, owns_ch (c :: r) = owns c ++ owns_ch r.
Proof. reflexivity. Qed.

(* ------------------------------------------------------------------ the heap as a multiset *)
Lemma remove1_perm : forall x l, In x l -> exists l', remove1 x l = Some l' /\ Permutation l (x :: l').
Proof.
  induction l as [|y r IH]; intro H; [contradiction|]. simpl.
  destruct (Nat.eqb_spec x y) as [E|E].
  - subst. exists r. split; auto.
  - destruct H as [H|H]; [congruence|]. destruct (IH H) as [l' [A B]]. rewrite A. exists (y :: l'). split; auto.
    apply perm_trans with (y :: x :: l'); [apply perm_skip; exact B | apply perm_swap].
Qed.
Lemma free_perm : forall h x R, Permutation (h_live h) (x :: R) ->
  exists h', h_free h x = inr h' /\ Permutation (h_live h') R /\ h_next h' = h_next h.
Proof.
  intros h x R P. unfold h_free.
  assert (I : In x (h_live h)) by (eapply Permutation_in; [apply Permutation_sym; exact P | left; reflexivity]).
  destruct (remove1_perm x _ I) as [l' [A B]]. rewrite A. eexists. split; [reflexivity|]. split; [|reflexivity].
  cbn [h_live]. apply Permutation_cons_inv with x. apply perm_trans with (h_live h); [apply Permutation_sym; exact B | exact P].
Qed.
Lemma free_opt_perm : forall h o R, Permutation (h_live h) (oid o ++ R) ->
  exists h', h_free_opt h o = inr h' /\ Permutation (h_live h') R.
Proof.
  intros h [x|] R P; cbn [oid app h_free_opt] in *.
  - destruct (free_perm h x R P) as [h' [A [B _]]]. exists h'. auto.
  - exists h. auto.
Qed.
Lemma live_in : forall h L x, Permutation (h_live h) L -> In x L -> h_is_live h x = true.
Proof.
  intros h L x P I. unfold h_is_live. apply existsb_exists. exists x. split; [|apply Nat.eqb_refl].
  eapply Permutation_in; [apply Permutation_sym; exact P | exact I].
Qed.

Lemma destroy_unfold : forall h id kid kl key ty vi sid vs ch,
  destroy h (HNode id kid kl key ty vi sid vs ch) =
  bindh (if is_container ty then destroy_list h ch else inr h)
        (fun h1 => bindh (h_free_opt h1 kid)
        (fun h2 => bindh (match ty with TStr => h_free_opt h2 sid | _ => inr h2 end)
        (fun h3 => h_free h3 id))).
Proof.
  intros. reflexivity.
Qed.

Lemma destroy_perm : forall t h F, Permutation (h_live h) (owns t ++ F) ->
  exists h', destroy h t = inr h' /\ Permutation (h_live h') F.
Proof.
  induction t as [id kid kl key ty vi sid vs ch IH] using hnode_ind'. intros h F P.
  rewrite destroy_unfold. rewrite owns_unfold in P. cbn [hn_ty hn_ch] in P. unfold shell in P. cbn [hn_kid hn_ty hn_sid hn_id] in P.
  assert (L : forall l, Forall (fun t => forall h F, Permutation (h_live h) (owns t ++ F) ->
                                  exists h', destroy h t = inr h' /\ Permutation (h_live h') F) l ->
              forall h F, Permutation (h_live h) (owns_ch l ++ F) -> exists h', destroy_list h l = inr h' /\ Permutation (h_live h') F).
  { induction l as [|c r IHr]; intros HI h0 F0 P0.
    - exists h0. auto.
    - inversion HI as [|? ? Hc Hr]; subst. rewrite owns_ch_cons, <- app_assoc in P0.
      destruct (Hc h0 _ P0) as [h1 [A B]]. cbn [destroy_list]. rewrite A. cbn [bindh]. apply IHr; auto. }
  assert (S1 : exists h1, (if is_container ty then destroy_list h ch else inr h) = inr h1 /\
                          Permutation (h_live h1) (oid kid ++ sid_of ty sid ++ [id] ++ F)).
  { destruct (is_container ty).
    - rewrite <- !app_assoc in P. apply (L ch IH h _ P).
    - exists h. split; auto. cbn [app] in P. rewrite <- !app_assoc in P. exact P. }
  destruct S1 as [h1 [E1 P1]]. rewrite E1. cbn [bindh].
  destruct (free_opt_perm h1 kid _ P1) as [h2 [E2 P2]]. rewrite E2. cbn [bindh].
  assert (S3 : exists h3, match ty with TStr => h_free_opt h2 sid | _ => inr h2 end = inr h3 /\ Permutation (h_live h3) ([id] ++ F)).
  { unfold sid_of in P2. destruct ty; try (exists h2; split; [reflexivity | exact P2]). apply free_opt_perm. exact P2. }
  destruct S3 as [h3 [E3 P3]]. rewrite E3. cbn [bindh].
  destruct (free_perm h3 id F P3) as [h4 [E4 [P4 _]]]. exists h4. auto.
Qed.

Lemma destroy_list_perm : forall l h F, Permutation (h_live h) (owns_ch l ++ F) ->
  exists h', destroy_list h l = inr h' /\ Permutation (h_live h') F.
Proof.
  induction l as [|c r IH]; intros h F P.
  - exists h. auto.
  - rewrite owns_ch_cons, <- app_assoc in P. destruct (destroy_perm c h _ P) as [h1 [A B]].
    cbn [destroy_list]. rewrite A. cbn [bindh]. apply IH. exact B.
Qed.

(* ------------------------------------------------------------------ jbn_clone into the heap *)
Section CL.
  Variable wk : bool.
  Fixpoint clone_list (h : heap) (l : list node) {struct l} : heap * list hnode :=
    match l with
    | [] => (h, [])
    | c :: l' => let '(h', c') := clone_h h wk c in let '(h'', r') := clone_list h' l' in (h'', c' :: r')
    end.
End CL.
Lemma clone_h_unfold : forall h wk kl key ty vi vs ch,
  clone_h h wk (Node kl key ty vi vs ch) =
  let '(id, h1) := h_alloc h in
  let '(kid, h2) := if wk then let '(k, h') := h_alloc h1 in (Some k, h') else (None, h1) in
  let '(sid, h3) := match ty with TStr => let '(s, h') := h_alloc h2 in (Some s, h') | _ => (None, h2) end in
  let wk' := match ty with TObj => true | _ => false end in
  let '(h4, ch') := if is_container ty then clone_list wk' h3 ch else (h3, []) in
  (h4, HNode id kid kl (if wk then firstn (Z.to_nat kl) key else []) ty vi sid vs
             (match ty with TArr => hrenumber 0 ch' | _ => ch' end)).
Proof. intros. reflexivity. Qed.

Lemma owns_hrenumber : forall l i, owns_ch (hrenumber i l) = owns_ch l.
Proof.
  induction l as [|[id k kl key t v s vs c] r IH]; intro i; [reflexivity|].
  cbn [hrenumber]. rewrite !owns_ch_cons, IH. reflexivity.
Qed.
Lemma forget_hrenumber : forall l i, map forget (hrenumber i l) = renumber i (map forget l).
Proof.
  induction l as [|[id k kl key t v s vs c] r IH]; intro i; [reflexivity|].
  cbn [hrenumber map renumber]. rewrite IH. reflexivity.
Qed.

Definition clone_as (wk : bool) (p : node) : node := if wk then clone p else set_key (clone p) [].

Lemma clone_h_spec : forall p wk h,
  Permutation (h_live (fst (clone_h h wk p))) (owns (snd (clone_h h wk p)) ++ h_live h) /\
  forget (snd (clone_h h wk p)) = clone_as wk p.
Proof.
  induction p as [kl key ty vi vs ch IH] using node_ind'. intros wk h.
  assert (L : forall l, Forall (fun p => forall wk h,
                 Permutation (h_live (fst (clone_h h wk p))) (owns (snd (clone_h h wk p)) ++ h_live h) /\
                 forget (snd (clone_h h wk p)) = clone_as wk p) l ->
              forall wk h, Permutation (h_live (fst (clone_list wk h l))) (owns_ch (snd (clone_list wk h l)) ++ h_live h) /\
                           map forget (snd (clone_list wk h l)) = map (clone_as wk) l).
  { induction l as [|c r IHr]; intros HI wk0 h0.
    - simpl. split; auto.
    - inversion HI as [|? ? Hc Hr]; subst. cbn [clone_list].
      destruct (Hc wk0 h0) as [A1 A2]. destruct (clone_h h0 wk0 c) as [h1 c'] eqn:E1. cbn [fst snd] in A1, A2.
      destruct (IHr Hr wk0 h1) as [B1 B2]. destruct (clone_list wk0 h1 r) as [h2 r'] eqn:E2. cbn [fst snd] in *.
      split.
      + rewrite owns_ch_cons. apply perm_trans with (owns_ch r' ++ h_live h1); auto.
        apply perm_trans with (owns_ch r' ++ owns c' ++ h_live h0).
        * apply Permutation_app_head. exact A1.
        * rewrite !app_assoc. apply Permutation_app_tail. apply Permutation_app_comm.
      + cbn [map]. rewrite A2, B2. reflexivity. }
  rewrite clone_h_unfold.
  destruct (h_alloc h) as [id h1] eqn:E1.
  assert (A1 : h_live h1 = id :: h_live h) by (unfold h_alloc in E1; inversion E1; reflexivity). clear E1.
  assert (KID : exists kid h2, (if wk then let '(k, h') := h_alloc h1 in (Some k, h') else (None, h1)) = (kid, h2) /\
                               Permutation (h_live h2) (oid kid ++ [id] ++ h_live h)).
  { destruct wk.
    - eexists. eexists. split; [reflexivity|]. cbn [h_alloc h_live oid app]. rewrite A1. apply Permutation_refl.
    - exists None, h1. split; [reflexivity|]. cbn [oid app]. rewrite A1. apply Permutation_refl. }
  destruct KID as [kid [h2 [E2 P2]]]. rewrite E2.
  assert (SID : exists sid h3, match ty with TStr => let '(s, h') := h_alloc h2 in (Some s, h') | _ => (None, h2) end = (sid, h3) /\
                               Permutation (h_live h3) (sid_of ty sid ++ oid kid ++ [id] ++ h_live h)).
  { destruct ty; try (exists None, h2; split; [reflexivity | exact P2]).
    eexists. eexists. split; [reflexivity|]. cbn [h_alloc h_live sid_of oid app]. apply perm_skip. exact P2. }
  destruct SID as [sid [h3 [E3 P3]]]. rewrite E3.
  set (wk' := match ty with TObj => true | _ => false end).
  destruct (is_container ty) eqn:C.
  - destruct (L ch IH wk' h3) as [Q1 Q2]. destruct (clone_list wk' h3 ch) as [h4 ch'] eqn:E4. cbn [fst snd] in *.
    split.
    + rewrite owns_unfold. cbn [hn_ty hn_ch]. rewrite C. unfold shell. cbn [hn_kid hn_ty hn_sid hn_id].
      replace (owns_ch (match ty with TArr => hrenumber 0 ch' | _ => ch' end)) with (owns_ch ch')
        by (destruct ty; auto; symmetry; apply owns_hrenumber).
      apply perm_trans with (owns_ch ch' ++ h_live h3); auto. rewrite <- !app_assoc. apply Permutation_app_head.
      apply perm_trans with (sid_of ty sid ++ oid kid ++ [id] ++ h_live h); auto.
      rewrite !app_assoc. apply Permutation_app_tail. apply Permutation_app_tail. apply Permutation_app_comm.
    + cbn [forget]. unfold clone_as. rewrite clone_unfold.
      assert (CH : map forget (match ty with TArr => hrenumber 0 ch' | _ => ch' end) =
                   match ty with TArr => renumber 0 (map (fun c => set_key c []) (map clone ch)) | TObj => map clone ch | _ => [] end).
      { destruct ty; try discriminate.
        - rewrite Q2. unfold wk', clone_as. reflexivity.
        - rewrite forget_hrenumber, Q2. unfold wk', clone_as. rewrite map_map. reflexivity. }
      rewrite CH. destruct wk; reflexivity.
  - split.
    + rewrite owns_unfold. cbn [hn_ty hn_ch fst snd]. rewrite C. unfold shell. cbn [hn_kid hn_ty hn_sid hn_id app].
      apply perm_trans with (sid_of ty sid ++ oid kid ++ [id] ++ h_live h); auto.
      rewrite !app_assoc. apply Permutation_app_tail. apply Permutation_app_tail. apply Permutation_app_comm.
    + cbn [forget snd]. unfold clone_as. rewrite clone_unfold.
      destruct ty; try discriminate; destruct wk; reflexivity.
Qed.
